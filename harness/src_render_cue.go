package main

// Renderer: Defs → CUE text (one file, `package <pkg>`, one definition `#Name` per entry), in the
// dialect cog's CUE front-end (internal/simplecue) reads.

import (
	"strconv"
	"strings"
)

// cueNullBranchStyle switches the spelling of a nullable member: "first" (default: `null | T`, with a
// default `null | T | *v`) or "mixed" (chosen by hash per member: `null | T | *v`, `T | *v | null`, and for
// plain types `*v | T | null`). In every spelling the default mark sits on the disjunction.
var cueNullBranchStyle = "first"

// cueSpellStyle switches between equivalent spellings of a scalar (same documents accepted by CUE, and
// cog reads every one of them): "canonical" (default: `time.Time`, `int64`, `uint64`, `float64`, type first:
// `int32 & >=1`), "alt" (always the other spelling: `string & time.Time`, `int`, `uint`, `number`,
// constraints first: `>=1 & <=5 & int32`, `strings.MinRunes(1) & string`) or "mixed" (chosen per node by a
// hash of the term and the node number). cog may infer another width from the alternative spelling (CUE folds
// `>=1 & <=5 & int32` into a plain bounded int); every document of the term stays valid.
var cueSpellStyle = "canonical"

type cueRenderer struct {
	seed  uint32
	node  uint32
	style map[string]int
	// canonicalOnly: inside a member that carries a default (`>=1 & <=5 & uint | *3` is refused by cog: "could
	// not infer number type"; the default mark needs the type-first spelling)
	canonicalOnly bool

	nullableCtx bool
	d           *Defs
	out         *renderOut
	useTime     bool
	useStrings  bool
}

func renderCUE(d *Defs, pkg string) renderOut {
	out := renderOut{}
	r := &cueRenderer{d: d, out: &out, style: map[string]int{}}
	if cueSpellStyle == "mixed" {
		r.seed = fnv32(d.sexp())
	}
	var body strings.Builder
	for _, it := range d.Items {
		expr, attr := r.tyAttr(it.Ty, "", true)
		body.WriteString("#" + it.Name + ": " + expr + attr + "\n\n")
	}
	var b strings.Builder
	b.WriteString("package " + pkg + "\n\n")
	if r.useTime || r.useStrings {
		b.WriteString("import (\n")
		if r.useStrings {
			b.WriteString("\t\"strings\"\n")
		}
		if r.useTime {
			b.WriteString("\t\"time\"\n")
		}
		b.WriteString(")\n\n")
	}
	b.WriteString(body.String())
	out.Text = b.String()
	for _, k := range []string{"spell.dateTimeConj", "spell.int", "spell.uint", "spell.number", "spell.constraintsFirst"} {
		if n := r.style[k]; n > 0 {
			out.Style = append(out.Style, k+" x"+strconv.Itoa(n))
		}
	}
	out.finish()
	return out
}

// altSpelling decides, per node that has one, whether the alternative spelling is used.
func (r *cueRenderer) altSpelling(tag string) bool {
	r.node++
	use := false
	if r.canonicalOnly {
		return false
	}
	switch cueSpellStyle {
	case "alt":
		use = true
	case "mixed":
		h := (r.seed ^ (r.node * 2654435761)) * 2246822519
		use = (h>>16)%2 == 1
	}
	if use {
		r.style[tag]++
	}
	return use
}

// cueConj joins a type and its constraints, type first or constraints first.
func cueConj(ty string, cons []string, consFirst bool) string {
	if consFirst {
		return strings.Join(append(append([]string{}, cons...), ty), " & ")
	}
	return strings.Join(append([]string{ty}, cons...), " & ")
}

func cueIdent(s string) bool {
	if s == "" {
		return false
	}
	for i, c := range s {
		if !(c == '_' || (c >= 'a' && c <= 'z') || (c >= 'A' && c <= 'Z') || (i > 0 && c >= '0' && c <= '9')) {
			return false
		}
	}
	switch s {
	case "null", "true", "false", "for", "in", "if", "let", "package", "import", "_":
		return false
	}
	return !strings.HasPrefix(s, "_") && !strings.HasPrefix(s, "#")
}

func cueLabel(s string) string {
	if cueIdent(s) {
		return s
	}
	return jsonQuote(s)
}

// cueValue prints a JSON value as a CUE literal (JSON is CUE, objects printed with labels).
func cueValue(v JV) string {
	switch v.K {
	case 'a':
		parts := []string{}
		for _, e := range v.A {
			parts = append(parts, cueValue(e))
		}
		return "[" + strings.Join(parts, ", ") + "]"
	case 'o':
		parts := []string{}
		for _, e := range v.O {
			parts = append(parts, cueLabel(e.K)+": "+cueValue(e.V))
		}
		return "{" + strings.Join(parts, ", ") + "}"
	}
	return v.json()
}

func enumIMemberName(v int64) string {
	if v < 0 {
		return "Neg" + strconv.FormatInt(-v, 10)
	}
	return "N" + strconv.FormatInt(v, 10)
}

func (r *cueRenderer) enumIAttr(s *Src) string {
	names := []string{}
	for _, v := range s.EnumI {
		names = append(names, enumIMemberName(v))
	}
	return ` @cog(kind="enum",memberNames="` + strings.Join(names, "|") + `")`
}

// tyAttr renders a type expression; attr is a field/definition attribute that must follow the
// whole value (integer enums). attrOK says whether the position can carry an attribute.
func (r *cueRenderer) tyAttr(s *Src, indent string, attrOK bool) (string, string) {
	if s.Kind == SEnumI {
		if !attrOK {
			// the @cog(kind="enum") attribute needs a field or definition of its own; a nullable
			// field (`null | 1 | 2`) is rejected by cog ("enums may only be generated from ...")
			r.out.unsupported("enumI.nested")
		}
		parts := []string{}
		for _, v := range s.EnumI {
			parts = append(parts, strconv.FormatInt(v, 10))
		}
		return strings.Join(parts, " | "), r.enumIAttr(s)
	}
	return r.ty(s, indent), ""
}

func (r *cueRenderer) ty(s *Src, indent string) string {
	switch s.Kind {
	case SAny:
		return "_"
	case SBool:
		return "bool"
	case SString:
		if s.DateTime {
			r.useTime = true
			if r.altSpelling("spell.dateTimeConj") {
				return "string & time.Time"
			}
			return "time.Time"
		}
		cons := []string{}
		if s.MinLen != nil {
			r.useStrings = true
			cons = append(cons, "strings.MinRunes("+strconv.FormatInt(*s.MinLen, 10)+")")
		}
		if s.MaxLen != nil {
			r.useStrings = true
			cons = append(cons, "strings.MaxRunes("+strconv.FormatInt(*s.MaxLen, 10)+")")
		}
		return cueConj("string", cons, len(cons) > 0 && r.altSpelling("spell.constraintsFirst"))
	case SConst:
		return s.Const.json()
	case SInt:
		e := "int" + strconv.Itoa(s.Width)
		if !s.Signed {
			e = "u" + e
		}
		if s.Width == 64 {
			// `int` / `uint`: the unsized spellings cog maps to int64 / (CUE prints `uint` as `int & >=0`) a
			// bounded int64; documents beyond 64 bits are not drawn
			if s.Signed && r.altSpelling("spell.int") {
				e = "int"
			} else if !s.Signed && r.altSpelling("spell.uint") {
				e = "uint"
			}
		}
		cons := []string{}
		if s.Lo != nil {
			cons = append(cons, ">="+strconv.FormatInt(*s.Lo, 10))
		}
		if s.Hi != nil {
			cons = append(cons, "<="+strconv.FormatInt(*s.Hi, 10))
		}
		return cueConj(e, cons, len(cons) > 0 && r.altSpelling("spell.constraintsFirst"))
	case SNum:
		e := "float" + strconv.Itoa(s.Width)
		if s.FLo != nil && s.FHi != nil {
			// cog cannot read `float64 & >=a & <=b` nor `number & >=a & <=b` ("could not infer number
			// type": CUE folds the type's own bounds away); the only two-sided spelling it reads is
			// `float & ...`, which does not accept integer-valued JSON numbers.
			r.out.unsupported("num.twoBounds")
		}
		if s.Width == 64 && s.FLo == nil && s.FHi == nil && r.altSpelling("spell.number") {
			// `number` is read as float64; with a bound cog cannot infer the type ("could not infer number type")
			return "number"
		}
		if s.FLo != nil {
			e += " & >=" + cueFloat(*s.FLo)
		}
		if s.FHi != nil {
			e += " & <=" + cueFloat(*s.FHi)
		}
		return e
	case SEnumS:
		if len(s.EnumS) == 1 {
			r.out.note("enumS.single:parsed-as-constant")
		}
		if r.nullableCtx && len(s.EnumS) > 1 {
			// `null | "a" | "b"` is read as a disjunction of three constants; cog's Go output for it does
			// not compile ("String redeclared")
			r.out.note("nullable.enumS.inline:go-does-not-compile")
		}
		parts := []string{}
		for _, v := range s.EnumS {
			parts = append(parts, jsonQuote(v))
		}
		return strings.Join(parts, " | ")
	case SEnumI:
		e, _ := r.tyAttr(s, indent, false)
		return e
	case SNullable:
		saved := r.nullableCtx
		r.nullableCtx = true
		e := "null | " + r.ty(s.Elem, indent)
		r.nullableCtx = saved
		return e
	case SArray:
		return "[...(" + r.ty(s.Elem, indent) + ")]"
	case SDict:
		return "{[string]: " + r.ty(s.Elem, indent) + "}"
	case SRef:
		return "#" + s.Ref
	case SStruct:
		if len(s.Fields) == 0 {
			r.out.note("struct.empty:parsed-as-any")
			return "{}"
		}
		var b strings.Builder
		b.WriteString("{\n")
		in := indent + "\t"
		for _, f := range s.Fields {
			b.WriteString(in + r.field(f, in) + "\n")
		}
		b.WriteString(indent + "}")
		return b.String()
	case SOneOfScalars:
		parts := []string{}
		for _, a := range s.Alts {
			parts = append(parts, r.ty(a, indent))
		}
		return strings.Join(parts, " | ")
	case SOneOfStructs:
		parts := []string{}
		for _, b := range s.Branches {
			parts = append(parts, "#"+b.Name)
		}
		return strings.Join(parts, " | ")
	}
	return "_"
}

// cueFloat prints a bound so that CUE reads a float literal where the value is fractional and an
// integer literal otherwise (number constraints accept both).
func cueFloat(f float64) string { return fmtF(f) }

func (r *cueRenderer) field(f Field, indent string) string {
	label := cueLabel(f.Name)
	if !f.Required {
		label += "?"
	}
	r.nullableCtx = f.Nullable
	savedCanon := r.canonicalOnly
	r.canonicalOnly = r.canonicalOnly || f.Default != nil
	expr, attr := r.tyAttr(f.Ty, indent, !f.Nullable)
	r.canonicalOnly = savedCanon
	r.nullableCtx = false
	if f.Default != nil {
		dv := cueValue(*f.Default)
		t := r.d.resolve(f.Ty)
		switch {
		case f.Ty.Kind == SEnumS:
			// inline string enum: mark the default member
			parts := []string{}
			for _, v := range f.Ty.EnumS {
				q := jsonQuote(v)
				if f.Default.K == 's' && f.Default.S == v && len(f.Ty.EnumS) > 1 {
					q = "*" + q
				}
				parts = append(parts, q)
			}
			expr = strings.Join(parts, " | ")
		case f.Ty.Kind == SEnumI:
			parts := []string{}
			for _, v := range f.Ty.EnumI {
				q := strconv.FormatInt(v, 10)
				if f.Default.K == 'n' && f.Default.S == q && len(f.Ty.EnumI) > 1 {
					q = "*" + q
				}
				parts = append(parts, q)
			}
			expr = strings.Join(parts, " | ")
		case f.Ty.Kind == SRef && t != nil && (t.Kind == SEnumS || t.Kind == SEnumI):
			// the spelling used by cog's own test data for a default on a referenced enum
			expr = expr + " & (*" + dv + " | _)"
		case f.Ty.Kind == SOneOfScalars || f.Ty.Kind == SRef || f.Ty.Kind == SArray || f.Ty.Kind == SStruct:
			expr = expr + " | *" + dv
		default:
			if f.Nullable && cueNullBranchStyle == "mixed" && (fnv32(f.Name+"\x00"+expr)>>8)%3 == 2 {
				return label + ": *" + dv + " | " + expr + " | null" + attr
			}
			expr = expr + " | *" + dv
		}
	}
	if f.Nullable {
		if cueNullBranchStyle == "mixed" && (fnv32(f.Name+"\x00"+expr)>>8)%3 == 1 {
			return label + ": " + expr + " | null" + attr
		}
		expr = "null | " + expr
	}
	return label + ": " + expr + attr
}
