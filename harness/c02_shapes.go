package main

// C02 streams `c02-unions` and `c02-veneers`: two more ENUMERATED families of inputs the random
// generators do not reach.
//
// c02-unions: topologies of unions of references, built as IR and injected into the real pipeline:
// struct members A, B, C carrying a constant `kind` member (so that a discriminator can be inferred),
// a named union U over a subset of them, and an outer union over U and further members — nested,
// disjoint, and DIAMOND shapes (a member reachable both directly and through U), as an object of its
// own and as a struct member, in both branch orders; optionally a second level (U2 over U and a member).
//
// c02-veneers: builders with builder veneers. A chain of required struct members 1..4 levels deep
// below the root whose leaves are siblings of DIFFERENT scalar types, rewritten by merge_into rules
// (under_path of 1..4 segments), by struct_fields_as_options / struct_fields_as_arguments chains, or
// not at all; three input formats, converters on and off. Wrong assignment targets show as type errors.

import (
	"bufio"
	"fmt"
	"os"
	"strings"

	"github.com/grafana/cog/internal/ast"
)

// c02IRCaseFrom runs one pipeline on a prepared IR (cf. c02IRCases) and labels it.
func c02IRCaseFrom(id string, ir ast.Schemas, combo c02Combo, work, format, shape string) (*c02IRCase, error) {
	c := &c02IRCase{c02LangCase: c02LangCase{ID: id, Format: format, Combo: combo, Group: c02GroupKey(combo)}, IR: ir, Frags: map[string]*c02Fragment{}}
	c.Shape = shape
	for _, s := range ir {
		c.Pkgs = append(c.Pkgs, s.Package)
	}
	opts := c02Opts{Types: true, Builders: combo.Builders, Converters: combo.Converters, APIRef: combo.APIRef, Go: combo.Go,
		EnumsAsUnion: combo.EnumsAsUnion, LangMarshal: combo.LangMarshal, LangSkipRuntime: combo.LangSkipRT}
	p, err := c02Pipeline("", "", "", ir, opts, work)
	if err != nil {
		return nil, err
	}
	files, err := c02Run(p)
	if err != nil {
		c.GenErr = err.Error()
		return c, nil
	}
	c.Files = files
	p2, err := c02Pipeline("", "", "", ir, opts, work)
	if err != nil {
		return nil, err
	}
	post, err := c02PostChainGo(p2)
	if err != nil {
		c.PostErr = err.Error()
	}
	c.PostGo = post
	for _, pkg := range c.Pkgs {
		if src, ok := files["go/"+pkg+"/types_gen.go"]; ok {
			if frag, err := c02ExtractFragment(src, pkg); err == nil {
				c.Frags[pkg] = frag
			}
		}
	}
	return c, nil
}

type c02UnionShape struct {
	Tag string
	IR  func(pkg string) ast.Schemas
}

func c02UnionShapes() []c02UnionShape {
	members := []string{"Alpha", "Beta", "Gamma"}
	member := func(pkg, name string) ast.Object {
		return ast.NewObject(pkg, name, ast.NewStruct(
			ast.NewStructField("kind", ast.String(ast.Value(strings.ToLower(name))), ast.Required()),
			ast.NewStructField("x"+strings.ToLower(name[:1]), ast.Bool(), ast.Required()),
		))
	}
	subsets := func(min int) [][]string {
		out := [][]string{}
		for m := 1; m < 8; m++ {
			s := []string{}
			for i, n := range members {
				if m>>i&1 == 1 {
					s = append(s, n)
				}
			}
			if len(s) >= min {
				out = append(out, s)
			}
		}
		return out
	}
	refs := func(pkg string, names []string) ast.Types {
		ts := ast.Types{}
		for _, n := range names {
			ts = append(ts, ast.NewRef(pkg, n))
		}
		return ts
	}
	out := []c02UnionShape{}
	for _, inner := range subsets(2) {
		for _, direct := range subsets(1) {
			for _, innerFirst := range []bool{true, false} {
				for _, asField := range []bool{true, false} {
					for _, levels := range []int{1, 2} {
						if levels == 2 && (!innerFirst || len(direct) > 1) {
							continue // the second level is added to a subset of the shapes
						}
						inner, direct, innerFirst, asField, levels := inner, direct, innerFirst, asField, levels
						kind := "disjoint"
						for _, d := range direct {
							for _, i := range inner {
								if d == i {
									kind = "diamond"
								}
							}
						}
						tag := fmt.Sprintf("union:%s:inner=%s:direct=%s:innerFirst=%v:field=%v:levels=%d", kind, strings.Join(inner, "+"), strings.Join(direct, "+"), innerFirst, asField, levels)
						out = append(out, c02UnionShape{Tag: tag, IR: func(pkg string) ast.Schemas {
							s := ast.NewSchema(pkg, ast.SchemaMeta{})
							for _, m := range members {
								s.AddObject(member(pkg, m))
							}
							s.AddObject(ast.NewObject(pkg, "Inner", ast.NewDisjunction(refs(pkg, inner))))
							nested := "Inner"
							if levels == 2 {
								s.AddObject(ast.NewObject(pkg, "Middle", ast.NewDisjunction(append(ast.Types{ast.NewRef(pkg, "Inner")}, ast.NewRef(pkg, members[2])))))
								nested = "Middle"
							}
							branches := refs(pkg, direct)
							if innerFirst {
								branches = append(ast.Types{ast.NewRef(pkg, nested)}, branches...)
							} else {
								branches = append(branches, ast.NewRef(pkg, nested))
							}
							outer := ast.NewDisjunction(branches)
							if asField {
								s.AddObject(ast.NewObject(pkg, "Outer", ast.NewStruct(
									ast.NewStructField("u", outer, ast.Required()),
									ast.NewStructField("name", ast.String(), ast.Required()),
								)))
							} else {
								s.AddObject(ast.NewObject(pkg, "Outer", outer))
								s.AddObject(ast.NewObject(pkg, "Holder", ast.NewStruct(ast.NewStructField("u", ast.NewRef(pkg, "Outer"), ast.Required()))))
							}
							return ast.Schemas{s}
						}})
					}
				}
			}
		}
	}
	return out
}

type c02VeneerShape struct {
	Tag     string
	Defs    *Defs
	Veneers string
}

func c02VeneerShapes() []c02VeneerShape {
	leafTypes := []func() *Src{srcString, func() *Src { return srcInt(64, true, nil, nil) }, srcBool, func() *Src { return srcNum(64, nil, nil) }}
	leafNames := []string{"placement", "width", "visible", "ratio"}
	levelNames := []string{"Config", "Display", "Legend", "Marker"}
	memberNames := []string{"cfg", "disp", "leg", "mark"}
	out := []c02VeneerShape{}
	for depth := 1; depth <= 4; depth++ {
		// Widget.cfg -> Config.disp -> Display.leg -> …; the deepest level holds the leaves
		items := []Def{}
		root := srcStruct(fld("title", srcString(), true, false, nil), fld(memberNames[0], srcRef(levelNames[0]), true, false, nil))
		items = append(items, Def{"Widget", root})
		for l := 0; l < depth; l++ {
			st := srcStruct()
			if l == depth-1 {
				for k := range leafNames {
					st.Fields = append(st.Fields, fld(leafNames[k], leafTypes[k](), true, false, nil))
				}
			} else {
				st.Fields = append(st.Fields, fld("own"+fmt.Sprint(l), leafTypes[(l+1)%len(leafTypes)](), true, false, nil),
					fld(memberNames[l+1], srcRef(levelNames[l+1]), true, false, nil))
			}
			items = append(items, Def{levelNames[l], st})
		}
		d := &Defs{Root: "Widget", Items: items}
		chain := memberNames[:depth]
		// merge_into: every level merged into the root builder under its member path
		var blds []string
		for i := 0; i < depth; i++ {
			rule := fmt.Sprintf("  - merge_into: { source: %s, destination: Widget, under_path: %s", levelNames[i], strings.Join(chain[:i+1], "."))
			if i+1 < depth {
				rule += fmt.Sprintf(", exclude_options: [%s]", chain[i+1])
			}
			blds = append(blds, rule+" }")
		}
		merge := "language: all\npackage: %PKG%\nbuilders:\n" + strings.Join(blds, "\n") + "\noptions:\n  - omit: { by_name: Widget." + chain[0] + " }\n"
		// only the deepest level merged (one rule, under_path of `depth` segments)
		mergeLast := fmt.Sprintf("language: all\npackage: %%PKG%%\nbuilders:\n  - merge_into: { source: %s, destination: Widget, under_path: %s }\n", levelNames[depth-1], strings.Join(chain, "."))
		var asOpts, asArgs []string
		for i := range chain {
			asOpts = append(asOpts, fmt.Sprintf("  - struct_fields_as_options: { by_name: Widget.%s }", chain[i]))
			rule := "struct_fields_as_options"
			if i == depth-1 {
				rule = "struct_fields_as_arguments"
			}
			asArgs = append(asArgs, fmt.Sprintf("  - %s: { by_name: Widget.%s }", rule, chain[i]))
		}
		options := "language: all\npackage: %PKG%\noptions:\n" + strings.Join(asOpts, "\n") + "\n"
		arguments := "language: all\npackage: %PKG%\noptions:\n" + strings.Join(asArgs, "\n") + "\n"
		for _, v := range []struct{ name, text string }{{"none", ""}, {"merge_into", merge}, {"merge_last", mergeLast}, {"fields_as_options", options}, {"fields_as_arguments", arguments}} {
			out = append(out, c02VeneerShape{Tag: fmt.Sprintf("veneers:%s:depth=%d", v.name, depth), Defs: d, Veneers: v.text})
		}
	}
	return out
}

func init() {
	register("c02-unions", func(args map[string]string, out *bufio.Writer) error {
		seed := argInt(args, "seed", 1)
		thorough := args["tier"] == "thorough"
		work := labWorkDir("c02unions-" + args["seed"] + "-" + args["tier"])
		if args["keep"] != "1" {
			defer os.RemoveAll(work)
		}
		combos := c02Combos(args["tier"])
		shapes := c02UnionShapes()
		cases := []*c02IRCase{}
		k := 0
		for si, s := range shapes {
			if only, ok := args["shape"]; ok && !strings.Contains(s.Tag, only) {
				continue
			}
			// quick: every diamond, and a rotating third of the other shapes
			if !thorough && !strings.Contains(s.Tag, "diamond") && (si+seed)%3 != 0 {
				continue
			}
			cfgs := []c02Combo{{Go: defaultGoFlags(), LangMarshal: true}}
			if thorough {
				j := si*17 + seed*5
				cfgs = append(cfgs, c02Mode(j, combos[j%len(combos)]), c02Combo{Go: defaultGoFlags(), Builders: true, Converters: true, LangMarshal: true})
			} else if (si+seed)%4 == 0 {
				j := si*17 + seed*5
				cfgs = append(cfgs, c02Mode(j, combos[j%len(combos)]))
			}
			for _, cfg := range cfgs {
				id := fmt.Sprintf("u%d", k)
				k++
				ir := s.IR(id)
				c, err := c02IRCaseFrom(id, ir, cfg, work, "shape", "")
				if err != nil {
					return err
				}
				c.Shape = fmt.Sprintf("trig=%s format=shape %s src=ir:%s", s.Tag, cfg.String(), virSchemas(ir))
				cases = append(cases, c)
			}
		}
		return c02ReportSrcCases(out, work, cases, fmt.Sprintf("shapes=%d", len(shapes)))
	})

	register("c02-veneers", func(args map[string]string, out *bufio.Writer) error {
		seed := argInt(args, "seed", 1)
		thorough := args["tier"] == "thorough"
		work := labWorkDir("c02veneers-" + args["seed"] + "-" + args["tier"])
		if args["keep"] != "1" {
			defer os.RemoveAll(work)
		}
		cases := []*c02IRCase{}
		k := 0
		for si, s := range c02VeneerShapes() {
			if only, ok := args["shape"]; ok && !strings.Contains(s.Tag, only) {
				continue
			}
			formats := []string{labFormats[(si+seed)%len(labFormats)]}
			if thorough {
				formats = labFormats
			}
			for fi, f := range formats {
				cfg := c02Combo{Go: defaultGoFlags(), Builders: true, Converters: (si+fi+seed)%2 == 0, LangMarshal: true}
				id := fmt.Sprintf("v%d%s", k, labFormatSuffix[f])
				k++
				c, err := c02SrcCaseV(id, []c02Input{{f, id, s.Defs}}, cfg, work, 2, s.Veneers, []string{s.Tag})
				if err != nil {
					return err
				}
				cases = append(cases, c)
			}
		}
		return c02ReportSrcCases(out, work, cases, "")
	})
}
