package main

// C12 — implementation-side oracles on the emitted JSON Schema / OpenAPI documents, written
// independently of internal/jennies/jsonschema (nothing here calls the emitter's helpers):
//   * independent loaders accept the documents (santhosh-tekuri/jsonschema, kin-openapi, cog's own
//     internal/jsonschema and internal/openapi front-ends);
//   * every `$ref` names a definition of the same document;
//   * every object of the schema (and every foreign object it reaches) is a definition under its
//     own name, describing THAT object; every struct field is a property under its own name;
//   * required-ness, constraints, enum values, constants and defaults of the IR are in the document.

import (
	"bytes"
	"context"
	"encoding/json"
	"fmt"
	"sort"
	"strings"

	"github.com/getkin/kin-openapi/openapi3"
	"github.com/grafana/cog/internal/ast"
	cogjs "github.com/grafana/cog/internal/jsonschema"
	cogoa "github.com/grafana/cog/internal/openapi"
	jsv "github.com/santhosh-tekuri/jsonschema/v5"
)

const c12JSPrefix = "#/definitions/"
const c12OAPrefix = "#/components/schemas/"

func c12Recover(what string, err *error) {
	if rec := recover(); rec != nil {
		*err = fmt.Errorf("PANIC in %s: %v", what, rec)
	}
}

// ---- loaders -------------------------------------------------------------------------------

// santhosh-tekuri: the document and every definition compile (draft-07, metaschema-checked).
func c12LoadSanthosh(text []byte, defNames []string) (err error) {
	defer c12Recover("santhosh", &err)
	c := jsv.NewCompiler()
	c.Draft = jsv.Draft7
	if err := c.AddResource("mem://emitted.json", bytes.NewReader(text)); err != nil {
		return err
	}
	if _, err := c.Compile("mem://emitted.json"); err != nil {
		return err
	}
	for _, n := range defNames {
		if _, err := c.Compile("mem://emitted.json#/definitions/" + c12PtrEscape(n)); err != nil {
			return fmt.Errorf("definition %s: %w", n, err)
		}
	}
	return nil
}

func c12PtrEscape(s string) string {
	s = strings.ReplaceAll(s, "~", "~0")
	s = strings.ReplaceAll(s, "/", "~1")
	s = strings.ReplaceAll(s, "%", "%25")
	return s
}

func c12LoadCogJSONSchema(text []byte, pkg string) (err error) {
	defer c12Recover("cog jsonschema front-end", &err)
	_, err = cogjs.GenerateAST(bytes.NewReader(text), cogjs.Config{Package: pkg})
	return err
}

func c12LoadKin(text []byte) (doc *openapi3.T, err error) {
	defer c12Recover("kin-openapi", &err)
	loader := openapi3.NewLoader()
	doc, err = loader.LoadFromData(text)
	if err != nil {
		return nil, err
	}
	if err := doc.Validate(context.Background(), openapi3.DisableExamplesValidation()); err != nil {
		return nil, err
	}
	return doc, nil
}

func c12LoadCogOpenAPI(text []byte, pkg string) (err error) {
	defer c12Recover("cog openapi front-end", &err)
	loader := openapi3.NewLoader()
	doc, err := loader.LoadFromData(text)
	if err != nil {
		return err
	}
	_, err = cogoa.GenerateAST(context.Background(), doc, cogoa.Config{Package: pkg, Validate: true})
	return err
}

// ---- $ref resolution -----------------------------------------------------------------------

// c12Refs lists every `$ref` string of a schema node (not below default / const / enum / example).
func c12Refs(v JV, out *[]string) {
	switch v.K {
	case 'a':
		for _, e := range v.A {
			c12Refs(e, out)
		}
	case 'o':
		for _, e := range v.O {
			switch e.K {
			case "$ref":
				if e.V.K == 's' {
					*out = append(*out, e.V.S)
				} else {
					*out = append(*out, "!non-string")
				}
			case "default", "const", "enum", "example", "examples":
			default:
				c12Refs(e.V, out)
			}
		}
	}
}

func c12Definitions(doc JV, openapi bool) (JV, bool) {
	if openapi {
		c, ok := doc.get("components")
		if !ok {
			return JV{}, false
		}
		return c.get("schemas")
	}
	return doc.get("definitions")
}

func c12Unresolved(doc JV, openapi bool) []string {
	prefix := c12JSPrefix
	if openapi {
		prefix = c12OAPrefix
	}
	defs, _ := c12Definitions(doc, openapi)
	var refs []string
	c12Refs(doc, &refs)
	bad := []string{}
	for _, r := range refs {
		if !strings.HasPrefix(r, prefix) {
			bad = append(bad, r)
			continue
		}
		if _, ok := defs.get(strings.TrimPrefix(r, prefix)); !ok {
			bad = append(bad, r)
		}
	}
	return bad
}

// ---- foreign objects (independent reachability) --------------------------------------------

// c12RefsOfType: the references a schema document for this type has to mention (struct fields,
// array elements, map values, union branches).
func c12RefsOfType(t ast.Type, out *[]ast.RefType) {
	switch {
	case t.Kind == ast.KindRef && t.Ref != nil:
		*out = append(*out, *t.Ref)
	case t.Kind == ast.KindArray && t.Array != nil:
		c12RefsOfType(t.Array.ValueType, out)
	case t.Kind == ast.KindMap && t.Map != nil:
		c12RefsOfType(t.Map.ValueType, out)
	case t.Kind == ast.KindStruct && t.Struct != nil:
		for _, f := range t.Struct.Fields {
			c12RefsOfType(f.Type, out)
		}
	case t.Kind == ast.KindDisjunction && t.Disjunction != nil:
		for _, b := range t.Disjunction.Branches {
			c12RefsOfType(b, out)
		}
	}
}

type c12Foreign struct {
	objs   []ast.Object // foreign objects reachable from the schema, in discovery order
	cyclic bool         // a foreign object reaches itself through foreign references
}

func c12ForeignObjects(schemas ast.Schemas, schema *ast.Schema) c12Foreign {
	res := c12Foreign{}
	key := func(o ast.Object) string {
		return o.SelfRef.ReferredPkg + "\x00" + o.SelfRef.ReferredType + "\x00" + o.Name
	}
	seen := map[string]bool{}
	edges := map[string][]string{}
	var queue []ast.Object
	visit := func(from string, t ast.Type) {
		var refs []ast.RefType
		c12RefsOfType(t, &refs)
		for _, r := range refs {
			if r.ReferredPkg == schema.Package {
				continue
			}
			o, ok := schemas.LocateObject(r.ReferredPkg, r.ReferredType)
			if !ok {
				continue
			}
			k := key(o)
			if from != "" {
				edges[from] = append(edges[from], k)
			}
			if !seen[k] {
				seen[k] = true
				res.objs = append(res.objs, o)
				queue = append(queue, o)
			}
		}
	}
	schema.Objects.Iterate(func(_ string, o ast.Object) { visit("", o.Type) })
	for len(queue) > 0 {
		o := queue[0]
		queue = queue[1:]
		visit(key(o), o.Type)
	}
	// cycle among foreign objects?
	state := map[string]int{}
	var dfs func(k string) bool
	dfs = func(k string) bool {
		switch state[k] {
		case 1:
			return true
		case 2:
			return false
		}
		state[k] = 1
		for _, n := range edges[k] {
			if dfs(n) {
				return true
			}
		}
		state[k] = 2
		return false
	}
	for k := range seen {
		if dfs(k) {
			res.cyclic = true
		}
	}
	return res
}

// c12DanglingIR: references of the schema's objects (and of the foreign objects they reach) whose
// target does not exist in the loaded schemas: the INPUT is not closed, nothing the emitter could do.
func c12DanglingIR(schemas ast.Schemas, schema *ast.Schema) []string {
	var bad []string
	check := func(t ast.Type) {
		var refs []ast.RefType
		c12RefsOfType(t, &refs)
		for _, r := range refs {
			if _, ok := schemas.LocateObject(r.ReferredPkg, r.ReferredType); !ok {
				bad = append(bad, r.ReferredPkg+"."+r.ReferredType)
			}
		}
	}
	schema.Objects.Iterate(func(_ string, o ast.Object) { check(o.Type) })
	for _, o := range c12ForeignObjects(schemas, schema).objs {
		check(o.Type)
	}
	return bad
}

// c12MalformedType: a Kind whose payload pointer is nil, or a constraint without arguments — IR no
// front-end produces (C04 owns what cog does with it).
func c12MalformedType(t ast.Type) bool {
	switch t.Kind {
	case ast.KindStruct:
		if t.Struct == nil {
			return true
		}
		for _, f := range t.Struct.Fields {
			if c12MalformedType(f.Type) {
				return true
			}
		}
	case ast.KindScalar:
		if t.Scalar == nil {
			return true
		}
		for _, c := range t.Scalar.Constraints {
			if len(c.Args) == 0 {
				return true
			}
		}
	case ast.KindRef:
		return t.Ref == nil
	case ast.KindEnum:
		return t.Enum == nil
	case ast.KindArray:
		return t.Array == nil || c12MalformedType(t.Array.ValueType)
	case ast.KindMap:
		return t.Map == nil || c12MalformedType(t.Map.ValueType)
	case ast.KindDisjunction:
		if t.Disjunction == nil {
			return true
		}
		for _, b := range t.Disjunction.Branches {
			if c12MalformedType(b) {
				return true
			}
		}
	}
	return false
}

func c12MalformedInput(schemas ast.Schemas, schema *ast.Schema) bool {
	bad := false
	schema.Objects.Iterate(func(_ string, o ast.Object) {
		if c12MalformedType(o.Type) {
			bad = true
		}
	})
	for _, o := range c12ForeignObjects(schemas, schema).objs {
		if c12MalformedType(o.Type) {
			bad = true
		}
	}
	return bad
}

// ---- presence + carried over ---------------------------------------------------------------

func c12JSONOf(v any) (JV, bool) {
	raw, err := json.Marshal(v)
	if err != nil {
		return JV{}, false
	}
	j, err := parseJV(raw)
	return j, err == nil
}

func c12SameJSON(a, b JV) bool { return canonJSON([]byte(a.json())) == canonJSON([]byte(b.json())) }

// what JSON Schema keyword carries a constraint (draft-07 semantics of the operator)
var c12KeywordOf = map[ast.Op]string{
	ast.MinLengthOp: "minLength", ast.MaxLengthOp: "maxLength", ast.MultipleOfOp: "multipleOf",
	ast.LessThanOp: "exclusiveMaximum", ast.LessThanEqualOp: "maximum",
	ast.GreaterThanOp: "exclusiveMinimum", ast.GreaterThanEqualOp: "minimum",
}

var c12ConstraintKeywords = []string{"minLength", "maxLength", "multipleOf", "exclusiveMaximum", "maximum", "exclusiveMinimum", "minimum"}

func c12TypeKeyword(k ast.ScalarKind) string {
	switch k {
	case ast.KindString, ast.KindBytes:
		return "string"
	case ast.KindBool:
		return "boolean"
	case ast.KindFloat32, ast.KindFloat64:
		return "number"
	case ast.KindNull:
		return "null"
	case ast.KindAny:
		return ""
	}
	return "integer"
}

type c12Carry struct {
	fails []string
}

func (c *c12Carry) fail(format string, args ...any) {
	if len(c.fails) < 6 {
		c.fails = append(c.fails, fmt.Sprintf(format, args...))
	}
}

func (c *c12Carry) checkType(t ast.Type, node JV, path string, prefix string) {
	if node.K != 'o' {
		c.fail("not-a-schema-object at=%s", path)
		return
	}
	str := func(k string) string {
		if v, ok := node.get(k); ok && v.K == 's' {
			return v.S
		}
		return ""
	}
	switch t.Kind {
	case ast.KindStruct:
		if t.Struct == nil {
			return
		}
		if str("type") != "object" {
			c.fail("struct-not-object at=%s", path)
		}
		names := map[string]int{}
		var required []string
		for _, f := range t.Struct.Fields {
			names[f.Name]++
			if f.Required {
				required = append(required, f.Name)
			}
		}
		props, _ := node.get("properties")
		var got []string
		if r, ok := node.get("required"); ok && r.K == 'a' {
			for _, e := range r.A {
				got = append(got, e.S)
			}
		}
		sort.Strings(required)
		sort.Strings(got)
		if strings.Join(required, "\x00") != strings.Join(got, "\x00") {
			c.fail("required-differs at=%s ir=%v emitted=%v", path, required, got)
		}
		for _, f := range t.Struct.Fields {
			p, ok := props.get(f.Name)
			if !ok {
				c.fail("field-missing at=%s.%s", path, f.Name)
				continue
			}
			if names[f.Name] > 1 {
				continue // duplicate member names: one of them wins, nothing more to compare
			}
			c.checkType(f.Type, p, path+"."+f.Name, prefix)
			d, has := p.get("default")
			if f.Type.Default == nil {
				if has {
					c.fail("default-invented at=%s.%s", path, f.Name)
				}
			} else if want, ok := c12JSONOf(f.Type.Default); ok {
				if !has {
					c.fail("default-dropped at=%s.%s", path, f.Name)
				} else if !c12SameJSON(want, d) {
					c.fail("default-differs at=%s.%s ir=%s emitted=%s", path, f.Name, want.json(), d.json())
				}
			}
		}
		if props.K == 'o' {
			for _, e := range props.O {
				if names[e.K] == 0 {
					c.fail("property-invented at=%s.%s", path, e.K)
				}
			}
		}
	case ast.KindScalar:
		if t.Scalar == nil {
			return
		}
		if want := c12TypeKeyword(t.Scalar.ScalarKind); want != "" && str("type") != want {
			c.fail("scalar-type-differs at=%s kind=%s emitted=%q", path, t.Scalar.ScalarKind, str("type"))
		}
		if t.Scalar.ScalarKind != ast.KindAny {
			want := map[string]JV{}
			isStr := t.Scalar.ScalarKind == ast.KindString || t.Scalar.ScalarKind == ast.KindBytes
			isNum := c12TypeKeyword(t.Scalar.ScalarKind) == "number" || c12TypeKeyword(t.Scalar.ScalarKind) == "integer"
			for _, cs := range t.Scalar.Constraints {
				kw, ok := c12KeywordOf[cs.Op]
				if !ok || len(cs.Args) == 0 {
					continue
				}
				strKw := kw == "minLength" || kw == "maxLength"
				if (strKw && !isStr) || (!strKw && !isNum) {
					continue
				}
				if a, ok := c12JSONOf(cs.Args[0]); ok {
					want[kw] = a // a later constraint with the same operator replaces an earlier one
				}
			}
			for _, kw := range c12ConstraintKeywords {
				g, has := node.get(kw)
				w, wanted := want[kw]
				switch {
				case wanted && !has:
					c.fail("constraint-dropped at=%s keyword=%s", path, kw)
				case !wanted && has:
					c.fail("constraint-invented at=%s keyword=%s emitted=%s", path, kw, g.json())
				case wanted && has && !c12SameJSON(w, g):
					c.fail("constraint-differs at=%s keyword=%s ir=%s emitted=%s", path, kw, w.json(), g.json())
				}
			}
		}
		g, has := node.get("const")
		if t.Scalar.Value == nil {
			if has {
				c.fail("const-invented at=%s", path)
			}
		} else if w, ok := c12JSONOf(t.Scalar.Value); ok {
			if !has {
				c.fail("const-dropped at=%s", path)
			} else if !c12SameJSON(w, g) {
				c.fail("const-differs at=%s ir=%s emitted=%s", path, w.json(), g.json())
			}
		}
		if t.HasHint(ast.HintStringFormatDateTime) && t.Scalar.ScalarKind == ast.KindString && str("format") != "date-time" {
			c.fail("format-dropped at=%s", path)
		}
	case ast.KindEnum:
		if t.Enum == nil {
			return
		}
		g, has := node.get("enum")
		if !has || g.K != 'a' || len(g.A) != len(t.Enum.Values) {
			c.fail("enum-differs at=%s", path)
			return
		}
		for i, v := range t.Enum.Values {
			if w, ok := c12JSONOf(v.Value); ok && !c12SameJSON(w, g.A[i]) {
				c.fail("enum-value-differs at=%s index=%d ir=%s emitted=%s", path, i, w.json(), g.A[i].json())
			}
		}
	case ast.KindArray:
		if t.Array == nil {
			return
		}
		if str("type") != "array" {
			c.fail("array-not-array at=%s", path)
		}
		if it, ok := node.get("items"); ok {
			c.checkType(t.Array.ValueType, it, path+"[]", prefix)
		} else {
			c.fail("items-missing at=%s", path)
		}
	case ast.KindMap:
		if t.Map == nil {
			return
		}
		if str("type") != "object" {
			c.fail("map-not-object at=%s", path)
		}
		if it, ok := node.get("additionalProperties"); ok {
			c.checkType(t.Map.ValueType, it, path+"{}", prefix)
		} else {
			c.fail("additionalProperties-missing at=%s", path)
		}
	case ast.KindRef:
		if t.Ref == nil {
			return
		}
		if str("$ref") != prefix+t.Ref.ReferredType {
			c.fail("ref-differs at=%s ir=%s emitted=%q", path, t.Ref.ReferredType, str("$ref"))
		}
	case ast.KindDisjunction:
		if t.Disjunction == nil {
			return
		}
		alts, ok := node.get("anyOf")
		if !ok {
			alts, ok = node.get("oneOf")
		}
		if !ok || alts.K != 'a' || len(alts.A) != len(t.Disjunction.Branches) {
			c.fail("union-differs at=%s", path)
			return
		}
		for i, b := range t.Disjunction.Branches {
			c.checkType(b, alts.A[i], fmt.Sprintf("%s|%d", path, i), prefix)
		}
	case ast.KindConstantRef:
		if t.ConstantReference == nil {
			return
		}
		if w, ok := c12JSONOf(t.ConstantReference.ReferenceValue); ok {
			g, has := node.get("const")
			if !has {
				_, isRef := node.get("$ref")
				if !isRef {
					c.fail("constant-reference-not-carried at=%s value=%s emitted=%s", path, w.json(), node.json())
				}
			} else if !c12SameJSON(w, g) {
				c.fail("const-differs at=%s", path)
			}
		}
	case ast.KindIntersection:
		if _, ok := node.get("allOf"); !ok {
			c.fail("intersection-not-carried at=%s emitted=%s", path, node.json())
		}
	}
}

// c12CheckDefinitions: objects of the schema and reachable foreign objects against the emitted
// definitions. Names that several objects compete for are reported once (`definition-overwritten`)
// and not compared further.
func c12CheckDefinitions(schemas ast.Schemas, schema *ast.Schema, defs JV, prefix string) []string {
	c := &c12Carry{}
	type owner struct {
		obj  ast.Object
		from string
	}
	owners := map[string][]owner{}
	var order []string
	add := func(o ast.Object, from string) {
		if len(owners[o.Name]) == 0 {
			order = append(order, o.Name)
		}
		owners[o.Name] = append(owners[o.Name], owner{o, from})
	}
	schema.Objects.Iterate(func(_ string, o ast.Object) { add(o, schema.Package) })
	fo := c12ForeignObjects(schemas, schema)
	for _, o := range fo.objs {
		add(o, o.SelfRef.ReferredPkg)
	}
	for _, name := range order {
		os := owners[name]
		d, ok := defs.get(name)
		if !ok {
			c.fail("object-missing name=%s from=%s", name, os[0].from)
			continue
		}
		if len(os) > 1 {
			froms := []string{}
			for _, o := range os {
				froms = append(froms, o.from)
			}
			c.fail("definition-overwritten name=%s claimed-by=%s", name, strings.Join(froms, ","))
			continue
		}
		c.checkType(os[0].obj.Type, d, os[0].from+"."+name, prefix)
	}
	return c.fails
}

// ---- known mechanisms as schema repairs ----------------------------------------------------

// c12Fix selects the recorded mechanisms to repair in the emitted schema.
type c12Fix struct {
	any       bool // `{type: object}` written for `any` / composable slots → unconstrained
	null      bool // admit `null` wherever the IR type is nullable
	nullUnion bool // union with a `null` branch and two or more other branches (CUE `null | #A | #B`): the Go
	// jenny emits a plain struct for it (finding C01/cue/nullable-union-of-structs-not-discriminated) → unconstrained
	enumSign bool // CUE one-member enum of a negative integer (`-1 @cog(kind="enum",memberNames="Neg1")`) reaches the
	// IR with the sign lost (member Neg1 = 1): the emitted `enum: [1]` rejects the source value → admit the negated value
	bigInt bool // enumeration member / constant beyond ±2^53 (rounded by a front-end reading numbers as float64) → unconstrained
	bytes  bool // array of uint8 is Go `[]byte`, which encoding/json writes as a base64 string (finding
	// C01/cue/array-of-uint8-is-bytes) while the schema says array of integer → unconstrained
}

// c12HoldsBigInt: an enumeration member or constant whose integer value no float64 holds exactly or at all
// beyond 2^53 (a front-end that reads numbers as float64 rounds it).
func c12HoldsBigInt(t ast.Type) bool {
	big := func(v any) bool {
		switch x := v.(type) {
		case int64:
			return x >= 1<<53 || x <= -(1<<53)
		case float64:
			return x >= 1<<53 || x <= -(1<<53)
		}
		return false
	}
	if t.Kind == ast.KindEnum && t.Enum != nil {
		for _, v := range t.Enum.Values {
			if big(v.Value) {
				return true
			}
		}
	}
	return t.Kind == ast.KindScalar && t.Scalar != nil && big(t.Scalar.Value)
}

func c12IsByteArray(t ast.Type) bool {
	return t.Kind == ast.KindArray && t.Array != nil && t.Array.ValueType.Kind == ast.KindScalar &&
		t.Array.ValueType.Scalar != nil && t.Array.ValueType.Scalar.ScalarKind == ast.KindUint8 && !t.Array.ValueType.Nullable
}

// c12SignLostEnum: an enum member named Neg<k> holding the positive value k.
func c12SignLostEnum(t ast.Type) bool {
	if t.Kind != ast.KindEnum || t.Enum == nil {
		return false
	}
	for _, v := range t.Enum.Values {
		if n, ok := v.Value.(int64); ok && n > 0 && v.Name == fmt.Sprintf("Neg%d", n) {
			return true
		}
	}
	return false
}

func c12IsNullUnion(t ast.Type) bool {
	if t.Kind != ast.KindDisjunction || t.Disjunction == nil || len(t.Disjunction.Branches) < 3 {
		return false
	}
	for _, b := range t.Disjunction.Branches {
		if b.Kind == ast.KindScalar && b.Scalar != nil && b.Scalar.ScalarKind == ast.KindNull {
			return true
		}
	}
	return false
}

// c12RepairNode rewrites the emitted node of an IR type. The walk follows the IR, not the document,
// so it only touches nodes the emitter wrote for these reasons.
func c12RepairNode(t ast.Type, node JV, fix c12Fix) JV {
	if node.K != 'o' {
		return node
	}
	out := node.clone()
	switch {
	case fix.bigInt && c12HoldsBigInt(t):
		out = jObj()
	case t.Kind == ast.KindScalar && t.Scalar != nil && t.Scalar.ScalarKind == ast.KindAny, t.Kind == ast.KindComposableSlot:
		if fix.any {
			out = jObj()
		}
	case t.Kind == ast.KindStruct && t.Struct != nil:
		if props, ok := out.get("properties"); ok && props.K == 'o' {
			np := props.clone()
			for _, f := range t.Struct.Fields {
				if p, ok := np.get(f.Name); ok {
					np.set(f.Name, c12RepairNode(f.Type, p, fix))
				}
			}
			out.set("properties", np)
		}
	case c12IsByteArray(t) && fix.bytes:
		out = jObj()
	case t.Kind == ast.KindArray && t.Array != nil:
		if it, ok := out.get("items"); ok {
			out.set("items", c12RepairNode(t.Array.ValueType, it, fix))
		}
	case t.Kind == ast.KindMap && t.Map != nil:
		if it, ok := out.get("additionalProperties"); ok {
			out.set("additionalProperties", c12RepairNode(t.Map.ValueType, it, fix))
		}
	case c12IsNullUnion(t) && fix.nullUnion:
		out = jObj()
	case c12SignLostEnum(t) && fix.enumSign:
		if vals, ok := out.get("enum"); ok && vals.K == 'a' {
			nv := vals.clone()
			for _, v := range t.Enum.Values {
				if n, ok := v.Value.(int64); ok && n > 0 && v.Name == fmt.Sprintf("Neg%d", n) {
					nv.A = append(nv.A, jInt(-n))
				}
			}
			out.set("enum", nv)
		}
	case t.Kind == ast.KindDisjunction && t.Disjunction != nil:
		if alts, ok := out.get("anyOf"); ok && alts.K == 'a' && len(alts.A) == len(t.Disjunction.Branches) {
			na := alts.clone()
			for i, b := range t.Disjunction.Branches {
				na.A[i] = c12RepairNode(b, na.A[i], fix)
			}
			out.set("anyOf", na)
		}
	}
	if fix.null && t.Nullable {
		return jObj(kv("anyOf", jArr(out, jObj(kv("type", jStr("null"))))))
	}
	return out
}

// c12Repair applies c12RepairNode to the definitions of the objects of schema.
func c12Repair(schema *ast.Schema, emitted JV, fix c12Fix) JV {
	out := emitted.clone()
	defs, ok := out.get("definitions")
	if !ok || defs.K != 'o' {
		return out
	}
	nd := defs.clone()
	schema.Objects.Iterate(func(_ string, o ast.Object) {
		if d, ok := nd.get(o.Name); ok {
			nd.set(o.Name, c12RepairNode(o.Type, d, fix))
		}
	})
	out.set("definitions", nd)
	return out
}

// c12ExplainedBy: the smallest set of recorded mechanisms whose repair in the emitted schema makes the
// document valid ("any", "nullable", "nullunion", "enumsign", "bytes", "float64int", joined by + in that order); "" when none does.
func c12ExplainedBy(schema *ast.Schema, emitted JV, root string, doc JV) string {
	type cand struct {
		name string
		fix  c12Fix
	}
	names := []string{"any", "nullable", "nullunion", "enumsign", "bytes", "float64int"}
	var cands []cand
	for size := 1; size <= len(names); size++ {
		for mask := 1; mask < 1<<len(names); mask++ {
			var parts []string
			for i := range names {
				if mask&(1<<i) != 0 {
					parts = append(parts, names[i])
				}
			}
			if len(parts) != size {
				continue
			}
			cands = append(cands, cand{strings.Join(parts, "+"),
				c12Fix{any: mask&1 != 0, null: mask&2 != 0, nullUnion: mask&4 != 0, enumSign: mask&8 != 0, bytes: mask&16 != 0, bigInt: mask&32 != 0}})
		}
	}
	for _, c := range cands {
		rv, err := newRefValidator("jsonschema", c12Repair(schema, emitted, c.fix).json(), root)
		if err == nil && rv.validate(doc) == nil {
			return c.name
		}
	}
	return ""
}

// ---- one verdict per emitted document ------------------------------------------------------

func c12VerdictJSONSchema(schemas ast.Schemas, schema *ast.Schema, text []byte, loaders bool) string {
	doc, err := parseJV(text)
	if err != nil {
		return "FAIL emitted-not-json " + shortErr(err)
	}
	defs, _ := c12Definitions(doc, false)
	var names []string
	for _, e := range defs.O {
		names = append(names, e.K)
	}
	var fails []string
	if bad := c12Unresolved(doc, false); len(bad) > 0 {
		if dangling := c12DanglingIR(schemas, schema); len(dangling) > 0 {
			return fmt.Sprintf("ok input-ir-has-dangling-references %v unresolved=%v", dangling, bad)
		}
		fails = append(fails, fmt.Sprintf("ref-unresolved %v", bad))
	}
	fails = append(fails, c12CheckDefinitions(schemas, schema, defs, c12JSPrefix)...)
	if len(fails) == 0 && loaders {
		// the loaders are only meaningful on a document whose references resolve
		if err := c12LoadSanthosh(text, names); err != nil {
			fails = append(fails, "loader-rejects loader=santhosh "+shortErr(err))
		}
		if err := c12LoadCogJSONSchema(text, schema.Package); err != nil {
			fails = append(fails, "loader-rejects loader=cog-jsonschema "+shortErr(err))
		}
	}
	if len(fails) == 0 {
		return "ok"
	}
	return "FAIL " + strings.Join(fails, " ;; ")
}

func c12VerdictOpenAPI(schemas ast.Schemas, schema *ast.Schema, text []byte, loaders bool) string {
	doc, err := parseJV(text)
	if err != nil {
		return "FAIL emitted-not-json " + shortErr(err)
	}
	defs, _ := c12Definitions(doc, true)
	var fails []string
	if bad := c12Unresolved(doc, true); len(bad) > 0 {
		if dangling := c12DanglingIR(schemas, schema); len(dangling) > 0 {
			return fmt.Sprintf("ok input-ir-has-dangling-references %v unresolved=%v", dangling, bad)
		}
		fails = append(fails, fmt.Sprintf("ref-unresolved %v", bad))
	}
	fails = append(fails, c12CheckDefinitions(schemas, schema, defs, c12OAPrefix)...)
	if len(fails) == 0 && loaders {
		if _, err := c12LoadKin(text); err != nil {
			fails = append(fails, "loader-rejects loader=kin-openapi "+shortErr(err))
		}
		if err := c12LoadCogOpenAPI(text, schema.Package); err != nil {
			fails = append(fails, "loader-rejects loader=cog-openapi "+shortErr(err))
		}
	}
	if len(fails) == 0 {
		return "ok"
	}
	return "FAIL " + strings.Join(fails, " ;; ")
}

func c12Compact(text []byte) string {
	var b bytes.Buffer
	if err := json.Compact(&b, text); err != nil {
		return "!invalid-json"
	}
	return b.String()
}
