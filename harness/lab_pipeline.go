package main

// In-process runs of the real cog pipeline (codegen.Pipeline.Run) for the labs: one schema
// file in one of the three input formats → generated Go / Python / JSON Schema / OpenAPI files.

import (
	"context"
	"fmt"
	"os"
	"path/filepath"

	"github.com/grafana/cog/internal/ast"
	"github.com/grafana/cog/internal/codegen"
	"github.com/grafana/cog/internal/jennies/golang"
	"github.com/grafana/cog/internal/jennies/jsonschema"
	"github.com/grafana/cog/internal/jennies/openapi"
	"github.com/grafana/cog/internal/jennies/python"
)

type labRun struct {
	Format   string // jsonschema | openapi | cue
	Path     string // schema file (cue: directory)
	Package  string
	OutDir   string // files are written below OutDir/<lang>/…
	GoCfg    *golang.Config
	PyCfg    *python.Config
	JSONSch  bool
	OpenAPI  bool
	Builders bool
	Convert  bool
	// VeneersDir: directory with builder veneer files (*.yaml), "" = none
	VeneersDir string
	// CUE library package loaded as a first input and importable from the main package as
	// "example.com/<LibPackage>" (LibPath "" = single input)
	LibPath    string
	LibPackage string
}

func (lr labRun) pipeline() (*codegen.Pipeline, error) {
	p, err := codegen.NewPipeline()
	if err != nil {
		return nil, err
	}
	in := &codegen.Input{}
	switch lr.Format {
	case "jsonschema":
		in.JSONSchema = &codegen.JSONSchemaInput{Path: lr.Path, Package: lr.Package}
	case "openapi":
		in.OpenAPI = &codegen.OpenAPIInput{Path: lr.Path, Package: lr.Package}
	case "cue":
		in.Cue = &codegen.CueInput{Entrypoint: lr.Path, Package: lr.Package}
		if lr.LibPath != "" {
			in.Cue.CueImports = []string{lr.LibPath + ":example.com/" + lr.LibPackage}
		}
	default:
		return nil, fmt.Errorf("unknown format %s", lr.Format)
	}
	p.Inputs = []*codegen.Input{in}
	if lr.LibPath != "" {
		if lr.Format != "cue" {
			return nil, fmt.Errorf("a library package is only supported for cue")
		}
		lib := &codegen.Input{Cue: &codegen.CueInput{Entrypoint: lr.LibPath, Package: lr.LibPackage}}
		p.Inputs = []*codegen.Input{lib, in}
	}
	p.Output.Directory = "%l"
	p.Output.Types = true
	p.Output.Builders = lr.Builders
	p.Output.Converters = lr.Convert
	if lr.VeneersDir != "" {
		p.Transforms.VeneersDirectories = []string{lr.VeneersDir}
	}
	if lr.GoCfg != nil {
		p.Output.Languages = append(p.Output.Languages, &codegen.OutputLanguage{Go: lr.GoCfg})
	}
	if lr.PyCfg != nil {
		p.Output.Languages = append(p.Output.Languages, &codegen.OutputLanguage{Python: lr.PyCfg})
	}
	if lr.JSONSch {
		p.Output.Languages = append(p.Output.Languages, &codegen.OutputLanguage{JSONSchema: &jsonschema.Config{}})
	}
	if lr.OpenAPI {
		p.Output.Languages = append(p.Output.Languages, &codegen.OutputLanguage{OpenAPI: &openapi.Config{}})
	}
	return p, nil
}

// run executes the pipeline; panics are converted into errors prefixed with "PANIC".
func (lr labRun) run() (files map[string][]byte, err error) {
	defer func() {
		if rec := recover(); rec != nil {
			err = fmt.Errorf("PANIC: %v", rec)
		}
	}()
	p, err := lr.pipeline()
	if err != nil {
		return nil, err
	}
	fs, err := p.Run(context.Background())
	if err != nil {
		return nil, err
	}
	files = map[string][]byte{}
	for _, f := range fs.AsFiles() {
		files[f.RelativePath] = f.Data
	}
	return files, nil
}

func writeFiles(root string, files map[string][]byte) error {
	for rel, data := range files {
		path := rel
		if !filepath.IsAbs(path) {
			path = filepath.Join(root, rel)
		}
		if err := os.MkdirAll(filepath.Dir(path), 0o755); err != nil {
			return err
		}
		if err := os.WriteFile(path, data, 0o644); err != nil {
			return err
		}
	}
	return nil
}

// loadSchemas runs only the front-end (+ consolidation and common passes) of the pipeline.
func (lr labRun) loadSchemas() (schemas ast.Schemas, err error) {
	defer func() {
		if rec := recover(); rec != nil {
			err = fmt.Errorf("PANIC: %v", rec)
		}
	}()
	p, err := lr.pipeline()
	if err != nil {
		return nil, err
	}
	return p.LoadSchemas(context.Background())
}

// chainIR loads the schemas afresh and applies the compiler passes of one target language
// ("go" | "python"), i.e. the IR the jennies of that language see. With builders set, the
// builder IR (FromAST + veneers + nil checks) is returned as well.
func (lr labRun) chainIR(lang string) (schemas ast.Schemas, builders ast.Builders, err error) {
	defer func() {
		if rec := recover(); rec != nil {
			err = fmt.Errorf("PANIC: %v", rec)
		}
	}()
	p, err := lr.pipeline()
	if err != nil {
		return nil, nil, err
	}
	loaded, err := p.LoadSchemas(context.Background())
	if err != nil {
		return nil, nil, err
	}
	langs, err := p.OutputLanguages()
	if err != nil {
		return nil, nil, err
	}
	target, ok := langs[lang]
	if !ok {
		return nil, nil, fmt.Errorf("language %s is not configured", lang)
	}
	ctx, err := p.ContextForLanguage(target, loaded)
	if err != nil {
		return nil, nil, err
	}
	return ctx.Schemas, ctx.Builders, nil
}

// writeSchemaFile stores a rendered schema where the pipeline expects it and returns the path
// to hand to labRun.Path (CUE: a directory named after the package containing schema.cue).
func writeSchemaFile(dir, format, pkg, text string) (string, error) {
	switch format {
	case "cue":
		d := filepath.Join(dir, pkg)
		if err := os.MkdirAll(d, 0o755); err != nil {
			return "", err
		}
		return d, os.WriteFile(filepath.Join(d, "schema.cue"), []byte(text), 0o644)
	case "jsonschema":
		if err := os.MkdirAll(dir, 0o755); err != nil {
			return "", err
		}
		p := filepath.Join(dir, pkg+".jsonschema.json")
		return p, os.WriteFile(p, []byte(text), 0o644)
	case "openapi":
		if err := os.MkdirAll(dir, 0o755); err != nil {
			return "", err
		}
		p := filepath.Join(dir, pkg+".openapi.json")
		return p, os.WriteFile(p, []byte(text), 0o644)
	}
	return "", fmt.Errorf("unknown format %s", format)
}

var labFormats = []string{"jsonschema", "openapi", "cue"}
var labFormatSuffix = map[string]string{"jsonschema": "js", "openapi": "oa", "cue": "cue"}

// renderRespell: optional hook applied to every rendered schema text; a stream that explores spelling
// variants of the source formats (C02: typed / one-member-enum constants) installs it. nil = renderer's own spelling.
var renderRespell func(d *Defs, format string, out renderOut) renderOut

func renderDefs(d *Defs, format, pkg string) renderOut {
	out := renderDefs0(d, format, pkg)
	if renderRespell != nil && out.Text != "" {
		out = renderRespell(d, format, out)
	}
	return out
}

func renderDefs0(d *Defs, format, pkg string) renderOut {
	switch format {
	case "jsonschema":
		return renderJSONSchema(d)
	case "openapi":
		return renderOpenAPI(d)
	case "cue":
		return renderCUE(d, pkg)
	}
	return renderOut{Unsupported: []string{"format:" + format}}
}
