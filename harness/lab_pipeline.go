package main

// In-process runs of the real cog pipeline (codegen.Pipeline.Run) for the labs: one schema
// file in one of the three input formats → generated Go / Python / JSON Schema / OpenAPI files.

import (
	"context"
	"fmt"
	"os"
	"path/filepath"

	"github.com/grafana/cog/internal/codegen"
	"github.com/grafana/cog/internal/jennies/golang"
	"github.com/grafana/cog/internal/jennies/jsonschema"
	"github.com/grafana/cog/internal/jennies/openapi"
	"github.com/grafana/cog/internal/jennies/python"
)

type labRun struct {
	Format   string // jsonschema | openapi | cue
	Path     string // schema file (cue: directory)
	Package  string
	OutDir   string // files are written below OutDir/<lang>/…
	GoCfg    *golang.Config
	PyCfg    *python.Config
	JSONSch  bool
	OpenAPI  bool
	Builders bool
	Convert  bool
}

func (lr labRun) pipeline() (*codegen.Pipeline, error) {
	p, err := codegen.NewPipeline()
	if err != nil {
		return nil, err
	}
	in := &codegen.Input{}
	switch lr.Format {
	case "jsonschema":
		in.JSONSchema = &codegen.JSONSchemaInput{Path: lr.Path, Package: lr.Package}
	case "openapi":
		in.OpenAPI = &codegen.OpenAPIInput{Path: lr.Path, Package: lr.Package}
	case "cue":
		in.Cue = &codegen.CueInput{Entrypoint: lr.Path, Package: lr.Package}
	default:
		return nil, fmt.Errorf("unknown format %s", lr.Format)
	}
	p.Inputs = []*codegen.Input{in}
	p.Output.Directory = "%l"
	p.Output.Types = true
	p.Output.Builders = lr.Builders
	p.Output.Converters = lr.Convert
	if lr.GoCfg != nil {
		p.Output.Languages = append(p.Output.Languages, &codegen.OutputLanguage{Go: lr.GoCfg})
	}
	if lr.PyCfg != nil {
		p.Output.Languages = append(p.Output.Languages, &codegen.OutputLanguage{Python: lr.PyCfg})
	}
	if lr.JSONSch {
		p.Output.Languages = append(p.Output.Languages, &codegen.OutputLanguage{JSONSchema: &jsonschema.Config{}})
	}
	if lr.OpenAPI {
		p.Output.Languages = append(p.Output.Languages, &codegen.OutputLanguage{OpenAPI: &openapi.Config{}})
	}
	return p, nil
}

// run executes the pipeline; panics are converted into errors prefixed with "PANIC".
func (lr labRun) run() (files map[string][]byte, err error) {
	defer func() {
		if rec := recover(); rec != nil {
			err = fmt.Errorf("PANIC: %v", rec)
		}
	}()
	p, err := lr.pipeline()
	if err != nil {
		return nil, err
	}
	fs, err := p.Run(context.Background())
	if err != nil {
		return nil, err
	}
	files = map[string][]byte{}
	for _, f := range fs.AsFiles() {
		files[f.RelativePath] = f.Data
	}
	return files, nil
}

func writeFiles(root string, files map[string][]byte) error {
	for rel, data := range files {
		path := rel
		if !filepath.IsAbs(path) {
			path = filepath.Join(root, rel)
		}
		if err := os.MkdirAll(filepath.Dir(path), 0o755); err != nil {
			return err
		}
		if err := os.WriteFile(path, data, 0o644); err != nil {
			return err
		}
	}
	return nil
}
