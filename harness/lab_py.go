package main

// Python side of the lab: one Python process imports every generated module (package labpy under
// <lab>/py) and executes the line protocol.

import (
	"encoding/json"
	"fmt"
	"os/exec"
	"path/filepath"
	"strings"
	"time"
)

func labPython() string { return "python3" }

func (l *Lab) pyDir() string { return filepath.Join(l.Dir, "py") }

func (l *Lab) buildPy() error {
	t0 := time.Now()
	defer l.timed("pyimport", t0)
	spec := map[string]any{}
	cases := []string{}
	classes := map[string]map[string]string{}
	builders := map[string]bool{}
	structs := map[string][]string{}
	for _, c := range l.Cases {
		if !c.generated() {
			continue
		}
		if _, ok := c.Files["python/models/"+c.ID+".py"]; !ok {
			c.PyImportErr = "no Python module was generated"
			continue
		}
		cases = append(cases, c.ID)
		m := map[string]string{}
		st := []string{}
		for _, o := range c.PyObjects {
			m[o.Name] = o.GoName
			if o.HasNew {
				st = append(st, o.Name)
			}
		}
		classes[c.ID] = m
		structs[c.ID] = st
		if _, ok := c.Files["python/builders/"+c.ID+".py"]; ok {
			builders[c.ID] = true
		}
	}
	exts := []string{}
	for _, e := range l.pyExts {
		p := "py/labpy_ext_" + e.name + ".py"
		if err := l.writeFile(p, []byte(e.files["ext.py"])); err != nil {
			return err
		}
		exts = append(exts, filepath.Join(l.Dir, p))
	}
	spec["cases"], spec["classes"], spec["builders"], spec["exts"], spec["structs"] = cases, classes, builders, exts, structs
	raw, _ := json.Marshal(spec)
	if err := l.writeFile("py/spec.json", raw); err != nil {
		return err
	}
	if err := l.writeFile("py/driver.py", []byte(labPyDriverSource)); err != nil {
		return err
	}
	if len(cases) == 0 {
		return nil
	}
	rep := l.PyCall([]LabReq{{Case: "*", Object: "*", Op: "imports"}})
	if len(rep) != 1 || !strings.HasPrefix(rep[0], "ok ") {
		return fmt.Errorf("python driver did not start: %v", rep)
	}
	errs := map[string]string{}
	if err := json.Unmarshal([]byte(rep[0][3:]), &errs); err != nil {
		return err
	}
	for _, c := range l.Cases {
		if !c.generated() || c.PyImportErr != "" {
			continue
		}
		if e, bad := errs[c.ID]; bad {
			c.PyImportErr = e
		} else if e, bad := errs["*runtime"]; bad {
			c.PyImportErr = "runtime: " + e
		} else {
			c.PyOK = true
		}
	}
	for k, v := range errs {
		if strings.HasPrefix(k, "*ext:") {
			l.Warnings = append(l.Warnings, "python extension "+k[5:]+": "+v)
		}
	}
	return nil
}

// PyCall runs a batch of requests through the Python driver.
func (l *Lab) PyCall(reqs []LabReq) []string {
	t0 := time.Now()
	defer l.timed("pycall", t0)
	return l.callFiltered(reqs, func(c *LabCase) string {
		if c.PyOK || (c.generated() && c.PyImportErr == "" && !l.built) {
			return ""
		}
		return labFirstLine(c.PyImportErr + c.GenErr + strings.Join(c.Unsupported, ","))
	}, func(lines []string) []string {
		return runDriver(func() *exec.Cmd {
			cmd := exec.Command(labPython(), "-B", filepath.Join(l.pyDir(), "driver.py"), l.pyDir(), filepath.Join(l.pyDir(), "spec.json"))
			cmd.Dir = l.pyDir()
			return cmd
		}, lines, l.Opts.Timeout)
	})
}
