package main

// C12 IR-level streams: the JSON Schema / OpenAPI jennies run directly on IR the lab cannot
// produce (several packages, cross-package references, same-named objects, every Kind).
//
//   c12-ir      random schema sets (irgen.go)      rows as in c12-lab: defschemas / jsemit / jswf
//   c12-pinned  hand-built sets, one per recorded finding, with value documents
//               (what the generated Go types encode) validated against the emitted schema
//   c12-hang    ONE real run of the emitter on a recursive foreign object, under a watchdog (the loop
//               was repaired in 56f489a: a relapse is reported as `hang`)

import (
	"bufio"
	"encoding/json"
	"fmt"
	"os"
	"strings"
	"time"

	"github.com/grafana/cog/internal/ast"
	"github.com/grafana/cog/internal/jennies/jsonschema"
	"github.com/grafana/cog/internal/jennies/openapi"
	"github.com/grafana/cog/internal/languages"
)

// the formatter `Schema.Generate` installs by default (the field is exported for callers such as the
// OpenAPI jenny; `GenerateSchema` itself requires it to be set)
func c12DefaultRef(ref ast.RefType) string { return "#/definitions/" + ref.ReferredType }

func c12EmitJSONSchema(schemas ast.Schemas, schema *ast.Schema) (text []byte, err error) {
	defer c12Recover("jsonschema jenny", &err)
	jenny := jsonschema.Schema{ReferenceFormatter: c12DefaultRef}
	def := jenny.GenerateSchema(languages.Context{Schemas: schemas}, schema)
	return json.Marshal(def)
}

func c12EmitOpenAPI(schemas ast.Schemas) (files map[string][]byte, err error) {
	defer c12Recover("openapi jenny", &err)
	fs, err := openapi.Schema{}.Generate(languages.Context{Schemas: schemas})
	if err != nil {
		return nil, err
	}
	files = map[string][]byte{}
	for _, f := range fs {
		files[strings.TrimSuffix(f.RelativePath, ".openapi.json")] = f.Data
	}
	return files, nil
}

func c12ImplReply(text []byte, err error) string {
	if err != nil {
		if strings.HasPrefix(err.Error(), "PANIC") {
			return "panic"
		}
		return "err " + shortErr(err)
	}
	return "ok " + c12Compact(text)
}

// The foreign-object loop of GenerateSchema used to run forever on foreign objects that refer to each
// other in a cycle (fixed in 56f489a). Sets with such a cycle (detected independently of the emitter)
// are run under a watchdog so that a relapse shows up as a `hang` row instead of a stuck harness.
var c12Hung bool // a run timed out: its goroutine is still spinning; later cyclic sets are not run

const c12Watchdog = 5 * time.Second

func c12Guarded[T any](cyclic bool, fn func() (T, error)) (res T, err error, hung bool) {
	if !cyclic {
		res, err = fn()
		return res, err, false
	}
	if c12Hung {
		return res, nil, true
	}
	type out struct {
		v   T
		err error
	}
	done := make(chan out, 1)
	go func() {
		v, err := fn()
		done <- out{v, err}
	}()
	select {
	case o := <-done:
		return o.v, o.err, false
	case <-time.After(c12Watchdog):
		c12Hung = true
		return res, nil, true
	}
}

// c12EmitRows writes the rows of one schema set.
// loaders: also hand the documents to the independent loaders (only for IR a front-end can produce:
// the random IR has duplicate enum values, self-aliases, … which the loaders rightly refuse).
func c12EmitRows(out *bufio.Writer, id string, schemas ast.Schemas, stats map[string]int, loaders bool) {
	fmt.Fprintf(out, "defschemas %s %s\tok\tok\n", id, virSchemas(schemas))
	anyCyclic := false
	for _, s := range schemas {
		if c12ForeignObjects(schemas, s).cyclic {
			anyCyclic = true
		}
	}
	oaFiles, oaErr, oaHung := c12Guarded(anyCyclic, func() (map[string][]byte, error) { return c12EmitOpenAPI(schemas) })
	seenPkg := map[string]bool{}
	for _, s := range schemas {
		if seenPkg[s.Package] {
			continue // the driver addresses schemas by package
		}
		seenPkg[s.Package] = true
		stats["schemas"]++
		fo := c12ForeignObjects(schemas, s)
		if len(fo.objs) > 0 {
			stats["with-foreign-objects"]++
		}
		if fo.cyclic {
			stats["foreign-cycles"]++
		}
		text, err, hung := c12Guarded(fo.cyclic, func() ([]byte, error) { return c12EmitJSONSchema(schemas, s) })
		if hung {
			stats["hang"]++
			v := fmt.Sprintf("FAIL emission-does-not-terminate pkg=%s no result after %v (watchdog); foreign objects refer to each other in a cycle", s.Package, c12Watchdog)
			fmt.Fprintf(out, "jsemit %s %s js\thang\t%s\n", id, s.Package, v)
			continue
		}
		verdict := "ok"
		if err == nil {
			verdict = c12VerdictJSONSchema(schemas, s, text, loaders)
		} else if c12MalformedInput(schemas, s) {
			verdict = "ok emitter-fails-on-malformed-input-ir " + shortErr(err)
			stats["malformed-input-panics"]++
		} else {
			verdict = "FAIL emitter-error " + shortErr(err)
		}
		fmt.Fprintf(out, "jsemit %s %s js\t%s\t%s\n", id, s.Package, c12ImplReply(text, err), verdict)
		if err == nil {
			emitted, _ := parseJV(text)
			defs, _ := c12Definitions(emitted, false)
			present := true
			s.Objects.Iterate(func(_ string, o ast.Object) {
				if _, ok := defs.get(o.Name); !ok {
					present = false
				}
			})
			fmt.Fprintf(out, "jswf %s %s\trefs=%v present=%v\tok\n", id, s.Package, len(c12Unresolved(emitted, false)) == 0, present)
		}
		switch {
		case oaHung:
			stats["openapi-hang"]++
			fmt.Fprintf(out, "jsemit %s %s oa\thang\tFAIL emission-does-not-terminate pkg=%s OpenAPI jenny: no result after %v (watchdog)\n", id, s.Package, s.Package, c12Watchdog)
		case oaErr != nil:
			// the OpenAPI jenny formats every schema of the set in one call: its failure cannot be
			// attributed to this package (the JSON Schema rows, one call per package, cover it)
			stats["openapi-generate-failed-for-the-set"]++
		default:
			if t, ok := oaFiles[s.Package]; ok {
				fmt.Fprintf(out, "jsemit %s %s oa\tok %s\t%s\n", id, s.Package, c12Compact(t), c12VerdictOpenAPI(schemas, s, t, loaders))
			}
		}
	}
}

// c12ExitIfHung: a timed-out emitter goroutine cannot be stopped; leave once the rows are written.
func c12ExitIfHung(out *bufio.Writer) {
	if c12Hung {
		out.Flush()
		os.Exit(0)
	}
}

func init() {
	register("c12-ir", func(args map[string]string, out *bufio.Writer) error {
		n := argInt(args, "n", 200)
		seed := uint64(argInt(args, "seed", 1))
		o := defaultIRGenOpts(args["tier"])
		o.maxPkgs = 3
		stats := map[string]int{}
		from := argInt(args, "from", 0)
		for i := from; i < from+n; i++ {
			oi := o
			if args["malformed"] == "1" && i%4 == 3 {
				oi.malformed = true
			}
			schemas := genSchemas(newRng(seed*1000003+uint64(i)), oi)
			c12EmitRows(out, fmt.Sprintf("i%d", i), schemas, stats, false)
		}
		fmt.Fprintf(out, "-\tstats %v\tok\n", stats)
		c12ExitIfHung(out)
		return nil
	})
}

// ---- pinned sets -----------------------------------------------------------------------------

func c12Obj(pkg, name string, t ast.Type) ast.Object { return ast.NewObject(pkg, name, t) }

func c12Schema(pkg string, entry string, objs ...ast.Object) *ast.Schema {
	s := ast.NewSchema(pkg, ast.SchemaMeta{})
	for _, o := range objs {
		s.AddObject(o)
	}
	if entry != "" {
		s.EntryPoint = entry
		s.EntryPointType = ast.NewRef(pkg, entry)
	}
	return s
}

func c12Field(name string, t ast.Type, required bool) ast.StructField {
	f := ast.NewStructField(name, t)
	f.Required = required
	return f
}

type c12Pinned struct {
	id      string
	what    string
	schemas ast.Schemas
	pkg     string
	root    string
	values  []string // documents the generated Go types encode for `root`
	passes  bool     // run the jsonschema language's compiler passes (InferEntrypoint, …) on the set first
}

func c12PinnedSets() []c12Pinned {
	str := ast.String()
	i64 := ast.NewScalar(ast.KindInt64)
	return []c12Pinned{
		{
			id: "crosspkg", what: "cross-package references: the foreign objects are pulled into the document, transitively",
			pkg: "a", root: "Root",
			schemas: ast.Schemas{
				c12Schema("a", "Root", c12Obj("a", "Root", ast.NewStruct(
					c12Field("t", ast.NewRef("b", "T"), true),
					c12Field("n", i64, false)))),
				c12Schema("b", "",
					c12Obj("b", "T", ast.NewStruct(c12Field("u", ast.NewRef("b", "U"), true), c12Field("back", ast.NewRef("a", "Root"), false))),
					c12Obj("b", "U", ast.NewEnum([]ast.EnumValue{{Name: "x", Type: str, Value: "x"}, {Name: "y", Type: str, Value: "y"}})),
					c12Obj("b", "Unused", ast.NewStruct(c12Field("z", str, true)))),
			},
			values: []string{`{"t":{"u":"x"}}`, `{"t":{"u":"y","back":{"t":{"u":"x"},"n":3}},"n":1}`},
		},
		{
			id: "samename", what: "two foreign objects with the same name from different packages overwrite each other in `definitions`",
			pkg: "a", root: "Root",
			schemas: ast.Schemas{
				c12Schema("a", "Root", c12Obj("a", "Root", ast.NewStruct(
					c12Field("x", ast.NewRef("b", "T"), true),
					c12Field("y", ast.NewRef("c", "T"), true)))),
				c12Schema("b", "", c12Obj("b", "T", ast.NewStruct(c12Field("p", str, true)))),
				c12Schema("c", "", c12Obj("c", "T", ast.NewStruct(c12Field("q", i64, true)))),
			},
			values: []string{`{"x":{"p":"s"},"y":{"q":1}}`},
		},
		{
			id: "shadowlocal", what: "a foreign object with the name of a local object replaces the local definition",
			pkg: "a", root: "Root",
			schemas: ast.Schemas{
				c12Schema("a", "Root",
					c12Obj("a", "Root", ast.NewStruct(c12Field("mine", ast.NewRef("a", "T"), true), c12Field("theirs", ast.NewRef("b", "T"), true))),
					c12Obj("a", "T", ast.NewStruct(c12Field("p", str, true)))),
				c12Schema("b", "", c12Obj("b", "T", ast.NewStruct(c12Field("q", i64, true)))),
			},
			values: []string{`{"mine":{"p":"s"},"theirs":{"q":1}}`},
		},
		{
			id: "constref", what: "constant references and intersections are emitted as `{}`: the constant / the members are not carried over",
			pkg: "a", root: "Root",
			schemas: ast.Schemas{
				c12Schema("a", "Root",
					c12Obj("a", "Kind", ast.NewScalar(ast.KindString, ast.Value("panel"))),
					c12Obj("a", "Base", ast.NewStruct(c12Field("id", i64, true))),
					c12Obj("a", "Root", ast.NewStruct(
						c12Field("kind", ast.NewConstantReferenceType("a", "Kind", "panel"), true),
						c12Field("both", ast.NewIntersection([]ast.Type{ast.NewRef("a", "Base"), ast.NewStruct(c12Field("extra", str, true))}), false)))),
			},
			values: []string{`{"kind":"panel"}`, `{"kind":"panel","both":{"id":1,"extra":"e"}}`},
		},
		{
			id: "anyfield", what: "`any` is emitted as `{type: object}`: a string in an `any` member is rejected",
			pkg: "a", root: "Root",
			schemas: ast.Schemas{
				c12Schema("a", "Root", c12Obj("a", "Root", ast.NewStruct(c12Field("v", ast.Any(), true)))),
			},
			values: []string{`{"v":"text"}`, `{"v":{"k":1}}`},
		},
		{
			id: "oa-enum", what: "OpenAPI output: an enum is emitted without `type`; cog's own OpenAPI front-end panics on it",
			pkg: "a", root: "Root",
			schemas: ast.Schemas{
				c12Schema("a", "Root",
					c12Obj("a", "Root", ast.NewStruct(c12Field("e", ast.NewRef("a", "E"), true))),
					c12Obj("a", "E", ast.NewEnum([]ast.EnumValue{{Name: "x", Type: str, Value: "x"}, {Name: "y", Type: str, Value: "y"}}))),
			},
			values: []string{`{"e":"x"}`},
		},
		{
			id: "oa-exclusive", what: "OpenAPI output: exclusive bounds are written as numbers (JSON Schema draft-07 form); OpenAPI 3.0 wants booleans",
			pkg: "a", root: "Root",
			schemas: ast.Schemas{
				c12Schema("a", "Root", c12Obj("a", "Root", ast.NewStruct(c12Field("n", func() ast.Type {
					t := ast.NewScalar(ast.KindInt64)
					t.Scalar.Constraints = []ast.TypeConstraint{{Op: ast.GreaterThanOp, Args: []any{int64(0)}}, {Op: ast.LessThanOp, Args: []any{int64(10)}}}
					return t
				}(), true)))),
			},
			values: []string{`{"n":5}`},
		},
		{
			id: "oa-nulltype", what: "OpenAPI output: `type: null` is not an OpenAPI 3.0 type",
			pkg: "a", root: "Root",
			schemas: ast.Schemas{
				c12Schema("a", "Root", c12Obj("a", "Root", ast.NewStruct(c12Field("z", ast.NewScalar(ast.KindNull), false)))),
			},
			values: []string{`{}`},
		},
		{
			id: "oa-refsibling", what: "OpenAPI output: a commented alias is a component `{$ref, description}`: extra sibling fields",
			pkg: "a", root: "Root",
			schemas: ast.Schemas{
				c12Schema("a", "Root",
					c12Obj("a", "Root", ast.NewStruct(
						func() ast.StructField {
							f := c12Field("t", ast.NewRef("a", "T"), true)
							f.Comments = []string{"the T"}
							return f
						}(),
						c12Field("u", ast.NewRef("a", "T", ast.Default(map[string]any{"p": "d"})), false))),
					func() ast.Object {
						o := c12Obj("a", "Alias", ast.NewRef("a", "T"))
						o.Comments = []string{"an alias with a comment"}
						return o
					}(),
					c12Obj("a", "T", ast.NewStruct(c12Field("p", str, true)))),
			},
			values: []string{`{"t":{"p":"s"}}`},
		},
		{
			id: "entry-lower", what: "inferred entry point: package `team`, object `team` (lower case, usual in hand-written OpenAPI): the top-level $ref has to name the definition as it is spelled",
			pkg: "team", root: "team", passes: true,
			schemas: ast.Schemas{c12Schema("team", "",
				c12Obj("team", "team", ast.NewStruct(c12Field("members", ast.NewArray(ast.NewRef("team", "member")), true))),
				c12Obj("team", "member", ast.NewStruct(c12Field("name", str, true))))},
			values: []string{`{"members":[{"name":"a"}]}`},
		},
		{
			id: "entry-snake", what: "inferred entry point: package `foo_bar`, object `Foo_bar`",
			pkg: "foo_bar", root: "Foo_bar", passes: true,
			schemas: ast.Schemas{c12Schema("foo_bar", "",
				c12Obj("foo_bar", "other", ast.NewStruct(c12Field("n", i64, false))),
				c12Obj("foo_bar", "Foo_bar", ast.NewStruct(c12Field("o", ast.NewRef("foo_bar", "other"), false))))},
			values: []string{`{"o":{"n":1}}`, `{}`},
		},
		{
			id: "entry-kebab", what: "inferred entry point: package `my-package`, object `MY-PACKAGE`",
			pkg: "my-package", root: "MY-PACKAGE", passes: true,
			schemas: ast.Schemas{c12Schema("my-package", "",
				c12Obj("my-package", "MY-PACKAGE", ast.NewStruct(c12Field("s", str, true))))},
			values: []string{`{"s":"x"}`},
		},
		{
			id: "entry-camel", what: "inferred entry point: package `team`, object `Team` (control)",
			pkg: "team", root: "Team", passes: true,
			schemas: ast.Schemas{c12Schema("team", "",
				c12Obj("team", "Team", ast.NewStruct(c12Field("s", str, true))))},
			values: []string{`{"s":"x"}`},
		},
		{
			id: "requirednullable", what: "nullability is not represented: a required nullable member encodes `null`",
			pkg: "a", root: "Root",
			schemas: ast.Schemas{
				c12Schema("a", "Root", c12Obj("a", "Root", ast.NewStruct(c12Field("n", ast.NewScalar(ast.KindInt64, ast.Nullable()), true)))),
			},
			values: []string{`{"n":null}`, `{"n":4}`},
		},
	}
}

func c12HangSet() c12Pinned {
	return c12Pinned{
		id: "foreigncycle", what: "a recursive foreign object: the closure loop of GenerateSchema used to run forever (fixed in 56f489a); it must be emitted once",
		pkg: "a", root: "Root",
		values: []string{`{"list":{"next":{"next":{}}}}`, `{}`},
		schemas: ast.Schemas{
			c12Schema("a", "Root", c12Obj("a", "Root", ast.NewStruct(c12Field("list", ast.NewRef("b", "Node"), false)))),
			c12Schema("b", "", c12Obj("b", "Node", ast.NewStruct(c12Field("next", ast.NewRef("b", "Node"), false)))),
		},
	}
}

func init() {
	register("c12-pinned", func(args map[string]string, out *bufio.Writer) error {
		stats := map[string]int{}
		sets := append(c12PinnedSets(), c12HangSet())
		for _, p := range sets {
			if only, ok := args["id"]; ok && only != p.id {
				continue
			}
			id := "pin-" + p.id
			fmt.Fprintf(out, "-\tpinned %s %s\tok\n", p.id, p.what)
			if p.passes {
				processed, err := jsonschema.New(jsonschema.Config{}).CompilerPasses().Process(p.schemas)
				if err != nil {
					fmt.Fprintf(out, "-\tpinned %s compiler passes failed: %s\tFAIL compiler-passes-error %s\n", p.id, shortErr(err), shortErr(err))
					continue
				}
				p.schemas = processed
				// an entry point is expected: the set holds an object named like its package
				if s := c12FindSchema(p.schemas, p.pkg); s != nil && s.EntryPoint == "" {
					fmt.Fprintf(out, "-\tpinned %s\tFAIL entry-point-not-inferred pkg=%s\n", p.id, p.pkg)
				}
			}
			c12EmitRows(out, id, p.schemas, stats, true)
			s := c12FindSchema(p.schemas, p.pkg)
			if s == nil || c12Hung {
				continue
			}
			text, err := c12EmitJSONSchema(p.schemas, s)
			if err != nil {
				continue
			}
			emitted, _ := parseJV(text)
			ev, evErr := newRefValidator("jsonschema", string(text), p.root)
			for _, v := range p.values {
				doc := mustJV(v)
				impl, verdict := "valid", "ok"
				if evErr != nil {
					impl, verdict = "invalid", "FAIL emitted-schema-does-not-compile case="+id+" "+shortErr(evErr)
				} else if verr := ev.validate(doc); verr != nil {
					impl = "invalid"
					by := c12ExplainedBy(s, emitted, p.root, doc)
					if by == "" {
						by = "nothing"
					}
					verdict = fmt.Sprintf("FAIL encoded-value-rejected explained-by=%s format=ir src=%s %s case=%s", by, p.id, c12Explain(verr, emitted, doc), id)
				}
				fmt.Fprintf(out, "jsvalid %s %s %s %s\t%s\t%s\t%s\n", id, p.pkg, p.root, doc.sexp(), impl, verdict, doc.json())
			}
		}
		c12ExitIfHung(out)
		return nil
	})

	// one real run on the recursive foreign object; the watchdog answers when the emitter does not
	register("c12-hang", func(args map[string]string, out *bufio.Writer) error {
		p := c12HangSet()
		s := c12FindSchema(p.schemas, p.pkg)
		fmt.Fprintf(out, "defschemas pin-%s %s\tok\tok\n", p.id, virSchemas(p.schemas))
		done := make(chan string, 1)
		go func() {
			text, err := c12EmitJSONSchema(p.schemas, s)
			done <- c12ImplReply(text, err)
		}()
		wait := time.Duration(argInt(args, "ms", 3000)) * time.Millisecond
		select {
		case r := <-done:
			fmt.Fprintf(out, "jsemit pin-%s %s js\t%s\tok\n", p.id, p.pkg, r)
		case <-time.After(wait):
			fmt.Fprintf(out, "jsemit pin-%s %s js\thang\tFAIL emission-does-not-terminate pkg=%s no result after %v (watchdog)\n", p.id, p.pkg, p.pkg, wait)
			out.Flush()
			os.Exit(0) // the emitter goroutine cannot be stopped
		}
		return nil
	})
}
