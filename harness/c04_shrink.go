package main

// C04: shrinker.  Keeps the failure class (outcome kind, top cog frame, message class) while
// deleting: output languages and flags, sibling files, JSON members / array elements of the schema
// or of the YAML-as-JSON documents, lines of text inputs, IR objects/fields, operations.

import (
	"sort"
	"strings"
)

type c04Shrinker struct {
	pool   *c04Pool
	proc   *c04Proc
	target c04Result
	evals  int
	budget int
}

func (s *c04Shrinker) eval(c *c04Case) (c04Result, bool) {
	if s.evals >= s.budget {
		return c04Result{}, false
	}
	s.evals++
	if s.proc == nil {
		p, err := c04Spawn(s.pool.work)
		if err != nil {
			return c04Result{}, false
		}
		s.proc = p
	}
	res, alive := s.proc.run(c, s.pool.timeout)
	if !alive {
		s.proc = nil
		c04AttachIR(c, &res)
	}
	same := res.Outcome == s.target.Outcome && res.Frame == s.target.Frame && res.Msg == s.target.Msg
	return res, same
}

func c04CloneCase(c *c04Case) *c04Case {
	n := *c
	n.Files = map[string][]byte{}
	for k, v := range c.Files {
		n.Files[k] = v
	}
	n.Del = append([]string{}, c.Del...)
	return &n
}

// greedy deletion over a JSON document held in a file of the case (or in c.Yaml)
func (s *c04Shrinker) shrinkJSON(c *c04Case, get func(*c04Case) []byte, set func(*c04Case, []byte)) *c04Case {
	root, err := c04JParse(get(c))
	if err != nil {
		return c
	}
	progress := true
	for progress && s.evals < s.budget {
		progress = false
		sites := c04JSites(root)
		// coarse first: shallow nodes before deep ones
		sort.SliceStable(sites, func(i, j int) bool { return sites[i].depth < sites[j].depth })
		for _, st := range sites {
			if st.parent == nil || s.evals >= s.budget {
				continue
			}
			// the tree changes as we delete: re-locate by identity
			idx := -1
			for i, v := range st.parent.vals {
				if v == st.node {
					idx = i
				}
			}
			if idx < 0 {
				continue
			}
			savedKeys, savedVals := append([]string{}, st.parent.keys...), append([]*c04JNode{}, st.parent.vals...)
			if st.parent.kind == "obj" {
				st.parent.keys = append(st.parent.keys[:idx:idx], st.parent.keys[idx+1:]...)
			}
			st.parent.vals = append(st.parent.vals[:idx:idx], st.parent.vals[idx+1:]...)
			cand := c04CloneCase(c)
			set(cand, []byte(root.String()))
			if _, same := s.eval(cand); same {
				c = cand
				progress = true
			} else {
				st.parent.keys, st.parent.vals = savedKeys, savedVals
			}
		}
	}
	return c
}

func (s *c04Shrinker) shrinkLines(c *c04Case, get func(*c04Case) []byte, set func(*c04Case, []byte)) *c04Case {
	lines := strings.Split(string(get(c)), "\n")
	chunk := len(lines) / 2
	for chunk >= 1 && s.evals < s.budget {
		for i := 0; i+chunk <= len(lines) && s.evals < s.budget; {
			candLines := append(append([]string{}, lines[:i]...), lines[i+chunk:]...)
			cand := c04CloneCase(c)
			set(cand, []byte(strings.Join(candLines, "\n")))
			if _, same := s.eval(cand); same {
				c, lines = cand, candLines
			} else {
				i += chunk
			}
		}
		chunk /= 2
	}
	return c
}

func c04Shrink(pool *c04Pool, c *c04Case, budget int) (*c04Case, c04Result, int) {
	s := &c04Shrinker{pool: pool, budget: budget + 1}
	defer func() {
		if s.proc != nil {
			s.proc.kill()
		}
	}()
	// the class to preserve = what the case does now
	first, _ := s.eval(c)
	s.target = first
	if first.Outcome == "ok" || first.Outcome == "err" {
		return c, first, s.evals
	}
	cur := c04CloneCase(c)
	fileGet := func(name string) func(*c04Case) []byte { return func(x *c04Case) []byte { return x.Files[name] } }
	fileSet := func(name string) func(*c04Case, []byte) {
		return func(x *c04Case, b []byte) { x.Files[name] = b }
	}
	switch c.Kind {
	case "run":
		// 1. the configuration (languages, flags, transformation files)
		cur = s.shrinkJSON(cur, fileGet(c.Config), fileSet(c.Config))
		// 2. side files
		var names []string
		for n := range cur.Files {
			if n != c.Config {
				names = append(names, n)
			}
		}
		sort.Strings(names)
		for _, n := range names {
			cand := c04CloneCase(cur)
			delete(cand.Files, n)
			if _, same := s.eval(cand); same {
				cur = cand
			}
		}
		// 3. the remaining files
		names = names[:0]
		for n := range cur.Files {
			if n != c.Config {
				names = append(names, n)
			}
		}
		sort.Strings(names)
		for _, n := range names {
			if _, err := c04JParse(cur.Files[n]); err == nil {
				cur = s.shrinkJSON(cur, fileGet(n), fileSet(n))
			} else {
				cur = s.shrinkLines(cur, fileGet(n), fileSet(n))
			}
		}
	default:
		// the failing operation alone
		if first.Stage != "" && c.Kind == "ir" {
			for _, part := range strings.Split(first.Stage, ";") {
				if i := strings.Index(part, "=panic@"); i > 0 && strings.Contains(part, first.Frame) {
					cand := c04CloneCase(cur)
					cand.Op = part[:i]
					if _, same := s.eval(cand); same {
						cur = cand
					}
					break
				}
			}
			if first.Outcome != "panic" && first.Stage != "" && !strings.Contains(first.Stage, "=") {
				cand := c04CloneCase(cur)
				cand.Op = first.Stage
				if _, same := s.eval(cand); same {
					cur = cand
				}
			}
		}
		if c.Kind != "ir" && c.Lang == "" {
			for _, l := range c04Langs {
				cand := c04CloneCase(cur)
				cand.Lang = l
				if _, same := s.eval(cand); same {
					cur = cand
					break
				}
			}
		}
		if c.Yaml != "" {
			cur = s.shrinkJSON(cur, func(x *c04Case) []byte { return []byte(x.Yaml) }, func(x *c04Case, b []byte) { x.Yaml = string(b) })
		}
		// IR deletions
		ss := c04GenIR(cur)
		for _, d := range c04DelCandidates(ss) {
			if s.evals >= s.budget {
				break
			}
			cand := c04CloneCase(cur)
			cand.Del = append(cand.Del, d)
			if _, same := s.eval(cand); same {
				cur = cand
			}
		}
	}
	s.budget++ // the final confirmation run is always allowed
	final, same := s.eval(cur)
	if !same {
		return c, first, s.evals
	}
	return cur, final, s.evals
}
