package main

// Schema-set generator for C16/C17: the shared IR generator (irgen.go) plus the shapes the
// property quantifies over: aliases of structs, alias chains, constant objects, fields that
// reference constants (required / optional / nullable / in another package), constant_ref fields,
// concrete scalar fields; and - only in `malformed` mode - dangling alias chains, nil kind
// pointers, constraints without arguments and alias cycles.

import (
	"fmt"

	"github.com/grafana/cog/internal/ast"
)

type c16Opts struct {
	tier      string
	malformed bool
	veneers   bool // C17: bias towards shapes the veneer actions look at (arrays, maps, bools, struct args, disjunctions)
}

func caseRng(seed, idx int) *rng { return newRng(uint64(seed)*1000003 + uint64(idx)*7919 + 17) }

// objects of a schema in order
func schemaObjects(s *ast.Schema) []ast.Object {
	out := []ast.Object{}
	if s.Objects == nil {
		return out
	}
	s.Objects.Iterate(func(_ string, o ast.Object) { out = append(out, o) })
	return out
}

func structObjectNames(s *ast.Schema) []string {
	out := []string{}
	for _, o := range schemaObjects(s) {
		if o.Type.Kind == ast.KindStruct && o.Type.Struct != nil {
			out = append(out, o.Name)
		}
	}
	return out
}

func freshObjName(s *ast.Schema, base string) string {
	if !s.HasObject(base) {
		return base
	}
	for i := 2; ; i++ {
		n := fmt.Sprintf("%s%d", base, i)
		if !s.HasObject(n) {
			return n
		}
	}
}

func structHasField(t ast.Type, name string) bool {
	for _, f := range t.Struct.Fields {
		if f.Name == name {
			return true
		}
	}
	return false
}

func addField(s *ast.Schema, objName string, f ast.StructField) {
	o := s.Objects.Get(objName)
	if o.Type.Kind != ast.KindStruct || o.Type.Struct == nil || structHasField(o.Type, f.Name) {
		return
	}
	// fresh StructType: the generator never shares kind pointers between objects
	fields := append([]ast.StructField{}, o.Type.Struct.Fields...)
	pos := 0
	if len(fields) > 0 {
		pos = int(uint(len(f.Name)*7+len(fields)) % uint(len(fields)+1))
	}
	fields = append(fields[:pos], append([]ast.StructField{f}, fields[pos:]...)...)
	o.Type.Struct = &ast.StructType{Fields: fields}
	s.Objects.Set(objName, o)
}

// safeGenSchemas: the shared generator can dereference a nil kind pointer of one of its own malformed
// nodes (irgen.go, discriminator mapping over a `Kind: ref` node without Ref); such a draw is
// replaced by a well-formed one (the rng has advanced deterministically, the case stays reproducible).
func safeGenSchemas(r *rng, io irGenOpts) (schemas ast.Schemas) {
	defer func() {
		if e := recover(); e != nil {
			io.malformed = false
			schemas = genSchemas(r, io)
		}
	}()
	return genSchemas(r, io)
}

func genC16Schemas(r *rng, o c16Opts) ast.Schemas {
	io := defaultIRGenOpts(o.tier)
	io.malformed = o.malformed
	schemas := safeGenSchemas(r, io)

	// constant objects
	type constRef struct{ pkg, name string }
	consts := []constRef{}
	for _, s := range schemas {
		n := r.intn(3)
		for i := 0; i < n; i++ {
			name := freshObjName(s, pick(r, []string{"K", "Version", "kind", "Const"}))
			var t ast.Type
			switch r.intn(4) {
			case 0:
				t = ast.NewScalar(ast.KindInt64)
				t.Scalar.Value = int64(r.intn(5))
			case 1:
				t = ast.NewScalar(ast.KindBool)
				t.Scalar.Value = r.chance(50)
			default:
				t = ast.String()
				t.Scalar.Value = pick(r, []string{"v1", "", "panel", "x"})
			}
			s.AddObject(ast.NewObject(s.Package, name, t))
			consts = append(consts, constRef{s.Package, name})
		}
	}
	enums := []constRef{}
	for _, s := range schemas {
		for _, ob := range schemaObjects(s) {
			if ob.Type.Kind == ast.KindEnum {
				enums = append(enums, constRef{s.Package, ob.Name})
			}
		}
	}

	// fields of the interesting kinds, added to existing struct objects
	for _, s := range schemas {
		for _, on := range structObjectNames(s) {
			if len(consts) > 0 && r.chance(45) {
				c := pick(r, consts) // any package: cross-package constants included
				t := ast.NewRef(c.pkg, c.name)
				if r.chance(25) {
					t.Nullable = true
				}
				if r.chance(15) {
					t.Default = "dflt"
				}
				f := ast.NewStructField(pick(r, []string{"k1", "k2", "version"}), t)
				f.Required = r.chance(60)
				addField(s, on, f)
			}
			if r.chance(20) {
				var t ast.Type
				if len(enums) > 0 && r.chance(70) {
					e := pick(r, enums)
					t = ast.NewConstantReferenceType(e.pkg, e.name, pick(r, []any{"a", "foo", int64(0)}))
				} else {
					t = ast.NewConstantReferenceType(s.Package, "NoSuchEnum", "a")
				}
				f := ast.NewStructField(pick(r, []string{"cr", "mode"}), t)
				f.Required = r.chance(50)
				addField(s, on, f)
			}
			if r.chance(15) {
				t := ast.String()
				t.Scalar.Constraints = []ast.TypeConstraint{
					{Op: ast.NotEqualOp, Args: []any{"all"}}, {Op: ast.MinLengthOp, Args: []any{int64(1)}}, {Op: ast.NotEqualOp, Args: []any{"none"}},
				}
				f := ast.NewStructField(pick(r, []string{"sel", "scope"}), t)
				f.Required = r.chance(50)
				addField(s, on, f)
			}
			if r.chance(25) {
				t := ast.String()
				t.Scalar.Value = pick(r, []any{"fixed", "", int64(3), true})
				f := ast.NewStructField(pick(r, []string{"cs", "apiVersion"}), t)
				f.Required = r.chance(50)
				addField(s, on, f)
			}
			if r.chance(25) {
				t := ast.NewScalar(pick(r, []ast.ScalarKind{ast.KindInt64, ast.KindUint8, ast.KindFloat64}))
				t.Scalar.Constraints = []ast.TypeConstraint{
					{Op: ast.GreaterThanEqualOp, Args: []any{int64(r.intn(5))}},
					{Op: ast.LessThanOp, Args: []any{int64(10 + r.intn(5)), "ignored"}},
				}
				if r.chance(35) {
					// the same operator more than once (`multipleOf 2` and `multipleOf 3`, two `!=`): the
					// assignment must carry the whole list, in order, duplicates included
					op := pick(r, []ast.Op{ast.MultipleOfOp, ast.NotEqualOp, ast.GreaterThanEqualOp})
					for i := 0; i < 1+r.intn(2); i++ {
						t.Scalar.Constraints = append(t.Scalar.Constraints, ast.TypeConstraint{Op: op, Args: []any{int64(2 + r.intn(5))}})
					}
					if r.chance(50) { // an exact repetition too
						t.Scalar.Constraints = append(t.Scalar.Constraints, t.Scalar.Constraints[0])
					}
				}
				if r.chance(40) {
					t.Default = int64(r.intn(9))
				}
				f := ast.NewStructField(pick(r, []string{"n", "limit"}), t)
				f.Required = r.chance(50)
				f.Comments = []string{"bounded"}
				addField(s, on, f)
			}
			if o.veneers && r.chance(35) {
				// three levels of inline structs ending in a reference to a struct object: paths of 3 and 4
				// segments (slices built by successive appends have spare capacity exactly at length 3)
				leaf := ast.NewRef(s.Package, pick(r, structObjectNames(s)))
				inner := ast.NewStruct(ast.NewStructField("leaf", leaf), ast.NewStructField("v", ast.String()))
				mid := ast.NewStruct(ast.NewStructField("inner", inner), ast.NewStructField("w", ast.NewScalar(ast.KindInt64)))
				addField(s, on, ast.NewStructField("nest", mid))
			}
			if o.veneers {
				if r.chance(50) {
					addField(s, on, ast.NewStructField(pick(r, []string{"tags", "Tags", "entries", "s"}), ast.NewArray(pick(r, []ast.Type{ast.String(), ast.NewScalar(ast.KindInt64)}))))
				}
				if r.chance(40) {
					addField(s, on, ast.NewStructField(pick(r, []string{"labels", "props"}), ast.NewMap(ast.String(), pick(r, []ast.Type{ast.String(), ast.NewScalar(ast.KindAny)}))))
				}
				if r.chance(50) {
					t := ast.Bool()
					if r.chance(50) {
						t.Default = r.chance(50)
					}
					addField(s, on, ast.NewStructField(pick(r, []string{"editable", "hidden"}), t))
				}
			}
		}
	}

	// aliases of structs and alias chains
	type target struct{ pkg, name string }
	targets := []target{}
	for _, s := range schemas {
		for _, ob := range schemaObjects(s) {
			targets = append(targets, target{s.Package, ob.Name})
		}
	}
	for _, s := range schemas {
		n := r.intn(3)
		for i := 0; i < n && len(targets) > 0; i++ {
			tg := pick(r, targets)
			name := freshObjName(s, pick(r, []string{"Alias", "alias", "Chain"}))
			s.AddObject(ast.NewObject(s.Package, name, ast.NewRef(tg.pkg, tg.name)))
			targets = append(targets, target{s.Package, name}) // later aliases may point at this one: chains
		}
	}

	if o.malformed {
		for _, s := range schemas {
			if r.chance(20) {
				name := freshObjName(s, "Dangling")
				s.AddObject(ast.NewObject(s.Package, name, ast.NewRef(pick(r, []string{s.Package, "nopkg"}), "Missing")))
				if r.chance(50) {
					s.AddObject(ast.NewObject(s.Package, freshObjName(s, "ToDangling"), ast.NewRef(s.Package, name)))
				}
			}
			if r.chance(4) {
				a, b := freshObjName(s, "CycA"), freshObjName(s, "CycB")
				s.AddObject(ast.NewObject(s.Package, a, ast.NewRef(s.Package, b)))
				s.AddObject(ast.NewObject(s.Package, b, ast.NewRef(s.Package, a)))
			}
			for _, on := range structObjectNames(s) {
				if r.chance(8) {
					t := ast.NewScalar(ast.KindInt64)
					t.Scalar.Constraints = []ast.TypeConstraint{{Op: ast.GreaterThanOp, Args: nil}}
					addField(s, on, ast.NewStructField("noargs", t))
				}
				if r.chance(6) {
					addField(s, on, ast.NewStructField("nilkind", ast.Type{Kind: pick(r, []ast.Kind{ast.KindScalar, ast.KindRef, ast.KindConstantRef, ast.KindStruct})}))
				}
			}
		}
	}
	return schemas
}

// removeAliasCycles rewrites every object whose alias chain is cyclic into an empty struct, so that
// the well-formed streams never make the real code overflow its stack.
func removeAliasCycles(schemas ast.Schemas) {
	for _, s := range schemas {
		for _, ob := range schemaObjects(s) {
			if _, st := c16Resolve(schemas, ob.Type); st == "cycle" {
				ob.Type = ast.NewStruct()
				s.Objects.Set(ob.Name, ob)
			}
		}
	}
}
