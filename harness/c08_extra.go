package main

// C08 — constructs the lab's default generator does not draw, added on top of its terms:
//   * alias-of-alias definitions (ref → ref → struct / constrained scalar) used as field type,
//     array item and map value (c08Aliasify);
//   * required fields whose declared default is the ZERO value of their type (c08ZeroDefaults) and
//     documents that omit exactly one required-with-default field (kind `omitDefaulted`: the
//     property says such a document must be ACCEPTED by the strict decoder);
//   * exclusive numeric bounds (stream `c08-excl`): JSON Schema `exclusiveMinimum: n`, OpenAPI
//     `exclusiveMinimum: true` next to `minimum`, CUE `>n` — obtained by rewriting the text the
//     lab's renderers emit for terms whose bounds are pairwise distinct numbers — with documents
//     sitting exactly ON every bound (valid when inclusive, a fault when exclusive).

import (
	"bufio"
	"fmt"
	"regexp"
	"strconv"
	"strings"
)

// ---- alias-of-alias ----

func c08WalkSrc(s *Src, f func(*Src)) {
	if s == nil {
		return
	}
	f(s)
	switch s.Kind {
	case SArray, SDict, SNullable:
		c08WalkSrc(s.Elem, f)
	case SStruct:
		for i := range s.Fields {
			c08WalkSrc(s.Fields[i].Ty, f)
		}
	case SOneOfScalars:
		for _, a := range s.Alts {
			c08WalkSrc(a, f)
		}
	}
}

// c08Aliasify inserts `XAlias = ref X` (and sometimes `XAlias2 = ref XAlias`) for referenced
// definitions and redirects most references to them.
func c08Aliasify(d0 *Defs, r *rng) *Defs {
	d := d0.clone()
	alias := map[string]string{}
	names := []string{}
	for _, it := range d.Items {
		names = append(names, it.Name)
	}
	for _, n := range names {
		if !r.chance(70) || d.lookup(n+"Alias") != nil {
			continue
		}
		t := d.lookup(n)
		if t.Kind == SOneOfStructs || t.Kind == SOneOfScalars || t.Kind == SRef {
			continue
		}
		d.Items = append(d.Items, Def{n + "Alias", srcRef(n)})
		alias[n] = n + "Alias"
		if r.chance(50) && d.lookup(n+"Alias2") == nil {
			d.Items = append(d.Items, Def{n + "Alias2", srcRef(n + "Alias")})
			alias[n] = n + "Alias2"
		}
	}
	for i := range d.Items {
		if d.Items[i].Ty.Kind == SRef {
			continue // the alias definitions themselves
		}
		c08WalkSrc(d.Items[i].Ty, func(s *Src) {
			if s.Kind == SRef {
				if a, ok := alias[s.Ref]; ok && r.chance(75) {
					s.Ref = a
				}
			}
		})
	}
	if d.wf() != nil {
		return d0
	}
	return d
}

// ---- zero-valued defaults on required fields ----

func c08ZeroDefaults(d0 *Defs, r *rng) *Defs {
	d := d0.clone()
	disc := map[string]bool{}
	for i := range d.Items {
		c08WalkSrc(d.Items[i].Ty, func(s *Src) {
			if s.Kind == SOneOfStructs {
				disc[s.Disc] = true
			}
		})
	}
	for i := range d.Items {
		c08WalkSrc(d.Items[i].Ty, func(s *Src) {
			if s.Kind != SStruct {
				return
			}
			for k := range s.Fields {
				f := &s.Fields[k]
				if !f.Required || f.Default != nil || f.Nullable || disc[f.Name] || !r.chance(60) {
					continue
				}
				switch f.Ty.Kind {
				case SBool:
					f.Default = jvp(jBool(false))
				case SInt:
					if lo, hi := f.Ty.effRange(); lo <= 0 && 0 <= hi {
						f.Default = jvp(jInt(0))
					}
				case SNum:
					if (f.Ty.FLo == nil || *f.Ty.FLo <= 0) && (f.Ty.FHi == nil || *f.Ty.FHi >= 0) {
						f.Default = jvp(jInt(0))
					}
				case SString:
					if !f.Ty.DateTime && (f.Ty.MinLen == nil || *f.Ty.MinLen == 0) {
						f.Default = jvp(jStr(""))
					}
				}
			}
		})
	}
	if d.wf() != nil {
		return d0
	}
	return d
}

type c08OmitSite struct {
	path []pathEl // the object
	key  string
}

// c08OmitSites: every (object, member) of the document where the member is a required field with
// a default and is present.
func c08OmitSites(d *Defs, ty *Src, node *JV, path []pathEl, depth int, out *[]c08OmitSite) {
	if node == nil || depth > 30 {
		return
	}
	ty = d.resolve(ty)
	if ty == nil {
		return
	}
	if inner, ok := ty.unwrap(); ok {
		if !node.isNull() {
			c08OmitSites(d, inner, node, path, depth+1, out)
		}
		return
	}
	switch ty.Kind {
	case SStruct:
		if node.K != 'o' {
			return
		}
		for _, f := range ty.Fields {
			for i := range node.O {
				if node.O[i].K != f.Name {
					continue
				}
				// only plain scalars: defaults on enums, structs, unions and references are dropped by the
				// front-ends (docs/LAB.md, "Other things seen"), and so is the default of a nullable CUE member
				// (`null | string | *"d"`); both reported as candidate findings
				if k := f.Ty.Kind; f.Required && !f.Nullable && f.Default != nil && (k == SBool || k == SInt || k == SNum || k == SString) {
					*out = append(*out, c08OmitSite{append([]pathEl(nil), path...), f.Name})
				}
				if !node.O[i].V.isNull() {
					c08OmitSites(d, f.Ty, &node.O[i].V, extPath(path, pathEl{key: f.Name}), depth+1, out)
				}
			}
		}
	case SArray:
		if node.K == 'a' {
			for i := range node.A {
				c08OmitSites(d, ty.Elem, &node.A[i], extPath(path, pathEl{idx: i, arr: true}), depth+1, out)
			}
		}
	case SDict:
		if node.K == 'o' {
			for i := range node.O {
				c08OmitSites(d, ty.Elem, &node.O[i].V, extPath(path, pathEl{key: node.O[i].K}), depth+1, out)
			}
		}
	case SOneOfStructs:
		if node.K == 'o' {
			if dv, ok := node.get(ty.Disc); ok && dv.K == 's' {
				for _, b := range ty.Branches {
					if b.Tag == dv.S {
						c08OmitSites(d, srcRef(b.Name), node, path, depth+1, out)
					}
				}
			}
		}
	}
}

// c08OmitDocs draws up to n documents that omit exactly one required-with-default member.
func c08OmitDocs(d *Defs, base JV, r *rng, n int) []c08Doc {
	sites := []c08OmitSite{}
	c08OmitSites(d, srcRef(d.Root), &base, nil, 0, &sites)
	out := []c08Doc{}
	for k := 0; k < n && len(sites) > 0; k++ {
		i := r.intn(len(sites))
		s := sites[i]
		sites = append(sites[:i], sites[i+1:]...)
		doc := base.clone()
		if obj := navigate(&doc, s.path); obj != nil && obj.K == 'o' {
			obj.del(s.key)
			out = append(out, c08Doc{kind: "omitDefaulted", path: pathString(extPath(s.path, pathEl{key: s.key})), doc: doc})
		}
	}
	return out
}

// ---- exclusive bounds ----

type c08Bound struct {
	want         []string // path tokens of the constrained value, as Validate() prints them
	mk           func(v int64) JV
	lo, hi       int64
	exLo, exHi   bool
	hasLo, hasHi bool
}

// c08ExclCase builds one term whose numeric bounds are pairwise distinct, the exclusivity table,
// and the document constructor.
func c08ExclCase(r *rng) (*Defs, []c08Bound) {
	next := int64(10 + r.intn(20))
	fresh := func() (int64, int64) {
		lo := next
		hi := lo + 3 + int64(r.intn(6))
		next = hi + 2 + int64(r.intn(5))
		if r.chance(30) { // negative ranges too
			return -hi, -lo
		}
		return lo, hi
	}
	combos := [][2]bool{{false, false}, {true, false}, {false, true}, {true, true}}
	// a valid skeleton: every bounded value strictly inside its range
	bounds := []c08Bound{}
	inner := &Src{Kind: SStruct}
	root := &Src{Kind: SStruct}
	mid := func(lo, hi int64) int64 { return lo + 1 }
	type site struct {
		name   string
		lo, hi int64
	}
	rootSites := []site{}
	for k := 0; k < 4; k++ {
		lo, hi := fresh()
		name := fmt.Sprintf("f%d", k)
		root.Fields = append(root.Fields, fld(name, srcInt(64, true, i64p(lo), i64p(hi)), true, false, nil))
		rootSites = append(rootSites, site{name, lo, hi})
	}
	wlo, whi := fresh()
	inner.Fields = append(inner.Fields, fld("w", srcInt(64, true, i64p(wlo), i64p(whi)), true, false, nil))
	root.Fields = append(root.Fields, fld("items", srcArray(srcRef("Inner")), true, false, nil))
	mlo, mhi := fresh()
	root.Fields = append(root.Fields, fld("m", srcDict(srcInt(64, true, i64p(mlo), i64p(mhi))), true, false, nil))
	d := &Defs{Root: "Root", Items: []Def{{"Root", root}, {"Inner", inner}}}
	skeleton := func() JV {
		o := jObj()
		for _, s := range rootSites {
			o.set(s.name, jInt(mid(s.lo, s.hi)))
		}
		o.set("items", jArr(jObj(kv("w", jInt(mid(wlo, whi)))), jObj(kv("w", jInt(mid(wlo, whi))))))
		o.set("m", jObj(kv("k1", jInt(mid(mlo, mhi)))))
		return o
	}
	perm := []int{0, 1, 2, 3}
	for i := 3; i > 0; i-- {
		j := r.intn(i + 1)
		perm[i], perm[j] = perm[j], perm[i]
	}
	for k, s := range rootSites {
		s := s
		c := combos[perm[k]]
		bounds = append(bounds, c08Bound{want: []string{"." + s.name}, lo: s.lo, hi: s.hi, exLo: c[0], exHi: c[1], hasLo: true, hasHi: true,
			mk: func(v int64) JV { o := skeleton(); o.set(s.name, jInt(v)); return o }})
	}
	c := combos[r.intn(4)]
	bounds = append(bounds, c08Bound{want: []string{".items", "[1]", ".w"}, lo: wlo, hi: whi, exLo: c[0], exHi: c[1], hasLo: true, hasHi: true,
		mk: func(v int64) JV {
			o := skeleton()
			o.set("items", jArr(jObj(kv("w", jInt(mid(wlo, whi)))), jObj(kv("w", jInt(v)))))
			return o
		}})
	c = combos[1+r.intn(3)]
	bounds = append(bounds, c08Bound{want: []string{".m", "[k1]"}, lo: mlo, hi: mhi, exLo: c[0], exHi: c[1], hasLo: true, hasHi: true,
		mk: func(v int64) JV { o := skeleton(); o.set("m", jObj(kv("k1", jInt(v)))); return o }})
	return d, bounds
}

// c08MakeExclusive rewrites the rendered schema text: the bound with value n becomes exclusive.
func c08MakeExclusive(format, text string, n int64, lower bool) (string, bool) {
	num := regexp.QuoteMeta(strconv.FormatInt(n, 10))
	var re *regexp.Regexp
	var repl string
	switch format {
	case "jsonschema":
		if lower {
			re, repl = regexp.MustCompile(`"minimum":(\s*)`+num+`\b`), `"exclusiveMinimum":${1}`+strconv.FormatInt(n, 10)
		} else {
			re, repl = regexp.MustCompile(`"maximum":(\s*)`+num+`\b`), `"exclusiveMaximum":${1}`+strconv.FormatInt(n, 10)
		}
	case "openapi":
		if lower {
			re, repl = regexp.MustCompile(`"minimum":(\s*)`+num+`\b`), `"exclusiveMinimum": true, "minimum":${1}`+strconv.FormatInt(n, 10)
		} else {
			re, repl = regexp.MustCompile(`"maximum":(\s*)`+num+`\b`), `"exclusiveMaximum": true, "maximum":${1}`+strconv.FormatInt(n, 10)
		}
	case "cue":
		if lower {
			re, repl = regexp.MustCompile(`>=`+num+`\b`), `> `+strconv.FormatInt(n, 10)
		} else {
			re, repl = regexp.MustCompile(`<=`+num+`\b`), `< `+strconv.FormatInt(n, 10)
		}
	default:
		return text, false
	}
	if len(re.FindAllStringIndex(text, -1)) != 1 {
		return text, false
	}
	return re.ReplaceAllString(text, repl), true
}

func init() {
	// c08-excl: n=<cases> seed= formats=  [only=<case id>]
	register("c08-excl", func(args map[string]string, out *bufio.Writer) error {
		seed := uint64(argInt(args, "seed", 1))
		n := argInt(args, "n", 4)
		formats := strings.Split(args["formats"], ",")
		if args["formats"] == "" {
			formats = []string{"jsonschema", "openapi", "cue"}
		}
		opts := defaultLabOpts()
		opts.NoPython, opts.NoSchemaOut = true, true
		opts.GoFlags.Equal = false
		lab, err := NewLab(labWorkDir("c08x"), opts)
		if err != nil {
			return err
		}
		defer lab.Close()
		type xc struct {
			c      *LabCase
			bounds []c08Bound
			desc   string
			why    string
		}
		cases := []*xc{}
		for i := 0; i < n; i++ {
			r := newRng(seed*104729 + uint64(i)*17 + 3)
			d, bounds := c08ExclCase(r)
			descParts := []string{}
			for _, b := range bounds {
				descParts = append(descParts, fmt.Sprintf("(%s %d %d exclusiveMin=%v exclusiveMax=%v)", strings.Join(b.want, ""), b.lo, b.hi, b.exLo, b.exHi))
			}
			for _, f := range formats {
				ro := renderDefs(d, f, "%PKG%")
				k := &xc{bounds: bounds, desc: "(excl " + strings.Join(descParts, " ") + " " + d.sexp() + ")"}
				text := ro.Text
				if text == "" {
					k.why = "not-rendered " + strings.Join(ro.Unsupported, ",")
				}
				for _, b := range bounds {
					ok1, ok2 := true, true
					if b.exLo {
						text, ok1 = c08MakeExclusive(f, text, b.lo, true)
					}
					if b.exHi {
						text, ok2 = c08MakeExclusive(f, text, b.hi, false)
					}
					if !(ok1 && ok2) && k.why == "" {
						k.why = "bound-not-found-in-rendered-text"
					}
				}
				k.c = lab.AddCaseText(f, text, d)
				cases = append(cases, k)
			}
		}
		if err := lab.Build(); err != nil {
			return err
		}
		reqs := []LabReq{}
		type slot struct {
			k      *xc
			kind   string
			want   []string
			doc    JV
			exText string
		}
		slots := []slot{}
		for _, k := range cases {
			c := k.c
			why := k.why
			switch {
			case why != "":
			case c.GenErr != "":
				why = "generation-failed " + labOneLine(c.GenErr)
			case !c.GoOK:
				why = "not-compiled " + labFirstLine(c.GoCompileErr)
			case c.IRGoErr != "":
				why = "no-ir " + labOneLine(c.IRGoErr)
			}
			if why != "" {
				fmt.Fprintf(out, "X\t%s\t%s\n", c.ID, why)
				continue
			}
			if only, ok := args["only"]; ok && only != c.ID {
				continue
			}
			fmt.Fprintf(out, "S\t%s\t%s\t%s\t%s\t%s\t%s\n", c.ID, c.ID, "Root", c.Format, k.desc, virSchemas(c.IRGo))
			add := func(kind string, b c08Bound, v int64) {
				slots = append(slots, slot{k, kind, b.want, b.mk(v), fmt.Sprintf("(int 64 true %d %d)", b.lo, b.hi)})
			}
			for _, b := range k.bounds {
				add("valid", b, b.lo+1)
				if b.exLo {
					add("onExclusiveBound", b, b.lo)
				} else {
					add("valid", b, b.lo)
				}
				if b.exHi {
					add("onExclusiveBound", b, b.hi)
				} else {
					add("valid", b, b.hi)
				}
				add("min-1", b, b.lo-1)
				add("max+1", b, b.hi+1)
			}
		}
		for _, s := range slots {
			js := s.doc.json()
			reqs = append(reqs, LabReq{Case: s.k.c.ID, Object: "Root", Op: "validate", Payloads: []string{js}})
			reqs = append(reqs, LabReq{Case: s.k.c.ID, Object: "Root", Op: "strict", Payloads: []string{js}})
		}
		replies := lab.GoCall(reqs)
		for si, s := range slots {
			vcanon, viols := c08CanonValidate(replies[2*si])
			srep := replies[2*si+1]
			verdict := c08Oracle(s.kind, s.want, true, vcanon, viols, srep)
			path := "$" + strings.Join(s.want, "")
			fmt.Fprintf(out, "D\t%s\t%s\t%s\t%s\t%s\t%s\t%s\t%s\t%s\t%s\n", s.k.c.ID, s.kind, path, "excl"+strings.Join(s.want, ""),
				s.doc.json(), s.doc.sexp(), vcanon, srep, verdict, s.exText)
		}
		return nil
	})
}
