package main

// C02 — the DECLARATION FRAGMENT of a generated types_gen.go: what rawtypes.go / types.go / tools.go
// print from Go code (type and const declarations, `New…` constructor functions), with everything
// rendered by text/template (methods) and all comments removed. The fragment is
//   (a) compiled on its own, which yields the Go type checker's verdict for exactly the part of the
//       output the Lean model `emitDecls` describes, and
//   (b) printed by go/printer and compared, white space removed, with the model's own rendering.

import (
	"bytes"
	"fmt"
	"go/ast"
	"go/parser"
	"go/printer"
	"go/token"
	"path"
	"regexp"
	"strconv"
	"strings"
)

type c02Fragment struct {
	Source   string // a compilable Go file: package clause, the imports the fragment uses, the declarations
	Stripped string // the declarations only, white space removed
	NDecls   int
}

func c02StripWS(s string) string {
	var b strings.Builder
	for _, r := range s {
		if r == ' ' || r == '\n' || r == '\t' || r == '\r' {
			continue
		}
		b.WriteRune(r)
	}
	return b.String()
}

func c02DropComments(n ast.Node) {
	ast.Inspect(n, func(x ast.Node) bool {
		switch v := x.(type) {
		case *ast.GenDecl:
			v.Doc = nil
		case *ast.FuncDecl:
			v.Doc = nil
		case *ast.Field:
			v.Doc, v.Comment = nil, nil
		case *ast.TypeSpec:
			v.Doc, v.Comment = nil, nil
		case *ast.ValueSpec:
			v.Doc, v.Comment = nil, nil
		}
		return true
	})
}

// c02ExtractFragment keeps `type`/`const` declarations and parameterless functions `New…` without
// receiver. pkgName is the package clause of the fragment file.
func c02ExtractFragment(src []byte, pkgName string) (*c02Fragment, error) {
	fset := token.NewFileSet()
	f, err := parser.ParseFile(fset, "types_gen.go", src, parser.SkipObjectResolution)
	if err != nil {
		return nil, err
	}
	var kept []ast.Decl
	for _, d := range f.Decls {
		switch v := d.(type) {
		case *ast.GenDecl:
			if v.Tok == token.TYPE || v.Tok == token.CONST {
				kept = append(kept, d)
			}
		case *ast.FuncDecl:
			if v.Recv == nil && strings.HasPrefix(v.Name.Name, "New") && v.Type.Params.NumFields() == 0 {
				kept = append(kept, d)
			}
		}
	}
	used := map[string]bool{}
	for _, d := range kept {
		c02DropComments(d)
		ast.Inspect(d, func(x ast.Node) bool {
			if sel, ok := x.(*ast.SelectorExpr); ok {
				if id, ok := sel.X.(*ast.Ident); ok {
					used[id.Name] = true
				}
			}
			return true
		})
	}
	var file bytes.Buffer
	fmt.Fprintf(&file, "// Declaration fragment extracted by the C02 check. DO NOT EDIT.\n\npackage %s\n\n", pkgName)
	for _, imp := range f.Imports {
		p, err := strconv.Unquote(imp.Path.Value)
		if err != nil {
			continue
		}
		local := path.Base(p)
		if imp.Name != nil {
			local = imp.Name.Name
		}
		if used[local] {
			if imp.Name != nil {
				fmt.Fprintf(&file, "import %s %s\n", imp.Name.Name, imp.Path.Value)
			} else {
				fmt.Fprintf(&file, "import %s\n", imp.Path.Value)
			}
		}
	}
	file.WriteString("\n")
	var decls bytes.Buffer
	cfg := printer.Config{Mode: printer.UseSpaces | printer.TabIndent, Tabwidth: 8}
	for _, d := range kept {
		// a fresh file set position-independent print: comments are not attached (no CommentedNode)
		if err := cfg.Fprint(&decls, fset, d); err != nil {
			return nil, err
		}
		decls.WriteString("\n\n")
	}
	file.Write(decls.Bytes())
	return &c02Fragment{Source: file.String(), Stripped: c02StripWS(decls.String()), NDecls: len(kept)}, nil
}

// c02FirstDiag normalises the compiler's first diagnostic: position and case-specific names removed.
func c02FirstDiag(diag string) string {
	for _, line := range strings.Split(diag, "\n") {
		line = strings.TrimSpace(line)
		if line == "" || strings.HasPrefix(line, "#") {
			continue
		}
		// <file>:<line>:<col>: message
		parts := strings.SplitN(line, ": ", 2)
		msg, where := line, ""
		if len(parts) == 2 && strings.Contains(parts[0], ".go:") {
			msg = parts[1]
			file := parts[0][:strings.Index(parts[0], ".go:")]
			switch {
			case strings.HasSuffix(file, "types_gen"):
				where = ":in-types"
			case strings.HasSuffix(file, "_builder_gen"):
				where = ":in-builder"
			case strings.HasSuffix(file, "_converter_gen"):
				where = ":in-converter"
			case strings.HasSuffix(file, "frag"):
				where = ""
			default:
				where = ":in-other"
			}
		}
		return c02NormDiag(msg) + where
	}
	return ""
}

// c02TypeShape abstracts a Go type text from a diagnostic: generated names become T
func c02TypeShape(t string) string {
	var b strings.Builder
	i := 0
	for i < len(t) {
		c := t[i]
		if c >= 'A' && c <= 'Z' || c >= 'a' && c <= 'z' || c == '_' {
			j := i
			for j < len(t) && (c02IsWordByte(t[j]) || t[j] == '.') {
				j++
			}
			word := t[i:j]
			switch word {
			case "string", "bool", "int", "int8", "int16", "int32", "int64", "uint", "uint8", "uint16", "uint32", "uint64", "float32", "float64", "any", "byte", "map", "interface", "struct", "func", "error":
				b.WriteString(word)
			default:
				b.WriteString("T")
			}
			i = j
			continue
		}
		if c != ' ' {
			b.WriteByte(c)
		}
		i++
	}
	s := b.String()
	if len(s) > 40 {
		s = s[:40]
	}
	return s
}

var c02CannotUseRe = regexp.MustCompile(`of type ([^)]+)\) as (.+?) value`)

func c02NormDiag(msg string) string {
	switch {
	case strings.Contains(msg, "imported and not used"):
		i := strings.Index(msg, "\"")
		j := strings.LastIndex(msg, "\"")
		if i >= 0 && j > i {
			return "unused-import:" + msg[i+1:j]
		}
		return "unused-import"
	case strings.Contains(msg, "import cycle not allowed"):
		return "import-cycle"
	case strings.Contains(msg, "redeclared"):
		return "redeclared"
	case strings.Contains(msg, "undefined: unknown"):
		return "undefined:unknown"
	case strings.HasPrefix(msg, "undefined:"):
		return "undefined"
	case strings.Contains(msg, "is not a type"):
		return "not-a-type"
	case strings.Contains(msg, "cannot use []string{"):
		return "cannot-use:[]string-literal"
	case strings.Contains(msg, "untyped float constant") && strings.Contains(msg, "cannot use"):
		return "cannot-use:untyped-float-constant"
	case strings.Contains(msg, "cannot use"):
		if m := c02CannotUseRe.FindStringSubmatch(msg); m != nil {
			return "cannot-use:" + c02TypeShape(m[1]) + "-as-" + c02TypeShape(m[2])
		}
		return "cannot-use"
	case strings.Contains(msg, "mismatched types"):
		return "mismatched-types"
	case strings.Contains(msg, "invalid operation: cannot indirect"):
		return "invalid-operation:cannot-indirect"
	case strings.Contains(msg, "can only be compared to nil"):
		return "invalid-operation:comparison-with-non-comparable"
	case strings.Contains(msg, "invalid composite literal type"):
		return "invalid-composite-literal-type"
	case strings.Contains(msg, "invalid operation"):
		return "invalid-operation"
	case strings.Contains(msg, "undefined: cog."):
		return "undefined:cog-runtime-symbol"
	case strings.Contains(msg, "invalid recursive type"):
		return "invalid-recursive-type"
	case strings.Contains(msg, "duplicate field"):
		return "duplicate-field"
	case strings.Contains(msg, "has no field or method") || strings.Contains(msg, "undefined (type"):
		return "no-field-or-method"
	case strings.Contains(msg, "invalid map key type"):
		return "invalid-map-key"
	case strings.Contains(msg, "declared and not used"):
		return "unused-variable"
	case strings.Contains(msg, "missing return"):
		return "missing-return"
	case strings.Contains(msg, "duplicate case"):
		return "duplicate-case"
	case strings.Contains(msg, "overflows") || strings.Contains(msg, "truncated"):
		return "constant-overflow"
	}
	// generic: drop quoted names and numbers
	out := []rune{}
	for _, r := range msg {
		if r >= '0' && r <= '9' {
			continue
		}
		out = append(out, r)
	}
	s := strings.Join(strings.Fields(string(out)), "-")
	if len(s) > 60 {
		s = s[:60]
	}
	return "other:" + s
}
