package main

// C02 stream `c02-known`: the pinned inputs of every known finding (lab corpus KB01…KB18 plus the
// configuration-dependent ones found by this check), each replayed with the construct re-enabled,
// through the same oracle as the bulk stream. A row is a FAIL row only while the defect still
// reproduces; the check prints the KNOWN-FINDING line of a mechanism only when its pinned input
// still fails.

import (
	"bufio"
	"fmt"
	"strings"
)

type c02Pinned struct {
	ID       string // finding id (without the C02/ prefix)
	Src      string // Defs S-expression, or
	Text     string // schema text (%PKG% = package), with Format
	Formats  []string
	GoFlags  string // six bits; "" = defaults
	Builders bool
	Degrade  int
	Mapping  string
	Note     string
}

var c02PinnedExtra = []c02Pinned{
	{ID: "go/unused-import-fmt-union-marshaller-without-strict", Formats: []string{"jsonschema"}, GoFlags: "101100",
		Src:  `(defs "Root" ("Root" (struct (field "a" (oneOfScalars (string - - false) (bool)) true false -))))`,
		Note: "generate_json_marshaller without the strict unmarshaller on a schema with a union"},
	{ID: "go/unused-import-fmt-union-marshaller-without-strict", Formats: []string{"jsonschema"}, GoFlags: "111101",
		Src:  `(defs "Root" ("Root" (struct (field "a" (oneOfScalars (string - - false) (bool)) true false -))))`,
		Note: "same with skip_runtime (which disables the strict unmarshaller)"},
}

func c02PinnedCorpus() []c02Pinned {
	out := []c02Pinned{}
	for _, kb := range knownBadCorpus {
		p := c02Pinned{ID: "lab/" + kb.ID, Src: kb.Src, Text: kb.Text, Formats: kb.Formats, Builders: kb.Builders, Mapping: kb.Mapping, Note: kb.What}
		if kb.Switch == "degrade<2" {
			p.Degrade = 1
		}
		out = append(out, p)
	}
	return append(out, c02PinnedExtra...)
}

func init() {
	register("c02-known", func(args map[string]string, out *bufio.Writer) error {
		for _, pin := range c02PinnedCorpus() {
			if only, ok := args["id"]; ok && !strings.Contains(pin.ID, only) {
				continue
			}
			var d *Defs
			if pin.Text == "" {
				var err error
				if d, err = parseDefsSexp(pin.Src); err != nil {
					return fmt.Errorf("%s: %w", pin.ID, err)
				}
			}
			opts := defaultLabOpts()
			opts.Degrade = pin.Degrade
			opts.Keep = args["keep"] == "1"
			saved := oaMappingStyle
			if pin.Mapping != "" {
				oaMappingStyle = pin.Mapping
			}
			tag := strings.NewReplacer("/", "-", " ", "").Replace(pin.ID)
			lab, err := NewLab(labWorkDir("c02known-"+tag+pin.GoFlags), opts)
			if err != nil {
				return err
			}
			flags := defaultGoFlags()
			if pin.GoFlags != "" {
				flags = goFlagsOfBits(pin.GoFlags)
			}
			combo := c02Combo{Go: flags, Builders: pin.Builders}
			type ent struct {
				c    *LabCase
				frag *c02Fragment
			}
			ents := []ent{}
			for _, f := range pin.Formats {
				var c *LabCase
				if pin.Text != "" {
					c = lab.AddCaseText(f, pin.Text, nil)
				} else {
					c = lab.AddCaseWith(d, f, flags, pin.Builders, false)
				}
				e := ent{c: c}
				if c.generated() {
					if src, ok := c.Files["go/"+c.ID+"/types_gen.go"]; ok {
						if frag, err := c02ExtractFragment(src, "frag"+c.ID); err == nil {
							e.frag = frag
							lab.AddGoExt("frag"+c.ID, map[string]string{"frag.go": frag.Source})
						}
					}
				}
				ents = append(ents, e)
			}
			oaMappingStyle = saved
			if err := lab.Build(); err != nil {
				lab.Close()
				return fmt.Errorf("%s: %w", pin.ID, err)
			}
			for _, e := range ents {
				c := e.c
				uid := tag + pin.GoFlags + "-" + c.ID
				trig := c02Triggers(c.Defs, combo)
				switch {
				case c.SchemaText == "":
					fmt.Fprintf(out, "-\tknown %s %s unsupported-by-format\tok\n", pin.ID, c.Format)
					continue
				case c.GenErr != "":
					// the run returned an error: the property holds (a construct that cannot be expressed surfaced as an error)
					fmt.Fprintf(out, "-\tknown %s %s run-error %s\tok\n", pin.ID, c.Format, labOneLine(labFirstLine(c.GenErr)))
					continue
				}
				if e.frag != nil && c.IRGoErr == "" {
					verdict := "welltyped"
					if diag := lab.GoExtErr("frag" + c.ID); diag != "" {
						verdict = "illtyped:" + c02FirstDiag(diag)
					}
					fmt.Fprintf(out, "defschemas %s %s\tok\tok\n", uid, virSchemas(c.IRGo))
					fmt.Fprintf(out, "godecl %s %s %s\t%s %s\tok\n", uid, c.ID, goFlagBits(flags), verdict, e.frag.Stripped)
				}
				failed := false
				if !c.GoOK && !strings.HasPrefix(c.GoCompileErr, "glue: ") {
					failed = true
					fmt.Fprintf(out, "-\tknown %s %s go-compile %s\tFAIL go-compile pinned=%s %s diag=%s\n", pin.ID, c.Format, labOneLine(labFirstLine(c.GoCompileErr)),
						pin.ID, c02CaseText("go", c02FirstDiag(c.GoCompileErr), trig, combo.String(), c.Format, c.Defs), labOneLine(labFirstLine(c.GoCompileErr)))
				}
				if !c.PyOK {
					failed = true
					fmt.Fprintf(out, "-\tknown %s %s py-import %s\tFAIL py-import pinned=%s %s diag=%s\n", pin.ID, c.Format, labOneLine(c.PyImportErr),
						pin.ID, c02CaseText("python", c02PyClass(c.PyImportErr), trig, combo.String(), c.Format, c.Defs), labOneLine(c.PyImportErr))
				}
				if hits, _ := c02ScanFiles(c.Files); len(hits) > 0 {
					failed = true
					parts := strings.SplitN(hits[0], " in ", 2)
					fmt.Fprintf(out, "-\tknown %s %s placeholder %s\tFAIL placeholder pinned=%s %s hits=%s\n", pin.ID, c.Format, hits[0],
						pin.ID, c02CaseText(c02LangOf(parts[1]), "placeholder:"+parts[0], trig, combo.String(), c.Format, c.Defs), strings.Join(hits, ";"))
				}
				if !failed {
					fmt.Fprintf(out, "-\tknown %s %s not-reproduced-at-compile-time\tok\n", pin.ID, c.Format)
				}
			}
			lab.Close()
		}
		return nil
	})
}
