package main

// C02 stream `c02-known`: the pinned inputs of every known finding (lab corpus KB01…KB18 plus the
// configuration-dependent ones found by this check), each replayed with the construct re-enabled,
// through the same oracle as the bulk stream. A row is a FAIL row only while the defect still
// reproduces; the check prints the KNOWN-FINDING line of a mechanism only when its pinned input
// still fails.

import (
	"bufio"
	"fmt"
	"os"
	"path/filepath"
	"strings"
)

type c02Pinned struct {
	ID       string // finding id (without the C02/ prefix)
	Src      string // Defs S-expression, or
	Text     string // schema text (%PKG% = package), with Format
	Formats  []string
	GoFlags  string // six bits; "" = defaults
	Builders bool
	Degrade  int
	Mapping  string
	Note     string
}

var c02PinnedExtra = []c02Pinned{
	{ID: "go/builder-map-of-array-of-struct-undefined-depth-variable", Formats: []string{"jsonschema"}, Builders: true,
		Src:  `(defs "Root" ("Root" (struct (field "name" (dict (array (ref "S"))) true false -))) ("S" (struct (field "p" (bool) true false -))))`,
		Note: "builder option for a map of arrays of builders refers to a loop variable <field>Depth1 that is never declared"},
	{ID: "go/builder-map-of-map-of-struct", Formats: []string{"jsonschema"}, Builders: true,
		Src:  `(defs "Root" ("Root" (struct (field "note" (dict (dict (ref "S"))) true false -))) ("S" (struct (field "p" (bool) true false -))))`,
		Note: "builder option for a map of maps of builders calls Build() on the inner map"},
	{ID: "go/unused-import-fmt-union-marshaller-without-strict", Formats: []string{"jsonschema"}, GoFlags: "101100",
		Src:  `(defs "Root" ("Root" (struct (field "a" (oneOfScalars (string - - false) (bool)) true false -))))`,
		Note: "generate_json_marshaller without the strict unmarshaller on a schema with a union"},
	{ID: "go/unused-import-fmt-union-marshaller-without-strict", Formats: []string{"jsonschema"}, GoFlags: "111101",
		Src:  `(defs "Root" ("Root" (struct (field "a" (oneOfScalars (string - - false) (bool)) true false -))))`,
		Note: "same with skip_runtime (which disables the strict unmarshaller)"},
}

// pinned inputs of the findings of the all-language stream (Java); run through the same runner
type c02PinnedLang struct {
	ID     string
	Src    string
	Format string
	Combo  c02Combo
	Note   string
}

var c02PinnedLangs = []c02PinnedLang{
	{ID: "java/integer-enum-member-named-by-its-number", Format: "jsonschema", Combo: c02Combo{Go: defaultGoFlags(), LangMarshal: true},
		Src: `(defs "Root" ("Root" (struct (field "a" (enumI 1 2) true false -))))`},
	{ID: "java/union-class-refers-to-serializers-without-json-marshaller", Format: "jsonschema", Combo: c02Combo{Go: defaultGoFlags(), Builders: true},
		Src: `(defs "Root" ("Root" (struct (field "a" (oneOfScalars (string - - false) (bool)) true false -))))`},
	{ID: "java/builders-with-skip-runtime-import-missing-runtime", Format: "jsonschema", Combo: c02Combo{Go: defaultGoFlags(), Builders: true, LangMarshal: true, LangSkipRT: true},
		Src: `(defs "Root" ("Root" (struct (field "a" (string - - false) true false -))))`},
	{ID: "java/int-literal-for-boxed-long-in-builder", Format: "jsonschema", Combo: c02Combo{Go: defaultGoFlags(), Builders: true, LangMarshal: true},
		Src: `(defs "Root" ("Root" (struct (field "a" (const (n "6")) false false -) (field "b" (bool) true false -))))`},
	{ID: "java/int-literal-default-for-short-or-byte", Format: "cue", Combo: c02Combo{Go: defaultGoFlags(), LangMarshal: true},
		Src: `(defs "Root" ("Root" (struct (field "t" (ref "Child") false false (o ("n" (n "5")))))) ("Child" (struct (field "n" (int 16 true - -) true false -) (field "name" (bool) false true -))))`},
	{ID: "java/constraint-literal-beyond-int-range", Format: "openapi", Combo: c02Combo{Go: defaultGoFlags(), Builders: true, LangMarshal: true},
		Src: `(defs "Root" ("Root" (struct (field "labels" (int 64 true 0 4294967295) false false (n "48")))))`},
	{ID: "java/struct-default-any-member-printed-as-unknown", Format: "cue", Combo: c02Combo{Go: defaultGoFlags(), LangMarshal: true},
		Src: `(defs "Root" ("Root" (struct (field "t" (ref "Child") false false (o ("name" false))))) ("Child" (struct (field "mode" (any) true false -) (field "name" (bool) false true -))))`},
}

func c02PinnedCorpus() []c02Pinned {
	out := []c02Pinned{}
	for _, kb := range knownBadCorpus {
		p := c02Pinned{ID: "lab/" + kb.ID, Src: kb.Src, Text: kb.Text, Formats: kb.Formats, Builders: kb.Builders, Mapping: kb.Mapping, Note: kb.What}
		if kb.Switch == "degrade<2" {
			p.Degrade = 1
		}
		out = append(out, p)
	}
	return append(out, c02PinnedExtra...)
}

func init() {
	register("c02-known", func(args map[string]string, out *bufio.Writer) error {
		type ent struct {
			pin   c02Pinned
			c     *LabCase
			frag  *c02Fragment
			combo c02Combo
			flags GoFlags
		}
		// one lab per degradation level (a lab-wide option); flags, builders and the OpenAPI mapping
		// style are per case
		for _, degrade := range []int{0, 1} {
			opts := defaultLabOpts()
			opts.Degrade = degrade
			opts.Keep = args["keep"] == "1"
			lab, err := NewLab(labWorkDir(fmt.Sprintf("c02known-%d", degrade)), opts)
			if err != nil {
				return err
			}
			ents := []*ent{}
			for _, pin := range c02PinnedCorpus() {
				if only, ok := args["id"]; ok && !strings.Contains(pin.ID, only) {
					continue
				}
				if pin.Degrade != degrade {
					continue
				}
				var d *Defs
				if pin.Text == "" {
					if d, err = parseDefsSexp(pin.Src); err != nil {
						lab.Close()
						return fmt.Errorf("%s: %w", pin.ID, err)
					}
				}
				flags := defaultGoFlags()
				if pin.GoFlags != "" {
					flags = goFlagsOfBits(pin.GoFlags)
				}
				saved := oaMappingStyle
				if pin.Mapping != "" {
					oaMappingStyle = pin.Mapping
				}
				for _, f := range pin.Formats {
					var c *LabCase
					if pin.Text != "" {
						c = lab.AddCaseText(f, pin.Text, nil)
					} else {
						c = lab.AddCaseWith(d, f, flags, pin.Builders, false)
					}
					e := &ent{pin: pin, c: c, flags: flags, combo: c02Combo{Go: flags, Builders: pin.Builders}}
					if c.generated() {
						if src, ok := c.Files["go/"+c.ID+"/types_gen.go"]; ok {
							if frag, err := c02ExtractFragment(src, "frag"+c.ID); err == nil {
								e.frag = frag
								lab.AddGoExt("frag"+c.ID, map[string]string{"frag.go": frag.Source})
							}
						}
					}
					ents = append(ents, e)
				}
				oaMappingStyle = saved
			}
			if len(ents) == 0 {
				lab.Close()
				continue
			}
			if err := lab.Build(); err != nil {
				lab.Close()
				return err
			}
			for _, e := range ents {
				c, pin := e.c, e.pin
				uid := fmt.Sprintf("k%d-%s", degrade, c.ID)
				trig := c02Triggers(c.Defs, e.combo)
				switch {
				case c.SchemaText == "":
					fmt.Fprintf(out, "-\tknown %s %s unsupported-by-format\tok\n", pin.ID, c.Format)
					continue
				case c.GenErr != "":
					// the run returned an error: the property holds (a construct that cannot be expressed surfaced as an error)
					fmt.Fprintf(out, "-\tknown %s %s run-error %s\tok\n", pin.ID, c.Format, labOneLine(labFirstLine(c.GenErr)))
					continue
				}
				if e.frag != nil && c.IRGoErr == "" {
					verdict := "welltyped"
					if diag := lab.GoExtErr("frag" + c.ID); diag != "" {
						verdict = "illtyped:" + c02FirstDiag(diag)
					}
					fmt.Fprintf(out, "defschemas %s %s\tok\tok\n", uid, virSchemas(c.IRGo))
					fmt.Fprintf(out, "godecl %s %s %s\t%s %s\tok\n", uid, c.ID, goFlagBits(e.flags), verdict, e.frag.Stripped)
				}
				failed := false
				if !c.GoOK && !strings.HasPrefix(c.GoCompileErr, "glue: ") {
					failed = true
					fmt.Fprintf(out, "-\tknown %s %s go-compile %s\tFAIL go-compile pinned=%s %s diag=%s\n", pin.ID, c.Format, labOneLine(labFirstLine(c.GoCompileErr)),
						pin.ID, c02CaseText("go", c02FirstDiag(c.GoCompileErr), trig, e.combo.String(), c.Format, c.Defs), labOneLine(labFirstLine(c.GoCompileErr)))
				}
				if !c.PyOK {
					failed = true
					fmt.Fprintf(out, "-\tknown %s %s py-import %s\tFAIL py-import pinned=%s %s diag=%s\n", pin.ID, c.Format, labOneLine(c.PyImportErr),
						pin.ID, c02CaseText("python", c02PyClass(c.PyImportErr), trig, e.combo.String(), c.Format, c.Defs), labOneLine(c.PyImportErr))
				}
				if hits, _ := c02ScanFiles(c.Files); len(hits) > 0 {
					failed = true
					parts := strings.SplitN(hits[0], " in ", 2)
					fmt.Fprintf(out, "-\tknown %s %s placeholder %s\tFAIL placeholder pinned=%s %s hits=%s\n", pin.ID, c.Format, hits[0],
						pin.ID, c02CaseText(c02LangOf(parts[1]), "placeholder:"+parts[0], trig, e.combo.String(), c.Format, c.Defs), strings.Join(hits, ";"))
				}
				if !failed {
					fmt.Fprintf(out, "-\tknown %s %s not-reproduced-at-compile-time\tok\n", pin.ID, c.Format)
				}
			}
			lab.Close()
		}
		// findings of the all-language stream
		work := labWorkDir("c02known-langs")
		defer os.RemoveAll(work)
		cases := []*c02LangCase{}
		pinOf := map[string]c02PinnedLang{}
		for i, pin := range c02PinnedLangs {
			if only, ok := args["id"]; ok && !strings.Contains(pin.ID, only) {
				continue
			}
			d, err := parseDefsSexp(pin.Src)
			if err != nil {
				return fmt.Errorf("%s: %w", pin.ID, err)
			}
			id := fmt.Sprintf("p%d%s", i, labFormatSuffix[pin.Format])
			c := &c02LangCase{ID: id, Format: pin.Format, Combo: pin.Combo, Group: fmt.Sprintf("pin%d", i), Defs: d}
			pinOf[id] = pin
			cases = append(cases, c)
			ro := renderDefs(d, pin.Format, id)
			if ro.Text == "" {
				c.GenErr = "unsupported-by-format"
				continue
			}
			path, err := writeSchemaFile(filepath.Join(work, "schemas"), pin.Format, id, ro.Text)
			if err != nil {
				return err
			}
			o := c02Opts{Types: true, Builders: pin.Combo.Builders, Converters: pin.Combo.Converters, APIRef: pin.Combo.APIRef, Go: pin.Combo.Go,
				EnumsAsUnion: pin.Combo.EnumsAsUnion, LangMarshal: pin.Combo.LangMarshal, LangSkipRuntime: pin.Combo.LangSkipRT, Langs: []string{"java"}}
			p, err := c02Pipeline(pin.Format, path, id, nil, o, work)
			if err != nil {
				return err
			}
			files, err := c02Run(p)
			if err != nil {
				c.GenErr = err.Error()
				continue
			}
			c.Files = files
		}
		_, err := c02ReportLangs(out, work, cases, func(c *c02LangCase, lang, class string) string {
			return "pinned=" + pinOf[c.ID].ID + " " + c02CaseText(lang, class, c02Triggers(c.Defs, c.Combo), c.Combo.String(), c.Format, c.Defs)
		})
		return err
	})
}
