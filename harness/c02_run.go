package main

// C02 — one real `codegen.Pipeline.Run` with every output language configured (Go, Python, Java,
// TypeScript, PHP, JSON Schema, OpenAPI) for one schema file, or for a directly constructed IR
// (injected through an ordinary common compiler pass, so that the run is the pipeline's own).

import (
	"bufio"
	"context"
	"fmt"
	"os"
	"path/filepath"
	"sort"
	"strings"

	"github.com/grafana/cog/internal/ast"
	"github.com/grafana/cog/internal/ast/compiler"
	"github.com/grafana/cog/internal/codegen"
	"github.com/grafana/cog/internal/jennies/golang"
	"github.com/grafana/cog/internal/jennies/java"
	"github.com/grafana/cog/internal/jennies/jsonschema"
	"github.com/grafana/cog/internal/jennies/openapi"
	"github.com/grafana/cog/internal/jennies/php"
	"github.com/grafana/cog/internal/jennies/python"
	"github.com/grafana/cog/internal/jennies/typescript"
)

const c02JavaPackagePath = "lab.gen"
const c02GoModule = "example.com/c02/go"

// c02Opts: everything the property quantifies over besides the schema.
type c02Opts struct {
	Types, Builders, Converters, APIRef bool
	Go                                   GoFlags
	EnumsAsUnion                         bool // typescript enums_as_union_types
	LangMarshal                          bool // generate_json_marshaller of python / java / php
	LangSkipRuntime                      bool // skip_runtime of python / java / typescript
	Langs                                []string
	VeneersDir                           string // directory with builder veneer files (*.yaml); "" = none
}

var c02AllLangs = []string{"go", "python", "java", "typescript", "php", "jsonschema", "openapi"}

func (o c02Opts) String() string {
	b := func(x bool) string {
		if x {
			return "1"
		}
		return "0"
	}
	return fmt.Sprintf("types=%s builders=%s converters=%s apiref=%s go=%s ts.union=%s marshal=%s skiprt=%s langs=%s",
		b(o.Types), b(o.Builders), b(o.Converters), b(o.APIRef), goFlagBits(o.Go), b(o.EnumsAsUnion), b(o.LangMarshal), b(o.LangSkipRuntime), strings.Join(o.Langs, ","))
}

// six characters: json marshaller, strict unmarshaller, equal, validate, any_as_interface, skip_runtime
func goFlagBits(f GoFlags) string {
	bs := []bool{f.JSONMarshaller, f.StrictUnmarshaller, f.Equal, f.Validate, f.AnyAsInterface, f.SkipRuntime}
	out := make([]byte, len(bs))
	for i, b := range bs {
		out[i] = '0'
		if b {
			out[i] = '1'
		}
	}
	return string(out)
}

func goFlagsOfBits(s string) GoFlags {
	g := func(i int) bool { return i < len(s) && s[i] == '1' }
	return GoFlags{JSONMarshaller: g(0), StrictUnmarshaller: g(1), Equal: g(2), Validate: g(3), AnyAsInterface: g(4), SkipRuntime: g(5)}
}

// injectIR is an ordinary compiler pass that replaces whatever was loaded by a prepared IR.
type injectIR struct{ ir ast.Schemas }

func (p *injectIR) Process(_ []*ast.Schema) ([]*ast.Schema, error) {
	out := make([]*ast.Schema, 0, len(p.ir))
	for _, s := range p.ir {
		c := s.DeepCopy()
		out = append(out, &c)
	}
	return out, nil
}

var _ compiler.Pass = (*injectIR)(nil)

const c02DummySchema = `{"$schema":"http://json-schema.org/draft-07/schema#","type":"object","properties":{"a":{"type":"string"}}}`

// c02Pipeline builds the pipeline: input is a schema file (format/path/pkg) or, when ir != nil, a
// dummy file whose content is replaced by ir.
func c02Pipeline(format, path, pkg string, ir ast.Schemas, o c02Opts, scratch string) (*codegen.Pipeline, error) {
	p, err := codegen.NewPipeline()
	if err != nil {
		return nil, err
	}
	in := &codegen.Input{}
	if ir != nil {
		dummy := filepath.Join(scratch, "dummy.jsonschema.json")
		if _, err := os.Stat(dummy); err != nil {
			if err := os.MkdirAll(scratch, 0o755); err != nil {
				return nil, err
			}
			if err := os.WriteFile(dummy, []byte(c02DummySchema), 0o644); err != nil {
				return nil, err
			}
		}
		in.JSONSchema = &codegen.JSONSchemaInput{Path: dummy, Package: "dummy"}
		p.Transforms.CommonPasses = compiler.Passes{&injectIR{ir: ir}}
	} else {
		switch format {
		case "jsonschema":
			in.JSONSchema = &codegen.JSONSchemaInput{Path: path, Package: pkg}
		case "openapi":
			in.OpenAPI = &codegen.OpenAPIInput{Path: path, Package: pkg}
		case "cue":
			in.Cue = &codegen.CueInput{Entrypoint: path, Package: pkg}
		default:
			return nil, fmt.Errorf("unknown format %s", format)
		}
		p.Transforms.CommonPasses = compiler.Passes{}
	}
	p.Inputs = []*codegen.Input{in}
	if o.VeneersDir != "" {
		p.Transforms.VeneersDirectories = []string{o.VeneersDir}
	}
	p.Output.Directory = "%l"
	p.Output.Types, p.Output.Builders, p.Output.Converters, p.Output.APIReference = o.Types, o.Builders, o.Converters, o.APIRef
	langs := o.Langs
	if len(langs) == 0 {
		langs = c02AllLangs
	}
	for _, l := range langs {
		switch l {
		case "go":
			p.Output.Languages = append(p.Output.Languages, &codegen.OutputLanguage{Go: &golang.Config{
				GenerateJSONMarshaller: o.Go.JSONMarshaller, GenerateStrictUnmarshaller: o.Go.StrictUnmarshaller, GenerateEqual: o.Go.Equal,
				GenerateValidate: o.Go.Validate, AnyAsInterface: o.Go.AnyAsInterface, SkipRuntime: o.Go.SkipRuntime, PackageRoot: c02GoModule}})
		case "python":
			p.Output.Languages = append(p.Output.Languages, &codegen.OutputLanguage{Python: &python.Config{GenerateJSONMarshaller: o.LangMarshal, SkipRuntime: o.LangSkipRuntime}})
		case "java":
			p.Output.Languages = append(p.Output.Languages, &codegen.OutputLanguage{Java: &java.Config{
				PackagePath: c02JavaPackagePath, ProjectPath: "src/main/java/" + strings.ReplaceAll(c02JavaPackagePath, ".", "/"),
				GenerateJSONMarshaller: o.LangMarshal, SkipRuntime: o.LangSkipRuntime}})
		case "typescript":
			p.Output.Languages = append(p.Output.Languages, &codegen.OutputLanguage{Typescript: &typescript.Config{SkipRuntime: o.LangSkipRuntime, EnumsAsUnionTypes: o.EnumsAsUnion}})
		case "php":
			p.Output.Languages = append(p.Output.Languages, &codegen.OutputLanguage{PHP: &php.Config{NamespaceRoot: `Lab\Gen`, GenerateJSONMarshaller: o.LangMarshal}})
		case "jsonschema":
			p.Output.Languages = append(p.Output.Languages, &codegen.OutputLanguage{JSONSchema: &jsonschema.Config{}})
		case "openapi":
			p.Output.Languages = append(p.Output.Languages, &codegen.OutputLanguage{OpenAPI: &openapi.Config{}})
		default:
			return nil, fmt.Errorf("unknown language %s", l)
		}
	}
	return p, nil
}

// c02Run executes the pipeline; a panic is reported as an error starting with "PANIC".
func c02Run(p *codegen.Pipeline) (files map[string][]byte, err error) {
	defer func() {
		if rec := recover(); rec != nil {
			err = fmt.Errorf("PANIC: %v", rec)
		}
	}()
	fs, err := p.Run(context.Background())
	if err != nil {
		return nil, err
	}
	files = map[string][]byte{}
	for _, f := range fs.AsFiles() {
		files[f.RelativePath] = f.Data
	}
	return files, nil
}

// c02PostChainGo: the IR the Go jennies see (fresh load + Go compiler passes), for the Lean model.
func c02PostChainGo(p *codegen.Pipeline) (schemas ast.Schemas, err error) {
	defer func() {
		if rec := recover(); rec != nil {
			err = fmt.Errorf("PANIC: %v", rec)
		}
	}()
	loaded, err := p.LoadSchemas(context.Background())
	if err != nil {
		return nil, err
	}
	langs, err := p.OutputLanguages()
	if err != nil {
		return nil, err
	}
	target, ok := langs["go"]
	if !ok {
		return nil, fmt.Errorf("go is not configured")
	}
	ctx, err := p.ContextForLanguage(target, loaded)
	if err != nil {
		return nil, err
	}
	return ctx.Schemas, nil
}

func c02SortedNames(files map[string][]byte) []string {
	names := make([]string, 0, len(files))
	for n := range files {
		names = append(names, n)
	}
	sort.Strings(names)
	return names
}

func c02LangOf(path string) string {
	if i := strings.IndexByte(path, '/'); i > 0 {
		return path[:i]
	}
	return "?"
}

func init() {
	// c02-probe: run the all-language pipeline on generated Src terms and write the output below out=<dir> (debugging).
	register("c02-probe", func(args map[string]string, out *bufio.Writer) error {
		dir := args["out"]
		if dir == "" {
			dir = labWorkDir("c02probe")
		}
		o := c02Opts{Types: true, Builders: args["builders"] == "1", Converters: args["converters"] == "1", APIRef: args["apiref"] == "1",
			Go: defaultGoFlags(), LangMarshal: args["marshal"] != "0", EnumsAsUnion: args["union"] == "1"}
		return iterDefs(args, func(i int, d0 *Defs) error {
			for _, f := range labFormats {
				if want, ok := args["format"]; ok && want != f {
					continue
				}
				pkg := fmt.Sprintf("c%d%s", i, labFormatSuffix[f])
				d, _ := degradeDefs(d0, f, argInt(args, "degrade", 2))
				ro := renderDefs(d, f, pkg)
				if ro.Text == "" {
					fmt.Fprintf(out, "%s unsupported %v\n", pkg, ro.Unsupported)
					continue
				}
				path, err := writeSchemaFile(filepath.Join(dir, "schemas"), f, pkg, ro.Text)
				if err != nil {
					return err
				}
				p, err := c02Pipeline(f, path, pkg, nil, o, dir)
				if err != nil {
					return err
				}
				files, err := c02Run(p)
				if err != nil {
					fmt.Fprintf(out, "%s generr %s\n", pkg, labOneLine(err.Error()))
					continue
				}
				if err := writeFiles(filepath.Join(dir, "out", pkg), files); err != nil {
					return err
				}
				fmt.Fprintf(out, "%s ok %d files -> %s\n", pkg, len(files), filepath.Join(dir, "out", pkg))
				for _, n := range c02SortedNames(files) {
					fmt.Fprintf(out, "  %s (%d bytes)\n", n, len(files[n]))
				}
			}
			return nil
		})
	})
}
