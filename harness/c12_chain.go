package main

// C12 chain-default oracle: the defaults of the FRONT-END IR of a run (LoadSchemas: front-end +
// common passes, BEFORE the compiler passes the jsonschema / openapi languages run themselves) must
// be carried into the emitted document.
//
// The IR-level oracle of c12_oracle.go (default-dropped / default-differs) compares the emitted
// document with the IR the jennies SAW, i.e. after the language's own chain; the comparison with the
// source term (c12SourceCarried) does not report an absent default (a front-end that does not read a
// `default` is C10's business). A pass of the language chain that loses a default the front-end DID
// read falls between the two — this oracle closes that gap. It reads what the emitted document MEANS,
// not what any pass does:
//
//   effective default of a member = Type.Default, or, for a disjunction whose branches are exactly
//   one non-null type + null (either order): the union's own default if set, else the default of the
//   non-null branch;
//
//   emitted default of a property = its `default`, or the `default` inside its single non-null
//   anyOf / oneOf branch.
//
// Every struct member of every object of the package is visited (members of inline structs, of array
// items, of map values and of union branches included).

import (
	"fmt"

	"github.com/grafana/cog/internal/ast"
)

func c12IsNullType(t ast.Type) bool {
	return t.Kind == ast.KindScalar && t.Scalar != nil && t.Scalar.ScalarKind == ast.KindNull
}

// c12NullableUnion: the non-null branch of a disjunction whose branches are exactly one non-null type + null.
func c12NullableUnion(t ast.Type) (ast.Type, bool) {
	if t.Kind != ast.KindDisjunction || t.Disjunction == nil || len(t.Disjunction.Branches) != 2 {
		return ast.Type{}, false
	}
	a, b := t.Disjunction.Branches[0], t.Disjunction.Branches[1]
	switch {
	case c12IsNullType(a) && !c12IsNullType(b):
		return b, true
	case c12IsNullType(b) && !c12IsNullType(a):
		return a, true
	}
	return ast.Type{}, false
}

// c12EffectiveDefault: (default, where it sits: type | union | branch).
func c12EffectiveDefault(t ast.Type) (any, string) {
	nn, isNU := c12NullableUnion(t)
	if t.Default != nil {
		if isNU {
			return t.Default, "union"
		}
		return t.Default, "type"
	}
	if isNU && nn.Default != nil {
		return nn.Default, "branch"
	}
	return nil, ""
}

func c12IsNullSchema(n JV) bool {
	if n.K != 'o' {
		return false
	}
	t, ok := n.get("type")
	return ok && t.K == 's' && t.S == "null"
}

// c12SingleNonNullBranch: the only non-null alternative of an emitted anyOf / oneOf.
func c12SingleNonNullBranch(n JV) (JV, bool) {
	if n.K != 'o' {
		return JV{}, false
	}
	for _, key := range []string{"anyOf", "oneOf"} {
		alts, ok := n.get(key)
		if !ok || alts.K != 'a' {
			continue
		}
		var nn []JV
		for _, a := range alts.A {
			if !c12IsNullSchema(a) {
				nn = append(nn, a)
			}
		}
		if len(nn) == 1 && len(nn) < len(alts.A) {
			return nn[0], true
		}
	}
	return JV{}, false
}

func c12EmittedDefault(p JV) (JV, bool) {
	if p.K != 'o' {
		return JV{}, false
	}
	if d, ok := p.get("default"); ok {
		return d, true
	}
	if b, ok := c12SingleNonNullBranch(p); ok {
		if d, ok := b.get("default"); ok {
			return d, true
		}
	}
	return JV{}, false
}

// c12MemberKind: a short name of the front-end type of a member (for the classification of failures).
func c12MemberKind(t ast.Type) string {
	if nn, ok := c12NullableUnion(t); ok {
		return c12MemberKind(nn) + "|null"
	}
	switch t.Kind {
	case ast.KindScalar:
		if t.Scalar != nil {
			if t.Scalar.Value != nil {
				return "const:" + string(t.Scalar.ScalarKind)
			}
			return string(t.Scalar.ScalarKind)
		}
	case ast.KindDisjunction:
		if t.Disjunction != nil {
			return fmt.Sprintf("union%d", len(t.Disjunction.Branches))
		}
	}
	return string(t.Kind)
}

type c12ChainWalk struct {
	fails    []string
	members  int // struct members visited
	defaults int // of which the front-end IR holds an effective default
	onBranch int // … sitting on the non-null branch of a `T | null` union
	onUnion  int // … sitting on a `T | null` union itself
}

func (w *c12ChainWalk) fail(format string, args ...any) {
	if len(w.fails) < 6 {
		w.fails = append(w.fails, fmt.Sprintf(format, args...))
	}
}

func (w *c12ChainWalk) ty(t ast.Type, node JV, at string, depth int) {
	if node.K != 'o' || depth > 24 {
		return
	}
	if nn, ok := c12NullableUnion(t); ok {
		// emitted either as the non-null type itself (the chain made it a nullable T) or as a union with a null branch
		if b, ok := c12SingleNonNullBranch(node); ok {
			node = b
		}
		w.ty(nn, node, at, depth+1)
		return
	}
	switch t.Kind {
	case ast.KindStruct:
		if t.Struct == nil {
			return
		}
		props, ok := node.get("properties")
		if !ok || props.K != 'o' {
			return
		}
		names := map[string]int{}
		for _, f := range t.Struct.Fields {
			names[f.Name]++
		}
		for _, f := range t.Struct.Fields {
			p, ok := props.get(f.Name)
			if !ok || names[f.Name] > 1 {
				continue // presence / duplicate member names: the IR-level oracle
			}
			w.members++
			if want, from := c12EffectiveDefault(f.Type); want != nil {
				w.defaults++
				switch from {
				case "branch":
					w.onBranch++
				case "union":
					w.onUnion++
				}
				if wj, ok := c12JSONOf(want); ok {
					got, has := c12EmittedDefault(p)
					switch {
					case !has:
						w.fail("chain-default-dropped at=%s.%s from=%s kind=%s ir=%s", at, f.Name, from, c12MemberKind(f.Type), wj.json())
					case !c12SameJSON(wj, got):
						w.fail("chain-default-differs at=%s.%s from=%s kind=%s ir=%s emitted=%s", at, f.Name, from, c12MemberKind(f.Type), wj.json(), got.json())
					}
				}
			}
			w.ty(f.Type, p, at+"."+f.Name, depth+1)
		}
	case ast.KindArray:
		if t.Array != nil {
			if it, ok := node.get("items"); ok {
				w.ty(t.Array.ValueType, it, at+"[]", depth+1)
			}
		}
	case ast.KindMap:
		if t.Map != nil {
			if it, ok := node.get("additionalProperties"); ok {
				w.ty(t.Map.ValueType, it, at+"{}", depth+1)
			}
		}
	case ast.KindDisjunction:
		if t.Disjunction == nil {
			return
		}
		alts, ok := node.get("anyOf")
		if !ok {
			alts, ok = node.get("oneOf")
		}
		if !ok || alts.K != 'a' || len(alts.A) != len(t.Disjunction.Branches) {
			return
		}
		for i, b := range t.Disjunction.Branches {
			w.ty(b, alts.A[i], fmt.Sprintf("%s|%d", at, i), depth+1)
		}
	}
}

// c12ChainDefaults compares the defaults of the front-end IR of package pkg with the definitions of an
// emitted document (JSON Schema `definitions` / OpenAPI `components.schemas`).
func c12ChainDefaults(pre ast.Schemas, pkg string, emittedDefs JV) *c12ChainWalk {
	w := &c12ChainWalk{}
	schema := c12FindSchema(pre, pkg)
	if schema == nil || emittedDefs.K != 'o' {
		return w
	}
	seen := map[string]int{}
	schema.Objects.Iterate(func(_ string, o ast.Object) { seen[o.Name]++ })
	schema.Objects.Iterate(func(_ string, o ast.Object) {
		if seen[o.Name] > 1 {
			return
		}
		if node, ok := emittedDefs.get(o.Name); ok {
			w.ty(o.Type, node, o.Name, 0)
		}
	})
	return w
}
