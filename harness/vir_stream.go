package main

import (
	"bufio"
	"fmt"
)

func init() {
	// vir-roundtrip: the Lean side must parse and re-print exactly what Go printed
	register("vir-roundtrip", func(args map[string]string, out *bufio.Writer) error {
		n := argInt(args, "n", 300)
		r := newRng(uint64(argInt(args, "seed", 1)))
		o := defaultIRGenOpts(args["tier"])
		o.malformed = true
		for i := 0; i < n; i++ {
			s := virSchemas(genSchemas(r, o))
			fmt.Fprintf(out, "vir %s\t%s\tok\n", s, s)
		}
		return nil
	})
}
