package main

// Reference validators of the SOURCE side: does the schema language's own validator accept a
// document under the rendered schema? JSON Schema: santhosh-tekuri/jsonschema; OpenAPI:
// kin-openapi VisitJSON; CUE: Unify + Validate(Concrete). All in-process (cog dependencies).

import (
	"context"
	"fmt"
	"strings"

	"cuelang.org/go/cue"
	"cuelang.org/go/cue/cuecontext"
	"github.com/getkin/kin-openapi/openapi3"
	jsv "github.com/santhosh-tekuri/jsonschema/v5"
)

type refValidator struct {
	format string
	js     *jsv.Schema
	oa     *openapi3.Schema
	cueCtx *cue.Context
	cueDef cue.Value
}

// newRefValidator compiles the rendered schema text; root names the definition documents are
// validated against (a case's root by default, any object name otherwise).
func newRefValidator(format, text, root string) (rv *refValidator, err error) {
	defer func() {
		if rec := recover(); rec != nil {
			err = fmt.Errorf("PANIC in reference validator: %v", rec)
		}
	}()
	rv = &refValidator{format: format}
	switch format {
	case "jsonschema":
		c := jsv.NewCompiler()
		c.Draft = jsv.Draft7
		c.AssertFormat = true
		if err := c.AddResource("mem://schema.json", strings.NewReader(text)); err != nil {
			return nil, err
		}
		s, err := c.Compile("mem://schema.json#/definitions/" + root)
		if err != nil {
			return nil, err
		}
		rv.js = s
	case "openapi":
		loader := openapi3.NewLoader()
		doc, err := loader.LoadFromData([]byte(text))
		if err != nil {
			return nil, err
		}
		if err := doc.Validate(context.Background(), openapi3.DisableExamplesValidation()); err != nil {
			return nil, err
		}
		ref := doc.Components.Schemas[root]
		if ref == nil || ref.Value == nil {
			return nil, fmt.Errorf("no component schema %q", root)
		}
		rv.oa = ref.Value
	case "cue":
		rv.cueCtx = cuecontext.New()
		v := rv.cueCtx.CompileString(text)
		if v.Err() != nil {
			return nil, v.Err()
		}
		def := v.LookupPath(cue.ParsePath("#" + root))
		if !def.Exists() {
			return nil, fmt.Errorf("no definition #%s", root)
		}
		rv.cueDef = def
	default:
		return nil, fmt.Errorf("unknown format %s", format)
	}
	return rv, nil
}

// validate returns nil when the reference validator accepts the document.
func (rv *refValidator) validate(doc JV) (err error) {
	defer func() {
		if rec := recover(); rec != nil {
			err = fmt.Errorf("PANIC in reference validator: %v", rec)
		}
	}()
	switch rv.format {
	case "jsonschema":
		return rv.js.Validate(doc.toAny(true))
	case "openapi":
		return rv.oa.VisitJSON(doc.toAny(false), openapi3.EnableFormatValidation())
	case "cue":
		dv := rv.cueCtx.CompileString(doc.json())
		if dv.Err() != nil {
			return dv.Err()
		}
		u := rv.cueDef.Unify(dv)
		return u.Validate(cue.Concrete(true), cue.Final())
	}
	return fmt.Errorf("no validator")
}

func shortErr(err error) string {
	if err == nil {
		return ""
	}
	s := strings.Join(strings.Fields(err.Error()), " ")
	if len(s) > 300 {
		s = s[:300] + "…"
	}
	return s
}
