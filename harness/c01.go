package main

// C01 stream: source-valid documents through freshly generated Go code (real pipeline, real
// compiler), next to the Lean model of the codec (`godec`) and the property's own oracle.
//
// rows:  defschemas <case> <post-chain IR as VIR>     \t ok            \t ok
//        godec <case> <pkg> <root> <doc sexp>          \t ok <json>|err \t oracle verdict
//        -                                             \t skip …        \t ok      (not generated / not compiled: C02's business)

import (
	"bufio"
	"fmt"
	"math/big"
	"regexp"
	"sort"
	"strings"
)

func c01Short(v JV) string {
	s := v.json()
	if len(s) > 60 {
		cut := 60
		for cut > 0 && s[cut]&0xC0 == 0x80 { // do not split a UTF-8 sequence
			cut--
		}
		s = s[:cut] + "…"
	}
	return s
}

// first difference between two documents, ignoring members whose value is null
func c01Diff(a, b JV, path string) (string, JV, JV, bool) {
	if a.K != b.K {
		return path, a, b, true
	}
	switch a.K {
	case 'a':
		if len(a.A) != len(b.A) {
			return path, a, b, true
		}
		for i := range a.A {
			if p, x, y, d := c01Diff(a.A[i], b.A[i], fmt.Sprintf("%s[%d]", path, i)); d {
				return p, x, y, true
			}
		}
	case 'o':
		keys := map[string]bool{}
		for _, e := range a.O {
			keys[e.K] = true
		}
		for _, e := range b.O {
			keys[e.K] = true
		}
		ks := make([]string, 0, len(keys))
		for k := range keys {
			ks = append(ks, k)
		}
		sort.Strings(ks)
		for _, k := range ks {
			x, okx := a.get(k)
			y, oky := b.get(k)
			if !okx {
				x = jNull()
			}
			if !oky {
				y = jNull()
			}
			if x.isNull() && y.isNull() {
				continue
			}
			if p, x2, y2, d := c01Diff(x, y, path+"."+k); d {
				return p, x2, y2, true
			}
		}
	case 'n':
		if canonNumber(a.S) != canonNumber(b.S) {
			return path, a, b, true
		}
	default:
		if a.json() != b.json() {
			return path, a, b, true
		}
	}
	return "", a, b, false
}

// c01SrcAt describes the source-grammar construct found at a document path ("$.a.b[0].c")
func c01SrcAt(d *Defs, doc JV, path string) string {
	cur := srcRef(d.Root)
	node := doc
	desc := []string{}
	resolve := func(s *Src) *Src {
		// looks through references and through the element wrapper (nullable T)
		for i := 0; i < 20 && s != nil && (s.Kind == SRef || s.Kind == SNullable); i++ {
			if s.Kind == SNullable {
				s = s.Elem
			} else {
				s = d.lookup(s.Ref)
			}
		}
		return s
	}
	i := 1 // skip "$"
	for i < len(path) && cur != nil {
		cur = resolve(cur)
		if cur == nil {
			break
		}
		switch path[i] {
		case '.':
			j := i + 1
			for j < len(path) && path[j] != '.' && path[j] != '[' {
				j++
			}
			key := path[i+1 : j]
			i = j
			parent := node
			if child, ok := node.get(key); ok {
				node = child
			} else {
				node = jNull()
			}
			switch cur.Kind {
			case SStruct:
				var next *Src
				for _, f := range cur.Fields {
					if f.Name == key {
						next = f.Ty
						flags := ""
						if f.Required {
							flags += "required"
						} else {
							flags += "optional"
						}
						if f.Nullable {
							flags += "+nullable"
						}
						if f.Default != nil {
							flags += "+default"
						}
						desc = append(desc, "field("+flags+")")
					}
				}
				cur = next
			case SDict:
				desc = append(desc, "dict")
				cur = cur.Elem
			case SOneOfStructs:
				// the member belongs to one of the branches: continue in the first branch declaring it
				desc = append(desc, "oneOfStructs")
				var next *Src
				tag := ""
				if tv, ok := parent.get(cur.Disc); ok && tv.K == 's' {
					tag = tv.S
				}
				for _, br := range cur.Branches {
					if tag != "" && br.Tag != tag {
						continue
					}
					bs := resolve(srcRef(br.Name))
					if bs == nil || bs.Kind != SStruct {
						continue
					}
					for _, f := range bs.Fields {
						if f.Name == key && next == nil {
							next = f.Ty
							flags := "optional"
							if f.Required {
								flags = "required"
							}
							if f.Nullable {
								flags += "+nullable"
							}
							if f.Default != nil {
								flags += "+default"
							}
							desc = append(desc, "field("+flags+")")
						}
					}
				}
				cur = next
			default:
				desc = append(desc, "?"+cur.Kind.String())
				cur = nil
			}
		case '[':
			j := i
			for j < len(path) && path[j] != ']' {
				j++
			}
			idx := 0
			fmt.Sscanf(path[i+1:j], "%d", &idx)
			i = j + 1
			if node.K == 'a' && idx < len(node.A) {
				node = node.A[idx]
			} else {
				node = jNull()
			}
			if cur.Kind == SArray {
				desc = append(desc, "array")
				cur = cur.Elem
			} else {
				desc = append(desc, "?"+cur.Kind.String())
				cur = nil
			}
		default:
			i = len(path)
		}
	}
	var leaf func(s *Src, depth int) string
	leaf = func(s *Src, depth int) string {
		for i := 0; i < 20 && s != nil && s.Kind == SRef; i++ {
			s = d.lookup(s.Ref)
		}
		if s != nil && s.Kind == SNullable {
			return leaf(s.Elem, depth) + "?" // nullable element
		}
		r := resolve(s)
		if r == nil {
			return "?"
		}
		switch r.Kind {
		case SInt:
			sign := "u"
			if r.Signed {
				sign = "s"
			}
			return fmt.Sprintf("int%d%s", r.Width, sign)
		case SNum:
			return fmt.Sprintf("num%d", r.Width)
		case SArray, SDict:
			if depth > 2 {
				return r.Kind.String()
			}
			return r.Kind.String() + "(" + leaf(r.Elem, depth+1) + ")"
		case SOneOfScalars:
			// a union of constants / booleans / (references to) enums: the alternatives are spelled out, so
			// that a finding about one flavour (`false | true`) cannot hide a defect of another (`0 | #Level`)
			if d.srcEnumLikeUnion(r) {
				parts := []string{}
				for _, a := range r.Alts {
					k := a.Kind.String()
					switch a.Kind {
					case SConst:
						k = map[byte]string{'s': "const.string", 'n': "const.int"}[a.Const.K]
						if k == "" {
							k = "const.bool"
						}
					case SRef:
						if t := d.lookup(a.Ref); t != nil {
							k = "ref." + t.Kind.String()
						}
					}
					parts = append(parts, k)
				}
				return "oneOfScalars<" + strings.Join(parts, "|") + ">"
			}
		}
		return r.Kind.String()
	}
	if cur != nil {
		desc = append(desc, leaf(cur, 0))
	}
	return strings.Join(desc, "/")
}

var c01GoFieldErr = regexp.MustCompile(`cannot unmarshal (\w+) into Go struct field (\S+) of type`)
var c01GoValueErr = regexp.MustCompile(`cannot unmarshal (\w+) into Go value of type`)

// c01AtOfMember: the construct (c01SrcAt) of the first member called key (any member when key is empty) whose
// value has the JSON type named by encoding/json's error (array, string, number, bool, object) and whose
// construct ends with suffix.
func c01AtOfMember(d *Defs, doc JV, key, jsonType, suffix string) string {
	kindOK := func(v JV) bool {
		switch jsonType {
		case "array":
			return v.K == 'a'
		case "string":
			return v.K == 's'
		case "number":
			return v.K == 'n'
		case "bool":
			return v.K == 't' || v.K == 'f'
		case "object":
			return v.K == 'o'
		}
		return true
	}
	found := ""
	var walk func(v JV, path string)
	walk = func(v JV, path string) {
		if found != "" {
			return
		}
		switch v.K {
		case 'a':
			for i, e := range v.A {
				walk(e, fmt.Sprintf("%s[%d]", path, i))
			}
		case 'o':
			for _, e := range v.O {
				if (key == "" || e.K == key) && kindOK(e.V) && found == "" {
					if at := c01SrcAt(d, doc, path+"."+e.K); strings.HasSuffix(at, suffix) {
						found = at
						return
					}
				}
				walk(e.V, path+"."+e.K)
			}
		}
	}
	walk(doc, "$")
	return found
}

func c01Class(orig, got JV) string {
	if (orig.K == 'a' && len(orig.A) == 0 || orig.K == 'o' && len(orig.O) == 0) && got.isNull() {
		return "empty-collection-dropped"
	}
	if orig.K == 'n' && got.K == 'n' {
		n, ok := new(big.Int).SetString(orig.S, 10)
		if ok && n.CmpAbs(new(big.Int).Lsh(big.NewInt(1), 53)) >= 0 {
			return "bigint-through-float64"
		}
		return "number-changed"
	}
	if orig.K == 's' && got.K == 's' {
		return "string-changed"
	}
	if orig.K == 'a' && got.K == 's' {
		return "array-became-string"
	}
	if got.isNull() {
		return "value-dropped"
	}
	return "other"
}

func init() {
	register("c01-rows", func(args map[string]string, out *bufio.Writer) error {
		b, err := buildLabBatch(args, "c01-"+args["seed"]+"-"+args["tier"], false)
		if err != nil {
			return err
		}
		defer b.lab.Close()
		var reqs []LabReq
		for _, c := range b.cases {
			if !c.generated() || !c.GoOK {
				continue
			}
			for _, d := range b.docs[c.ID] {
				reqs = append(reqs, LabReq{c.ID, c.Defs.Root, "dec", []string{d.json()}}, LabReq{c.ID, c.Defs.Root, "strict", []string{d.json()}})
			}
		}
		rep := b.lab.GoCall(reqs)
		ri := 0
		for _, c := range b.cases {
			switch {
			case c.Defs == nil || len(c.Unsupported) > 0:
				fmt.Fprintf(out, "-\tskip %s unsupported-by-format %s\tok\n", c.ID, labOneLine(strings.Join(c.Unsupported, ",")))
				continue
			case c.GenErr != "":
				fmt.Fprintf(out, "-\tskip %s generr %s\tok\n", c.ID, labOneLine(c.GenErr))
				continue
			case !c.GoOK:
				// the run reported success but the generated Go does not compile: no document of this
				// schema can be loaded at all
				fmt.Fprintf(out, "-\tskip %s gocompile format=%s style=%v src=%s\tFAIL generated-go-does-not-compile case=%s format=%s %s\n",
					c.ID, c.Format, c.Style, c.Defs.sexp(), c.ID, c.Format, labOneLine(labFirstLine(c.GoCompileErr)))
				continue
			}
			fmt.Fprintf(out, "-\tcase %s format=%s degraded=%v notes=%v style=%v src=%s\tok\n", c.ID, c.Format, c.Degraded, c.Notes, c.Style, c.Defs.sexp())
			fmt.Fprintf(out, "defschemas %s %s\tok\tok\n", c.ID, virSchemas(c.IRGo))
			rv, rvErr := c.RefValidator("")
			for _, d := range b.docs[c.ID] {
				dec, strict := rep[ri], rep[ri+1]
				ri += 2
				info := fmt.Sprintf("case=%s format=%s", c.ID, c.Format)
				if rvErr != nil {
					fmt.Fprintf(out, "-\tskip %s no-reference-validator %s\tok\n", c.ID, labOneLine(rvErr.Error()))
					continue
				}
				if err := rv.validate(d); err != nil {
					// the generator's "valid" document is not accepted by the schema language's own validator
					fmt.Fprintf(out, "-\tskip %s doc-rejected-by-reference-validator %s\tok\n", c.ID, labOneLine(shortErr(err)))
					continue
				}
				verdict := "ok"
				impl := "err"
				switch {
				case !strings.HasPrefix(dec, "ok "):
					verdict = "FAIL dec-error " + info + " " + labOneLine(dec)
					if m := c01GoFieldErr.FindStringSubmatch(dec); m != nil {
						// which construct of the term the refused member is (known findings are told apart by it)
						if at := c01AtOfMember(c.Defs, d, m[2][strings.LastIndex(m[2], ".")+1:], m[1], ""); at != "" {
							verdict += " at=" + at
						}
					} else if m := c01GoValueErr.FindStringSubmatch(dec); m != nil {
						// raised inside the custom unmarshaller of a union: the first union-typed member holding such a value
						at := c01AtOfMember(c.Defs, d, "", m[1], "+default)/oneOfScalars") // a member with a default first
						if at == "" {
							at = c01AtOfMember(c.Defs, d, "", m[1], "/oneOfScalars")
						}
						if at != "" {
							verdict += " at=" + at
						}
					}
				default:
					impl = dec
					got, perr := parseJV([]byte(strings.TrimPrefix(dec, "ok ")))
					if perr != nil {
						verdict = "FAIL reenc-invalid-json " + info
						break
					}
					if p, x, y, diff := c01Diff(d, got, "$"); diff {
						verdict = fmt.Sprintf("FAIL reenc-differs class=%s at=%s %s path=%s orig=%s got=%s", c01Class(x, y), c01SrcAt(c.Defs, d, p), info, p, c01Short(x), c01Short(y))
					} else if err := rv.validate(got); err != nil {
						verdict = "FAIL reenc-rejected-by-source-schema " + info + " " + labOneLine(shortErr(err))
					} else if !strings.HasPrefix(strict, "ok ") {
						verdict = "FAIL strict-error " + info + " " + labOneLine(strict)
					} else if canonJSON([]byte(strings.TrimPrefix(strict, "ok "))) != canonJSON([]byte(strings.TrimPrefix(dec, "ok "))) {
						sgot, _ := parseJV([]byte(strings.TrimPrefix(strict, "ok ")))
						p, x, y, _ := c01Diff(got, sgot, "$")
						verdict = fmt.Sprintf("FAIL strict-differs-from-standard at=%s %s path=%s standard=%s strict=%s", c01SrcAt(c.Defs, d, p), info, p, c01Short(x), c01Short(y))
					}
				}
				fmt.Fprintf(out, "godec %s %s %s %s\t%s\t%s\n", c.ID, c.ID, c.Defs.Root, d.sexp(), impl, verdict)
			}
		}
		fmt.Fprintf(out, "-\tstats timings=%s constructs=%v docvariants=%v\tok\n", fmtTimings(b.lab.Timings), b.hist, b.dhist)
		return nil
	})
}
