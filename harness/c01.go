package main

// C01 stream: source-valid documents through freshly generated Go code (real pipeline, real
// compiler), next to the Lean model of the codec (`godec`) and the property's own oracle.
//
// rows:  defschemas <case> <post-chain IR as VIR>     \t ok            \t ok
//        godec <case> <pkg> <root> <doc sexp>          \t ok <json>|err \t oracle verdict
//        -                                             \t skip …        \t ok      (not generated / not compiled: C02's business)

import (
	"bufio"
	"fmt"
	"math/big"
	"sort"
	"strings"
)

func c01Short(v JV) string {
	s := v.json()
	if len(s) > 60 {
		s = s[:60] + "…"
	}
	return s
}

// first difference between two documents, ignoring members whose value is null
func c01Diff(a, b JV, path string) (string, JV, JV, bool) {
	if a.K != b.K {
		return path, a, b, true
	}
	switch a.K {
	case 'a':
		if len(a.A) != len(b.A) {
			return path, a, b, true
		}
		for i := range a.A {
			if p, x, y, d := c01Diff(a.A[i], b.A[i], fmt.Sprintf("%s[%d]", path, i)); d {
				return p, x, y, true
			}
		}
	case 'o':
		keys := map[string]bool{}
		for _, e := range a.O {
			keys[e.K] = true
		}
		for _, e := range b.O {
			keys[e.K] = true
		}
		ks := make([]string, 0, len(keys))
		for k := range keys {
			ks = append(ks, k)
		}
		sort.Strings(ks)
		for _, k := range ks {
			x, okx := a.get(k)
			y, oky := b.get(k)
			if !okx {
				x = jNull()
			}
			if !oky {
				y = jNull()
			}
			if x.isNull() && y.isNull() {
				continue
			}
			if p, x2, y2, d := c01Diff(x, y, path+"."+k); d {
				return p, x2, y2, true
			}
		}
	case 'n':
		if canonNumber(a.S) != canonNumber(b.S) {
			return path, a, b, true
		}
	default:
		if a.json() != b.json() {
			return path, a, b, true
		}
	}
	return "", a, b, false
}

func c01Class(orig, got JV) string {
	if (orig.K == 'a' && len(orig.A) == 0 || orig.K == 'o' && len(orig.O) == 0) && got.isNull() {
		return "empty-collection-dropped"
	}
	if orig.K == 'n' && got.K == 'n' {
		n, ok := new(big.Int).SetString(orig.S, 10)
		if ok && n.CmpAbs(new(big.Int).Lsh(big.NewInt(1), 53)) >= 0 {
			return "bigint-through-float64"
		}
		return "number-changed"
	}
	if orig.K == 's' && got.K == 's' {
		return "string-changed"
	}
	if got.isNull() {
		return "value-dropped"
	}
	return "other"
}

func init() {
	register("c01-rows", func(args map[string]string, out *bufio.Writer) error {
		b, err := buildLabBatch(args, "c01-"+args["seed"]+"-"+args["tier"], false)
		if err != nil {
			return err
		}
		defer b.lab.Close()
		var reqs []LabReq
		for _, c := range b.cases {
			if !c.generated() || !c.GoOK {
				continue
			}
			for _, d := range b.docs[c.ID] {
				reqs = append(reqs, LabReq{c.ID, c.Defs.Root, "dec", []string{d.json()}}, LabReq{c.ID, c.Defs.Root, "strict", []string{d.json()}})
			}
		}
		rep := b.lab.GoCall(reqs)
		ri := 0
		for _, c := range b.cases {
			switch {
			case c.Defs == nil || len(c.Unsupported) > 0:
				fmt.Fprintf(out, "-\tskip %s unsupported-by-format %s\tok\n", c.ID, labOneLine(strings.Join(c.Unsupported, ",")))
				continue
			case c.GenErr != "":
				fmt.Fprintf(out, "-\tskip %s generr %s\tok\n", c.ID, labOneLine(c.GenErr))
				continue
			case !c.GoOK:
				fmt.Fprintf(out, "-\tskip %s gocompile %s\tok\n", c.ID, labOneLine(c.GoCompileErr))
				continue
			}
			fmt.Fprintf(out, "-\tcase %s format=%s degraded=%v notes=%v src=%s\tok\n", c.ID, c.Format, c.Degraded, c.Notes, c.Defs.sexp())
			fmt.Fprintf(out, "defschemas %s %s\tok\tok\n", c.ID, virSchemas(c.IRGo))
			rv, rvErr := c.RefValidator("")
			for _, d := range b.docs[c.ID] {
				dec, strict := rep[ri], rep[ri+1]
				ri += 2
				info := fmt.Sprintf("case=%s format=%s", c.ID, c.Format)
				if rvErr != nil {
					fmt.Fprintf(out, "-\tskip %s no-reference-validator %s\tok\n", c.ID, labOneLine(rvErr.Error()))
					continue
				}
				if err := rv.validate(d); err != nil {
					// the generator's "valid" document is not accepted by the schema language's own validator
					fmt.Fprintf(out, "-\tskip %s doc-rejected-by-reference-validator %s\tok\n", c.ID, labOneLine(shortErr(err)))
					continue
				}
				verdict := "ok"
				impl := "err"
				switch {
				case !strings.HasPrefix(dec, "ok "):
					verdict = "FAIL dec-error " + info + " " + labOneLine(dec)
				default:
					impl = dec
					got, perr := parseJV([]byte(strings.TrimPrefix(dec, "ok ")))
					if perr != nil {
						verdict = "FAIL reenc-invalid-json " + info
						break
					}
					if p, x, y, diff := c01Diff(d, got, "$"); diff {
						verdict = fmt.Sprintf("FAIL reenc-differs class=%s %s path=%s orig=%s got=%s", c01Class(x, y), info, p, c01Short(x), c01Short(y))
					} else if err := rv.validate(got); err != nil {
						verdict = "FAIL reenc-rejected-by-source-schema " + info + " " + labOneLine(shortErr(err))
					} else if !strings.HasPrefix(strict, "ok ") {
						verdict = "FAIL strict-error " + info + " " + labOneLine(strict)
					} else if canonJSON([]byte(strings.TrimPrefix(strict, "ok "))) != canonJSON([]byte(strings.TrimPrefix(dec, "ok "))) {
						sgot, _ := parseJV([]byte(strings.TrimPrefix(strict, "ok ")))
						p, x, y, _ := c01Diff(got, sgot, "$")
						verdict = fmt.Sprintf("FAIL strict-differs-from-standard %s path=%s standard=%s strict=%s", info, p, c01Short(x), c01Short(y))
					}
				}
				fmt.Fprintf(out, "godec %s %s %s %s\t%s\t%s\n", c.ID, c.ID, c.Defs.Root, d.sexp(), impl, verdict)
			}
		}
		fmt.Fprintf(out, "-\tstats timings=%s constructs=%v docvariants=%v\tok\n", fmtTimings(b.lab.Timings), b.hist, b.dhist)
		return nil
	})
}
