package main

// C04 crash stream, worker side.  A worker is a child process of `c04-run` (see c04_run.go): it
// reads one JSON case per line on stdin, executes it IN-PROCESS against the real cog code with the
// panic recovered, and answers one line per case.  Anything the worker cannot survive (Go stack
// overflow = fatal error, a panic on another goroutine, runaway memory, an endless loop) kills or
// stalls only the worker: the parent reads the crash report from the worker's stderr, or kills it
// when the per-case watchdog fires, and goes on with a fresh worker.

import (
	"bufio"
	"bytes"
	"context"
	"encoding/json"
	"fmt"
	"os"
	"os/signal"
	"path/filepath"
	"regexp"
	"runtime"
	"runtime/debug"
	"strings"
	"syscall"

	"github.com/grafana/cog/internal/codegen"
)

type c04Case struct {
	ID   string `json:"id"`
	Kind string `json:"kind"` // run | ir | passes-yaml | veneers-yaml
	Note string `json:"note,omitempty"`

	// kind=run: a complete working directory and the pipeline config to load from it
	Files  map[string][]byte `json:"files,omitempty"`
	Config string            `json:"config,omitempty"`

	// IR-level kinds: the IR is regenerated from (seed, idx, opts), then `del` is applied
	Seed      uint64   `json:"seed,omitempty"`
	Idx       int      `json:"idx,omitempty"`
	Malformed bool     `json:"malformed,omitempty"`
	Depth     int      `json:"depth,omitempty"`
	Del       []string `json:"del,omitempty"`
	Op        string   `json:"op,omitempty"`   // kind=ir: pass:<Name> | chain:<lang> | fromast | context:<lang> | jennies:<lang>
	Yaml      string   `json:"yaml,omitempty"` // kind=passes-yaml / veneers-yaml
	Lang      string   `json:"lang,omitempty"`
}

type c04Result struct {
	ID      string `json:"id"`
	Outcome string `json:"outcome"` // ok | err | panic | crash | timeout
	Frame   string `json:"frame,omitempty"`
	Msg     string `json:"msg,omitempty"`   // normalised message class
	Raw     string `json:"raw,omitempty"`   // first 300 bytes of the message
	Stage   string `json:"stage,omitempty"` // load | run | …
	Extra   string `json:"extra,omitempty"` // kind=ir: VIR of the input IR (for the wf predicate)
	Stack   string `json:"stack,omitempty"`
}

const c04CogModule = "github.com/grafana/cog/"

var (
	c04ReHex    = regexp.MustCompile(`0x[0-9a-fA-F]+`)
	c04ReNum    = regexp.MustCompile(`[0-9]+`)
	c04ReQuoted = regexp.MustCompile(`"[^"]*"|'[^']*'`)
	c04RePath   = regexp.MustCompile(`\S*/\S*`)
	c04ReGen    = regexp.MustCompile(`\[[^\]]*\]`)
)

// c04MsgClass maps a panic message to its class: numbers, addresses and quoted payloads removed.
func c04MsgClass(msg string) string {
	m := strings.SplitN(msg, "\n", 2)[0]
	m = c04ReHex.ReplaceAllString(m, "X")
	m = c04ReQuoted.ReplaceAllString(m, "Q")
	m = c04RePath.ReplaceAllString(m, "P")
	m = c04ReNum.ReplaceAllString(m, "N")
	if len(m) > 140 {
		m = m[:140]
	}
	return m
}

// c04TopCogFrame extracts, from a Go stack trace (debug.Stack() or a crash report), the function
// of the first frame below the innermost panic() that lies in the cog module and not in the harness.
func c04TopCogFrame(stack string) string {
	lines := strings.Split(stack, "\n")
	if strings.Contains(stack, "stack overflow") || strings.Contains(stack, "goroutine stack exceeds") {
		return c04RecursionRoot(lines)
	}
	start := 0
	for i, l := range lines {
		if strings.HasPrefix(l, "panic(") || strings.HasPrefix(l, "runtime.sigpanic") {
			start = i + 1
		}
	}
	top := ""
	for _, l := range lines[start:] {
		if !strings.HasPrefix(l, c04CogModule) {
			continue
		}
		if strings.Contains(l, "/cmd/verifharness") {
			continue
		}
		fn := c04FrameName(l)
		if top == "" {
			// a trivial accessor says nothing about the mechanism: name its caller as well
			if strings.HasPrefix(fn, "internal/ast.Type.As") || strings.HasPrefix(fn, "internal/tools.") || strings.HasPrefix(fn, "internal/orderedmap.") ||
				strings.HasPrefix(fn, "internal/ast.Path.") || strings.HasPrefix(fn, "internal/ast.Type.Is") || strings.HasPrefix(fn, "internal/ast.Type.Implement") ||
				fn == "internal/simplecue.selectorLabel" { // the CUE label helper panics on behalf of whoever iterated / resolved the label
				top = fn
				continue
			}
			return fn
		}
		return top + "<-" + fn
	}
	if top != "" {
		return top
	}
	return "?"
}

// "github.com/grafana/cog/internal/openapi.(*generator).walkEnum(0xc0…, …)" -> "internal/openapi.(*generator).walkEnum"
func c04FrameName(l string) string {
	fn := l
	if strings.HasSuffix(fn, ")") {
		if i := strings.LastIndex(fn, "("); i > 0 {
			fn = fn[:i] // the argument list is the last parenthesised group
		}
	}
	fn = strings.TrimPrefix(fn, c04CogModule)
	return c04ReGen.ReplaceAllString(fn, "")
}

// for a stack overflow the top of the stack is wherever the limit was hit; the class is the
// recursive function: among the cog functions seen at least three times, one named *esolve* if
// any (the alias-cycle recursions), otherwise the alphabetically first
func c04RecursionRoot(lines []string) string {
	// the runtime prints the 50 innermost and the 50 outermost frames of an overflowing stack with
	// "...N frames elided..." in between: the cycle is in the innermost part; the outermost part
	// only holds the (finite) call path that led to it
	inner := lines
	for i, l := range lines {
		if strings.Contains(l, "frames elided") {
			inner = lines[:i]
			break
		}
	}
	if len(inner) < len(lines) {
		if r := c04RecursionCog(inner, 2); r != "" {
			return "recursion:" + r
		}
		if r := c04RecursionLib(inner); r != "" {
			return "recursion:lib:" + r
		}
	}
	if r := c04RecursionCog(lines, 3); r != "" {
		return "recursion:" + r
	}
	if r := c04RecursionLib(lines); r != "" {
		return "recursion:lib:" + r
	}
	return "?"
}

// c04RecursionCog: the cog function that occurs at least `min` times (a *esolve* function first, then by name)
func c04RecursionCog(lines []string, min int) string {
	count := map[string]int{}
	for _, l := range lines {
		if strings.HasPrefix(l, c04CogModule) && !strings.Contains(l, "/cmd/verifharness") {
			count[c04FrameName(l)]++
		}
	}
	best := ""
	for fn, n := range count {
		if n < min {
			continue
		}
		better := best == "" || (strings.Contains(fn, "esolve") && !strings.Contains(best, "esolve")) ||
			(strings.Contains(fn, "esolve") == strings.Contains(best, "esolve") && fn < best)
		if better {
			best = fn
		}
	}
	return best
}

// c04RecursionLib: the recursion is not in cog: the most frequent function of whatever library it is in
func c04RecursionLib(lines []string) string {
	all := map[string]int{}
	for _, l := range lines {
		if len(l) == 0 || l[0] == '\t' || l[0] == ' ' || strings.HasPrefix(l, "runtime.") || strings.HasPrefix(l, "goroutine ") || !strings.Contains(l, "(") {
			continue
		}
		all[c04FrameName(l)]++
	}
	best, n := "", 0
	for fn, c := range all {
		if c > n || (c == n && fn < best) {
			best, n = fn, c
		}
	}
	if n < 3 {
		return ""
	}
	return best
}

func c04Recovered(res *c04Result, rec any, stage string) {
	st := string(debug.Stack())
	msg := fmt.Sprintf("%v", rec)
	res.Outcome = "panic"
	res.Frame = c04TopCogFrame(st)
	res.Msg = c04MsgClass(msg)
	if len(msg) > 300 {
		msg = msg[:300]
	}
	res.Raw = msg
	res.Stage = stage
	if len(st) > 6000 {
		st = st[:6000]
	}
	res.Stack = st
}

// c04RunPipeline = what `cog generate --config <file>` does, minus writing the files.
func c04RunPipeline(dir string, c *c04Case, res *c04Result) {
	stage := "load"
	defer func() {
		if rec := recover(); rec != nil {
			c04Recovered(res, rec, stage)
			// a panic inside a compiler pass: hand the IR the chains received to the check, which asks
			// the Lean models whether THEY panic on it
			if strings.Contains(res.Frame, "internal/ast/compiler.") {
				res.Extra = c04LoadedIR(dir, c)
			}
		}
	}()
	for rel, data := range c.Files {
		p := filepath.Join(dir, rel)
		if !strings.HasPrefix(filepath.Clean(p), dir) {
			continue
		}
		_ = os.MkdirAll(filepath.Dir(p), 0o755)
		_ = os.WriteFile(p, data, 0o644)
	}
	pipeline, err := codegen.PipelineFromFile(filepath.Join(dir, c.Config), codegen.Parameters(nil))
	if err != nil {
		res.Outcome, res.Stage, res.Raw = "err", stage, c04Clip(err.Error())
		return
	}
	stage = "run"
	fs, err := pipeline.Run(context.Background())
	if err != nil {
		res.Outcome, res.Stage, res.Raw = "err", stage, c04Clip(err.Error())
		return
	}
	res.Outcome = "ok"
	res.Raw = fmt.Sprintf("files=%d", fs.Len())
}

// c04LoadedIR = Pipeline.LoadSchemas (front-ends, consolidation, common passes) for the case's config
func c04LoadedIR(dir string, c *c04Case) (vir string) {
	defer func() {
		if rec := recover(); rec != nil {
			vir = ""
		}
	}()
	pipeline, err := codegen.PipelineFromFile(filepath.Join(dir, c.Config), codegen.Parameters(nil))
	if err != nil {
		return ""
	}
	schemas, err := pipeline.LoadSchemas(context.Background())
	if err != nil || schemas == nil {
		return ""
	}
	return virSchemas(schemas)
}

func c04Clip(s string) string {
	s = strings.ReplaceAll(strings.ReplaceAll(s, "\n", " "), "\t", " ")
	if len(s) > 300 {
		s = s[:300]
	}
	return s
}

func c04Exec(work string, n int, c *c04Case) c04Result {
	res := c04Result{ID: c.ID}
	switch c.Kind {
	case "run":
		dir := filepath.Join(work, fmt.Sprintf("case%d", n))
		_ = os.RemoveAll(dir)
		_ = os.MkdirAll(dir, 0o755)
		c04RunPipeline(dir, c, &res)
		_ = os.RemoveAll(dir)
	case "ir", "passes-yaml", "veneers-yaml":
		dir := filepath.Join(work, fmt.Sprintf("case%d", n))
		_ = os.MkdirAll(dir, 0o755)
		c04ExecIR(dir, c, &res)
		_ = os.RemoveAll(dir)
	default:
		res.Outcome, res.Raw = "err", "unknown case kind"
	}
	return res
}

func c04SetLimits() {
	// a Go stack overflow is detected at 1 GB by default; 64 MB is the same fatal error, sooner
	debug.SetMaxStack(64 << 20)
	debug.SetMemoryLimit(3 << 30)
	// address-space cap (the `ulimit -v` of the worker): runaway allocation fails instead of
	// taking the machine down
	lim := syscall.Rlimit{Cur: 8 << 30, Max: 8 << 30}
	_ = syscall.Setrlimit(syscall.RLIMIT_AS, &lim)
	// watchdog of the parent: SIGUSR1 = print all goroutines (stop-the-world, so that a goroutine
	// spinning on another thread is printed too) and leave
	ch := make(chan os.Signal, 1)
	signal.Notify(ch, syscall.SIGUSR1)
	go func() {
		<-ch
		buf := make([]byte, 8<<20)
		n := runtime.Stack(buf, true)
		os.Stderr.WriteString("\nC04-WATCHDOG-DUMP\n\n")
		os.Stderr.Write(buf[:n])
		os.Stderr.WriteString("\n\n")
		os.Exit(3)
	}()
}

func init() {
	register("c04-worker", func(args map[string]string, out *bufio.Writer) error {
		c04SetLimits()
		work := args["work"]
		if work == "" {
			return fmt.Errorf("work= is required")
		}
		work = filepath.Join(work, fmt.Sprintf("w%d", os.Getpid()))
		if err := os.MkdirAll(work, 0o755); err != nil {
			return err
		}
		defer os.RemoveAll(work)
		in := bufio.NewReaderSize(os.Stdin, 1<<20)
		n := 0
		for {
			line, err := in.ReadBytes('\n')
			if len(bytes.TrimSpace(line)) > 0 {
				var c c04Case
				if jerr := json.Unmarshal(line, &c); jerr != nil {
					fmt.Fprintf(out, "%s\n", `{"id":"?","outcome":"err","raw":"bad case json"}`)
				} else {
					n++
					res := c04Exec(work, n, &c)
					blob, _ := json.Marshal(res)
					out.Write(blob)
					out.WriteByte('\n')
				}
				out.Flush()
			}
			if err != nil {
				return nil
			}
		}
	})
}
