package main

// VIR: S-expression encoding of cog's IR, the interchange format with the Lean driver
// (lean/Cog/IR/Vir.lean). Hand-written and reflect-free so that every `any` keeps its dynamic
// Go type, nil and empty are not conflated where the model distinguishes them, Go maps are
// emitted key-sorted, and PassesTrail (audit text) is dropped.

import (
	"encoding/json"
	"fmt"
	"sort"
	"strconv"
	"strings"

	"github.com/grafana/cog/internal/ast"
)

func virQuote(s string) string {
	var b strings.Builder
	b.WriteByte('"')
	for _, r := range s {
		switch {
		case r == '"':
			b.WriteString(`\"`)
		case r == '\\':
			b.WriteString(`\\`)
		case r == '\n':
			b.WriteString(`\n`)
		case r == '\t':
			b.WriteString(`\t`)
		case r == '\r':
			b.WriteString(`\r`)
		case r < 32 || r == 127:
			fmt.Fprintf(&b, `\x%02x`, r)
		default:
			b.WriteRune(r)
		}
	}
	b.WriteByte('"')
	return b.String()
}

func virBool(b bool) string {
	if b {
		return "true"
	}
	return "false"
}

func virVal(v any) string {
	switch x := v.(type) {
	case nil:
		return "nil"
	case bool:
		return "(b " + virBool(x) + ")"
	case int64:
		return "(i i64 " + strconv.FormatInt(x, 10) + ")"
	case int:
		return "(i i " + strconv.Itoa(x) + ")"
	case int32:
		return "(i i32 " + strconv.FormatInt(int64(x), 10) + ")"
	case int16:
		return "(i i16 " + strconv.FormatInt(int64(x), 10) + ")"
	case int8:
		return "(i i8 " + strconv.FormatInt(int64(x), 10) + ")"
	case uint64:
		return "(i u64 " + strconv.FormatUint(x, 10) + ")"
	case uint32:
		return "(i u32 " + strconv.FormatUint(uint64(x), 10) + ")"
	case uint16:
		return "(i u16 " + strconv.FormatUint(uint64(x), 10) + ")"
	case uint8:
		return "(i u8 " + strconv.FormatUint(uint64(x), 10) + ")"
	case uint:
		return "(i u " + strconv.FormatUint(uint64(x), 10) + ")"
	case float64:
		return "(f f64 " + virQuote(strconv.FormatFloat(x, 'g', -1, 64)) + ")"
	case float32:
		return "(f f32 " + virQuote(strconv.FormatFloat(float64(x), 'g', -1, 32)) + ")"
	case json.Number:
		return "(jn " + virQuote(string(x)) + ")"
	case string:
		return "(s " + virQuote(x) + ")"
	case []any:
		parts := []string{"l"}
		for _, e := range x {
			parts = append(parts, virVal(e))
		}
		return "(" + strings.Join(parts, " ") + ")"
	case map[string]any:
		keys := make([]string, 0, len(x))
		for k := range x {
			keys = append(keys, k)
		}
		sort.Strings(keys)
		parts := []string{"m"}
		for _, k := range keys {
			parts = append(parts, "("+virQuote(k)+" "+virVal(x[k])+")")
		}
		return "(" + strings.Join(parts, " ") + ")"
	default:
		return "(o " + virQuote(fmt.Sprintf("%T", v)) + " " + virQuote(fmt.Sprintf("%v", v)) + ")"
	}
}

func virMeta(t ast.Type) string {
	keys := make([]string, 0, len(t.Hints))
	for k, v := range t.Hints {
		if _, isDisj := v.(ast.DisjunctionType); isDisj && t.Kind == ast.KindStruct && t.Struct != nil {
			continue // carried by the struct's gen/geninfo components
		}
		keys = append(keys, k)
	}
	sort.Strings(keys)
	parts := []string{"hints"}
	for _, k := range keys {
		parts = append(parts, "("+virQuote(k)+" "+virVal(t.Hints[k])+")")
	}
	return "(meta " + virBool(t.Nullable) + " " + virVal(t.Default) + " (" + strings.Join(parts, " ") + "))"
}

func virPairsHead(head string, m map[string]string) string {
	body := virPairs(m)
	if body == "" {
		return "(" + head + ")"
	}
	return "(" + head + " " + body + ")"
}

func virPairs(m map[string]string) string {
	keys := make([]string, 0, len(m))
	for k := range m {
		keys = append(keys, k)
	}
	sort.Strings(keys)
	parts := []string{}
	for _, k := range keys {
		parts = append(parts, "("+virQuote(k)+" "+virQuote(m[k])+")")
	}
	return strings.Join(parts, " ")
}

func virTypes(head string, ts []ast.Type) string {
	parts := []string{head}
	for _, t := range ts {
		parts = append(parts, virType(t))
	}
	return "(" + strings.Join(parts, " ") + ")"
}

func virStrs(head string, ss []string) string {
	parts := []string{head}
	for _, s := range ss {
		parts = append(parts, virQuote(s))
	}
	return "(" + strings.Join(parts, " ") + ")"
}

func virType(t ast.Type) string {
	m := virMeta(t)
	bad := func() string { return "(bad " + virQuote(string(t.Kind)) + " " + m + ")" }
	switch t.Kind {
	case ast.KindScalar:
		if t.Scalar == nil {
			return bad()
		}
		cs := []string{"cs"}
		for _, c := range t.Scalar.Constraints {
			parts := []string{virQuote(string(c.Op))}
			for _, a := range c.Args {
				parts = append(parts, virVal(a))
			}
			cs = append(cs, "("+strings.Join(parts, " ")+")")
		}
		return "(scalar " + virQuote(string(t.Scalar.ScalarKind)) + " " + virVal(t.Scalar.Value) + " (" + strings.Join(cs, " ") + ") " + m + ")"
	case ast.KindRef:
		if t.Ref == nil {
			return bad()
		}
		return "(ref " + virQuote(t.Ref.ReferredPkg) + " " + virQuote(t.Ref.ReferredType) + " " + m + ")"
	case ast.KindConstantRef:
		if t.ConstantReference == nil {
			return bad()
		}
		return "(cref " + virQuote(t.ConstantReference.ReferredPkg) + " " + virQuote(t.ConstantReference.ReferredType) + " " + virVal(t.ConstantReference.ReferenceValue) + " " + m + ")"
	case ast.KindArray:
		if t.Array == nil {
			return bad()
		}
		return "(array " + virType(t.Array.ValueType) + " " + m + ")"
	case ast.KindMap:
		if t.Map == nil {
			return bad()
		}
		return "(map " + virType(t.Map.IndexType) + " " + virType(t.Map.ValueType) + " " + m + ")"
	case ast.KindStruct:
		if t.Struct == nil {
			return bad()
		}
		fs := []string{"fields"}
		for _, f := range t.Struct.Fields {
			fs = append(fs, "(f "+virQuote(f.Name)+" "+virType(f.Type)+" "+virBool(f.Required)+" "+virStrs("c", f.Comments)+")")
		}
		gen := "(gen)"
		geninfo := "none"
		for _, h := range []string{ast.HintDisjunctionOfScalars, ast.HintDiscriminatedDisjunctionOfRefs} {
			if d, ok := t.Hints[h].(ast.DisjunctionType); ok {
				gen = virTypes("gen", d.Branches)
				geninfo = "(" + virQuote(h) + " " + virQuote(d.Discriminator) + " (" + virPairs(d.DiscriminatorMapping) + "))"
				break
			}
		}
		return "(struct (" + strings.Join(fs, " ") + ") " + gen + " " + geninfo + " " + m + ")"
	case ast.KindEnum:
		if t.Enum == nil {
			return bad()
		}
		vs := []string{"vals"}
		for _, v := range t.Enum.Values {
			kind := "?" + string(v.Type.Kind)
			if v.Type.Kind == ast.KindScalar && v.Type.Scalar != nil {
				kind = string(v.Type.Scalar.ScalarKind)
			}
			vs = append(vs, "("+virQuote(v.Name)+" "+virVal(v.Value)+" "+virQuote(kind)+")")
		}
		return "(enum (" + strings.Join(vs, " ") + ") " + m + ")"
	case ast.KindDisjunction:
		if t.Disjunction == nil {
			return bad()
		}
		return "(disj " + virTypes("branches", t.Disjunction.Branches) + " " + virQuote(t.Disjunction.Discriminator) + " " + virPairsHead("mapping", t.Disjunction.DiscriminatorMapping) + " " + m + ")"
	case ast.KindIntersection:
		if t.Intersection == nil {
			return bad()
		}
		return "(inter " + virTypes("branches", t.Intersection.Branches) + " " + m + ")"
	case ast.KindComposableSlot:
		if t.ComposableSlot == nil {
			return bad()
		}
		return "(slot " + virQuote(string(t.ComposableSlot.Variant)) + " " + m + ")"
	}
	return bad()
}

func virObject(o ast.Object) string {
	return "(obj " + virQuote(o.Name) + " " + virStrs("c", o.Comments) + " " + virType(o.Type) + " " + virQuote(o.SelfRef.ReferredPkg) + " " + virQuote(o.SelfRef.ReferredType) + ")"
}

func virSchema(s *ast.Schema) string {
	objs := []string{"objects"}
	if s.Objects != nil {
		s.Objects.Iterate(func(k string, o ast.Object) {
			objs = append(objs, "("+virQuote(k)+" "+virObject(o)+")")
		})
	}
	return "(schema " + virQuote(s.Package) + " (smeta " + virQuote(string(s.Metadata.Kind)) + " " + virQuote(string(s.Metadata.Variant)) + " " + virQuote(s.Metadata.Identifier) + ") " + virQuote(s.EntryPoint) + " " + virType(s.EntryPointType) + " (" + strings.Join(objs, " ") + "))"
}

func virSchemas(ss ast.Schemas) string {
	parts := []string{"schemas"}
	for _, s := range ss {
		parts = append(parts, virSchema(s))
	}
	return "(" + strings.Join(parts, " ") + ")"
}
