package main

// C04: grammar-directed generator of CUE text for the crash stream (stream `cuegen`).
//
// The testdata-derived seeds and the text mutators only ever put CUE's common field forms in the common
// positions.  This generator draws a schema from the CUE grammar that the front-end (internal/simplecue)
// can meet, with EVERY label form (regular, optional `?`, required `!`, quoted, hidden `_x`, hidden
// definition `_#X`, definition `#X`, pattern constraints, embeddings, `let`, comprehensions, `...`,
// attributes) and every value form (scalar types, bounds, builtins, literals of every spelling, lists of
// every form, maps, `close()`, references, unifications, disjunctions) in EVERY position where a value may
// stand: field type, default branch (`T | *v`, `*v | T`, nested), struct- and list-valued defaults,
// disjunction branches, map value types, list elements, top level.
//
// Each production returns a pair (type text, concrete instance text): the instance is what a default mark
// is put on, so most texts compile and the front-end really walks the default VALUE (the instance of a
// struct type repeats the struct's hidden / optional / definition members and adds some of its own).  A
// share of the texts is deliberately ill-typed (`wild`): those mostly end in a CUE error, which is fine.
// One declaration per line, so that the line shrinker of c04_shrink.go can minimise a failing text.

import (
	"bufio"
	"fmt"
	"sort"
	"strings"

	"cuelang.org/go/cue/cuecontext"
	"cuelang.org/go/cue/parser"
)

type c04CueDef struct {
	name, val string
	isStruct  bool
	field     string // a regular member that can be selected (#D.field), "" if none
}

type c04CueG struct {
	r       *rng
	defs    []c04CueDef
	imports map[string]bool
	n       int
	wild    int // percent of value positions filled without regard to typing
	feats   map[string]bool
}

func (g *c04CueG) feat(f string) { g.feats[f] = true }

func (g *c04CueG) fresh(p string) string {
	g.n++
	return fmt.Sprintf("%s%d", p, g.n)
}

func (g *c04CueG) imp(pkg string) { g.imports[pkg] = true }

var c04CueOddLabels = []string{`"a-b"`, `"1x"`, `"é"`, `"with space"`, `"type"`, `"#notdef"`, `"_nothidden"`, `"a.b"`, `"$ref"`, `"class"`}

// anything, typed or not: used for the `wild` share and for positions whose typing does not matter
var c04CueWild = []string{
	"string", "int", "bool", "bytes", "null", "_", "_|_", "{...}", "[...]", "[]", "{}", "number", "float64", "uint8",
	`"x"`, "1", "-1", "1.5", "0x1F", "0b11", "0o17", "1e3", "1e400", "-1e400", "12345678901234567890123", "1_000", "1Ki", "'by\\x00tes'", `#"raw"#`, "\"\"\"\n\tmulti\n\tline\n\t\"\"\"", "true",
	">=0", "<=1e400", `=~"^a$"`, `!=""`, `!~"^b"`, "int & >=0 & <10", ">0 & <1", "!=null", ">=\"a\"",
	`*"a" | "b"`, `"a" | *"b" | "c"`, "*1 | 2", "string | *null", "*null | string", "int | *\"x\"", "*_|_ | int", "*_ | int",
	"[...string]", "[string, ...]", "[string, int]", "[...{a: int}]", "[1, \"a\", {b: _h: 1}]", "[_, ...]", "[...] | *[1, 2]", "[...string] | *[\"a\"]",
	"{[string]: int}", `{[=~"^a"]: string}`, "{[string]: _}", "{[string]: {[string]: int}}", "close({a: int})", "close({})", "{a: 1, ...}", "{_h: 1}", "{#D: int}", "{_#H: int}", "{a?: int}", "{a!: int}",
	"{a: int} | *{a: 1, _h: 2}", "*{a: 1, #D: 2} | {a: int}", "{a: int} | *{a: 1, b?: 2}", "{a: int} | *{a: 1, b!: 2}", "*{} | {a: int}", "{a: int} | *{a: 1, [string]: int}",
	"{a: int} | *{a: 1, let L = 2, b: L}", "{a: int} | *{a: 1, if true {c: 3}}", "{a: int} | *{for k, v in {x: 1} {\"\\(k)\": v}}", "{a: [...int]} | *{a: [1, 2]}", "{a: {b: int}} | *{a: {b: 1, _c: 2}}",
	"(string | int) & string", "(*\"a\" | string) | (*1 | int)", "*(*\"a\" | \"b\") | \"c\"", "string & \"a\"", "int & 1", "{a: int} & {a: 1}", "{a: int} & {b: string}",
	"len(\"abc\")", "strings.MinRunes(1)", "strings.MaxRunes(0)", "strings.MinRunes(-1)", "strings.MinRunes(1e400)", "list.MaxItems(3)", "list.MinItems(1) & [...int]", "struct.MinFields(1)", "struct.MaxFields(1)", "time.Time", "time.Duration", "string & time.Time", "time.Time | *\"2024-01-01T00:00:00Z\"",
	"math.MaxInt64", "strings.ToUpper(\"a\")", "list.Repeat([1], 3)", "\"\\(1)x\"", "1 + 2", "[for x in [1, 2] {x}]", "{for x in [\"a\"] {(x): 1}}", "{if false {a: 1}}",
}

var c04CueAttrs = []string{
	`@cog(kind="enum",memberNames="a|b")`, `@cuetsy(kind="enum")`, `@cuetsy(kind="enum",memberNames="")`, `@cuetsy(kind="enum",memberNames="a|b|c")`, `@cuetsy(kind="type")`, `@cuetsy(kind="interface")`,
	`@cog()`, `@cog(kind)`, `@cog(kind=)`, `@cog(=x)`, `@cog(kind="enum",kind="type")`, `@cog(kind=enum,memberNames=a|b)`, `@cog(a,b,c)`, `@cog(kind="\"")`, `@cog(kind="enum", memberNames="a|a")`,
	`@cuetsy(kind="enum",memberNames="1|2")`, `@cog(kind="nope")`, `@cog(x=(1,2))`, `@grafanamaturity(NeedsExpertReview)`, `@cog(kind="enum") @cuetsy(kind="type")`, `@go(Name)`, `@cog(memberNames="a|b")`,
}

func (g *c04CueG) attr() string {
	g.feat("attr")
	return pick(g.r, c04CueAttrs)
}

// scalar: (type, instance)
func (g *c04CueG) scalar() (string, string) {
	r := g.r
	switch r.intn(30) {
	case 0:
		return "string", pick(r, []string{`"s"`, `""`, `"a\nb"`, `#"r\a"w"#`, "\"\"\"\n\tml\n\t\"\"\""})
	case 1:
		return "int", pick(r, []string{"3", "0", "-7", "0x1F", "0b101", "0o17", "1_000", "1Ki", "12345678901234567890123"})
	case 2:
		return pick(r, []string{"int64", "int32", "int16", "int8", "uint64", "uint32", "uint16", "uint8", "uint"}), pick(r, []string{"1", "0", "100"})
	case 3:
		return pick(r, []string{"float64", "float32", "float"}), pick(r, []string{"1.5", "0.0", "1e3", "2.5e-3", "1e38"})
	case 4:
		return "number", pick(r, []string{"2", "2.5", "1e400", "-1e400", "0x10"})
	case 5:
		return "bool", pick(r, []string{"true", "false"})
	case 6:
		g.feat("bytes")
		return "bytes", pick(r, []string{"'ab'", "''", `'\x00\xff'`})
	case 7:
		return "null", "null"
	case 8:
		g.feat("top")
		return "_", pick(r, []string{`"any"`, "1", "{a: 1}", "[1]", "null"})
	case 9:
		g.feat("bottom")
		return "_|_", "_|_"
	case 10:
		return "int & >=0 & <100", pick(r, []string{"5", "0", "99"})
	case 11:
		return pick(r, []string{">=0", ">0.5", "<=1e400", ">-1e400", ">=0 & <=1", "<10"}), "1"
	case 12:
		return pick(r, []string{`=~"^a"`, `!=""`, `!~"^b"`, `string & =~"^a"`, `=~"^a" & !="ab"`}), `"abc"`
	case 13:
		g.imp("strings")
		return pick(r, []string{"strings.MinRunes(1)", "strings.MaxRunes(5)", "string & strings.MinRunes(1) & strings.MaxRunes(5)", "strings.MinRunes(0)", "strings.MaxRunes(9223372036854775807)"}), `"abc"`
	case 14:
		g.imp("time")
		g.feat("time")
		return pick(r, []string{"time.Time", "string & time.Time", "time.Duration", "time.Format(\"2006-01-02\")"}), pick(r, []string{`"2024-01-01T00:00:00Z"`, `"1h"`, `"2024-01-01"`})
	case 15:
		return pick(r, []string{"uint8 & <10", "int32 & >=1", "float64 & >=0.5 & <=1.5", "number & >0", "int & !=0", "uint64 & <=18446744073709551615", "int64 & >=-9223372036854775808"}), "1"
	case 16: // constant types, every literal spelling
		g.feat("literal")
		l := pick(r, []string{`"lit"`, "42", "0x1F", "0b101", "0o17", "1e3", "1.5e-3", "12345678901234567890123", "1e400", "-0", "'bytes'", "true", "1_000", "1K", "1Mi", "-1", "0.0", `""`, `"\u00e9"`, `#"r"#`})
		return l, l
	case 17:
		g.feat("enum")
		return pick(r, []string{`"a" | "b" | "c"`, `"a" | "b"`, `"b" | "" | "a"`, `"a-b" | "a_b" | "b"`}), `"b"`
	case 18:
		g.feat("enum")
		return "1 | 2 | 3", "2"
	case 19:
		g.imp("list")
		return pick(r, []string{"list.MaxItems(3)", "list.MinItems(1)", "[...int] & list.MaxItems(3)", "list.UniqueItems()"}), "[1]"
	case 20:
		g.imp("struct")
		return pick(r, []string{"struct.MinFields(1)", "struct.MaxFields(2)", "{...} & struct.MinFields(1)"}), "{a: 1}"
	case 21:
		return pick(r, []string{"string | int", "string | null", "null | int", "bool | string | int", "string | [...string]", "int | {a: int}"}), pick(r, []string{`"u"`, "1"})
	}
	t, v := g.scalar2()
	return t, v
}

func (g *c04CueG) scalar2() (string, string) {
	r := g.r
	switch r.intn(6) {
	case 0:
		return "string", `"s"`
	case 1:
		return "int", "3"
	case 2:
		return "bool", "true"
	case 3:
		return "float64", "1.5"
	case 4:
		return "int64", "4"
	}
	return "string", `"t"`
}

// typ: (type, concrete instance) of depth at most d
func (g *c04CueG) typ(d int) (string, string) {
	r := g.r
	if r.chance(g.wild) {
		g.feat("wild")
		return pick(r, c04CueWild), pick(r, c04CueWild)
	}
	if d <= 0 {
		return g.scalar()
	}
	switch r.intn(20) {
	case 0, 1, 2, 3:
		return g.structT(d-1, false)
	case 4:
		g.feat("close")
		t, v := g.structT(d-1, true)
		return "close(" + t + ")", v
	case 5: // map
		g.feat("map")
		t, v := g.typ(d - 1)
		pat := pick(r, []string{"[string]", "[string]", `[=~"^k"]`, "[_]", `[!=""]`, `["k1" | "k2"]`})
		if r.chance(30) {
			return "{" + pat + ": " + t + "}", "{}"
		}
		return "{" + pat + ": " + t + "}", "{k1: " + v + "}"
	case 6, 7: // lists
		g.feat("list")
		t, v := g.typ(d - 1)
		switch r.intn(8) {
		case 0:
			return "[..." + t + "]", "[" + v + ", " + v + "]"
		case 1:
			return "[..." + t + "]", "[]"
		case 2:
			return "[" + t + ", ...]", "[" + v + "]"
		case 3:
			t2, v2 := g.typ(d - 1)
			return "[" + t + ", " + t2 + "]", "[" + v + ", " + v2 + "]"
		case 4:
			t2, v2 := g.typ(d - 1)
			return "[" + t + ", ..." + t2 + "]", "[" + v + ", " + v2 + "]"
		case 5:
			return "[...]", "[" + v + "]"
		case 6:
			return "[]", "[]"
		}
		return "[..." + t + "]", "[" + v + "]"
	case 8, 9: // reference to a definition
		if len(g.defs) > 0 {
			g.feat("ref")
			df := pick(r, g.defs)
			switch {
			case df.isStruct && df.field != "" && r.chance(20):
				g.feat("selector")
				return df.name + "." + df.field, ""
			case df.isStruct && r.chance(25):
				return df.name + " & {...}", df.val
			case r.chance(15):
				return df.name + " & " + df.name, df.val
			}
			return df.name, df.val
		}
		return g.scalar()
	case 10, 11: // disjunction of types
		g.feat("disjunction")
		t1, v1 := g.typ(d - 1)
		t2, v2 := g.typ(d - 1)
		if r.chance(50) {
			v1 = v2
		}
		if r.chance(25) {
			t3, _ := g.typ(d - 1)
			return t1 + " | " + t2 + " | " + t3, v1
		}
		return t1 + " | " + t2, v1
	case 12, 13, 14, 15: // a default
		t, v := g.typ(d - 1)
		return g.withDefault(t, v, d), v
	case 16: // unification
		g.feat("unify")
		t, v := g.typ(d - 1)
		switch r.intn(4) {
		case 0:
			return t + " & " + t, v
		case 1:
			if v != "" {
				return t + " & " + v, v
			}
		case 2:
			return "(" + t + ")", v
		}
		return t + " & _", v
	}
	return g.scalar()
}

// every spelling of "type t with default v"
func (g *c04CueG) withDefault(t, v string, d int) string {
	r := g.r
	if v == "" {
		return t
	}
	g.feat("default")
	if strings.HasPrefix(v, "{") {
		g.feat("struct-default")
	}
	if strings.HasPrefix(v, "[") {
		g.feat("list-default")
	}
	pt := t
	if strings.Contains(t, " | ") || strings.Contains(t, " & ") {
		pt = "(" + t + ")"
	}
	switch r.intn(9) {
	case 0, 1, 2:
		return pt + " | *" + v
	case 3, 4:
		return "*" + v + " | " + pt
	case 5:
		t2, _ := g.typ(0)
		return "*" + v + " | " + pt + " | " + t2
	case 6:
		g.feat("nested-default")
		t2, _ := g.typ(0)
		return "(" + pt + " | *" + v + ") | " + t2
	case 7:
		g.feat("nested-default")
		return "*(" + pt + " | *" + v + ") | null"
	}
	return pt + " | *" + v + " | null"
}

// structT: a struct type and an instance of it.  Both sides get every label form.
func (g *c04CueG) structT(d int, closed bool) (string, string) {
	r := g.r
	g.feat("struct")
	var tl, vl []string
	addBoth := func(t, v string) {
		tl = append(tl, t)
		if v != "" {
			vl = append(vl, v)
		}
	}
	firstRegular := ""
	nf := 1 + r.intn(4)
	for i := 0; i < nf; i++ {
		t, v := g.typ(d)
		at := ""
		if r.chance(12) || (c04CueEnumish(t) && r.chance(50)) {
			at = " " + g.attr()
		}
		name := g.fresh("f")
		switch r.intn(16) {
		case 0, 1, 2:
			if firstRegular == "" {
				firstRegular = name
			}
			addBoth(name+": "+t+at, c04CueField(name, v))
		case 3, 4:
			g.feat("optional")
			if r.chance(50) {
				addBoth(name+"?: "+t+at, c04CueField(name, v))
			} else {
				addBoth(name+"?: "+t+at, "")
			}
		case 5:
			g.feat("required")
			addBoth(name+"!: "+t+at, c04CueField(name, v))
		case 6:
			g.feat("quoted")
			q := pick(r, c04CueOddLabels)
			addBoth(q+": "+t+at, c04CueField(q, v))
		case 7, 8:
			g.feat("hidden")
			h := "_" + name
			if r.chance(70) {
				addBoth(h+": "+t+at, c04CueField(h, v))
			} else {
				addBoth(h+": "+t+at, "")
			}
		case 9:
			g.feat("hidden-def")
			h := "_#" + strings.ToUpper(name)
			if r.chance(50) {
				addBoth(h+": "+t, c04CueField(h, v))
			} else {
				addBoth(h+": "+t, "")
			}
		case 10, 11:
			g.feat("inner-def")
			dn := "#" + strings.ToUpper(name)
			if r.chance(50) {
				addBoth(dn+": "+t+at, c04CueField(dn, v))
			} else {
				addBoth(dn+": "+t+at, "")
			}
			if r.chance(50) { // and a member that uses the inner definition
				u := g.fresh("f")
				addBoth(u+": "+dn, c04CueField(u, v))
			}
		case 12:
			g.feat("pattern")
			pat := pick(r, []string{`[=~"^z"]`, `[=~"^z"]`, "[string]", `[!~"^f"]`})
			if pat == "[string]" {
				t, v = "_", v
			}
			addBoth(pat+": "+t, c04CueField("z"+name, v))
		case 13:
			g.feat("let")
			l := strings.ToUpper(g.fresh("l"))
			if v == "" {
				v = "1"
			}
			tl = append(tl, "let "+l+" = "+v, name+": "+l)
			vl = append(vl, "let "+l+" = "+v, name+": "+l)
		case 14:
			g.feat("comprehension")
			switch r.intn(3) {
			case 0:
				addBoth("if true {"+name+": "+t+"}", "if true {"+c04CueField(name, v)+"}")
			case 1:
				addBoth("if false {"+name+": "+t+"}", "")
			default:
				src := "{x: " + pick(r, []string{"1", `"s"`, "true"}) + ", y: 2}"
				addBoth("for k, v in "+src+" {\"\\(k)"+name+"\": v}", "for k, v in "+src+" {\"\\(k)"+name+"\": v}")
			}
		case 15:
			structs := []c04CueDef{}
			for _, df := range g.defs {
				if df.isStruct {
					structs = append(structs, df)
				}
			}
			if len(structs) > 0 && !closed {
				g.feat("embed")
				df := pick(r, structs)
				addBoth(df.name, df.val)
			} else {
				addBoth(name+": "+t, c04CueField(name, v))
			}
		}
	}
	if r.chance(15) {
		tl = append(tl, g.attr())
	}
	if r.chance(12) {
		vl = append(vl, g.attr())
	}
	if r.chance(15) {
		tl = append([]string{"// a comment */ {{ .X }} \"\"\""}, tl...)
	}
	if !closed && r.chance(20) {
		g.feat("open")
		tl = append(tl, "...")
	}
	// members of the INSTANCE that the type does not name: hidden members and definitions are
	// exempt from closedness, the rest is only added to open structs
	if r.chance(35) {
		g.feat("hidden")
		vl = append(vl, "_"+g.fresh("p")+": "+pick(r, []string{`"builtin"`, "1", "{a: 1}", "[1]", "null", "string"}))
	}
	if r.chance(20) {
		g.feat("inner-def")
		vl = append(vl, "#"+strings.ToUpper(g.fresh("p"))+": "+pick(r, []string{`"d"`, "1", "{a: 1}", "string", "{a: int}"}))
	}
	if r.chance(12) {
		g.feat("hidden-def")
		vl = append(vl, "_#"+strings.ToUpper(g.fresh("p"))+": "+pick(r, []string{`"d"`, "{a: 1}", "int"}))
	}
	if !closed && r.chance(15) {
		g.feat("optional")
		vl = append(vl, g.fresh("o")+pick(r, []string{"?", "!"})+": "+pick(r, []string{"int", "1", `"s"`, "{a: 1}"}))
	}
	if !closed && r.chance(10) {
		g.feat("pattern")
		vl = append(vl, pick(r, []string{`[=~"^z"]: int`, "[string]: _"}))
	}
	if len(vl) == 0 {
		return "{\n" + strings.Join(tl, "\n") + "\n}", "{}"
	}
	return "{\n" + strings.Join(tl, "\n") + "\n}", "{\n" + strings.Join(vl, "\n") + "\n}"
}

// a disjunction of literals: where the enum attributes matter
func c04CueEnumish(t string) bool {
	return strings.HasPrefix(t, "\"a") || strings.HasPrefix(t, "\"b\" |") || strings.HasPrefix(t, "1 | 2") || strings.HasPrefix(t, "*\"") || strings.HasPrefix(t, "*1 |")
}

func c04CueField(label, v string) string {
	if v == "" {
		return ""
	}
	return label + ": " + v
}

// c04GenCUE: one generated schema text (without the package clause) and the features it uses
func c04GenCUE(r *rng) (string, string) {
	g := &c04CueG{r: r, imports: map[string]bool{}, feats: map[string]bool{}}
	g.wild = []int{0, 0, 3, 8, 20}[r.intn(5)]
	var body []string
	ndecl := 2 + r.intn(4)
	for i := 0; i < ndecl; i++ {
		d := 1 + r.intn(3)
		t, v := g.typ(d)
		isStruct := strings.HasPrefix(t, "{\n") && !strings.Contains(t, "} | ")
		field := ""
		if isStruct {
			for _, l := range strings.Split(t, "\n") {
				if strings.HasPrefix(l, "f") && strings.Contains(l, ": ") && !strings.Contains(strings.SplitN(l, ": ", 2)[0], "?") && !strings.Contains(strings.SplitN(l, ": ", 2)[0], "!") {
					field = strings.SplitN(l, ": ", 2)[0]
					break
				}
			}
		}
		at := ""
		if r.chance(10) || (c04CueEnumish(t) && r.chance(50)) {
			at = " " + g.attr()
		}
		switch k := r.intn(20); {
		case k < 8: // definition
			name := "#" + strings.ToUpper(g.fresh("d"))
			body = append(body, name+": "+t+at)
			g.defs = append(g.defs, c04CueDef{name: name, val: v, isStruct: isStruct, field: field})
		case k < 13: // regular top-level field
			name := pick(r, []string{g.fresh("obj"), g.fresh("Obj"), "corpus", "Corpus"})
			body = append(body, name+": "+t+at)
			if r.chance(30) {
				g.defs = append(g.defs, c04CueDef{name: name, val: v, isStruct: isStruct, field: field})
			}
		case k == 13:
			g.feat("top-hidden")
			name := "_" + g.fresh("h")
			body = append(body, name+": "+t)
			g.defs = append(g.defs, c04CueDef{name: name, val: v, isStruct: isStruct, field: field})
		case k == 14:
			g.feat("top-hidden-def")
			name := "_#" + strings.ToUpper(g.fresh("h"))
			body = append(body, name+": "+t)
			g.defs = append(g.defs, c04CueDef{name: name, val: v, isStruct: isStruct, field: field})
		case k == 15:
			g.feat("top-optional")
			body = append(body, g.fresh("opt")+pick(r, []string{"?", "!"})+": "+t+at)
		case k == 16:
			g.feat("top-quoted")
			body = append(body, pick(r, c04CueOddLabels)+": "+t+at)
		case k == 17:
			g.feat("top-let")
			l := strings.ToUpper(g.fresh("t"))
			if v == "" {
				v = t
			}
			body = append(body, "let "+l+" = "+v, g.fresh("obj")+": "+l)
		case k == 18:
			g.feat("top-pattern")
			body = append(body, pick(r, []string{`[=~"^zz"]`, "[string]"})+": "+pick(r, []string{"_", t}))
		default:
			g.feat("top-misc")
			body = append(body, pick(r, []string{g.attr(), "...", "if true {\n" + g.fresh("obj") + ": " + t + "\n}", "{\n" + g.fresh("obj") + ": " + t + "\n}",
				"for k, v in {a: 1} {\n\"\\(k)" + g.fresh("obj") + "\": " + t + "\n}"}))
		}
	}
	var head []string
	var pkgs []string
	all := strings.Join(body, "\n")
	for _, p := range []string{"list", "math", "strings", "struct", "time"} { // imported iff used (an unused import is an error)
		if strings.Contains(all, p+".") {
			pkgs = append(pkgs, p)
		}
	}
	if r.chance(3) {
		pkgs = append(pkgs, pick(r, []string{"nope.io/x", "encoding/json", "strings"}))
	}
	for _, p := range pkgs {
		head = append(head, "import \""+p+"\"")
	}
	var feats []string
	for f := range g.feats {
		feats = append(feats, f)
	}
	sort.Strings(feats)
	return strings.Join(append(head, body...), "\n") + "\n", strings.Join(feats, ",")
}

// newRng(a) and newRng(b) are the SAME splitmix sequence shifted by b-a steps: streams seeded with small
// neighbouring numbers re-align after a few cases.  Every generated text gets its own generator whose
// start is a scrambled function of (seed, index), i.e. astronomically far from every other one.
func c04CueRng(seed uint64, i int) *rng {
	m := &rng{s: seed*0x100000001B3 + uint64(i)*0xD6E8FEB86659FD93 + 0x632BE59BD9B4E019}
	return newRng(m.next())
}

func c04CueGenCase(seed uint64, i int) *c04Case {
	r := c04CueRng(seed, i)
	text, feats := c04GenCUE(r)
	s := c04Seed{format: "cue", name: "generated", pkg: "corpus", main: "schema.cue"}
	out := c04RandomOut(r)
	if i%4 == 0 {
		out = c04AllOut()
	}
	return c04RunCase(fmt.Sprintf("cuegen/%d", i), "cuegen="+feats, s, map[string][]byte{"schema.cue": []byte(text)}, out)
}

// pinned texts of the grammar: the label forms inside default VALUES, and the value forms in the
// positions the testdata never puts them.  Run in every quick run (part of c04Corpus).
var c04CuePinned = []c04Pinned{
	{name: "cue-struct-default-hidden-optional-definition", format: "cue", text: "#Opts: {\nscheme: string\nfill: string\n_preset: string\nlevel?: int\n#Inner: {a: int}\n}\n" +
		"container: {\nname: string\noptions: #Opts | *{\n_preset: \"builtin\"\nscheme: \"Oranges\"\nfill: \"dark\"\nlevel?: 3\n#Inner: {a: 1}\n_#HD: {b: 2}\n}\n" +
		"inline: {_p: string, s: string, o?: int, r!: int} | *{\n_p: \"builtin\"\ns: \"x\"\no?: 1\nr: 2\n#D: \"d\"\n_#H: 1\nlet L = 1\nl: L\nif true {c: 3}\n}\n}\n"},
	{name: "cue-struct-default-first-and-nested", format: "cue", text: "a: *{\n_h: 1\nx: \"s\"\n} | {x: string}\nb: ({x: string} | *{x: \"s\", _h: {_g: 1}}) | null\nc: *({x: int} | *{x: 1, #Inner2: 2}) | null\n" +
		"dd: {y: {x: string} | *{x: \"s\", _h: 1}} | *{y: {x: \"t\", _k: 2, q?: 1}}\n"},
	{name: "cue-list-default-with-struct-elements", format: "cue", text: "l: [...{x: string, _h?: int}] | *[{x: \"a\", _h: 1}, {x: \"b\", #D: 2, o?: 3}]\nm: [string, ...] | *[\"a\"]\ne: [...] | *[1, {_h: 1}, [{_g: 2}]]\nn: [...[...{a: int}]] | *[[{a: 1, _h: 2}]]\n"},
	{name: "cue-closed-lists", format: "cue", text: "n: [int, string] | *[1, \"a\"]\nclosed: [] | *[]\nt: [{_h: 1}, ...int]\n"},
	{name: "cue-map-values-and-patterns", format: "cue", text: "m: {[string]: {x: string, _h: int, #D: bool} | *{x: \"s\", _h: 1, #D: true}}\np: {[=~\"^a\"]: int, [=~\"^b\"]: string, ab?: _}\n" +
		"q: {[string]: int} | *{a: 1, _h: \"x\"}\nr: {[string]: [...{[string]: _}]}\n[=~\"^zz\"]: {a: int}\n"},
	{name: "cue-label-forms-everywhere", format: "cue", text: "import \"strings\"\nimport \"time\"\n_top: {a: int}\n_#Top: {b: string}\n#D: {\n_top\n_#Top\n\"a-b\": int\n\"1x\"?: string\nreq!: bool\n#In: {c: int}\n_#Hin: {d: int}\nin: #In\n" +
		"let L = \"v\"\nl: L\nif true {cond: strings.MinRunes(1)}\nt: time.Time | *\"2024-01-01T00:00:00Z\"\n...\n}\nuse: #D & {req: true}\nopt?: int\n"},
	{name: "cue-top-level-required-field", format: "cue", text: "req!: string\n"},
	{name: "cue-literals-and-bounds", format: "cue", text: "n: {\nhex: 0x1F\nexp: 1e3\nbig: 12345678901234567890123\nmult: 1Ki\nby: 'a\\x00b'\nbyd: bytes | *'ab'\nnul: null\ntop: _\n" +
		"bnd: int & >=0 & <=18446744073709551615\nfl: >=0.5 | *1.5e3\nbigdef: int | *12345678901234567890123\nnd: null | *null\ntd: _ | *{_h: 1}\n}\n"},
	{name: "cue-bottom-literal", format: "cue", text: "n: {bot: _|_}\n"},
	{name: "cue-bottom-default", format: "cue", text: "n: {d: int | *_|_, e: *_|_ | {_h: 1}}\n"},
	{name: "cue-closed-and-open-structs", format: "cue", text: "#C: close({a: int, _h?: string})\ncc: #C | *{a: 1, _h: \"x\"}\ndd: close({a: int}) | *close({a: 1})\noo: {a: int, ...} | *{a: 1, b: 2, _c: 3, #Inner: 4}\nee: {} | *{}\nff: {...} | *{_only: 1}\n"},
	// fixed in /repo 0643960 (the default naming function panicked in selectorLabel): must end in ok/err (checks/c04.py FIXED_PINNED)
	{name: "cue-ref-to-hidden-field", format: "cue", langs: []string{"go"}, text: "_h: string\na: _h\n"},
	{name: "cue-ref-to-hidden-definition", format: "cue", langs: []string{"go"}, text: "_#H: {a: int}\nb: {c: _#H}\n"},
	{name: "cue-ref-to-comprehension-variable", format: "cue", langs: []string{"go"}, text: "a: {\nfor k, v in {x: 1} {\"\\(k)f\": v}\n}\n"},
	// the input of the finding C04/cue/disjunction-every-branch-equals-default
	{name: "cue-map-default-empty-struct", format: "cue", langs: []string{"typescript"}, text: "obj1: {[string]: int} | *{}\n"},
	// a builtin type the front-end has no special case for: a reference into package `time` that nothing declares
	// (python's fromJSONForType recurses on it: recorded under C04/recursive-type/jenny-stack-overflow)
	{name: "cue-time-duration-python", format: "cue", langs: []string{"python"}, text: "import \"time\"\nobj: {f: time.Duration}\n"},
	{name: "cue-huge-float", format: "cue", text: "n: {\nhuge: 1e400\nneg: -1e400\nfl: >=0.5 | *1e400\n}\n"},
}

// one pinned text per odd attribute (an attribute the front-end rejects ends the run, so they cannot share a file)
var c04CuePinnedAttrs = []string{
	"a: \"x\" | \"y\" @cog(kind)", "a: \"x\" | \"y\" @cog(kind=)", "a: {f: int} @cog()", "a: 1 | 2 @cuetsy(kind=\"enum\",memberNames=\"a|b\") @cog(kind=\"type\")",
	"a: {f: string @cog(=x)\n@cog(a,b,c)\n}", "a: \"x\" | \"y\" | *\"z\" @cuetsy(kind=\"enum\",memberNames=\"a|a|a\")", "a: string @cog(kind=\"enum\")", "a: {_h: 1} @cuetsy(kind=\"enum\")",
	"a: {f: int | *1 @cog(kind=\"enum\",memberNames=\"one\")}", "a: {f: \"x\" | *{_h: \"y\"} @cuetsy(kind=\"enum\")}",
}

func init() {
	c04Corpus = append(c04Corpus, c04CuePinned...)
	for i, t := range c04CuePinnedAttrs {
		c04Corpus = append(c04Corpus, c04Pinned{name: fmt.Sprintf("cue-attribute-odd-%d", i), format: "cue", langs: []string{"go", "typescript"}, text: t + "\n"})
	}
	// c04-cuegen: the generated texts themselves with the verdict of the CUE parser / compiler (generator
	// health: how many texts are syntactically valid, how many compile, which features occur)
	register("c04-cuegen", func(args map[string]string, out *bufio.Writer) error {
		seed := uint64(argInt(args, "seed", 1))
		n := argInt(args, "n", 300)
		syntaxOK, compileOK := 0, 0
		feats := map[string]int{}
		for i := 0; i < n; i++ {
			text, fs := c04GenCUE(c04CueRng(seed, i))
			verdict := "ok"
			func() {
				defer func() {
					if rec := recover(); rec != nil {
						verdict = fmt.Sprintf("cue-panic %v", rec)
					}
				}()
				if _, err := parser.ParseFile("schema.cue", "package corpus\n\n"+text); err != nil {
					verdict = "syntax: " + c04Clip(err.Error())
					return
				}
				syntaxOK++
				if v := cuecontext.New().CompileString("package corpus\n\n" + text); v.Err() != nil {
					verdict = "compile: " + c04Clip(v.Err().Error())
					return
				}
				compileOK++
			}()
			for _, f := range strings.Split(fs, ",") {
				feats[f]++
			}
			if args["texts"] != "" {
				fmt.Fprintf(out, "%d\t%q\t%s\n", i, text, verdict)
			}
		}
		var fl []string
		for f, c := range feats {
			fl = append(fl, fmt.Sprintf("%s:%d", f, c))
		}
		sort.Strings(fl)
		fmt.Fprintf(out, "-\ttexts=%d syntax_ok=%d compile_ok=%d features=%s\tok\n", n, syntaxOK, compileOK, strings.Join(fl, " "))
		return nil
	})
}
