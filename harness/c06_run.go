package main

// C06: running the REAL compiler passes and language chains of /repo on generated IR.
//
// * every pass runs on a deep copy, with panics recovered;
// * a Go stack overflow cannot be recovered, so before each pass the runner refuses inputs on
//   which the resolution helpers of cog recurse forever (alias cycles by bare name inside one
//   schema = Schema.Resolve; cycles through references and disjunction branches by package+name =
//   Schemas.ResolveToType / DisjunctionOfConstantsToEnum).  Refused cases are reported as `cycle`
//   and not compared (that cog hangs on them is property C04's business).

import (
	"fmt"
	"reflect"
	"strings"

	"github.com/grafana/cog/internal/ast"
	"github.com/grafana/cog/internal/ast/compiler"
	"github.com/grafana/cog/internal/jennies/golang"
	"github.com/grafana/cog/internal/jennies/java"
	"github.com/grafana/cog/internal/jennies/php"
	"github.com/grafana/cog/internal/jennies/python"
	"github.com/grafana/cog/internal/jennies/typescript"
)

var c06Langs = []string{"go", "java", "php", "python", "typescript"}

// c06Chain returns fresh pass instances of the language's CompilerPasses()
func c06Chain(lang string) compiler.Passes {
	switch lang {
	case "go":
		return golang.New(golang.Config{}).CompilerPasses()
	case "java":
		return java.New(java.Config{}).CompilerPasses()
	case "php":
		return php.New(php.Config{}).CompilerPasses()
	case "python":
		return python.New(python.Config{}).CompilerPasses()
	case "typescript":
		return typescript.New(typescript.Config{}).CompilerPasses()
	}
	return nil
}

// c06PassName is the protocol name of a pass instance: the Go type name, plus the InlineTypes
func c06PassName(p compiler.Pass) string {
	t := reflect.TypeOf(p)
	for t.Kind() == reflect.Ptr {
		t = t.Elem()
	}
	name := t.Name()
	if in, ok := p.(*compiler.InlineObjectsWithTypes); ok {
		ks := []string{}
		for _, k := range in.InlineTypes {
			ks = append(ks, string(k))
		}
		name += ":" + strings.Join(ks, ",")
	}
	return name
}

var c06AllPasses = []string{
	"AnonymousStructsToNamed", "NotRequiredFieldAsNullableType", "DisjunctionWithNullToOptional",
	"DisjunctionOfConstantsToEnum", "AnonymousEnumToExplicitType", "PrefixEnumValues", "FlattenDisjunctions",
	"DisjunctionOfAnonymousStructsToExplicit", "DisjunctionInferMapping", "UndiscriminatedDisjunctionToAny",
	"DisjunctionToType", "RemoveIntersections", "SanitizeEnumMemberNames",
	"InlineObjectsWithTypes:scalar,array,map,disjunction", "RenameNumericEnumValues",
}

func c06NewPass(name string) compiler.Pass {
	base, arg, _ := strings.Cut(name, ":")
	switch base {
	case "AnonymousStructsToNamed":
		return &compiler.AnonymousStructsToNamed{}
	case "NotRequiredFieldAsNullableType":
		return &compiler.NotRequiredFieldAsNullableType{}
	case "DisjunctionWithNullToOptional":
		return &compiler.DisjunctionWithNullToOptional{}
	case "DisjunctionOfConstantsToEnum":
		return &compiler.DisjunctionOfConstantsToEnum{}
	case "AnonymousEnumToExplicitType":
		return &compiler.AnonymousEnumToExplicitType{}
	case "PrefixEnumValues":
		return &compiler.PrefixEnumValues{}
	case "FlattenDisjunctions":
		return &compiler.FlattenDisjunctions{}
	case "DisjunctionOfAnonymousStructsToExplicit":
		return &compiler.DisjunctionOfAnonymousStructsToExplicit{}
	case "DisjunctionInferMapping":
		return &compiler.DisjunctionInferMapping{}
	case "UndiscriminatedDisjunctionToAny":
		return &compiler.UndiscriminatedDisjunctionToAny{}
	case "DisjunctionToType":
		return &compiler.DisjunctionToType{}
	case "RemoveIntersections":
		return &compiler.RemoveIntersections{}
	case "SanitizeEnumMemberNames":
		return &compiler.SanitizeEnumMemberNames{}
	case "InlineObjectsWithTypes":
		p := &compiler.InlineObjectsWithTypes{}
		if arg != "" {
			for _, k := range strings.Split(arg, ",") {
				p.InlineTypes = append(p.InlineTypes, ast.Kind(k))
			}
		}
		return p
	case "RenameNumericEnumValues":
		return &compiler.RenameNumericEnumValues{}
	}
	return nil
}

// ---- divergence guard ----

// c06HasCycle reports whether cog's resolution helpers can recurse forever on these schemas.
func c06HasCycle(ss ast.Schemas) bool {
	// (1) Schema.Resolve: bare-name alias cycles inside one schema
	for _, s := range ss {
		if s == nil || s.Objects == nil {
			continue
		}
		found := false
		s.Objects.Iterate(func(k string, o ast.Object) {
			seen := map[string]bool{}
			cur := o
			curKey := k
			for cur.Type.Kind == ast.KindRef && cur.Type.Ref != nil {
				if seen[curKey] {
					found = true
					return
				}
				seen[curKey] = true
				n := cur.Type.Ref.ReferredType
				if !s.Objects.Has(n) {
					return
				}
				cur = s.Objects.Get(n)
				curKey = n
			}
		})
		if found {
			return true
		}
	}
	// (2) package+name cycles through references and disjunction branches
	type key struct{ pkg, name string }
	state := map[key]int{} // 1 = on stack, 2 = done
	cyc := false
	var visitObj func(k key)
	var walk func(t ast.Type)
	walk = func(t ast.Type) {
		if cyc {
			return
		}
		switch {
		case t.Kind == ast.KindRef && t.Ref != nil:
			if _, ok := ss.LocateObject(t.Ref.ReferredPkg, t.Ref.ReferredType); ok {
				visitObj(key{t.Ref.ReferredPkg, t.Ref.ReferredType})
			}
		case t.Kind == ast.KindDisjunction && t.Disjunction != nil:
			for _, b := range t.Disjunction.Branches {
				walk(b)
			}
		}
	}
	visitObj = func(k key) {
		switch state[k] {
		case 1:
			cyc = true
			return
		case 2:
			return
		}
		state[k] = 1
		o, _ := ss.LocateObject(k.pkg, k.name)
		walk(o.Type)
		state[k] = 2
	}
	for _, s := range ss {
		if s == nil || s.Objects == nil {
			continue
		}
		s.Objects.Iterate(func(k string, _ ast.Object) {
			visitObj(key{s.Package, k})
		})
	}
	return cyc
}

// ---- running ----

type c06Result struct {
	status  string // ok | err | panic | cycle
	schemas ast.Schemas
	detail  string
}

func (r c06Result) reply() string {
	if r.status == "ok" {
		return "ok " + virSchemas(r.schemas)
	}
	return r.status
}

func c06RunPass(p compiler.Pass, in ast.Schemas) (res c06Result) {
	if c06HasCycle(in) {
		return c06Result{status: "cycle"}
	}
	defer func() {
		if r := recover(); r != nil {
			res = c06Result{status: "panic", detail: fmt.Sprint(r)}
		}
	}()
	out, err := p.Process(ast.Schemas(in).DeepCopy())
	if err != nil {
		return c06Result{status: "err", detail: err.Error()}
	}
	return c06Result{status: "ok", schemas: out}
}

// c06RunChain runs the chain the way compiler.Passes.Process does: ONE deep copy up front, then
// every pass works on what the previous one returned, WITHOUT copying in between (kind pointers
// shared between objects by an earlier pass, e.g. FlattenDisjunctions, stay shared and later
// in-place mutation is observable).  The divergence guard runs before each pass.
// `upto` < 0: the whole chain.
func c06RunChain(passes compiler.Passes, in ast.Schemas, upto int) (res c06Result) {
	cur := ast.Schemas(in).DeepCopy()
	for i, p := range passes {
		if upto >= 0 && i >= upto {
			break
		}
		r := c06RunPassNoCopy(p, cur)
		if r.status != "ok" {
			r.detail = c06PassName(p) + ": " + r.detail
			return r
		}
		cur = r.schemas
	}
	return c06Result{status: "ok", schemas: cur}
}

func c06RunPassNoCopy(p compiler.Pass, in ast.Schemas) (res c06Result) {
	if c06HasCycle(in) {
		return c06Result{status: "cycle"}
	}
	defer func() {
		if r := recover(); r != nil {
			res = c06Result{status: "panic", detail: fmt.Sprint(r)}
		}
	}()
	out, err := p.Process(in)
	if err != nil {
		return c06Result{status: "err", detail: err.Error()}
	}
	return c06Result{status: "ok", schemas: out}
}
