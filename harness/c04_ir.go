package main

// C04 crash stream, IR-level cases (executed inside a worker, see c04_worker.go):
//   kind=ir            generated IR (well-formed or malformed) through compiler passes, the language
//                      chains, FromAST and the full per-language context (chain + builders + veneers
//                      + nil checks)
//   kind=passes-yaml   a YAML compiler-passes document (possibly with malformed `as:` types) loaded
//                      by the real loader, applied to a generated IR, followed by every language chain
//   kind=veneers-yaml  a YAML veneers document loaded by the real loader and applied to the builders
//                      derived from a generated IR

import (
	"fmt"
	"os"
	"path/filepath"
	"sort"
	"strings"

	"github.com/grafana/cog/internal/ast"
	"github.com/grafana/cog/internal/ast/compiler"
	"github.com/grafana/cog/internal/jennies/golang"
	"github.com/grafana/cog/internal/jennies/java"
	"github.com/grafana/cog/internal/jennies/jsonschema"
	"github.com/grafana/cog/internal/jennies/openapi"
	"github.com/grafana/cog/internal/jennies/php"
	"github.com/grafana/cog/internal/jennies/python"
	"github.com/grafana/cog/internal/jennies/typescript"
	"github.com/grafana/cog/internal/languages"
	"github.com/grafana/cog/internal/veneers/rewrite"
	cogyaml "github.com/grafana/cog/internal/yaml"
)

var c04Langs = []string{"go", "java", "php", "python", "typescript", "jsonschema", "openapi"}

func c04Language(name string) languages.Language {
	switch name {
	case "go":
		return golang.New(golang.Config{PackageRoot: "example.com/lab", GenerateEqual: true, GenerateValidate: true, GenerateJSONMarshaller: true, GenerateStrictUnmarshaller: true})
	case "java":
		return java.New(java.Config{GenerateJSONMarshaller: true})
	case "php":
		return php.New(php.Config{GenerateJSONMarshaller: true})
	case "python":
		return python.New(python.Config{GenerateJSONMarshaller: true})
	case "typescript":
		return typescript.New(typescript.Config{})
	case "jsonschema":
		return jsonschema.New(jsonschema.Config{})
	case "openapi":
		return openapi.New(openapi.Config{})
	}
	return nil
}

// the compiler passes that need no configuration, by Go type name
var c04Passes = map[string]func() compiler.Pass{
	"AnonymousStructsToNamed":                 func() compiler.Pass { return &compiler.AnonymousStructsToNamed{} },
	"NotRequiredFieldAsNullableType":          func() compiler.Pass { return &compiler.NotRequiredFieldAsNullableType{} },
	"DisjunctionWithNullToOptional":           func() compiler.Pass { return &compiler.DisjunctionWithNullToOptional{} },
	"DisjunctionOfConstantsToEnum":            func() compiler.Pass { return &compiler.DisjunctionOfConstantsToEnum{} },
	"AnonymousEnumToExplicitType":             func() compiler.Pass { return &compiler.AnonymousEnumToExplicitType{} },
	"PrefixEnumValues":                        func() compiler.Pass { return &compiler.PrefixEnumValues{} },
	"FlattenDisjunctions":                     func() compiler.Pass { return &compiler.FlattenDisjunctions{} },
	"DisjunctionOfAnonymousStructsToExplicit": func() compiler.Pass { return &compiler.DisjunctionOfAnonymousStructsToExplicit{} },
	"DisjunctionInferMapping":                 func() compiler.Pass { return &compiler.DisjunctionInferMapping{} },
	"UndiscriminatedDisjunctionToAny":         func() compiler.Pass { return &compiler.UndiscriminatedDisjunctionToAny{} },
	"DisjunctionToType":                       func() compiler.Pass { return &compiler.DisjunctionToType{} },
	"RemoveIntersections":                     func() compiler.Pass { return &compiler.RemoveIntersections{} },
	"SanitizeEnumMemberNames":                 func() compiler.Pass { return &compiler.SanitizeEnumMemberNames{} },
	"RenameNumericEnumValues":                 func() compiler.Pass { return &compiler.RenameNumericEnumValues{} },
	"InlineObjectsWithTypes": func() compiler.Pass {
		return &compiler.InlineObjectsWithTypes{InlineTypes: []ast.Kind{ast.KindScalar, ast.KindArray, ast.KindMap, ast.KindDisjunction}}
	},
	"InferEntrypoint":                  func() compiler.Pass { return &compiler.InferEntrypoint{} },
	"DataqueryIdentification":          func() compiler.Pass { return &compiler.DataqueryIdentification{} },
	"DisjunctionWithConstantToDefault": func() compiler.Pass { return &compiler.DisjunctionWithConstantToDefault{} },
	"Unspec":                           func() compiler.Pass { return &compiler.Unspec{} },
	"TrimEnumValues":                   func() compiler.Pass { return &compiler.TrimEnumValues{} },
	"PrefixObjectNames":                func() compiler.Pass { return &compiler.PrefixObjectNames{Prefix: "Pre"} },
	"AppendCommentObjects":             func() compiler.Pass { return &compiler.AppendCommentObjects{Comment: "c"} },
}

func c04PassNames() []string {
	names := make([]string, 0, len(c04Passes))
	for n := range c04Passes {
		names = append(names, n)
	}
	sort.Strings(names)
	return names
}

// c04GenIR regenerates the IR of a case: deterministic in (seed, idx, malformed, depth), then the
// deletions recorded by the shrinker ("pkg" | "pkg.Object" | "pkg.Object.field") are applied.
func c04GenIR(c *c04Case) ast.Schemas {
	o := defaultIRGenOpts("")
	o.malformed = c.Malformed
	if c.Depth > 0 {
		o.maxDepth = c.Depth
	}
	r := newRng(c.Seed*1000003 + uint64(c.Idx))
	ss := genSchemas(r, o)
	c04AddDiscriminatedUnion(newRng(c.Seed*7919+uint64(c.Idx)+17), ss)
	return c04ApplyDel(ss, c.Del)
}

// c04AddDiscriminatedUnion: in a third of the IRs, add the shape the discriminator passes are written for —
// a few struct objects sharing constant fields (of every scalar kind, not only strings), and objects /
// fields that are unions of references to them, with or without a declared discriminator and mapping.
func c04AddDiscriminatedUnion(r *rng, ss ast.Schemas) {
	if len(ss) == 0 || !r.chance(34) {
		return
	}
	sch := ss[0]
	constant := func(kind ast.ScalarKind, i int) ast.Type {
		t := ast.NewScalar(kind)
		switch kind {
		case ast.KindString:
			t.Scalar.Value = pick(r, []string{"a", "b", "c", ""}) + fmt.Sprint(i)
		case ast.KindBool:
			t.Scalar.Value = i%2 == 0
		case ast.KindFloat64, ast.KindFloat32:
			t.Scalar.Value = float64(i) + 0.5
		default:
			t.Scalar.Value = int64(i)
		}
		return t
	}
	names := []string{"apiVersion", "enabled", "kind", "type", "v"}
	kinds := []ast.ScalarKind{ast.KindString, ast.KindInt64, ast.KindBool, ast.KindFloat64, ast.KindString, ast.KindUint8}
	// the shared constant fields: name -> scalar kind
	shared := map[string]ast.ScalarKind{}
	for k := 1 + r.intn(3); k > 0; k-- {
		shared[pick(r, names)] = pick(r, kinds)
	}
	var sharedNames []string
	for n := range shared {
		sharedNames = append(sharedNames, n)
	}
	sort.Strings(sharedNames)
	n := 2 + r.intn(2)
	var branches ast.Types
	for i := 0; i < n; i++ {
		var fields []ast.StructField
		for _, fn := range sharedNames {
			f := ast.NewStructField(fn, constant(shared[fn], i))
			f.Required = true
			fields = append(fields, f)
		}
		fields = append(fields, ast.NewStructField("payload", ast.String()))
		name := fmt.Sprintf("Variant%d", i)
		sch.AddObject(ast.NewObject(sch.Package, name, ast.NewStruct(fields...)))
		branches = append(branches, ast.NewRef(sch.Package, name))
	}
	union := ast.NewDisjunction(branches)
	if r.chance(35) {
		union.Disjunction.Discriminator = pick(r, append([]string{"nope"}, sharedNames...))
		if r.chance(50) {
			union.Disjunction.DiscriminatorMapping = map[string]string{}
			for i := range branches {
				union.Disjunction.DiscriminatorMapping[fmt.Sprintf("m%d", i)] = fmt.Sprintf("Variant%d", i)
			}
		}
	}
	if r.chance(50) {
		sch.AddObject(ast.NewObject(sch.Package, "Variants", union))
	} else {
		f := ast.NewStructField("variant", union)
		f.Required = r.chance(50)
		sch.AddObject(ast.NewObject(sch.Package, "Holder", ast.NewStruct(f)))
	}
}

func c04ApplyDel(ss ast.Schemas, del []string) ast.Schemas {
	if len(del) == 0 {
		return ss
	}
	kill := map[string]bool{}
	for _, d := range del {
		kill[d] = true
	}
	out := ast.Schemas{}
	for _, s := range ss {
		if kill[s.Package] {
			continue
		}
		ns := ast.NewSchema(s.Package, s.Metadata)
		ns.EntryPoint, ns.EntryPointType = s.EntryPoint, s.EntryPointType
		s.Objects.Iterate(func(name string, o ast.Object) {
			if kill[s.Package+"."+name] {
				return
			}
			if o.Type.Kind == ast.KindStruct && o.Type.Struct != nil {
				fields := []ast.StructField{}
				for _, f := range o.Type.Struct.Fields {
					if !kill[s.Package+"."+name+"."+f.Name] {
						fields = append(fields, f)
					}
				}
				o.Type.Struct.Fields = fields
			}
			ns.Objects.Set(name, o)
		})
		out = append(out, ns)
	}
	return out
}

// c04DelCandidates lists what the shrinker may delete from an IR, coarse to fine.
func c04DelCandidates(ss ast.Schemas) []string {
	var out []string
	if len(ss) > 1 {
		for _, s := range ss {
			out = append(out, s.Package)
		}
	}
	for _, s := range ss {
		s.Objects.Iterate(func(name string, _ ast.Object) { out = append(out, s.Package+"."+name) })
	}
	for _, s := range ss {
		s.Objects.Iterate(func(name string, o ast.Object) {
			if o.Type.Kind == ast.KindStruct && o.Type.Struct != nil {
				for _, f := range o.Type.Struct.Fields {
					out = append(out, s.Package+"."+name+"."+f.Name)
				}
			}
		})
	}
	return out
}

type c04Sub struct {
	Op      string `json:"op"`
	Outcome string `json:"outcome"`
	Frame   string `json:"frame,omitempty"`
	Msg     string `json:"msg,omitempty"`
	Raw     string `json:"raw,omitempty"`
	Stack   string `json:"stack,omitempty"`
}

// c04RunOp executes one IR-level operation on a private deep copy, panic recovered.
func c04RunOp(op string, ss ast.Schemas, veneers *rewrite.Rewriter) (sub c04Sub) {
	sub.Op = op
	defer func() {
		if rec := recover(); rec != nil {
			var r c04Result
			c04Recovered(&r, rec, op)
			sub.Outcome, sub.Frame, sub.Msg, sub.Raw, sub.Stack = "panic", r.Frame, r.Msg, r.Raw, r.Stack
		}
	}()
	fmt.Fprintf(os.Stdout, "P\t%s\n", op) // progress marker: tells the parent which op a crash belongs to
	in := ast.Schemas(ss.DeepCopy())
	var err error
	switch {
	case strings.HasPrefix(op, "pass:"):
		mk := c04Passes[op[5:]]
		if mk == nil {
			sub.Outcome, sub.Raw = "err", "unknown pass"
			return
		}
		_, err = mk().Process(in)
	case strings.HasPrefix(op, "chain:"):
		_, err = c04Language(op[6:]).CompilerPasses().Process(in)
	case op == "fromast":
		_ = (&ast.BuilderGenerator{}).FromAST(in)
	case strings.HasPrefix(op, "context:"):
		// = codegen.Pipeline.ContextForLanguage with builders on
		lang := c04Language(op[8:])
		var out ast.Schemas
		out, err = lang.CompilerPasses().Process(in)
		if err == nil {
			ctx := languages.Context{Schemas: out}
			ctx.Builders = (&ast.BuilderGenerator{}).FromAST(out)
			if veneers == nil {
				veneers = rewrite.NewRewrite(nil, rewrite.Config{})
			}
			ctx.Builders, err = veneers.ApplyTo(ctx.Schemas, ctx.Builders, lang.Name())
			if err == nil {
				_, err = languages.GenerateBuilderNilChecks(lang, ctx)
			}
		}
	default:
		sub.Outcome, sub.Raw = "err", "unknown op"
		return
	}
	if err != nil {
		sub.Outcome, sub.Raw = "err", c04Clip(err.Error())
	} else {
		sub.Outcome = "ok"
	}
	return
}

func c04ExecIR(dir string, c *c04Case, res *c04Result) {
	var ss ast.Schemas
	func() {
		defer func() {
			if rec := recover(); rec != nil {
				res.Outcome, res.Raw = "err", fmt.Sprintf("generator panic: %v", rec)
			}
		}()
		ss = c04GenIR(c)
	}()
	if res.Outcome != "" {
		return
	}
	res.Extra = virSchemas(ss)
	var ops []string
	var veneers *rewrite.Rewriter
	switch c.Kind {
	case "ir":
		ops = strings.Split(c.Op, ",")
	case "passes-yaml":
		// the real loader, then Passes.Process, then every language's context on the result
		var loaded ast.Schemas
		sub := func() (sub c04Sub) {
			sub.Op = "yaml-passes"
			defer func() {
				if rec := recover(); rec != nil {
					var r c04Result
					c04Recovered(&r, rec, sub.Op)
					sub.Outcome, sub.Frame, sub.Msg, sub.Raw, sub.Stack = "panic", r.Frame, r.Msg, r.Raw, r.Stack
				}
			}()
			fmt.Fprintf(os.Stdout, "P\t%s\n", sub.Op)
			passes, err := cogyaml.NewCompilerLoader().Load(strings.NewReader(c.Yaml))
			if err != nil {
				sub.Outcome, sub.Raw = "err", "load: "+c04Clip(err.Error())
				return
			}
			loaded, err = passes.Process(ss)
			if err != nil {
				sub.Outcome, sub.Raw = "err", c04Clip(err.Error())
				return
			}
			sub.Outcome = "ok"
			return
		}()
		res.Stage = c04SubsJSON([]c04Sub{sub})
		c04Merge(res, sub)
		if sub.Outcome != "ok" {
			return
		}
		ss = loaded
		if c.Lang != "" {
			ops = []string{"context:" + c.Lang}
		} else {
			for _, l := range c04Langs {
				ops = append(ops, "context:"+l)
			}
		}
	case "veneers-yaml":
		path := filepath.Join(dir, "veneers.yaml")
		_ = os.WriteFile(path, []byte(c.Yaml), 0o644)
		sub := func() (sub c04Sub) {
			sub.Op = "yaml-veneers"
			defer func() {
				if rec := recover(); rec != nil {
					var r c04Result
					c04Recovered(&r, rec, sub.Op)
					sub.Outcome, sub.Frame, sub.Msg, sub.Raw, sub.Stack = "panic", r.Frame, r.Msg, r.Raw, r.Stack
				}
			}()
			fmt.Fprintf(os.Stdout, "P\t%s\n", sub.Op)
			rw, err := cogyaml.NewVeneersLoader().RewriterFrom([]string{path}, rewrite.Config{})
			if err != nil {
				sub.Outcome, sub.Raw = "err", "load: "+c04Clip(err.Error())
				return
			}
			veneers = rw
			sub.Outcome = "ok"
			return
		}()
		c04Merge(res, sub)
		if sub.Outcome != "ok" {
			res.Stage = c04SubsJSON([]c04Sub{sub})
			return
		}
		if c.Lang != "" {
			ops = []string{"context:" + c.Lang}
		} else {
			ops = []string{"context:go", "context:python", "context:typescript", "context:java", "context:php"}
		}
	}
	subs := []c04Sub{}
	for _, op := range ops {
		sub := c04RunOp(op, ss, veneers)
		subs = append(subs, sub)
		c04Merge(res, sub)
	}
	res.Stage = c04SubsJSON(subs)
}

// the case-level outcome is the worst sub-outcome; frame/message of the first panic
func c04Merge(res *c04Result, sub c04Sub) {
	rank := map[string]int{"": 0, "ok": 1, "err": 2, "panic": 3}
	if rank[sub.Outcome] > rank[res.Outcome] {
		res.Outcome = sub.Outcome
		if sub.Outcome == "err" {
			res.Raw = sub.Op + ": " + sub.Raw
		}
		if sub.Outcome == "panic" {
			res.Frame, res.Msg, res.Raw, res.Stack = sub.Frame, sub.Msg, sub.Op+": "+sub.Raw, sub.Stack
		}
	}
}

func c04SubsJSON(subs []c04Sub) string {
	parts := make([]string, 0, len(subs))
	for _, s := range subs {
		p := s.Op + "=" + s.Outcome
		if s.Outcome == "panic" {
			p += "@" + s.Frame + "|" + s.Msg
		}
		parts = append(parts, p)
	}
	return strings.Join(parts, ";")
}
