package main

// C06: the implementation-side oracle.  The normal-form predicates of the property, written
// directly over ast.Schemas and independently of the Lean definitions (lean/Cog/NF/Preds.lean);
// each violation carries the path of the offending node in the chain OUTPUT.

import (
	"sort"
	"strconv"
	"strings"

	"github.com/grafana/cog/internal/ast"
	"github.com/grafana/cog/internal/tools"
)

type c06Violation struct {
	conjunct string
	path     string
}

var c06Conjuncts = map[string][]string{
	"go":         {"NoUnion", "EnumsNamed", "StructsNamedOutsideAllOf", "NonRequiredNullable", "NoNullPairUnion", "EnumNames"},
	"java":       {"NoUnion", "EnumsNamed", "StructsNamedOutsideAllOf", "NonRequiredNullable", "NoNullPairUnion"},
	"php":        {"EnumsNamed", "StructsNamedOutsideAllOf", "NonRequiredNullable", "NoNullPairUnion", "EnumNames"},
	"python":     {"StructsNamedOutsideAllOf", "NonRequiredNullable", "NoNullPairUnion", "EnumNames"},
	"typescript": {"EnumNames"},
}

type c06Walker struct {
	lang string
	out  []c06Violation
	want map[string]bool
}

func (w *c06Walker) hit(conjunct, path string) {
	if w.want[conjunct] {
		w.out = append(w.out, c06Violation{conjunct, path})
	}
}

func c06AllDigits(s string) bool {
	if s == "" {
		return false
	}
	for _, r := range s {
		if r < '0' || r > '9' {
			return false
		}
	}
	return true
}

func (w *c06Walker) enumNames(t ast.Type, path string, objName string, top bool) {
	if t.Enum == nil {
		return
	}
	for _, m := range t.Enum.Values {
		switch w.lang {
		case "go":
			// prefixed with the name of the enum OBJECT (anonymous enums are EnumsNamed's business)
			if top && !strings.HasPrefix(m.Name, tools.UpperCamelCase(objName)) {
				w.hit("EnumNames", path+"/member:"+strconv.Quote(m.Name)+":unprefixed")
			}
		case "php":
			if m.Name == "" || m.Name[0] == '-' || m.Name[0] == '+' {
				w.hit("EnumNames", path+"/member:"+strconv.Quote(m.Name)+":unsanitised")
			}
		case "python", "typescript":
			if c06AllDigits(m.Name) {
				w.hit("EnumNames", path+"/member:"+strconv.Quote(m.Name)+":numeric")
			}
		}
	}
}

// walk visits every type position below t.  top: t is the type of an object; inAllOf: below an
// intersection.
func (w *c06Walker) walk(t ast.Type, path string, objName string, top bool, inAllOf bool) {
	switch t.Kind {
	case ast.KindArray:
		if t.Array != nil {
			w.walk(t.Array.ValueType, path+"/elem", objName, false, inAllOf)
		}
	case ast.KindMap:
		if t.Map != nil {
			w.walk(t.Map.IndexType, path+"/index", objName, false, inAllOf)
			w.walk(t.Map.ValueType, path+"/value", objName, false, inAllOf)
		}
	case ast.KindStruct:
		if !top && !inAllOf {
			w.hit("StructsNamedOutsideAllOf", path+"/struct")
		}
		if t.Struct != nil {
			gen := ""
			if t.IsStructGeneratedFromDisjunction() {
				gen = "gen-"
			}
			for _, f := range t.Struct.Fields {
				fp := path + "/" + gen + "field:" + f.Name
				if !f.Required && !f.Type.Nullable {
					kind := string(f.Type.Kind)
					if f.Type.Kind == ast.KindScalar && f.Type.Scalar != nil {
						kind += "(" + string(f.Type.Scalar.ScalarKind) + ")"
					}
					w.hit("NonRequiredNullable", fp+":"+kind)
				}
				w.walk(f.Type, fp, objName, false, inAllOf)
			}
		}
	case ast.KindEnum:
		if !top {
			w.hit("EnumsNamed", path+"/enum")
		}
		w.enumNames(t, path, objName, top)
	case ast.KindDisjunction:
		w.hit("NoUnion", path+"/disj")
		if t.Disjunction != nil {
			bs := t.Disjunction.Branches
			if len(bs) == 2 && (c06IsNull(bs[0]) || c06IsNull(bs[1])) {
				w.hit("NoNullPairUnion", path+"/disj")
			}
			for i, b := range bs {
				w.walk(b, path+"/branch:"+strconv.Itoa(i), objName, false, inAllOf)
			}
		}
	case ast.KindIntersection:
		if t.Intersection != nil {
			for i, b := range t.Intersection.Branches {
				w.walk(b, path+"/allOf:"+strconv.Itoa(i), objName, false, true)
			}
		}
	}
}

func c06IsNull(t ast.Type) bool {
	return t.Kind == ast.KindScalar && t.Scalar != nil && t.Scalar.ScalarKind == ast.KindNull
}

// c06Oracle evaluates NF_lang on the schemas; violations sorted by conjunct order, then path
func c06Oracle(lang string, ss ast.Schemas) []c06Violation {
	w := &c06Walker{lang: lang, want: map[string]bool{}}
	for _, c := range c06Conjuncts[lang] {
		w.want[c] = true
	}
	for _, s := range ss {
		w.walk(s.EntryPointType, "pkg:"+s.Package+"/entrypoint", "", false, false)
		s.Objects.Iterate(func(k string, o ast.Object) {
			w.walk(o.Type, "pkg:"+s.Package+"/obj:"+k, o.Name, true, false)
		})
	}
	order := map[string]int{}
	for i, c := range c06Conjuncts[lang] {
		order[c] = i
	}
	sort.SliceStable(w.out, func(i, j int) bool { return order[w.out[i].conjunct] < order[w.out[j].conjunct] })
	return w.out
}

// c06FailingConjuncts: the distinct failing conjunct names in the language's order
func c06FailingConjuncts(lang string, vs []c06Violation) []string {
	seen := map[string]bool{}
	for _, v := range vs {
		seen[v.conjunct] = true
	}
	out := []string{}
	for _, c := range c06Conjuncts[lang] {
		if seen[c] {
			out = append(out, c)
		}
	}
	return out
}
