package main

// C15: one configured transformation ("step"): its parameters as the user writes them, their
// S-expression (what the Lean driver reads), their YAML (what cog's loader reads), the inverse of
// the S-expression (replay), and the construction of the real compiler.Pass THROUGH
// yaml.CompilerLoader (prefix / append_comment: through the public helpers of package cog).

import (
	"fmt"
	"os"
	"path/filepath"
	"sort"
	"strconv"
	"strings"

	cog "github.com/grafana/cog"
	"github.com/grafana/cog/internal/ast"
	"github.com/grafana/cog/internal/ast/compiler"
	cogyaml "github.com/grafana/cog/internal/yaml"
)

type c15KV struct {
	K string
	V any
}

type c15Step struct {
	Name        string
	S           map[string]string   // scalar string parameters, by YAML key
	L           map[string][]string // string-list parameters, by YAML key
	As          *ast.Type
	HasComments bool
	Comments    []string
	Fields      []ast.StructField
	KVs         []c15KV // defaults / hints, key-sorted
}

var c15YamlNames = []string{"rename_object", "omit", "omit_fields", "add_fields", "add_object", "duplicate_object",
	"retype_object", "retype_field", "fields_set_required", "fields_set_not_required", "fields_set_default",
	"replace_reference", "constant_to_enum", "trim_enum_values", "hint_object", "schema_set_identifier",
	"schema_set_entry_point", "unspec"}
var c15HelperNames = []string{"prefix", "append_comment"}

func c15IsHelper(name string) bool { return name == "prefix" || name == "append_comment" }

// keys in the order they are printed
var c15StrKeys = []string{"from", "to", "object", "as", "field", "package", "identifier", "entry_point", "prefix", "comment"}
var c15ListKeys = []string{"objects", "fields", "omit_fields"}

func (st *c15Step) asIsString() bool { return st.Name == "duplicate_object" }
func (st *c15Step) fieldsAreStrings() bool {
	return st.Name != "add_fields"
}

// ---------- S-expression ----------

func c15VirField(f ast.StructField) string {
	return "(f " + virQuote(f.Name) + " " + c15VirType(f.Type) + " " + virBool(f.Required) + " " + virStrs("c", f.Comments) + ")"
}

func (st *c15Step) paramsSexp() string {
	parts := []string{}
	for _, k := range c15StrKeys {
		if v, ok := st.S[k]; ok {
			parts = append(parts, "("+k+" "+virQuote(v)+")")
		}
	}
	for _, k := range c15ListKeys {
		if k == "fields" && !st.fieldsAreStrings() {
			continue
		}
		if v, ok := st.L[k]; ok {
			parts = append(parts, virStrs(k, v))
		}
	}
	if st.Name == "add_fields" {
		fs := []string{"fields"}
		for _, f := range st.Fields {
			fs = append(fs, c15VirField(f))
		}
		parts = append(parts, "("+strings.Join(fs, " ")+")")
	}
	if st.As != nil {
		parts = append(parts, "(as "+c15VirType(*st.As)+")")
	}
	if st.HasComments {
		parts = append(parts, virStrs("comments", st.Comments))
	}
	if st.Name == "fields_set_default" || st.Name == "hint_object" {
		head := "defaults"
		if st.Name == "hint_object" {
			head = "hints"
		}
		kv := []string{head}
		for _, e := range st.KVs {
			kv = append(kv, "("+virQuote(e.K)+" "+virVal(e.V)+")")
		}
		parts = append(parts, "("+strings.Join(kv, " ")+")")
	}
	return "(" + strings.Join(parts, " ") + ")"
}

func c15StepFromSexp(name string, ps *c15Sx) (*c15Step, error) {
	d := &c15Dec{}
	st := &c15Step{Name: name, S: map[string]string{}, L: map[string][]string{}}
	if ps == nil || !ps.isLst {
		return nil, fmt.Errorf("params must be a list")
	}
	for _, it := range ps.list {
		if !it.isLst || len(it.list) < 1 || it.list[0].isLst || it.list[0].isStr {
			return nil, fmt.Errorf("bad param item")
		}
		k := it.list[0].atom
		rest := it.list[1:]
		switch {
		case k == "as" && name != "duplicate_object":
			if len(rest) != 1 {
				return nil, fmt.Errorf("bad as")
			}
			t := d.ty(rest[0])
			st.As = &t
		case k == "comments":
			st.HasComments = true
			st.Comments = d.strs(rest)
		case k == "fields" && name == "add_fields":
			for _, f := range rest {
				st.Fields = append(st.Fields, d.field(f))
			}
		case k == "defaults" || k == "hints":
			for _, e := range rest {
				if !e.isLst || len(e.list) != 2 {
					return nil, fmt.Errorf("bad kv")
				}
				st.KVs = append(st.KVs, c15KV{d.str(e.list[0]), d.val(e.list[1])})
			}
		case k == "objects" || k == "fields" || k == "omit_fields":
			st.L[k] = d.strs(rest)
		default:
			if len(rest) != 1 {
				return nil, fmt.Errorf("bad scalar param %s", k)
			}
			st.S[k] = d.str(rest[0])
		}
	}
	return st, d.err
}

// ---------- YAML (flow style: JSON-compatible, every string quoted) ----------

func c15YQ(s string) string { return strconv.Quote(s) }

func c15YVal(v any) string {
	switch x := v.(type) {
	case nil:
		return "null"
	case bool:
		return virBool(x)
	case int:
		return strconv.Itoa(x)
	case int64:
		return strconv.FormatInt(x, 10)
	case float64:
		s := strconv.FormatFloat(x, 'f', -1, 64)
		if !strings.Contains(s, ".") {
			s += ".0"
		}
		return s
	case string:
		return c15YQ(x)
	case []any:
		parts := []string{}
		for _, e := range x {
			parts = append(parts, c15YVal(e))
		}
		return "[" + strings.Join(parts, ", ") + "]"
	case map[string]any:
		keys := make([]string, 0, len(x))
		for k := range x {
			keys = append(keys, k)
		}
		sort.Strings(keys)
		parts := []string{}
		for _, k := range keys {
			parts = append(parts, c15YQ(k)+": "+c15YVal(x[k]))
		}
		return "{" + strings.Join(parts, ", ") + "}"
	}
	panic(fmt.Sprintf("c15YVal: value of type %T cannot be written as YAML", v))
}

func c15YStrs(ss []string) string {
	parts := []string{}
	for _, s := range ss {
		parts = append(parts, c15YQ(s))
	}
	return "[" + strings.Join(parts, ", ") + "]"
}

func c15YTypes(ts []ast.Type) string {
	parts := []string{}
	for _, t := range ts {
		parts = append(parts, c15YType(t))
	}
	return "[" + strings.Join(parts, ", ") + "]"
}

func c15YField(f ast.StructField) string {
	parts := []string{"name: " + c15YQ(f.Name), "type: " + c15YType(f.Type), "required: " + virBool(f.Required)}
	if f.Comments != nil {
		parts = append(parts, "comments: "+c15YStrs(f.Comments))
	}
	return "{" + strings.Join(parts, ", ") + "}"
}

// c15YType writes an ast.Type with the key names yaml.v3 derives for the ast structs
// (lower-cased field names unless a yaml tag says otherwise).
func c15YType(t ast.Type) string {
	parts := []string{"kind: " + c15YQ(string(t.Kind))}
	if t.Nullable {
		parts = append(parts, "nullable: true")
	}
	if t.Default != nil {
		parts = append(parts, "default: "+c15YVal(t.Default))
	}
	if t.Hints != nil {
		parts = append(parts, "hints: "+c15YVal(map[string]any(t.Hints)))
	}
	switch {
	case t.Scalar != nil:
		sp := []string{"scalar_kind: " + c15YQ(string(t.Scalar.ScalarKind))}
		if t.Scalar.Value != nil {
			sp = append(sp, "value: "+c15YVal(t.Scalar.Value))
		}
		if len(t.Scalar.Constraints) > 0 {
			cs := []string{}
			for _, c := range t.Scalar.Constraints {
				cs = append(cs, "{op: "+c15YQ(string(c.Op))+", args: "+c15YVal(c.Args)+"}")
			}
			sp = append(sp, "constraints: ["+strings.Join(cs, ", ")+"]")
		}
		parts = append(parts, "scalar: {"+strings.Join(sp, ", ")+"}")
	case t.Ref != nil:
		parts = append(parts, "ref: {referred_pkg: "+c15YQ(t.Ref.ReferredPkg)+", referred_type: "+c15YQ(t.Ref.ReferredType)+"}")
	case t.ConstantReference != nil:
		parts = append(parts, "constantreference: {referred_pkg: "+c15YQ(t.ConstantReference.ReferredPkg)+", referred_type: "+c15YQ(t.ConstantReference.ReferredType)+", reference_value: "+c15YVal(t.ConstantReference.ReferenceValue)+"}")
	case t.Array != nil:
		parts = append(parts, "array: {value_type: "+c15YType(t.Array.ValueType)+"}")
	case t.Map != nil:
		parts = append(parts, "map: {indextype: "+c15YType(t.Map.IndexType)+", valuetype: "+c15YType(t.Map.ValueType)+"}")
	case t.Struct != nil:
		fs := []string{}
		for _, f := range t.Struct.Fields {
			fs = append(fs, c15YField(f))
		}
		parts = append(parts, "struct: {fields: ["+strings.Join(fs, ", ")+"]}")
	case t.Enum != nil:
		vs := []string{}
		for _, v := range t.Enum.Values {
			vs = append(vs, "{type: "+c15YType(v.Type)+", name: "+c15YQ(v.Name)+", value: "+c15YVal(v.Value)+"}")
		}
		parts = append(parts, "enum: {values: ["+strings.Join(vs, ", ")+"]}")
	case t.Disjunction != nil:
		dp := []string{"branches: " + c15YTypes(t.Disjunction.Branches)}
		if t.Disjunction.Discriminator != "" {
			dp = append(dp, "discriminator: "+c15YQ(t.Disjunction.Discriminator))
		}
		if len(t.Disjunction.DiscriminatorMapping) > 0 {
			m := map[string]any{}
			for k, v := range t.Disjunction.DiscriminatorMapping {
				m[k] = v
			}
			dp = append(dp, "discriminator_mapping: "+c15YVal(m))
		}
		parts = append(parts, "disjunction: {"+strings.Join(dp, ", ")+"}")
	case t.Intersection != nil:
		parts = append(parts, "intersection: {branches: "+c15YTypes(t.Intersection.Branches)+"}")
	case t.ComposableSlot != nil:
		parts = append(parts, "composable_slot: {variant: "+c15YQ(string(t.ComposableSlot.Variant))+"}")
	}
	return "{" + strings.Join(parts, ", ") + "}"
}

func (st *c15Step) yaml() string {
	parts := []string{}
	for _, k := range c15StrKeys {
		if v, ok := st.S[k]; ok {
			parts = append(parts, k+": "+c15YQ(v))
		}
	}
	for _, k := range c15ListKeys {
		if k == "fields" && !st.fieldsAreStrings() {
			continue
		}
		if v, ok := st.L[k]; ok {
			parts = append(parts, k+": "+c15YStrs(v))
		}
	}
	if st.Name == "add_fields" {
		fs := []string{}
		for _, f := range st.Fields {
			fs = append(fs, c15YField(f))
		}
		parts = append(parts, "fields: ["+strings.Join(fs, ", ")+"]")
	}
	if st.As != nil {
		parts = append(parts, "as: "+c15YType(*st.As))
	}
	if st.HasComments {
		parts = append(parts, "comments: "+c15YStrs(st.Comments))
	}
	if st.Name == "fields_set_default" || st.Name == "hint_object" {
		m := map[string]any{}
		for _, e := range st.KVs {
			m[e.K] = e.V
		}
		key := "defaults"
		if st.Name == "hint_object" {
			key = "hints"
		}
		parts = append(parts, key+": "+c15YVal(m))
	}
	return "{" + st.Name + ": {" + strings.Join(parts, ", ") + "}}"
}

// ---------- building the real passes ----------

var c15WorkDir = "/verif/.work/c15"

// c15BuildPasses loads all YAML-configurable steps of the sequence from ONE configuration file
// (so that one bad reference fails the whole file, as in cog) and puts the helper passes at
// their positions.
func c15BuildPasses(steps []*c15Step) (compiler.Passes, string, error) {
	docs := []string{}
	for _, st := range steps {
		if !c15IsHelper(st.Name) {
			docs = append(docs, st.yaml())
		}
	}
	text := "passes: [" + strings.Join(docs, ",\n  ") + "]\n"
	var loaded compiler.Passes
	if len(docs) > 0 {
		if err := os.MkdirAll(c15WorkDir, 0o755); err != nil {
			return nil, text, err
		}
		file := filepath.Join(c15WorkDir, fmt.Sprintf("passes_%d.yaml", os.Getpid()))
		if err := os.WriteFile(file, []byte(text), 0o644); err != nil {
			return nil, text, err
		}
		defer os.Remove(file)
		var err error
		loaded, err = cogyaml.NewCompilerLoader().PassesFrom([]string{file})
		if err != nil {
			return nil, text, err
		}
		if len(loaded) != len(docs) {
			return nil, text, fmt.Errorf("loader returned %d passes for %d entries", len(loaded), len(docs))
		}
	}
	out := compiler.Passes{}
	j := 0
	for _, st := range steps {
		switch st.Name {
		case "prefix":
			out = append(out, cog.PrefixObjectsNames(st.S["prefix"]))
		case "append_comment":
			out = append(out, cog.AppendCommentToObjects(st.S["comment"]))
		default:
			out = append(out, loaded[j])
			j++
		}
	}
	return out, text, nil
}
