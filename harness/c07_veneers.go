package main

// C07 with builder veneers configured (what every real pipeline has): the rewriter built from the
// veneer files is created once per Pipeline and shared by all output languages
// (Pipeline.veneers caches it), rules are filtered per language at ApplyTo time. Sibling-language
// independence, input order and unrelated inputs are re-checked with veneer files generated against
// the builders really derived from the inputs (C17's rule generator: every rule kind, selectors that
// hit / miss / differ in case, files for `all`, `go`, `java`).

import (
	"bufio"
	"context"
	"fmt"
	"os"
	"path/filepath"
	"strings"

	"github.com/grafana/cog/internal/ast"
)

func init() {
	register("c07-veneers", func(args map[string]string, out *bufio.Writer) error {
		n := argInt(args, "n", 20)
		seed := argInt(args, "seed", 1)
		tier := args["tier"]
		all := c07Testdata()
		clean := strings.NewReplacer("\n", " ", "\t", " ")
		base := labWorkDir("c07veneers")
		defer os.RemoveAll(base)
		defer func() { c07VeneersDir = "" }()
		byPkg := map[string]c07Input{}
		for _, in := range all {
			byPkg[in.pkg] = in
		}
		// pinned: the two cases on which the rule-data sharing showed (fixed in /repo: "options and assignments
		// added by veneers shared their arguments with the rule itself"); a relapse is a violation
		pinned := []struct {
			pkgs []string
			docs []string
		}{
			{[]string{"op_nested_structs", "op_split_schema"}, []string{
				`{"language":"all","options":[{"add_assignment":{"assignment":{"method":"direct","path":"id","value":{"argument":{"name":"id","type":{"kind":"scalar","nullable":true,"scalar":{"scalar_kind":"string"}}}}},"by_name":"Partial.id"}},{"duplicate":{"as":"dup","by_builder":"Partial.ID"}}],"package":"op_split_schema"}`,
				`{"language":"go","options":[{"rename_arguments":{"as":["y"],"by_name":"Partial.id"}}],"package":"op_split_schema"}`}},
			{[]string{"js_influxdbquery"}, []string{
				`{"language":"all","options":[{"add_assignment":{"assignment":{"method":"direct","path":"value","value":{"argument":{"name":"key","type":{"kind":"scalar","nullable":true,"scalar":{"scalar_kind":"string"}}}}},"by_name":"AdHocVariableFilter.key"}}],"package":"js_influxdbquery"}`,
				`{"language":"go","options":[{"rename_arguments":{"as":["y"],"by_name":"AdHocVariableFilter.key"}}],"package":"js_influxdbquery"}`}},
		}
		for i := -len(pinned); i < n; i++ {
			r := caseRng(seed, i+len(pinned))
			var ins []c07Input
			var pinnedDocs []string
			if i < 0 {
				pc := pinned[i+len(pinned)]
				for _, pk := range pc.pkgs {
					if in, ok := byPkg[pk]; ok {
						ins = append(ins, in)
					}
				}
				if len(ins) != len(pc.pkgs) {
					continue
				}
				pinnedDocs = pc.docs
			} else {
				k := 1 + r.intn(2)
				used := map[string]bool{}
				for len(ins) < k {
					c := pick(r, all)
					if !used[c.pkg] {
						used[c.pkg] = true
						ins = append(ins, c)
					}
				}
			}
			var names []string
			for _, in := range ins {
				names = append(names, in.pkg)
			}
			d := strings.Join(names, "+")
			// builders of the inputs (Go chain), to draw rules that select something
			c07VeneersDir = ""
			var schemas ast.Schemas
			var bs []ast.Builder
			func() {
				defer func() { _ = recover() }()
				p, err := c07Pipeline(ins, []string{"go"}, true)
				if err != nil {
					return
				}
				loaded, err := p.LoadSchemas(context.Background())
				if err != nil {
					return
				}
				langs, err := p.OutputLanguages()
				if err != nil {
					return
				}
				ctx, err := p.ContextForLanguage(langs["go"], loaded)
				if err != nil {
					return
				}
				schemas, bs = ctx.Schemas, ctx.Builders
			}()
			if len(bs) == 0 {
				fmt.Fprintf(out, "-\tveneers-skip %s no-builders\tok\n", d)
				continue
			}
			dir := filepath.Join(base, fmt.Sprintf("v%d", i+len(pinned)))
			_ = os.MkdirAll(dir, 0o755)
			var docs []string
			if pinnedDocs != nil {
				docs = pinnedDocs
				d = "pinned " + d
			} else {
				_, files := genVeneerFiles(r, schemas, bs, tier)
				for _, f := range files {
					docs = append(docs, string(f.doc()))
				}
			}
			for fi, doc := range docs {
				_ = os.WriteFile(filepath.Join(dir, fmt.Sprintf("veneers_%d.yaml", fi)), []byte(doc), 0o644)
			}
			desc := clean.Replace(d + " veneers=" + strings.Join(docs, " ;; "))
			c07VeneersDir = dir
			together, err := c07Run(ins, c07Langs, true)
			if err != nil {
				fmt.Fprintf(out, "-\tveneers-skip %s run-fails %s\tok\n", d, clean.Replace(labFirstLine(err.Error())))
				continue
			}
			verdict := "ok"
			// each builder-capable language alone vs all together
			for _, l := range []string{"go", "python", "typescript", "java", "php"} {
				alone, err := c07Run(ins, []string{l}, true)
				if err != nil {
					verdict = "FAIL language alone fails while all together succeed: " + l + ": " + labFirstLine(err.Error())
					break
				}
				if df := c07Diff(alone, together, func(p string) bool { return strings.HasPrefix(p, l+"/") }); df != "" {
					verdict = "FAIL files of " + l + " differ alone vs with siblings (veneers configured): " + df
					break
				}
			}
			// reversed inputs
			if verdict == "ok" && len(ins) > 1 {
				rev := []c07Input{ins[1], ins[0]}
				ba, err := c07Run(rev, c07Langs, true)
				if err != nil {
					verdict = "FAIL fails in one order of the inputs only: " + labFirstLine(err.Error())
				} else if df := c07Diff(together, ba, func(string) bool { return true }); df != "" {
					verdict = "FAIL reordering inputs of different packages changes files (veneers configured): " + df
				}
			}
			// the same pipeline object run twice (the cached rewriter must not carry state from one run to the next)
			if verdict == "ok" {
				func() {
					defer func() {
						if rec := recover(); rec != nil {
							verdict = fmt.Sprintf("FAIL second Run of the same pipeline panics: %v", rec)
						}
					}()
					p, err := c07Pipeline(ins, c07Langs, true)
					if err != nil {
						return
					}
					first, err1 := p.Run(context.Background())
					second, err2 := p.Run(context.Background())
					if err1 != nil || err2 != nil {
						if (err1 == nil) != (err2 == nil) {
							verdict = "FAIL the same pipeline fails on one of two consecutive runs"
						}
						return
					}
					a, b := map[string]string{}, map[string]string{}
					for _, f := range first.AsFiles() {
						a[f.RelativePath] = string(f.Data)
					}
					for _, f := range second.AsFiles() {
						b[f.RelativePath] = string(f.Data)
					}
					if df := c07Diff(a, b, func(string) bool { return true }); df != "" {
						verdict = "FAIL two consecutive runs of the same pipeline differ: " + df
					}
				}()
			}
			fmt.Fprintf(out, "-\tveneers %s\t%s\n", desc, clean.Replace(verdict))
		}
		return nil
	})
}
