package main

// C08 — shrinking of a failing (source term, document) pair by slicing along the fault path:
// every struct crossed on the way from the root to the fault keeps only the field on the path
// (level 2) or that field plus the required ones (level 1); the document loses the same
// members; definitions that become unreachable are dropped. Candidates are re-run through the
// lab by the check (stream `c08-lab pinned=`) and the smallest one that still fails is kept.
//
// Stream `c08-slice`: in=<file of pinned lines: format \t defs \t kind \t path \t doc>
//   → for each input line the candidate lines (level 2, level 1, original), same format.

import (
	"bufio"
	"fmt"
	"strings"
)

// c08Slice prunes along the path. ok is false when the path cannot be followed.
// Pass 1 collects, per struct crossed, the fields on the path (a recursive struct may be crossed
// several times); pass 2 rewrites the structs; pass 3 prunes the document.
func c08Slice(d0 *Defs, steps0 []c08Step, doc0 JV, keepRequired bool) (*Defs, JV, []c08Step, bool) {
	d := d0.clone()
	doc := doc0.clone()
	steps := append([]c08Step(nil), steps0...)
	keep := map[*Src]map[string]bool{}
	mark := func(s *Src, name string) {
		if keep[s] == nil {
			keep[s] = map[string]bool{}
		}
		if name != "" {
			keep[s][name] = true
		}
	}
	var final *Src
	var walk func(ty *Src, node *JV, i int, skip string) bool
	walk = func(ty *Src, node *JV, i int, skip string) bool {
		for guard := 0; ty != nil && (ty.Kind == SRef || ty.Kind == SNullable) && guard < 100; guard++ {
			if ty.Kind == SNullable {
				ty = ty.Elem
			} else {
				ty = d.lookup(ty.Ref)
			}
		}
		if ty == nil {
			return false
		}
		if ty.Kind == SStruct && skip != "" {
			mark(ty, skip)
		}
		if i == len(steps) {
			final = ty
			return true
		}
		st := steps[i]
		switch ty.Kind {
		case SStruct:
			if st.isIdx {
				return false
			}
			var next *Field
			for k := range ty.Fields {
				if ty.Fields[k].Name == st.key {
					next = &ty.Fields[k]
				}
			}
			if next == nil {
				mark(ty, "")
				final = ty
				return i == len(steps)-1 // undeclared key added at this object
			}
			mark(ty, st.key)
			var child *JV
			if node != nil && node.K == 'o' {
				for k := range node.O {
					if node.O[k].K == st.key {
						child = &node.O[k].V
					}
				}
			}
			return walk(next.Ty, child, i+1, "")
		case SArray:
			if !st.isIdx {
				return false
			}
			var child *JV
			if node != nil && node.K == 'a' && st.idx < len(node.A) {
				node.A = []JV{node.A[st.idx]} // only the element on the path
				steps[i].idx = 0
				child = &node.A[0]
			}
			return walk(ty.Elem, child, i+1, "")
		case SDict:
			key := st.key
			if st.isIdx {
				key = fmt.Sprint(st.idx)
			}
			var child *JV
			if node != nil && node.K == 'o' {
				kept := []JKV{}
				for k := range node.O {
					if node.O[k].K == key {
						kept = append(kept, node.O[k])
					}
				}
				node.O = kept
				if len(kept) > 0 {
					child = &node.O[0].V
				}
			}
			return walk(ty.Elem, child, i+1, "")
		case SOneOfStructs:
			if node == nil || node.K != 'o' {
				return false
			}
			dv, has := node.get(ty.Disc)
			if !has || dv.K != 's' {
				return i >= len(steps)-1
			}
			for _, b := range ty.Branches {
				if b.Tag == dv.S {
					return walk(srcRef(b.Name), node, i, ty.Disc)
				}
			}
			return false
		case SOneOfScalars:
			for _, a := range ty.Alts {
				if node != nil && c08KindFits(d, a, *node) {
					return walk(a, node, i, "")
				}
			}
			return false
		}
		return false
	}
	if !walk(srcRef(d.Root), &doc, 0, "") {
		return nil, JV{}, nil, false
	}
	for s, names := range keep {
		if s == final {
			continue // nothing at or below the faulted node is pruned
		}
		kept := []Field{}
		for _, f := range s.Fields {
			if names[f.Name] || (keepRequired && f.Required) {
				kept = append(kept, f)
			}
		}
		s.Fields = kept
	}
	// discriminator fields of union branches must survive (wf)
	reach := d.reachable()
	items := []Def{}
	for _, it := range d.Items {
		if reach[it.Name] {
			items = append(items, it)
		}
	}
	d.Items = items
	if d.wf() != nil {
		return nil, JV{}, nil, false
	}
	c08PruneDocKeeping(d, srcRef(d.Root), &doc, 0, "zzUndeclared")
	return d, doc, steps, true
}

func c08StepsString(steps []c08Step) string {
	p := []pathEl{}
	for _, s := range steps {
		if s.isIdx {
			p = append(p, pathEl{idx: s.idx, arr: true})
		} else {
			p = append(p, pathEl{key: s.key})
		}
	}
	return pathString(p)
}

func init() {
	register("c08-slice", func(args map[string]string, out *bufio.Writer) error {
		for ln, line := range readLines(args["in"]) {
			f := strings.Split(line, "\t")
			if len(f) != 5 {
				return fmt.Errorf("line %d: 5 fields expected", ln+1)
			}
			d, err := parseDefsSexp(f[1])
			if err != nil {
				return err
			}
			doc, err := parseJV([]byte(f[4]))
			if err != nil {
				return err
			}
			steps, ok := c08ParseJSONPath(f[3])
			if ok {
				for _, keepReq := range []bool{false, true} {
					if d2, doc2, st, ok := c08Slice(d, steps, doc, keepReq); ok {
						fmt.Fprintf(out, "%s\t%s\t%s\t%s\t%s\n", f[0], d2.sexp(), f[2], c08StepsString(st), doc2.json())
					}
				}
			}
			fmt.Fprintln(out, line)
			fmt.Fprintln(out, "--")
		}
		return nil
	})
}


// ---- greedy field removal (for failures without a fault path, i.e. rejected valid documents) ----

func c08StructNodes(d *Defs) []*Src {
	out := []*Src{}
	var walk func(s *Src)
	walk = func(s *Src) {
		if s == nil {
			return
		}
		switch s.Kind {
		case SStruct:
			out = append(out, s)
			for i := range s.Fields {
				walk(s.Fields[i].Ty)
			}
		case SArray, SDict, SNullable:
			walk(s.Elem)
		case SOneOfScalars:
			for _, a := range s.Alts {
				walk(a)
			}
		}
	}
	for i := range d.Items {
		walk(d.Items[i].Ty)
	}
	return out
}

// c08PruneDoc deletes, at every object that is read as a struct, the members that are not declared.
func c08PruneDoc(d *Defs, ty *Src, node *JV, depth int) { c08PruneDocKeeping(d, ty, node, depth, "\x00") }

// c08PruneDocKeeping is c08PruneDoc that never deletes members whose key starts with keepPrefix
// (the injected undeclared key of a fault document).
func c08PruneDocKeeping(d *Defs, ty *Src, node *JV, depth int, keepPrefix string) {
	if node == nil || depth > 40 {
		return
	}
	ty = d.resolve(ty)
	if ty == nil {
		return
	}
	if inner, ok := ty.unwrap(); ok {
		c08PruneDocKeeping(d, inner, node, depth+1, keepPrefix)
		return
	}
	switch ty.Kind {
	case SStruct:
		if node.K != 'o' {
			return
		}
		kept := []JKV{}
		for i := range node.O {
			if strings.HasPrefix(node.O[i].K, keepPrefix) {
				kept = append(kept, node.O[i])
				continue
			}
			for k := range ty.Fields {
				if ty.Fields[k].Name == node.O[i].K {
					c08PruneDocKeeping(d, ty.Fields[k].Ty, &node.O[i].V, depth+1, keepPrefix)
					kept = append(kept, node.O[i])
				}
			}
		}
		node.O = kept
	case SArray:
		if node.K == 'a' {
			for i := range node.A {
				c08PruneDocKeeping(d, ty.Elem, &node.A[i], depth+1, keepPrefix)
			}
		}
	case SDict:
		if node.K == 'o' {
			for i := range node.O {
				c08PruneDocKeeping(d, ty.Elem, &node.O[i].V, depth+1, keepPrefix)
			}
		}
	case SOneOfStructs:
		if node.K == 'o' {
			if dv, ok := node.get(ty.Disc); ok && dv.K == 's' {
				for _, b := range ty.Branches {
					if b.Tag == dv.S {
						c08PruneDocKeeping(d, srcRef(b.Name), node, depth+1, keepPrefix)
					}
				}
			}
		}
	case SOneOfScalars:
		for _, a := range ty.Alts {
			if c08KindFits(d, a, *node) {
				c08PruneDocKeeping(d, a, node, depth+1, keepPrefix)
				return
			}
		}
	}
}

func init() {
	// c08-drop: in=<pinned lines> → per line every candidate obtained by removing one struct
	// field (from the term and from the document), then "--"
	register("c08-drop", func(args map[string]string, out *bufio.Writer) error {
		for ln, line := range readLines(args["in"]) {
			f := strings.Split(line, "\t")
			if len(f) != 5 {
				return fmt.Errorf("line %d: 5 fields expected", ln+1)
			}
			d, err := parseDefsSexp(f[1])
			if err != nil {
				return err
			}
			doc, err := parseJV([]byte(f[4]))
			if err != nil {
				return err
			}
			n := len(c08StructNodes(d))
			for si := 0; si < n; si++ {
				nf := len(c08StructNodes(d)[si].Fields)
				for fi := 0; fi < nf; fi++ {
					d2 := d.clone()
					node := c08StructNodes(d2)[si]
					node.Fields = append(append([]Field{}, node.Fields[:fi]...), node.Fields[fi+1:]...)
					reach := d2.reachable()
					items := []Def{}
					for _, it := range d2.Items {
						if reach[it.Name] {
							items = append(items, it)
						}
					}
					d2.Items = items
					if d2.wf() != nil {
						continue
					}
					doc2 := doc.clone()
					c08PruneDocKeeping(d2, srcRef(d2.Root), &doc2, 0, "zzUndeclared")
					fmt.Fprintf(out, "%s\t%s\t%s\t%s\t%s\n", f[0], d2.sexp(), f[2], f[3], doc2.json())
				}
			}
			fmt.Fprintln(out, "--")
		}
		return nil
	})
}
