package main

// C01, parser soundness (part (b)) for CUE inputs: the tie of the Lean model of the CUE front-end
// (lean/Cog/Front/Cue.lean: `cueFront`), of the validation semantics `cueValid`
// (lean/Cog/Front/CueValid.lean) and of C01_cue_parser_sound_partial to the code.
//
// A case is a CUE text (lab terms rendered by renderCUE, pinned hand-written texts).  The text is built into a
// cue.Value with the calls of codegen.parseCueEntrypoint (load.Instances over an overlay, cuecontext.BuildInstance);
// the VIEW `CV` of that value = the answers of the cue API calls that internal/simplecue/{generator,utils}.go make on
// it (see the header of Cue.lean) is serialised as an S-expression; the REAL simplecue.GenerateAST runs on the same value:
//
//   -                                    \t case <id> kind=… …                     \t ok
//   -                                    \t schema <id> <CUE text, one line (JSON string)> \t ok
//   cuefdef <id> (case "<pkg>" (top ("label" "name" CV)…)) \t ok                    \t ok
//   cuefront <id>                        \t ok <VIR of the real GenerateAST> | err \t ok | FAIL (the pipeline's own load gives another IR)
//   defschemas <id>.fe <VIR>             \t ok                                     \t ok
//   cuefdoc <id> <id>.fe <root> <doc>    \t valid=<bool> doc=<kind>                \t ok
//   -                                    \t skip <id> outside-fragment <reason>    \t ok
//
// `valid` = the CUE library: `#Root.Unify(doc).Validate(cue.Concrete(true), cue.Final())`.
// The encoder REFUSES (outside-fragment) every value form the view does not capture.

import (
	"bufio"
	"context"
	"fmt"
	"os"
	"sort"
	"strconv"
	"strings"

	"cuelang.org/go/cue"
	cueast "cuelang.org/go/cue/ast"
	"cuelang.org/go/cue/cuecontext"
	"cuelang.org/go/cue/format"
	"cuelang.org/go/cue/load"
	cuestrconv "cuelang.org/go/pkg/strconv"
	"github.com/grafana/cog/internal/ast"
	"github.com/grafana/cog/internal/codegen"
	"github.com/grafana/cog/internal/simplecue"
)

type cueEnc struct {
	refuse  string
	nodes   int
	pkg     string
	filePkg string
	root    cue.Value
	used    map[string]int
	refs    map[string]bool
	// the last `attrs` call saw @cog(kind="enum")
	enumHint bool
}

func (e *cueEnc) no(reason string) {
	if e.refuse == "" {
		e.refuse = reason
	}
}

func cueKindName(k cue.Kind) string {
	switch k {
	case cue.BottomKind:
		return "bottom"
	case cue.TopKind:
		return "top"
	case cue.NullKind:
		return "null"
	case cue.BoolKind:
		return "bool"
	case cue.BytesKind:
		return "bytes"
	case cue.StringKind:
		return "string"
	case cue.FloatKind:
		return "float"
	case cue.NumberKind:
		return "number"
	case cue.IntKind:
		return "int"
	case cue.ListKind:
		return "list"
	case cue.StructKind:
		return "struct"
	}
	return "other"
}

func cueOpName(op cue.Op) string {
	switch op {
	case cue.NoOp:
		return "no"
	case cue.AndOp:
		return "and"
	case cue.OrOp:
		return "or"
	case cue.CallOp:
		return "call"
	case cue.SelectorOp:
		return "sel"
	}
	return "op:" + strings.ReplaceAll(op.String(), " ", "_")
}

// cueSelectorLabel = simplecue.selectorLabel (unexported), refusing where it would panic
func (e *cueEnc) selectorLabel(sel cue.Selector) string {
	if sel.Type().ConstraintType() == cue.PatternConstraint {
		return "*"
	}
	switch sel.LabelType() {
	case cue.StringLabel:
		return sel.Unquoted()
	case cue.DefinitionLabel:
		return sel.String()[1:]
	}
	e.no("selector-label-type")
	return ""
}

// cs: the view of a value as `cueConcreteToScalar` reads it
func (e *cueEnc) cs(v cue.Value, depth int) string {
	e.nodes++
	if depth > 30 || e.nodes > 40000 {
		e.no("too-deep-or-too-many-nodes")
		return "(null)"
	}
	switch v.Kind() {
	case cue.NullKind:
		return "(null)"
	case cue.StringKind:
		s, err := v.String()
		if err != nil {
			return "(err)"
		}
		return "(v " + virVal(s) + ")"
	case cue.NumberKind, cue.FloatKind:
		f, err := v.Float64()
		if err != nil {
			return "(err)"
		}
		return "(v " + virVal(f) + ")"
	case cue.IntKind:
		i, err := v.Int64()
		if err != nil {
			return "(err)"
		}
		return "(v " + virVal(i) + ")"
	case cue.BoolKind:
		b, err := v.Bool()
		if err != nil {
			return "(err)"
		}
		return "(v " + virVal(b) + ")"
	case cue.ListKind:
		it, err := v.List()
		if err != nil {
			return "(err)"
		}
		parts := []string{"list"}
		for it.Next() {
			parts = append(parts, e.cs(it.Value(), depth+1))
		}
		return "(" + strings.Join(parts, " ") + ")"
	case cue.StructKind:
		parts := []string{"struct"}
		iter, _ := v.Fields(cue.Optional(true), cue.Definitions(true))
		if iter == nil {
			e.no("fields-iterator-nil")
			return "(null)"
		}
		for iter.Next() {
			parts = append(parts, "("+virQuote(e.selectorLabel(iter.Selector()))+" "+e.cs(iter.Value(), depth+1)+")")
		}
		return "(" + strings.Join(parts, " ") + ")"
	case cue.BottomKind:
		if d, ok := v.Default(); ok {
			return "(bottom (some " + e.cs(d, depth+1) + "))"
		}
		return "(bottom none)"
	}
	return "(errkind)"
}

// appendSplit = simplecue.appendSplit (a copy of cue's encoding/openapi helper; unexported)
func cueAppendSplit(a []cue.Value, splitBy cue.Op, v cue.Value) []cue.Value {
	op, args := v.Expr()
	k := 1
outer:
	for i := 1; i < len(args); i++ {
		for j := 0; j < k; j++ {
			if args[i].Subsume(args[j], cue.Raw()) == nil &&
				args[j].Subsume(args[i], cue.Raw()) == nil {
				continue outer
			}
		}
		args[k] = args[i]
		k++
	}
	args = args[:k]
	if op == cue.NoOp && len(args) == 1 {
		a = append(a, args...)
	} else if op != splitBy {
		a = append(a, v)
	} else {
		for _, v := range args {
			a = cueAppendSplit(a, splitBy, v)
		}
	}
	return a
}

func cueRefPath(v cue.Value) string {
	_, p := v.ReferencePath()
	return p.String()
}

// refPkg: what referenceResolver.PackageForNode(v.Source(), pkg) answers, for the source forms of the fragment
// (no libraries, no import alias): an identifier of the file resolves to the schema package, a selector
// expression `x.Y` to the import name `x` (or the schema package when x is the file's own package name).
func (e *cueEnc) refPkg(v cue.Value) string {
	var walk func(n cueast.Node) string
	resolve := func(alias string) string {
		if alias == e.filePkg {
			return e.pkg
		}
		return alias
	}
	identPkg := func(ident *cueast.Ident) string {
		if ident.Scope == nil {
			return e.pkg
		}
		scope, ok := ident.Scope.(*cueast.File)
		if !ok || len(scope.Decls) == 0 {
			return e.pkg
		}
		p, ok := scope.Decls[0].(*cueast.Package)
		if !ok {
			return e.pkg
		}
		return resolve(p.Name.Name)
	}
	walk = func(n cueast.Node) string {
		switch s := n.(type) {
		case *cueast.SelectorExpr:
			x, ok := s.X.(*cueast.Ident)
			if !ok {
				e.no("ref-source-selector-of-non-ident")
				return ""
			}
			return resolve(x.Name)
		case *cueast.Field:
			if _, ok := s.Value.(*cueast.SelectorExpr); ok {
				return walk(s.Value)
			}
			ident, ok := s.Value.(*cueast.Ident)
			if !ok {
				e.no("ref-source-field-of-non-ident")
				return ""
			}
			return identPkg(ident)
		case *cueast.Ident:
			return identPkg(s)
		case *cueast.Ellipsis:
			if s.Type == nil {
				return e.pkg
			}
			if _, ok := s.Type.(*cueast.SelectorExpr); ok {
				return walk(s.Type)
			}
			return e.pkg
		}
		e.no("ref-source-form")
		return ""
	}
	src := v.Source()
	if src == nil {
		e.no("ref-source-nil")
		return ""
	}
	return walk(src)
}

func (e *cueEnc) syntaxText(v cue.Value) string {
	b, err := format.Node(v.Syntax())
	if err != nil {
		e.no("format-node-error")
		return ""
	}
	return string(b)
}

// docs: the texts of the comment groups `commentsFromCueValue` reads
func (e *cueEnc) docs(v cue.Value) string {
	docs := v.Doc()
	if s, ok := v.Source().(*cueast.Field); ok {
		for _, c := range s.Comments() {
			if !c.Doc && c.Line {
				docs = append(docs, c)
			}
		}
	}
	parts := []string{"docs"}
	for _, cg := range docs {
		parts = append(parts, virQuote(cg.Text()))
	}
	return "(" + strings.Join(parts, " ") + ")"
}

func (e *cueEnc) attrs(v cue.Value) string {
	parts := []string{"attrs"}
	n := 0
	for _, a := range v.Attributes(cue.ValueAttr) {
		if a.Name() != "cog" && a.Name() != "cuetsy" {
			continue
		}
		n++
		args := []string{}
		for i := 0; i < a.NumArgs(); i++ {
			k, val := a.Arg(i)
			args = append(args, "("+virQuote(k)+" "+virQuote(val)+")")
		}
		look := func(key string) string {
			val, found, err := a.Lookup(0, key)
			if err != nil {
				return "(err)"
			}
			if !found {
				return "(none)"
			}
			return "(some " + virQuote(val) + ")"
		}
		parts = append(parts, "(at "+virQuote(a.Name())+" ("+strings.Join(append([]string{"args"}, args...), " ")+") "+look("kind")+" "+look("memberNames")+")")
		e.used["attr:"+a.Name()]++
	}
	if n > 1 {
		e.no("several-cog-attributes")
	}
	e.enumHint = n == 1 && strings.Contains(parts[1], `(some "enum")`)
	// `v.Attribute(name)` (extractEnumValues) must agree with the scan of Attributes(ValueAttr)
	if n == 1 {
		a := v.Attribute("cog")
		if a.Err() != nil {
			a = v.Attribute("cuetsy")
		}
		if a.Err() != nil {
			e.no("attribute-lookup-differs-from-scan")
		}
	} else {
		a1, a2 := v.Attribute("cog"), v.Attribute("cuetsy")
		if a1.Err() == nil || a2.Err() == nil {
			e.no("attribute-lookup-differs-from-scan")
		}
	}
	return "(" + strings.Join(parts, " ") + ")"
}

func (e *cueEnc) cv(v cue.Value, depth int) string {
	e.nodes++
	if depth > 24 || e.nodes > 40000 {
		e.no("too-deep-or-too-many-nodes")
		return "(cv)"
	}
	ik := v.IncompleteKind()
	ikn := cueKindName(ik)
	op, args := v.Expr()
	opn := cueOpName(op)
	e.used["ikind:"+ikn]++
	e.used["op:"+opn]++
	out := []string{"cv"}
	enumOK := ik&(cue.StringKind|cue.IntKind) == ik
	out = append(out, "(i "+ikn+" "+cueKindName(v.Kind())+" "+opn+" "+strconv.Itoa(len(args))+" "+virBool(enumOK)+" "+virBool(ik&cue.FloatKind != 0)+")")
	refPath := cueRefPath(v)
	if refPath != "" {
		e.used["reference"]++
		root, p := v.ReferencePath()
		sels := p.Selectors()
		// the guard at the top of declareReference (fixes 0643960, 81c841c): the LAST selector must be nameable
		// (a pattern constraint, a regular field or a definition)
		bad := false
		if len(sels) != 0 {
			last := sels[len(sels)-1]
			if lt := last.LabelType(); last.Type().ConstraintType() != cue.PatternConstraint && lt != cue.StringLabel && lt != cue.DefinitionLabel {
				bad = true
			}
		}
		if bad {
			e.used["reference-to-hidden-or-local"]++
			out = append(out, "(ref "+virQuote(refPath)+" \"\" \"\" true)")
		} else {
			name := e.selectorLabel(sels[len(sels)-1])
			pkg := e.refPkg(v)
			out = append(out, "(ref "+virQuote(refPath)+" "+virQuote(name)+" "+virQuote(pkg)+" false)")
			if pkg == e.pkg {
				if len(sels) != 1 || !root.LookupPath(p).Exists() {
					e.no("reference-not-to-a-top-level-field")
				}
				e.refs[refPath] = true
			}
		}
	}
	// Default()
	if d, ok := v.Default(); ok {
		out = append(out, "(dflt "+e.cs(d, depth+1)+" "+virQuote(cueRefPath(d))+" "+virBool(d.Equals(v))+")")
		e.used["default"]++
	} else if ikn == "list" {
		d, _ := v.Default()
		out = append(out, "(ldflt "+virBool(d.Equals(v))+")")
	}
	scal := "(null)"
	switch ikn {
	case "bool", "bytes", "string", "int", "float", "number":
		// the only kinds whose own value the generator converts (scalarTypeOptions, declareNumber, enum members)
		scal = e.cs(v, depth+1)
	}
	out = append(out, "(conc "+virBool(v.IsConcrete())+" "+scal+")")
	out = append(out, e.attrs(v), e.docs(v))
	enumHint := e.enumHint
	if len(args) == 2 {
		eq := args[0].Equals(args[1])
		sub := args[1].Subsume(args[0]) == nil && args[0].Subsume(args[1]) == nil
		out = append(out, "(pair "+virBool(eq)+" "+virBool(sub)+" "+virQuote(cueRefPath(args[0]))+")")
	}
	ors := []string{"orsplit"}
	for _, b := range cueAppendSplit(nil, cue.OrOp, v) {
		ors = append(ors, virBool(b.IsConcrete()))
	}
	out = append(out, "("+strings.Join(ors, " ")+")")
	if refPath != "" {
		// declareNode stops at declareReference: nothing below is read
		return "(" + strings.Join(out, " ") + ")"
	}
	if op == cue.AndOp || op == cue.OrOp {
		d, hasD := v.Default()
		parts := []string{"args"}
		for _, a := range args {
			eqd := hasD && a.Equals(d)
			parts = append(parts, "(arg "+virBool(eqd)+" "+e.cv(a, depth+1)+")")
		}
		out = append(out, "("+strings.Join(parts, " ")+")")
	} else if len(args) == 2 && v.Kind() == cue.BottomKind && ik == cue.StructKind {
		e.no("two-operands-under-" + opn)
	} else if enumHint {
		// extractEnumValues reads IsConcrete / cueConcreteToScalar of the operands of any expression
		parts := []string{"args"}
		for _, a := range args {
			ak := a.IncompleteKind()
			parts = append(parts, "(arg false (cv (i "+cueKindName(ak)+" "+cueKindName(a.Kind())+" lite 0 false false) (conc "+virBool(a.IsConcrete())+" "+e.cs(a, depth+1)+")))")
		}
		out = append(out, "("+strings.Join(parts, " ")+")")
	}
	if op == cue.OrOp && len(args) > 1 {
		// declareNode goes to declareDisjunction: the kind switch is not reached
		return "(" + strings.Join(out, " ") + ")"
	}
	switch ikn {
	case "string":
		conj := cueAppendSplit(nil, cue.AndOp, v)
		parts := []string{"andsplit"}
		for _, c := range conj {
			cop, cargs := c.Expr()
			name, arg := "", "(null)"
			if cop == cue.CallOp && len(cargs) >= 2 {
				name = fmt.Sprint(cargs[0])
				arg = e.cs(cargs[1], depth+1)
			} else if cop == cue.CallOp {
				e.no("call-with-less-than-two-operands")
			}
			parts = append(parts, "(c "+cueOpName(cop)+" "+virQuote(name)+" "+arg+" "+virQuote(cueRefPath(c))+" "+virBool(c.IsConcrete())+" "+e.cs(c, depth+1)+")")
			if cueRefPath(c) != "" {
				e.no("string-conjunct-is-a-reference")
			}
		}
		out = append(out, "("+strings.Join(parts, " ")+")")
	case "int", "float", "number":
		syn := e.syntaxText(v)
		cv := v
		if _, hasD := v.Default(); hasD {
			_, dv := v.Expr()
			if len(dv) == 0 {
				e.no("number-with-default-without-operands")
			} else {
				cv = dv[0]
			}
		}
		csyn := e.syntaxText(cv)
		lits := []string{"lits"}
		for _, part := range strings.Split(csyn, " & ") {
			if part == "" || (part[0] != '<' && part[0] != '>') {
				continue
			}
			if len(part) < 2 {
				e.no("one-character-bound")
				continue
			}
			t := part[1:]
			if t[0] == '=' {
				t = t[1:]
			}
			if f, err := cuestrconv.ParseFloat(t, 64); err == nil {
				lits = append(lits, "("+virQuote(t)+" "+virVal(f)+")")
			}
		}
		out = append(out, "(num "+virQuote(syn)+" "+virQuote(csyn)+" "+virBool(cv.IncompleteKind()&cue.FloatKind != 0)+" ("+strings.Join(lits, " ")+"))")
	case "list":
		allows := v.Allows(cue.AnyIndex)
		lv := v
		if d, _ := v.Default(); !d.Equals(v) {
			_, dv := v.Expr()
			if len(dv) == 0 {
				e.no("list-with-default-without-operands")
			} else {
				lv = dv[0]
			}
		}
		el := "none"
		if allows {
			if x := lv.LookupPath(cue.MakePath(cue.AnyIndex)); x.Exists() {
				el = "(some " + e.cv(x, depth+1) + ")"
			}
		}
		out = append(out, "(lst "+virBool(allows)+" "+el+")")
	case "struct":
		ev := v.Eval()
		eop, _ := ev.Expr()
		as := ev.LookupPath(cue.MakePath(cue.AnyString))
		hasF := false
		if ev.IncompleteKind() == cue.StructKind {
			if it, _ := ev.Fields(cue.Optional(true), cue.Definitions(true)); it != nil && it.Next() {
				hasF = true
			}
		}
		asv := "none"
		if eop == cue.NoOp && as.Exists() && !hasF {
			asv = "(some " + e.cv(as, depth+1) + ")"
		}
		out = append(out, "(anystr "+cueOpName(eop)+" "+virBool(as.Exists())+" "+virBool(hasF)+" "+asv+")")
		if asv == "none" {
			parts := []string{"fields"}
			it, _ := v.Fields(cue.Optional(true), cue.Definitions(true))
			if it == nil {
				e.no("fields-iterator-nil")
			} else {
				for it.Next() {
					parts = append(parts, "(f "+virQuote(e.selectorLabel(it.Selector()))+" "+virBool(it.Selector().IsDefinition())+" "+virBool(it.IsOptional())+" "+e.cv(it.Value(), depth+1)+")")
				}
			}
			out = append(out, "("+strings.Join(parts, " ")+")")
		}
	}
	return "(" + strings.Join(out, " ") + ")"
}

func cueEncodeCase(pkg string, val cue.Value) (string, string, map[string]int) {
	e := &cueEnc{pkg: pkg, root: val, used: map[string]int{}, refs: map[string]bool{}}
	if f, ok := val.Source().(*cueast.File); ok {
		for _, d := range f.Decls {
			if p, ok := d.(*cueast.Package); ok {
				e.filePkg = p.Name.String()
			}
		}
	}
	if len(val.Path().Selectors()) != 0 {
		return "", "root-value-with-a-path", e.used
	}
	it, err := val.Fields(cue.Definitions(true))
	if err != nil {
		return "", "", e.used // GenerateAST returns the same error
	}
	top := []string{"top"}
	labels := map[string]bool{}
	for it.Next() {
		sels := it.Value().Path().Selectors()
		if len(sels) == 0 {
			e.no("top-level-field-without-path")
			break
		}
		name := e.selectorLabel(sels[len(sels)-1])
		labels[it.Selector().String()] = true
		top = append(top, "("+virQuote(it.Selector().String())+" "+virQuote(name)+" "+e.cv(it.Value(), 0)+")")
	}
	for r := range e.refs {
		if !labels[r] {
			e.no("reference-not-to-a-top-level-field")
		}
	}
	if e.refuse != "" {
		return "", e.refuse, e.used
	}
	return "(case " + virQuote(pkg) + " (" + strings.Join(top, " ") + "))", "", e.used
}

// cueLoadLikePipeline: the calls of codegen.parseCueEntrypoint on a one-file package
func cueLoadLikePipeline(text, pkg string) (v cue.Value, err error) {
	defer func() {
		if rec := recover(); rec != nil {
			err = fmt.Errorf("PANIC in loader: %v", rec)
		}
	}()
	overlay := map[string]load.Source{
		"/cog/vfs/cue.mod/pkg/github.com/cog-vfs/" + pkg + "/schema.cue": load.FromString(text),
		"/cog/vfs/cue.mod/module.cue": load.FromString("language: {\n\tversion: \"v0.10.1\"\n}\nmodule: \"cog.vfs\"\n"),
	}
	bis := load.Instances([]string{"github.com/cog-vfs/" + pkg}, &load.Config{Overlay: overlay, Dir: "/cog/vfs"})
	if len(bis) == 0 {
		return cue.Value{}, fmt.Errorf("no instance")
	}
	if bis[0].Err != nil {
		return cue.Value{}, bis[0].Err
	}
	value := cuecontext.New().BuildInstance(bis[0])
	if err := value.Err(); err != nil {
		return cue.Value{}, err
	}
	return value, nil
}

func cueRealGenerateAST(v cue.Value, pkg string) (sch *ast.Schema, err error) {
	defer func() {
		if rec := recover(); rec != nil {
			err = fmt.Errorf("PANIC: %v", rec)
		}
	}()
	return simplecue.GenerateAST(v, simplecue.Config{Package: pkg})
}

func cuePipelineLoad(dir, pkg string) (ss ast.Schemas, err error) {
	defer func() {
		if rec := recover(); rec != nil {
			err = fmt.Errorf("PANIC: %v", rec)
		}
	}()
	in := codegen.Input{Cue: &codegen.CueInput{Entrypoint: dir, Package: pkg}}
	return in.LoadSchemas(context.Background())
}

type frontCuePinned struct {
	ID, Text, Root string
	Docs           []string
}

var c01FrontCuePinned = []frontCuePinned{
	{"cuepinscalars", `
// the root
#R: {
	// a string
	s: string
	os?: string & strings.MinRunes(1) & strings.MaxRunes(3)
	b: bool
	i: int
	i8?: int8
	i32: int32 & >=1 & <=5
	i64?: int64 & >0 & <10
	u8?: uint8
	u?: uint
	u64?: uint64 & <=100
	f?: float
	f32?: float32
	f64?: float64 & >=0.5
	n?: number
	by?: bytes
	any?: _
	nul?: null
	t?: time.Time
	ds: string | *"ab"
	di: int64 | *3
	db: bool | *true
	df?: float64 | *1.5
	sd?: *"x" | string
	cs: "const"
	ci: 7
	cb: true
	cf: 1.5
}`, "R", []string{`{"s":"a","b":true,"i":1,"i32":2,"ds":"q","di":4,"db":false,"cs":"const","ci":7,"cb":true,"cf":1.5}`,
		`{"s":"a","b":true,"i":9223372036854775808,"i32":2,"ds":"q","di":4,"db":false,"cs":"const","ci":7,"cb":true,"cf":1.5}`,
		`{"s":"a","b":true,"i":1,"i32":6,"ds":"q","di":4,"db":false,"cs":"const","ci":7,"cb":true,"cf":1.5}`,
		`{"s":1,"b":true,"i":1,"i32":2,"ds":"q","di":4,"db":false,"cs":"const","ci":7,"cb":true,"cf":1.5}`,
		`{"b":true,"i":1,"i32":2,"ds":"q","di":4,"db":false,"cs":"const","ci":7,"cb":true,"cf":1.5}`,
		`{"s":"a","b":true,"i":1,"i32":2,"ds":"q","di":4,"db":false,"cs":"const","ci":7,"cb":true,"cf":1.5,"i64":10}`,
		`{"s":"a","b":true,"i":1,"i32":2,"ds":"q","di":4,"db":false,"cs":"const","ci":7,"cb":true,"cf":1.5,"i64":9,"u8":255,"f64":0.5,"os":"abc","x":1}`,
		`{"s":"a","b":true,"i":1,"i32":2,"ds":"q","di":4,"db":false,"cs":"const","ci":7,"cb":true,"cf":1.5,"f":1}`,
		`{"s":"a","b":true,"i":1.0,"i32":2,"ds":"q","di":4,"db":false,"cs":"const","ci":7,"cb":true,"cf":1.5,"n":1}`}},
	{"cuepincollections", `
#R: {
	l: [...string]
	li?: [...(int32 & >=0)]
	ll?: [...[...#P]]
	m?: {[string]: number}
	mr?: {[string]: #P}
	open?: {...}
	empty?: {}
	in: {
		q: bool
		w?: [...float64]
	}
	p?: #P
	np?: null | #P
	ns?: null | string
	nl?: null | [...string]
}
#P: {
	x: int64
	next?: #P
}
#Unused: {a: string}
`, "R", []string{`{"l":[],"in":{"q":true}}`, `{"l":["a"],"li":[1],"ll":[[{"x":1,"next":{"x":2}}],[]],"m":{"a":1.5},"mr":{"k":{"x":3}},"in":{"q":false,"w":[1.5]},"np":null,"ns":null,"nl":null}`,
		`{"l":[1],"in":{"q":true}}`, `{"l":[],"in":{}}`, `{"l":[],"in":{"q":true,"z":1}}`, `{"l":[],"in":{"q":true},"p":{"x":1,"y":2}}`, `{"l":[],"in":{"q":true},"li":[-1]}`,
		`{"l":[],"in":{"q":true},"open":{"a":1}}`, `{"l":[],"in":{"q":true},"p":null}`, `{"l":null,"in":{"q":true}}`}},
	{"cuepinenums", `
#R: {
	es: "a" | "b c"
	esd?: *"a" | "b"
	esd2?: "a" | *"b"
	ei?: 1 | 2 | 3 @cog(kind="enum",memberNames="One|Two|Three")
	er?: #E
	erd?: #E & (*"asc" | _)
	u?: string | int64
	ur?: #A | #B
	nu?: null | "x" | "y"
}
// sort order
#E: "asc" | "desc"
#EI: 10 | 20 @cog(kind="enum",memberNames="Ten|Twenty")
#A: {kind: "a", v?: int64}
#B: {kind: "b"}
`, "R", []string{`{"es":"a"}`, `{"es":"c"}`, `{"es":"b c","esd":"b","ei":2,"er":"desc","u":1,"ur":{"kind":"b"}}`, `{"es":"a","ei":4}`, `{"es":"a","er":"up"}`, `{"es":"a","u":true}`}},
	{"cuepinaliases", `
#R: {
	n: #Name
	c?: #Count
	a?: #Alias
	tags?: #Tags
	d?: #Dict
	when?: #When
	any?: #Anything
}
#Name: string
#Count: int64 & >=0
#Alias: #Name
#Tags: [...string]
#Dict: {[string]: int64}
#When: time.Time
#Anything: _
plain: {x: string}
`, "R", []string{`{"n":"a"}`, `{"n":"a","c":0,"a":"z","tags":["t"],"d":{"a":1},"when":"2021-05-06T07:08:09Z","any":{"x":[1]}}`, `{"n":1}`, `{"n":"a","c":-1}`}},
	// inside FragCue: every class of the fragment
	{"cuepinfrag", `
// the root
#R: {
	name: string
	code?: string & strings.MinRunes(2) & strings.MaxRunes(4)
	flag: bool
	n: int32 & >=1 & <=10
	big?: int64 & >0
	u?: uint8
	r?: float64 & >=0.5
	any?: _
	when?: time.Time
	mode?: #M
	kind: "fixed"
	seven?: 7
	on?: true
	nn?: null | string
	nr?: null | #P
	ne?: null | #M
	tags?: [...string]
	pts?: [...#P]
	dict?: {[string]: int64}
	in: {
		q: bool
		w?: [...float64]
	}
	next?: #R
	inline?: "x" | "y"
}
#M: "asc" | "desc"
#P: {
	x: int64
	y?: null | float64
}
#Count: int64 & >=0
`, "R", []string{`{"name":"a","flag":true,"n":1,"kind":"fixed","in":{"q":true}}`,
		`{"name":"a","flag":true,"n":10,"kind":"fixed","in":{"q":true,"w":[1.5]},"code":"abc","big":9007199254740993,"u":255,"r":0.5,"any":{"z":[1,null]},"when":"2021-05-06T07:08:09Z","mode":"desc","seven":7,"on":true,"nn":null,"nr":{"x":1,"y":null},"ne":null,"tags":["t"],"pts":[{"x":2,"y":2.5}],"dict":{"k":3},"next":{"name":"b","flag":false,"n":2,"kind":"fixed","in":{"q":false}},"inline":"y"}`,
		`{"name":"a","flag":true,"n":11,"kind":"fixed","in":{"q":true}}`, `{"name":"a","flag":true,"n":1,"kind":"other","in":{"q":true}}`,
		`{"name":"a","flag":true,"n":1,"in":{"q":true}}`, `{"name":"a","flag":true,"n":1,"kind":"fixed","in":{}}`,
		`{"name":"a","flag":true,"n":1,"kind":"fixed","in":{"q":true},"zz":1}`, `{"name":"a","flag":true,"n":1,"kind":"fixed","in":{"q":true},"code":"a"}`,
		`{"name":"a","flag":true,"n":1,"kind":"fixed","in":{"q":true},"mode":"up"}`, `{"name":"a","flag":true,"n":1,"kind":"fixed","in":{"q":true},"tags":[]}`,
		`{"name":"a","flag":true,"n":1,"kind":"fixed","in":{"q":true},"u":256}`, `{"name":"a","flag":true,"n":1,"kind":"fixed","in":{"q":true},"nr":{"y":1.5}}`,
		`{"name":"a","flag":true,"n":1.5,"kind":"fixed","in":{"q":true}}`, `{"name":null,"flag":true,"n":1,"kind":"fixed","in":{"q":true}}`,
		`{"name":"a","flag":true,"n":1,"kind":"fixed","in":{"q":true},"seven":8}`, `{"name":"a","flag":true,"n":1,"kind":"fixed","in":{"q":true},"r":0.25}`,
		`{"name":"a","flag":true,"n":1,"kind":"fixed","in":{"q":true},"when":"yesterday"}`, `[]`, `null`}},
	// witness of C01_cue_parser_sound_counterexample (lean/Cog/Props/C01.lean): CUE `int` is unbounded, the IR says int64
	{"cuepinint", `#R: int`, "R", []string{`9223372036854775808`, `9223372036854775807`, `-9223372036854775809`, `1.5`, `"a"`}},
	// witness of C01_cue_parser_sound_counterexample_required_constant: CUE fills in the absent constant, the IR says required
	{"cuepinconst", `#R: {kind: "fixed"}`, "R", []string{`{}`, `{"kind":"fixed"}`, `{"kind":"other"}`}},
	{"cuepinerr0", `#R: {nb?: number & <7.25}`, "R", nil},
	// reference whose last selector is a hidden field: reported by the guard at the top of declareReference (fixes 0643960, 81c841c; it panicked before)
	{"cuepinerrhidden", "_h: string\n#R: {a: _h}", "R", nil},
	{"cuepinerr1", `#R: {l: [string, string]}`, "R", nil},
	{"cuepinerr2", `#R: {e: 1 | 2}`, "R", nil},
	{"cuepinempty", ``, "", nil},
}

type frontCueCase struct {
	ID, Kind, Pkg, Text, Dir, Note, Root string
	Docs                               []frontDoc
}

func cueUsesImport(text, name string) bool { return strings.Contains(text, name+".") }

func c01FrontCueEmit(out *bufio.Writer, c frontCueCase, hist map[string]int) {
	defer func() {
		if rec := recover(); rec != nil {
			fmt.Fprintf(out, "-\tskip %s harness-panic %s\tok\n", c.ID, labOneLine(fmt.Sprint(rec)))
		}
	}()
	val, lerr := cueLoadLikePipeline(c.Text, c.Pkg)
	if lerr != nil {
		fmt.Fprintf(out, "-\tskip %s library-refuses %s\tok\n", c.ID, labOneLine(shortErr(lerr)))
		return
	}
	real, rerr := cueRealGenerateAST(val, c.Pkg)
	enc, refuse, used := cueEncodeCase(c.Pkg, val)
	if refuse != "" {
		fmt.Fprintf(out, "-\tschema %s %s\tok\n", c.ID, jsonQuote(c.Text))
		fmt.Fprintf(out, "-\tskip %s outside-fragment %s\tok\n", c.ID, refuse)
		return
	}
	if enc == "" {
		fmt.Fprintf(out, "-\tskip %s fields-error\tok\n", c.ID)
		return
	}
	for k, v := range used {
		hist[k] += v
	}
	fmt.Fprintf(out, "-\tcase %s kind=%s %s\tok\n", c.ID, c.Kind, c.Note)
	fmt.Fprintf(out, "-\tschema %s %s\tok\n", c.ID, jsonQuote(c.Text))
	fmt.Fprintf(out, "cuefdef %s %s\tok\tok\n", c.ID, enc)
	if rerr != nil {
		if strings.HasPrefix(rerr.Error(), "PANIC") {
			fmt.Fprintf(out, "cuefront %s\tpanic\tFAIL GenerateAST panicked: %s\n", c.ID, labOneLine(labFirstLine(rerr.Error())))
		} else {
			fmt.Fprintf(out, "-\terrmsg %s %s\tok\n", c.ID, labOneLine(shortErr(rerr)))
			fmt.Fprintf(out, "cuefront %s\terr\tok\n", c.ID)
		}
		return
	}
	vir := virSchemas(ast.Schemas{real})
	verdict := "ok"
	if c.Dir != "" {
		// the pipeline's own load of the same text (codegen.CueInput.LoadSchemas) must give the same IR
		if ps, perr := cuePipelineLoad(c.Dir, c.Pkg); perr != nil {
			verdict = "FAIL the pipeline's load fails where GenerateAST on the harness's load succeeds: " + labOneLine(shortErr(perr))
		} else if pv := virSchemas(ps); pv != vir {
			verdict = "FAIL the pipeline's load gives another IR than GenerateAST on the harness's load"
		}
	}
	fmt.Fprintf(out, "cuefront %s\tok %s\t%s\n", c.ID, vir, verdict)
	fmt.Fprintf(out, "defschemas %s.fe %s\tok\tok\n", c.ID, vir)
	if len(c.Docs) == 0 || c.Root == "" {
		return
	}
	def := val.LookupPath(cue.ParsePath("#" + c.Root))
	if !def.Exists() {
		return
	}
	ctx := val.Context()
	for _, d := range c.Docs {
		valid := func() (ok bool) {
			defer func() {
				if rec := recover(); rec != nil {
					ok = false
				}
			}()
			dv := ctx.CompileString(d.Doc.json())
			if dv.Err() != nil {
				return false
			}
			return def.Unify(dv).Validate(cue.Concrete(true), cue.Final()) == nil
		}()
		fmt.Fprintf(out, "cuefdoc %s %s.fe %s %s\tvalid=%v doc=%s\tok\n", c.ID, c.ID, c.Root, d.Doc.sexp(), valid, d.Kind)
	}
}

func cuePinnedText(p frontCuePinned) string {
	var b strings.Builder
	b.WriteString("package " + p.ID + "\n\n")
	imports := []string{}
	if cueUsesImport(p.Text, "strings") {
		imports = append(imports, "\t\"strings\"\n")
	}
	if cueUsesImport(p.Text, "time") {
		imports = append(imports, "\t\"time\"\n")
	}
	if len(imports) > 0 {
		b.WriteString("import (\n" + strings.Join(imports, "") + ")\n\n")
	}
	b.WriteString(p.Text + "\n")
	return b.String()
}

func init() {
	register("c01-front-cue", func(args map[string]string, out *bufio.Writer) error {
		n := argInt(args, "n", 30)
		ndocs := argInt(args, "docs", 10)
		nfault := argInt(args, "faults", 6)
		seed := uint64(argInt(args, "seed", 1))
		from := argInt(args, "from", 0)
		base := argGenOpts(args)
		dir := labWorkDir("c01frontcue")
		defer os.RemoveAll(dir)
		hist := map[string]int{}
		faultKinds := []string{"undeclaredKey", "missingRequired", "nullRequired", "wrongType", "notInEnum", "min-1", "max+1", "minLength-1", "maxLength+1"}
		if args["pinned"] != "0" {
			for _, p := range c01FrontCuePinned {
				text := cuePinnedText(p)
				d, err := writeSchemaFile(dir, "cue", p.ID, text)
				if err != nil {
					return err
				}
				c := frontCueCase{ID: p.ID, Kind: "pinned", Pkg: p.ID, Text: text, Dir: d, Root: p.Root}
				for i, ds := range p.Docs {
					jv, err := parseJV([]byte(ds))
					if err != nil {
						return fmt.Errorf("pinned %s doc %d: %w", p.ID, i, err)
					}
					c.Docs = append(c.Docs, frontDoc{jv, "pinned"})
				}
				c01FrontCueEmit(out, c, hist)
			}
		}
		if file := args["file"]; file != "" {
			// replay of one CUE text
			raw, err := os.ReadFile(file)
			if err != nil {
				return err
			}
			rc := frontCueCase{ID: "replay", Kind: "replay", Pkg: "replay", Text: string(raw), Root: args["root"]}
			if rc.Root != "" {
				rc.Docs = []frontDoc{{JV{K: 'z'}, "replay"}}
				if ds := args["doc"]; ds != "" {
					if jv, err := parseJV([]byte(ds)); err == nil {
						rc.Docs = []frontDoc{{jv, "replay"}}
					}
				}
			}
			c01FrontCueEmit(out, rc, hist)
		}
		for i := from; i < from+n; i++ {
			profile := i % 3
			if p, ok := args["profile"]; ok {
				fmt.Sscanf(p, "%d", &profile)
			}
			o := base
			switch profile {
			case 1:
				o = base.with(c01PlainSwitches)
				if (i/3)%2 == 1 {
					o = base.with(strings.Replace(c01PlainSwitches, ",-default", "", 1))
				}
				o.NoForce = true
			case 2:
				o = base.with("+def.collection,+struct.empty,+int.hugeBounds")
			}
			d0 := genDefs(seed, i, o)
			id := fmt.Sprintf("f%dcue", i)
			if err := d0.wf(); err != nil {
				fmt.Fprintf(out, "-\tskip %s term-not-wf %s\tok\n", id, labOneLine(err.Error()))
				continue
			}
			func() {
				defer func() {
					if rec := recover(); rec != nil {
						fmt.Fprintf(out, "-\tskip %s harness-panic %s\tok\n", id, labOneLine(fmt.Sprint(rec)))
					}
				}()
				d, notes := degradeDefs(d0, "cue", 1)
				ro := renderDefs(d, "cue", id)
				if ro.Text == "" || len(ro.Unsupported) > 0 {
					fmt.Fprintf(out, "-\tskip %s unsupported-by-format %s\tok\n", id, labOneLine(strings.Join(ro.Unsupported, ",")))
					return
				}
				pdir, err := writeSchemaFile(dir, "cue", id, ro.Text)
				if err != nil {
					fmt.Fprintf(out, "-\tskip %s write %s\tok\n", id, labOneLine(err.Error()))
					return
				}
				c := frontCueCase{ID: id, Kind: "lab", Pkg: id, Text: ro.Text, Dir: pdir, Root: d.Root,
					Note: fmt.Sprintf("profile=%d degraded=%v notes=%v src=%s", profile, notes, ro.Notes, d.sexp())}
				dg := newDocGen(d, newRng(seed*7919+uint64(i)*31+5), defaultDocOpts())
				for k := 0; k < ndocs; k++ {
					c.Docs = append(c.Docs, frontDoc{dg.validDoc(), "valid"})
				}
				for k := 0; k < nfault; k++ {
					if fd, ok := dg.faultDoc(faultKinds); ok {
						c.Docs = append(c.Docs, frontDoc{fd.Doc, "fault:" + fd.Kind})
					}
				}
				c01FrontCueEmit(out, c, hist)
			}()
		}
		keys := make([]string, 0, len(hist))
		for k := range hist {
			keys = append(keys, k)
		}
		sort.Strings(keys)
		parts := []string{}
		for _, k := range keys {
			parts = append(parts, fmt.Sprintf("%s=%d", k, hist[k]))
		}
		fmt.Fprintf(out, "-\tstats keywords %s\tok\n", strings.Join(parts, " "))
		return nil
	})
}
