package main

// C02 — spelling variants of CONSTANTS in the source formats.
//
// The renderers write a constant in one spelling per format (JSON Schema `{"const": v}`, OpenAPI a
// constant-regex pattern / a typed one-member enum, CUE the concrete value). cog's front-ends read the other
// legitimate spellings through other code (JSON Schema: `walkString/walkNumber/walkBoolean` for a const WITH
// an explicit type, `walkUntypedConstant` without, `walkEnum` for a one-member enum), and the value they store
// (json.Number or int64/float64, string, bool) is what every jenny later prints with %#v.
//
// c02Spell selects the spelling applied to every rendered schema text (hook renderRespell in
// lab_pipeline.go, installed by this file, so that the lab, the all-language runner, replay and shrinking
// all see the same text):
//
//	""            the renderer's own spelling
//	"typed"       JSON Schema {"type": T, "const": v};            OpenAPI: unchanged
//	"enum1"       JSON Schema {"enum": [v]};                      OpenAPI {"type": T, "enum": [v]} (no pattern)
//	              (strings and integers only; booleans and non-integral numbers keep `const`)
//	"typedEnum1"  JSON Schema {"type": T, "enum": [v]};           OpenAPI as enum1
//	"mixed"       one of the four, a deterministic function of the term
//
// T is the JSON type of v (integer for integral numbers, number otherwise). The spelling used is part of
// the case text (`trig=…,spell:<style>`), which is what replay and shrinking pass back (spell=<style>).
// CUE has a single spelling of a concrete value; the style is recorded and changes nothing there.

import "strings"

var c02Spell = ""

var c02SpellStyles = []string{"untyped", "typed", "enum1", "typedEnum1"}

func c02HasConst(d *Defs) bool {
	has := false
	c02WalkAll(d, func(s *Src) {
		if s.Kind == SConst {
			has = true
		}
	})
	return has
}

// c02SpellOf: the concrete style of a term under the current setting ("" = renderer's own).
func c02SpellOf(d *Defs) string {
	if d == nil || c02Spell == "" || !c02HasConst(d) {
		return ""
	}
	s := c02Spell
	if s == "mixed" {
		s = c02SpellStyles[int(fnv32("spell\x00"+d.sexp())>>7)%len(c02SpellStyles)]
	}
	if s == "untyped" {
		return ""
	}
	return s
}

func c02JSONTypeOf(v JV) string {
	switch v.K {
	case 's':
		return "string"
	case 'n':
		if strings.ContainsAny(v.S, ".eE") {
			return "number"
		}
		return "integer"
	case 't', 'f':
		return "boolean"
	}
	return ""
}

// c02RespellJS rewrites every schema node `{"const": <scalar>, …}` (without a type of its own).
func c02RespellJS(v JV, style string) JV {
	switch v.K {
	case 'a':
		out := jArr()
		for _, e := range v.A {
			out.A = append(out.A, c02RespellJS(e, style))
		}
		return out
	case 'o':
		cv, isConst := v.get("const")
		_, typed := v.get("type")
		ty := ""
		if isConst {
			ty = c02JSONTypeOf(cv)
		}
		if isConst && !typed && ty != "" {
			// a one-member enum is the equivalent of a constant for strings and integers only: cog reads an enum of
			// booleans or of non-integral numbers as an integer enum (another construct); those keep `const`
			style := style
			if ty != "string" && ty != "integer" {
				switch style {
				case "enum1":
					style = "untyped"
				case "typedEnum1":
					style = "typed"
				}
			}
			out := jObj()
			if style == "typed" || style == "typedEnum1" {
				out.O = append(out.O, kv("type", jStr(ty)))
			}
			for _, e := range v.O {
				if e.K != "const" {
					out.O = append(out.O, JKV{e.K, c02RespellJS(e.V, style)})
					continue
				}
				if style == "typed" || style == "untyped" {
					out.O = append(out.O, kv("const", cv.clone()))
				} else {
					out.O = append(out.O, kv("enum", jArr(cv.clone())))
				}
			}
			return out
		}
		out := jObj()
		for _, e := range v.O {
			out.O = append(out.O, JKV{e.K, c02RespellJS(e.V, style)})
		}
		return out
	}
	return v
}

// c02RespellOA: the constant-regex spelling of a string constant becomes a typed one-member enum.
func c02RespellOA(v JV, consts map[string]bool) JV {
	switch v.K {
	case 'a':
		out := jArr()
		for _, e := range v.A {
			out.A = append(out.A, c02RespellOA(e, consts))
		}
		return out
	case 'o':
		if ty, ok := v.get("type"); ok && ty.K == 's' && ty.S == "string" {
			if p, ok := v.get("pattern"); ok && p.K == 's' && strings.HasPrefix(p.S, "^") && strings.HasSuffix(p.S, "$") && consts[p.S[1:len(p.S)-1]] {
				out := jObj()
				for _, e := range v.O {
					if e.K == "pattern" {
						out.O = append(out.O, kv("enum", jArr(jStr(p.S[1:len(p.S)-1]))))
					} else {
						out.O = append(out.O, JKV{e.K, c02RespellOA(e.V, consts)})
					}
				}
				return out
			}
		}
		out := jObj()
		for _, e := range v.O {
			out.O = append(out.O, JKV{e.K, c02RespellOA(e.V, consts)})
		}
		return out
	}
	return v
}

func init() {
	renderRespell = func(d *Defs, format string, out renderOut) renderOut {
		style := c02SpellOf(d)
		if style == "" {
			return out
		}
		switch format {
		case "jsonschema":
			doc, err := parseJV([]byte(out.Text))
			if err != nil {
				return out
			}
			out.Text = c02RespellJS(doc, style).pretty() + "\n"
			out.Style = append(out.Style, "const."+style)
		case "openapi":
			if style == "typed" {
				return out
			}
			consts := map[string]bool{}
			c02WalkAll(d, func(s *Src) {
				if s.Kind == SConst && s.Const.K == 's' {
					consts[s.Const.S] = true
				}
			})
			doc, err := parseJV([]byte(out.Text))
			if err != nil {
				return out
			}
			out.Text = c02RespellOA(doc, consts).pretty() + "\n"
			out.Style = append(out.Style, "const."+style)
		}
		return out
	}
}
