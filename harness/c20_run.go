package main

// C20 — implementation side: the three real loaders, the published schemas validated with
// santhosh-tekuri/jsonschema, the oracle, and the streams.
//
// rows:  <file> <doc tokens> \t L=<0|1> P=<0|1> R=<0|1|?> \t ok | FAIL <why> \t <json detail>
//   L : the loader reported no `field … not found in type …`
//   P : the published schema reported no additionalProperties failure
//   R : 0 when the loader rejected for a key or an empty-rule reason, 1 when it loaded,
//       ? when it failed for another reason (value type / post-decode semantics), in which case
//       the empty-rule stage may not have been reached and the model's R is not compared.

import (
	"bufio"
	"bytes"
	"encoding/json"
	"fmt"
	"os"
	"path/filepath"
	"strings"

	"github.com/grafana/cog/internal/codegen"
	"github.com/grafana/cog/internal/veneers/rewrite"
	cogyaml "github.com/grafana/cog/internal/yaml"
	"github.com/santhosh-tekuri/jsonschema/v5"
	"gopkg.in/yaml.v3"
)

const c20Unknown = "zz_unknown"

type c20Env struct {
	facts   *c20Facts
	tmp     string
	schemas map[string]*jsonschema.Schema
	n       int
}

func c20NewEnv(args map[string]string) (*c20Env, error) {
	fp := args["facts"]
	if fp == "" {
		return nil, fmt.Errorf("facts=<path> required")
	}
	f, err := c20LoadFacts(fp)
	if err != nil {
		return nil, err
	}
	tmp := args["tmp"]
	if tmp == "" {
		return nil, fmt.Errorf("tmp=<dir> required")
	}
	if err := os.MkdirAll(tmp, 0o755); err != nil {
		return nil, err
	}
	repo := args["repo"]
	if repo == "" {
		repo = "."
	}
	env := &c20Env{facts: f, tmp: tmp, schemas: map[string]*jsonschema.Schema{}}
	for _, ff := range f.Files {
		raw, err := os.ReadFile(filepath.Join(repo, "schemas", ff.Schema))
		if err != nil {
			return nil, err
		}
		c := jsonschema.NewCompiler()
		c.Draft = jsonschema.Draft2020
		url := "https://verif.invalid/" + ff.Schema
		// the file's own $id is a github URL; register the bytes under it too so nothing is fetched
		var hdr struct {
			ID string `json:"$id"`
		}
		_ = json.Unmarshal(raw, &hdr)
		if hdr.ID != "" {
			url = hdr.ID
		}
		if err := c.AddResource(url, bytes.NewReader(raw)); err != nil {
			return nil, fmt.Errorf("schema %s: %w", ff.Schema, err)
		}
		s, err := c.Compile(url)
		if err != nil {
			return nil, fmt.Errorf("schema %s: %w", ff.Schema, err)
		}
		env.schemas[ff.Name] = s
	}
	return env, nil
}

func (e *c20Env) file(name string) *c20File {
	for i := range e.facts.Files {
		if e.facts.Files[i].Name == name {
			return &e.facts.Files[i]
		}
	}
	return nil
}

// load runs the real loader of the given file kind on the YAML bytes.
func (e *c20Env) load(kind string, doc []byte) (errText string, panicked bool) {
	defer func() {
		if r := recover(); r != nil {
			errText = fmt.Sprintf("panic: %v", r)
			panicked = true
		}
	}()
	e.n++
	var err error
	switch kind {
	case "pipeline":
		p := filepath.Join(e.tmp, fmt.Sprintf("pipeline_%d.yaml", e.n%4))
		if werr := os.WriteFile(p, doc, 0o644); werr != nil {
			return "harness: " + werr.Error(), false
		}
		_, err = codegen.PipelineFromFile(p)
	case "compiler":
		_, err = cogyaml.NewCompilerLoader().Load(bytes.NewReader(doc))
	case "veneers":
		p := filepath.Join(e.tmp, fmt.Sprintf("veneers_%d.yaml", e.n%4))
		if werr := os.WriteFile(p, doc, 0o644); werr != nil {
			return "harness: " + werr.Error(), false
		}
		_, err = cogyaml.NewVeneersLoader().RewriterFrom([]string{p}, rewrite.Config{})
	default:
		return "harness: unknown file kind " + kind, false
	}
	if err == nil {
		return "", false
	}
	return err.Error(), false
}

func c20Class(errText string, panicked bool) string {
	switch {
	case panicked:
		return "panic"
	case errText == "":
		return "ok"
	case strings.Contains(errText, "not found in type"):
		return "key"
	case strings.Contains(errText, "empty compiler passes file"), strings.Contains(errText, "empty veneers file"):
		// a null / empty DOCUMENT (fix 4823a7e), not a rule entry: outside the key and rule-entry
		// model (R is not compared)
		return "semantic"
	case strings.Contains(errText, "empty compiler pass"), strings.Contains(errText, "empty rule"):
		return "empty"
	case strings.Contains(errText, "yaml:"):
		return "type"
	}
	return "semantic"
}

// validate returns (number of additionalProperties failures, number of other failures, text)
func (e *c20Env) validate(kind string, doc []byte) (addl int, other int, text string) {
	var v any
	if err := yaml.Unmarshal(doc, &v); err != nil {
		return 0, 1, "yaml: " + err.Error()
	}
	err := e.schemas[kind].Validate(v)
	if err == nil {
		return 0, 0, ""
	}
	ve, ok := err.(*jsonschema.ValidationError)
	if !ok {
		return 0, 1, err.Error()
	}
	var msgs []string
	var walk func(x *jsonschema.ValidationError)
	walk = func(x *jsonschema.ValidationError) {
		if len(x.Causes) == 0 {
			if strings.HasSuffix(x.KeywordLocation, "/additionalProperties") {
				addl++
			} else {
				other++
			}
			if len(msgs) < 3 {
				msgs = append(msgs, x.InstanceLocation+": "+x.Message)
			}
		}
		for _, c := range x.Causes {
			walk(c)
		}
	}
	walk(ve)
	return addl, other, strings.Join(msgs, "; ")
}

type c20Case struct {
	Kind    string `json:"file"`
	What    string `json:"what"`   // base | base-nulls | unknown@record | unknown@free | foreign@record | goname@record | member | empty-rule | null-entry | declared-key | merge-unknown
	Path    string `json:"path"`   // where the mutation was applied
	Key     string `json:"key"`    // injected / probed key
	YAML    string `json:"yaml"`   // what the loader reads
	Loader  string `json:"loader"` // loader error text
	Schema  string `json:"schema"` // schema failure text
	Class   string `json:"class"`
	tokens  string
	rawYAML []byte
}

func c20B01(b bool) string {
	if b {
		return "1"
	}
	return "0"
}

// run executes one case on both implementations and applies the oracle.
func (e *c20Env) run(c *c20Case, out *bufio.Writer, stats map[string]int) {
	doc := c.rawYAML
	errText, panicked := e.load(c.Kind, doc)
	class := c20Class(errText, panicked)
	addl, other, stext := e.validate(c.Kind, doc)
	c.Loader, c.Schema, c.Class, c.YAML = errText, stext, class, string(doc)
	L := class != "key"
	P := addl == 0
	R := "?"
	switch class {
	case "ok":
		R = "1"
	case "key", "empty":
		R = "0"
	}
	verdict := "ok"
	fail := func(s string) {
		if verdict == "ok" {
			verdict = "FAIL " + s
		}
	}
	// weak: the document IS rejected, but not for the key. The property (unknown key ⇒ error) holds
	// on this document; it is reported only when no stronger failure is found, because an error
	// raised inside Decode (e.g. by a custom unmarshaller) can mask yaml.v3's key errors.
	weak := func(s string) {
		if verdict == "ok" {
			verdict = "FAIL-WEAK " + s
		}
	}
	switch c.What {
	case "base-nulls":
		if class == "key" {
			fail("document built from the loader's own key table is rejected for a key reason")
		}
	case "base":
		if class == "key" {
			fail("document built from the loader's own key table is rejected for a key reason")
		}
		if class == "type" {
			fail("well-typed generated document does not decode: " + errText)
		}
		if class != "type" && class != "key" && other > 0 {
			fail("document decodes but the published schema rejects a value: " + stext)
		}
	case "unknown@record", "foreign@record", "goname@record", "merge-unknown":
		if errText == "" {
			fail("unknown key accepted by the loader")
		} else if class != "key" {
			weak("document with an unknown key is rejected, but not as an unknown key (" + class + "): " + errText)
		}
		if addl == 0 {
			fail("unknown key accepted by the published schema")
		}
	case "unknown@free":
		if class == "key" || addl > 0 {
			fail("key under a free-form map/any rejected")
		}
	case "declared-key":
		if class == "key" {
			fail("declared key rejected by the loader")
		}
		if addl > 0 {
			fail("declared key rejected by the published schema")
		}
	case "member":
		if class == "empty" {
			fail("declared action is not recognised: entry rejected as empty")
		}
		if class == "key" {
			fail("declared action rejected as unknown key")
		}
	case "null-entry":
		if errText == "" {
			fail("null-entry: a null item of a rule list is silently dropped instead of being rejected as an empty rule")
		}
	case "empty-rule":
		if errText == "" {
			fail("rule entry without a recognised action accepted")
		} else if class != "empty" {
			fail("rule entry without a recognised action rejected for another reason (" + class + ")")
		}
	}
	if L != P {
		if L && (class == "semantic" || class == "panic") {
			weak("keys-disagree: published schema reports an additional property, loader fails for another reason (" + class + ") without naming a key")
		} else if L {
			fail("keys-disagree: loader accepts the keys, published schema reports an additional property")
		} else {
			fail("keys-disagree: published schema accepts the keys, loader reports an unknown field")
		}
	}
	stats[c.What+"/"+class]++
	detail, _ := json.Marshal(c)
	fmt.Fprintf(out, "%s %s\tL=%s P=%s R=%s\t%s\t%s\n", c.Kind, c.tokens, c20B01(L), c20B01(P), R, verdict, detail)
}

func c20MkCase(kind, what, path, key string, root *c20Node) *c20Case {
	var sb strings.Builder
	root.tokens(&sb)
	return &c20Case{Kind: kind, What: what, Path: path, Key: key, tokens: sb.String(), rawYAML: root.render()}
}

// insert adds key:value at position pos of mapping m (in place)
func c20Insert(m *c20Node, pos int, key string, val *c20Node) {
	if pos > len(m.keys) {
		pos = len(m.keys)
	}
	m.keys = append(m.keys[:pos], append([]string{key}, m.keys[pos:]...)...)
	m.vals = append(m.vals[:pos], append([]*c20Node{val}, m.vals[pos:]...)...)
}

// variants derives from one valid document: the unknown key injected at every mapping node in
// turn (exhaustive per document) + a key declared elsewhere, + the Go field name spelling.
func (e *c20Env) variants(kind, what string, root *c20Node, r *rng, out *bufio.Writer, stats map[string]int) int {
	n := 0
	e.run(c20MkCase(kind, what, "", "", root), out, stats)
	n++
	var maps []c20MapRef
	root.mappings("", &maps)
	for i := range maps {
		// clone, locate the i-th mapping in the clone
		cl := root.clone()
		var cm []c20MapRef
		cl.mappings("", &cm)
		m := cm[i]
		what := "unknown@free"
		if m.node.rec {
			what = "unknown@record"
		}
		val := &c20Node{kind: c20KScalar, sval: "x"}
		if r.chance(30) {
			val = &c20Node{kind: c20KNull}
		} else if r.chance(20) {
			val = &c20Node{kind: c20KMap, keys: []string{"a"}, vals: []*c20Node{{kind: c20KScalar, sval: 1}}}
		}
		c20Insert(m.node, r.intn(len(m.node.keys)+1), c20Unknown, val)
		e.run(c20MkCase(kind, what, m.path, c20Unknown, cl), out, stats)
		n++
		if !m.node.rec {
			continue
		}
		// a key of the configuration language, but not of this struct
		declared := map[string]bool{}
		for _, k := range m.node.decl {
			declared[k] = true
		}
		if r.chance(35) {
			for try := 0; try < 20; try++ {
				k := e.facts.Keys[r.intn(len(e.facts.Keys))]
				if declared[k] {
					continue
				}
				cl2 := root.clone()
				var cm2 []c20MapRef
				cl2.mappings("", &cm2)
				c20Insert(cm2[i].node, r.intn(len(cm2[i].node.keys)+1), k, &c20Node{kind: c20KNull})
				e.run(c20MkCase(kind, "foreign@record", m.path, k, cl2), out, stats)
				n++
				break
			}
		}
		// keys are case-sensitive: the upper-cased spelling of a declared key is unknown
		if r.chance(20) && len(m.node.decl) > 0 {
			dk := m.node.decl[r.intn(len(m.node.decl))]
			k := strings.ToUpper(dk[:1]) + dk[1:]
			if !declared[k] && k != dk {
				cl3 := root.clone()
				var cm3 []c20MapRef
				cl3.mappings("", &cm3)
				c20Insert(cm3[i].node, 0, k, &c20Node{kind: c20KNull})
				e.run(c20MkCase(kind, "goname@record", m.path, k, cl3), out, stats)
				n++
			}
		}
	}
	return n
}

func c20WriteStats(out *bufio.Writer, stats map[string]int, gen map[string]int) {
	s, _ := json.Marshal(map[string]any{"classes": stats, "generated_constructs": gen})
	fmt.Fprintf(out, "#stats\t%s\n", s)
}

func init() {
	// random valid documents, unknown key injected at every mapping node in turn
	register("c20-docs", func(args map[string]string, out *bufio.Writer) error {
		env, err := c20NewEnv(args)
		if err != nil {
			return err
		}
		n := argInt(args, "n", 20)
		depth := argInt(args, "depth", 4)
		seed := argInt(args, "seed", 1)
		stats := map[string]int{}
		gens := map[string]int{}
		for fi := range env.facts.Files {
			f := &env.facts.Files[fi]
			for i := 0; i < n; i++ {
				r := newRng(uint64(seed)*1000003 + uint64(fi)*7919 + uint64(i))
				g := &c20Gen{f: f, r: r, maxDepth: depth, kinds: gens, nulls: i%3 == 2}
				root := g.record(f.LRoot, 0)
				what := "base"
				if g.nulls {
					what = "base-nulls" // explicit nulls: only the key verdicts are compared
				}
				env.variants(f.Name, what, root, r, out, stats)
			}
		}
		c20WriteStats(out, stats, gens)
		return nil
	})

	// documents generated from the PUBLISHED tables alone (no knowledge of the Go structs), the
	// unknown key injected at every mapping node in turn: works whatever the loader-side
	// extractor understood
	register("c20-pubdocs", func(args map[string]string, out *bufio.Writer) error {
		env, err := c20NewEnv(args)
		if err != nil {
			return err
		}
		n := argInt(args, "n", 20)
		depth := argInt(args, "depth", 4)
		seed := argInt(args, "seed", 1)
		stats := map[string]int{}
		gens := map[string]int{}
		for fi := range env.facts.Files {
			f := &env.facts.Files[fi]
			for i := 0; i < n; i++ {
				r := newRng(uint64(seed)*2000003 + uint64(fi)*104729 + uint64(i))
				g := &c20Gen{f: f, r: r, maxDepth: depth, kinds: gens}
				root := g.pgen(c20PTy{K: "ref", Ref: f.PRoot}, 0, "")
				env.variants(f.Name, "base", root, r, out, stats)
			}
		}
		c20WriteStats(out, stats, gens)
		return nil
	})

	// every key declared by the loader tables and by the published schemas, each in a minimal
	// document reaching its definition; plus one unknown key per definition (exhaustive)
	register("c20-keypaths", func(args map[string]string, out *bufio.Writer) error {
		env, err := c20NewEnv(args)
		if err != nil {
			return err
		}
		stats := map[string]int{}
		for fi := range env.facts.Files {
			f := &env.facts.Files[fi]
			// loader side
			for d := range f.LEnv {
				root, inst := c20PathTo(f, d)
				if root == nil {
					return fmt.Errorf("struct %s unreachable", f.LEnv[d].Name)
				}
				for _, fl := range f.LEnv[d].Fields {
					c20Insert(inst, 0, fl.Key, &c20Node{kind: c20KNull})
					env.run(c20MkCase(f.Name, "declared-key", "loader:"+f.LEnv[d].Name, fl.Key, root), out, stats)
					inst.keys, inst.vals = nil, nil
				}
				c20Insert(inst, 0, c20Unknown, &c20Node{kind: c20KNull})
				env.run(c20MkCase(f.Name, "unknown@record", "loader:"+f.LEnv[d].Name, c20Unknown, root), out, stats)
				inst.keys, inst.vals = nil, nil
			}
			// published side
			for d := range f.PEnv {
				if f.PEnv[d].K != "obj" || f.PEnv[d].Addl == nil || f.PEnv[d].Addl.K != "bot" {
					continue // AstTypes (array), AstJenniesHints (open object)
				}
				root, inst := c20PubPathTo(f, d)
				if root == nil {
					continue // unreachable $defs member: irrelevant for validation
				}
				for _, pp := range f.PEnv[d].Props {
					c20Insert(inst, 0, pp.Key, &c20Node{kind: c20KNull})
					env.run(c20MkCase(f.Name, "declared-key", "schema:"+f.PNames[d], pp.Key, root), out, stats)
					inst.keys, inst.vals = nil, nil
				}
				c20Insert(inst, 0, c20Unknown, &c20Node{kind: c20KNull})
				env.run(c20MkCase(f.Name, "unknown@record", "schema:"+f.PNames[d], c20Unknown, root), out, stats)
				inst.keys, inst.vals = nil, nil
			}
		}
		c20WriteStats(out, stats, nil)
		return nil
	})

	// rule entries: every member alone ({m: <minimal>}) must not be "empty"; {}, ~, {m: ~} must
	// be, at every position of the list
	register("c20-rules", func(args map[string]string, out *bufio.Writer) error {
		env, err := c20NewEnv(args)
		if err != nil {
			return err
		}
		stats := map[string]int{}
		for fi := range env.facts.Files {
			f := &env.facts.Files[fi]
			for _, rl := range f.RuleLists {
				listKey := rl[0].(string)
				udef := int(rl[1].(float64))
				members := f.members(udef)
				mk := func(entries ...*c20Node) *c20Node {
					root := &c20Node{kind: c20KMap, rec: true, def: f.LRoot}
					if f.Name == "veneers" {
						root.keys = append(root.keys, "package")
						root.vals = append(root.vals, &c20Node{kind: c20KScalar, sval: "pkg"})
					}
					root.keys = append(root.keys, listKey)
					root.vals = append(root.vals, &c20Node{kind: c20KSeq, items: entries})
					return root
				}
				entry := func(k string, v *c20Node) *c20Node {
					return &c20Node{kind: c20KMap, rec: true, def: udef, keys: []string{k}, vals: []*c20Node{v}}
				}
				// a valid, semantically harmless entry: first member for which a minimal or a
				// generated value loads
				var good *c20Node
				gr := newRng(uint64(argInt(args, "seed", 1)) + 77)
				gen := &c20Gen{f: f, r: gr, maxDepth: 2, kinds: map[string]int{}}
				for try := 0; try < 40 && good == nil; try++ {
					for _, m := range members {
						var ty c20LTy
						for _, fl := range f.LEnv[udef].Fields {
							if fl.Key == m {
								ty = fl.Ty
							}
						}
						val := c20Minimal(ty, m)
						if try > 0 {
							val = gen.gen(ty, 1, m)
						}
						cand := entry(m, val)
						if t, p := env.load(f.Name, mk(cand).render()); t == "" && !p {
							good = cand
							break
						}
					}
				}
				for _, m := range members {
					var ty c20LTy
					for _, fl := range f.LEnv[udef].Fields {
						if fl.Key == m {
							ty = fl.Ty
						}
					}
					// recognised: {m: {}} may fail later (selectors…) but never as "empty"
					c := c20MkCase(f.Name, "member", listKey, m, mk(entry(m, c20Minimal(ty, m))))
					env.run(c, out, stats)
					// null member = absent member
					env.run(c20MkCase(f.Name, "empty-rule", listKey+"/null-member", m, mk(good.clone(), entry(m, &c20Node{kind: c20KNull}))), out, stats)
				}
				empties := []*c20Node{{kind: c20KMap, rec: true, def: udef}, {kind: c20KNull}}
				for ei, em := range empties {
					what := "empty-rule"
					if ei == 1 {
						// a null list item never reaches cog: yaml.v3 drops it from the slice
						what = "null-entry"
					}
					for pos := 0; pos < 3; pos++ {
						items := []*c20Node{good.clone(), good.clone()}
						items = append(items[:pos], append([]*c20Node{em.clone()}, items[pos:]...)...)
						env.run(c20MkCase(f.Name, what, fmt.Sprintf("%s/%d", listKey, pos), "", mk(items...)), out, stats)
					}
					env.run(c20MkCase(f.Name, what, listKey+"/only", "", mk(em.clone())), out, stats)
				}
			}
		}
		c20WriteStats(out, stats, nil)
		return nil
	})

	// YAML-level spellings of an unknown key that the tree model does not see: merge keys,
	// anchors/aliases. Oracle only (the request shows the resolved tree).
	register("c20-syntax", func(args map[string]string, out *bufio.Writer) error {
		env, err := c20NewEnv(args)
		if err != nil {
			return err
		}
		stats := map[string]int{}
		type sc struct{ kind, what, yaml, tokens string }
		cases := []sc{
			{"compiler", "merge-unknown", "passes:\n  - unspec: {}\n<<: {zz_unknown: 1}\n", "{ passes [ { unspec { } } ] zz_unknown s }"},
			{"compiler", "merge-unknown", "passes:\n  - fields_set_default:\n      defaults: {p.O.f: &b {zz_unknown: 1}}\n  - omit:\n      <<: *b\n      objects: [p.O]\n", "{ passes [ { fields_set_default { defaults { p.O.f { zz_unknown s } } } } { omit { zz_unknown s objects [ s ] } } ] }"},
			{"pipeline", "merge-unknown", "debug: true\noutput:\n  <<: {zz_unknown: {a: 1}}\n  directory: out\n", "{ debug s output { zz_unknown { a s } directory s } }"},
			{"veneers", "merge-unknown", "package: p\nbuilders:\n  - omit: {by_name: X, <<: {zz_unknown: ~}}\n", "{ package s builders [ { omit { by_name s zz_unknown n } } ] }"},
			{"veneers", "unknown@record", "package: p\noptions:\n  - &r {omit: {by_name: A.b}}\n  - {rename: {by_name: A.b, as: c, zz_unknown: 1}}\n  - *r\n", "{ package s options [ { omit { by_name s } } { rename { by_name s as s zz_unknown s } } { omit { by_name s } } ] }"},
		}
		// null documents: rejected as "empty … file" by the compiler-passes and veneers loaders,
		// loaded by the pipeline loader; no key verdict is involved (L=1, P=1)
		for _, k := range []string{"pipeline", "compiler", "veneers"} {
			cases = append(cases, sc{k, "null-document", "~\n", "n"})
		}
		for _, c := range cases {
			cc := &c20Case{Kind: c.kind, What: c.what, Key: c20Unknown, tokens: c.tokens, rawYAML: []byte(c.yaml)}
			env.run(cc, out, stats)
		}
		c20WriteStats(out, stats, nil)
		return nil
	})

	// replay / evaluation of pinned cases: in=<file of JSON lines {file, what, yaml}>
	register("c20-eval", func(args map[string]string, out *bufio.Writer) error {
		env, err := c20NewEnv(args)
		if err != nil {
			return err
		}
		stats := map[string]int{}
		for _, l := range readLines(args["in"]) {
			var c c20Case
			if err := json.Unmarshal([]byte(l), &c); err != nil {
				return err
			}
			c.rawYAML = []byte(c.YAML)
			if c.What == "declared-key" || c.What == "member" {
				// whether the key is declared depends on the tree being replayed on: only the
				// tree-independent oracle (loader and published schema agree) applies
				c.What = "replayed-" + c.What
			}
			// tokens of the resolved tree, for the model
			var n yaml.Node
			if err := yaml.Unmarshal(c.rawYAML, &n); err != nil {
				c.tokens = "s"
			} else {
				var sb strings.Builder
				c20NodeTokens(&n, &sb)
				c.tokens = sb.String()
			}
			env.run(&c, out, stats)
		}
		return nil
	})
}

// c20NodeTokens renders a parsed YAML node (aliases followed, merge keys NOT expanded) in the
// request syntax.
func c20NodeTokens(n *yaml.Node, sb *strings.Builder) {
	switch n.Kind {
	case yaml.DocumentNode:
		if len(n.Content) == 0 {
			sb.WriteString("n")
			return
		}
		c20NodeTokens(n.Content[0], sb)
	case yaml.AliasNode:
		c20NodeTokens(n.Alias, sb)
	case yaml.ScalarNode:
		if n.Tag == "!!null" {
			sb.WriteString("n")
		} else {
			sb.WriteString("s")
		}
	case yaml.SequenceNode:
		sb.WriteString("[")
		for _, c := range n.Content {
			sb.WriteString(" ")
			c20NodeTokens(c, sb)
		}
		sb.WriteString(" ]")
	case yaml.MappingNode:
		sb.WriteString("{")
		for i := 0; i+1 < len(n.Content); i += 2 {
			sb.WriteString(" " + strings.ReplaceAll(n.Content[i].Value, " ", "_") + " ")
			c20NodeTokens(n.Content[i+1], sb)
		}
		sb.WriteString(" }")
	}
}

// c20PubPathTo: like c20PathTo, but walking the PUBLISHED tree (so that keys that only the
// published schema declares are reached too).
func c20PubPathTo(f *c20File, target int) (*c20Node, *c20Node) {
	type step struct {
		def int
		key string
	}
	strip := func(t c20PTy) (c20PTy, bool) {
		for {
			switch {
			case t.K == "arr" && t.Items != nil:
				t = *t.Items
			case t.K == "obj" && len(t.Props) == 0 && t.Addl != nil && t.Addl.K != "bot" && t.Addl.K != "top":
				t = *t.Addl
			case t.K == "ref" && f.PEnv[t.Ref].K != "obj":
				t = f.PEnv[t.Ref] // alias definitions (AstTypes = array of AstType)
			default:
				return t, t.K == "ref"
			}
		}
	}
	prev := map[int]step{f.PRoot: {-1, ""}}
	queue := []int{f.PRoot}
	for len(queue) > 0 {
		d := queue[0]
		queue = queue[1:]
		for _, pp := range f.PEnv[d].Props {
			if t, ok := strip(pp.Ty); ok {
				if _, seen := prev[t.Ref]; !seen {
					prev[t.Ref] = step{d, pp.Key}
					queue = append(queue, t.Ref)
				}
			}
		}
	}
	if _, ok := prev[target]; !ok {
		return nil, nil
	}
	var chain []step
	for d := target; d != f.PRoot; d = prev[d].def {
		chain = append([]step{{prev[d].def, prev[d].key}}, chain...)
	}
	root := &c20Node{kind: c20KMap, rec: true}
	cur := root
	for _, st := range chain {
		var ty c20PTy
		for _, pp := range f.PEnv[st.def].Props {
			if pp.Key == st.key {
				ty = pp.Ty
			}
		}
		child := &c20Node{kind: c20KMap, rec: true}
		var wrap func(t c20PTy) *c20Node
		wrap = func(t c20PTy) *c20Node {
			switch {
			case t.K == "arr" && t.Items != nil:
				return &c20Node{kind: c20KSeq, items: []*c20Node{wrap(*t.Items)}}
			case t.K == "obj" && len(t.Props) == 0 && t.Addl != nil && t.Addl.K != "bot" && t.Addl.K != "top":
				return &c20Node{kind: c20KMap, keys: []string{"k0"}, vals: []*c20Node{wrap(*t.Addl)}}
			case t.K == "ref" && f.PEnv[t.Ref].K != "obj":
				return wrap(f.PEnv[t.Ref])
			}
			return child
		}
		cur.keys = append(cur.keys, st.key)
		cur.vals = append(cur.vals, wrap(ty))
		cur = child
	}
	return root, cur
}
