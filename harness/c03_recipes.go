package main

// C03 unit recipes: each puts at least two entries into the map ranged at one site and calls
// the real code.  `site` is `<file>:<function>` as in the regenerated site table.

import (
	"bufio"
	"fmt"
	"sort"
	"strings"

	"github.com/grafana/cog/internal/ast"
	"github.com/grafana/cog/internal/ast/compiler"
	cogjsonschema "github.com/grafana/cog/internal/jsonschema"
	"github.com/grafana/cog/internal/orderedmap"
	"github.com/grafana/cog/internal/tools"
	"github.com/grafana/cog/internal/veneers/builder"
)

type c03Recipe struct {
	name string
	site string
	run  func(k int) *c03Obs // k: how many entries to put into the map (≥ 2)
}

func c03ConstField(name, value string) ast.StructField {
	return ast.NewStructField(name, ast.String(ast.Value(value)), ast.Required())
}

func c03Letters(k int) []string {
	out := []string{}
	for i := 0; i < k; i++ {
		out = append(out, string(rune('a'+i)))
	}
	return out
}

var c03Recipes = []c03Recipe{
	{
		// two (k) candidate discriminator fields present in every branch
		name: "infer-mapping", site: "internal/ast/compiler/disjunctions_infer_mapping.go:DisjunctionInferMapping.inferDiscriminatorField",
		run: func(k int) *c03Obs {
			schema := ast.NewSchema("p", ast.SchemaMeta{})
			fieldNames := []string{"kind", "type", "apiVersion", "flavor", "variant", "sort"}[:min(k, 6)]
			branches := ast.Types{}
			for _, obj := range []string{"A", "B", "C"} {
				fields := []ast.StructField{}
				for _, f := range fieldNames {
					fields = append(fields, c03ConstField(f, strings.ToLower(obj)+"-"+f))
				}
				fields = append(fields, ast.NewStructField("payload", ast.String()))
				schema.AddObject(ast.NewObject("p", obj, ast.NewStruct(fields...)))
				branches = append(branches, ast.NewRef("p", obj))
			}
			schema.AddObject(ast.NewObject("p", "U", ast.NewDisjunction(branches)))
			obs := newObs()
			res, err := (&compiler.DisjunctionInferMapping{}).Process(ast.Schemas{schema})
			if err != nil {
				obs.err = err.Error()
				return obs
			}
			u, _ := res[0].LocateObject("U")
			obs.put("U", c03JSON(map[string]any{"discriminator": u.Type.AsDisjunction().Discriminator, "mapping": u.Type.AsDisjunction().DiscriminatorMapping}))
			return obs
		},
	},
	{
		name: "consolidate", site: "internal/ast/schema.go:Schemas.Consolidate",
		run: func(k int) *c03Obs {
			schemas := ast.Schemas{}
			for _, p := range c03Letters(k) {
				for _, o := range []string{"O", "P"} {
					s := ast.NewSchema("pkg"+p, ast.SchemaMeta{})
					s.AddObject(ast.NewObject("pkg"+p, o, ast.String()))
					schemas = append(schemas, s)
				}
			}
			obs := newObs()
			res, err := schemas.Consolidate()
			if err != nil {
				obs.err = err.Error()
				return obs
			}
			obs.put("schemas.json", c03JSON(res))
			return obs
		},
	},
	{
		// keys that differ only in letter case match the same field (Matches is EqualFold)
		name: "fields-set-default", site: "internal/ast/compiler/fields_set_default.go:FieldsSetDefault.processObject",
		run: func(k int) *c03Obs {
			schema := ast.NewSchema("p", ast.SchemaMeta{})
			schema.AddObject(ast.NewObject("p", "Obj", ast.NewStruct(ast.NewStructField("name", ast.String()))))
			defaults := map[compiler.FieldReference]any{}
			variants := [][2]string{{"Obj", "name"}, {"obj", "NAME"}, {"OBJ", "Name"}, {"oBj", "nAme"}, {"obJ", "naMe"}, {"OBj", "namE"}}
			for i, v := range variants[:min(k, len(variants))] {
				defaults[compiler.FieldReference{Package: "p", Object: v[0], Field: v[1]}] = fmt.Sprintf("default-%d", i)
			}
			obs := newObs()
			res, err := (&compiler.FieldsSetDefault{DefaultValues: defaults}).Process(ast.Schemas{schema})
			if err != nil {
				obs.err = err.Error()
				return obs
			}
			o, _ := res[0].LocateObject("Obj")
			obs.put("Obj.name.default", fmt.Sprint(o.Type.AsStruct().Fields[0].Type.Default))
			return obs
		},
	},
	{
		name: "tools-keys-sorted-by-callers", site: "internal/tools/maps.go:Keys",
		run: func(k int) *c03Obs {
			m := map[string]int{}
			for i, l := range c03Letters(k) {
				m[l] = i
			}
			keys := tools.Keys(m)
			sort.Strings(keys) // what every in-run caller does
			obs := newObs()
			obs.put("keys", strings.Join(keys, ","))
			return obs
		},
	},
	{
		name: "orderedmap-frommap", site: "internal/orderedmap/map.go:FromMap",
		run: func(k int) *c03Obs {
			m := map[string]int{}
			for i, l := range c03Letters(k) {
				m[l] = i
			}
			obs := newObs()
			obs.put("frommap", c03JSON(orderedmap.FromMap(m)))
			return obs
		},
	},
	{
		name: "hint-object", site: "internal/ast/compiler/hint_object.go:HintObject.processObject",
		run: func(k int) *c03Obs {
			schema := ast.NewSchema("p", ast.SchemaMeta{})
			schema.AddObject(ast.NewObject("p", "Obj", ast.NewStruct(ast.NewStructField("name", ast.String()))))
			hints := ast.JenniesHints{}
			for i, l := range c03Letters(k) {
				hints["hint_"+l] = i
			}
			obs := newObs()
			res, err := (&compiler.HintObject{Object: compiler.ObjectReference{Package: "p", Object: "Obj"}, Hints: hints}).Process(ast.Schemas{schema})
			if err != nil {
				obs.err = err.Error()
				return obs
			}
			obs.put("schemas.json", c03JSON(res))
			return obs
		},
	},
	{
		// two (k) panel plugins composed into dashboard.Panel
		name: "compose-builders", site: "internal/veneers/builder/rules.go:ComposeBuilders",
		run: func(k int) *c03Obs {
			dash := ast.NewSchema("dashboard", ast.SchemaMeta{Kind: ast.SchemaKindCore})
			dash.AddObject(ast.NewObject("dashboard", "Panel", ast.NewStruct(
				ast.NewStructField("type", ast.String(), ast.Required()),
				ast.NewStructField("title", ast.String()),
				ast.NewStructField("options", ast.Any()),
			)))
			schemas := ast.Schemas{dash}
			for _, p := range c03Letters(k) {
				pkg := "plugin" + p
				s := ast.NewSchema(pkg, ast.SchemaMeta{Kind: ast.SchemaKindComposable, Variant: ast.SchemaVariantPanel, Identifier: pkg})
				s.AddObject(ast.NewObject(pkg, "Options", ast.NewStruct(ast.NewStructField("mode", ast.String()))))
				schemas = append(schemas, s)
			}
			builders := (&ast.BuilderGenerator{}).FromAST(schemas)
			rule := builder.ComposeBuilders(builder.ByVariant(ast.SchemaVariantPanel), builder.CompositionConfig{
				SourceBuilderName:        "dashboard.Panel",
				PluginDiscriminatorField: "type",
				CompositionMap:           map[string]string{"Options": "options"},
			})
			obs := newObs()
			res, err := rule(schemas, builders)
			if err != nil {
				obs.err = err.Error()
				return obs
			}
			names := []string{}
			for _, b := range res {
				names = append(names, b.Package+"."+b.Name)
			}
			obs.put("builders", strings.Join(names, ","))
			return obs
		},
	},
	{
		// several properties, several definitions referenced from properties
		name: "jsonschema-parse", site: "internal/jsonschema/generator.go:generator.walkObject",
		run: func(k int) *c03Obs {
			props, defs := []string{}, []string{}
			for _, l := range c03Letters(k + 1) {
				props = append(props, fmt.Sprintf(`"p_%s": {"$ref": "#/definitions/D_%s"}, "s_%s": {"type": "string", "default": "%s"}`, l, l, l, l))
				defs = append(defs, fmt.Sprintf(`"D_%s": {"type": "object", "properties": {"x_%s": {"type": "integer"}, "y_%s": {"$ref": "#/definitions/D_a"}}}`, l, l, l))
			}
			doc := fmt.Sprintf(`{"$schema": "http://json-schema.org/draft-07/schema#", "$ref": "#/definitions/Root", "definitions": {"Root": {"type": "object", "required": ["p_a"], "properties": {%s}}, %s}}`,
				strings.Join(props, ", "), strings.Join(defs, ", "))
			obs := newObs()
			res, err := cogjsonschema.GenerateAST(strings.NewReader(doc), cogjsonschema.Config{Package: "p"})
			if err != nil {
				obs.err = err.Error()
				return obs
			}
			obs.put("schema.json", c03JSON(res))
			return obs
		},
	},
}

func init() {
	register("c03-unit", func(args map[string]string, out *bufio.Writer) error {
		n := argInt(args, "n", 40)
		k := argInt(args, "k", 2)
		ran := 0
		for _, r := range c03Recipes {
			if only := args["only"]; only != "" && only != r.name {
				continue
			}
			r := r
			c03Repeat(out, fmt.Sprintf("%s/k=%d", r.name, k), r.site, n, func() *c03Obs { return r.run(k) })
			ran++
		}
		if ran == 0 {
			return fmt.Errorf("no such recipe: %s", args["only"])
		}
		return nil
	})
	register("c03-list", func(args map[string]string, out *bufio.Writer) error {
		for _, r := range c03Recipes {
			fmt.Fprintf(out, "%s\t%s\t-\n", r.name, r.site)
		}
		return nil
	})
}
