package main

// C08 — sibling-sensitive shapes and valid-document variants.
//
// Two things the front-ends and compiler passes decide by looking at SIBLINGS or at EARLIER uses, which
// a term drawn member by member rarely contains:
//   * members of one struct whose names differ only by letter case (`id` / `ID`, `link` / `lInk`), exactly
//     one of the two required (c08CaseTwins);
//   * the same union of plain scalars, nullable, as the type of two or three members of one struct or of
//     two structs, most of them required (c08SharedNullUnions) — the compiler turns the union into an
//     object once and must treat every further use like the first.
// And the documents that tell: for a valid document, every document obtained by omitting ONE optional
// member or by setting ONE nullable member to null is valid too (c08ValidVariants). They are emitted with
// kind `valid` and the member's path, so the oracle for valid documents applies and the shrinker can slice
// along the path.

import (
	"sort"
	"strings"
	"unicode"
)

// c08TwinName: a case variant of a member name whose generated Go identifier differs from the
// original's (cog upper-cases the first letter only): all upper case, or second letter upper case.
func c08TwinName(name string, r *rng) (string, bool) {
	if len(name) < 2 {
		return "", false
	}
	for _, c := range name {
		if !unicode.IsLower(c) || c > 'z' {
			return "", false
		}
	}
	if r.chance(50) {
		return strings.ToUpper(name), true
	}
	return name[:1] + strings.ToUpper(name[1:2]) + name[2:], true
}

func c08CaseTwins(d0 *Defs, r *rng) (*Defs, int) {
	d := d0.clone()
	made := 0
	structs := c08StructNodes(d)
	for si, st := range structs {
		if si > 0 && !r.chance(45) {
			continue
		}
		cands := []int{}
		for i, f := range st.Fields {
			if _, ok := c08TwinName(f.Name, newRng(1)); ok {
				cands = append(cands, i)
			}
		}
		if len(cands) == 0 {
			continue
		}
		i := pick(r, cands)
		orig := st.Fields[i]
		tw, _ := c08TwinName(orig.Name, r)
		clash := false
		for _, f := range st.Fields {
			clash = clash || strings.EqualFold(f.Name, tw) && f.Name != orig.Name
		}
		if clash {
			continue
		}
		leaf := pick(r, []*Src{srcString(), srcBool(), srcInt(64, true, nil, nil)})
		twin := Field{Name: tw, Ty: leaf, Required: !orig.Required}
		pos := r.intn(len(st.Fields) + 1)
		st.Fields = append(st.Fields[:pos:pos], append([]Field{twin}, st.Fields[pos:]...)...)
		made++
	}
	if made == 0 || d.wf() != nil {
		return d0, 0
	}
	return d, made
}

func c08PlainUnion(s *Src) bool {
	if s == nil || s.Kind != SOneOfScalars || len(s.Alts) < 2 {
		return false
	}
	for _, a := range s.Alts {
		switch a.Kind {
		case SString, SBool, SInt, SNum:
			if a.DateTime || a.Lo != nil || a.Hi != nil || a.FLo != nil || a.FHi != nil || a.MinLen != nil || a.MaxLen != nil {
				return false
			}
		default:
			return false
		}
	}
	return !altsOverlap(s.Alts)
}

func c08SharedNullUnions(d0 *Defs, r *rng) (*Defs, int) {
	d := d0.clone()
	// an existing union of plain scalars, or a fresh one
	var u *Src
	for _, it := range d.Items {
		c08WalkSrc(it.Ty, func(s *Src) {
			if u == nil && c08PlainUnion(s) && r.chance(60) {
				u = s.clone()
			}
		})
	}
	if u == nil {
		u = pick(r, []*Src{
			srcOneOfScalars(srcString(), srcInt(64, true, nil, nil)),
			srcOneOfScalars(srcBool(), srcNum(64, nil, nil)),
			srcOneOfScalars(srcInt(64, true, nil, nil), srcString(), srcBool()),
			srcOneOfScalars(srcNum(64, nil, nil), srcString()),
		})
	}
	structs := c08StructNodes(d)
	if len(structs) == 0 {
		return d0, 0
	}
	// two or three uses: in one struct, or spread over two
	holders := []*Src{structs[0]}
	if len(structs) > 1 && r.chance(60) {
		holders = append(holders, structs[1+r.intn(len(structs)-1)])
	}
	uses := 2 + r.intn(2)
	made := 0
	for k := 0; k < uses; k++ {
		h := holders[k%len(holders)]
		if k == 0 && len(holders) > 1 && r.chance(50) {
			h = holders[1]
		}
		name := ""
		for try := 0; try < 40 && name == ""; try++ {
			n := pick(r, fieldNames)
			if try > 20 {
				n += string(rune('a' + r.intn(26)))
			}
			free := true
			for _, f := range h.Fields {
				free = free && normName(f.Name) != normName(n)
			}
			if free {
				name = n
			}
		}
		if name == "" {
			continue
		}
		f := Field{Name: name, Ty: u.clone(), Required: k < 2 || r.chance(50), Nullable: k < 2 || r.chance(50)}
		pos := r.intn(len(h.Fields) + 1)
		h.Fields = append(h.Fields[:pos:pos], append([]Field{f}, h.Fields[pos:]...)...)
		made++
	}
	if made < 2 || d.wf() != nil {
		return d0, 0
	}
	return d, made
}

// ---- valid variants of a valid document ----

type c08VarSite struct {
	path []pathEl // the object
	key  string
	null bool   // set to null (else: delete)
	tag  string // what the site exercises, for the coverage rows
}

func c08VariantSites(d *Defs, ty *Src, node *JV, path []pathEl, depth int, out *[]c08VarSite) {
	if node == nil || depth > 30 {
		return
	}
	ty = d.resolve(ty)
	if ty == nil {
		return
	}
	if inner, ok := ty.unwrap(); ok {
		if !node.isNull() {
			c08VariantSites(d, inner, node, path, depth+1, out)
		}
		return
	}
	switch ty.Kind {
	case SStruct:
		if node.K != 'o' {
			return
		}
		for fi, f := range ty.Fields {
			child, present := node.get(f.Name)
			if !present {
				continue
			}
			if !f.Required {
				tag := "omitOptional"
				for _, g := range ty.Fields {
					if g.Name != f.Name && strings.EqualFold(g.Name, f.Name) && g.Required {
						tag = "omitOptional.caseTwinOfRequired"
					}
				}
				*out = append(*out, c08VarSite{append([]pathEl(nil), path...), f.Name, false, tag})
			}
			if f.Nullable && !child.isNull() {
				tag := "nullAtNullable"
				if ft := d.resolve(f.Ty); f.Required && ft != nil && ft.Kind == SOneOfScalars {
					tag = "nullAtNullable.requiredUnion"
					_ = fi
					if c08RequiredNullableUses(d, f.Ty.sexp()) >= 2 {
						tag = "nullAtNullable.requiredUnionUsedTwice"
					}
				}
				*out = append(*out, c08VarSite{append([]pathEl(nil), path...), f.Name, true, tag})
			}
			if !child.isNull() {
				c08VariantSites(d, f.Ty, navigate(node, []pathEl{{key: f.Name}}), extPath(path, pathEl{key: f.Name}), depth+1, out)
			}
		}
	case SArray:
		if node.K == 'a' {
			for i := range node.A {
				c08VariantSites(d, ty.Elem, &node.A[i], extPath(path, pathEl{idx: i, arr: true}), depth+1, out)
			}
		}
	case SDict:
		if node.K == 'o' {
			for i := range node.O {
				c08VariantSites(d, ty.Elem, &node.O[i].V, extPath(path, pathEl{key: node.O[i].K}), depth+1, out)
			}
		}
	case SOneOfStructs:
		if node.K == 'o' {
			if dv, ok := node.get(ty.Disc); ok && dv.K == 's' {
				for _, b := range ty.Branches {
					if b.Tag == dv.S {
						c08VariantSites(d, srcRef(b.Name), node, path, depth+1, out)
					}
				}
			}
		}
	}
}

// c08ValidVariants: up to max variants of base (all of them when the document offers fewer).
func c08ValidVariants(d *Defs, base JV, r *rng, max int, tags map[string]int) []c08Doc {
	sites := []c08VarSite{}
	c08VariantSites(d, srcRef(d.Root), &base, nil, 0, &sites)
	out := []c08Doc{}
	for k := 0; k < max && len(sites) > 0; k++ {
		i := r.intn(len(sites))
		s := sites[i]
		sites = append(sites[:i], sites[i+1:]...)
		doc := base.clone()
		obj := navigate(&doc, s.path)
		if obj == nil || obj.K != 'o' {
			continue
		}
		if s.null {
			for j := range obj.O {
				if obj.O[j].K == s.key {
					obj.O[j].V = jNull()
				}
			}
		} else {
			obj.del(s.key)
		}
		tags[s.tag]++
		out = append(out, c08Doc{kind: "valid", path: pathString(extPath(s.path, pathEl{key: s.key})), doc: doc})
	}
	return out
}

// c08RequiredNullableUses: how many required nullable members of the term have this type.
func c08RequiredNullableUses(d *Defs, tySexp string) int {
	n := 0
	for _, st := range c08StructNodes(d) {
		for _, f := range st.Fields {
			if f.Required && f.Nullable && f.Ty.sexp() == tySexp {
				n++
			}
		}
	}
	return n
}

func c08SortedKeys(m map[string]int) []string {
	out := []string{}
	for k := range m {
		out = append(out, k)
	}
	sort.Strings(out)
	return out
}
