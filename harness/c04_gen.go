package main

// C04 case generators.
//   run-corpus   pinned inputs (one per known/suspected panic mechanism) — always executed first
//   run-seed     every schema of the repo's testdata, unchanged, under random outputs/flags
//   run-mut      grammar-aware / text / byte mutations of those schemas
//   cuegen       CUE texts drawn from the grammar (c04_cuegen.go): every label / value form in every position
//   ir           generated IR (well-formed and malformed) through passes / chains / FromAST / contexts
//   passes-yaml  generated compiler-pass documents on generated IR (c04_cfggen.go)
//   veneers-yaml generated veneer documents on generated IR (c04_cfggen.go)
//   config       generated pipeline configuration documents (c04_cfggen.go)

import (
	"fmt"
	"os"
	"path/filepath"
	"sort"
	"strings"
)

type c04Seed struct {
	format string // jsonschema | openapi | cue
	name   string
	pkg    string
	files  map[string][]byte // relative to the input directory
	main   string            // main file (json) — for cue: the .cue file to mutate
}

func c04ReadDir(dir string, into map[string][]byte, rel string) {
	entries, _ := os.ReadDir(dir)
	for _, e := range entries {
		if e.Name() == "GenerateAST" {
			continue
		}
		p := filepath.Join(dir, e.Name())
		if e.IsDir() {
			c04ReadDir(p, into, filepath.Join(rel, e.Name()))
			continue
		}
		data, err := os.ReadFile(p)
		if err == nil && len(data) < 1<<20 {
			into[filepath.Join(rel, e.Name())] = data
		}
	}
}

// paths are relative to the cog repository (the harness runs with cwd = REPO)
func c04Seeds() []c04Seed {
	var seeds []c04Seed
	for _, d := range []struct{ format, dir, main string }{
		{"jsonschema", "testdata/jsonschema", "schema.json"},
		{"openapi", "testdata/openapi", "schema.json"},
		{"cue", "testdata/simplecue", "schema.cue"},
	} {
		entries, _ := os.ReadDir(d.dir)
		for _, e := range entries {
			if !e.IsDir() {
				continue
			}
			s := c04Seed{format: d.format, name: e.Name(), pkg: strings.ReplaceAll(e.Name(), "-", "_"), files: map[string][]byte{}, main: d.main}
			c04ReadDir(filepath.Join(d.dir, e.Name()), s.files, "")
			if data, ok := s.files[d.main]; ok {
				if d.format == "cue" {
					for _, l := range strings.Split(string(data), "\n") {
						if strings.HasPrefix(l, "package ") {
							s.pkg = strings.TrimSpace(l[8:])
						}
					}
				}
				seeds = append(seeds, s)
			}
		}
	}
	entries, _ := os.ReadDir("testdata/schemas")
	for _, e := range entries {
		if e.IsDir() {
			s := c04Seed{format: "cue", name: "schemas_" + e.Name(), pkg: e.Name(), files: map[string][]byte{}, main: e.Name() + ".cue"}
			c04ReadDir(filepath.Join("testdata/schemas", e.Name()), s.files, "")
			if _, ok := s.files[s.main]; ok {
				seeds = append(seeds, s)
			}
		}
	}
	// the published config schemas are JSON Schema 2020-12 documents of realistic size
	for _, f := range []string{"compiler_passes", "pipeline", "veneers"} {
		data, err := os.ReadFile(filepath.Join("schemas", f+".json"))
		if err == nil {
			seeds = append(seeds, c04Seed{format: "jsonschema", name: "published_" + f, pkg: f, files: map[string][]byte{"schema.json": data}, main: "schema.json"})
		}
	}
	sort.SliceStable(seeds, func(i, j int) bool { return seeds[i].format+"/"+seeds[i].name < seeds[j].format+"/"+seeds[j].name })
	return seeds
}

// ---------- pipeline configuration for a schema input ----------

type c04Out struct {
	langs                                     []string
	types, builders, converters, apiReference bool
	flags                                     map[string]bool
	noValidate                                bool
}

func c04RandomOut(r *rng) c04Out {
	o := c04Out{flags: map[string]bool{}}
	switch r.intn(4) {
	case 0: // everything
		o.langs = append([]string{}, c04Langs...)
	case 1: // one language
		o.langs = []string{pick(r, c04Langs)}
	default:
		for _, l := range c04Langs {
			if r.chance(45) {
				o.langs = append(o.langs, l)
			}
		}
		if len(o.langs) == 0 {
			o.langs = []string{pick(r, c04Langs)}
		}
	}
	o.types = !r.chance(10)
	o.builders = r.chance(65)
	o.converters = r.chance(50)
	o.apiReference = r.chance(35)
	for _, f := range []string{"go.generate_json_marshaller", "go.generate_strict_unmarshaller", "go.generate_equal", "go.generate_validate", "go.any_as_interface", "go.skip_runtime", "go.skip_post_formatting",
		"python.generate_json_marshaller", "python.skip_runtime", "java.generate_json_marshaller", "java.skip_runtime", "php.generate_json_marshaller",
		"typescript.skip_runtime", "typescript.skip_index", "typescript.enums_as_union_types", "jsonschema.compact", "openapi.compact"} {
		o.flags[f] = r.chance(50)
	}
	o.noValidate = r.chance(50)
	return o
}

func (o c04Out) describe() string {
	var fl []string
	for k, v := range o.flags {
		if v {
			for _, l := range o.langs {
				if strings.HasPrefix(k, l+".") {
					fl = append(fl, k)
				}
			}
		}
	}
	sort.Strings(fl)
	return fmt.Sprintf("langs=%s types=%v builders=%v converters=%v api_reference=%v no_validate=%v flags=%s",
		strings.Join(o.langs, ","), o.types, o.builders, o.converters, o.apiReference, o.noValidate, strings.Join(fl, ","))
}

func (o c04Out) node() *c04JNode {
	langs := c04JArr()
	for _, l := range o.langs {
		cfg := c04JObj()
		switch l {
		case "go":
			cfg.set("package_root", c04JStr("example.com/lab"))
		case "java":
			cfg.set("package_path", c04JStr("lab"))
		case "php":
			cfg.set("namespace_root", c04JStr("Lab"))
		}
		var keys []string
		for k := range o.flags {
			keys = append(keys, k)
		}
		sort.Strings(keys)
		for _, k := range keys {
			if o.flags[k] && strings.HasPrefix(k, l+".") {
				cfg.set(k[len(l)+1:], c04JBool(true))
			}
		}
		langs.vals = append(langs.vals, c04JObj(l, cfg))
	}
	return c04JObj("directory", c04JStr("out/%l"), "types", c04JBool(o.types), "builders", c04JBool(o.builders),
		"converters", c04JBool(o.converters), "api_reference", c04JBool(o.apiReference), "languages", langs)
}

func c04InputNode(format, pkg, main string, noValidate bool) *c04JNode {
	switch format {
	case "jsonschema":
		return c04JObj("jsonschema", c04JObj("path", c04JStr("%__config_dir%/in/"+main), "package", c04JStr(pkg)))
	case "openapi":
		in := c04JObj("path", c04JStr("%__config_dir%/in/"+main), "package", c04JStr(pkg))
		if noValidate {
			in.set("no_validate", c04JBool(true))
		}
		return c04JObj("openapi", in)
	default:
		return c04JObj("cue", c04JObj("entrypoint", c04JStr("%__config_dir%/"+pkg), "package", c04JStr(pkg)))
	}
}

// the CUE loader wants the files in a directory named like the package, with a package clause
func c04InputDir(s c04Seed) string {
	if s.format == "cue" {
		return s.pkg
	}
	return "in"
}

func c04CuePackage(s c04Seed, rel string, data []byte) []byte {
	if s.format != "cue" || !strings.HasSuffix(rel, ".cue") || strings.HasPrefix(string(data), "package ") || strings.Contains(string(data), "\npackage ") {
		return data
	}
	return append([]byte("package "+s.pkg+"\n\n"), data...)
}

// c04RunCase assembles a kind=run case: the input files below in/, and cog.yaml next to it.
func c04RunCase(id, note string, s c04Seed, files map[string][]byte, out c04Out) *c04Case {
	c := &c04Case{ID: id, Kind: "run", Config: "cog.yaml", Files: map[string][]byte{}}
	for rel, data := range files {
		c.Files[filepath.Join(c04InputDir(s), rel)] = c04CuePackage(s, rel, data)
	}
	cfg := c04JObj("inputs", c04JArr(c04InputNode(s.format, s.pkg, s.main, out.noValidate)), "output", out.node())
	c.Files["cog.yaml"] = []byte(cfg.String())
	c.Note = fmt.Sprintf("format=%s seed=%s %s %s", s.format, s.name, note, out.describe())
	return c
}

func c04AllOut() c04Out {
	o := c04Out{langs: append([]string{}, c04Langs...), types: true, builders: true, converters: true, apiReference: true, flags: map[string]bool{}, noValidate: true}
	for _, f := range []string{"go.generate_json_marshaller", "go.generate_strict_unmarshaller", "go.generate_equal", "go.generate_validate", "python.generate_json_marshaller", "java.generate_json_marshaller", "php.generate_json_marshaller"} {
		o.flags[f] = true
	}
	return o
}

// ---------- the pinned corpus ----------

type c04Pinned struct {
	name, format, text string
	validate           bool
	langs              []string
	extra              map[string]string // further files next to the main one
}

const c04OA = `{"openapi":"3.0.0","info":{"title":"t","version":"0"},"paths":{},"components":{"schemas":`

var c04Corpus = []c04Pinned{
	{name: "openapi-enum-without-type", format: "openapi", text: c04OA + `{"E":{"enum":["a","b"]}}}}`},
	{name: "openapi-enum-without-type-validated", format: "openapi", validate: true, text: c04OA + `{"E":{"enum":["a","b"]}}}}`},
	{name: "openapi-array-without-items", format: "openapi", text: c04OA + `{"A":{"type":"array"}}}}`},
	{name: "openapi-array-without-items-validated", format: "openapi", validate: true, text: c04OA + `{"A":{"type":"array"}}}}`},
	{name: "openapi-minimum-without-type", format: "openapi", text: c04OA + `{"S":{"type":"object","properties":{"n":{"minimum":1,"allOf":[{"type":"string"}]},"s":{"type":"string","minimum":1}}}}}}`},
	{name: "openapi-string-with-minimum", format: "openapi", text: c04OA + `{"S":{"type":"string","minimum":1}}}}`},
	{name: "openapi-nil-property", format: "openapi", text: c04OA + `{"S":{"type":"object","properties":{"p":null}}}}}`},
	{name: "openapi-nil-component", format: "openapi", text: c04OA + `{"S":null}}}`},
	{name: "openapi-allof-python", format: "openapi", langs: []string{"python"}, text: c04OA + `{"A":{"type":"object","properties":{"a":{"type":"string"}}},"B":{"allOf":[{"$ref":"#/components/schemas/A"},{"type":"object","properties":{"b":{"type":"string"}}}]}}}}`},
	{name: "openapi-alias-cycle", format: "openapi", text: c04OA + `{"A":{"$ref":"#/components/schemas/B"},"B":{"$ref":"#/components/schemas/A"},"S":{"type":"object","required":["f"],"properties":{"f":{"$ref":"#/components/schemas/A"}}}}}}`},
	{name: "openapi-discriminator-on-scalars", format: "openapi", text: c04OA + `{"A":{"type":"string"},"B":{"type":"integer"},"U":{"oneOf":[{"$ref":"#/components/schemas/A"},{"$ref":"#/components/schemas/B"}],"discriminator":{"propertyName":"kind"}}}}}`},
	{name: "openapi-discriminator-nonstring-const", format: "openapi", text: c04OA + `{"A":{"type":"object","required":["kind"],"properties":{"kind":{"type":"integer","enum":[1]}}},"B":{"type":"object","required":["kind"],"properties":{"kind":{"type":"string","pattern":"^b$"}}},"U":{"oneOf":[{"$ref":"#/components/schemas/A"},{"$ref":"#/components/schemas/B"}],"discriminator":{"propertyName":"kind"}}}}}`},
	{name: "openapi-empty-enum-name", format: "openapi", text: c04OA + `{"E":{"type":"string","enum":["","a"]},"N":{"type":"integer","enum":[1,-1]}}}}`},
	{name: "jsonschema-tuple-items-draft07", format: "jsonschema", text: `{"$schema":"http://json-schema.org/draft-07/schema#","type":"object","properties":{"t":{"type":"array","items":[{"type":"string"},{"type":"integer"}]}}}`},
	{name: "jsonschema-additional-properties-true", format: "jsonschema", text: `{"$schema":"http://json-schema.org/draft-07/schema#","type":"object","additionalProperties":true}`},
	{name: "jsonschema-mixed-enum", format: "jsonschema", text: `{"$schema":"http://json-schema.org/draft-07/schema#","definitions":{"E":{"enum":["a",1,null,""]}},"type":"object","properties":{"e":{"$ref":"#/definitions/E"}}}`},
	{name: "jsonschema-empty-string-enum", format: "jsonschema", text: `{"$schema":"http://json-schema.org/draft-07/schema#","definitions":{"E":{"type":"string","enum":["","a"]}},"type":"object","properties":{"e":{"$ref":"#/definitions/E"}}}`},
	{name: "jsonschema-root-self-ref", format: "jsonschema", text: `{"$schema":"http://json-schema.org/draft-07/schema#","$ref":"#"}`},
	{name: "jsonschema-alias-cycle", format: "jsonschema", text: `{"$schema":"http://json-schema.org/draft-07/schema#","definitions":{"A":{"$ref":"#/definitions/B"},"B":{"$ref":"#/definitions/A"}},"type":"object","properties":{"f":{"$ref":"#/definitions/A"}},"required":["f"]}`},
	{name: "jsonschema-const-non-string-discriminator", format: "jsonschema", text: `{"$schema":"http://json-schema.org/draft-07/schema#","definitions":{"A":{"type":"object","required":["kind"],"properties":{"kind":{"const":1}}},"B":{"type":"object","required":["kind"],"properties":{"kind":{"const":2}}}},"type":"object","properties":{"u":{"oneOf":[{"$ref":"#/definitions/A"},{"$ref":"#/definitions/B"}]}}}`},
	{name: "jsonschema-discriminator-const-array", format: "jsonschema", text: `{"$schema":"http://json-schema.org/draft-07/schema#","definitions":{"A":{"type":"object","properties":{"kind":{"type":"string","const":[]}}},"B":{"type":"object","properties":{"kind":{"type":"string","const":"b"}}}},"type":"object","properties":{"u":{"oneOf":[{"$ref":"#/definitions/A"},{"$ref":"#/definitions/B"}]}}}`},
	{name: "jsonschema-oneof-refs-to-scalars", format: "jsonschema", text: `{"$schema":"http://json-schema.org/draft-07/schema#","definitions":{"A":{"type":"string"},"B":{"type":"integer"}},"type":"object","properties":{"u":{"oneOf":[{"$ref":"#/definitions/A"},{"$ref":"#/definitions/B"}]}}}`},
	{name: "jsonschema-empty-property-name", format: "jsonschema", text: `{"$schema":"http://json-schema.org/draft-07/schema#","type":"object","properties":{"":{"type":"string"},"-":{"type":"object","properties":{"":{"type":"integer"}}}}}`},
	{name: "jsonschema-empty-definition-name", format: "jsonschema", text: `{"$schema":"http://json-schema.org/draft-07/schema#","definitions":{"":{"type":"object","properties":{"a":{"type":"string"}}}},"type":"object","properties":{"e":{"$ref":"#/definitions/"}}}`},
	{name: "jsonschema-variant-on-ref-root", format: "jsonschema", text: `{"$schema":"http://json-schema.org/draft-07/schema#","$ref":"#/definitions/A","definitions":{"A":{"$ref":"#/definitions/B"},"B":{"type":"string"}}}`},
	// regression of /repo 56f489a: a recursive object of ANOTHER package reached through a reference,
	// with the jsonschema / openapi output languages (GenerateSchema looped forever)
	{name: "openapi-foreign-recursive-object", format: "openapi", langs: []string{"jsonschema", "openapi"},
		text:  c04OA + `{"Kind":{"$ref":"refs/q.json#/components/schemas/D"},"S":{"type":"object","properties":{"k":{"$ref":"refs/q.json#/components/schemas/D"}}}}}}`,
		extra: map[string]string{"refs/q.json": c04OA + `{"D":{"type":"object","properties":{"a":{"$ref":"#/components/schemas/D"}}}}}}`}},
	{name: "openapi-null-list-element", format: "openapi", text: c04OA + `{"A":{"allOf":[null,{"type":"object"}]},"B":{"oneOf":[null]},"C":{"type":"object","additionalProperties":null},"D":{"type":"array","items":null}}}}`},
	{name: "cue-self-alias", format: "cue", text: "#A: #A\nb: #A\n"},
	{name: "cue-self-referential-field", format: "cue", langs: []string{"go"}, text: "#a: #A & {x: 1}\n#A: {x: #A.x}\n"},
	{name: "cue-recursive-array", format: "cue", langs: []string{"go"}, text: "container: {\n    m: {[string]: #A}\n    n: int\n}\n\n#A: [...#A]\n"},
	{name: "openapi-self-anyof-validated", format: "openapi", validate: true, text: c04OA + `{"Array":{"type":"array","items":{"type":"string"},"default":["anything"],"discriminator":{"propertyName":"type"},"anyOf":[{"type":"string"},{"$ref":"#/components/schemas/Array"},{"type":"array","items":{"type":"integer"}}]}}}}`},
	{name: "openapi-enum-array-member", format: "openapi", langs: []string{"typescript"}, text: c04OA + `{"Refs":{"type":"object","required":["ref"],"properties":{"ref":{"$ref":"#/components/schemas/Test"}}},"Test":{"type":"string","enum":[["x"]]}}}}`},
	{name: "openapi-empty-enum", format: "openapi", text: c04OA + `{"E":{"type":"string","enum":[]},"S":{"type":"object","properties":{"e":{"$ref":"#/components/schemas/E"}}}}}}`},
	{name: "openapi-empty-oneof", format: "openapi", text: c04OA + `{"U":{"oneOf":[]},"S":{"type":"object","properties":{"u":{"$ref":"#/components/schemas/U"}}}}}}`},
	{name: "jsonschema-recursive-union", format: "jsonschema", text: `{"$schema":"http://json-schema.org/draft-07/schema#","definitions":{"X":{"oneOf":[{"$ref":"#/definitions/X"},{"type":"string","const":"a"}]}},"type":"object","properties":{"x":{"$ref":"#/definitions/X"}}}`},
	{name: "jsonschema-null-null", format: "jsonschema", text: `{"$schema":"http://json-schema.org/draft-07/schema#","type":"object","properties":{"n":{"oneOf":[{"type":"null"},{"type":"null"}]}}}`},
	{name: "cue-empty", format: "cue", text: ""},
	{name: "cue-enum-attr-no-members", format: "cue", text: "E: \"a\" | \"b\" @cuetsy(kind=\"enum\",memberNames=\"x\")\n"},
	{name: "cue-int-enum-no-names", format: "cue", text: "E: 1 | 2 @cuetsy(kind=\"enum\")\n"},
}

func c04CorpusCases() []*c04Case {
	var out []*c04Case
	for _, p := range c04Corpus {
		main := "schema.json"
		if p.format == "cue" {
			main = "schema.cue"
		}
		s := c04Seed{format: p.format, name: "corpus", pkg: "corpus", main: main}
		o := c04AllOut()
		o.noValidate = !p.validate
		if p.langs != nil {
			o.langs = p.langs
		}
		files := map[string][]byte{main: []byte(p.text)}
		for k, v := range p.extra {
			files[k] = []byte(v)
		}
		c := c04RunCase("corpus/"+p.name, "pinned="+p.name, s, files, o)
		out = append(out, c)
	}
	return out
}

// ---------- streams of cases ----------

func c04SeedCases(r *rng, seeds []c04Seed, perSeed int) []*c04Case {
	var out []*c04Case
	for _, s := range seeds {
		out = append(out, c04RunCase("seed/"+s.format+"/"+s.name+"/all", "unchanged", s, s.files, c04AllOut()))
		for i := 0; i < perSeed; i++ {
			out = append(out, c04RunCase(fmt.Sprintf("seed/%s/%s/%d", s.format, s.name, i), "unchanged", s, s.files, c04RandomOut(r)))
		}
	}
	return out
}

func c04MutCase(r *rng, seeds []c04Seed, i int) *c04Case {
	s := pick(r, seeds)
	files := map[string][]byte{}
	for k, v := range s.files {
		files[k] = v
	}
	// mutate the main file most of the time, a side file otherwise
	target := s.main
	if len(files) > 1 && r.chance(25) {
		var names []string
		for k := range files {
			names = append(names, k)
		}
		sort.Strings(names)
		target = pick(r, names)
	}
	data := files[target]
	var note string
	mode := r.intn(100)
	switch {
	case s.format == "cue" && mode < 80:
		txt := string(data)
		var notes []string
		for k := 1 + r.intn(3); k > 0; k-- {
			var d string
			txt, d = c04MutateCUE(r, txt)
			notes = append(notes, d)
		}
		data, note = []byte(txt), strings.Join(notes, ";")
	case s.format != "cue" && mode < 85:
		root, err := c04JParse(data)
		if err != nil {
			data, note = c04MutateBytes(r, data)
			break
		}
		var notes []string
		for k := 1 + r.intn(3); k > 0; k-- {
			notes = append(notes, c04MutateSchema(r, root))
		}
		data, note = []byte(root.String()), strings.Join(notes, ";")
	default:
		data, note = c04MutateBytes(r, data)
	}
	files[target] = data
	return c04RunCase(fmt.Sprintf("mut/%d", i), "mutate="+target+":"+note, s, files, c04RandomOut(r))
}

var c04IROps = func() string {
	ops := []string{}
	for _, n := range c04PassNames() {
		ops = append(ops, "pass:"+n)
	}
	for _, l := range c04Langs {
		ops = append(ops, "chain:"+l)
	}
	ops = append(ops, "fromast")
	for _, l := range []string{"go", "java", "php", "python", "typescript"} {
		ops = append(ops, "context:"+l)
	}
	return strings.Join(ops, ",")
}()

func c04IRCase(seed uint64, i int, malformed bool, depth int) *c04Case {
	return &c04Case{ID: fmt.Sprintf("ir/%d/%d/%v", seed, i, malformed), Kind: "ir", Seed: seed, Idx: i, Malformed: malformed, Depth: depth, Op: c04IROps,
		Note: fmt.Sprintf("ir malformed=%v", malformed)}
}
