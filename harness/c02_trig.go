package main

// C02 — trigger detectors: decidable predicates on the (shrunk) failing term + configuration that
// name the construct a known mechanism needs. A failure is covered by a known finding only if its
// compiler-diagnostic class AND the trigger of that finding are both present in the case text.

import (
	"sort"
	"strings"

	"github.com/grafana/cog/internal/tools"
)

func (d *Defs) c02Resolve(s *Src) *Src {
	for i := 0; i < 20 && s != nil && s.Kind == SRef; i++ {
		s = d.lookup(s.Ref)
	}
	return s
}

func c02IsScalarKind(k SrcKind) bool {
	switch k {
	case SAny, SBool, SString, SConst, SInt, SNum, SEnumS, SEnumI:
		return true
	}
	return false
}

// c02Walk visits every type node of a term (field types, element types, alternatives).
func (d *Defs) c02Walk(f func(s *Src, field *Field)) {
	var rec func(s *Src, field *Field)
	rec = func(s *Src, field *Field) {
		if s == nil {
			return
		}
		f(s, field)
		switch s.Kind {
		case SArray, SDict:
			rec(s.Elem, nil)
		case SStruct:
			for i := range s.Fields {
				rec(s.Fields[i].Ty, &s.Fields[i])
			}
		case SOneOfScalars:
			for _, a := range s.Alts {
				rec(a, nil)
			}
		}
	}
	for _, it := range d.Items {
		rec(it.Ty, nil)
	}
}

// c02Triggers lists the constructs of `d` (under configuration `c`) that known mechanisms need.
func c02Triggers(d *Defs, c c02Combo) []string {
	if d == nil {
		return nil
	}
	set := map[string]bool{}
	hasArrayOfNonScalar, hasDictOfNonScalar, hasUnion := false, false, false
	d.c02Walk(func(s *Src, field *Field) {
		switch s.Kind {
		case SStruct:
			seen := map[string]string{}
			for _, f := range s.Fields {
				k := tools.UpperCamelCase(f.Name)
				if prev, dup := seen[k]; dup && prev != f.Name {
					set["name.collide"] = true
				}
				seen[k] = f.Name
			}
			if len(s.Fields) == 0 {
				set["struct.empty"] = true
			}
		case SEnumI:
			set["enumI"] = true
			vals := map[int64]bool{}
			for _, v := range s.EnumI {
				vals[v] = true
			}
			for _, v := range s.EnumI {
				if v != 0 && vals[-v] {
					set["enumI.signCollision"] = true
				}
			}
		case SEnumS:
			if len(s.EnumS) == 1 {
				set["enumS.single"] = true
			}
		case SArray:
			c02NestedCollection(d, s, set)
			if e := d.c02Resolve(s.Elem); e != nil && !c02IsScalarKind(e.Kind) {
				hasArrayOfNonScalar = true
				if e.Kind == SDict {
					if ee := d.c02Resolve(e.Elem); ee != nil && ee.Kind == SStruct {
						set["array.of.dict.of.struct"] = true
					}
				}
			}
		case SInt:
			lo, hi := s.effRange()
			if (s.Lo != nil || s.Hi != nil) && (hi > 2147483647 || lo < -2147483648) {
				set["int.bounds.beyondInt32"] = true
			}
		case SAny:
			set["any"] = true
		case SRef:
			if t := d.lookup(s.Ref); t != nil && t.Kind == SEnumS && len(t.EnumS) == 1 {
				set["ref.to.single.enumS"] = true
			}
		case SDict:
			c02NestedCollection(d, s, set)
			if e := d.c02Resolve(s.Elem); e != nil && !c02IsScalarKind(e.Kind) {
				hasDictOfNonScalar = true
			}
		case SOneOfScalars, SOneOfStructs:
			hasUnion = true
		}
		if field != nil {
			r := d.c02Resolve(field.Ty)
			if field.Default != nil {
				def := field.Default
				if def.K == 'a' {
					for _, e := range def.A {
						if e.K != 's' {
							set["default.list.nonString"] = true
						}
					}
					if len(def.A) == 0 {
						set["default.emptyList"] = true
					}
				}
				if def.K == 'n' && r != nil && r.Kind == SInt {
					if len(strings.TrimLeft(def.S, "-")) > 15 {
						set["default.int.huge"] = true
					}
				}
				if def.K == 'o' && r != nil && r.Kind == SStruct {
					if field.Ty.Kind == SStruct {
						set["default.inline.struct"] = true
					} else {
						set["default.ref.struct"] = true
						if field.Nullable {
							set["default.ref.struct.nullable"] = true
						}
					}
					for _, kv := range def.O {
						for _, sf := range r.Fields {
							if sf.Name == kv.K {
								if st := d.c02Resolve(sf.Ty); st != nil && (st.Kind == SEnumS || st.Kind == SEnumI) {
									set["default.struct.enumField"] = true
								}
								if kv.V.K == 'a' {
									set["default.struct.list"] = true
								}
							}
						}
					}
				}
			}
			if field.Nullable && field.Ty.Kind == SEnumS {
				set["nullable.inline.enumS"] = true
			}
			if !field.Required && field.Ty.Kind == SConst && field.Ty.Const.K == 'n' && c.Builders {
				set["builders+optional.const.int"] = true
			}
		}
	})
	for _, it := range d.Items {
		if it.Ty.Kind == SEnumS && len(it.Ty.EnumS) == 1 {
			set["def.enum.single"] = true
		}
		if it.Name != tools.UpperCamelCase(it.Name) {
			set["name.defCase"] = true
		}
	}
	c02NameTriggers(d, set)
	if hasDictOfNonScalar && !hasArrayOfNonScalar {
		set["dict.nonScalar.noArray"] = true
	}
	if hasUnion {
		set["union"] = true
	}
	if c.Builders {
		for _, k := range []string{"array.of.dict.of.struct", "array.of.array.of.struct", "dict.of.dict.of.struct", "dict.of.array.of.struct"} {
			if set[k] {
				set["builders+"+k] = true
			}
		}
	}
	out := make([]string, 0, len(set))
	for k := range set {
		out = append(out, k)
	}
	sort.Strings(out)
	return out
}

// c02NestedCollection tags a collection of collections whose innermost element is (a reference to) a
// struct: `<outer>.of.<inner>.of.struct` — builder options on these take collections of builders.
func c02NestedCollection(d *Defs, s *Src, set map[string]bool) {
	kind := func(k SrcKind) string {
		if k == SArray {
			return "array"
		}
		return "dict"
	}
	inner := d.c02Resolve(s.Elem)
	if inner == nil || (inner.Kind != SArray && inner.Kind != SDict) {
		return
	}
	leaf := d.c02Resolve(inner.Elem)
	for i := 0; i < 4 && leaf != nil && (leaf.Kind == SArray || leaf.Kind == SDict); i++ {
		leaf = d.c02Resolve(leaf.Elem)
	}
	if leaf != nil && (leaf.Kind == SStruct || leaf.Kind == SOneOfStructs) {
		set[kind(s.Kind)+".of."+kind(inner.Kind)+".of.struct"] = true
	}
}
