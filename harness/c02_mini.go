package main

// C02 streams `c02-mini` and `c02-multi`.
//
// c02-mini: MINIMAL packages, enumerated, not drawn. One struct with one member (plus a few with two),
// over the cross product  leaf kind × required/optional × nullable/not × default/no default, each under
// two fixed configurations (Go default flags with the other languages' marshaller OFF and nothing else;
// everything on: builders, converters, api reference, marshallers) and under configurations that
// rotate through the combination table (all of them in thorough). The random terms of c02-lab are rich:
// whatever one template branch forgets to import / declare is supplied by some other member of the same
// package. In a one-member package a branch stands alone.
//
// c02-multi: pipelines with TWO or THREE inputs (packages) in one run, mixed formats, every package
// carrying an inline struct: anything a pass or jenny keeps across schemas shows only here.
//
// Both build every generated Go package and its declaration fragment in one module (c02BuildGoModule),
// compile Java, import Python and scan all files (c02ReportModule); rows as in c02-ir.

import (
	"bufio"
	"fmt"
	"os"
	"path/filepath"
	"strings"

	"github.com/grafana/cog/internal/codegen"
)

type c02Leaf struct {
	Name string
	Ty   func() *Src
	Defs []Def    // further definitions the leaf refers to
	Dflt []JV     // defaults to try (besides none)
	Fmts []string // input formats that can express the leaf (nil = all)
}

func c02MiniLeaves() []c02Leaf {
	sub := Def{"S", srcStruct(fld("p", srcBool(), true, false, nil))}
	brA := Def{"BrA", srcStruct(fld("kind", srcConst(jStr("aa")), true, false, nil), fld("x", srcBool(), true, false, nil))}
	brB := Def{"BrB", srcStruct(fld("kind", srcConst(jStr("bb")), true, false, nil), fld("y", srcBool(), false, false, nil))}
	one, five := int64(1), int64(5)
	return []c02Leaf{
		{Name: "bool", Ty: srcBool, Dflt: []JV{jBool(true)}},
		{Name: "string", Ty: srcString, Dflt: []JV{jStr("x")}},
		{Name: "stringLen", Ty: func() *Src { return srcStringLen(&one, &five) }},
		{Name: "dateTime", Ty: srcDateTime},
		{Name: "int64", Ty: func() *Src { return srcInt(64, true, nil, nil) }, Dflt: []JV{jInt(7)}},
		{Name: "int32", Ty: func() *Src { return srcInt(32, true, nil, nil) }, Dflt: []JV{jInt(-3)}},
		{Name: "intBounds", Ty: func() *Src { return srcInt(64, true, &one, &five) }},
		{Name: "num64", Ty: func() *Src { return srcNum(64, nil, nil) }, Dflt: []JV{jInt(100), jFloat(0.25)}},
		{Name: "num32", Ty: func() *Src { return srcNum(32, nil, nil) }, Dflt: []JV{jInt(2)}},
		{Name: "enumS", Ty: func() *Src { return srcEnumS("a", "b") }, Dflt: []JV{jStr("b")}},
		{Name: "constS", Ty: func() *Src { return srcConst(jStr("v")) }},
		{Name: "constI", Ty: func() *Src { return srcConst(jInt(2)) }},
		{Name: "any", Ty: srcAny},
		{Name: "arrayString", Ty: func() *Src { return srcArray(srcString()) }, Dflt: []JV{jArr(jStr("a"))}},
		{Name: "arrayRef", Ty: func() *Src { return srcArray(srcRef("S")) }, Defs: []Def{sub}},
		{Name: "dictString", Ty: func() *Src { return srcDict(srcString()) }},
		{Name: "dictRef", Ty: func() *Src { return srcDict(srcRef("S")) }, Defs: []Def{sub}},
		{Name: "ref", Ty: func() *Src { return srcRef("S") }, Defs: []Def{sub}},
		{Name: "inlineStruct", Ty: func() *Src { return srcStruct(fld("q", srcBool(), true, false, nil)) }},
		{Name: "oneOfScalars", Ty: func() *Src { return srcOneOfScalars(srcString(), srcBool()) }},
		{Name: "oneOfStructs", Ty: func() *Src { return srcOneOfStructs("kind", Branch{"aa", "BrA"}, Branch{"bb", "BrB"}) }, Defs: []Def{brA, brB}},
	}
}

type c02MiniShape struct {
	Tag        string
	Defs       *Defs
	Formats    []string // input formats that can express the shape (nil = all)
	Spell      string   // spelling of constants in the source text (c02_spell.go); "" = the renderer's own
	Pinned     bool     // no rotation: every run executes the shape in PinFormats under the everything-on configuration
	PinFormats []string // (thorough: every allowed format, both fixed configurations and the rotating ones)
}

// c02MiniShapes enumerates the one-member packages and, rotating with `rot`, a few two-member ones.
func c02MiniShapes(rot int) []c02MiniShape {
	leaves := c02MiniLeaves()
	out := []c02MiniShape{}
	var fmts []string
	mk := func(tag string, defs []Def, fields ...Field) {
		d := &Defs{Root: "Root", Items: append([]Def{{"Root", srcStruct(fields...)}}, defs...)}
		if d.wf() == nil {
			out = append(out, c02MiniShape{Tag: tag, Defs: d, Formats: fmts})
		}
	}
	bools := []bool{true, false}
	type variant struct {
		l    c02Leaf
		f    Field
		name string
	}
	vars := []variant{}
	for _, l := range leaves {
		dflts := append([]*JV{nil}, func() []*JV {
			ps := []*JV{}
			for i := range l.Dflt {
				ps = append(ps, &l.Dflt[i])
			}
			return ps
		}()...)
		for _, req := range bools {
			for _, null := range bools {
				for di, d := range dflts {
					name := fmt.Sprintf("%s.req=%v.null=%v.dflt=%d", l.Name, req, null, di)
					vars = append(vars, variant{l, fld("a", l.Ty(), req, null, d), name})
				}
			}
		}
	}
	for _, v := range vars {
		fmts = v.l.Fmts
		mk(v.name, v.l.Defs, v.f)
	}
	fmts = nil
	// two members: each variant with one partner, chosen by rotation
	for i := 0; i < len(vars); i += 3 {
		a, b := vars[i], vars[(i*7+rot*13+5)%len(vars)]
		if a.l.Fmts != nil || b.l.Fmts != nil {
			continue
		}
		fb := b.f
		fb.Name = "b"
		fb.Ty = b.l.Ty()
		defs := append([]Def{}, a.l.Defs...)
		seen := map[string]bool{}
		for _, d := range defs {
			seen[d.Name] = true
		}
		for _, d := range b.l.Defs {
			if !seen[d.Name] {
				defs = append(defs, d)
			}
		}
		mk(a.name+"+"+b.name, defs, a.f, fb)
	}
	return out
}

type c02Input struct {
	Format, Pkg string
	Defs        *Defs
}

func c02AddInput(p *codegen.Pipeline, format, path, pkg string) error {
	in := &codegen.Input{}
	switch format {
	case "jsonschema":
		in.JSONSchema = &codegen.JSONSchemaInput{Path: path, Package: pkg}
	case "openapi":
		in.OpenAPI = &codegen.OpenAPIInput{Path: path, Package: pkg}
	case "cue":
		in.Cue = &codegen.CueInput{Entrypoint: path, Package: pkg}
	default:
		return fmt.Errorf("unknown format %s", format)
	}
	p.Inputs = append(p.Inputs, in)
	return nil
}

// c02SrcCase runs ONE pipeline over the given inputs (one package each) and prepares the case for
// c02BuildGoModule / c02ReportModule.
func c02SrcCase(id string, inputs []c02Input, combo c02Combo, work string, degrade int, extraTrig ...string) (*c02IRCase, error) {
	return c02SrcCaseV(id, inputs, combo, work, degrade, "", extraTrig)
}

// c02SrcCaseV: as c02SrcCase, with one builder veneer file (every %PKG% replaced by the first package name).
func c02SrcCaseV(id string, inputs []c02Input, combo c02Combo, work string, degrade int, veneersYAML string, extraTrig []string) (*c02IRCase, error) {
	c := &c02IRCase{c02LangCase: c02LangCase{ID: id, Format: "src", Combo: combo, Group: c02GroupKey(combo)}, Frags: map[string]*c02Fragment{}}
	fmts, srcs := []string{}, []string{}
	trig := map[string]bool{}
	type rendered struct{ format, path, pkg string }
	rs := []rendered{}
	for _, in := range inputs {
		d, _ := degradeDefs(in.Defs, in.Format, degrade)
		ro := renderDefs(d, in.Format, in.Pkg)
		if ro.Text == "" {
			c.GenErr = "unsupported-by-format: " + strings.Join(ro.Unsupported, ",")
			return c, nil
		}
		path, err := writeSchemaFile(filepath.Join(work, "schemas"), in.Format, in.Pkg, ro.Text)
		if err != nil {
			return nil, err
		}
		rs = append(rs, rendered{in.Format, path, in.Pkg})
		c.Pkgs = append(c.Pkgs, in.Pkg)
		fmts = append(fmts, in.Format)
		srcs = append(srcs, d.sexp())
		for _, t := range c02Triggers(d, combo) {
			trig[t] = true
		}
		if c.Defs == nil {
			c.Defs = d
		}
	}
	ts := append([]string{}, extraTrig...)
	for t := range trig {
		ts = append(ts, t)
	}
	c.Format = strings.Join(fmts, "+")
	c.Shape = c02CaseTextMulti(ts, combo.String(), c.Format, srcs)
	opts := c02Opts{Types: true, Builders: combo.Builders, Converters: combo.Converters, APIRef: combo.APIRef, Go: combo.Go,
		EnumsAsUnion: combo.EnumsAsUnion, LangMarshal: combo.LangMarshal, LangSkipRuntime: combo.LangSkipRT}
	if veneersYAML != "" {
		opts.VeneersDir = filepath.Join(work, "veneers", id)
		if err := os.MkdirAll(opts.VeneersDir, 0o755); err != nil {
			return nil, err
		}
		text := strings.ReplaceAll(veneersYAML, "%PKG%", inputs[0].Pkg)
		if err := os.WriteFile(filepath.Join(opts.VeneersDir, "v.yaml"), []byte(text), 0o644); err != nil {
			return nil, err
		}
		c.Shape += " veneers=" + labOneLine(strings.ReplaceAll(text, "\n", " | "))
	}
	build := func() (*codegen.Pipeline, error) {
		p, err := c02Pipeline(rs[0].format, rs[0].path, rs[0].pkg, nil, opts, work)
		if err != nil {
			return nil, err
		}
		for _, r := range rs[1:] {
			if err := c02AddInput(p, r.format, r.path, r.pkg); err != nil {
				return nil, err
			}
		}
		return p, nil
	}
	p, err := build()
	if err != nil {
		return nil, err
	}
	files, err := c02Run(p)
	if err != nil {
		c.GenErr = err.Error()
		return c, nil
	}
	c.Files = files
	p2, err := build()
	if err != nil {
		return nil, err
	}
	post, err := c02PostChainGo(p2)
	if err != nil {
		c.PostErr = err.Error()
	}
	c.PostGo = post
	for _, pkg := range c.Pkgs {
		if src, ok := files["go/"+pkg+"/types_gen.go"]; ok {
			if frag, err := c02ExtractFragment(src, pkg); err == nil {
				c.Frags[pkg] = frag
			}
		}
	}
	return c, nil
}

// c02CaseTextMulti: the tail of the case text (after lang/class) for a case with several inputs.
func c02CaseTextMulti(trig []string, combo, format string, srcs []string) string {
	sortStrings(trig)
	return fmt.Sprintf("trig=%s format=%s %s src=%s", strings.Join(trig, ","), format, combo, strings.Join(srcs, " || "))
}

func sortStrings(xs []string) {
	for i := 1; i < len(xs); i++ {
		for j := i; j > 0 && xs[j] < xs[j-1]; j-- {
			xs[j], xs[j-1] = xs[j-1], xs[j]
		}
	}
}

func c02ReportSrcCases(out *bufio.Writer, work string, cases []*c02IRCase, extra string) error {
	godiags, err := c02BuildGoModule(work, cases)
	if err != nil {
		return err
	}
	counts, err := c02ReportModule(out, work, cases, godiags, func(c *c02IRCase, lang, class string) string {
		return fmt.Sprintf("lang=%s class=%s %s", lang, class, c.Shape)
	})
	if err != nil {
		return err
	}
	for _, c := range cases {
		if c.GenErr != "" {
			counts["run-error-or-unsupported"]++
		}
	}
	fmt.Fprintf(out, "-\tstats cases=%d %v %s\tok\n", len(cases), counts, extra)
	return nil
}

func init() {
	register("c02-mini", func(args map[string]string, out *bufio.Writer) error {
		seed := argInt(args, "seed", 1)
		thorough := args["tier"] == "thorough"
		work := labWorkDir("c02mini-" + args["seed"] + "-" + args["tier"])
		if args["keep"] != "1" {
			defer os.RemoveAll(work)
		}
		shapes := c02MiniShapes(seed)
		// names in non-canonical casings × definition kinds × member-naming defaults; constants × spellings (c02_names.go)
		shapes = append(shapes, c02NameShapes()...)
		shapes = append(shapes, c02ConstShapes()...)
		if only, ok := args["shape"]; ok {
			keep := shapes[:0]
			for _, s := range shapes {
				if strings.Contains(s.Tag, only) {
					keep = append(keep, s)
				}
			}
			shapes = keep
		}
		combos := c02Combos(args["tier"])
		// the fixed configuration: Go defaults (marshaller + strict + equal + validate), no builders,
		// marshaller of the other languages OFF
		fixed := c02Combo{Go: defaultGoFlags()}
		// the second fixed configuration: everything on — builders, converters, api reference, marshallers
		full := c02Combo{Go: defaultGoFlags(), Builders: true, Converters: true, APIRef: true, LangMarshal: true}
		rotating := 1
		if thorough {
			rotating = argInt(args, "rotating", 5)
		}
		cases := []*c02IRCase{}
		hist := map[string]int{}
		k := 0
		for si, s := range shapes {
			allowed := labFormats
			if s.Formats != nil {
				allowed = s.Formats
			}
			formats := []string{allowed[(si+seed)%len(allowed)]}
			if thorough {
				formats = allowed
			} else if s.Pinned {
				formats = s.PinFormats
			}
			for _, f := range formats {
				cfgs := []c02Combo{fixed, full}
				if s.Pinned && !thorough && s.Spell == "" {
					cfgs = []c02Combo{full}
				}
				for r := 0; r < rotating && !(s.Pinned && !thorough); r++ {
					j := si*31 + seed*7 + r*len(shapes) + k
					cfgs = append(cfgs, c02Mode(j, combos[j%len(combos)]))
				}
				for _, cfg := range cfgs {
					id := fmt.Sprintf("m%d%s", k, labFormatSuffix[f])
					k++
					c02Spell = s.Spell
					c, err := c02SrcCase(id, []c02Input{{f, id, s.Defs}}, cfg, work, 2, "mini:"+s.Tag)
					c02Spell = ""
					if err != nil {
						return err
					}
					hist[strings.SplitN(s.Tag, ".", 2)[0]]++
					cases = append(cases, c)
				}
			}
		}
		return c02ReportSrcCases(out, work, cases, fmt.Sprintf("shapes=%d leaves=%v", len(shapes), hist))
	})

	register("c02-multi", func(args map[string]string, out *bufio.Writer) error {
		n := argInt(args, "n", 12)
		seed := uint64(argInt(args, "seed", 1))
		from := argInt(args, "from", 0)
		work := labWorkDir("c02multi-" + args["seed"] + "-" + args["tier"])
		if args["keep"] != "1" {
			defer os.RemoveAll(work)
		}
		combos := c02Combos(args["tier"])
		gen := argGenOpts(args)
		gen.MaxDefs, gen.MaxFields = 2, 4
		c02Spell = "mixed"
		if sp, ok := args["spell"]; ok {
			c02Spell = sp
		}
		cases := []*c02IRCase{}
		for i := from; i < from+n; i++ {
			r := newRng(seed*7919 + uint64(i))
			np := 2 + r.intn(2)
			combo := c02Mode(i+int(seed), combos[(i*5+int(seed))%len(combos)])
			inputs := []c02Input{}
			for k := 0; k < np; k++ {
				f := labFormats[(i+k+int(seed))%len(labFormats)]
				d := c02MaybeRestyle(genDefs(seed*131+uint64(k), i*3+k, gen), i*3+k+int(seed), f)
				// every package has an inline (anonymous) struct
				root := d.lookup(d.Root)
				hasInline := false
				d.c02Walk(func(s *Src, f *Field) {
					if f != nil && s.Kind == SStruct {
						hasInline = true
					}
				})
				if root != nil && root.Kind == SStruct && !hasInline {
					root.Fields = append(root.Fields, fld("zzInline", srcStruct(fld("q", srcBool(), true, false, nil)), k%2 == 0, false, nil))
				}
				inputs = append(inputs, c02Input{f, fmt.Sprintf("x%d%c", i, 'a'+k), d})
			}
			c, err := c02SrcCase(fmt.Sprintf("x%d", i), inputs, combo, work, 2)
			if err != nil {
				return err
			}
			cases = append(cases, c)
		}
		return c02ReportSrcCases(out, work, cases, "")
	})
}
