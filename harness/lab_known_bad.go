package main

// Known-bad corpus: minimal source terms for every construct the bulk generator avoids by
// default because cog (pinned tree) fails on it. The stream `lab-known-bad` replays them through
// the lab with degradation off and reports what is observed today, so that a construct that
// starts working shows up as "not-reproduced".

import (
	"bufio"
	"fmt"
	"regexp"
	"strings"
)

type knownBad struct {
	ID       string
	Switch   string   // generator / renderer switch that re-enables the construct
	What     string   // observed behaviour on the pinned tree
	Formats  []string // formats in which it shows
	Stage    string   // load | generate | go-compile | py-import
	Match    string   // regexp over the diagnostics
	Src      string   // minimal term
	Doc      string   // document for the run-time stages (go-strict, py-run); "" = a generated valid document
	Text     string   // or: schema text (constructs the renderers refuse to print), %PKG% = package name
	Builders bool
	Mapping  string // OpenAPI mapping style, "" = default
}

var knownBadCorpus = []knownBad{
	{ID: "KB01-strconv-unused", Switch: "+dict.nonScalar.noArray", Stage: "go-compile", Match: `"strconv" imported and not used`, Formats: labFormats,
		What: "strict unmarshaller: a map of non-scalars imports strconv, only an array of non-scalars uses it",
		Src:  `(defs "Root" ("Root" (struct (field "a" (dict (ref "S")) false false -))) ("S" (struct (field "p" (string - - false) true false -))))`},
	{ID: "KB02-list-default-nonstring", Switch: "+default.list.nonString", Stage: "go-compile", Match: `cannot use \[\]string\{`, Formats: labFormats,
		What: "a list default of numbers/bools is printed as []string{…}",
		Src:  `(defs "Root" ("Root" (struct (field "a" (array (int 64 true - -)) false false (a (n "1") (n "2"))))))`},
	{ID: "KB03-enum-member-sign-collision", Switch: "+enumI.signCollision", Stage: "go-compile", Match: `redeclared in this block`, Formats: []string{"jsonschema", "openapi"},
		What: "integer enum members 1 and -1 are both named …1",
		Src:  `(defs "Root" ("Root" (struct (field "a" (enumI 1 -1) true false -))))`},
	{ID: "KB04-cue-named-single-enum", Switch: "+def.enum.single", Stage: "go-compile", Match: `is not a type|mismatched types|cannot use`, Formats: []string{"cue"},
		What: "#E: \"b\" is read as a constant; a field referring to it yields Go that does not compile",
		Src:  `(defs "Root" ("Root" (struct (field "a" (ref "E") false false -) (field "b" (array (ref "E")) false false -))) ("E" (enumS "b")))`},
	{ID: "KB05-cue-nullable-inline-enum", Switch: "degrade<2", Stage: "go-compile", Match: `String redeclared`, Formats: []string{"cue"},
		What: "null | \"x\" | \"y\" becomes a union struct with three fields named String",
		Src:  `(defs "Root" ("Root" (struct (field "a" (enumS "x" "y") false true -))))`},
	{ID: "KB06-cue-inline-struct-default", Switch: "degrade<2", Stage: "any", Match: `SyntaxError|imported and not used|unexpected keyword`, Formats: []string{"cue"},
		What: "default on an inline struct: Python gets Go %#v syntax / Go gets an unused import / Python constructor rejects the member",
		Src:  `(defs "Root" ("Root" (struct (field "a" (struct (field "p" (string - - false) false false -) (field "q" (int 64 true - -) false false -)) false false (o ("p" (s "x")))))))`},
	{ID: "KB07-cue-nullable-ref-struct-default-python", Switch: "degrade<2", Stage: "py-import", Match: `SyntaxError`, Formats: []string{"cue"},
		What: "null | #S | *{…}: the default is printed into Python in Go %#v syntax",
		Src:  `(defs "Root" ("Root" (struct (field "a" (ref "S") false true (o ("p" (s "x")))))) ("S" (struct (field "p" (string - - false) false false -))))`},
	{ID: "KB08-cue-struct-default-enum-member", Switch: "+default.struct.enumField", Stage: "go-compile", Match: `undefined: unknown`, Formats: []string{"cue"},
		What: "struct default overriding an enum-typed member prints the Go type `unknown`",
		Src:  `(defs "Root" ("Root" (struct (field "a" (ref "S") false false (o ("e" (s "y")))))) ("S" (struct (field "e" (enumS "x" "y") false false -) (field "p" (bool) false false -))))`},
	{ID: "KB09-cue-two-sided-float-bound", Switch: "degrade=0", Stage: "load", Match: `could not infer number type`, Formats: []string{"cue"},
		What: "float64 & >=a & <=b (and number & …) cannot be read",
		Text: "package %PKG%\n\n#Root: {\n\ta: float64 & >=0.5 & <=7\n}\n"},
	{ID: "KB10-cue-struct-default-with-list", Switch: "+default.struct.list", Stage: "load", Match: `closed lists are not supported`, Formats: []string{"cue"},
		What: "null | #S | *{l: [\"u\"]}: a list inside the struct default of a nullable reference is rejected",
		Src:  `(defs "Root" ("Root" (struct (field "a" (ref "S") false true (o ("l" (a (s "u"))))))) ("S" (struct (field "l" (array (string - - false)) false false -))))`},
	{ID: "KB11-cue-single-value-int-default", Switch: "(generator never emits it)", Stage: "load", Match: `strconv.ParseInt`, Formats: []string{"cue"},
		What: "int64 & >=31 & <=31 | *31 fails in declareNumberConstraints",
		Src:  `(defs "Root" ("Root" (struct (field "a" (int 64 true 31 31) false false (n "31")))))`},
	{ID: "KB12-openapi-mapping-refs", Switch: "oaMappingStyle=refs", Stage: "generate", Match: `goimports|expected selector`, Formats: []string{"openapi"}, Mapping: "refs",
		What: "discriminator mapping with #/components/schemas/X values: generated Go does not parse, the run fails",
		Src:  `(defs "Root" ("Root" (struct (field "m" (oneOfStructs "kind" ("aa" "A") ("bb" "B")) true false -))) ("A" (struct (field "kind" (const (s "aa")) true false -) (field "x" (bool) true false -))) ("B" (struct (field "kind" (const (s "bb")) true false -) (field "y" (bool) false false -))))`},
	{ID: "KB13-openapi-huge-int-default", Switch: "(generator keeps defaults small)", Stage: "go-compile", Match: `untyped float constant`, Formats: []string{"openapi"},
		What: "integer default beyond 2^53 arrives as float64 and is printed in exponent form",
		Src:  `(defs "Root" ("Root" (struct (field "a" (int 64 true - -) false false (n "-9223372036854775808")))))`},
	{ID: "KB14-python-definition-name-case", Switch: "+name.defCase", Stage: "py-run", Match: `NameError`, Formats: labFormats,
		What: "from_json of a union refers to the branch definition sub_item by its unconverted name",
		Src:  `(defs "Root" ("Root" (struct (field "m" (oneOfStructs "kind" ("aa" "sub_item") ("bb" "B")) true false -))) ("sub_item" (struct (field "kind" (const (s "aa")) true false -) (field "x" (bool) true false -))) ("B" (struct (field "kind" (const (s "bb")) true false -) (field "y" (bool) false false -))))`},
	{ID: "KB15-builder-optional-const-int", Switch: "-const.int (with builders)", Stage: "go-compile", Match: `\*int\) as \*int64`, Formats: []string{"jsonschema", "cue"}, Builders: true,
		What: "builder constructor assigns &val (*int) to an optional constant int64 member",
		Src:  `(defs "Root" ("Root" (struct (field "a" (const (n "6")) false false -) (field "b" (bool) true false -))))`},
	{ID: "KB16-builder-array-of-map-of-struct", Switch: "(avoid array(dict(struct)) with builders)", Stage: "go-compile", Match: `Build undefined`, Formats: labFormats, Builders: true,
		What: "option taking []map[string]cog.Builder[T] calls Build() on the map",
		Src:  `(defs "Root" ("Root" (struct (field "x" (array (dict (ref "S"))) false false -))) ("S" (struct (field "p" (bool) true false -))))`},
	{ID: "KB17-field-name-collision", Switch: "+name.collide", Stage: "go-compile", Match: `redeclared|duplicate field`, Formats: labFormats,
		What: "foo_bar and fooBar in one struct map to the same Go identifier",
		Src:  `(defs "Root" ("Root" (struct (field "foo_bar" (bool) true false -) (field "fooBar" (bool) true false -))))`},
	{ID: "KB19-cue-default-on-constrained-named-number", Switch: "+def.scalar.constrained", Stage: "load", Match: `strconv.Parse(Int|Float)`, Formats: []string{"cue"},
		What: "a: #T | *72 with #T: int8 & <=83: the bound of the referenced definition is parsed together with the rest of the file",
		Src:  `(defs "Root" ("Root" (struct (field "a" (ref "T") false false (n "72")))) ("T" (int 8 true - 83)))`},
	{ID: "KB20-strict-null-struct-element", Switch: "+elem.nullable.struct", Stage: "go-strict", Match: `required field is missing from input`, Formats: []string{"jsonschema", "cue"},
		What: "array / map whose elements are nullable structs: UnmarshalJSONStrict decodes the null entry as a struct and reports its required members missing (the standard decoder yields a nil pointer)",
		Doc:  `{"f":[{"p":"x"},null]}`,
		Src:  `(defs "Root" ("Root" (struct (field "f" (array (nullable (ref "S"))) true false -))) ("S" (struct (field "p" (string - - false) true false -))))`},
	{ID: "KB21-python-null-struct-element", Switch: "+elem.nullable.struct", Stage: "py-run", Match: `TypeError`, Formats: []string{"jsonschema", "cue"},
		What: "same shape in Python: from_json calls S.from_json(None) for the null entry",
		Doc:  `{"f":[{"p":"x"},null]}`,
		Src:  `(defs "Root" ("Root" (struct (field "f" (array (nullable (ref "S"))) true false -))) ("S" (struct (field "p" (string - - false) true false -))))`},
	{ID: "KB22-nullable-member-with-nullable-elements", Switch: "+elem.nullable.underNullable", Stage: "go-compile", Match: `"strconv" imported and not used`, Formats: []string{"jsonschema", "cue"},
		What: "nullable member of type map of map of nullable scalars: the inner `T | null` sits in a branch of the outer disjunction and is not reduced to a nullable scalar (cf. C06), the map counts as a map of non-scalars (then KB01)",
		Src:  `(defs "Root" ("Root" (struct (field "data" (dict (dict (nullable (string - - false)))) false true -))))`},
	{ID: "KB18-cue-nullable-int-enum", Switch: "degrade=0", Stage: "load", Match: `enums may only be generated`, Formats: []string{"cue"},
		What: "null | 1 | 2 @cog(kind=\"enum\") is rejected",
		Text: "package %PKG%\n\n#Root: {\n\ta?: null | 1 | 2 @cog(kind=\"enum\",memberNames=\"N1|N2\")\n}\n"},
}

func init() {
	register("lab-known-bad", func(args map[string]string, out *bufio.Writer) error {
		for _, kb := range knownBadCorpus {
			if only, ok := args["id"]; ok && !strings.HasPrefix(kb.ID, only) {
				continue
			}
			var d *Defs
			if kb.Text == "" {
				var err error
				if d, err = parseDefsSexp(kb.Src); err != nil {
					return fmt.Errorf("%s: %w", kb.ID, err)
				}
			}
			opts := defaultLabOpts()
			opts.Degrade = 0
			if kb.Switch == "degrade<2" {
				opts.Degrade = 1
			}
			opts.Builders = kb.Builders
			opts.Keep = args["keep"] == "1"
			saved := oaMappingStyle
			if kb.Mapping != "" {
				oaMappingStyle = kb.Mapping
			}
			lab, err := NewLab(labWorkDir("knownbad-"+kb.ID), opts)
			if err != nil {
				return err
			}
			cases := []*LabCase{}
			for _, f := range kb.Formats {
				if kb.Text != "" {
					cases = append(cases, lab.AddCaseText(f, kb.Text, nil))
				} else {
					cases = append(cases, lab.AddCase(d, f))
				}
			}
			oaMappingStyle = saved
			if err := lab.Build(); err != nil {
				lab.Close()
				return fmt.Errorf("%s: %w", kb.ID, err)
			}
			re := regexp.MustCompile(kb.Match)
			for _, c := range cases {
				stage, diag := "ok", ""
				switch {
				case c.SchemaText == "":
					stage, diag = "unsupported", strings.Join(c.Unsupported, ",")
				case c.IRGoErr != "":
					stage, diag = "load", c.IRGoErr
				case c.GenErr != "":
					stage, diag = "generate", c.GenErr
				case !c.GoOK:
					stage, diag = "go-compile", c.GoCompileErr
				case !c.PyOK:
					stage, diag = "py-import", c.PyImportErr
				}
				if stage == "ok" && (kb.Stage == "py-run" || kb.Stage == "go-strict" || kb.Stage == "any") && c.Defs != nil {
					doc := kb.Doc
					if doc == "" {
						doc = newDocGen(c.Defs, newRng(1), defaultDocOpts()).validDoc().json()
					}
					if kb.Stage == "go-strict" {
						rep := lab.GoCall([]LabReq{{c.ID, c.Defs.Root, "strict", []string{doc}}})
						if !strings.HasPrefix(rep[0], "ok") {
							stage, diag = "go-strict", rep[0]
						}
					} else {
						rep := lab.PyCall([]LabReq{{c.ID, c.Defs.Root, "roundtrip", []string{doc}}})
						if !strings.HasPrefix(rep[0], "ok") {
							stage, diag = "py-run", rep[0]
						}
					}
				}
				verdict := "not-reproduced"
				if (stage == kb.Stage || (kb.Stage == "any" && stage != "ok")) && re.MatchString(diag) {
					verdict = "reproduced"
				}
				fmt.Fprintf(out, "%s\t%s\t%s\t%s\t%s\n", kb.ID, c.Format, verdict, stage, labOneLine(labFirstLine(diag)))
			}
			lab.Close()
		}
		return nil
	})
}
