package main

// C05: correspondence streams.  Every row is
//     <request for the Lean driver | -> \t <implementation reply> \t <oracle verdict> \t <case>
// where <case> is the self-contained, replayable text of the case (`=`: same as the request).
//
//   c05-closed    the two implementations of `Closed` agree on generated IR (malformed included)
//   c05-parsers   source schemas (repo testdata + generated) through the three real front-ends
//                 (codegen.Input.LoadSchemas, `allowed_objects` included) → oracle Closed
//   c05-chains    Closed IR → the real CompilerPasses() of the 7 output languages → oracle Closed,
//                 and BuilderGenerator.FromAST targets
//   c05-nameops   Closed IR + sequences of name-changing transformations through the real passes
//                 vs the Lean models, oracle Closed after every step
//   c05-filter    FilterSchemas with random allowed objects vs the Lean model (`filter`), vs
//                 `reach` (both sides), oracle: kept = reach, result Closed
//   c05-parseopts the front-ends driven through codegen.Input with every loader option of the input
//                 structs, crossed with input shapes (c05_popt.go) → oracle Closed, entry point included
//   c05-eval      evaluate case lines from a file (replays, witnesses, pinned findings)
//   c05-shrink    shrink one failing case while its failure class persists

import (
	"bufio"
	"context"
	"fmt"
	"os"
	"path/filepath"
	"reflect"
	"regexp"
	"sort"
	"strings"

	"cuelang.org/go/cue/cuecontext"
	"github.com/grafana/cog/internal/ast"
	"github.com/grafana/cog/internal/ast/compiler"
	"github.com/grafana/cog/internal/codegen"
	"github.com/grafana/cog/internal/jennies/golang"
	"github.com/grafana/cog/internal/jennies/java"
	"github.com/grafana/cog/internal/jennies/jsonschema"
	"github.com/grafana/cog/internal/jennies/openapi"
	"github.com/grafana/cog/internal/jennies/php"
	"github.com/grafana/cog/internal/jennies/python"
	"github.com/grafana/cog/internal/jennies/typescript"
)

var c05Langs = []string{"go", "java", "php", "python", "typescript", "jsonschema", "openapi"}

func c05Chain(lang string) compiler.Passes {
	switch lang {
	case "go":
		return golang.New(golang.Config{}).CompilerPasses()
	case "java":
		return java.New(java.Config{}).CompilerPasses()
	case "php":
		return php.New(php.Config{}).CompilerPasses()
	case "python":
		return python.New(python.Config{}).CompilerPasses()
	case "typescript":
		return typescript.New(typescript.Config{}).CompilerPasses()
	case "jsonschema":
		return jsonschema.New(jsonschema.Config{}).CompilerPasses()
	case "openapi":
		return openapi.New(openapi.Config{}).CompilerPasses()
	}
	return nil
}

// ---- cases ----

type c05Case struct {
	verb    string // closed | reach | nameops | filter | c05chain | c05parse | c05load
	ops     []c05Op
	addrs   []c05Addr
	lang    string
	ss      ast.Schemas
	format  string
	pkg     string
	allowed []string
	src     string // c05parse: schema text; c05load: path relative to the repository root
	files   []c05PFile  // c05popt: the files of the case (c05_popt.go)
	inputs  []c05PInput // c05popt: the inputs, with their loader options
}

func c05AddrList(as []c05Addr) string {
	parts := []string{}
	for _, a := range as {
		parts = append(parts, "("+virQuote(a.pkg)+" "+virQuote(a.name)+")")
	}
	return "(" + strings.Join(parts, " ") + ")"
}

func (c *c05Case) text() string {
	switch c.verb {
	case "closed":
		return "closed " + virSchemas(c.ss)
	case "reach":
		return "reach " + c05AddrList(c.addrs) + " " + virSchemas(c.ss)
	case "filter":
		return "filter " + c05AddrList(c.addrs) + " " + virSchemas(c.ss)
	case "nameops":
		return "nameops " + c05OpsSexp(c.ops) + " " + virSchemas(c.ss)
	case "c05chain":
		return "c05chain " + c.lang + " " + virSchemas(c.ss)
	case "c05parse", "c05load":
		return c.verb + " " + c.format + " " + virQuote(c.pkg) + " " + c05StrList(c.allowed) + " " + virQuote(c.src)
	case "c05popt":
		return c05PText(c)
	}
	return "unknown"
}

func c05ParseCase(line string) (*c05Case, error) {
	verb, rest, _ := strings.Cut(strings.TrimSpace(line), " ")
	c := &c05Case{verb: verb}
	d := &c05Dec{}
	schemasOf := func(x *c05Sx) error {
		ss, err := c05DecodeSchemasSx(x)
		c.ss = ss
		return err
	}
	switch verb {
	case "closed":
		x, err := c05ParseSexp(rest)
		if err != nil {
			return nil, err
		}
		return c, schemasOf(x)
	case "c05chain":
		lang, vir, _ := strings.Cut(rest, " ")
		c.lang = lang
		x, err := c05ParseSexp(vir)
		if err != nil {
			return nil, err
		}
		return c, schemasOf(x)
	case "reach", "filter", "nameops":
		xs, err := c05ParseSexps(rest)
		if err != nil || len(xs) != 2 || xs[0].kind != 'l' {
			return nil, fmt.Errorf("bad %s case", verb)
		}
		for _, e := range xs[0].list {
			if verb == "nameops" {
				op, err := c05OpFromSx(e)
				if err != nil {
					return nil, err
				}
				c.ops = append(c.ops, op)
			} else {
				if e.kind != 'l' || len(e.list) != 2 {
					return nil, fmt.Errorf("bad address")
				}
				c.addrs = append(c.addrs, c05Addr{d.str(e.list[0]), d.str(e.list[1])})
			}
		}
		if d.err != nil {
			return nil, d.err
		}
		return c, schemasOf(xs[1])
	case "c05parse", "c05load":
		format, tail, _ := strings.Cut(rest, " ")
		c.format = format
		xs, err := c05ParseSexps(tail)
		if err != nil || len(xs) != 3 || xs[1].kind != 'l' {
			return nil, fmt.Errorf("bad %s case", verb)
		}
		c.pkg = d.str(xs[0])
		for _, e := range xs[1].list {
			c.allowed = append(c.allowed, d.str(e))
		}
		c.src = d.str(xs[2])
		return c, d.err
	case "c05popt":
		return c, c05PParse(c, rest)
	}
	return nil, fmt.Errorf("unknown verb %q", verb)
}

// ---- running the real code ----

type c05Run struct {
	status string // ok | err | panic | cycle
	out    ast.Schemas
	detail string
}

func (r c05Run) reply() string {
	if r.status == "ok" {
		return "ok " + virSchemas(r.out)
	}
	return r.status
}

func c05Process(passes compiler.Passes, in ast.Schemas) (res c05Run) {
	defer func() {
		if r := recover(); r != nil {
			res = c05Run{status: "panic", detail: fmt.Sprint(r)}
		}
	}()
	out, err := passes.Process(in)
	if err != nil {
		return c05Run{status: "err", detail: err.Error()}
	}
	return c05Run{status: "ok", out: out}
}

func c05Copy(ss ast.Schemas) ast.Schemas { return ast.Schemas(ss).DeepCopy() }

var c05WorkDir = ""

func c05Load(c *c05Case, allowed []string) (res c05Run) {
	defer func() {
		if r := recover(); r != nil {
			res = c05Run{status: "panic", detail: fmt.Sprint(r)}
		}
	}()
	base := codegen.InputBase{AllowedObjects: allowed}
	in := &codegen.Input{}
	path := c.src
	if c.verb == "c05parse" && c.format != "cue" {
		dir, err := os.MkdirTemp(c05WorkDir, "c05src")
		if err != nil {
			return c05Run{status: "err", detail: err.Error()}
		}
		defer os.RemoveAll(dir)
		path = filepath.Join(dir, c.pkg+".json")
		if err := os.WriteFile(path, []byte(c.src), 0o644); err != nil {
			return c05Run{status: "err", detail: err.Error()}
		}
	}
	switch c.format {
	case "jsonschema":
		in.JSONSchema = &codegen.JSONSchemaInput{InputBase: base, Path: path, Package: c.pkg}
	case "openapi":
		in.OpenAPI = &codegen.OpenAPIInput{InputBase: base, Path: path, Package: c.pkg}
	case "cue":
		text := c.src
		if c.verb == "c05load" {
			raw, err := os.ReadFile(c.src)
			if err != nil {
				return c05Run{status: "err", detail: err.Error()}
			}
			text = string(raw)
		}
		v := cuecontext.New().CompileString(text)
		if v.Err() != nil {
			return c05Run{status: "err", detail: v.Err().Error()}
		}
		in.Cue = &codegen.CueInput{InputBase: base, Value: &v, Package: c.pkg}
	case "cuedir":
		in.Cue = &codegen.CueInput{InputBase: base, Entrypoint: c.src, Package: c.pkg}
	default:
		return c05Run{status: "err", detail: "unknown format"}
	}
	ss, err := in.LoadSchemas(context.Background())
	if err != nil {
		return c05Run{status: "err", detail: err.Error()}
	}
	return c05Run{status: "ok", out: ss}
}

// ---- evaluation of one case: (lean request, implementation reply, verdict) ----

func c05Facts(op c05Op, before ast.Schemas) string {
	facts := []string{}
	switch op.Name {
	case "rename", "replace":
		exact := c05Has(before, op.Pkg, op.Obj)
		variants := 0
		for _, s := range before {
			if s.Package == op.Pkg {
				for _, k := range c05Keys(s) {
					if strings.EqualFold(k, op.Obj) && k != op.Obj {
						variants++
					}
				}
				break
			}
		}
		facts = append(facts, fmt.Sprintf("from-exact=%v case-variants=%d", exact, variants))
		if op.Name == "rename" {
			facts = append(facts, fmt.Sprintf("to-exists=%v", c05Has(before, op.Pkg, op.To)))
		}
	case "duplicate":
		facts = append(facts, fmt.Sprintf("cross-package=%v", op.Pkg != op.ToPkg))
	}
	return strings.Join(facts, " ")
}

func c05DanglingText(d c05Dangling) string {
	if d.self != "" {
		return "dangling=" + d.String()
	}
	return "dangling=" + d.String() + " via=" + d.use.via
}

func c05Eval(c *c05Case) (req, impl, verdict string) {
	defer func() {
		if r := recover(); r != nil {
			req, impl, verdict = "-", "harness-panic", "FAIL harness panic: "+strings.ReplaceAll(fmt.Sprint(r), "\n", " ")
		}
	}()
	switch c.verb {
	case "closed":
		return c.text(), c05ClosedReply(c.ss), "ok"
	case "reach":
		set, _ := c05Reach(c.ss, c.addrs)
		return c.text(), strings.TrimSpace("ok " + c05AddrsText(set)), "ok"
	case "nameops":
		passes := compiler.Passes{}
		for _, op := range c.ops {
			passes = append(passes, op.pass())
		}
		whole := c05Process(passes, c05Copy(c.ss))
		verdict = "ok"
		cur := c05Copy(c.ss)
		for i, op := range c.ops {
			step := c05Process(compiler.Passes{op.pass()}, cur)
			if step.status != "ok" {
				break
			}
			if c05IsClosed(cur) && c05SideGranted(op, cur) {
				if d := c05AllDangling(step.out, 1); len(d) > 0 {
					verdict = fmt.Sprintf("FAIL nameop=%s step=%d %s %s %s", op.Name, i, op.sexp(), c05DanglingText(d[0]), c05Facts(op, cur))
					break
				}
			}
			cur = step.out
		}
		return c.text(), whole.reply(), verdict
	case "filter":
		if !c05SelfConsistent(c.ss) {
			return "-", "skipped", "ok"
		}
		refs := []compiler.ObjectReference{}
		for _, a := range c.addrs {
			refs = append(refs, compiler.ObjectReference{Package: a.pkg, Object: a.name})
		}
		run := c05Process(compiler.Passes{&compiler.FilterSchemas{AllowedObjects: refs}}, c05Copy(c.ss))
		verdict = "ok"
		if run.status == "ok" && c05IsClosed(c.ss) {
			verdict = c05FilterVerdict(c.ss, run.out, c.addrs)
		}
		return c.text(), run.reply(), verdict
	case "c05chain":
		if c05HasCycle(c.ss) {
			return "-", "cycle", "ok"
		}
		run := c05Process(c05Chain(c.lang), c05Copy(c.ss))
		if run.status != "ok" {
			return "-", run.status, "ok"
		}
		verdict = "ok"
		inClosed := c05IsClosed(c.ss)
		if inClosed {
			if d := c05AllDangling(run.out, 1); len(d) > 0 {
				verdict = fmt.Sprintf("FAIL chain lang=%s %s %s", c.lang, c05BrokenBy(c05Chain(c.lang), c.ss), c05DanglingText(d[0]))
				if k := d[0].use.kind; k == "ref" && strings.Contains(verdict, "target-dropped=true") {
					verdict += fmt.Sprintf(" nested-in-inlined=%v", c05LastNested)
				}
				if k := d[0].use.kind; k == "mapping" || k == "gmapping" {
					// a bare name that exists in another package: the type was moved across packages
					for _, s := range c.ss {
						if s.Package != d[0].use.pkg && s.Objects.Has(d[0].use.name) {
							verdict += " exists-in=" + s.Package
							break
						}
					}
				}
			}
		}
		if verdict == "ok" && inClosed && !c05HasCycle(run.out) {
			bs := ast.BuilderGenerator{}
			builders := bs.FromAST(run.out)
			if bad := c05BuilderDangling(run.out, builders); bad != "" {
				verdict = fmt.Sprintf("FAIL chain-builders lang=%s %s", c.lang, bad)
				if !c05BuilderDanglingSamePkg(run.out, builders) {
					verdict += " only-across-packages=true"
				}
			}
		}
		return "closed " + virSchemas(run.out), c05ClosedReply(run.out), verdict
	case "c05parse", "c05load":
		run := c05Load(c, c.allowed)
		if run.status != "ok" {
			d := strings.ReplaceAll(strings.ReplaceAll(run.detail, "\n", " "), "\t", " ")
			if len(d) > 160 {
				d = d[:160]
			}
			return "-", run.status + " " + d, "ok"
		}
		verdict = "ok"
		if d := c05AllDangling(run.out, 1); len(d) > 0 {
			verdict = fmt.Sprintf("FAIL parse format=%s allowed=%d %s", c.format, len(c.allowed), c05DanglingText(d[0]))
			if d[0].self == "" && c.verb == "c05parse" && strings.Contains(c.src, "/properties/"+d[0].use.name+"\"") {
				verdict += " nested-ref=true" // the source has a $ref to a property below a definition, with that name
			}
		} else if len(c.allowed) > 0 {
			full := c05Load(c, nil)
			if full.status == "ok" && c05IsClosed(full.out) {
				roots := []c05Addr{}
				for _, a := range c.allowed {
					roots = append(roots, c05Addr{c.pkg, a})
				}
				verdict = c05FilterVerdict(full.out, run.out, roots)
			}
		}
		return "closed " + virSchemas(run.out), c05ClosedReply(run.out), verdict
	case "c05popt":
		return c05PEval(c)
	}
	return "-", "unknown-verb", "FAIL unknown verb"
}

// c05LastNested: set by c05BrokenBy — is the dangling target named (at a position the Visitor
// walks) inside the RESOLVED, non-reference type of an object that the breaking pass dropped?
// (the shape of the known PHP finding "reference inside an inlined copy")
var c05LastNested bool

func c05NestedInDropped(before, after ast.Schemas, target c05Addr) bool {
	var names func(t ast.Type) bool
	names = func(t ast.Type) bool {
		switch {
		case t.Kind == ast.KindRef && t.Ref != nil:
			return t.Ref.ReferredPkg == target.pkg && t.Ref.ReferredType == target.name
		case t.Kind == ast.KindArray && t.Array != nil:
			return names(t.Array.ValueType)
		case t.Kind == ast.KindMap && t.Map != nil:
			return names(t.Map.ValueType)
		case t.Kind == ast.KindStruct && t.Struct != nil:
			for _, f := range t.Struct.Fields {
				if names(f.Type) {
					return true
				}
			}
		case t.Kind == ast.KindDisjunction && t.Disjunction != nil:
			for _, b := range t.Disjunction.Branches {
				if names(b) {
					return true
				}
			}
		case t.Kind == ast.KindIntersection && t.Intersection != nil:
			for _, b := range t.Intersection.Branches {
				if names(b) {
					return true
				}
			}
		}
		return false
	}
	for _, s := range before {
		for _, k := range c05Keys(s) {
			if c05Has(after, s.Package, k) {
				continue
			}
			rt := before.ResolveToType(s.Objects.Get(k).Type) // `before` is alias-acyclic (guarded)
			if rt.Kind != ast.KindRef && names(rt) {
				return true
			}
		}
	}
	return false
}

// c05BrokenBy runs the chain pass by pass and names the first pass after which the schemas are no
// longer Closed, and whether the object named by the dangling use existed before that pass
func c05BrokenBy(passes compiler.Passes, in ast.Schemas) string {
	cur := c05Copy(in)
	for _, p := range passes {
		if c05HasCycle(cur) {
			return "broken-by=?cycle"
		}
		step := c05Process(compiler.Passes{p}, cur)
		if step.status != "ok" {
			return "broken-by=?" + step.status
		}
		if d := c05AllDangling(step.out, 1); len(d) > 0 {
			t := reflect.TypeOf(p)
			for t.Kind() == reflect.Ptr {
				t = t.Elem()
			}
			existed := d[0].self == "" && c05Has(cur, d[0].use.pkg, d[0].use.name)
			c05LastNested = d[0].self == "" && c05NestedInDropped(cur, step.out, c05Addr{d[0].use.pkg, d[0].use.name})
			return fmt.Sprintf("broken-by=%s target-dropped=%v", t.Name(), existed)
		}
		cur = step.out
	}
	return "broken-by=?none"
}

// c05FilterVerdict: kept = reach, and the filtered schemas are Closed
func c05FilterVerdict(in, out ast.Schemas, roots []c05Addr) string {
	want, edges := c05Reach(in, roots)
	kept := map[c05Addr]bool{}
	for _, s := range out {
		for _, k := range c05Keys(s) {
			kept[c05Addr{s.Package, k}] = true
		}
	}
	sorted := func(set map[c05Addr]bool) []c05Addr {
		l := []c05Addr{}
		for a := range set {
			l = append(l, a)
		}
		sort.Slice(l, func(i, j int) bool { return l[i].pkg+"."+l[i].name < l[j].pkg+"."+l[j].name })
		return l
	}
	for _, a := range sorted(kept) {
		if !want[a] {
			return fmt.Sprintf("FAIL filter-kept extra=%s.%s", a.pkg, a.name)
		}
	}
	// a missing object whose referrer was kept: the position the walk did not follow
	for _, a := range sorted(kept) {
		for _, e := range edges[a] {
			if !kept[e.to] {
				return fmt.Sprintf("FAIL filter-kept missing=%s.%s referrer=%s.%s reached-through=%s", e.to.pkg, e.to.name, a.pkg, a.name, e.via)
			}
		}
	}
	for _, a := range sorted(want) {
		if !kept[a] {
			return fmt.Sprintf("FAIL filter-kept missing=%s.%s (listed object)", a.pkg, a.name)
		}
	}
	if d := c05AllDangling(out, 1); len(d) > 0 {
		return "FAIL filter-closed " + c05DanglingText(d[0])
	}
	return "ok"
}

func c05Emit(out *bufio.Writer, c *c05Case) {
	req, impl, verdict := c05Eval(c)
	cs := c.text()
	if cs == req {
		cs = "="
	}
	fmt.Fprintf(out, "%s\t%s\t%s\t%s\t%s\n", req, impl, verdict, cs, c05Class(verdict))
}

// c05Class: the failure class of a verdict (what has to persist while shrinking)
var c05ClassRe = regexp.MustCompile(`^FAIL (nameop=\S+|chain lang=\S+ broken-by=\S+ target-dropped=\S+|chain lang=\S+|chain-builders lang=\S+|parse format=\S+|filter-kept (missing|extra)|filter-closed|\S+)`)
var c05KindRe = regexp.MustCompile(`dangling=\S+ (self|ref|cref|mapping|gmapping|entrypoint)`)
var c05ViaRe = regexp.MustCompile(`(via=|reached-through=\w+@)(\S*)`)
var c05ThroughRe = regexp.MustCompile(`reached-through=(\w+)@`)

func c05Class(verdict string) string {
	m := c05ClassRe.FindString(verdict)
	if m == "" {
		return ""
	}
	if k := c05KindRe.FindStringSubmatch(verdict); k != nil {
		m += " " + k[1]
	}
	if k := c05ThroughRe.FindStringSubmatch(verdict); k != nil {
		m += " " + k[1]
	}
	if v := c05ViaRe.FindStringSubmatch(verdict); v != nil {
		// position category: where the Visitor walks / map index type / hint payload
		switch {
		case strings.Contains(v[2], "mapindex"):
			m += " @mapindex"
		case strings.Contains(v[2], "/gen"):
			m += " @gen"
		case v[2] == "entrypoint":
			m += " @entrypoint"
		default:
			m += " @visited"
		}
	}
	if strings.Contains(verdict, "from-exact=") && !strings.Contains(verdict, "case-variants=0") {
		m += " case-variants"
	}
	if strings.Contains(verdict, "nested-in-inlined=false") {
		m += " not-nested"
	}
	if strings.Contains(verdict, "cross-package=true") {
		m += " cross-package"
	}
	return m
}

func init() {
	setup := func(args map[string]string) {
		c05WorkDir = args["work"]
		if c05WorkDir == "" {
			c05WorkDir = os.TempDir()
		}
	}
	register("c05-closed", func(args map[string]string, out *bufio.Writer) error {
		setup(args)
		n := argInt(args, "n", 300)
		r := newRng(uint64(argInt(args, "seed", 1)))
		for i := 0; i < n; i++ {
			var ss ast.Schemas
			if r.chance(70) {
				ss = c05GenMalformed(r, args["tier"])
			} else {
				ss = c05GenClosed(r, args["tier"])
			}
			c05Emit(out, &c05Case{verb: "closed", ss: ss})
		}
		return nil
	})
	register("c05-nameops", func(args map[string]string, out *bufio.Writer) error {
		setup(args)
		n := argInt(args, "n", 300)
		maxLen := argInt(args, "len", 4)
		quirks := argInt(args, "quirks", 8)
		r := newRng(uint64(argInt(args, "seed", 1)))
		for i := 0; i < n; i++ {
			ss := c05GenClosed(r, args["tier"])
			c := &c05Case{verb: "nameops", ss: ss}
			cur := c05Copy(ss)
			for k := 1 + r.intn(maxLen); k > 0; k-- {
				op := c05GenOp(r, cur, quirks)
				c.ops = append(c.ops, op)
				step := c05Process(compiler.Passes{op.pass()}, cur)
				if step.status != "ok" {
					break
				}
				cur = step.out
			}
			c05Emit(out, c)
		}
		return nil
	})
	register("c05-filter", func(args map[string]string, out *bufio.Writer) error {
		setup(args)
		n := argInt(args, "n", 300)
		r := newRng(uint64(argInt(args, "seed", 1)))
		for i := 0; i < n; i++ {
			ss := c05GenClosed(r, args["tier"])
			addrs := []c05Addr{}
			for k := 1 + r.intn(3); k > 0; k-- {
				s := pick(r, ss)
				name := "Missing"
				if ks := c05Keys(s); len(ks) > 0 && r.chance(90) {
					name = pick(r, ks)
					if r.chance(5) {
						name = c05CaseVariant(r, name)
					}
				}
				addrs = append(addrs, c05Addr{s.Package, name})
			}
			c05Emit(out, &c05Case{verb: "filter", ss: ss, addrs: addrs})
			c05Emit(out, &c05Case{verb: "reach", ss: ss, addrs: addrs})
		}
		return nil
	})
	register("c05-chains", func(args map[string]string, out *bufio.Writer) error {
		setup(args)
		n := argInt(args, "n", 100)
		r := newRng(uint64(argInt(args, "seed", 1)))
		for i := 0; i < n; i++ {
			ss := c05GenClosed(r, args["tier"])
			for _, lang := range c05Langs {
				c05Emit(out, &c05Case{verb: "c05chain", lang: lang, ss: c05Copy(ss)})
			}
		}
		return nil
	})
	register("c05-parsers", func(args map[string]string, out *bufio.Writer) error {
		setup(args)
		n := argInt(args, "n", 60)
		r := newRng(uint64(argInt(args, "seed", 1)))
		// (a) the repository's own test data
		for _, td := range []struct{ glob, format string }{
			{"testdata/jsonschema/*/schema.json", "jsonschema"},
			{"testdata/openapi/*/schema.json", "openapi"},
			{"testdata/simplecue/*/schema.cue", "cue"},
			{"testdata/schemas/*", "cuedir"},
		} {
			files, _ := filepath.Glob(td.glob)
			sort.Strings(files)
			for _, f := range files {
				pkg := filepath.Base(filepath.Dir(f))
				if td.format == "cuedir" {
					pkg = filepath.Base(f)
				}
				base := &c05Case{verb: "c05load", format: td.format, pkg: pkg, src: f}
				c05Emit(out, base)
				// every object of the loaded schema as the single allowed object
				if run := c05Load(base, nil); run.status == "ok" && len(run.out) > 0 {
					keys := c05Keys(run.out[0])
					for i, k := range keys {
						if i >= 4 {
							break
						}
						c05Emit(out, &c05Case{verb: "c05load", format: td.format, pkg: pkg, src: f, allowed: []string{k}})
					}
				}
			}
		}
		// (b) generated source schemas, three renderings each
		for i := 0; i < n; i++ {
			d := c05GenSrc(r)
			for _, format := range []string{"jsonschema", "openapi", "cue"} {
				c := &c05Case{verb: "c05parse", format: format, pkg: pick(r, []string{"pkg", "root", "foo"}), src: d.render(format, r)}
				c05Emit(out, c)
				if r.chance(50) {
					c2 := *c
					c2.allowed = []string{pick(r, d.Names)}
					if r.chance(30) {
						c2.allowed = append(c2.allowed, pick(r, d.Names))
					}
					c05Emit(out, &c2)
				}
			}
		}
		return nil
	})
	// the runtime pass lists of the 7 languages (tie of Cog.Gen.Chains / schemaLangChain)
	register("c05-chainnames", func(args map[string]string, out *bufio.Writer) error {
		parts := []string{}
		for _, lang := range c05Langs {
			names := []string{}
			for _, p := range c05Chain(lang) {
				t := reflect.TypeOf(p)
				for t.Kind() == reflect.Ptr {
					t = t.Elem()
				}
				n := t.Name()
				if in, ok := p.(*compiler.InlineObjectsWithTypes); ok {
					ks := []string{}
					for _, k := range in.InlineTypes {
						ks = append(ks, string(k))
					}
					n += ":" + strings.Join(ks, ",")
				}
				names = append(names, n)
			}
			parts = append(parts, lang+"="+strings.Join(names, "+"))
		}
		fmt.Fprintf(out, "c05chains\t%s\tok\t=\t\n", strings.Join(parts, ";"))
		return nil
	})
	// the Lean models of the chain passes on THIS property's inputs: `chain <lang>` (C06 models) and
	// `c05pass InferEntrypoint` (model of this property)
	register("c05-chainmodel", func(args map[string]string, out *bufio.Writer) error {
		setup(args)
		n := argInt(args, "n", 100)
		r := newRng(uint64(argInt(args, "seed", 1)))
		for i := 0; i < n; i++ {
			ss := c05GenClosed(r, args["tier"])
			if c05HasCycle(ss) {
				continue
			}
			// chains with a full theorem: the whole chain; Java / PHP: everything but the last pass
			// (RemoveIntersections / InlineObjectsWithTypes, for which the statement is false)
			for _, lang := range []string{"go", "python", "typescript"} {
				run := c05Process(c05Chain(lang), c05Copy(ss))
				fmt.Fprintf(out, "chain %s %s\t%s\tok\t=\t\n", lang, virSchemas(ss), run.reply())
			}
			for _, lang := range []string{"java", "php"} {
				ch := c05Chain(lang)
				k := len(ch) - 1
				run := c05Process(ch[:k], c05Copy(ss))
				fmt.Fprintf(out, "c05prefix %s %d %s\t%s\tok\t=\t\n", lang, k, virSchemas(ss), run.reply())
			}
			run := c05Process(compiler.Passes{&compiler.InferEntrypoint{}}, c05Copy(ss))
			fmt.Fprintf(out, "c05pass InferEntrypoint %s\t%s\tok\t=\t\n", virSchemas(ss), run.reply())
		}
		return nil
	})
	register("c05-eval", func(args map[string]string, out *bufio.Writer) error {
		setup(args)
		for _, l := range readLines(args["in"]) {
			c, err := c05ParseCase(l)
			if err != nil {
				fmt.Fprintf(out, "-\tbad-case\tFAIL bad case: %v\t%s\tbad-case\n", err, l)
				continue
			}
			c05Emit(out, c)
		}
		return nil
	})
	register("c05-shrink", func(args map[string]string, out *bufio.Writer) error {
		setup(args)
		for _, l := range readLines(args["in"]) {
			c, err := c05ParseCase(l)
			if err != nil {
				fmt.Fprintf(out, "-\tbad-case\tFAIL bad case: %v\t%s\tbad-case\n", err, l)
				continue
			}
			c05Emit(out, c05Shrink(c, argInt(args, "budget", 400)))
		}
		return nil
	})
}
