package main

// Pinned inputs of the C17 findings = the witnesses of the Lean counterexample theorems
// (lean/Cog/Builder/Witness.lean); replayed on the real code on every run.

import (
	"github.com/grafana/cog/internal/ast"
)

func c17WitnessSchema() *ast.Schema {
	s := ast.NewSchema("p", ast.SchemaMeta{})
	a := ast.Bool()
	a.Default = true
	n := ast.NewScalar(ast.KindInt64)
	n.Scalar.Constraints = []ast.TypeConstraint{{Op: ast.GreaterThanEqualOp, Args: []any{int64(1)}}}
	s.AddObject(ast.NewObject("p", "S", ast.NewStruct(
		ast.NewStructField("a", a),
		ast.NewStructField("n", n),
		ast.NewStructField("tags", ast.NewArray(ast.String())),
		ast.NewStructField("flags", ast.NewMap(ast.String(), ast.Bool())),
	)))
	return s
}

func c17Pinned(name string) c17Case {
	s := c17WitnessSchema()
	cs := c17Case{schemas: ast.Schemas{s}, language: "go"}
	f := vFile{Language: "all", Package: "p"}
	switch name {
	case "dup-option-default":
		f.Options = []map[string]any{{"duplicate": map[string]any{"by_name": "S.a", "as": "dup"}}}
	case "dup-builder-default":
		f.Builders = []map[string]any{{"duplicate": map[string]any{"by_object": "S", "as": "Copy"}}}
	case "dismissed":
		s.AddObject(ast.NewObject("p", "E", ast.NewStruct()))
	case "rename-args-constraint":
		f.Options = []map[string]any{{"rename_arguments": map[string]any{"by_name": "S.n", "as": []string{"x"}}}}
	case "promote-array-to-append":
		f.Builders = []map[string]any{{"promote_options_to_constructor": map[string]any{"by_object": "S", "options": []string{"tags"}}}}
		f.Options = []map[string]any{{"array_to_append": map[string]any{"by_name": "S.tags"}}}
	case "merge-rename-arguments":
		s.AddObject(ast.NewObject("p", "I", ast.NewStruct(ast.NewStructField("x", ast.String()))))
		s.AddObject(ast.NewObject("p", "D", ast.NewStruct(ast.NewStructField("inner", ast.NewRef("p", "I")))))
		f.Builders = []map[string]any{{"merge_into": map[string]any{"destination": "D", "source": "I", "under_path": "inner"}}}
		f.Options = []map[string]any{{"rename_arguments": map[string]any{"by_name": "D.x", "as": []string{"y"}}}}
	case "map-index-unfold":
		f.Options = []map[string]any{
			{"map_to_index": map[string]any{"by_name": "S.flags"}},
			{"unfold_boolean": map[string]any{"by_name": "S.flags", "true_as": "on", "false_as": "off"}},
		}
	case "sf-opts-after-append":
		s.AddObject(ast.NewObject("p", "I", ast.NewStruct(ast.NewStructField("x", ast.String()))))
		s.AddObject(ast.NewObject("p", "L", ast.NewStruct(ast.NewStructField("items", ast.NewArray(ast.NewRef("p", "I"))))))
		f.Options = []map[string]any{
			{"array_to_append": map[string]any{"by_name": "L.items"}},
			{"struct_fields_as_options": map[string]any{"by_name": "L.items"}},
		}
	case "add-assignment-array-to-append":
		arr := map[string]any{"kind": "array", "array": map[string]any{"value_type": yamlScalar("string")}}
		f.Options = []map[string]any{
			{"add_assignment": map[string]any{"by_name": "S.tags", "assignment": map[string]any{"path": "tags", "method": "append",
				"value": map[string]any{"argument": map[string]any{"name": "tags", "type": arr}}}}},
			{"array_to_append": map[string]any{"by_name": "S.tags"}},
		}
	case "map-index-promote":
		f.Options = []map[string]any{{"map_to_index": map[string]any{"by_name": "S.flags"}}}
		g := vFile{Language: "go", Package: "p", Builders: []map[string]any{{"promote_options_to_constructor": map[string]any{"by_object": "S", "options": []string{"flags"}}}}}
		cs.files = []vFile{f, g}
		return cs
	case "append-then-map-to-index":
		s.AddObject(ast.NewObject("p", "M", ast.NewStruct(ast.NewStructField("ms", ast.NewArray(ast.NewMap(ast.String(), ast.String()))))))
		f.Options = []map[string]any{
			{"array_to_append": map[string]any{"by_name": "M.ms"}},
			{"map_to_index": map[string]any{"by_name": "M.ms"}},
		}
	case "merge-into-3-segments":
		// a path of exactly three segments is built by successive appends (cap 4): the shape on which an
		// aliasing Path.Append shows. Must pass.
		s.AddObject(ast.NewObject("p", "I", ast.NewStruct(ast.NewStructField("alpha", ast.String()), ast.NewStructField("beta", ast.Bool()), ast.NewStructField("gamma", ast.NewScalar(ast.KindInt64)))))
		s3 := ast.NewStruct(ast.NewStructField("s3", ast.NewRef("p", "I")))
		n2 := ast.NewStruct(ast.NewStructField("n2", s3))
		s.AddObject(ast.NewObject("p", "D", ast.NewStruct(ast.NewStructField("n1", n2), ast.NewStructField("own", ast.String()))))
		f.Builders = []map[string]any{{"merge_into": map[string]any{"destination": "D", "source": "I", "under_path": "n1.n2.s3"}}}
		f.Options = []map[string]any{{"struct_fields_as_options": map[string]any{"by_name": "D.n1"}}}
	case "sf-args-twice":
		v := ast.String()
		v.Scalar.Value = "x"
		vf := ast.NewStructField("v", v)
		vf.Required = true
		s.AddObject(ast.NewObject("p", "R", ast.NewStruct(vf, ast.NewStructField("r", ast.NewRef("p", "R")))))
		f.Options = []map[string]any{
			{"struct_fields_as_arguments": map[string]any{"by_name": "R.r"}},
			{"struct_fields_as_arguments": map[string]any{"by_name": "R.r"}},
		}
	case "disjunction-index-out-of-range":
		// panicked (option.Args[argumentIndex]) until /repo 423e7f3. Must pass.
		f.Options = []map[string]any{
			{"disjunction_as_options": map[string]any{"by_name": "S.a", "argument_index": 3}},
			{"disjunction_as_options": map[string]any{"by_name": "S.n", "argument_index": -1}},
			{"disjunction_as_options": map[string]any{"by_name": "S.tags", "argument_index": 1}},
		}
	case "add-assignment-two-options-rename-one":
		// until /repo b52532c both added assignments held the RULE's *Argument: renaming it through one
		// option renamed it in the other. Must pass.
		arg := map[string]any{"name": "a", "type": yamlScalar("bool")}
		f.Options = []map[string]any{
			{"add_assignment": map[string]any{"by_names": map[string]any{"object": "S", "options": []string{"a", "n"}},
				"assignment": map[string]any{"path": "a", "method": "direct", "value": map[string]any{"argument": arg}}}},
		}
		g := vFile{Language: "go", Package: "p", Options: []map[string]any{{"rename_arguments": map[string]any{"by_name": "S.a", "as": []string{"x"}}}}}
		cs.files = []vFile{f, g}
		return cs
	case "map-index-sf-opts":
		s.AddObject(ast.NewObject("p", "K", ast.NewStruct(ast.NewStructField("h", ast.Bool()))))
		s.AddObject(ast.NewObject("p", "MK", ast.NewStruct(ast.NewStructField("items", ast.NewMap(ast.NewRef("p", "K"), ast.String())))))
		f.Options = []map[string]any{
			{"map_to_index": map[string]any{"by_name": "MK.items"}},
			{"struct_fields_as_options": map[string]any{"by_name": "MK.items"}},
		}
	case "compose-then-initialize":
		// the composed builder starts from a by-value copy of the source builder's Constructor: both
		// slices share one backing array with spare capacity (3 constants appended one by one: cap 4)
		k := func(v string) ast.Type { t := ast.String(); t.Scalar.Value = v; return t }
		core := ast.NewSchema("panel", ast.SchemaMeta{})
		core.AddObject(ast.NewObject("panel", "Panel", ast.NewStruct(
			ast.NewStructField("k1", k("x")), ast.NewStructField("k2", k("y")), ast.NewStructField("k3", k("z")),
			ast.NewStructField("type", ast.String()), ast.NewStructField("options", ast.Any()), ast.NewStructField("title", ast.String()))))
		ts := ast.NewSchema("ts", ast.SchemaMeta{Kind: ast.SchemaKindComposable, Variant: ast.SchemaVariantPanel, Identifier: "timeseries"})
		ts.AddObject(ast.NewObject("ts", "Options", ast.NewStruct(ast.NewStructField("foo", ast.String()))))
		cs.schemas = ast.Schemas{core, ts}
		f.Package = "panel"
		f.Builders = []map[string]any{
			{"compose": map[string]any{"by_variant": "panelcfg", "source_builder_name": "panel.Panel", "plugin_discriminator_field": "type",
				"composition_map": map[string]string{"Options": "options"}, "composed_builder_name": "TimeseriesPanel"}},
			{"initialize": map[string]any{"by_name": "Panel", "set": []any{map[string]any{"property": "title", "value": "hello"}}}},
		}
	default:
		return c17Case{}
	}
	cs.files = []vFile{f}
	return cs
}

var c17PinnedNames = []string{"dup-option-default", "dup-builder-default", "dismissed", "rename-args-constraint", "promote-array-to-append", "merge-rename-arguments", "map-index-unfold", "sf-opts-after-append", "add-assignment-array-to-append", "map-index-promote", "append-then-map-to-index", "sf-args-twice", "map-index-sf-opts"}
