package main

// C01, parser soundness (part (b)) for OpenAPI inputs: the tie of the Lean model of the OpenAPI front-end
// (lean/Cog/Front/OpenApi.lean: `generateAST`), of the validation semantics `oav`
// (lean/Cog/Front/OpenApiValid.lean) and of C01_openapi_parser_sound_partial to the code.
//
// For every case (lab terms rendered as OpenAPI 3.0, /repo/testdata/openapi/*/schema.json, pinned hand-written
// documents) the text is loaded with the SAME library calls as codegen.OpenAPIInput (openapi3.NewLoader,
// IsExternalRefsAllowed, LoadFromFile) and `components.schemas` is encoded as the S-expression of the Lean
// datatype `OSR` / `OS`; the REAL openapi.GenerateAST (Validate = true) runs on a second load of the file:
//
//   -                                              \t case <id> kind=… …                  \t ok
//   -                                              \t schema <id> <document text, one line> \t ok
//   oafdef <id> (case "<pkg>" (comps ("name" OSR)…)) \t ok                                \t ok
//   oafront <id>                                   \t ok <VIR of the real GenerateAST> | err \t ok
//   defschemas <id>.fe <VIR of the real output>    \t ok                                  \t ok
//   oafdoc <id> <id>.fe <root> <doc sexp>          \t valid=<bool> doc=<kind>             \t ok
//   -                                              \t skip <id> <reason>                  \t ok
//
// `valid` = kin-openapi `Schema.VisitJSON(doc, EnableFormatValidation())` on the root component.

import (
	"bufio"
	"context"
	"fmt"
	"math"
	"math/big"
	"os"
	"path/filepath"
	"regexp"
	"sort"
	"strconv"
	"strings"

	"github.com/getkin/kin-openapi/openapi3"
	"github.com/grafana/cog/internal/ast"
	cogoa "github.com/grafana/cog/internal/openapi"
)

type oaEnc struct {
	refuse string
	nodes  int
	usedKW map[string]int
}

func (e *oaEnc) kw(k string) { e.usedKW[k]++ }

var oaExternalRef = regexp.MustCompile(`(../)*(\w*/)*(.*).(json|yml)`)

func oaIsRef(ref string) bool { return ref != "" && strings.ContainsAny(ref, "#") }

func oaScalarVal(v any) bool {
	switch v.(type) {
	case nil, bool, float64, string, int, int64:
		return true
	}
	return false
}

func oaSimpleQuote(s string) string {
	var b strings.Builder
	b.WriteByte('"')
	for _, r := range s {
		switch r {
		case '"':
			b.WriteString(`\"`)
		case '\\':
			b.WriteString(`\\`)
		case '\n':
			b.WriteString(`\n`)
		case '\t':
			b.WriteString(`\t`)
		case '\r':
			b.WriteString(`\r`)
		default:
			b.WriteRune(r)
		}
	}
	b.WriteByte('"')
	return b.String()
}

func (e *oaEnc) f64(head string, v float64) string {
	if math.IsNaN(v) || math.IsInf(v, 0) {
		e.refuse = "non-finite-number"
		return "(" + head + " \"0\" 0 0 1)"
	}
	r := new(big.Rat).SetFloat64(v)
	return "(" + head + " " + virQuote(strconv.FormatFloat(v, 'g', -1, 64)) + " " + strconv.FormatInt(int64(v), 10) + " " + r.Num().String() + " " + r.Denom().String() + ")"
}

func (e *oaEnc) schemaRef(sr *openapi3.SchemaRef) string {
	e.nodes++
	if sr == nil || e.nodes > 20000 {
		e.refuse = "nil-schema-ref-or-too-many-nodes"
		return `(r "" false "" ` + e.emptySchema() + `)`
	}
	descr := ""
	if sr.Value != nil {
		descr = sr.Value.Description
	}
	if sr.Ref != "" {
		if !oaIsRef(sr.Ref) {
			e.refuse = "ref-without-fragment"
		} else if len(oaExternalRef.FindStringSubmatch(sr.Ref)) != 0 {
			e.refuse = "external-ref"
		}
		e.kw("$ref")
		return "(r " + virQuote(sr.Ref) + " " + virBool(sr.Value != nil) + " " + virQuote(descr) + " " + e.emptySchema() + ")"
	}
	if sr.Value == nil {
		return `(r "" false "" ` + e.emptySchema() + `)`
	}
	return "(r \"\" true " + virQuote(descr) + " " + e.schema(sr.Value) + ")"
}

func (e *oaEnc) emptySchema() string { return "(os (a) (l) (l) (l) (p) none none)" }

func (e *oaEnc) schema(s *openapi3.Schema) string {
	a := []string{"a"}
	if s.Type != nil {
		parts := []string{"types"}
		for _, t := range *s.Type {
			parts = append(parts, virQuote(t))
		}
		a = append(a, "("+strings.Join(parts, " ")+")")
		if len(*s.Type) == 1 {
			e.kw("type:" + (*s.Type)[0])
		} else {
			e.kw("type-list")
		}
	}
	if s.Format != "" {
		a = append(a, "(format "+virQuote(s.Format)+")")
		e.kw("format:" + s.Format)
	}
	if s.Pattern != "" {
		a = append(a, "(pattern "+virQuote(s.Pattern)+")")
		e.kw("pattern")
	}
	flag := func(c bool, name string) {
		if c {
			a = append(a, "("+name+")")
			e.kw(name)
		}
	}
	flag(s.Nullable, "nullable")
	flag(s.IsEmpty(), "isEmpty")
	if s.Default != nil {
		a = append(a, "(default "+virVal(s.Default)+")")
		e.kw("default")
	}
	if s.Enum != nil {
		parts := []string{"enum"}
		for _, v := range s.Enum {
			if !oaScalarVal(v) {
				e.refuse = "enum-value-type"
			}
			if str, ok := v.(string); ok && fmt.Sprintf("%#v", str) != oaSimpleQuote(str) {
				e.refuse = "enum-string-needs-go-quoting"
			}
			parts = append(parts, virVal(v))
		}
		a = append(a, "("+strings.Join(parts, " ")+")")
		e.kw("enum")
	}
	flag(s.AllOf != nil, "hasAllOf")
	flag(s.AnyOf != nil, "hasAnyOf")
	flag(s.OneOf != nil, "hasOneOf")
	if len(s.Required) > 0 {
		parts := []string{"required"}
		for _, r := range s.Required {
			parts = append(parts, virQuote(r))
		}
		a = append(a, "("+strings.Join(parts, " ")+")")
		e.kw("required")
	}
	if s.AdditionalProperties.Has != nil {
		a = append(a, "(addlHas "+virBool(*s.AdditionalProperties.Has)+")")
		e.kw("additionalProperties:" + virBool(*s.AdditionalProperties.Has))
	}
	if s.Min != nil {
		a = append(a, e.f64("min", *s.Min))
		e.kw("minimum")
	}
	if s.Max != nil {
		a = append(a, e.f64("max", *s.Max))
		e.kw("maximum")
	}
	if s.MultipleOf != nil {
		a = append(a, e.f64("multipleOf", *s.MultipleOf))
		e.kw("multipleOf")
	}
	flag(s.ExclusiveMin, "exclusiveMin")
	flag(s.ExclusiveMax, "exclusiveMax")
	if s.MinLength != 0 {
		a = append(a, "(minLength "+strconv.FormatUint(s.MinLength, 10)+")")
		e.kw("minLength")
	}
	if s.MaxLength != nil {
		a = append(a, "(maxLength "+strconv.FormatUint(*s.MaxLength, 10)+")")
		e.kw("maxLength")
	}
	if s.Discriminator != nil {
		keys := make([]string, 0, len(s.Discriminator.Mapping))
		for k := range s.Discriminator.Mapping {
			keys = append(keys, k)
		}
		sort.Strings(keys)
		parts := []string{"discriminator", virQuote(s.Discriminator.PropertyName)}
		for _, k := range keys {
			parts = append(parts, "("+virQuote(k)+" "+virQuote(s.Discriminator.Mapping[k])+")")
		}
		a = append(a, "("+strings.Join(parts, " ")+")")
		e.kw("discriminator")
	}
	un := []string{}
	u := func(c bool, name string) {
		if c {
			un = append(un, name)
		}
	}
	u(s.Not != nil, "not")
	u(s.UniqueItems, "uniqueItems")
	u(s.MinItems != 0, "minItems")
	u(s.MaxItems != nil, "maxItems")
	u(s.MinProps != 0, "minProperties")
	u(s.MaxProps != nil, "maxProperties")
	u(s.Discriminator != nil, "discriminator")
	u(s.Format == "byte" || s.Format == "date", "format:"+s.Format)
	u(s.Type != nil && len(*s.Type) != 1, "type-list")
	if len(un) > 0 {
		parts := []string{"unmodelled"}
		for _, x := range un {
			parts = append(parts, virQuote(x))
			e.kw("unmodelled:" + x)
		}
		a = append(a, "("+strings.Join(parts, " ")+")")
	}
	list := func(ss openapi3.SchemaRefs) string {
		parts := []string{"l"}
		for _, x := range ss {
			parts = append(parts, e.schemaRef(x))
		}
		return "(" + strings.Join(parts, " ") + ")"
	}
	props := []string{"p"}
	names := make([]string, 0, len(s.Properties))
	for k := range s.Properties {
		names = append(names, k)
	}
	sort.Strings(names)
	for _, k := range names {
		props = append(props, "("+virQuote(k)+" "+e.schemaRef(s.Properties[k])+")")
	}
	if len(names) > 0 {
		e.kw("properties")
	}
	addl := "none"
	if s.AdditionalProperties.Schema != nil {
		addl = "(some " + e.schemaRef(s.AdditionalProperties.Schema) + ")"
		e.kw("additionalProperties:schema")
	}
	items := "none"
	if s.Items != nil {
		items = "(some " + e.schemaRef(s.Items) + ")"
		e.kw("items")
	}
	return "(os (" + strings.Join(a, " ") + ") " + list(s.AllOf) + " " + list(s.AnyOf) + " " + list(s.OneOf) + " (" + strings.Join(props, " ") + ") " + addl + " " + items + ")"
}

func oaEncodeCase(pkg string, doc *openapi3.T) (string, string, map[string]int) {
	e := &oaEnc{usedKW: map[string]int{}}
	if doc.Components == nil {
		return "(case " + virQuote(pkg) + " nocomponents)", "", e.usedKW
	}
	names := make([]string, 0, len(doc.Components.Schemas))
	for k := range doc.Components.Schemas {
		names = append(names, k)
	}
	sort.Strings(names)
	comps := []string{"comps"}
	for _, k := range names {
		comps = append(comps, "("+virQuote(k)+" "+e.schemaRef(doc.Components.Schemas[k])+")")
	}
	if e.refuse != "" {
		return "", e.refuse, e.usedKW
	}
	return "(case " + virQuote(pkg) + " (" + strings.Join(comps, " ") + "))", "", e.usedKW
}

func oaLoadLikeInput(path string) (doc *openapi3.T, err error) {
	defer func() {
		if rec := recover(); rec != nil {
			err = fmt.Errorf("PANIC in loader: %v", rec)
		}
	}()
	loader := openapi3.NewLoader()
	loader.Context = context.Background()
	loader.IsExternalRefsAllowed = true
	return loader.LoadFromFile(path)
}

func oaRealGenerateAST(path, pkg string) (sch *ast.Schema, err error) {
	defer func() {
		if rec := recover(); rec != nil {
			err = fmt.Errorf("PANIC: %v", rec)
		}
	}()
	doc, err := oaLoadLikeInput(path)
	if err != nil {
		return nil, fmt.Errorf("LOAD: %w", err)
	}
	return cogoa.GenerateAST(context.Background(), doc, cogoa.Config{Package: pkg, Validate: true})
}

// ---- pinned documents ---------------------------------------------------------------------------

type frontOaPinned struct {
	ID      string
	Schemas string // the object under components.schemas
	Root    string
	Docs    []string
}

func oaWrap(schemas string) string {
	return `{"openapi": "3.0.0", "info": {"title": "t", "version": "0.0"}, "paths": {}, "components": {"schemas": ` + schemas + `}}`
}

var c01FrontOaPinned = []frontOaPinned{
	{"oapinscalars", `{"R": {"type": "object", "additionalProperties": false, "required": ["s", "i"], "description": "the root\n\nobject", "properties": {
	    "s": {"type": "string", "minLength": 1, "maxLength": 3, "default": "ab", "description": "first\n\nsecond\n"},
	    "s0": {"type": "string", "minLength": 0, "maxLength": 0},
	    "i": {"type": "integer", "format": "int64", "minimum": 1, "maximum": 10, "default": 3},
	    "i32": {"type": "integer", "format": "int32", "minimum": -5, "exclusiveMinimum": true, "maximum": 5.5, "exclusiveMaximum": true, "nullable": true},
	    "iu": {"type": "integer", "multipleOf": 3},
	    "n": {"type": "number", "format": "double", "minimum": 0.5, "default": 1.5},
	    "nf": {"type": "number", "format": "float", "maximum": 7.25, "nullable": true},
	    "nu": {"type": "number", "multipleOf": 0.25},
	    "b": {"type": "boolean", "default": true, "nullable": true},
	    "t": {"type": "string", "format": "date-time", "nullable": true},
	    "by": {"type": "string", "format": "byte"},
	    "pm": {"type": "string", "pattern": "^math$", "nullable": true},
	    "pr": {"type": "string", "pattern": "^a.c$"},
	    "any": {}, "anyn": {"nullable": true, "description": "nothing else", "default": 1}
	  }}}`, "R",
		[]string{`{"s":"abc","i":1}`, `{"s":"abcd","i":1}`, `{"s":"é世ü","i":10,"n":0.75,"b":false,"t":"2020-01-02T03:04:05Z","any":[1,{"a":null}],"i32":null,"nf":null,"pm":"math"}`,
			`{"s":"","i":1}`, `{"s":"a","i":0}`, `{"s":"a","i":11}`, `{"s":"a","i":2,"n":0.25}`, `{"s":"a","i":2,"i32":-5}`, `{"s":"a","i":2,"i32":-4}`, `{"s":"a","i":2,"i32":5}`, `{"s":"a","i":2,"i32":6}`,
			`{"s":"a","i":2.5}`, `{"s":"a","i":2,"t":"yesterday"}`, `{"s":"a","i":2,"x":1}`, `{"i":2}`, `{"s":"a","i":2,"b":"true"}`, `{"s":"a","i":2,"b":null}`, `{"s":"a","i":null}`,
			`{"s":"a","i":2,"pm":"meth"}`, `{"s":"a","i":2,"pm":null}`, `{"s":"a","i":2,"iu":6}`, `{"s":"a","i":2,"iu":7}`, `{"s":"a","i":2,"nu":0.75}`, `{"s":"a","i":2,"s0":""}`, `{"s":"a","i":2,"s0":"x"}`, `[]`, `null`}},
	{"oapinenums", `{"R": {"type": "object", "additionalProperties": false, "properties": {
	    "es": {"type": "string", "enum": ["a", "b c"], "default": "a"},
	    "ei": {"type": "integer", "enum": [1, -2, 30]},
	    "en": {"type": "number", "enum": [1.5, 2]},
	    "esn": {"type": "string", "enum": ["m", 1, true, null]},
	    "eis": {"type": "integer", "enum": ["s", 2]},
	    "enl": {"type": "string", "enum": ["x"], "nullable": true},
	    "er": {"$ref": "#/components/schemas/E"}
	  }},
	  "E": {"type": "string", "enum": ["asc", "desc"], "description": "sort order"}}`, "R",
		[]string{`{}`, `{"es":"a","ei":-2,"en":2,"er":"desc"}`, `{"es":"c"}`, `{"ei":2}`, `{"ei":1.0}`, `{"esn":"m"}`, `{"eis":2}`, `{"enl":null}`, `{"er":"up"}`, `{"er":null}`}},
	{"oapincollections", `{"R": {"type": "object", "additionalProperties": false, "required": ["rl"], "properties": {
	    "rl": {"type": "array", "items": {"type": "string"}},
	    "l": {"type": "array", "items": {"type": "integer"}, "default": [1, 2.5, "x"], "nullable": true},
	    "ll": {"type": "array", "items": {"type": "array", "items": {"$ref": "#/components/schemas/P"}}},
	    "m": {"type": "object", "additionalProperties": {"type": "number"}},
	    "mr": {"type": "object", "additionalProperties": {"$ref": "#/components/schemas/P"}},
	    "ot": {"type": "object", "additionalProperties": true},
	    "of": {"type": "object", "additionalProperties": false},
	    "oo": {"type": "object"},
	    "ox": {"type": "object", "properties": {"k": {"type": "string"}}, "additionalProperties": {"type": "integer"}},
	    "open": {"type": "object", "properties": {"k": {"type": "string"}}},
	    "in": {"type": "object", "additionalProperties": false, "required": ["q"], "properties": {"q": {"type": "boolean"}, "w": {"type": "array", "items": {"type": "number"}}}}
	  }},
	  "P": {"type": "object", "additionalProperties": false, "required": ["x"], "properties": {"x": {"type": "integer"}, "next": {"$ref": "#/components/schemas/P"}}}}`, "R",
		[]string{`{"rl":[]}`, `{"rl":["a"],"l":[1,2],"ll":[[{"x":1,"next":{"x":2}}],[]],"m":{"a":1.5},"mr":{"k":{"x":3}},"in":{"q":true,"w":[]}}`,
			`{"rl":[1]}`, `{"rl":["a"],"l":[]}`, `{"rl":["a"],"l":null}`, `{"rl":["a"],"m":{}}`, `{"rl":["a"],"m":{"a":"b"}}`, `{"rl":["a"],"of":{}}`, `{"rl":["a"],"of":{"k":1}}`,
			`{"rl":["a"],"ox":{"k":"s","z":1}}`, `{"rl":["a"],"ox":{"z":"s"}}`, `{"rl":["a"],"open":{"z":"s"}}`, `{"rl":["a"],"in":{}}`, `{"rl":["a"],"in":{"q":false,"e":1}}`, `{"rl":null}`}},
	{"oapincombinators", `{"R": {"type": "object", "additionalProperties": false, "properties": {
	    "ou": {"oneOf": [{"type": "string"}, {"type": "integer", "minimum": 0}]},
	    "au": {"anyOf": [{"type": "number"}, {"type": "integer"}], "nullable": true},
	    "al": {"allOf": [{"$ref": "#/components/schemas/A"}, {"type": "object", "properties": {"extra": {"type": "string"}}}]},
	    "or": {"oneOf": [{"$ref": "#/components/schemas/A"}, {"$ref": "#/components/schemas/B"}], "discriminator": {"propertyName": "kind", "mapping": {"a": "#/components/schemas/A", "b": "#/components/schemas/B"}}},
	    "on": {"oneOf": [{"$ref": "#/components/schemas/A"}, {"$ref": "#/components/schemas/B"}]}
	  }},
	  "A": {"type": "object", "additionalProperties": false, "required": ["kind"], "properties": {"kind": {"type": "string", "pattern": "^a$"}, "v": {"type": "integer"}}},
	  "B": {"type": "object", "additionalProperties": false, "required": ["kind"], "properties": {"kind": {"type": "string", "pattern": "^b$"}}}}`, "R",
		[]string{`{}`, `{"ou":"s","au":1.5,"on":{"kind":"b"}}`, `{"ou":-1}`, `{"ou":3}`, `{"au":null}`, `{"on":{"kind":"c"}}`, `{"on":null}`}},
	{"oapinaliases", `{"R": {"type": "object", "additionalProperties": false, "required": ["rn"], "properties": {
	    "rn": {"$ref": "#/components/schemas/Name"}, "on": {"$ref": "#/components/schemas/Name"}, "c": {"$ref": "#/components/schemas/Count"},
	    "aa": {"$ref": "#/components/schemas/Alias"}, "tags": {"$ref": "#/components/schemas/Tags"}, "dict": {"$ref": "#/components/schemas/Dict"},
	    "when": {"$ref": "#/components/schemas/When"}, "any": {"$ref": "#/components/schemas/Anything"}, "nn": {"$ref": "#/components/schemas/NName"}
	  }},
	  "Name": {"type": "string", "description": "a name"}, "Count": {"type": "integer", "minimum": 0}, "Alias": {"$ref": "#/components/schemas/Name"},
	  "NName": {"type": "string", "nullable": true},
	  "Tags": {"type": "array", "items": {"type": "string"}}, "Dict": {"type": "object", "additionalProperties": {"type": "integer"}},
	  "When": {"type": "string", "format": "date-time"}, "Anything": {}, "Unreferenced": {"type": "boolean"}}`, "R",
		[]string{`{"rn":"a"}`, `{"rn":"a","on":"","c":0,"aa":"z","tags":["t"],"dict":{"a":1},"when":"2021-05-06T07:08:09+05:30","any":{"x":[1]},"nn":null}`,
			`{"rn":1}`, `{"rn":"a","tags":[]}`, `{"rn":"a","dict":{}}`, `{"rn":"a","c":-1}`, `{"rn":"a","aa":2}`, `{"rn":"a","on":null}`}},
	{"oapinint64", `{"R": {"type": "integer", "format": "int64"}, "U": {"type": "integer"}}`, "U",
		[]string{`9223372036854775808`, `9223372036854775807`, `-9223372036854775808`, `1.0`, `1.5`}},
	// getArgs converts an integer schema's float64 bound with int64(*v): a bound >= 2^63 (kin-openapi reads int64's own maximum
	// 9223372036854775807 as the float64 2^63) overflows to math.MinInt64 — the IR, the generated Validate() and the emitted
	// schema then reject every value (proposed finding C12/openapi/integer-bound-overflows-int64; tie: verifkit/front_emit.py)
	{"oapinint64max", `{"R": {"type": "object", "additionalProperties": false, "required": ["id"], "properties": {
	    "id": {"type": "integer", "format": "int64", "minimum": 0, "maximum": 9223372036854775807}}}}`, "R",
		[]string{`{"id": 87}`, `{"id": -1}`, `{}`}},
	// … and truncates a fractional bound towards zero: `minimum: 0.5` becomes `>= 0`
	{"oapinfracbound", `{"R": {"type": "object", "additionalProperties": false, "properties": {
	    "n": {"type": "integer", "format": "int64", "minimum": 0.5}, "m": {"type": "integer", "format": "int64", "maximum": -0.5}}}}`, "R",
		[]string{`{"n": 0}`, `{"n": 1}`, `{"m": 0}`, `{"m": -1}`}},
	// `pattern` values around tools.RegexMatchesConstantString (see pinpatterns in c01_front.go)
	{"oapinpatterns", `{"R": {"type": "object", "additionalProperties": false, "properties": {
	    "lit": {"type": "string", "pattern": "^math$"},
	    "alt": {"type": "string", "pattern": "^instant|range$"},
	    "altg": {"type": "string", "pattern": "^(a|b)$"},
	    "dot": {"type": "string", "pattern": "^a.c$"},
	    "plus": {"type": "string", "pattern": "^ab+$"},
	    "star": {"type": "string", "pattern": "^ab*$"},
	    "opt": {"type": "string", "pattern": "^ab?$"},
	    "cls": {"type": "string", "pattern": "^[a-z]$"},
	    "dig": {"type": "string", "pattern": "^\\d$"},
	    "rep": {"type": "string", "pattern": "^a{2}$"},
	    "ul": {"type": "string", "pattern": "math"},
	    "ula": {"type": "string", "pattern": "^math"},
	    "ulz": {"type": "string", "pattern": "math$"},
	    "escd": {"type": "string", "pattern": "^a\\.b$"},
	    "escp": {"type": "string", "pattern": "^a\\|b$"},
	    "dash": {"type": "string", "pattern": "^a-b_c$"},
	    "grp": {"type": "string", "pattern": "^(ab)$"},
	    "rb": {"type": "string", "pattern": "^a]b$"},
	    "rc": {"type": "string", "pattern": "^a}b$"}}}}`, "R",
		[]string{`{"lit":"math","alt":"instant","altg":"a","dot":"abc","plus":"abb","star":"a","opt":"ab","cls":"q","dig":"7","rep":"aa","ul":"xmathx","ula":"maths","ulz":"xmath","escd":"a.b","escp":"a|b","dash":"a-b_c"}`,
			`{"lit":"maths"}`, `{"alt":"range"}`, `{"alt":"instant|range"}`, `{"alt":"x"}`, `{"altg":"b"}`, `{"altg":"(a|b)"}`, `{"dot":"a.c"}`, `{"dot":"ac"}`,
			`{"plus":"a"}`, `{"star":"abbb"}`, `{"opt":"abb"}`, `{"cls":"Q"}`, `{"dig":"x"}`, `{"rep":"a"}`, `{"ul":"no"}`, `{"escd":"axb"}`, `{"escp":"a"}`, `{"dash":"a-b_c"}`, `{"dash":"x"}`}},
	// witness of C01_openapi_parser_sound_counterexample (lean/Cog/Props/C01.lean: `OA.cxComps`)
	{"oapinnullbool", `{"R": {"type": "boolean", "nullable": true}}`, "R", []string{`null`, `true`, `0`}},
	{"oapinflat", `{"R": {"type": "object", "additionalProperties": false, "required": ["code", "n"], "properties": {
	    "code": {"type": "string", "minLength": 2, "maxLength": 4, "default": "ab"},
	    "flag": {"type": "boolean", "default": true},
	    "n": {"type": "integer", "format": "int64", "minimum": 1, "maximum": 10, "default": 3},
	    "i32": {"type": "integer", "format": "int32", "minimum": -5, "exclusiveMinimum": true, "nullable": true},
	    "pm": {"type": "string", "pattern": "^math$"},
	    "r": {"type": "number", "format": "double", "minimum": 0.5, "maximum": 7.25, "exclusiveMaximum": true, "default": 1.5}
	  }}}`, "R",
		[]string{`{"code":"abc","n":1}`, `{"code":"a","n":1}`, `{"code":"abcde","n":11,"r":0.25}`, `{"code":"ab","n":0,"r":7.25,"flag":false}`,
			`{"code":"ab","n":5,"r":7,"pm":"math","i32":-4,"flag":true}`, `{"code":"abcdefgh","n":-3,"r":100,"i32":-5}`}},
	{"oapinerrors1", `{"R": {"type": "array"}}`, "R", nil},
	{"oapinerrors2", `{"R": {"enum": ["a"]}}`, "R", nil},
	{"oapinerrors3", `{"R": {"type": "boolean", "enum": [true]}}`, "R", nil},
	{"oapinempty", `{}`, "", nil},
}

// ---- the stream -----------------------------------------------------------------------------

type frontOaCase struct {
	ID, Kind, Pkg, Path, Note, Root string
	Docs                          []frontDoc
}

func c01FrontOaEmit(out *bufio.Writer, c frontOaCase, hist map[string]int) {
	defer func() {
		if rec := recover(); rec != nil {
			fmt.Fprintf(out, "-\tskip %s harness-panic %s\tok\n", c.ID, labOneLine(fmt.Sprint(rec)))
		}
	}()
	real, rerr := oaRealGenerateAST(c.Path, c.Pkg)
	doc, lerr := oaLoadLikeInput(c.Path)
	if lerr != nil {
		verdict := "ok"
		if rerr == nil {
			verdict = "FAIL loader refuses the document but GenerateAST succeeded"
		}
		fmt.Fprintf(out, "-\tskip %s library-refuses %s\t%s\n", c.ID, labOneLine(shortErr(lerr)), verdict)
		return
	}
	if verr := doc.Validate(context.Background(), openapi3.DisableExamplesValidation()); verr != nil {
		// `GenerateAST` starts with the library's own validation: nothing to model below it
		verdict := "ok"
		if rerr == nil {
			verdict = "FAIL library validation refuses the document but GenerateAST succeeded"
		}
		fmt.Fprintf(out, "-\tskip %s library-validation %s\t%s\n", c.ID, labOneLine(shortErr(verr)), verdict)
		return
	}
	enc, refuse, used := oaEncodeCase(c.Pkg, doc)
	if refuse != "" {
		fmt.Fprintf(out, "-\tskip %s encoder-refuses %s\tok\n", c.ID, refuse)
		return
	}
	for k, v := range used {
		hist[k] += v
	}
	fmt.Fprintf(out, "-\tcase %s kind=%s %s\tok\n", c.ID, c.Kind, c.Note)
	if raw, err := os.ReadFile(c.Path); err == nil {
		if jv, err := parseJV(raw); err == nil {
			fmt.Fprintf(out, "-\tschema %s %s\tok\n", c.ID, jv.json())
		}
	}
	fmt.Fprintf(out, "oafdef %s %s\tok\tok\n", c.ID, enc)
	if rerr != nil {
		if strings.HasPrefix(rerr.Error(), "PANIC") {
			fmt.Fprintf(out, "oafront %s\tpanic\tFAIL GenerateAST panicked: %s\n", c.ID, labOneLine(labFirstLine(rerr.Error())))
		} else {
			fmt.Fprintf(out, "oafront %s\terr\tok\n", c.ID)
		}
		return
	}
	vir := virSchemas(ast.Schemas{real})
	fmt.Fprintf(out, "oafront %s\tok %s\tok\n", c.ID, vir)
	fmt.Fprintf(out, "defschemas %s.fe %s\tok\tok\n", c.ID, vir)
	// instances of keeps_property and of the C10 compositions on the REAL front-end IR (lean/Cog/Drv/KeepsDrv.lean)
	fmt.Fprintf(out, "oafkeeps %s %s.fe\t-\tok\n", c.ID, c.ID)
	if len(c.Docs) == 0 || c.Root == "" || doc.Components == nil {
		return
	}
	rootRef := doc.Components.Schemas[c.Root]
	if rootRef == nil || rootRef.Value == nil {
		return
	}
	for _, d := range c.Docs {
		// instances of the C08 composition: every sub-document at a flat object component
		fmt.Fprintf(out, "oafc08 %s %s.fe %s %s\t-\tok\n", c.ID, c.ID, c.Root, d.Doc.sexp())
	}
	// source components → real front-end → real jsonschema jenny: does the EMITTED schema accept the document? (lean/Cog/Drv/FrontEmitDrv.lean)
	erv, etext, eerr := c01FrontRealEmitted(real, c.Root)
	if eerr == nil {
		if ejv, err := parseJV([]byte(etext)); err == nil {
			fmt.Fprintf(out, "-\temitted %s %s\tok\n", c.ID, ejv.json())
		}
	} else {
		fmt.Fprintf(out, "-\temitted-err %s %s\tok\n", c.ID, labOneLine(shortErr(eerr)))
	}
	for _, d := range c.Docs {
		src := func() (ok bool) {
			defer func() {
				if rec := recover(); rec != nil {
					ok = false
				}
			}()
			return rootRef.Value.VisitJSON(d.Doc.toAny(false), openapi3.EnableFormatValidation()) == nil
		}()
		remit := "n/a"
		if eerr == nil {
			remit = fmt.Sprint(erv.validate(d.Doc) == nil)
		}
		fmt.Fprintf(out, "oafc12 %s %s.fe %s %s\tsrc=%v remit=%s\tok\n", c.ID, c.ID, c.Root, d.Doc.sexp(), src, remit)
	}
	for _, d := range c.Docs {
		valid := func() (ok bool) {
			defer func() {
				if rec := recover(); rec != nil {
					ok = false
				}
			}()
			return rootRef.Value.VisitJSON(d.Doc.toAny(false), openapi3.EnableFormatValidation()) == nil
		}()
		fmt.Fprintf(out, "oafdoc %s %s.fe %s %s\tvalid=%v doc=%s\tok\n", c.ID, c.ID, c.Root, d.Doc.sexp(), valid, d.Kind)
	}
}

func init() {
	register("c01-front-oa", func(args map[string]string, out *bufio.Writer) error {
		n := argInt(args, "n", 30)
		ndocs := argInt(args, "docs", 10)
		nfault := argInt(args, "faults", 6)
		seed := uint64(argInt(args, "seed", 1))
		from := argInt(args, "from", 0)
		base := argGenOpts(args)
		dir := labWorkDir("c01frontoa")
		defer os.RemoveAll(dir)
		hist := map[string]int{}
		faultKinds := []string{"undeclaredKey", "missingRequired", "nullRequired", "wrongType", "notInEnum", "min-1", "max+1", "minLength-1", "maxLength+1"}
		if args["pinned"] != "0" {
			for _, p := range c01FrontOaPinned {
				path, err := writeSchemaFile(dir, "openapi", p.ID, oaWrap(p.Schemas))
				if err != nil {
					return err
				}
				c := frontOaCase{ID: p.ID, Kind: "pinned", Pkg: p.ID, Path: path, Root: p.Root}
				for i, d := range p.Docs {
					jv, err := parseJV([]byte(d))
					if err != nil {
						return fmt.Errorf("pinned %s doc %d: %w", p.ID, i, err)
					}
					c.Docs = append(c.Docs, frontDoc{jv, "pinned"})
				}
				c01FrontOaEmit(out, c, hist)
			}
		}
		if args["testdata"] != "0" {
			files, _ := filepath.Glob("testdata/openapi/*/schema.json")
			sort.Strings(files)
			for _, f := range files {
				abs, err := filepath.Abs(f)
				if err != nil {
					continue
				}
				name := strings.ReplaceAll(filepath.Base(filepath.Dir(f)), "_", "")
				c01FrontOaEmit(out, frontOaCase{ID: "tdoa" + name, Kind: "testdata", Pkg: "grafanatest", Path: abs, Note: "file=" + f}, hist)
			}
		}
		for i := from; i < from+n; i++ {
			profile := i % 3
			if p, ok := args["profile"]; ok {
				fmt.Sscanf(p, "%d", &profile)
			}
			o := base
			switch profile {
			case 1:
				o = base.with(c01PlainSwitches)
				if (i/3)%2 == 1 {
					// plain shapes WITH defaults (instances of the C10 compositions need `Plain` front-end output)
					o = base.with(strings.Replace(c01PlainSwitches, ",-default", "", 1))
				}
				if i%12 == 10 {
					// flat objects of constrained scalars (instances of the C08 composition)
					o = base.with(c01PlainSwitches + ",-array,-dict,-ref,-ref.recursive,-enumS,-enumI,-any,-const.string,-const.int,-const.bool,-def.enum,-nullable,-elem.nullable")
				}
				o.NoForce = true
			case 2:
				o = base.with("+def.collection,+struct.empty,+int.hugeBounds")
			}
			d0 := genDefs(seed, i, o)
			if profile == 1 && (i/3)%2 == 1 {
				d0 = c01HoistEnums(d0)
			} else if profile == 1 {
				d0 = c01DropDefaults(c01HoistEnums(d0))
			}
			id := fmt.Sprintf("f%doa", i)
			if err := d0.wf(); err != nil {
				fmt.Fprintf(out, "-\tskip %s term-not-wf %s\tok\n", id, labOneLine(err.Error()))
				continue
			}
			func() {
				defer func() {
					if rec := recover(); rec != nil {
						fmt.Fprintf(out, "-\tskip %s harness-panic %s\tok\n", id, labOneLine(fmt.Sprint(rec)))
					}
				}()
				d, notes := degradeDefs(d0, "openapi", 1)
				ro := renderDefs(d, "openapi", id)
				if ro.Text == "" || len(ro.Unsupported) > 0 {
					fmt.Fprintf(out, "-\tskip %s unsupported-by-format %s\tok\n", id, labOneLine(strings.Join(ro.Unsupported, ",")))
					return
				}
				path, err := writeSchemaFile(dir, "openapi", id, ro.Text)
				if err != nil {
					fmt.Fprintf(out, "-\tskip %s write %s\tok\n", id, labOneLine(err.Error()))
					return
				}
				c := frontOaCase{ID: id, Kind: "lab", Pkg: id, Path: path, Root: d.Root,
					Note: fmt.Sprintf("profile=%d degraded=%v notes=%v src=%s", profile, notes, ro.Notes, d.sexp())}
				dg := newDocGen(d, newRng(seed*7919+uint64(i)*31+5), defaultDocOpts())
				for k := 0; k < ndocs; k++ {
					c.Docs = append(c.Docs, frontDoc{dg.validDoc(), "valid"})
				}
				for k := 0; k < nfault; k++ {
					if fd, ok := dg.faultDoc(faultKinds); ok {
						c.Docs = append(c.Docs, frontDoc{fd.Doc, "fault:" + fd.Kind})
					}
				}
				c01FrontOaEmit(out, c, hist)
			}()
		}
		keys := make([]string, 0, len(hist))
		for k := range hist {
			keys = append(keys, k)
		}
		sort.Strings(keys)
		parts := []string{}
		for _, k := range keys {
			parts = append(parts, fmt.Sprintf("%s=%d", k, hist[k]))
		}
		fmt.Fprintf(out, "-\tstats keywords %s\tok\n", strings.Join(parts, " "))
		return nil
	})
}
