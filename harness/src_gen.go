package main

// Random generator of source-grammar terms. Every choice derives from newRng(seed) mixed with
// the case index, so a case is reproducible from (seed, index, GenOpts).

import (
	"sort"
	"strings"
)

type GenOpts struct {
	MaxDefs   int             // extra named definitions besides the root and union branches
	MaxFields int             // fields per struct
	MaxDepth  int             // nesting depth of a type term
	Avoid     map[string]bool // construct switches (see genSwitches)
	NoForce   bool            // disable the round-robin forcing of constructs into the root
}

// genSwitches documents every switch understood by the generator. The value says whether the
// construct is avoided by default (true = off unless enabled explicitly).
var genSwitches = map[string]bool{
	"any": false, "bool": false, "string": false, "string.minLen": false, "string.maxLen": false,
	"string.dateTime": false, "const.string": false, "const.int": false, "const.bool": false,
	"int": false, "int.narrow": false, "int.unsigned": false, "int.bounds": false,
	"num": false, "num.f32": false, "num.bounds": false, "enumS": false, "enumI": false,
	"array": false, "dict": false, "ref": false, "ref.recursive": false, "struct.nested": false,
	"oneOfScalars": false, "oneOfStructs": false, "field.optional": false, "nullable": false,
	"default": false, "default.bool": false, "default.int": false, "default.num": false,
	"default.string": false, "default.enum": false, "default.list": false, "default.struct": false,
	"default.union": false, "default.onRequired": false, "def.enum": false, "name.case": false,
	"array.of.struct": false, "dict.of.struct": false,
	"def.scalar":        false, // named plain scalar definition (`type UserName string`) referenced from members
	"sharedshape":       false, // the same union type drawn again for another member (clone of an earlier one)
	"int.nullablePlain": false, // forced only: nullable unbounded int64 (JSON Schema type-array spelling)
	// off by default, switched on by C01's c01-rows stream only (the other lab checks keep their term distribution)
	"union.consts": true, // member typed by a union of constants / of references to small enums (`0 | 1`, `#Off | #Level`, oneOf of consts), required and optional, the Go zero value among the members
	// off by default: each is a known trouble spot of cog or of a schema language
	"struct.empty":           true, // every front-end maps a property-less object to `any`
	"def.scalar.constrained": true, // named scalar alias WITH bounds / length limits (constraints on it are never validated, C08)
	"def.collection":         true, // named array / dict alias
	"name.collide":           true, // foo_bar + fooBar in one struct (Go identifier collision, C02)
	"name.keyword":           true, // field names that are Python/Go keywords (from, class, type)
	"name.dash":              true, // field names that are not identifiers (with-dash)
	"enum.oddNames":          true, // enum members "", "<", "with space", "1x"
	"int.hugeBounds":         true, // bounds beyond 2^53
	"oneOfScalars.overlap":   true, // int|num, string|date-time: more than one branch accepts a value
	"disc.ambiguous":         true, // union branches with two candidate discriminator fields (C03)
	"default.emptyList":      true,
	"default.struct.list":    true, // a list inside a struct default (cog's CUE front-end: "closed lists are not supported")
	// known-bad constructs: cog generates code that does not compile / import (see LAB.md, "Known failures")
	"default.list.nonString":      true, // list default of numbers/bools is emitted as []string{…}
	"enumI.signCollision":         true, // 1 and -1 in one integer enum: member names collide (JSON Schema / OpenAPI)
	"def.enum.single":             true, // named one-member string enum: CUE reads a constant, references to it break the Go output
	"default.struct.enumField":    true, // struct default overriding an enum-typed member: Go type `unknown`
	"name.defCase":                true, // definition names like sub_item / dataPoint: Python refers to the unconverted name
	"elem.nullable.struct":        true, // (nullable struct) elements: the strict decoder rejects the null entry, Python from_json raises
	"elem.nullable.underNullable": true, // nullable elements inside a nullable member: a disjunction nested in a disjunction branch (C06)
	"dict.nonScalar.noArray":      true, // a map of non-scalars in a package without any array of non-scalars: "strconv" imported and not used
	"default.onRecursiveRef":      true, // default on a reference that closes a cycle: CUE reports a structural cycle
}

func defaultGenOpts() GenOpts {
	o := GenOpts{MaxDefs: 3, MaxFields: 6, MaxDepth: 3, Avoid: map[string]bool{}}
	for k, off := range genSwitches {
		if off {
			o.Avoid[k] = true
		}
	}
	return o
}

// with returns a copy of the options with the given switches turned on (+tag) or off (-tag / tag).
func (o GenOpts) with(spec string) GenOpts {
	n := o
	n.Avoid = map[string]bool{}
	for k, v := range o.Avoid {
		n.Avoid[k] = v
	}
	for _, t := range strings.Split(spec, ",") {
		t = strings.TrimSpace(t)
		switch {
		case t == "":
		case t[0] == '+':
			delete(n.Avoid, t[1:])
		case t[0] == '-':
			n.Avoid[t[1:]] = true
		default:
			n.Avoid[t] = true
		}
	}
	return n
}

func (o GenOpts) avoid(tag string) bool { return o.Avoid[tag] }

type srcGen struct {
	r        *rng
	o        GenOpts
	d        *Defs
	cur      int              // index of the definition being filled in
	branchOf map[string]Field // pending discriminator field of union-branch definitions
	pendKind map[string]string
	wantDef  map[*Src]bool // field types that must receive a default in the post-pass
	noConstS bool          // inside a union branch: no other constant string fields
	used     map[string]bool
	filled   map[string]bool
	shapes   []*Src // unions of scalars drawn so far (candidates for reuse)
}

var rootNames = []string{"Root", "Doc", "Config", "Panel"}
var auxNames = []string{"Child", "Node", "Item", "Options", "Target", "Link", "Thing", "Leaf", "Entry"}
var auxNamesCase = []string{"sub_item", "dataPoint", "HTTPInfo"}
var fieldNames = []string{"name", "id", "value", "count", "tags", "labels", "title", "x", "y1", "enabled", "mode", "size", "items", "data", "when", "ratio", "level", "opts", "link", "note"}
var fieldNamesCase = []string{"foo_bar", "fooBar", "Kind", "HTTPCode", "max_items", "isOK", "a_b_c"}
var fieldNamesKeyword = []string{"from", "class", "type", "import", "range", "next"}
var fieldNamesDash = []string{"with-dash", "dotted.name", "1st"}
var enumStrPool = []string{"a", "b", "c", "foo", "bar", "baz", "asc", "desc", "foo-bar", "foo_bar", "Up", "DOWN"}
var enumStrOdd = []string{"", "<", ">", "with space", "1x", "+x", "-1"}
var constStrPool = []string{"v1", "fixed", "math", "alpha", "Beta"}
var dictKeyPool = []string{"k1", "k2", "a", "b b", "Key", "x-y"}

func normName(s string) string {
	var b strings.Builder
	for _, c := range strings.ToLower(s) {
		if (c >= 'a' && c <= 'z') || (c >= '0' && c <= '9') {
			b.WriteRune(c)
		}
	}
	return b.String()
}

// forceList: constructs cycled through the roots of consecutive case indices so that a stream
// of a dozen cases exercises everything that is switched on.
var forceList = []string{"any", "string.minLen", "const.string", "int.narrow", "num.f32", "enumS", "array", "ref",
	"oneOfScalars", "field.optional+nullable", "default.bool", "default.list", "array.of.struct",
	"bool", "string.maxLen", "const.int", "int.unsigned", "num.bounds", "enumI", "dict", "ref.recursive",
	"oneOfStructs", "field.required+nullable", "default.int", "default.struct", "dict.of.struct",
	"string.dateTime", "const.bool", "int.bounds", "struct.nested", "default.num", "default.string",
	"default.enum", "default.union", "name.case", "def.enum"}

// forceList2: a second, short cycle (one entry per case index) of shapes that need two cooperating
// sites or a particular spelling to matter: each comes back every len(forceList2) cases.
var forceList2 = []string{"int.nullablePlain", "sharedshape", "def.scalar", "union.plain", "elem.nullable"}

func genDefs(seed uint64, index int, o GenOpts) *Defs {
	g := &srcGen{r: newRng(seed*0x1000193 + uint64(index)*0x9E3779B1 + 17), o: o, d: &Defs{},
		branchOf: map[string]Field{}, pendKind: map[string]string{}, wantDef: map[*Src]bool{}, used: map[string]bool{}, filled: map[string]bool{}}
	if g.o.MaxFields < 1 {
		g.o.MaxFields = 1
	}
	root := pick(g.r, rootNames)
	g.d.Root = root
	g.used[normName(root)] = true
	g.d.Items = append(g.d.Items, Def{root, &Src{Kind: SStruct}})
	g.pendKind[root] = "struct"
	nAux := g.r.intn(g.o.MaxDefs + 1)
	for i := 0; i < nAux; i++ {
		kind := "struct"
		switch x := g.r.intn(100); {
		case x < 60:
		case x < 72 && !o.avoid("def.enum") && !o.avoid("enumS"):
			kind = "enumS"
		case x < 80 && !o.avoid("def.enum") && !o.avoid("enumI"):
			kind = "enumI"
		case x < 90 && !o.avoid("def.scalar"):
			kind = "scalar"
		case x < 100 && !o.avoid("def.collection"):
			kind = "collection"
		}
		g.newDef(kind)
	}
	g.fillAll()
	g.cur = 0
	if !o.NoForce {
		n := len(forceList)
		for k := 0; k < 3; k++ {
			g.force(forceList[(index*3+k)%n])
		}
		g.force2(forceList2[index%len(forceList2)])
		g.forceConstUnion(index)
	}
	g.linkUnreferenced()
	g.fixStrconv()
	g.addDefaults()
	return g.d
}

// fillAll generates the body of every definition that is still a placeholder (definitions
// appended while filling, e.g. union branches, are picked up by the same loop).
func (g *srcGen) fillAll() {
	o := g.o
	for j := 0; j < len(g.d.Items); j++ {
		name := g.d.Items[j].Name
		if g.filled[name] {
			continue
		}
		g.filled[name] = true
		g.cur = j
		var ty *Src
		switch g.pendKind[name] {
		case "struct":
			ty = g.genStruct(0, j == 0)
		case "branch":
			g.noConstS = o.avoid("disc.ambiguous")
			st := g.genStruct(1, false)
			g.noConstS = false
			disc := g.branchOf[name]
			// drop a clashing field, then put the discriminator at a random position
			fs := st.Fields[:0:0]
			for _, f := range st.Fields {
				if normName(f.Name) != normName(disc.Name) {
					fs = append(fs, f)
				}
			}
			pos := g.r.intn(len(fs) + 1)
			fs = append(fs[:pos:pos], append([]Field{disc}, fs[pos:]...)...)
			st.Fields = fs
			ty = st
		case "enumS":
			ty = g.genEnumS()
			for g.o.avoid("def.enum.single") && len(ty.EnumS) < 2 {
				ty = g.genEnumS()
			}
		case "enumI":
			ty = g.genEnumI()
			for g.o.avoid("def.enum.single") && len(ty.EnumI) < 2 {
				ty = g.genEnumI()
			}
		case "scalar":
			ty = g.genNamedScalar()
		case "collection":
			if g.r.chance(50) {
				ty = srcArray(g.genLeaf())
			} else {
				ty = srcDict(g.genLeaf())
			}
		default:
			ty = srcBool()
		}
		g.d.Items[j].Ty = ty
	}
	g.cur = 0
}

func (g *srcGen) newDef(kind string) string {
	pool := auxNames
	if !g.o.avoid("name.defCase") && g.r.chance(20) {
		pool = auxNamesCase
	}
	name := ""
	for try := 0; try < 50; try++ {
		name = pick(g.r, pool)
		if try > 10 {
			name = pick(g.r, auxNames) + string(rune('A'+g.r.intn(26)))
		}
		if !g.used[normName(name)] {
			break
		}
	}
	for g.used[normName(name)] {
		name += "X"
	}
	g.used[normName(name)] = true
	g.d.Items = append(g.d.Items, Def{name, &Src{Kind: SStruct}})
	g.pendKind[name] = kind
	return name
}

func (g *srcGen) fieldName(taken map[string]bool) string {
	for try := 0; ; try++ {
		pool := fieldNames
		switch x := g.r.intn(100); {
		case x < 18 && !g.o.avoid("name.case"):
			pool = fieldNamesCase
		case x < 24 && !g.o.avoid("name.keyword"):
			pool = fieldNamesKeyword
		case x < 28 && !g.o.avoid("name.dash"):
			pool = fieldNamesDash
		}
		n := pick(g.r, pool)
		if try > 30 {
			n = n + string(rune('a'+g.r.intn(26)))
		}
		key := normName(n)
		if !g.o.avoid("name.collide") {
			key = n
		}
		if !taken[key] {
			taken[key] = true
			return n
		}
	}
}

func (g *srcGen) genStruct(depth int, isRoot bool) *Src {
	s := &Src{Kind: SStruct}
	n := 1 + g.r.intn(g.o.MaxFields)
	if isRoot && n < 3 && g.o.MaxFields >= 3 {
		n = 3
	}
	if !isRoot && !g.o.avoid("struct.empty") && g.r.chance(10) {
		return s
	}
	taken := map[string]bool{}
	for i := 0; i < n; i++ {
		s.Fields = append(s.Fields, g.genField(g.fieldName(taken), depth))
	}
	return s
}

func (g *srcGen) genField(name string, depth int) Field {
	f := Field{Name: name, Required: true}
	if !g.o.avoid("field.optional") && g.r.chance(45) {
		f.Required = false
	}
	if !g.o.avoid("nullable") && g.r.chance(22) {
		f.Nullable = true
	}
	// back references need an optional field or a collection in between (CUE reports a structural
	// cycle for a required `null | #Self` chain)
	f.Ty = g.genTy(depth+1, !f.Required)
	if f.Ty.Kind == SAny {
		f.Nullable = false // `any` admits null already
	}
	if f.Nullable && g.o.avoid("elem.nullable.underNullable") && hasNullableElem(f.Ty) {
		f.Nullable = false
	}
	if f.Nullable && g.d.srcEnumLikeUnion(f.Ty) {
		f.Nullable = false // `null | "a" | "b"`: a known compile failure of the Go output (see the CUE printer)
	}
	return f
}

type wchoice struct {
	tag string
	w   int
}

func (g *srcGen) genTy(depth int, guarded bool) *Src {
	if !g.o.avoid("sharedshape") && !g.o.avoid("oneOfScalars") && len(g.shapes) > 0 && depth < g.o.MaxDepth && g.r.chance(8) {
		return pick(g.r, g.shapes).clone()
	}
	choices := []wchoice{{"string", 14}, {"int", 14}, {"bool", 7}, {"num", 8}, {"enumS", 6}, {"enumI", 4}, {"const", 5}, {"any", 4}, {"ref", 10}}
	if depth < g.o.MaxDepth {
		choices = append(choices, wchoice{"array", 10}, wchoice{"dict", 7}, wchoice{"struct.nested", 6}, wchoice{"oneOfScalars", 5}, wchoice{"oneOfStructs", 4})
	}
	choices = append(choices, wchoice{"union.consts", 6}) // avoided unless switched on
	total := 0
	ok := choices[:0:0]
	for _, c := range choices {
		if g.o.avoid(c.tag) {
			continue
		}
		if c.tag == "const" && g.o.avoid("const.string") && g.o.avoid("const.int") && g.o.avoid("const.bool") {
			continue
		}
		ok = append(ok, c)
		total += c.w
	}
	if total == 0 {
		return srcBool()
	}
	x := g.r.intn(total)
	tag := ok[0].tag
	for _, c := range ok {
		if x < c.w {
			tag = c.tag
			break
		}
		x -= c.w
	}
	switch tag {
	case "string":
		return g.genString()
	case "int":
		return g.genInt()
	case "bool":
		return srcBool()
	case "num":
		return g.genNum()
	case "enumS":
		return g.genEnumS()
	case "enumI":
		return g.genEnumI()
	case "const":
		return g.genConst()
	case "any":
		return srcAny()
	case "ref":
		if r := g.genRef(guarded); r != nil {
			return r
		}
		return g.genLeaf()
	case "array":
		return srcArray(g.maybeNullableElem(g.genTy(depth+1, true)))
	case "dict":
		for try := 0; try < 8; try++ {
			e := g.genTy(depth+1, true)
			if !g.o.avoid("dict.of.struct") || !g.structLike(e) {
				return srcDict(g.maybeNullableElem(e))
			}
		}
		return srcDict(g.maybeNullableElem(g.genLeaf()))
	case "struct.nested":
		return g.genStruct(depth, false)
	case "oneOfScalars":
		return g.genOneOfScalars()
	case "oneOfStructs":
		return g.genOneOfStructs()
	case "union.consts":
		return g.genConstUnion(-1)
	}
	return srcBool()
}

// srcEnumLikeUnion: a union whose alternatives are constants, booleans, enums or references to enums.
func (d *Defs) srcEnumLikeUnion(s *Src) bool {
	if s == nil || s.Kind != SOneOfScalars || len(s.Alts) == 0 {
		return false
	}
	for _, a := range s.Alts {
		switch a.Kind {
		case SConst, SEnumS, SEnumI, SBool:
		case SRef:
			if t := d.lookup(a.Ref); t == nil || (t.Kind != SEnumS && t.Kind != SEnumI) {
				return false
			}
		default:
			return false
		}
	}
	return true
}

// genConstUnion (switch union.consts): the type of a member that is a union of constants, of references to
// small enums of one base type, or a mix of both - the shapes cog's DisjunctionOfConstantsToEnum merges into
// ONE enum - and, for booleans, `false | true` (merged into a plain bool by DisjunctionToType). The Go zero
// value (0 / "" / false) is among the members most of the time. flavour < 0: drawn.
func (g *srcGen) genConstUnion(flavour int) *Src {
	if flavour < 0 {
		flavour = g.r.intn(10)
	}
	s := &Src{Kind: SOneOfScalars}
	ints := func(n int, zero bool) []int64 {
		out, seen := []int64{}, map[int64]bool{}
		if zero {
			out, seen[0] = append(out, 0), true
		}
		for len(out) < n {
			v := int64(g.r.intn(10))
			if !seen[v] {
				seen[v] = true
				out = append(out, v)
			}
		}
		return out
	}
	strs := func(n int, empty bool) []string {
		out, seen := []string{}, map[string]bool{}
		if empty {
			out = append(out, "")
		}
		for len(out) < n {
			v := pick(g.r, enumStrPool)
			if k := normName(v); !seen[k] {
				seen[k] = true
				out = append(out, v)
			}
		}
		return out
	}
	shuffleI := func(v []int64) {
		for i := len(v) - 1; i > 0; i-- {
			j := g.r.intn(i + 1)
			v[i], v[j] = v[j], v[i]
		}
	}
	enumDef := func(ty *Src) *Src {
		name := g.newDef("unionmember") // never picked by genRef: a direct reference to a one-member enum is a known-bad construct
		g.filled[name] = true
		g.d.Items[g.d.defIndex(name)].Ty = ty
		return srcRef(name)
	}
	zero := g.r.chance(75)
	switch {
	case flavour < 3 && !g.o.avoid("const.int"): // integer constants
		v := ints(2+g.r.intn(3), zero)
		shuffleI(v)
		for _, x := range v {
			s.Alts = append(s.Alts, srcConst(jInt(x)))
		}
	case flavour < 6 && !g.o.avoid("const.string"): // string constants
		v := strs(2+g.r.intn(2), zero)
		if g.r.chance(50) {
			v[0], v[len(v)-1] = v[len(v)-1], v[0]
		}
		for _, x := range v {
			s.Alts = append(s.Alts, srcConst(jStr(x)))
		}
	case flavour < 9 && !g.o.avoid("ref") && !g.o.avoid("def.enum"): // references to enums, a constant mixed in at times
		if g.r.chance(50) && !g.o.avoid("enumI") {
			// the first alternative is a constant or an enum of one or two members; the second enum keeps two
			// members at least (`0 | #Six` with `#Six: 6` is `0 | 6` to CUE: "numeric enums may only be
			// generated from memberNames attribute")
			v := ints(3+g.r.intn(2), zero)
			cut := 1 + g.r.intn(len(v)-2)
			if g.r.chance(30) && !g.o.avoid("const.int") {
				cut = 1
				s.Alts = append(s.Alts, srcConst(jInt(v[0])))
			} else {
				s.Alts = append(s.Alts, enumDef(srcEnumI(v[:cut]...)))
			}
			s.Alts = append(s.Alts, enumDef(srcEnumI(v[cut:]...)))
		} else {
			v := strs(3+g.r.intn(2), zero)
			cut := 1 + g.r.intn(2)
			if g.r.chance(30) && !g.o.avoid("const.string") {
				cut = 1
				s.Alts = append(s.Alts, srcConst(jStr(v[0])))
			} else {
				s.Alts = append(s.Alts, enumDef(srcEnumS(v[:cut]...)))
			}
			s.Alts = append(s.Alts, enumDef(srcEnumS(v[cut:]...)))
		}
	default: // `false | true`
		if g.o.avoid("const.bool") {
			return srcBool()
		}
		s.Alts = []*Src{srcConst(jBool(false)), srcConst(jBool(true))}
		if g.r.chance(50) {
			s.Alts[0], s.Alts[1] = s.Alts[1], s.Alts[0]
		}
	}
	return s
}

// forceConstUnion (switch union.consts): an optional and a required member of the root typed by such a union.
func (g *srcGen) forceConstUnion(index int) {
	if g.o.avoid("union.consts") || index%2 != 0 {
		return
	}
	g.cur = 0
	fl := (index / 2) % 10
	g.addRootField(Field{Ty: g.genConstUnion(fl), Required: g.o.avoid("field.optional")})
	if g.r.chance(60) {
		g.addRootField(Field{Ty: g.genConstUnion(fl), Required: true})
	}
}

func hasNullableElem(s *Src) bool {
	switch s.Kind {
	case SNullable:
		return true
	case SArray, SDict:
		return hasNullableElem(s.Elem)
	}
	return false
}

// nullableElemOK: the element kinds the grammar allows under (nullable …).
func nullableElemOK(e *Src) bool {
	switch e.Kind {
	case SBool, SString, SInt, SNum, SEnumS, SEnumI, SRef, SConst, SStruct:
		return true
	}
	return false
}

func (g *srcGen) maybeNullableElem(e *Src) *Src {
	if g.o.avoid("elem.nullable") || !nullableElemOK(e) || !g.r.chance(18) {
		return e
	}
	if g.o.avoid("elem.nullable.struct") {
		// struct-valued elements (inline or through a reference) are a known trouble spot
		if e.Kind == SStruct {
			return e
		}
		if e.Kind == SRef {
			switch g.pendKind[e.Ref] {
			case "enumS", "enumI", "scalar":
			default:
				return e
			}
		}
	}
	return srcNullable(e)
}

// structLike: the element kinds for which a Go map triggers the unused-strconv defect of the
// strict unmarshaller (struct, reference to a struct, any union, or a map of those).
func (g *srcGen) structLike(e *Src) bool {
	e, _ = e.unwrap()
	switch e.Kind {
	case SStruct, SOneOfStructs, SOneOfScalars:
		return true
	case SDict:
		return g.structLike(e.Elem)
	case SRef:
		switch g.pendKind[e.Ref] {
		case "struct", "branch":
			return true
		case "collection":
			return true
		}
	}
	return false
}

func (g *srcGen) genLeaf() *Src {
	for try := 0; try < 20; try++ {
		switch g.r.intn(4) {
		case 0:
			if !g.o.avoid("string") {
				return g.genString()
			}
		case 1:
			if !g.o.avoid("int") {
				return g.genInt()
			}
		case 2:
			if !g.o.avoid("bool") {
				return srcBool()
			}
		case 3:
			if !g.o.avoid("num") {
				return g.genNum()
			}
		}
	}
	return srcBool()
}

// genRef picks a target: forward references are free; references back to the current or an
// earlier definition must sit in a guarded position (optional / nullable field, array, dict) so
// that finite documents and finite Go types exist.
func (g *srcGen) genRef(guarded bool) *Src {
	cands := []string{}
	for j, it := range g.d.Items {
		if g.pendKind[it.Name] == "branch" || g.pendKind[it.Name] == "unionmember" {
			continue
		}
		if j > g.cur {
			cands = append(cands, it.Name)
		} else if guarded && !g.o.avoid("ref.recursive") && g.pendKind[it.Name] == "struct" {
			if g.r.chance(40) {
				cands = append(cands, it.Name)
			}
		}
	}
	if len(cands) == 0 {
		return nil
	}
	return srcRef(pick(g.r, cands))
}

func (g *srcGen) genString() *Src {
	s := &Src{Kind: SString}
	if !g.o.avoid("string.dateTime") && g.r.chance(18) {
		s.DateTime = true
		return s
	}
	if !g.o.avoid("string.minLen") && g.r.chance(30) {
		s.MinLen = i64p(int64(g.r.intn(4)))
		if g.r.chance(15) {
			s.MinLen = i64p(0)
		}
	}
	if !g.o.avoid("string.maxLen") && g.r.chance(30) {
		base := int64(0)
		if s.MinLen != nil {
			base = *s.MinLen
		}
		s.MaxLen = i64p(base + int64(g.r.intn(6)))
		if base == 0 && *s.MaxLen == 0 && g.r.chance(80) {
			s.MaxLen = i64p(1 + int64(g.r.intn(8)))
		}
	}
	return s
}

func (g *srcGen) genInt() *Src {
	s := &Src{Kind: SInt, Width: 64, Signed: true}
	if !g.o.avoid("int.narrow") {
		s.Width = pick(g.r, []int{64, 64, 64, 32, 32, 16, 8, 8})
	}
	if !g.o.avoid("int.unsigned") && g.r.chance(25) {
		s.Signed = false
	}
	if !g.o.avoid("int.bounds") && g.r.chance(45) {
		tlo, thi, _ := intTypeRange(s.Width, s.Signed)
		clo, chi := tlo, thi
		const lim = 1000000000
		if clo < -lim {
			clo = -lim
		}
		if chi > lim {
			chi = lim
		}
		span := func() int64 {
			switch g.r.intn(4) {
			case 0:
				return int64(g.r.intn(10))
			case 1:
				return int64(g.r.intn(100))
			}
			w := chi - clo
			if w > 100000 {
				w = 100000
			}
			return int64(g.r.intn(int(w) + 1))
		}
		var lo, hi int64
		switch g.r.intn(6) {
		case 0: // anchored at the type minimum
			lo = clo
			hi = lo + span()
		case 1: // anchored at the type maximum
			hi = chi
			lo = hi - span()
		case 2: // a single admissible value
			lo = clo + span()
			hi = lo
		default:
			lo = span()
			if s.Signed && g.r.chance(40) {
				lo = -lo
			}
			hi = lo + span()
		}
		if lo < clo {
			lo = clo
		}
		if lo > chi {
			lo = chi
		}
		if hi > chi {
			hi = chi
		}
		if hi < lo {
			hi = lo
		}
		switch g.r.intn(4) {
		case 0:
			s.Lo = &lo
		case 1:
			s.Hi = &hi
		default:
			s.Lo, s.Hi = &lo, &hi
		}
		if !g.o.avoid("int.hugeBounds") && s.Width == 64 && g.r.chance(20) {
			if s.Signed {
				s.Lo = i64p(-9223372036854775807 - 1)
			}
			s.Hi = i64p(9223372036854775807)
		}
	}
	return s
}

func (g *srcGen) quarter(lo, hi int) float64 { // a multiple of 0.25 in [lo, hi]
	return float64(lo*4+g.r.intn((hi-lo)*4+1)) / 4
}

func (g *srcGen) genNum() *Src {
	s := &Src{Kind: SNum, Width: 64}
	if !g.o.avoid("num.f32") && g.r.chance(35) {
		s.Width = 32
	}
	if !g.o.avoid("num.bounds") && g.r.chance(40) {
		lo := g.quarter(-50, 50)
		hi := lo + g.quarter(0, 60)
		if g.r.chance(10) {
			hi = lo
		}
		switch g.r.intn(4) {
		case 0:
			s.FLo = &lo
		case 1:
			s.FHi = &hi
		default:
			s.FLo, s.FHi = &lo, &hi
		}
	}
	return s
}

func (g *srcGen) genEnumS() *Src {
	n := 1 + g.r.intn(4)
	pool := append([]string(nil), enumStrPool...)
	if !g.o.avoid("enum.oddNames") {
		pool = append(pool, enumStrOdd...)
	}
	s := &Src{Kind: SEnumS}
	seen := map[string]bool{}
	for len(s.EnumS) < n {
		v := pick(g.r, pool)
		k := normName(v)
		if !g.o.avoid("enum.oddNames") {
			k = v
		}
		if seen[k] {
			continue
		}
		seen[k] = true
		s.EnumS = append(s.EnumS, v)
	}
	return s
}

func (g *srcGen) genEnumI() *Src {
	n := 1 + g.r.intn(4)
	s := &Src{Kind: SEnumI}
	seen := map[int64]bool{}
	for len(s.EnumI) < n {
		v := int64(g.r.intn(12)) - 2
		if g.r.chance(10) {
			v = int64(g.r.intn(2000)) - 1000
		}
		if seen[v] || (g.o.avoid("enumI.signCollision") && seen[-v]) {
			continue
		}
		seen[v] = true
		s.EnumI = append(s.EnumI, v)
	}
	return s
}

func (g *srcGen) genConst() *Src {
	for try := 0; try < 30; try++ {
		switch g.r.intn(3) {
		case 0:
			if !g.o.avoid("const.string") && !g.noConstS {
				return srcConst(jStr(pick(g.r, constStrPool)))
			}
		case 1:
			if !g.o.avoid("const.int") {
				return srcConst(jInt(int64(g.r.intn(200)) - 50))
			}
		case 2:
			if !g.o.avoid("const.bool") {
				return srcConst(jBool(g.r.chance(50)))
			}
		}
	}
	return srcBool()
}

func (g *srcGen) genOneOfScalars() *Src {
	cats := []int{0, 1, 2, 3}
	// shuffle
	for i := len(cats) - 1; i > 0; i-- {
		j := g.r.intn(i + 1)
		cats[i], cats[j] = cats[j], cats[i]
	}
	n := 2 + g.r.intn(2)
	s := &Src{Kind: SOneOfScalars}
	for _, c := range cats[:n] {
		switch c {
		case 0:
			s.Alts = append(s.Alts, srcString())
		case 1:
			s.Alts = append(s.Alts, srcBool())
		case 2:
			if g.r.chance(50) {
				s.Alts = append(s.Alts, srcInt(64, true, nil, nil))
			} else {
				s.Alts = append(s.Alts, srcNum(64, nil, nil))
			}
		case 3:
			s.Alts = append(s.Alts, srcArray(pick(g.r, []*Src{srcString(), srcInt(64, true, nil, nil), srcBool()})))
		}
	}
	if !g.o.avoid("oneOfScalars.overlap") && g.r.chance(50) {
		if g.r.chance(50) {
			s.Alts = []*Src{srcNum(64, nil, nil), srcInt(64, true, nil, nil)}
		} else {
			s.Alts = []*Src{srcString(), srcDateTime()}
		}
	}
	g.shapes = append(g.shapes, s)
	return s
}

// genNamedScalar: the type of a named scalar definition; plain unless def.scalar.constrained is on.
func (g *srcGen) genNamedScalar() *Src {
	var t *Src
	switch g.r.intn(4) {
	case 0:
		t = g.genInt()
	case 1:
		t = g.genString()
		t.DateTime = false
	case 2:
		t = g.genNum()
	default:
		return srcBool()
	}
	if g.o.avoid("def.scalar.constrained") {
		t.MinLen, t.MaxLen, t.Lo, t.Hi, t.FLo, t.FHi = nil, nil, nil, nil, nil, nil
	}
	return t
}

// force2 adds the shapes of forceList2 to the root.
func (g *srcGen) force2(tag string) {
	o := g.o
	if o.avoid(tag) && tag != "union.plain" {
		return
	}
	g.cur = 0
	switch tag {
	case "int.nullablePlain":
		if o.avoid("nullable") || o.avoid("int") {
			return
		}
		g.addRootField(Field{Ty: srcInt(64, true, nil, nil), Required: g.r.chance(50), Nullable: true})
	case "union.plain":
		// a union of plain scalars with an unbounded int64 among them
		if o.avoid("oneOfScalars") || o.avoid("int") {
			return
		}
		alts := []*Src{srcInt(64, true, nil, nil), pick(g.r, []*Src{srcString(), srcBool()})}
		if g.r.chance(50) {
			alts[0], alts[1] = alts[1], alts[0]
		}
		u := srcOneOfScalars(alts...)
		g.shapes = append(g.shapes, u)
		g.addRootField(Field{Ty: u, Required: g.r.chance(50)})
	case "sharedshape":
		// the same union on two (or three) optional members of one struct
		if o.avoid("oneOfScalars") || o.avoid("field.optional") {
			return
		}
		var u *Src
		if len(g.shapes) > 0 && g.r.chance(50) {
			u = pick(g.r, g.shapes)
		} else {
			u = g.genOneOfScalars()
		}
		holder := g.rootStruct()
		if name := g.anyStructDef(1); name != "" && g.r.chance(40) {
			holder = g.d.lookup(name)
		}
		taken := map[string]bool{}
		for _, x := range holder.Fields {
			taken[normName(x.Name)] = true
			taken[x.Name] = true
		}
		for k, n := 0, 2+g.r.intn(2); k < n; k++ {
			pos := g.r.intn(len(holder.Fields) + 1)
			f := Field{Name: g.fieldName(taken), Ty: u.clone(), Required: false}
			holder.Fields = append(holder.Fields[:pos:pos], append([]Field{f}, holder.Fields[pos:]...)...)
		}
	case "elem.nullable":
		if o.avoid("array") {
			return
		}
		in := pick(g.r, []*Src{srcNum(64, nil, nil), srcString(), srcInt(64, true, nil, nil), srcBool(), g.genInt(), g.genString()})
		ty := srcArray(srcNullable(in))
		if !o.avoid("dict") && g.r.chance(30) {
			ty = srcDict(srcNullable(in))
		}
		g.addRootField(Field{Ty: ty, Required: g.r.chance(50)})
	case "def.scalar":
		if o.avoid("ref") {
			return
		}
		name := ""
		for _, it := range g.d.Items {
			if g.pendKind[it.Name] == "scalar" {
				name = it.Name
			}
		}
		if name == "" {
			name = g.newDef("scalar")
			g.fillAll()
		}
		g.addRootField(Field{Ty: srcRef(name), Required: false})
		if g.r.chance(50) {
			g.addRootField(Field{Ty: srcRef(name), Required: true})
		}
	}
}

func (g *srcGen) genOneOfStructs() *Src {
	disc := pick(g.r, []string{"kind", "type", "Kind", "shape_type"})
	if g.o.avoid("name.case") {
		disc = pick(g.r, []string{"kind", "type"})
	}
	n := 2 + g.r.intn(2)
	s := &Src{Kind: SOneOfStructs, Disc: disc}
	tags := []string{"circle", "square", "tri", "line"}
	for i := 0; i < n; i++ {
		name := g.newDef("branch")
		tag := tags[i]
		g.branchOf[name] = Field{Name: disc, Ty: srcConst(jStr(tag)), Required: true}
		s.Branches = append(s.Branches, Branch{tag, name})
	}
	return s
}

// ---- forcing, linking, defaults ----

func (g *srcGen) rootStruct() *Src { return g.d.Items[0].Ty }

func (g *srcGen) addRootField(f Field) {
	root := g.rootStruct()
	taken := map[string]bool{}
	for _, x := range root.Fields {
		taken[normName(x.Name)] = true
		taken[x.Name] = true
	}
	if f.Name == "" || taken[normName(f.Name)] {
		f.Name = g.fieldName(taken)
	}
	pos := g.r.intn(len(root.Fields) + 1)
	root.Fields = append(root.Fields[:pos:pos], append([]Field{f}, root.Fields[pos:]...)...)
}

func (g *srcGen) hasTag(tag string) bool {
	found := false
	g.d.walkTags(func(t string) {
		if t == tag {
			found = true
		}
	})
	return found
}

func (g *srcGen) anyStructDef(minIdx int) string {
	for j := len(g.d.Items) - 1; j >= minIdx; j-- {
		if g.pendKind[g.d.Items[j].Name] == "struct" && j > 0 {
			return g.d.Items[j].Name
		}
	}
	return ""
}

func (g *srcGen) force(tag string) {
	o := g.o
	base := strings.SplitN(tag, ".", 2)[0]
	if o.avoid(tag) || (base != "field" && base != "array" && base != "dict" && base != "name" && base != "def" && o.avoid(base)) {
		return
	}
	if g.hasTag(tag) && !strings.HasPrefix(tag, "default.") {
		return
	}
	g.cur = 0
	req := g.r.chance(60)
	mk := func(t *Src) { g.addRootField(Field{Ty: t, Required: req}) }
	switch tag {
	case "any":
		mk(srcAny())
	case "bool":
		mk(srcBool())
	case "string.minLen":
		mk(srcStringLen(i64p(int64(1+g.r.intn(3))), nil))
	case "string.maxLen":
		mk(srcStringLen(nil, i64p(int64(1+g.r.intn(6)))))
	case "string.dateTime":
		mk(srcDateTime())
	case "const.string":
		mk(srcConst(jStr(pick(g.r, constStrPool))))
	case "const.int":
		mk(srcConst(jInt(int64(g.r.intn(100)))))
	case "const.bool":
		mk(srcConst(jBool(g.r.chance(50))))
	case "int.narrow":
		mk(srcInt(pick(g.r, []int{8, 16, 32}), true, nil, nil))
	case "int.unsigned":
		w := 64
		if !o.avoid("int.narrow") {
			w = pick(g.r, []int{8, 16, 32, 64})
		}
		mk(srcInt(w, false, nil, nil))
	case "int.bounds":
		lo := int64(g.r.intn(10))
		mk(srcInt(64, true, &lo, i64p(lo+int64(g.r.intn(20)))))
	case "num.f32":
		mk(srcNum(32, nil, nil))
	case "num.bounds":
		lo := g.quarter(-5, 5)
		mk(srcNum(64, &lo, f64p(lo+g.quarter(0, 10))))
	case "enumS":
		mk(g.genEnumS())
	case "enumI":
		mk(g.genEnumI())
	case "array":
		mk(srcArray(g.genLeaf()))
	case "dict":
		mk(srcDict(g.genLeaf()))
	case "ref", "array.of.struct", "dict.of.struct":
		if o.avoid("ref") {
			return
		}
		name := g.anyStructDef(1)
		if name == "" {
			name = g.newDef("struct")
			g.fillAll()
		}
		switch tag {
		case "ref":
			mk(srcRef(name))
		case "array.of.struct":
			if !o.avoid("array") {
				mk(srcArray(srcRef(name)))
			}
		default:
			if !o.avoid("dict") {
				mk(srcDict(srcRef(name)))
			}
		}
	case "ref.recursive":
		if o.avoid("ref") {
			return
		}
		name := g.anyStructDef(1)
		target := g.d.Root
		holder := g.rootStruct()
		if name != "" {
			target, holder = name, g.d.lookup(name)
		}
		taken := map[string]bool{}
		for _, x := range holder.Fields {
			taken[normName(x.Name)] = true
			taken[x.Name] = true
		}
		ty := srcRef(target)
		if !o.avoid("array") && g.r.chance(40) {
			ty = srcArray(ty)
		}
		holder.Fields = append(holder.Fields, Field{Name: g.fieldName(taken), Ty: ty, Required: ty.Kind == SArray && g.r.chance(50)})
	case "struct.nested":
		mk(g.genStruct(2, false))
	case "oneOfScalars":
		mk(g.genOneOfScalars())
	case "oneOfStructs":
		u := g.genOneOfStructs()
		g.fillAll()
		mk(u)
	case "field.optional+nullable":
		if o.avoid("nullable") || o.avoid("field.optional") {
			return
		}
		g.addRootField(Field{Ty: g.nullableFriendly(), Required: false, Nullable: true})
	case "field.required+nullable":
		if o.avoid("nullable") {
			return
		}
		g.addRootField(Field{Ty: g.nullableFriendly(), Required: true, Nullable: true})
	case "default.bool", "default.int", "default.num", "default.string", "default.enum", "default.list", "default.struct", "default.union":
		if o.avoid("default") {
			return
		}
		var t *Src
		switch tag {
		case "default.bool":
			t = srcBool()
		case "default.int":
			t = g.genInt()
		case "default.num":
			t = g.genNum()
		case "default.string":
			t = g.genString()
			t.DateTime = false
		case "default.enum":
			if g.r.chance(50) && !o.avoid("enumI") {
				t = g.genEnumI()
			} else {
				t = g.genEnumS()
			}
		case "default.list":
			if o.avoid("array") {
				return
			}
			t = srcArray(pick(g.r, []*Src{srcString(), srcInt(64, true, nil, nil), srcBool(), srcNum(64, nil, nil)}))
			if o.avoid("default.list.nonString") {
				t = srcArray(srcString())
			}
		case "default.struct":
			t = &Src{Kind: SStruct, Fields: []Field{
				{Name: "a", Ty: srcString(), Required: g.r.chance(50)},
				{Name: "b", Ty: srcInt(64, true, nil, nil), Required: g.r.chance(50)},
				{Name: "c", Ty: srcBool(), Required: false}}}
			if !o.avoid("ref") && g.r.chance(50) {
				name := g.newDef("struct")
				g.d.Items[len(g.d.Items)-1].Ty = t
				g.filled[name] = true
				t = srcRef(name)
			}
		case "default.union":
			if o.avoid("oneOfScalars") {
				return
			}
			t = g.genOneOfScalars()
		}
		g.wantDef[t] = true
		g.addRootField(Field{Ty: t, Required: !o.avoid("default.onRequired") && g.r.chance(30)})
	case "name.case":
		g.addRootField(Field{Name: pick(g.r, fieldNamesCase), Ty: g.genLeaf(), Required: req})
	case "def.enum":
		if o.avoid("ref") || o.avoid("enumS") {
			return
		}
		name := g.newDef("enumS")
		g.fillAll()
		mk(srcRef(name))
	}
}

func (g *srcGen) nullableFriendly() *Src {
	switch g.r.intn(6) {
	case 0:
		return g.genString()
	case 1:
		return g.genInt()
	case 2:
		if name := g.anyStructDef(1); name != "" && !g.o.avoid("ref") {
			return srcRef(name)
		}
		return srcBool()
	case 3:
		if !g.o.avoid("array") {
			return srcArray(g.genLeaf())
		}
	case 4:
		if !g.o.avoid("struct.nested") {
			return g.genStruct(2, false)
		}
	}
	return g.genLeaf()
}

func (d *Defs) refsOf(s *Src, f func(name string)) {
	switch s.Kind {
	case SRef:
		f(s.Ref)
	case SArray, SDict, SNullable:
		d.refsOf(s.Elem, f)
	case SStruct:
		for _, fl := range s.Fields {
			d.refsOf(fl.Ty, f)
		}
	case SOneOfScalars:
		for _, a := range s.Alts {
			d.refsOf(a, f)
		}
	case SOneOfStructs:
		for _, b := range s.Branches {
			f(b.Name)
		}
	}
}

func (d *Defs) reachable() map[string]bool {
	seen := map[string]bool{}
	var visit func(name string)
	visit = func(name string) {
		if seen[name] {
			return
		}
		seen[name] = true
		if t := d.lookup(name); t != nil {
			d.refsOf(t, visit)
		}
	}
	visit(d.Root)
	return seen
}

// scalarLike: what cog's strict unmarshaller treats as a scalar element (scalar or enum after
// resolving references).
func (d *Defs) scalarLike(e *Src) bool {
	e, _ = e.unwrap()
	e = d.resolve(e)
	if e == nil {
		return true
	}
	switch e.Kind {
	case SAny, SBool, SString, SConst, SInt, SNum, SEnumS, SEnumI:
		return true
	case SOneOfScalars:
		return d.srcEnumLikeUnion(e) // merged into one enum (or a bool) by the Go chain
	}
	return false
}

// strconvShape reports whether struct members contain a map of non-scalars / an array of
// non-scalars (the strict unmarshaller template imports strconv for the former and only uses it
// for the latter).
func (d *Defs) strconvShape() (nonScalarMap, nonScalarArray bool) {
	var visit func(s *Src)
	visit = func(s *Src) {
		switch s.Kind {
		case SArray:
			in, _ := s.Elem.unwrap() // arrays of arrays count by their innermost element
			in = d.resolve(in)
			for in != nil && in.Kind == SArray {
				in, _ = in.Elem.unwrap()
				in = d.resolve(in)
			}
			if in != nil && !d.scalarLike(in) {
				nonScalarArray = true
			}
			visit(s.Elem)
		case SDict:
			in, _ := s.Elem.unwrap() // maps of maps likewise
			in = d.resolve(in)
			for in != nil && in.Kind == SDict {
				in, _ = in.Elem.unwrap()
				in = d.resolve(in)
			}
			if in != nil && !d.scalarLike(in) {
				nonScalarMap = true
			}
			visit(s.Elem)
		case SNullable:
			visit(s.Elem)
		case SStruct:
			for _, f := range s.Fields {
				visit(f.Ty)
			}
		}
	}
	for _, it := range d.Items {
		if it.Ty.Kind == SStruct {
			visit(it.Ty)
		}
	}
	return
}

// fixStrconv routes around cog's unused-import defect: a term with a map of non-scalars gets an
// array of non-scalars as well (unless the bare shape is asked for).
func (g *srcGen) fixStrconv() {
	if !g.o.avoid("dict.nonScalar.noArray") {
		return
	}
	m, a := g.d.strconvShape()
	if !m || a {
		return
	}
	var ty *Src
	if name := g.anyStructDef(1); name != "" {
		ty = srcArray(srcRef(name))
	} else {
		ty = srcArray(srcStruct(Field{Name: "v", Ty: srcBool(), Required: true}))
	}
	g.addRootField(Field{Ty: ty, Required: g.r.chance(30)})
}

// linkUnreferenced makes every definition reachable from the root (the JSON Schema front-end only
// declares what the root reaches).
func (g *srcGen) linkUnreferenced() {
	for {
		seen := g.d.reachable()
		missing := ""
		for _, it := range g.d.Items {
			if !seen[it.Name] {
				missing = it.Name
				break
			}
		}
		if missing == "" {
			return
		}
		if g.pendKind[missing] == "unionmember" {
			// an enum created for a union of references whose member was discarded afterwards (a map of
			// struct-like values redrawn, a clashing field of a union branch): nothing refers to it and a
			// direct reference to a one-member enum is a known-bad construct, so the definition goes too
			j := g.d.defIndex(missing)
			g.d.Items = append(g.d.Items[:j:j], g.d.Items[j+1:]...)
			continue
		}
		ty := srcRef(missing)
		if g.d.lookup(missing).Kind == SStruct && !g.o.avoid("array") && g.r.chance(25) {
			ty = srcArray(ty)
		}
		g.addRootField(Field{Ty: ty, Required: g.r.chance(40)})
	}
}

// addDefaults decorates fields with defaults (post-pass: referenced definitions are complete).
func (g *srcGen) addDefaults() {
	if g.o.avoid("default") {
		return
	}
	dg := newDocGen(g.d, g.r, DocOpts{NoForced: true, Plain: true})
	curDef := ""
	var visit func(s *Src)
	visit = func(s *Src) {
		switch s.Kind {
		case SArray, SDict, SNullable:
			visit(s.Elem)
		case SStruct:
			for i := range s.Fields {
				f := &s.Fields[i]
				visit(f.Ty)
				want := g.wantDef[f.Ty]
				if !want && !g.r.chance(18) {
					continue
				}
				if f.Required && g.o.avoid("default.onRequired") {
					if want {
						f.Required = false
					} else {
						continue
					}
				}
				if f.Required && !want && !g.r.chance(35) {
					continue
				}
				if f.Ty.Kind == SRef && g.o.avoid("default.onRecursiveRef") && g.d.reachableFrom(f.Ty.Ref)[curDef] {
					continue
				}
				if v, ok := g.defaultFor(dg, f.Ty); ok {
					f.Default = &v
				}
			}
		}
	}
	for _, it := range g.d.Items {
		curDef = it.Name
		visit(it.Ty)
	}
}

func (d *Defs) reachableFrom(name string) map[string]bool {
	seen := map[string]bool{}
	var visit func(n string)
	visit = func(n string) {
		if seen[n] {
			return
		}
		seen[n] = true
		if t := d.lookup(n); t != nil {
			d.refsOf(t, visit)
		}
	}
	visit(name)
	return seen
}

// oneValued: the type admits exactly one JSON value.
func oneValued(t *Src) bool {
	switch t.Kind {
	case SConst:
		return true
	case SEnumS:
		return len(t.EnumS) == 1
	case SEnumI:
		return len(t.EnumI) == 1
	case SInt:
		lo, hi := t.effRange()
		return lo == hi
	case SNum:
		return t.FLo != nil && t.FHi != nil && *t.FLo == *t.FHi
	}
	return false
}

func isPlainScalar(s *Src) bool {
	switch s.Kind {
	case SBool, SInt, SNum, SEnumS, SEnumI:
		return true
	case SString:
		return !s.DateTime
	}
	return false
}

func (g *srcGen) defaultFor(dg *docGen, ty *Src) (JV, bool) {
	t := g.d.resolve(ty)
	if t == nil {
		return JV{}, false
	}
	tag := "default." + g.d.defaultTag(ty, JV{})
	tag = strings.Replace(tag, "default.ref.", "default.", 1)
	if g.o.avoid(tag) {
		return JV{}, false
	}
	if oneValued(t) {
		return JV{}, false // a default on a one-valued type says nothing (and cog's CUE front-end chokes on `31 | *31`)
	}
	switch t.Kind {
	case SBool, SInt, SNum, SEnumS, SEnumI:
		return dg.val(t, 0), true
	case SString:
		if t.DateTime {
			return JV{}, false
		}
		return dg.val(t, 0), true
	case SArray:
		if !isPlainScalar(t.Elem) {
			return JV{}, false
		}
		if g.o.avoid("default.list.nonString") && t.Elem.Kind != SString {
			return JV{}, false
		}
		n := 1 + g.r.intn(3)
		if !g.o.avoid("default.emptyList") && g.r.chance(15) {
			n = 0
		}
		out := jArr()
		for i := 0; i < n; i++ {
			out.A = append(out.A, dg.val(t.Elem, 0))
		}
		return out, true
	case SStruct:
		out := jObj()
		idx := []int{}
		for i, f := range t.Fields {
			if rt := g.d.resolve(f.Ty); rt != nil && (rt.Kind == SEnumS || rt.Kind == SEnumI) && g.o.avoid("default.struct.enumField") {
				continue
			}
			if isPlainScalar(g.d.resolve(f.Ty)) || (!g.o.avoid("default.struct.list") && f.Ty.Kind == SArray && isPlainScalar(f.Ty.Elem)) {
				idx = append(idx, i)
			}
		}
		if len(idx) == 0 {
			return JV{}, false
		}
		// partial override: a non-empty subset of the simple fields
		keep := []int{}
		for _, i := range idx {
			if g.r.chance(60) {
				keep = append(keep, i)
			}
		}
		if len(keep) == 0 {
			keep = []int{idx[g.r.intn(len(idx))]}
		}
		sort.Ints(keep)
		for _, i := range keep {
			f := t.Fields[i]
			ft := g.d.resolve(f.Ty)
			if ft.Kind == SArray {
				a := jArr()
				for k := 0; k < 1+g.r.intn(2); k++ {
					a.A = append(a.A, dg.val(ft.Elem, 0))
				}
				out.O = append(out.O, JKV{f.Name, a})
			} else {
				out.O = append(out.O, JKV{f.Name, dg.val(ft, 0)})
			}
		}
		return out, true
	case SOneOfScalars:
		if g.d.srcEnumLikeUnion(t) {
			return JV{}, false // defaults on the merged enum are C10's subject; C01's terms stay without
		}
		return dg.val(t, 0), true
	}
	return JV{}, false
}
