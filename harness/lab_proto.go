package main

import (
	"bufio"
	"fmt"
	"sort"

	"github.com/grafana/cog/internal/jennies/golang"
	"github.com/grafana/cog/internal/jennies/python"
)

func init() {
	register("lab-proto", func(args map[string]string, out *bufio.Writer) error {
		lr := labRun{Format: args["format"], Path: args["path"], Package: args["pkg"], OutDir: args["out"],
			GoCfg: &golang.Config{GenerateJSONMarshaller: true, GenerateStrictUnmarshaller: true, GenerateEqual: true, GenerateValidate: true, PackageRoot: "example.com/lab/go"},
			PyCfg: &python.Config{GenerateJSONMarshaller: true}, JSONSch: true, OpenAPI: true, Builders: args["builders"] == "1", Convert: args["builders"] == "1"}
		files, err := lr.run()
		if err != nil {
			fmt.Fprintln(out, "ERR", err)
			return nil
		}
		names := []string{}
		for n := range files {
			names = append(names, n)
		}
		sort.Strings(names)
		for _, n := range names {
			fmt.Fprintln(out, n, len(files[n]))
		}
		return writeFiles(args["out"], files)
	})
}
