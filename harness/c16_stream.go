package main

// C16 streams: random schema sets -> real ast.BuilderGenerator.FromAST (panic recovered; a stack
// overflow is observed in a child process) vs the Lean model (`fromast <schemas>`), plus the
// implementation-side oracle of c16_oracle.go.
//
//   c16-fromast n= seed= tier= mode=wf|malformed     rows: request \t impl \t verdict \t caseid
//   c16-eval    case=<caseid> [shrink=1]               one row (optionally shrunk first)
//   c16-child   case=<caseid>                          impl reply only (small max stack)

import (
	"bufio"
	"fmt"
	"os"
	"os/exec"
	"runtime/debug"
	"strconv"
	"strings"

	"github.com/grafana/cog/internal/ast"
)

type caseID struct {
	seed, idx  int
	mode, tier string
	edits      []string
}

func (c caseID) String() string {
	return fmt.Sprintf("%d:%d:%s:%s:%s", c.seed, c.idx, c.mode, c.tier, strings.Join(c.edits, ","))
}

func parseCaseID(s string) (caseID, error) {
	p := strings.SplitN(s, ":", 5)
	if len(p) != 5 {
		return caseID{}, fmt.Errorf("bad case id %q", s)
	}
	seed, e1 := strconv.Atoi(p[0])
	idx, e2 := strconv.Atoi(p[1])
	if e1 != nil || e2 != nil {
		return caseID{}, fmt.Errorf("bad case id %q", s)
	}
	c := caseID{seed: seed, idx: idx, mode: p[2], tier: p[3]}
	if p[4] != "" {
		c.edits = strings.Split(p[4], ",")
	}
	return c, nil
}

// applyEdit: "s/<pkg>" drop schema, "o/<pkg>/<obj>" drop object, "f/<pkg>/<obj>/<field>" drop field
func applyEdit(schemas ast.Schemas, e string) ast.Schemas {
	p := strings.Split(e, "/")
	switch {
	case p[0] == "s" && len(p) == 2:
		out := ast.Schemas{}
		for _, s := range schemas {
			if s.Package != p[1] {
				out = append(out, s)
			}
		}
		return out
	case p[0] == "o" && len(p) == 3:
		for _, s := range schemas {
			if s.Package == p[1] && s.Objects.Has(p[2]) {
				s.Objects.Remove(p[2])
				break
			}
		}
	case p[0] == "f" && len(p) == 4:
		for _, s := range schemas {
			if s.Package == p[1] && s.Objects.Has(p[2]) {
				o := s.Objects.Get(p[2])
				if isRealStruct(o.Type) {
					fs := []ast.StructField{}
					for _, f := range o.Type.Struct.Fields {
						if f.Name != p[3] {
							fs = append(fs, f)
						}
					}
					o.Type.Struct = &ast.StructType{Fields: fs}
					s.Objects.Set(p[2], o)
				}
				break
			}
		}
	}
	return schemas
}

// c16Pinned: the minimal witnesses of the Lean counterexample theorems (lean/Cog/Builder/Witness.lean)
func c16Pinned(name string) ast.Schemas {
	s := ast.NewSchema("p", ast.SchemaMeta{})
	switch name {
	case "dangling":
		s.AddObject(ast.NewObject("p", "D", ast.NewRef("p", "Missing")))
	case "alias-cycle":
		s.AddObject(ast.NewObject("p", "A", ast.NewRef("p", "A")))
	case "optional-const-ref":
		k := ast.String()
		k.Scalar.Value = "x"
		s.AddObject(ast.NewObject("p", "K", k))
		s.AddObject(ast.NewObject("p", "S", ast.NewStruct(ast.NewStructField("k", ast.NewRef("p", "K")))))
	default:
		return nil
	}
	return ast.Schemas{s}
}

func c16Case(c caseID) ast.Schemas {
	if c.mode == "pinned" {
		return c16Pinned(c.tier)
	}
	r := caseRng(c.seed, c.idx)
	schemas := genC16Schemas(r, c16Opts{tier: c.tier, malformed: c.mode == "malformed"})
	if c.mode != "malformed" {
		removeAliasCycles(schemas)
	}
	for _, e := range c.edits {
		schemas = applyEdit(schemas, e)
	}
	return schemas
}

func anyAliasCycle(schemas ast.Schemas) bool {
	for _, s := range schemas {
		for _, o := range schemaObjects(s) {
			if _, st := c16Resolve(schemas, o.Type); st == "cycle" {
				return true
			}
		}
	}
	return false
}

func runFromAST(schemas ast.Schemas) (bs []ast.Builder, panicMsg string) {
	defer func() {
		if e := recover(); e != nil {
			bs = nil
			panicMsg = fmt.Sprint(e)
			if panicMsg == "" {
				panicMsg = "panic"
			}
		}
	}()
	gen := ast.BuilderGenerator{}
	return gen.FromAST(schemas), ""
}

// c16Row evaluates one case. Cyclic alias chains make the real code overflow its stack (fatal): the
// real code is then run in a child process.
func c16Row(c caseID, schemas ast.Schemas) (req, impl, verdict string) {
	req = "fromast " + virSchemas(schemas)
	if anyAliasCycle(schemas) {
		impl = c16Child(c)
		return req, impl, "ok" // alias cycles: outside the property's quantifier, correspondence only
	}
	bs, pm := runFromAST(schemas)
	if pm != "" {
		return req, "panic", c16PanicVerdict(schemas, pm)
	}
	return req, "ok " + virBuilders(bs), c16Oracle(schemas, bs)
}

func c16Child(c caseID) string {
	exe, err := os.Executable()
	if err != nil {
		return "child-error " + err.Error()
	}
	cmd := exec.Command(exe, "c16-child", "case="+c.String())
	var stderr strings.Builder
	cmd.Stderr = &stderr
	out, err := cmd.Output()
	if err == nil {
		return strings.TrimSpace(string(out))
	}
	if strings.Contains(stderr.String(), "stack overflow") || strings.Contains(stderr.String(), "goroutine stack exceeds") {
		return "diverge"
	}
	return "child-error " + firstLine(stderr.String())
}

// c16Shrink: greedy deletion of schemas / objects / fields while the oracle verdict keeps its class.
func c16Shrink(c caseID, class string) caseID {
	classOf := func(cc caseID) string {
		s := c16Case(cc)
		if anyAliasCycle(s) {
			return ""
		}
		_, _, v := c16Row(cc, s)
		return verdictClass(v)
	}
	changed := true
	for changed {
		changed = false
		schemas := c16Case(c)
		cands := []string{}
		if len(schemas) > 1 {
			for _, s := range schemas {
				cands = append(cands, "s/"+s.Package)
			}
		}
		for _, s := range schemas {
			for _, o := range schemaObjects(s) {
				cands = append(cands, "o/"+s.Package+"/"+o.Name)
			}
		}
		for _, s := range schemas {
			for _, o := range schemaObjects(s) {
				if isRealStruct(o.Type) {
					for _, f := range o.Type.Struct.Fields {
						cands = append(cands, "f/"+s.Package+"/"+o.Name+"/"+f.Name)
					}
				}
			}
		}
		for _, e := range cands {
			if strings.ContainsAny(e, ":,") {
				continue
			}
			cc := c
			cc.edits = append(append([]string{}, c.edits...), e)
			if classOf(cc) == class {
				c = cc
				changed = true
				break
			}
		}
	}
	return c
}

// tagCase appends the reproducible case id to a failing verdict (replay files keep the verdict text)
func tagCase(verdict string, c caseID) string {
	if strings.HasPrefix(verdict, "FAIL") {
		return verdict + " [case=" + c.String() + "]"
	}
	return verdict
}

// verdictClass: "FAIL <class>: detail" -> "<class>"
func verdictClass(v string) string {
	if !strings.HasPrefix(v, "FAIL") {
		return ""
	}
	v = strings.TrimPrefix(v, "FAIL ")
	if i := strings.IndexByte(v, ':'); i >= 0 {
		return v[:i]
	}
	return v
}

func init() {
	register("c16-fromast", func(args map[string]string, out *bufio.Writer) error {
		n := argInt(args, "n", 300)
		seed := argInt(args, "seed", 1)
		mode := args["mode"]
		if mode == "" {
			mode = "wf"
		}
		tier := args["tier"]
		if tier == "" {
			tier = "quick"
		}
		for i := 0; i < n; i++ {
			c := caseID{seed: seed, idx: i, mode: mode, tier: tier}
			req, impl, verdict := c16Row(c, c16Case(c))
			fmt.Fprintf(out, "%s\t%s\t%s\t%s\n", req, impl, tagCase(verdict, c), c.String())
		}
		return nil
	})
	register("c16-eval", func(args map[string]string, out *bufio.Writer) error {
		c, err := parseCaseID(args["case"])
		if err != nil {
			return err
		}
		req, impl, verdict := c16Row(c, c16Case(c))
		if args["shrink"] == "1" && strings.HasPrefix(verdict, "FAIL") {
			c = c16Shrink(c, verdictClass(verdict))
			req, impl, verdict = c16Row(c, c16Case(c))
		}
		fmt.Fprintf(out, "%s\t%s\t%s\t%s\n", req, impl, tagCase(verdict, c), c.String())
		return nil
	})
	register("c16-child", func(args map[string]string, out *bufio.Writer) error {
		debug.SetMaxStack(16 << 20)
		c, err := parseCaseID(args["case"])
		if err != nil {
			return err
		}
		bs, pm := runFromAST(c16Case(c))
		if pm != "" {
			fmt.Fprintln(out, "panic")
			return nil
		}
		fmt.Fprintln(out, "ok "+virBuilders(bs))
		return nil
	})
}
