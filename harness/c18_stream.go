package main

// C18 streams: the real DeepCopy methods against (1) a table-free oracle — equality modulo
// nil/empty, disjointness of backing stores, and "mutate every location of the copy, re-compare
// the original with a pre-copy snapshot" — and (2) the copy table extracted by xcopy (the tie:
// every observation must be explained by, and must confirm, the extracted mode of some field).
//
//   c18-random  table=<json> n=<cases per DeepCopy method> seed=<s> depth=<d>
//   c18-witness table=<json>                     pinned inputs: the former exceptions' witnesses (must pass now)
//   c18-caveat  table=<json>                     dynamic types outside the IR's universe (informational)
//   c18-process table=<json> n= seed= depth=      compiler.Passes.Process as the duplicating step: the
//                                                result of an empty / no-op chain against its input
//   c18-case    table=<json> root=<T> seed= idx= depth=    one case, with JSON dumps (replay)

import (
	"bufio"
	"encoding/json"
	"fmt"
	"os"
	"reflect"
	"sort"
	"strings"

	"github.com/grafana/cog/internal/ast"
	"github.com/grafana/cog/internal/ast/compiler"
	"github.com/grafana/cog/internal/orderedmap"
)

func init() {
	register("c18-random", c18Random)
	register("c18-witness", c18Witness)
	register("c18-caveat", c18Caveat)
	register("c18-process", c18Process)
	register("c18-case", c18Case)
}

func c18LoadTable(args map[string]string) (*c18Table, error) {
	raw, err := os.ReadFile(args["table"])
	if err != nil {
		return nil, err
	}
	t := &c18Table{}
	if err := json.Unmarshal(raw, t); err != nil {
		return nil, err
	}
	return t, nil
}

type c18Cov struct {
	Visits   map[string]int `json:"visits"`
	NonEmpty map[string]int `json:"non_empty"`
	Blamed   map[string]int `json:"blamed"`
	Gen      map[string]int `json:"generated"`
	Cases    int            `json:"cases"`
	Regions  int            `json:"regions"`
	Writes   int            `json:"writes"`
}

func c18NewCov() *c18Cov {
	return &c18Cov{Visits: map[string]int{}, NonEmpty: map[string]int{}, Blamed: map[string]int{}, Gen: map[string]int{}}
}

func c18JSON(v reflect.Value) string {
	raw, err := json.Marshal(v.Interface())
	if err != nil {
		return "<not JSON: " + err.Error() + ">"
	}
	return string(raw)
}

func c18RootMode(t *c18Table, root string) (c18Mode, bool) {
	for _, r := range t.Roots {
		if r.Name == root {
			return r.Mode, true
		}
	}
	return c18Mode{}, false
}

// c18Run: one value through DeepCopy and all observations.  Returns (impl summary, verdicts, dumps).
func c18Run(t *c18Table, root string, v reflect.Value, cov *c18Cov, dump bool) (impl string, verdicts []string, dumps [][2]string) {
	return c18RunWith(t, root, v, cov, dump, nil)
}

// c18RunWith: as c18Run, the duplicate being produced by `dup` (nil: the value's DeepCopy method).
func c18RunWith(t *c18Table, root string, v reflect.Value, cov *c18Cov, dump bool, dup func(reflect.Value) (reflect.Value, error)) (impl string, verdicts []string, dumps [][2]string) {
	defer func() {
		if r := recover(); r != nil {
			verdicts = []string{fmt.Sprintf("FAIL unexplained panic: %v", r)}
		}
	}()
	mode, ok := c18RootMode(t, root)
	if !ok {
		return "-", []string{"FAIL unexplained no DeepCopy entry for " + root + " in the extracted table"}, nil
	}
	snap := c18Clone(v)
	var d0 []string
	c18Eq(v, snap, "", true, &d0)
	if len(d0) > 0 {
		return "-", []string{"FAIL unexplained harness snapshot differs from the value: " + d0[0]}, nil
	}
	if dump {
		dumps = append(dumps, [2]string{"original before DeepCopy", c18JSON(v)})
	}
	var res reflect.Value
	if dup != nil {
		var err error
		if res, err = dup(v); err != nil {
			return "-", []string{"FAIL unexplained " + err.Error()}, nil
		}
	} else {
		meth := v.Addr().MethodByName("DeepCopy")
		if !meth.IsValid() {
			return "-", []string{"FAIL unexplained type " + v.Type().String() + " has no DeepCopy method"}, nil
		}
		res = meth.Call(nil)[0]
	}
	if res.Type() != v.Type() {
		if !res.Type().ConvertibleTo(v.Type()) {
			return "-", []string{"FAIL unexplained DeepCopy returns " + res.Type().String()}, nil
		}
		res = res.Convert(v.Type())
	}
	c := reflect.New(v.Type()).Elem()
	c.Set(res)
	if dump {
		dumps = append(dumps, [2]string{"copy", c18JSON(c)})
	}

	// table-free observations
	var D []string
	c18Eq(v, c, "", false, &D)
	var ro, rc []c18Region
	c18Regions(v, "", &ro)
	c18Regions(c, "", &rc)
	A := c18Overlaps(ro, rc)

	// table-guided expectations
	g := &c18Guided{table: t, visits: cov.Visits, nonEmpty: cov.NonEmpty}
	g.walk(v, c, mode, "", root)

	// write to every location of the copy, then look at the original
	writes := 0
	c18Perturb(c, &writes)
	var M []string
	c18Eq(v, snap, "", true, &M)
	if dump {
		dumps = append(dumps, [2]string{"original after writing to every location of the copy", c18JSON(v)})
	}
	cov.Cases++
	cov.Regions += len(ro)
	cov.Writes += writes

	type blame struct {
		what string
		ev   []string
	}
	blames := map[string]*blame{}
	var unexplained []string
	note := func(e c18Expect, ev string) {
		b := blames[e.label]
		if b == nil {
			b = &blame{what: e.what}
			blames[e.label] = b
		}
		// one piece of evidence per kind of observation (keyed by its first word)
		kind := strings.SplitN(ev, " ", 2)[0]
		for _, x := range b.ev {
			if strings.HasPrefix(x, kind+" ") {
				return
			}
		}
		b.ev = append(b.ev, ev)
	}
	for _, e := range g.aliases {
		note(e, "assigned as-is at "+e.path)
	}
	for _, e := range g.diffs {
		note(e, "left unset at "+e.path)
	}
	for _, d := range D {
		if e, ok := c18Explained(d, g.diffs); ok {
			note(e, "copy differs at "+d)
		} else {
			unexplained = append(unexplained, "copy differs from original at "+d)
		}
	}
	for _, a := range A {
		if e, ok := c18Explained(a, g.aliases); ok {
			note(e, "copy shares a backing store at "+a)
		} else {
			unexplained = append(unexplained, "copy shares a backing store with the original at "+a)
		}
	}
	for _, m := range M {
		if e, ok := c18Explained(m, g.aliases); ok {
			note(e, "writing through the copy changed the original at "+m)
		} else {
			unexplained = append(unexplained, "writing through the copy changed the original at "+m)
		}
	}
	for i, x := range g.contra {
		if i < 3 {
			verdicts = append(verdicts, "FAIL unexplained tie: "+x)
		}
	}
	labels := make([]string, 0, len(blames))
	for l := range blames {
		labels = append(labels, l)
	}
	sort.Strings(labels)
	for _, l := range labels {
		cov.Blamed[l]++
		verdicts = append(verdicts, fmt.Sprintf("FAIL %s %s :: %s", blames[l].what, l, strings.Join(blames[l].ev, "; ")))
	}
	for i, u := range unexplained {
		if i >= 3 {
			break
		}
		verdicts = append(verdicts, "FAIL unexplained "+u)
	}
	if len(verdicts) == 0 {
		verdicts = []string{"ok"}
	}
	return fmt.Sprintf("stores=%d writes=%d differ=%d shared=%d changed=%d", len(ro), writes, len(D), len(A), len(M)), verdicts, dumps
}

func c18Emit(out *bufio.Writer, req, impl string, verdicts []string) {
	for _, v := range verdicts {
		fmt.Fprintf(out, "%s\t%s\t%s\n", req, impl, strings.ReplaceAll(v, "\t", " "))
	}
}

func c18GenCase(types map[string]reflect.Type, root string, seed, idx, depth int, stats map[string]int) (v reflect.Value, err error) {
	defer func() {
		if r := recover(); r != nil {
			err = fmt.Errorf("%v", r)
		}
	}()
	t, ok := types[root]
	if !ok {
		return reflect.Value{}, fmt.Errorf("the harness cannot reach type %s from ast.Schemas/ast.Builders", root)
	}
	h := uint64(seed)*1000003 + uint64(idx)*7919
	for _, ch := range root {
		h = h*31 + uint64(ch)
	}
	g := &c18Gen{r: newRng(h), stats: stats}
	d := depth
	if idx%4 == 0 && d > 1 {
		d-- // a quarter of the cases one level shallower (smaller replays)
	}
	return g.value(t, d), nil
}

func c18Random(args map[string]string, out *bufio.Writer) error {
	t, err := c18LoadTable(args)
	if err != nil {
		return err
	}
	n, seed, depth := argInt(args, "n", 50), argInt(args, "seed", 1), argInt(args, "depth", 3)
	types := c18Types()
	cov := c18NewCov()
	for _, r := range t.Roots {
		for idx := 0; idx < n; idx++ {
			req := fmt.Sprintf("c18 root=%s seed=%d idx=%d depth=%d", r.Name, seed, idx, depth)
			v, err := c18GenCase(types, r.Name, seed, idx, depth, cov.Gen)
			if err != nil {
				c18Emit(out, req, "-", []string{"FAIL unexplained generator: " + err.Error()})
				break
			}
			impl, verdicts, _ := c18Run(t, r.Name, v, cov, false)
			c18Emit(out, req, impl, verdicts)
		}
	}
	raw, _ := json.Marshal(cov)
	fmt.Fprintf(out, "c18-coverage\t%s\tok\n", raw)
	return nil
}

func c18Case(args map[string]string, out *bufio.Writer) error {
	t, err := c18LoadTable(args)
	if err != nil {
		return err
	}
	root := args["root"]
	seed, idx, depth := argInt(args, "seed", 1), argInt(args, "idx", 0), argInt(args, "depth", 3)
	cov := c18NewCov()
	req := fmt.Sprintf("c18 root=%s seed=%d idx=%d depth=%d", root, seed, idx, depth)
	var (
		v reflect.Value
	)
	if w := args["witness"]; w != "" {
		req = "c18 witness=" + w
		found := false
		for _, x := range c18Witnesses() {
			if x.label == w {
				v, root, found = x.value, x.root, true
			}
		}
		if !found {
			return fmt.Errorf("unknown witness %s", w)
		}
	} else {
		v, err = c18GenCase(c18Types(), root, seed, idx, depth, cov.Gen)
		if err != nil {
			c18Emit(out, req, "-", []string{"FAIL unexplained generator: " + err.Error()})
			return nil
		}
	}
	impl, verdicts, dumps := c18Run(t, root, v, cov, true)
	c18Emit(out, req, impl, verdicts)
	for _, d := range dumps {
		fmt.Fprintf(out, "c18-dump %s\t%s\t-\n", d[0], d[1])
	}
	return nil
}

// ---------------------------------------------------------------- pinned witnesses

type c18W struct {
	label string // Struct.Field of the exception
	root  string
	value reflect.Value
}

func c18Addr[T any](x T) reflect.Value {
	p := reflect.New(reflect.TypeOf(x))
	p.Elem().Set(reflect.ValueOf(x))
	return p.Elem()
}

// c18Witnesses: pinned inputs.  The first 14 are the former exceptions' witnesses of
// lean/Cog/Props/C18.lean (`prePayload`): they failed before the fix commits b4532a0, ea8a40d,
// 1572d8b, 71b1811 and MUST PASS now (a relapse is a violation).  Built on the real types:
// the struct with only the offending field populated; an `any` holds a []any, as CUE list
// defaults and JSON Schema array defaults do.
func c18Witnesses() []c18W {
	payload := func() any { return []any{"a"} }
	return []c18W{
		{"Type.Default", "Type", c18Addr(ast.Type{Default: payload()})},
		{"Type.Hints", "Type", c18Addr(ast.Type{Hints: ast.JenniesHints{"h": payload()}})},
		{"TypeConstraint.Args", "TypeConstraint", c18Addr(ast.TypeConstraint{Args: []any{payload()}})},
		{"ScalarType.Value", "ScalarType", c18Addr(ast.ScalarType{Value: payload()})},
		{"EnumValue.Value", "EnumValue", c18Addr(ast.EnumValue{Value: payload()})},
		{"ConstantReferenceType.ReferenceValue", "ConstantReferenceType", c18Addr(ast.ConstantReferenceType{ReferenceValue: payload()})},
		{"Schema.EntryPointType", "Schema", c18Addr(ast.Schema{EntryPointType: ast.Type{PassesTrail: []string{"t"}}, Objects: orderedmap.New[string, ast.Object]()})},
		{"Builder.For", "Builder", c18Addr(ast.Builder{For: ast.Object{Comments: []string{"c"}}})},
		{"Builder.Factories", "Builder", c18Addr(ast.Builder{Factories: []ast.BuilderFactory{{Name: "f"}}})},
		{"Option.Default", "Option", c18Addr(ast.Option{Default: &ast.OptionDefault{ArgsValues: []any{"1"}}})},
		{"PathIndex.Constant", "PathIndex", c18Addr(ast.PathIndex{Constant: payload()})},
		{"AssignmentValue.Constant", "AssignmentValue", c18Addr(ast.AssignmentValue{Constant: payload()})},
		{"AssignmentConstraint.Parameter", "AssignmentConstraint", c18Addr(ast.AssignmentConstraint{Parameter: payload()})},
		{"TypedConstant.Value", "TypedConstant", c18Addr(ast.TypedConstant{Value: payload()})},
		// deeper pinned inputs (same fields, the other dynamic types of the universe)
		{"Type.Default/map-of-lists", "Type", c18Addr(ast.Type{Default: map[string]any{"k": []any{"a", map[string]any{"z": int64(1)}}}})},
		{"Type.Hints/disjunction", "Type", c18Addr(ast.Type{Hints: ast.JenniesHints{"disjunction_of_refs": ast.DisjunctionType{
			Branches: ast.Types{ast.NewRef("p", "A"), ast.NewRef("p", "B")}, Discriminator: "kind", DiscriminatorMapping: map[string]string{"a": "A", "b": "B"}}}})},
		{"Type.Hints/type", "Type", c18Addr(ast.Type{Hints: ast.JenniesHints{"t": ast.NewArray(ast.String(ast.Default(payload())))}})},
		{"Option.Default/list", "Option", c18Addr(ast.Option{Default: &ast.OptionDefault{ArgsValues: []any{[]any{"a"}, map[string]any{"k": "v"}}}})},
	}
}

// c18Caveats: dynamic types cog never stores in an `any` field and deepCopyValue does not rebuild:
// they stay shared (theorem C18_universe_needed).  Informational rows, expected to FAIL.
func c18Caveats() []c18W {
	return []c18W{
		{"Type.Default/[]string", "Type", c18Addr(ast.Type{Default: []string{"a"}})},
		{"Type.Default/map[string]string", "Type", c18Addr(ast.Type{Default: map[string]string{"k": "v"}})},
		{"Type.Hints/*Type", "Type", c18Addr(ast.Type{Hints: ast.JenniesHints{"h": &ast.Type{Kind: ast.KindScalar}}})},
	}
}

func c18Caveat(args map[string]string, out *bufio.Writer) error {
	t, err := c18LoadTable(args)
	if err != nil {
		return err
	}
	cov := c18NewCov()
	for _, w := range c18Caveats() {
		before := c18JSON(w.value)
		_, verdicts, _ := c18Run(t, w.root, w.value, cov, false)
		c18Emit(out, "c18 caveat="+w.label, before, verdicts)
	}
	return nil
}

func c18Witness(args map[string]string, out *bufio.Writer) error {
	t, err := c18LoadTable(args)
	if err != nil {
		return err
	}
	cov := c18NewCov()
	for _, w := range c18Witnesses() {
		before := c18JSON(w.value)
		_, verdicts, dumps := c18Run(t, w.root, w.value, cov, true)
		after := ""
		if len(dumps) == 3 {
			after = dumps[2][1]
		}
		c18Emit(out, "c18 witness="+w.label, fmt.Sprintf("original %s -> after writing to the copy: %s", before, after), verdicts)
	}
	return nil
}

// ---------------------------------------------------------------- the chain entry point

type c18NoopPass struct{}

func (c18NoopPass) Process(schemas []*ast.Schema) ([]*ast.Schema, error) { return schemas, nil }

// c18Chains: chains that transform nothing, so that the output of Process must be a faithful and
// independent duplicate of its input (what the oracle checks).
func c18Chains() []struct {
	name  string
	chain compiler.Passes
} {
	return []struct {
		name  string
		chain compiler.Passes
	}{
		{"nil", nil},
		{"empty", compiler.Passes{}},
		{"concat-of-empties", compiler.Passes{}.Concat(nil)},
		{"one-noop-pass", compiler.Passes{c18NoopPass{}}},
	}
}

func c18ProcessDup(chain compiler.Passes) func(reflect.Value) (reflect.Value, error) {
	return func(v reflect.Value) (reflect.Value, error) {
		out, err := chain.Process(v.Interface().(ast.Schemas))
		if err != nil {
			return reflect.Value{}, fmt.Errorf("Process failed: %v", err)
		}
		return reflect.ValueOf(out), nil
	}
}

func c18Process(args map[string]string, out *bufio.Writer) error {
	t, err := c18LoadTable(args)
	if err != nil {
		return err
	}
	n, seed, depth := argInt(args, "n", 20), argInt(args, "seed", 1), argInt(args, "depth", 3)
	types := c18Types()
	cov := c18NewCov()
	for _, ch := range c18Chains() {
		if want := args["chain"]; want != "" && want != ch.name {
			continue
		}
		for idx := 0; idx < n; idx++ {
			if a, ok := args["idx"]; ok && a != fmt.Sprint(idx) {
				continue
			}
			req := fmt.Sprintf("c18 process chain=%s root=Schemas seed=%d idx=%d depth=%d", ch.name, seed, idx, depth)
			v, err := c18GenCase(types, "Schemas", seed, idx, depth, cov.Gen)
			if err != nil {
				c18Emit(out, req, "-", []string{"FAIL unexplained generator: " + err.Error()})
				break
			}
			impl, verdicts, dumps := c18RunWith(t, "Schemas", v, cov, args["dump"] != "", c18ProcessDup(ch.chain))
			c18Emit(out, req, impl, verdicts)
			for _, d := range dumps {
				fmt.Fprintf(out, "c18-dump %s\t%s\t-\n", d[0], d[1])
			}
		}
	}
	return nil
}
