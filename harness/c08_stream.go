package main

// C08 — generated Validate() and strict decoders, implementation side.
//
// Stream `c08-lab`: source terms (generated, or read from file=) → real pipeline → compiled
// generated Go (the lab) → for every document (valid + single-fault) the real `Validate()`
// outcome (reported paths parsed from the error text) and the real `UnmarshalJSONStrict`
// outcome, plus the verdict of the property oracle (which knows only the source term, the
// document and the injected fault — not cog's IR, not the Lean model).
//
// Rows (tab separated):
//   S  id  pkg  root  format  defs-sexp  vir-of-the-post-Go-chain-IR
//   X  id  reason                                       (case not usable: not rendered / not compiled)
//   D  id  kind  faultpath  shape  doc-json  doc-sexp  validate-reply  strict-reply  oracle-verdict  site-term
// validate-reply: ok | invalid <path|op|bound-quarters;…> (sorted) | decerr | <raw reply>
// strict-reply:   ok <json> | err <message> | <raw reply>

import (
	"bufio"
	"fmt"
	"math/big"
	"sort"
	"strconv"
	"strings"
)

// c08ParseJSONPath splits "$.a.b[2][\"k k\"]" into path elements (keys vs indices are told
// apart later, against the source term).
type c08Step struct {
	key   string
	idx   int
	isIdx bool
}

func c08ParseJSONPath(p string) ([]c08Step, bool) {
	if !strings.HasPrefix(p, "$") {
		return nil, false
	}
	p = p[1:]
	out := []c08Step{}
	for len(p) > 0 {
		switch p[0] {
		case '.':
			j := 1
			for j < len(p) && p[j] != '.' && p[j] != '[' {
				j++
			}
			out = append(out, c08Step{key: p[1:j]})
			p = p[j:]
		case '[':
			if len(p) > 1 && p[1] == '"' {
				// quoted key: find the closing quote (no escapes are produced for the generator's keys)
				j := strings.Index(p[2:], "\"]")
				if j < 0 {
					return nil, false
				}
				out = append(out, c08Step{key: p[2 : 2+j]})
				p = p[2+j+2:]
			} else {
				j := strings.IndexByte(p, ']')
				if j < 0 {
					return nil, false
				}
				n, err := strconv.Atoi(p[1:j])
				if err != nil {
					return nil, false
				}
				out = append(out, c08Step{idx: n, isIdx: true})
				p = p[j+1:]
			}
		default:
			return nil, false
		}
	}
	return out, true
}

// c08Walk follows a JSON path through the source term. It returns
//   shape:  the constructs crossed, e.g. "ref(struct)/struct.port/ref(int)/int"
//   want:   the path tokens Validate() must report for a constraint at that position
//           (field names, [i], [key]); a "*" token stands for the one extra segment the
//           generated union struct inserts (branch field name)
func c08Walk(d *Defs, steps []c08Step, doc JV) (shape string, want []string, ok bool) {
	shape, want, _, ok = c08WalkSite(d, steps, doc)
	return
}

// c08WalkSite is c08Walk that also returns the source term at the end of the path.
func c08WalkSite(d *Defs, steps []c08Step, doc JV) (shape string, want []string, site *Src, ok bool) {
	parts := []string{}
	cur := srcRef(d.Root)
	node := &doc
	i := 0
	for guard := 0; guard < 200; guard++ {
		switch cur.Kind {
		case SNullable:
			parts = append(parts, "nullable")
			cur = cur.Elem
			continue
		case SRef:
			t := d.lookup(cur.Ref)
			if t == nil {
				return strings.Join(parts, "/"), want, cur, false
			}
			parts = append(parts, "ref("+t.Kind.String()+")")
			cur = t
			continue
		case SOneOfStructs:
			parts = append(parts, "oneOfStructs")
			want = append(want, "*")
			// branch selected by the document's discriminator
			if node == nil || node.K != 'o' {
				return strings.Join(parts, "/"), want, cur, i == len(steps)
			}
			dv, has := node.get(cur.Disc)
			next := (*Src)(nil)
			if has && dv.K == 's' {
				for _, b := range cur.Branches {
					if b.Tag == dv.S {
						next = d.lookup(b.Name)
					}
				}
			}
			if next == nil {
				return strings.Join(parts, "/"), want, cur, i == len(steps)
			}
			cur = next
			continue
		case SOneOfScalars:
			parts = append(parts, "oneOfScalars")
			want = append(want, "*")
			// which alternative holds the value: the first whose JSON kind fits
			next := (*Src)(nil)
			for _, a := range cur.Alts {
				if node != nil && c08KindFits(d, a, *node) {
					next = a
					break
				}
			}
			if next == nil {
				return strings.Join(parts, "/"), want, cur, i == len(steps)
			}
			cur = next
			continue
		}
		if i == len(steps) {
			parts = append(parts, cur.Kind.String())
			return strings.Join(parts, "/"), want, cur, true
		}
		st := steps[i]
		switch cur.Kind {
		case SStruct:
			if st.isIdx {
				return strings.Join(parts, "/"), want, cur, false
			}
			var f *Field
			for k := range cur.Fields {
				if cur.Fields[k].Name == st.key {
					f = &cur.Fields[k]
				}
			}
			if f == nil {
				parts = append(parts, "struct."+st.key+"(undeclared)")
				return strings.Join(parts, "/"), want, cur, i == len(steps)-1
			}
			attrs := "opt"
			if f.Required {
				attrs = "req"
			}
			if f.Nullable {
				attrs += ",null"
			}
			if f.Default != nil {
				attrs += ",dflt"
			}
			parts = append(parts, "struct."+st.key+"{"+attrs+"}")
			want = append(want, "."+st.key)
			cur = f.Ty
			if node != nil && node.K == 'o' {
				if ch, has := node.get(st.key); has {
					c := ch
					node = &c
				} else {
					node = nil
				}
			} else {
				node = nil
			}
		case SArray:
			if !st.isIdx {
				return strings.Join(parts, "/"), want, cur, false
			}
			parts = append(parts, "array")
			want = append(want, "["+strconv.Itoa(st.idx)+"]")
			cur = cur.Elem
			if node != nil && node.K == 'a' && st.idx < len(node.A) {
				c := node.A[st.idx]
				node = &c
			} else {
				node = nil
			}
		case SDict:
			key := st.key
			if st.isIdx {
				key = strconv.Itoa(st.idx)
			}
			parts = append(parts, "dict")
			want = append(want, "["+key+"]")
			cur = cur.Elem
			if node != nil && node.K == 'o' {
				if ch, has := node.get(key); has {
					c := ch
					node = &c
				} else {
					node = nil
				}
			} else {
				node = nil
			}
		default:
			return strings.Join(parts, "/"), want, cur, false
		}
		i++
	}
	return strings.Join(parts, "/"), want, cur, false
}

func c08KindFits(d *Defs, s *Src, v JV) bool {
	s = d.resolve(s)
	if s == nil {
		return false
	}
	if inner, ok := s.unwrap(); ok {
		return v.isNull() || c08KindFits(d, inner, v)
	}
	switch s.Kind {
	case SAny:
		return true
	case SBool:
		return v.K == 't' || v.K == 'f'
	case SString, SEnumS:
		return v.K == 's'
	case SConst:
		return v.K == s.Const.K
	case SInt, SEnumI:
		return v.K == 'n' && !strings.ContainsAny(v.S, ".eE")
	case SNum:
		return v.K == 'n'
	case SArray:
		return v.K == 'a'
	case SDict, SStruct, SOneOfStructs:
		return v.K == 'o'
	case SOneOfScalars:
		for _, a := range s.Alts {
			if c08KindFits(d, a, v) {
				return true
			}
		}
	}
	return false
}

// c08Tokens splits a path printed by the generated code ("a.b[2][k].c") into tokens
// ".a" ".b" "[2]" "[k]" ".c".
func c08Tokens(p string) []string {
	out := []string{}
	cur := "."
	flush := func() {
		if cur != "." && cur != "" {
			out = append(out, cur)
		}
		cur = ""
	}
	for i := 0; i < len(p); i++ {
		c := p[i]
		switch {
		case c == '.':
			flush()
			cur = "."
		case c == '[':
			flush()
			j := strings.IndexByte(p[i:], ']')
			if j < 0 {
				cur = p[i:]
				i = len(p)
				break
			}
			out = append(out, p[i:i+j+1])
			i += j
			cur = ""
		default:
			if cur == "" {
				cur = "."
			}
			cur += string(c)
		}
	}
	flush()
	return out
}

// c08PathMatches: reported tokens against wanted tokens, "*" = exactly one field token.
func c08PathMatches(got []string, want []string) bool {
	if len(got) != len(want) {
		return false
	}
	for i := range want {
		if want[i] == "*" {
			if !strings.HasPrefix(got[i], ".") {
				return false
			}
			continue
		}
		if got[i] != want[i] {
			return false
		}
	}
	return true
}

// c08Quarters: decimal text × 4 as an integer, "" when not a multiple of 0.25.
func c08Quarters(text string) string {
	r, ok := new(big.Rat).SetString(text)
	if !ok {
		return ""
	}
	r.Mul(r, big.NewRat(4, 1))
	if !r.IsInt() {
		return ""
	}
	return r.Num().String()
}

type c08Viol struct{ path, op, bound string }

// c08ParseInvalid parses the flattened error text of BuildErrors ("p: must be >= 1 | q: …").
func c08ParseInvalid(text string) ([]c08Viol, bool) {
	out := []c08Viol{}
	for _, line := range strings.Split(text, " | ") {
		k := strings.LastIndex(line, ": must be ")
		if k < 0 {
			return nil, false
		}
		rest := strings.Fields(line[k+len(": must be "):])
		if len(rest) != 2 {
			return nil, false
		}
		q := c08Quarters(rest[1])
		if q == "" {
			q = "?" + rest[1]
		}
		out = append(out, c08Viol{line[:k], rest[0], q})
	}
	return out, true
}

func c08CanonValidate(reply string) (string, []c08Viol) {
	switch {
	case reply == "ok":
		return "ok", nil
	case strings.HasPrefix(reply, "decerr"):
		return "decerr", nil
	case strings.HasPrefix(reply, "invalid "):
		vs, ok := c08ParseInvalid(reply[len("invalid "):])
		if !ok {
			return reply, nil
		}
		parts := []string{}
		for _, v := range vs {
			parts = append(parts, v.path+"|"+v.op+"|"+v.bound)
		}
		sort.Strings(parts)
		return "invalid " + strings.Join(parts, ";"), vs
	}
	return reply, nil
}

var c08ConstraintKinds = map[string]bool{"min-1": true, "max+1": true, "minLength-1": true, "maxLength+1": true,
	"onExclusiveBound": true} // a value exactly on an exclusive bound (stream c08-excl)
var c08StrictKinds = map[string]bool{"undeclaredKey": true, "missingRequired": true, "nullRequired": true, "wrongType": true,
	"wrongDiscriminator": true, "absentDiscriminator": true,
	// only in pinned cases: null at an array-element / map-value position, the document `null`
	"nullElem": true, "nullDoc": true}

// c08Oracle is the property itself, on the real outcomes.
func c08Oracle(kind string, want []string, wantOK bool, vcanon string, viols []c08Viol, strict string) string {
	strictOK := strings.HasPrefix(strict, "ok ")
	strictErr := strings.HasPrefix(strict, "err ")
	if !strictOK && !strictErr {
		return "FAIL strict-decoder-abnormal " + strict
	}
	switch {
	case kind == "valid":
		if vcanon != "ok" {
			return "FAIL validate-rejected-valid"
		}
		if !strictOK {
			return "FAIL strict-rejected-valid"
		}
	case c08ConstraintKinds[kind]:
		if !wantOK {
			return "ok unresolvable-fault-path" // only possible for hand-written / shrunk cases
		}
		if vcanon == "decerr" && strictErr && strings.Contains(strict, "cannot unmarshal number") {
			// the violating number does not even fit the generated Go type (a front-end narrowed the
			// type from the bound, e.g. CUE `int64 & >=0` → uint64): rejected by both decoders
			return "ok rejected-by-decoder"
		}
		if !strictOK {
			return "FAIL strict-rejected-faultless"
		}
		if vcanon == "ok" {
			return "FAIL validate-missed"
		}
		if !strings.HasPrefix(vcanon, "invalid ") {
			return "FAIL validate-abnormal " + vcanon
		}
		if wantOK {
			hit := false
			for _, v := range viols {
				if c08PathMatches(c08Tokens(v.path), want) {
					hit = true
				}
			}
			if !hit {
				return "FAIL validate-wrong-path want=" + strings.Join(want, "")
			}
		}
		if len(viols) != 1 {
			return "FAIL validate-extra-reports"
		}
	case kind == "omitDefaulted":
		// a required field that HAS a default may be absent: the strict decoder must accept
		if !strictOK {
			return "FAIL strict-rejected-defaulted-absent"
		}
	case c08StrictKinds[kind]:
		if strictOK {
			return "FAIL strict-accepted"
		}
	default:
		return "ok"
	}
	return "ok"
}

type c08Doc struct {
	kind, path string
	doc        JV
	base       int // omitDefaulted: index+1 of the document the member was removed from (0 = none)
}

func c08CaseText(kind, path, shape string, defs *Defs, doc JV) string {
	return fmt.Sprintf("kind=%s path=%s shape=%s doc=%s defs=%s", kind, path, shape, doc.json(), defs.sexp())
}

func init() {
	register("c08-lab", func(args map[string]string, out *bufio.Writer) error {
		seed := uint64(argInt(args, "seed", 1))
		ndocs := argInt(args, "docs", 6)
		nfaults := argInt(args, "faults", 14)
		nomit := argInt(args, "omit", 0) // per valid document: variants omitting one required-with-default member
		nvar := argInt(args, "variants", 0) // per rich valid document: variants omitting one optional member / null at one nullable member
		tags := map[string]int{}
		ndeep := argInt(args, "deep", 0) // fault documents whose fault lies in a struct below >= 2 container levels
		formats := strings.Split(args["formats"], ",")
		if args["formats"] == "" {
			formats = []string{"jsonschema"}
		}
		opts := defaultLabOpts()
		opts.NoPython = true
		opts.NoSchemaOut = true
		opts.GoFlags.Equal = false
		if v, ok := args["degrade"]; ok {
			opts.Degrade, _ = strconv.Atoi(v)
		}
		opts.Keep = args["keep"] == "1"
		lab, err := NewLab(labWorkDir("c08"), opts)
		if err != nil {
			return err
		}
		defer lab.Close()
		type cs struct {
			c     *LabCase
			docs  []c08Doc
			fixed bool // documents given, not drawn
		}
		cases := []*cs{}
		if pf, ok := args["pinned"]; ok {
			// pinned cases: format \t defs-sexp \t kind \t json-path \t document   (consecutive
			// lines with the same format+defs share one generated package)
			var cur *cs
			curKey := ""
			for ln, line := range readLines(pf) {
				if strings.HasPrefix(line, "#") {
					continue
				}
				f := strings.Split(line, "\t")
				if len(f) != 5 {
					return fmt.Errorf("%s line %d: 5 tab-separated fields expected", pf, ln+1)
				}
				if key := f[0] + "\t" + f[1]; key != curKey {
					d, err := parseDefsSexp(f[1])
					if err != nil {
						return fmt.Errorf("%s line %d: %w", pf, ln+1, err)
					}
					cur = &cs{c: lab.AddCase(d, f[0]), fixed: true}
					cases = append(cases, cur)
					curKey = key
				}
				doc, err := parseJV([]byte(f[4]))
				if err != nil {
					return fmt.Errorf("%s line %d: %w", pf, ln+1, err)
				}
				cur.docs = append(cur.docs, c08Doc{f[2], f[3], doc, 0})
			}
		} else {
			err = iterDefs(args, func(i int, d *Defs) error {
				tr := newRng(seed*6151 + uint64(i)*13 + 1)
				if args["aliasify"] == "1" {
					d = c08Aliasify(d, tr)
				}
				if args["zerodefaults"] == "1" {
					d = c08ZeroDefaults(d, tr)
				}
				if args["casetwins"] == "1" {
					var n int
					d, n = c08CaseTwins(d, tr)
					tags["term.caseTwinMembers"] += n
				}
				if args["sharedunions"] == "1" {
					var n int
					d, n = c08SharedNullUnions(d, tr)
					tags["term.sharedNullableUnionUses"] += n
				}
				if args["deepnest"] == "1" {
					d = c08DeepNest(d, tr, i)
				}
				for _, f := range formats {
					c := lab.AddCase(d, f)
					cases = append(cases, &cs{c: c})
				}
				return nil
			})
			if err != nil {
				return err
			}
		}
		if err := lab.Build(); err != nil {
			return err
		}
		reqs := []LabReq{}
		type slot struct {
			k *cs
			d int
		}
		slots := []slot{}
		for _, k := range cases {
			c := k.c
			why := ""
			switch {
			case c.Defs == nil || len(c.Unsupported) > 0:
				why = "not-rendered " + strings.Join(c.Unsupported, ",")
			case c.GenErr != "":
				why = "generation-failed " + labOneLine(c.GenErr)
			case !c.GoOK:
				why = "not-compiled " + labFirstLine(c.GoCompileErr)
			case c.IRGoErr != "":
				why = "no-ir " + labOneLine(c.IRGoErr)
			}
			if why == "" {
				o := c.goObject(c.Defs.Root)
				if o == nil || !o.HasStrict || !o.HasValidate {
					why = "root-has-no-methods"
				}
			}
			if why != "" {
				fmt.Fprintf(out, "X\t%s\t%s\n", c.ID, why)
				continue
			}
			fmt.Fprintf(out, "S\t%s\t%s\t%s\t%s\t%s\t%s\n", c.ID, c.ID, c.Defs.Root, c.Format, c.Defs.sexp(), virSchemas(c.IRGo))
			r := newRng(seed*7919 + uint64(c.Idx)*31 + 5)
			dopts := defaultDocOpts()
			if ndeep > 0 {
				dopts.MaxDepth = 5 // populate the containers of three-level nestings
			}
			dg := newDocGen(c.Defs, r, dopts)
			for n := 0; n < ndocs && !k.fixed; n++ {
				vd := dg.validDoc()
				k.docs = append(k.docs, c08Doc{"valid", "$", vd, 0})
				if nomit > 0 {
					dg.rich = true
					base := dg.validDoc()
					dg.rich = false
					om := c08OmitDocs(c.Defs, base, r, nomit)
					if len(om) > 0 {
						k.docs = append(k.docs, c08Doc{"valid", "$", base, 0})
						bi := len(k.docs)
						for _, o := range om {
							o.base = bi
							k.docs = append(k.docs, o)
						}
					}
				}
			}
			for n := 0; n < ndocs && nvar > 0 && !k.fixed; n++ {
				dg.rich = true
				base := dg.validDoc()
				dg.rich = false
				k.docs = append(k.docs, c08Doc{"valid", "$", base, 0})
				bi := len(k.docs)
				for _, v := range c08ValidVariants(c.Defs, base, r, nvar, tags) {
					v.base = bi
					k.docs = append(k.docs, v)
				}
			}
			for n := 0; n < nfaults && !k.fixed; n++ {
				fd, ok := dg.faultDoc(nil)
				if !ok {
					break
				}
				bi := 0
				if c08ConstraintKinds[fd.Kind] {
					// the valid document the fault was injected into runs too: a rejection of the fault
					// document by the decoders is attributable to the fault only if the base is accepted
					k.docs = append(k.docs, c08Doc{"valid", "$", fd.Base, 0})
					bi = len(k.docs)
				}
				k.docs = append(k.docs, c08Doc{fd.Kind, fd.Path, fd.Doc, bi})
			}
			for _, fd := range c08DeepFaults(c.Defs, dg, map[bool]int{false: ndeep, true: 0}[k.fixed]) {
				k.docs = append(k.docs, c08Doc{"valid", "$", fd.Base, 0})
				k.docs = append(k.docs, c08Doc{fd.Kind, fd.Path, fd.Doc, len(k.docs)})
			}
			for di, d := range k.docs {
				js := d.doc.json()
				reqs = append(reqs, LabReq{Case: c.ID, Object: c.Defs.Root, Op: "validate", Payloads: []string{js}})
				reqs = append(reqs, LabReq{Case: c.ID, Object: c.Defs.Root, Op: "strict", Payloads: []string{js}})
				slots = append(slots, slot{k, di})
			}
		}
		replies := lab.GoCall(reqs)
		for si, s := range slots {
			d := s.k.docs[s.d]
			vrep, srep := replies[2*si], replies[2*si+1]
			vcanon, viols := c08CanonValidate(vrep)
			shape, want, wantOK, site := "?", []string(nil), false, "-"
			if steps, ok := c08ParseJSONPath(d.path); ok {
				var st *Src
				shape, want, st, wantOK = c08WalkSite(s.k.c.Defs, steps, d.doc)
				if st != nil && st.Kind != SStruct {
					site = st.sexp()
				}
			}
			if c08ConstraintKinds[d.kind] && strings.HasSuffix(shape, "(undeclared)") {
				wantOK = false // the constrained field itself is gone (shrinking candidates)
			}
			verdict := c08Oracle(d.kind, want, wantOK, vcanon, viols, srep)
			if d.base > 0 && (strings.HasPrefix(verdict, "FAIL strict-rejected") || strings.HasPrefix(verdict, "FAIL validate-abnormal") || strings.HasPrefix(verdict, "FAIL validate-rejected-valid")) {
				// attributable to the omission only if the document it was derived from is accepted
				bs := si - (s.d - (d.base - 1))
				bv := "ok"
				if bs >= 0 && strings.HasPrefix(verdict, "FAIL validate-") {
					bv, _ = c08CanonValidate(replies[2*bs])
				}
				if bs >= 0 && (!strings.HasPrefix(replies[2*bs+1], "ok ") || bv != "ok") {
					verdict = "ok base-document-rejected-too"
				}
			}
			fmt.Fprintf(out, "D\t%s\t%s\t%s\t%s\t%s\t%s\t%s\t%s\t%s\t%s\n", s.k.c.ID, d.kind, d.path, shape,
				d.doc.json(), d.doc.sexp(), vcanon, srep, verdict, site)
		}
		for _, t := range c08SortedKeys(tags) {
			fmt.Fprintf(out, "T\t%s\t%d\n", t, tags[t])
		}
		for _, w := range lab.Warnings {
			fmt.Fprintf(out, "W\t%s\n", labOneLine(w))
		}
		return nil
	})
}
