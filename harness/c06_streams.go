package main

// C06 streams.  Row format: request \t implementation reply \t oracle verdict \t features.
//
//  c06-ucc    n= seed=            tools.UpperCamelCase on generated strings        (`ucc "<s>"`)
//  c06-pass   n= seed= tier=      one real pass on a generated IR, raw or after a real prefix of a
//                                 language chain                                    (`lpass <Pass> <vir>`)
//  c06-chain  n= seed= tier=      the real chain of every language + the Go oracle on its output;
//                                 each successful chain row is followed by an `nf <lang> <output>`
//                                 row (verdict of the Go oracle, to be compared with Lean's)
//  c06-eval   in=<file>           evaluate the request lines of a file (replay, pinned inputs)
//  c06-cands  in=<file>           every one-step-smaller variant of the single request in the file,
//                                 evaluated (shrinking is driven by the check)
//  c06-chains                     the runtime pass names of each language's CompilerPasses()

import (
	"bufio"
	"fmt"
	"os"
	"strconv"
	"strings"

	"github.com/grafana/cog/internal/ast"
	"github.com/grafana/cog/internal/tools"
)

func c06Verdict(lang string, out ast.Schemas) string {
	vs := c06Oracle(lang, out)
	if len(vs) == 0 {
		return "ok"
	}
	parts := []string{}
	seen := map[string]int{}
	for _, v := range vs {
		seen[v.conjunct]++
		if seen[v.conjunct] <= 8 {
			parts = append(parts, v.conjunct+"@"+v.path)
		}
	}
	return "FAIL lang=" + lang + " nf=" + strings.Join(c06FailingConjuncts(lang, vs), ",") + " at=" + strings.Join(parts, ";")
}

func c06NfReply(lang string, ss ast.Schemas) string {
	fs := c06FailingConjuncts(lang, c06Oracle(lang, ss))
	if len(fs) == 0 {
		return "true"
	}
	return "false " + strings.Join(fs, ",")
}

// c06Eval evaluates one request on the real code: reply, oracle verdict, extra rows
func c06Eval(req string) (reply, verdict string, extra [][3]string) {
	verb, rest, _ := strings.Cut(req, " ")
	switch verb {
	case "ucc":
		s, err := strconv.Unquote(strings.TrimSpace(rest))
		if err != nil {
			return "bad-request", "ok", nil
		}
		return virQuote(tools.UpperCamelCase(s)), "ok", nil
	case "lpass", "chain", "nf":
		tag, vir, _ := strings.Cut(rest, " ")
		ss, err := c06DecodeSchemas(vir)
		if err != nil {
			return "bad-vir " + err.Error(), "ok", nil
		}
		switch verb {
		case "lpass":
			p := c06NewPass(tag)
			if p == nil {
				return "unknown-pass", "ok", nil
			}
			return c06RunPass(p, ss).reply(), "ok", nil
		case "chain":
			passes := c06Chain(tag)
			if passes == nil {
				return "unknown-language", "ok", nil
			}
			r := c06RunChain(passes, ss, -1)
			if r.status != "ok" {
				return r.reply(), "ok", nil
			}
			out := virSchemas(r.schemas)
			return "ok " + out, c06Verdict(tag, r.schemas), [][3]string{{"nf " + tag + " " + out, c06NfReply(tag, r.schemas), "ok"}}
		default:
			return c06NfReply(tag, ss), "ok", nil
		}
	}
	return "bad-request", "ok", nil
}

func c06Row(out *bufio.Writer, req, reply, verdict, feat string) {
	fmt.Fprintf(out, "%s\t%s\t%s\t%s\n", req, reply, verdict, feat)
}

func c06UccString(r *rng) string {
	alphabet := []string{"a", "b", "Z", "foo", "Bar", "1", "42", " ", "  ", "_", "-", "+", ".", "x_y", "é", "'", "/", "negative", "9a", "K"}
	n := r.intn(6)
	s := ""
	for i := 0; i < n; i++ {
		s += pick(r, alphabet)
	}
	return s
}

func init() {
	register("c06-ucc", func(args map[string]string, out *bufio.Writer) error {
		n := argInt(args, "n", 500)
		r := newRng(uint64(argInt(args, "seed", 1)) + 77)
		fixed := append([]string{}, irObjNames...)
		fixed = append(fixed, irFieldNames...)
		fixed = append(fixed, c06EnumNames...)
		fixed = append(fixed, "", "p", "string", "int64", "disjunction", "constant_ref", "composable_slot", "negative1", "positivex", "-", "--1", "a--b", "1 2", " x", "x ")
		for i := 0; i < n; i++ {
			s := ""
			if i < len(fixed) {
				s = fixed[i]
			} else {
				s = c06UccString(r)
			}
			c06Row(out, "ucc "+virQuote(s), virQuote(tools.UpperCamelCase(s)), "ok", "")
		}
		return nil
	})

	register("c06-pass", func(args map[string]string, out *bufio.Writer) error {
		n := argInt(args, "n", 300)
		r := newRng(uint64(argInt(args, "seed", 1))*1000003 + 11)
		for i := 0; i < n; i++ {
			ss := c06GenCase(r, args["tier"])
			feat := c06FeatureString(ss)
			var name string
			in := ss
			if r.chance(45) {
				// the pass at position k of a language chain, on what the real prefix produced
				lang := pick(r, c06Langs[:4])
				passes := c06Chain(lang)
				k := r.intn(len(passes))
				pre := c06RunChain(passes, ss, k)
				if pre.status != "ok" {
					c06Row(out, "-", "prefix-"+pre.status, "ok", feat+",prefixed")
					continue
				}
				in = pre.schemas
				name = c06PassName(passes[k])
				feat += ",prefixed"
			} else {
				name = c06AllPasses[(i+r.intn(3))%len(c06AllPasses)]
			}
			req := "lpass " + name + " " + virSchemas(in)
			res := c06RunPass(c06NewPass(name), in)
			if res.status == "cycle" {
				c06Row(out, "-", "cycle", "ok", feat)
				continue
			}
			c06Row(out, req, res.reply(), "ok", feat+",pass="+name+",status="+res.status)
		}
		return nil
	})

	register("c06-chain", func(args map[string]string, out *bufio.Writer) error {
		n := argInt(args, "n", 200)
		r := newRng(uint64(argInt(args, "seed", 1))*7919 + 5)
		langs := c06Langs
		if l, ok := args["lang"]; ok {
			langs = []string{l}
		}
		for i := 0; i < n; i++ {
			ss := c06GenCase(r, args["tier"])
			feat := c06FeatureString(ss)
			vir := virSchemas(ss)
			for _, lang := range langs {
				req := "chain " + lang + " " + vir
				res := c06RunChain(c06Chain(lang), ss, -1)
				if res.status == "cycle" {
					c06Row(out, "-", "cycle", "ok", feat+",lang="+lang)
					continue
				}
				verdict := "ok"
				if res.status == "ok" {
					verdict = c06Verdict(lang, res.schemas)
				}
				c06Row(out, req, res.reply(), verdict, feat+",lang="+lang+",status="+res.status)
				if res.status == "ok" {
					c06Row(out, "nf "+lang+" "+virSchemas(res.schemas), c06NfReply(lang, res.schemas), "ok", "")
				}
			}
		}
		return nil
	})

	register("c06-eval", func(args map[string]string, out *bufio.Writer) error {
		for _, line := range readLines(args["in"]) {
			req := strings.Split(line, "\t")[0]
			reply, verdict, extra := c06Eval(req)
			c06Row(out, req, reply, verdict, "")
			if args["nf"] == "1" {
				for _, e := range extra {
					c06Row(out, e[0], e[1], e[2], "")
				}
			}
		}
		return nil
	})

	register("c06-cands", func(args map[string]string, out *bufio.Writer) error {
		lines := readLines(args["in"])
		if len(lines) == 0 {
			return nil
		}
		req := strings.Split(lines[0], "\t")[0]
		verb, rest, _ := strings.Cut(req, " ")
		tag, vir, _ := strings.Cut(rest, " ")
		ss, err := c06DecodeSchemas(vir)
		if err != nil {
			return err
		}
		max := argInt(args, "max", 400)
		for _, cand := range c06Candidates(ss, max) {
			creq := verb + " " + tag + " " + virSchemas(cand)
			reply, verdict, _ := c06Eval(creq)
			c06Row(out, creq, reply, verdict, "")
		}
		return nil
	})

	register("c06-chains", func(args map[string]string, out *bufio.Writer) error {
		for _, lang := range c06Langs {
			names := []string{}
			for _, p := range c06Chain(lang) {
				names = append(names, c06PassName(p))
			}
			c06Row(out, "-", lang+" "+strings.Join(names, " "), "ok", "")
		}
		return nil
	})

	_ = os.Stderr
}
