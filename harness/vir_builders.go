package main

// VIR encoding of ast.Builders (Lean side: lean/Cog/Builder/Vir.lean).
// Keeps the dynamic Go type of every `any`, drops VeneerTrail (audit text), does not distinguish
// nil from empty slices (no rule or jenny does), keeps nil vs non-nil for *OptionDefault, *PathIndex,
// *Type (TypeHint). An AssignmentValue with more than one member set is outside the model's
// representation and is printed as `(multi …)`, which the Lean decoder rejects.

import (
	"strings"

	"github.com/grafana/cog/internal/ast"
)

func virArg(a ast.Argument) string {
	return "(arg " + virQuote(a.Name) + " " + virType(a.Type) + ")"
}

func virPathItem(i ast.PathItem) string {
	idx := "none"
	if i.Index != nil {
		a := "none"
		if i.Index.Argument != nil {
			a = virArg(*i.Index.Argument)
		}
		idx = "(idx " + a + " " + virVal(i.Index.Constant) + ")"
	}
	hint := "none"
	if i.TypeHint != nil {
		hint = virType(*i.TypeHint)
	}
	return "(pi " + virQuote(i.Identifier) + " " + idx + " " + virType(i.Type) + " " + hint + " " + virBool(i.Root) + ")"
}

func virPath(p ast.Path) string {
	parts := []string{"path"}
	for _, i := range p {
		parts = append(parts, virPathItem(i))
	}
	return "(" + strings.Join(parts, " ") + ")"
}

func virAValue(v ast.AssignmentValue) string {
	n := 0
	if v.Argument != nil {
		n++
	}
	if v.Constant != nil {
		n++
	}
	if v.Envelope != nil {
		n++
	}
	switch {
	case n == 0:
		return "none"
	case n > 1:
		return "(multi)"
	case v.Argument != nil:
		return virArg(*v.Argument)
	case v.Constant != nil:
		return "(const " + virVal(v.Constant) + ")"
	}
	parts := []string{"env", virType(v.Envelope.Type)}
	for _, ev := range v.Envelope.Values {
		parts = append(parts, "(ev "+virPath(ev.Path)+" "+virAValue(ev.Value)+")")
	}
	return "(" + strings.Join(parts, " ") + ")"
}

func virAssignment(a ast.Assignment) string {
	cons := []string{"cons"}
	for _, c := range a.Constraints {
		cons = append(cons, "(con "+virArg(c.Argument)+" "+virQuote(string(c.Op))+" "+virVal(c.Parameter)+")")
	}
	nils := []string{"nil"}
	for _, c := range a.NilChecks {
		nils = append(nils, "(nc "+virPath(c.Path)+" "+virType(c.EmptyValueType)+")")
	}
	return "(asg " + virPath(a.Path) + " " + virAValue(a.Value) + " " + virQuote(string(a.Method)) + " (" + strings.Join(cons, " ") + ") (" + strings.Join(nils, " ") + "))"
}

func virAssignments(head string, as []ast.Assignment) string {
	parts := []string{head}
	for _, a := range as {
		parts = append(parts, virAssignment(a))
	}
	return "(" + strings.Join(parts, " ") + ")"
}

func virArgs(as []ast.Argument) string {
	parts := []string{"args"}
	for _, a := range as {
		parts = append(parts, virArg(a))
	}
	return "(" + strings.Join(parts, " ") + ")"
}

func virOption(o ast.Option) string {
	d := "none"
	if o.Default != nil {
		parts := []string{"dflt"}
		for _, v := range o.Default.ArgsValues {
			parts = append(parts, virVal(v))
		}
		d = "(" + strings.Join(parts, " ") + ")"
	}
	return "(opt " + virQuote(o.Name) + " " + virStrs("c", o.Comments) + " " + virArgs(o.Args) + " " + virAssignments("asgs", o.Assignments) + " " + d + ")"
}

func virStructField(f ast.StructField) string {
	return "(f " + virQuote(f.Name) + " " + virType(f.Type) + " " + virBool(f.Required) + " " + virStrs("c", f.Comments) + ")"
}

func virCallParam(p ast.OptionCallParameter) string {
	a, c, f := "none", "none", "none"
	if p.Argument != nil {
		a = virArg(*p.Argument)
	}
	if p.Constant != nil {
		c = "(tc " + virType(p.Constant.Type) + " " + virVal(p.Constant.Value) + ")"
	}
	if p.Factory != nil {
		parts := []string{"fc", virQuote(p.Factory.Ref.Package), virQuote(p.Factory.Ref.Builder), virQuote(p.Factory.Ref.Factory)}
		for _, q := range p.Factory.Parameters {
			parts = append(parts, virCallParam(q))
		}
		f = "(" + strings.Join(parts, " ") + ")"
	}
	return "(param " + a + " " + c + " " + f + ")"
}

func virFactory(f ast.BuilderFactory) string {
	calls := []string{"calls"}
	for _, oc := range f.OptionCalls {
		parts := []string{"call", virQuote(oc.Name)}
		for _, p := range oc.Parameters {
			parts = append(parts, virCallParam(p))
		}
		calls = append(calls, "("+strings.Join(parts, " ")+")")
	}
	return "(factory " + virQuote(f.Name) + " " + virStrs("c", f.Comments) + " " + virArgs(f.Args) + " (" + strings.Join(calls, " ") + "))"
}

func virBuilder(b ast.Builder) string {
	props := []string{"props"}
	for _, p := range b.Properties {
		props = append(props, virStructField(p))
	}
	opts := []string{"opts"}
	for _, o := range b.Options {
		opts = append(opts, virOption(o))
	}
	facts := []string{"factories"}
	for _, f := range b.Factories {
		facts = append(facts, virFactory(f))
	}
	return "(builder " + virObject(b.For) + " " + virQuote(b.Package) + " " + virQuote(b.Name) + " (" + strings.Join(props, " ") + ") (ctor " +
		virArgs(b.Constructor.Args) + " " + virAssignments("asgs", b.Constructor.Assignments) + ") (" + strings.Join(opts, " ") + ") (" + strings.Join(facts, " ") + "))"
}

func virBuilders(bs []ast.Builder) string {
	parts := []string{"builders"}
	for _, b := range bs {
		parts = append(parts, virBuilder(b))
	}
	return "(" + strings.Join(parts, " ") + ")"
}
