package main

// C19 stream: operation sequences on internal/orderedmap, executed on the real
// implementation (panics recovered per operation) and on an independent reference
// (association list in first-insertion order). One case per output line:
//
//	<request for the Lean driver> \t <implementation observations> \t <oracle verdict>

import (
	"bufio"
	"bytes"
	"encoding/json"
	"fmt"
	"sort"
	"strconv"
	"strings"

	"github.com/grafana/cog/internal/orderedmap"
)

type omapPair struct {
	k string
	v int
}

// ---- reference (the oracle): a map that remembers first-insertion order ----

type refMap struct{ ps []omapPair }

func (r *refMap) idx(k string) int {
	for i, p := range r.ps {
		if p.k == k {
			return i
		}
	}
	return -1
}
func (r *refMap) set(k string, v int) {
	if i := r.idx(k); i >= 0 {
		r.ps[i].v = v
		return
	}
	r.ps = append(r.ps, omapPair{k, v})
}
func (r *refMap) remove(k string) {
	out := []omapPair{}
	for _, p := range r.ps {
		if p.k != k {
			out = append(out, p)
		}
	}
	r.ps = out
}

func omapMapFn(spec []string) func(string, int) int {
	switch spec[0] {
	case "add":
		n, _ := strconv.Atoi(spec[1])
		return func(_ string, v int) int { return v + n }
	case "klen":
		return func(k string, v int) int { return v + len(k) }
	case "const":
		n, _ := strconv.Atoi(spec[1])
		return func(_ string, _ int) int { return n }
	}
	return nil
}

func omapFilterFn(spec []string) func(string, int) bool {
	switch spec[0] {
	case "even":
		return func(_ string, v int) bool { return v%2 == 0 }
	case "vlt":
		n, _ := strconv.Atoi(spec[1])
		return func(_ string, v int) bool { return v < n }
	case "keyne":
		return func(k string, _ int) bool { return k != spec[1] }
	case "none":
		return func(string, int) bool { return false }
	case "all":
		return func(string, int) bool { return true }
	}
	return nil
}

func first1(s string) string {
	if len(s) == 0 {
		return s
	}
	return s[:1]
}

func omapLessFn(spec []string) func(string, string) bool {
	switch spec[0] {
	case "asc":
		return func(a, b string) bool { return a < b }
	case "desc":
		return func(a, b string) bool { return b < a }
	case "len":
		return func(a, b string) bool { return len(a) < len(b) }
	case "first":
		return func(a, b string) bool { return first1(a) < first1(b) }
	}
	return nil
}

func showPairs(ps []omapPair) string {
	parts := make([]string, len(ps))
	for i, p := range ps {
		parts[i] = fmt.Sprintf("%s=%d", p.k, p.v)
	}
	return strings.Join(parts, ",")
}

func parseDoc(s string) []omapPair {
	if s == "" {
		return nil
	}
	var out []omapPair
	for _, kv := range strings.Split(s, ",") {
		i := strings.IndexByte(kv, '=')
		n, _ := strconv.Atoi(kv[i+1:])
		out = append(out, omapPair{kv[:i], n})
	}
	return out
}

func docJSON(ps []omapPair) []byte {
	var b bytes.Buffer
	b.WriteByte('{')
	for i, p := range ps {
		if i > 0 {
			b.WriteByte(',')
		}
		kb, _ := json.Marshal(p.k)
		b.Write(kb)
		b.WriteByte(':')
		b.WriteString(strconv.Itoa(p.v))
	}
	b.WriteByte('}')
	return b.Bytes()
}

// ordered decoding of MarshalJSON output (token stream; the canonical observation)
func decodeOrdered(raw []byte) (string, error) {
	dec := json.NewDecoder(bytes.NewReader(raw))
	t, err := dec.Token()
	if err != nil {
		return "", err
	}
	if d, ok := t.(json.Delim); !ok || d != '{' {
		return "", fmt.Errorf("not an object")
	}
	var ps []omapPair
	for dec.More() {
		t, err = dec.Token()
		if err != nil {
			return "", err
		}
		k, ok := t.(string)
		if !ok {
			return "", fmt.Errorf("key is not a string")
		}
		var v int
		if err := dec.Decode(&v); err != nil {
			return "", err
		}
		ps = append(ps, omapPair{k, v})
	}
	if _, err = dec.Token(); err != nil {
		return "", err
	}
	if dec.More() {
		return "", fmt.Errorf("trailing data")
	}
	return showPairs(ps), nil
}

// refStep returns the reference observation of one op.
func refStep(r *refMap, op string) string {
	f := strings.Split(op, ":")
	switch f[0] {
	case "set":
		n, _ := strconv.Atoi(f[2])
		r.set(f[1], n)
		return "u"
	case "get":
		if i := r.idx(f[1]); i >= 0 {
			return "v:" + strconv.Itoa(r.ps[i].v)
		}
		return "v:0"
	case "has":
		return "b:" + strconv.FormatBool(r.idx(f[1]) >= 0)
	case "remove":
		r.remove(f[1])
		return "u"
	case "len":
		return "n:" + strconv.Itoa(len(r.ps))
	case "iter", "marshal":
		return "p:" + showPairs(r.ps)
	case "values":
		vs := make([]string, len(r.ps))
		for i, p := range r.ps {
			vs[i] = strconv.Itoa(p.v)
		}
		return "l:" + strings.Join(vs, ",")
	case "at":
		i, _ := strconv.Atoi(f[1])
		if i < 0 || i >= len(r.ps) {
			return "panic"
		}
		return "v:" + strconv.Itoa(r.ps[i].v)
	case "map":
		fn := omapMapFn(f[1:])
		for i := range r.ps {
			r.ps[i].v = fn(r.ps[i].k, r.ps[i].v)
		}
		return "u"
	case "filter":
		fn := omapFilterFn(f[1:])
		out := []omapPair{}
		for _, p := range r.ps {
			if fn(p.k, p.v) {
				out = append(out, p)
			}
		}
		r.ps = out
		return "u"
	case "sort":
		less := omapLessFn(f[1:])
		// independent stable sort: insertion sort
		ps := r.ps
		for i := 1; i < len(ps); i++ {
			for j := i; j > 0 && less(ps[j].k, ps[j-1].k); j-- {
				ps[j], ps[j-1] = ps[j-1], ps[j]
			}
		}
		return "u"
	case "unmarshal":
		doc := ""
		if len(f) > 1 {
			doc = f[1]
		}
		for _, p := range parseDoc(doc) {
			r.set(p.k, p.v)
		}
		return "u"
	}
	return "bad-op"
}

// implStep runs one op on the real ordered map; a panic is an observation.
func implStep(mp **orderedmap.Map[string, int], op string) (obs string) {
	defer func() {
		if rec := recover(); rec != nil {
			obs = "panic"
		}
	}()
	m := *mp
	f := strings.Split(op, ":")
	switch f[0] {
	case "set":
		n, _ := strconv.Atoi(f[2])
		m.Set(f[1], n)
		return "u"
	case "get":
		return "v:" + strconv.Itoa(m.Get(f[1]))
	case "has":
		return "b:" + strconv.FormatBool(m.Has(f[1]))
	case "remove":
		m.Remove(f[1])
		return "u"
	case "len":
		return "n:" + strconv.Itoa(m.Len())
	case "iter":
		var ps []omapPair
		m.Iterate(func(k string, v int) { ps = append(ps, omapPair{k, v}) })
		return "p:" + showPairs(ps)
	case "values":
		vals := m.Values()
		vs := make([]string, len(vals))
		for i, v := range vals {
			vs[i] = strconv.Itoa(v)
		}
		return "l:" + strings.Join(vs, ",")
	case "at":
		i, _ := strconv.Atoi(f[1])
		return "v:" + strconv.Itoa(m.At(i))
	case "map":
		*mp = m.Map(omapMapFn(f[1:]))
		return "u"
	case "filter":
		*mp = m.Filter(omapFilterFn(f[1:]))
		return "u"
	case "sort":
		m.Sort(omapLessFn(f[1:]))
		return "u"
	case "marshal":
		raw, err := m.MarshalJSON()
		if err != nil {
			return "err"
		}
		if !json.Valid(raw) {
			return "invalid-json"
		}
		s, err := decodeOrdered(raw)
		if err != nil {
			return "err"
		}
		return "p:" + s
	case "unmarshal":
		doc := ""
		if len(f) > 1 {
			doc = f[1]
		}
		if err := m.UnmarshalJSON(docJSON(parseDoc(doc))); err != nil {
			return "err"
		}
		return "u"
	}
	return "bad-op"
}

func showPrev(ps []omapPair) string { return "p:" + showPairs(ps) + "/" + strconv.Itoa(len(ps)) }

func omapRunCase(ops []string) (impl string, verdict string) {
	m := orderedmap.New[string, int]()
	prev := orderedmap.New[string, int]() // receiver of the last Map/Filter (they return new maps)
	ref := &refMap{}
	refPrev := &refMap{}
	implObs := make([]string, len(ops))
	verdict = "ok"
	for i, op := range ops {
		var want string
		switch {
		case op == "prev":
			func() {
				defer func() {
					if rec := recover(); rec != nil {
						implObs[i] = "panic"
					}
				}()
				var ps []omapPair
				prev.Iterate(func(k string, v int) { ps = append(ps, omapPair{k, v}) })
				implObs[i] = "p:" + showPairs(ps) + "/" + strconv.Itoa(prev.Len())
			}()
			want = showPrev(refPrev.ps)
		case op == "swap":
			m, prev = prev, m
			ref, refPrev = refPrev, ref
			implObs[i], want = "u", "u"
		default:
			isDerive := strings.HasPrefix(op, "map:") || strings.HasPrefix(op, "filter:")
			var oldM *orderedmap.Map[string, int]
			if isDerive {
				oldM = m
				refPrev = &refMap{ps: append([]omapPair{}, ref.ps...)}
			}
			implObs[i] = implStep(&m, op)
			if isDerive {
				prev = oldM
			}
			want = refStep(ref, op)
		}
		if implObs[i] != want && verdict == "ok" {
			verdict = fmt.Sprintf("FAIL op#%d %s impl=%s ref=%s", i, op, implObs[i], want)
		}
	}
	return strings.Join(implObs, ";"), verdict
}

var omapKeys = []string{"a", "b", "cc"}

const omapFinalObs = "len;iter;values;marshal;has:a;has:b;has:cc;get:a;get:b;get:cc;prev"

func omapAlphabet() []string {
	ops := []string{}
	for _, k := range omapKeys {
		ops = append(ops, "set:"+k+":1", "set:"+k+":2", "remove:"+k)
	}
	ops = append(ops, "filter:even", "filter:keyne:a", "map:klen", "sort:asc", "sort:desc", "sort:len",
		"unmarshal:cc=4,a=6", "unmarshal:b=3,b=5", "at:1", "swap")
	return ops
}

func omapEmit(out *bufio.Writer, ops []string) {
	impl, verdict := omapRunCase(ops)
	fmt.Fprintf(out, "omap %s\t%s\t%s\n", strings.Join(ops, ";"), impl, verdict)
}

func omapRandomOp(r *rng) string {
	keys := []string{"a", "b", "cc", "d", "ab", "ba", "c"}
	k := pick(r, keys)
	switch r.intn(20) {
	case 0, 1, 2, 3, 4, 5:
		return fmt.Sprintf("set:%s:%d", k, r.intn(9)-2)
	case 6, 7, 8:
		return "remove:" + k
	case 9:
		return "get:" + k
	case 10:
		return "has:" + k
	case 11:
		return pick(r, []string{"filter:even", "filter:vlt:3", "filter:keyne:" + k, "filter:none", "filter:all"})
	case 12:
		return pick(r, []string{"map:add:1", "map:klen", "map:const:4"})
	case 13, 14:
		return pick(r, []string{"sort:asc", "sort:desc", "sort:len", "sort:first"})
	case 15:
		n := r.intn(4)
		parts := []string{}
		for i := 0; i < n; i++ {
			parts = append(parts, fmt.Sprintf("%s=%d", pick(r, keys), r.intn(9)))
		}
		if n == 0 {
			return "unmarshal"
		}
		return "unmarshal:" + strings.Join(parts, ",")
	case 16:
		return fmt.Sprintf("at:%d", r.intn(5))
	case 17:
		return pick(r, []string{"values", "swap", "swap", "prev"})
	case 18:
		return "marshal"
	default:
		return "len"
	}
}

func init() {
	// exhaustive: every sequence of length <= depth over the alphabet, final observations appended
	register("omap-exhaustive", func(args map[string]string, out *bufio.Writer) error {
		depth := argInt(args, "depth", 3)
		alpha := omapAlphabet()
		final := strings.Split(omapFinalObs, ";")
		var rec func(prefix []string)
		rec = func(prefix []string) {
			ops := append(append([]string{}, prefix...), final...)
			omapEmit(out, ops)
			if len(prefix) == depth {
				return
			}
			for _, a := range alpha {
				rec(append(prefix, a))
			}
		}
		rec(nil)
		return nil
	})
	// random: long sequences, state observed after every op
	register("omap-random", func(args map[string]string, out *bufio.Writer) error {
		n := argInt(args, "n", 1000)
		length := argInt(args, "len", 40)
		r := newRng(uint64(argInt(args, "seed", 1)))
		for i := 0; i < n; i++ {
			ops := []string{}
			l := 1 + r.intn(length)
			for j := 0; j < l; j++ {
				ops = append(ops, omapRandomOp(r), "iter", "prev")
			}
			ops = append(ops, strings.Split(omapFinalObs, ";")...)
			omapEmit(out, ops)
		}
		return nil
	})
	// wide: maps of 13..40 keys (sort.Slice and sort.SliceStable agree up to 12 elements: stability of Sort
	// under comparators with ties - by length, by first letter - only shows on larger maps)
	register("omap-wide", func(args map[string]string, out *bufio.Writer) error {
		n := argInt(args, "n", 200)
		r := newRng(uint64(argInt(args, "seed", 1)))
		letters := []string{"a", "b", "c", "d"}
		for i := 0; i < n; i++ {
			ops := []string{}
			want := 13 + r.intn(28)
			seen := map[string]bool{}
			for len(seen) < want {
				k := ""
				for l := 1 + r.intn(3); l > 0; l-- {
					k += pick(r, letters)
				}
				seen[k] = true
				ops = append(ops, fmt.Sprintf("set:%s:%d", k, r.intn(9)))
				if r.chance(10) {
					ops = append(ops, "remove:"+k)
					delete(seen, k)
				}
			}
			for j := 1 + r.intn(3); j > 0; j-- {
				ops = append(ops, pick(r, []string{"sort:len", "sort:first", "sort:len", "sort:first", "sort:asc", "sort:desc", "filter:even", "map:klen"}), "iter")
			}
			ops = append(ops, "len", "iter", "values", "marshal", "prev")
			omapEmit(out, ops)
		}
		return nil
	})
	// replay / shrink support: run the given op sequences (one per line in file `in`)
	register("omap-eval", func(args map[string]string, out *bufio.Writer) error {
		for _, line := range readLines(args["in"]) {
			line = strings.TrimPrefix(line, "omap ")
			if i := strings.IndexByte(line, '\t'); i >= 0 {
				line = line[:i]
			}
			omapEmit(out, strings.Split(line, ";"))
		}
		return nil
	})
	// FromMap: keys sorted ascending (map iteration order must not leak)
	register("omap-frommap", func(args map[string]string, out *bufio.Writer) error {
		n := argInt(args, "n", 200)
		r := newRng(uint64(argInt(args, "seed", 1)))
		for i := 0; i < n; i++ {
			src := map[string]int{}
			for j := r.intn(8); j > 0; j-- {
				src[pick(r, []string{"a", "b", "cc", "d", "ab", "ba", "c", "zz"})] = r.intn(9)
			}
			verdict := "ok"
			func() {
				defer func() {
					if rec := recover(); rec != nil {
						verdict = "FAIL panic"
					}
				}()
				m := orderedmap.FromMap(src)
				keys := []string{}
				m.Iterate(func(k string, v int) {
					keys = append(keys, k)
					if src[k] != v {
						verdict = "FAIL value"
					}
				})
				if !sort.StringsAreSorted(keys) || len(keys) != len(src) {
					verdict = "FAIL order"
				}
			}()
			fmt.Fprintf(out, "-\t-\t%s\n", verdict)
		}
		return nil
	})
}
