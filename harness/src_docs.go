package main

// Documents drawn from a source-grammar term: valid documents (with forced edge variants),
// single-fault documents, and pairs/triples for equality testing.

import (
	"math"
	"strconv"
	"strings"
)

type DocOpts struct {
	MaxDepth  int             // how many references deep full values are generated (default 3)
	ForcedPct int             // per-site rate of forced edge variants (default 25)
	NoForced  bool            // never force variants
	Plain     bool            // ASCII strings, small numbers (used for schema defaults)
	Avoid     map[string]bool // document-level switches, see docSwitches
}

// docSwitches: variants the document generator can draw; true = off by default.
var docSwitches = map[string]bool{
	"opt.absent": false, "opt.null": false, "arr.empty": false, "dict.empty": false, "bound": false,
	"zero":      false, // explicit Go zero value ("" / 0 / false) for an optional scalar member when the type admits it
	"zero.enum": true,  // the same for optional members typed by an enum, a constant or a union of those having 0 / "" / false among the members (on in C01's c01-rows)
	"int.large": false, "dt.offset": false, "str.unicode": false, "str.empty": false,
	"any.bigint": true, // integers beyond 2^53 in `any` positions (re-encoded through float64)
	"any.null":   true, // null inside `any`
	"any.float":  false,
}

func defaultDocOpts() DocOpts {
	o := DocOpts{MaxDepth: 3, ForcedPct: 25, Avoid: map[string]bool{}}
	for k, off := range docSwitches {
		if off {
			o.Avoid[k] = true
		}
	}
	return o
}

type docGen struct {
	d    *Defs
	r    *rng
	o    DocOpts
	tags map[string]int // variants drawn (distribution reporting)
	rich bool           // bias towards present optional fields (base of fault documents)
}

func newDocGen(d *Defs, r *rng, o DocOpts) *docGen {
	if o.MaxDepth == 0 {
		o.MaxDepth = 3
	}
	if o.ForcedPct == 0 && !o.NoForced {
		o.ForcedPct = 25
	}
	if o.NoForced {
		o.ForcedPct = 0
	}
	if o.Avoid == nil {
		o.Avoid = defaultDocOpts().Avoid
	}
	return &docGen{d: d, r: r, o: o, tags: map[string]int{}}
}

func (g *docGen) forced(tag string) bool {
	if g.o.Avoid[tag] || g.o.ForcedPct == 0 {
		return false
	}
	if g.r.chance(g.o.ForcedPct) {
		g.tags[tag]++
		return true
	}
	return false
}

func (g *docGen) validDoc() JV { return g.val(srcRef(g.d.Root), 0) }

// validDocOf draws a valid document for another definition than the root.
func (g *docGen) validDocOf(name string) JV { return g.val(srcRef(name), 0) }

var dtPool = []string{"2023-01-02T03:04:05Z", "2021-06-15T08:30:00.25Z", "2020-01-01T00:00:00+02:00", "2016-02-29T23:59:59-07:00"}
var dtOffsetPool = []string{"1999-12-31T23:59:59+05:30", "2024-02-29T12:00:00-03:30", "2010-10-10T10:10:10+05:45"}

const asciiChars = "abcdefghijklmnopqrstuvwxyzABCXYZ0123456789 _-"

var uniChars = []string{"é", "世", "ü", "ß", "界"}

func (g *docGen) str(n int64) string {
	var b strings.Builder
	for i := int64(0); i < n; i++ {
		if !g.o.Plain && !g.o.Avoid["str.unicode"] && g.r.chance(12) {
			b.WriteString(pick(g.r, uniChars))
			continue
		}
		b.WriteByte(asciiChars[g.r.intn(len(asciiChars))])
	}
	return b.String()
}

func (g *docGen) strVal(s *Src) JV {
	if s.DateTime {
		if !g.o.Avoid["dt.offset"] && (g.forced("dt.offset") || g.r.chance(15)) {
			return jStr(pick(g.r, dtOffsetPool))
		}
		return jStr(pick(g.r, dtPool))
	}
	lo, hi := int64(0), int64(-1)
	if s.MinLen != nil {
		lo = *s.MinLen
	}
	if s.MaxLen != nil {
		hi = *s.MaxLen
	}
	if hi >= 0 && hi < lo {
		hi = lo // unsatisfiable in the term; stay at the minimum
	}
	var n int64
	switch {
	case (s.MinLen != nil || s.MaxLen != nil) && g.forced("bound"):
		if s.MaxLen != nil && (s.MinLen == nil || g.r.chance(50)) {
			n = hi
		} else {
			n = lo
		}
	case hi >= 0:
		n = lo + int64(g.r.intn(int(hi-lo)+1))
	default:
		n = lo + int64(g.r.intn(7))
		if lo == 0 && n == 0 && (g.o.Avoid["str.empty"] || g.r.chance(70)) {
			n = 1 + int64(g.r.intn(6))
		}
	}
	return jStr(g.str(n))
}

func (g *docGen) intVal(s *Src) JV {
	lo, hi := s.effRange()
	if hi < lo {
		return jInt(lo)
	}
	if (s.Lo != nil || s.Hi != nil || s.Width < 64) && g.forced("bound") {
		if g.r.chance(50) {
			return jInt(lo)
		}
		return jInt(hi)
	}
	if !g.o.Plain && !g.o.Avoid["int.large"] && s.Width == 64 && g.r.chance(12) {
		cands := []int64{}
		for _, c := range []int64{math.MaxInt64, math.MaxInt64 - 1, 1<<53 + 1, -(1<<53 + 1), math.MinInt64, 1 << 62, 123456789012345678} {
			if c >= lo && c <= hi {
				cands = append(cands, c)
			}
		}
		if len(cands) > 0 {
			g.tags["int.large"]++
			return jInt(pick(g.r, cands))
		}
	}
	// small values around zero when admissible, otherwise uniform in a window from lo
	wlo, whi := int64(-20), int64(100)
	if wlo < lo {
		wlo = lo
	}
	if whi > hi {
		whi = hi
	}
	if whi < wlo {
		// the admissible range does not meet the small window: stay next to the explicit bound
		span := uint64(hi) - uint64(lo)
		if span > 1000 {
			span = 1000
		}
		if s.Lo == nil && s.Hi != nil {
			wlo, whi = hi-int64(span), hi
		} else {
			wlo, whi = lo, lo+int64(span)
		}
	}
	return jInt(wlo + int64(g.r.intn(int(whi-wlo)+1)))
}

func (g *docGen) numVal(s *Src) JV {
	lo, hi := -40.0, 120.0
	if s.FLo != nil {
		lo = *s.FLo
		if s.FHi == nil {
			hi = lo + 100
		}
	}
	if s.FHi != nil {
		hi = *s.FHi
		if s.FLo == nil {
			lo = hi - 100
		}
	}
	if hi < lo {
		return jFloat(lo)
	}
	if (s.FLo != nil || s.FHi != nil) && g.forced("bound") {
		if s.FHi != nil && (s.FLo == nil || g.r.chance(50)) {
			return jFloat(*s.FHi)
		}
		return jFloat(*s.FLo)
	}
	// multiples of 0.25 (exactly representable in float32 at this magnitude); integers half of the time
	qlo, qhi := int64(math.Ceil(lo*4)), int64(math.Floor(hi*4))
	if qhi < qlo {
		return jFloat(lo)
	}
	q := qlo + int64(g.r.intn(int(qhi-qlo)+1))
	if g.r.chance(50) {
		w := q - q%4
		if w >= qlo && w <= qhi {
			q = w
		}
	}
	return jFloat(float64(q) / 4)
}

func (g *docGen) anyVal(depth int) JV {
	if !g.o.Avoid["any.bigint"] && g.r.chance(15) {
		g.tags["any.bigint"]++
		return jNumText("123456789012345678")
	}
	if !g.o.Avoid["any.null"] && g.r.chance(10) {
		return jNull()
	}
	n := 6
	if depth > 1 {
		n = 4
	}
	switch g.r.intn(n) {
	case 0:
		return jStr(g.str(int64(1 + g.r.intn(4))))
	case 1:
		return jInt(int64(g.r.intn(1000)) - 100)
	case 2:
		return jBool(g.r.chance(50))
	case 3:
		if g.o.Avoid["any.float"] {
			return jInt(7)
		}
		return jFloat(float64(g.r.intn(400))/4 + 0.5)
	case 4:
		return jArr(g.anyVal(depth+2), g.anyVal(depth+2))
	}
	return jObj(kv("k", g.anyVal(depth+2)), kv("n", jInt(int64(g.r.intn(9)))))
}

// val draws a value valid for ty. depth counts references passed; beyond MaxDepth the value is
// kept minimal (optional members absent, collections empty, nullable members null).
func (g *docGen) val(ty *Src, depth int) JV {
	minimal := depth > g.o.MaxDepth
	switch ty.Kind {
	case SAny:
		return g.anyVal(depth)
	case SBool:
		return jBool(g.r.chance(50))
	case SString:
		return g.strVal(ty)
	case SConst:
		return ty.Const.clone()
	case SInt:
		return g.intVal(ty)
	case SNum:
		return g.numVal(ty)
	case SEnumS:
		return jStr(pick(g.r, ty.EnumS))
	case SEnumI:
		return jInt(pick(g.r, ty.EnumI))
	case SArray:
		if minimal || g.forced("arr.empty") {
			return jArr()
		}
		out := jArr()
		for i, n := 0, g.r.intn(4); i < n; i++ {
			out.A = append(out.A, g.val(ty.Elem, depth+1))
		}
		return out
	case SDict:
		if minimal || g.forced("dict.empty") {
			return jObj()
		}
		out := jObj()
		for i, n := 0, g.r.intn(4); i < n; i++ {
			k := pick(g.r, dictKeyPool)
			if _, dup := out.get(k); dup {
				continue
			}
			out.O = append(out.O, JKV{k, g.val(ty.Elem, depth+1)})
		}
		return out
	case SNullable:
		if g.forced("elem.null") || g.r.chance(10) {
			return jNull()
		}
		return g.val(ty.Elem, depth)
	case SRef:
		t := g.d.lookup(ty.Ref)
		if t == nil {
			return jNull()
		}
		return g.val(t, depth+1)
	case SStruct:
		out := jObj()
		for _, f := range ty.Fields {
			if !f.Required {
				presentPct := 65
				if g.rich {
					presentPct = 85
				}
				if minimal || g.forced("opt.absent") || !g.r.chance(presentPct) {
					continue
				}
			}
			if f.Nullable {
				if minimal || g.forced("opt.null") || g.r.chance(15) {
					out.O = append(out.O, JKV{f.Name, jNull()})
					continue
				}
			}
			if !f.Required && !g.o.Plain {
				if z, ok := g.zeroScalar(f.Ty); ok && g.forced("zero") {
					out.O = append(out.O, JKV{f.Name, z})
					continue
				}
			}
			out.O = append(out.O, JKV{f.Name, g.val(f.Ty, depth)})
		}
		return out
	case SOneOfScalars:
		return g.val(pick(g.r, ty.Alts), depth)
	case SOneOfStructs:
		b := pick(g.r, ty.Branches)
		return g.val(srcRef(b.Name), depth)
	}
	return jNull()
}

// zeroScalar: the Go zero value of a scalar member type ("" / 0 / false) when the type admits it.
func (g *docGen) zeroScalar(ty *Src) (JV, bool) {
	t := g.d.resolve(ty)
	if t == nil {
		return JV{}, false
	}
	switch t.Kind {
	case SBool:
		return jBool(false), true
	case SString:
		if !t.DateTime && (t.MinLen == nil || *t.MinLen == 0) {
			return jStr(""), true
		}
	case SInt:
		if lo, hi := t.effRange(); lo <= 0 && hi >= 0 {
			return jInt(0), true
		}
	case SNum:
		if (t.FLo == nil || *t.FLo <= 0) && (t.FHi == nil || *t.FHi >= 0) {
			return jInt(0), true
		}
	case SEnumI, SEnumS, SConst, SOneOfScalars:
		if !g.o.Avoid["zero.enum"] {
			return g.zeroMember(t, 0)
		}
	}
	return JV{}, false
}

// zeroMember: the member of an enum / constant / union of those that is a Go zero value (0, "", false).
func (g *docGen) zeroMember(t *Src, fuel int) (JV, bool) {
	if t == nil || fuel > 8 {
		return JV{}, false
	}
	switch t.Kind {
	case SEnumI:
		for _, v := range t.EnumI {
			if v == 0 {
				return jInt(0), true
			}
		}
	case SEnumS:
		for _, v := range t.EnumS {
			if v == "" {
				return jStr(""), true
			}
		}
	case SConst:
		c := t.Const
		if (c.K == 'n' && c.S == "0") || (c.K == 's' && c.S == "") || c.K == 'f' {
			return c.clone(), true
		}
	case SRef:
		return g.zeroMember(g.d.resolve(t), fuel+1)
	case SOneOfScalars:
		for _, a := range t.Alts {
			switch a.Kind {
			case SEnumI, SEnumS, SConst, SRef:
				if r := g.d.resolve(a); r != nil && (r.Kind == SEnumI || r.Kind == SEnumS || r.Kind == SConst) {
					if z, ok := g.zeroMember(r, fuel+1); ok {
						return z, true
					}
				}
			}
		}
	}
	return JV{}, false
}

// ---- paths ----

type pathEl struct {
	key string
	idx int
	arr bool
}

func pathString(p []pathEl) string {
	var b strings.Builder
	b.WriteByte('$')
	for _, e := range p {
		if e.arr {
			b.WriteString("[" + strconv.Itoa(e.idx) + "]")
			continue
		}
		ident := e.key != ""
		for _, c := range e.key {
			if !(c == '_' || (c >= 'a' && c <= 'z') || (c >= 'A' && c <= 'Z') || (c >= '0' && c <= '9')) {
				ident = false
			}
		}
		if ident {
			b.WriteString("." + e.key)
		} else {
			b.WriteString("[" + jsonQuote(e.key) + "]")
		}
	}
	return b.String()
}

func navigate(root *JV, p []pathEl) *JV {
	cur := root
	for _, e := range p {
		if e.arr {
			if cur.K != 'a' || e.idx >= len(cur.A) {
				return nil
			}
			cur = &cur.A[e.idx]
			continue
		}
		found := false
		for i := range cur.O {
			if cur.O[i].K == e.key {
				cur = &cur.O[i].V
				found = true
				break
			}
		}
		if !found {
			return nil
		}
	}
	return cur
}

func extPath(p []pathEl, e pathEl) []pathEl {
	out := make([]pathEl, len(p)+1)
	copy(out, p)
	out[len(p)] = e
	return out
}

// ---- single-fault documents ----

type Fault struct {
	Kind string // undeclaredKey missingRequired nullRequired wrongType min-1 max+1 minLength-1 maxLength+1 wrongDiscriminator absentDiscriminator notInEnum
	Path string // JSON path of the mutated node ($.a.b[2]); for undeclaredKey the object that received the key
	Doc  JV
	Base JV // the valid document the fault was injected into
	// CueMayAccept: CUE's own validator legitimately accepts this fault document — a required
	// member whose type admits a single value (constant, one-member enum, lo==hi), `_`, a list or
	// a map is supplied by unification, and so is an absent discriminator when the remaining members
	// identify the branch.
	CueMayAccept bool
}

// singleton: CUE supplies a concrete value when a required member of this type is absent — the
// type admits exactly one value, or is `_`, an open list or a string-keyed map.
func (d *Defs) singleton(s *Src, fuel int) bool {
	s = d.resolve(s)
	if s == nil || fuel <= 0 {
		return false
	}
	switch s.Kind {
	case SConst:
		return true
	case SEnumS:
		return len(s.EnumS) == 1
	case SEnumI:
		return len(s.EnumI) == 1
	case SInt:
		lo, hi := s.effRange()
		return lo == hi
	case SNum:
		return s.FLo != nil && s.FHi != nil && *s.FLo == *s.FHi
	case SAny, SArray, SDict:
		// `_` needs no concrete value; an open list / pattern-constraint struct is its own default
		return true
	case SOneOfScalars:
		for _, a := range s.Alts {
			if a.Kind == SArray { // the list alternative is concrete on its own
				return true
			}
		}
	case SStruct:
		for _, f := range s.Fields {
			if f.Required && f.Default == nil && (f.Nullable || !d.singleton(f.Ty, fuel-1)) {
				return false
			}
		}
		return true
	}
	return false
}

var coreFaultKinds = []string{"undeclaredKey", "missingRequired", "nullRequired", "wrongType", "min-1", "max+1", "minLength-1", "maxLength+1", "wrongDiscriminator", "absentDiscriminator"}

type faultSite struct {
	cueOK bool
	kind  string
	path  []pathEl // node to operate on
	op    byte     // 's' replace node, 'd' delete key from object at path, 'a' add key to object at path
	key   string
	val   JV
}

func (g *docGen) faultSites(ty *Src, node *JV, path []pathEl, skipField string, out *[]faultSite) {
	if in, nullable := ty.unwrap(); nullable {
		if node == nil || node.isNull() {
			return // a null entry of a (nullable T) element offers no fault site
		}
		ty = in
	}
	ty = g.d.resolve(ty)
	if ty == nil || node == nil {
		return
	}
	add := func(kind string, op byte, p []pathEl, key string, v JV) {
		*out = append(*out, faultSite{false, kind, p, op, key, v})
	}
	wrong := func(v JV) { add("wrongType", 's', path, "", v) }
	switch ty.Kind {
	case SStruct:
		if node.K != 'o' {
			return
		}
		add("undeclaredKey", 'a', path, "zzUndeclared9", jInt(1))
		wrong(jArr())
		for _, f := range ty.Fields {
			child, present := node.get(f.Name)
			if !present {
				continue
			}
			fp := extPath(path, pathEl{key: f.Name})
			if f.Name != skipField {
				ft := g.d.resolve(f.Ty)
				if f.Required && !f.Nullable && ft != nil && ft.Kind != SAny {
					add("nullRequired", 's', fp, "", jNull())
				}
				if f.Required && f.Default == nil {
					add("missingRequired", 'd', path, f.Name, JV{})
					if ft != nil && !f.Nullable && g.d.singleton(ft, 6) {
						(*out)[len(*out)-1].cueOK = true
					}
				}
			}
			if !child.isNull() && f.Name != skipField {
				before := len(*out)
				g.faultSites(f.Ty, navigate(node, []pathEl{{key: f.Name}}), fp, "", out)
				if ft := g.d.resolve(f.Ty); f.Default != nil && ft != nil && ft.Kind == SStruct {
					// `#S | *{...}`: the default struct is an alternative of its own in CUE
					for k := before; k < len(*out); k++ {
						(*out)[k].cueOK = true
					}
				}
			}
		}
	case SArray:
		if node.K != 'a' {
			return
		}
		wrong(jObj())
		for i := range node.A {
			g.faultSites(ty.Elem, &node.A[i], extPath(path, pathEl{idx: i, arr: true}), "", out)
		}
	case SDict:
		if node.K != 'o' {
			return
		}
		wrong(jArr())
		for i := range node.O {
			g.faultSites(ty.Elem, &node.O[i].V, extPath(path, pathEl{key: node.O[i].K}), "", out)
		}
	case SBool:
		wrong(jStr("true"))
	case SString:
		wrong(jInt(7))
		if !ty.DateTime {
			if ty.MinLen != nil && *ty.MinLen > 0 {
				add("minLength-1", 's', path, "", jStr(g.str(*ty.MinLen-1)))
			}
			if ty.MaxLen != nil && (ty.MinLen == nil || *ty.MinLen <= *ty.MaxLen) {
				add("maxLength+1", 's', path, "", jStr(g.str(*ty.MaxLen+1)))
			}
		}
	case SInt:
		wrong(jStr("1"))
		tlo, thi, _ := intTypeRange(ty.Width, ty.Signed)
		if ty.Lo != nil && *ty.Lo > tlo && (ty.Hi == nil || *ty.Lo <= *ty.Hi) {
			add("min-1", 's', path, "", jInt(*ty.Lo-1))
		}
		if ty.Hi != nil && *ty.Hi < thi && (ty.Lo == nil || *ty.Lo <= *ty.Hi) {
			add("max+1", 's', path, "", jInt(*ty.Hi+1))
		}
	case SNum:
		wrong(jStr("1.5"))
		if ty.FLo != nil {
			add("min-1", 's', path, "", jFloat(*ty.FLo-1))
		}
		if ty.FHi != nil {
			add("max+1", 's', path, "", jFloat(*ty.FHi+1))
		}
	case SEnumS:
		wrong(jInt(3))
		add("notInEnum", 's', path, "", jStr("zz_not_a_member"))
	case SEnumI:
		wrong(jStr("x"))
		add("notInEnum", 's', path, "", jInt(987654))
	case SOneOfScalars:
		wrong(jObj(kv("zz", jInt(1))))
	case SOneOfStructs:
		if node.K != 'o' {
			return
		}
		dv, ok := node.get(ty.Disc)
		if !ok || dv.K != 's' {
			return
		}
		add("wrongDiscriminator", 's', extPath(path, pathEl{key: ty.Disc}), "", jStr("zz_unknown_tag"))
		add("absentDiscriminator", 'd', path, ty.Disc, JV{})
		(*out)[len(*out)-1].cueOK = true
		for _, b := range ty.Branches {
			if b.Tag == dv.S {
				g.faultSites(srcRef(b.Name), node, path, ty.Disc, out)
			}
		}
	}
}

func (s faultSite) apply(doc JV) (JV, string) {
	out := doc.clone()
	n := navigate(&out, s.path)
	if n == nil {
		return out, ""
	}
	switch s.op {
	case 's':
		*n = s.val
		return out, pathString(s.path)
	case 'd':
		n.del(s.key)
		return out, pathString(extPath(s.path, pathEl{key: s.key}))
	case 'a':
		n.O = append(n.O, JKV{s.key, s.val})
		return out, pathString(s.path)
	}
	return out, ""
}

// faultDoc returns a valid document with exactly one injected fault. kinds == nil selects the
// core kinds (coreFaultKinds); pass explicit kinds to include "notInEnum". ok is false when the
// schema offers no site for any requested kind.
func (g *docGen) faultDoc(kinds []string) (Fault, bool) {
	if kinds == nil {
		kinds = coreFaultKinds
	}
	want := map[string]bool{}
	for _, k := range kinds {
		want[k] = true
	}
	g.rich = true
	base := g.validDoc()
	g.rich = false
	sites := []faultSite{}
	g.faultSites(srcRef(g.d.Root), &base, nil, "", &sites)
	byKind := map[string][]faultSite{}
	order := []string{}
	for _, s := range sites {
		if !want[s.kind] {
			continue
		}
		if _, ok := byKind[s.kind]; !ok {
			order = append(order, s.kind)
		}
		byKind[s.kind] = append(byKind[s.kind], s)
	}
	if len(order) == 0 {
		return Fault{}, false
	}
	// first the kind (uniform over the kinds that are possible here), then the position
	k := pick(g.r, order)
	s := pick(g.r, byKind[k])
	doc, path := s.apply(base)
	return Fault{Kind: s.kind, Path: path, Doc: doc, Base: base, CueMayAccept: s.cueOK}, true
}

// ---- pairs and triples for equality ----

type DocPair struct {
	Kind  string // same reordered leaf presence keySwap nilVsEmpty nullVsAbsent
	Path  string
	A, B  JV
	Equal bool // equal by construction (as JSON values, key order ignored)
}

type DocTriple struct {
	Kind    string // "aaa" all equal by construction, "aab" c is a one-leaf mutant of a
	A, B, C JV
}

func (g *docGen) reorder(v JV) JV {
	switch v.K {
	case 'a':
		out := jArr()
		for _, e := range v.A {
			out.A = append(out.A, g.reorder(e))
		}
		return out
	case 'o':
		out := jObj()
		for _, e := range v.O {
			out.O = append(out.O, JKV{e.K, g.reorder(e.V)})
		}
		for i := len(out.O) - 1; i > 0; i-- {
			j := g.r.intn(i + 1)
			out.O[i], out.O[j] = out.O[j], out.O[i]
		}
		return out
	}
	return v
}

type mutSite struct {
	kind string
	path []pathEl
	ty   *Src
	fld  *Field // for presence / nilVsEmpty / nullVsAbsent: the field inside the struct at path
}

func (g *docGen) mutSites(ty *Src, node *JV, path []pathEl, out *[]mutSite) {
	if in, nullable := ty.unwrap(); nullable {
		if node == nil || node.isNull() {
			// a null entry: redraw the whole element (may become a value)
			*out = append(*out, mutSite{"leaf", path, ty, nil})
			return
		}
		ty = in
	}
	ty = g.d.resolve(ty)
	if ty == nil || node == nil {
		return
	}
	switch ty.Kind {
	case SStruct:
		if node.K != 'o' {
			return
		}
		for i := range ty.Fields {
			f := &ty.Fields[i]
			child, present := node.get(f.Name)
			ft := g.d.resolve(f.Ty)
			coll := ft != nil && (ft.Kind == SArray || ft.Kind == SDict)
			if !f.Required {
				*out = append(*out, mutSite{"presence", path, f.Ty, f})
				if coll {
					*out = append(*out, mutSite{"nilVsEmpty", path, f.Ty, f})
				}
				if f.Nullable {
					*out = append(*out, mutSite{"nullVsAbsent", path, f.Ty, f})
				}
			} else if f.Nullable && coll {
				*out = append(*out, mutSite{"nilVsEmpty", path, f.Ty, f})
			}
			if present && !child.isNull() {
				g.mutSites(f.Ty, navigate(node, []pathEl{{key: f.Name}}), extPath(path, pathEl{key: f.Name}), out)
			}
		}
	case SArray:
		if node.K != 'a' {
			return
		}
		for i := range node.A {
			g.mutSites(ty.Elem, &node.A[i], extPath(path, pathEl{idx: i, arr: true}), out)
		}
	case SDict:
		if node.K != 'o' {
			return
		}
		*out = append(*out, mutSite{"keySwap", path, ty, nil})
		for i := range node.O {
			g.mutSites(ty.Elem, &node.O[i].V, extPath(path, pathEl{key: node.O[i].K}), out)
		}
	case SOneOfStructs:
		if node.K != 'o' {
			return
		}
		if dv, ok := node.get(ty.Disc); ok && dv.K == 's' {
			for _, b := range ty.Branches {
				if b.Tag == dv.S {
					g.mutSites(srcRef(b.Name), node, path, out)
				}
			}
		}
	case SConst:
	default:
		*out = append(*out, mutSite{"leaf", path, ty, nil})
	}
}

func (g *docGen) zeroOr(ty *Src) JV {
	ty, _ = ty.unwrap()
	t := g.d.resolve(ty)
	switch t.Kind {
	case SString:
		if !t.DateTime && (t.MinLen == nil || *t.MinLen == 0) {
			return jStr("")
		}
	case SInt:
		if lo, hi := t.effRange(); lo <= 0 && hi >= 0 {
			return jInt(0)
		}
	case SNum:
		if (t.FLo == nil || *t.FLo <= 0) && (t.FHi == nil || *t.FHi >= 0) {
			return jInt(0)
		}
	case SBool:
		return jBool(false)
	case SArray:
		return jArr()
	case SDict:
		return jObj()
	}
	return g.val(t, g.o.MaxDepth)
}

// pair draws one pair of the requested kind ("" = random kind among those the schema offers).
func (g *docGen) pair(kind string) (DocPair, bool) {
	base := g.validDoc()
	if kind == "same" {
		return DocPair{Kind: "same", Path: "$", A: base, B: base.clone(), Equal: true}, true
	}
	if kind == "reordered" {
		return DocPair{Kind: "reordered", Path: "$", A: base, B: g.reorder(base), Equal: true}, true
	}
	sites := []mutSite{}
	g.rich = true
	base = g.validDoc()
	g.rich = false
	g.mutSites(srcRef(g.d.Root), &base, nil, &sites)
	cands := []mutSite{}
	kinds := map[string]bool{}
	for _, s := range sites {
		if kind == "" || s.kind == kind {
			cands = append(cands, s)
			kinds[s.kind] = true
		}
	}
	if len(cands) == 0 {
		if kind == "" {
			return DocPair{Kind: "same", Path: "$", A: base, B: base.clone(), Equal: true}, true
		}
		return DocPair{}, false
	}
	if kind == "" {
		// uniform over kinds first
		ks := []string{}
		for _, k := range []string{"leaf", "presence", "keySwap", "nilVsEmpty", "nullVsAbsent"} {
			if kinds[k] {
				ks = append(ks, k)
			}
		}
		k := pick(g.r, ks)
		f := cands[:0:0]
		for _, s := range cands {
			if s.kind == k {
				f = append(f, s)
			}
		}
		cands = f
	}
	s := pick(g.r, cands)
	a, b := base.clone(), base.clone()
	na, nb := navigate(&a, s.path), navigate(&b, s.path)
	if na == nil || nb == nil {
		return DocPair{}, false
	}
	p := DocPair{Kind: s.kind, A: a, B: b}
	switch s.kind {
	case "leaf":
		p.Path = pathString(s.path)
		for try := 0; try < 12; try++ {
			nv := g.val(s.ty, g.o.MaxDepth)
			if canonJSON([]byte(nv.json())) != canonJSON([]byte(na.json())) {
				*nb = nv
				p.B = b
				return p, true
			}
		}
		return DocPair{}, false
	case "presence":
		p.Path = pathString(extPath(s.path, pathEl{key: s.fld.Name}))
		v := g.val(s.fld.Ty, g.o.MaxDepth)
		na.del(s.fld.Name)
		nb.set(s.fld.Name, v)
		p.A, p.B = a, b
		return p, true
	case "nullVsAbsent":
		p.Path = pathString(extPath(s.path, pathEl{key: s.fld.Name}))
		na.del(s.fld.Name)
		nb.set(s.fld.Name, jNull())
		p.A, p.B = a, b
		return p, true
	case "nilVsEmpty":
		p.Path = pathString(extPath(s.path, pathEl{key: s.fld.Name}))
		if s.fld.Required {
			na.set(s.fld.Name, jNull())
		} else {
			na.del(s.fld.Name)
		}
		if g.d.resolve(s.fld.Ty).Kind == SArray {
			nb.set(s.fld.Name, jArr())
		} else {
			nb.set(s.fld.Name, jObj())
		}
		p.A, p.B = a, b
		return p, true
	case "keySwap":
		p.Path = pathString(s.path)
		z := g.zeroOr(s.ty.Elem)
		*na = jObj(kv("k1", z))
		*nb = jObj(kv("k2", z.clone()))
		p.A, p.B = a, b
		return p, true
	}
	return DocPair{}, false
}

func (g *docGen) triple() DocTriple {
	a := g.validDoc()
	t := DocTriple{Kind: "aaa", A: a, B: g.reorder(a), C: g.reorder(a)}
	if g.r.chance(50) {
		sites := []mutSite{}
		g.mutSites(srcRef(g.d.Root), &a, nil, &sites)
		leaves := []mutSite{}
		for _, s := range sites {
			if s.kind == "leaf" {
				leaves = append(leaves, s)
			}
		}
		if len(leaves) > 0 {
			s := pick(g.r, leaves)
			c := a.clone()
			if n := navigate(&c, s.path); n != nil {
				for try := 0; try < 12; try++ {
					nv := g.val(s.ty, g.o.MaxDepth)
					if canonJSON([]byte(nv.json())) != canonJSON([]byte(n.json())) {
						*n = nv
						t.C, t.Kind = c, "aab"
						break
					}
				}
			}
		}
	}
	return t
}
