package main

// C15: S-expression reader and VIR decoder (text -> ast.Schemas), the inverse of vir.go.
// Needed to replay / shrink a case from its request text and to run pinned inputs.
//
// One addition to VIR, used only by the xform streams: a Go `Hints` map that is nil (types decoded
// from a YAML `as:`; hint_object panics when writing to it) is printed as the single reserved
// hint `"<nil-map>"`; every other type has a non-nil map.

import (
	"encoding/json"
	"fmt"
	"strconv"
	"strings"

	"github.com/grafana/cog/internal/ast"
)

const c15NilHints = "<nil-map>"

type c15Sx struct {
	atom  string
	str   string
	isStr bool
	list  []*c15Sx
	isLst bool
}

func (s *c15Sx) isAtom(a string) bool { return s != nil && !s.isStr && !s.isLst && s.atom == a }

func c15ParseSexps(text string) ([]*c15Sx, error) {
	p := &c15SxParser{s: text}
	out := []*c15Sx{}
	for {
		p.skip()
		if p.i >= len(p.s) {
			return out, nil
		}
		x, err := p.parse()
		if err != nil {
			return nil, err
		}
		out = append(out, x)
	}
}

type c15SxParser struct {
	s string
	i int
}

func (p *c15SxParser) skip() {
	for p.i < len(p.s) && p.s[p.i] == ' ' {
		p.i++
	}
}

func (p *c15SxParser) parse() (*c15Sx, error) {
	p.skip()
	if p.i >= len(p.s) {
		return nil, fmt.Errorf("unexpected end")
	}
	switch c := p.s[p.i]; {
	case c == '(':
		p.i++
		l := &c15Sx{isLst: true}
		for {
			p.skip()
			if p.i >= len(p.s) {
				return nil, fmt.Errorf("unclosed list")
			}
			if p.s[p.i] == ')' {
				p.i++
				return l, nil
			}
			x, err := p.parse()
			if err != nil {
				return nil, err
			}
			l.list = append(l.list, x)
		}
	case c == ')':
		return nil, fmt.Errorf("unexpected )")
	case c == '"':
		j := p.i + 1
		for j < len(p.s) && p.s[j] != '"' {
			if p.s[j] == '\\' {
				j++
			}
			j++
		}
		if j >= len(p.s) {
			return nil, fmt.Errorf("unclosed string")
		}
		raw := p.s[p.i : j+1]
		p.i = j + 1
		v, err := strconv.Unquote(raw)
		if err != nil {
			return nil, fmt.Errorf("bad string %s: %w", raw, err)
		}
		return &c15Sx{str: v, isStr: true}, nil
	default:
		j := p.i
		for j < len(p.s) && p.s[j] != ' ' && p.s[j] != '(' && p.s[j] != ')' {
			j++
		}
		a := p.s[p.i:j]
		p.i = j
		return &c15Sx{atom: a}, nil
	}
}

type c15Dec struct{ err error }

func (d *c15Dec) fail(format string, a ...any) {
	if d.err == nil {
		d.err = fmt.Errorf(format, a...)
	}
}

func (d *c15Dec) head(x *c15Sx, h string, n int) bool {
	if x == nil || !x.isLst || len(x.list) < 1 || !x.list[0].isAtom(h) || (n >= 0 && len(x.list) != n) {
		d.fail("expected (%s …) with %d items", h, n)
		return false
	}
	return true
}

func (d *c15Dec) str(x *c15Sx) string {
	if x == nil || !x.isStr {
		d.fail("expected string")
		return ""
	}
	return x.str
}

func (d *c15Dec) strs(xs []*c15Sx) []string {
	out := []string{}
	for _, x := range xs {
		out = append(out, d.str(x))
	}
	return out
}

func (d *c15Dec) val(x *c15Sx) any {
	if x == nil {
		d.fail("nil value")
		return nil
	}
	if x.isAtom("nil") {
		return nil
	}
	if !x.isLst || len(x.list) == 0 || x.list[0].isLst || x.list[0].isStr {
		d.fail("bad value")
		return nil
	}
	switch x.list[0].atom {
	case "b":
		return len(x.list) == 2 && x.list[1].isAtom("true")
	case "i":
		if len(x.list) != 3 {
			d.fail("bad int")
			return nil
		}
		tag, txt := x.list[1].atom, x.list[2].atom
		if strings.HasPrefix(tag, "u") {
			n, err := strconv.ParseUint(txt, 10, 64)
			if err != nil {
				d.fail("bad uint %s", txt)
			}
			switch tag {
			case "u64":
				return n
			case "u32":
				return uint32(n)
			case "u16":
				return uint16(n)
			case "u8":
				return uint8(n)
			default:
				return uint(n)
			}
		}
		n, err := strconv.ParseInt(txt, 10, 64)
		if err != nil {
			d.fail("bad int %s", txt)
		}
		switch tag {
		case "i64":
			return n
		case "i32":
			return int32(n)
		case "i16":
			return int16(n)
		case "i8":
			return int8(n)
		default:
			return int(n)
		}
	case "f":
		if len(x.list) != 3 {
			d.fail("bad float")
			return nil
		}
		f, err := strconv.ParseFloat(d.str(x.list[2]), 64)
		if err != nil {
			d.fail("bad float")
		}
		if x.list[1].atom == "f32" {
			return float32(f)
		}
		return f
	case "jn":
		return json.Number(d.str(x.list[1]))
	case "s":
		return d.str(x.list[1])
	case "l":
		out := []any{}
		for _, e := range x.list[1:] {
			out = append(out, d.val(e))
		}
		return out
	case "m":
		out := map[string]any{}
		for _, e := range x.list[1:] {
			if !e.isLst || len(e.list) != 2 {
				d.fail("bad map entry")
				return nil
			}
			out[d.str(e.list[0])] = d.val(e.list[1])
		}
		return out
	}
	d.fail("unsupported value %s", x.list[0].atom)
	return nil
}

type c15MetaV struct {
	nullable bool
	dflt     any
	hints    ast.JenniesHints
}

func (d *c15Dec) meta(x *c15Sx) c15MetaV {
	m := c15MetaV{}
	if !d.head(x, "meta", 4) {
		return m
	}
	m.nullable = x.list[1].isAtom("true")
	m.dflt = d.val(x.list[2])
	hs := x.list[3]
	if !d.head(hs, "hints", -1) {
		return m
	}
	m.hints = ast.JenniesHints{}
	for _, h := range hs.list[1:] {
		if !h.isLst || len(h.list) != 2 {
			d.fail("bad hint")
			return m
		}
		k := d.str(h.list[0])
		if k == c15NilHints {
			m.hints = nil
			break
		}
		m.hints[k] = d.val(h.list[1])
	}
	return m
}

func (d *c15Dec) pairs(xs []*c15Sx) map[string]string {
	out := map[string]string{}
	for _, e := range xs {
		if !e.isLst || len(e.list) != 2 {
			d.fail("bad pair")
			return out
		}
		out[d.str(e.list[0])] = d.str(e.list[1])
	}
	return out
}

func (d *c15Dec) types(x *c15Sx, h string) []ast.Type {
	out := []ast.Type{}
	if !d.head(x, h, -1) {
		return out
	}
	for _, e := range x.list[1:] {
		out = append(out, d.ty(e))
	}
	return out
}

func (d *c15Dec) field(x *c15Sx) ast.StructField {
	if !d.head(x, "f", 5) {
		return ast.StructField{}
	}
	f := ast.StructField{Name: d.str(x.list[1]), Type: d.ty(x.list[2]), Required: x.list[3].isAtom("true")}
	if d.head(x.list[4], "c", -1) && len(x.list[4].list) > 1 {
		f.Comments = d.strs(x.list[4].list[1:])
	}
	return f
}

func (d *c15Dec) ty(x *c15Sx) ast.Type {
	if x == nil || !x.isLst || len(x.list) < 2 {
		d.fail("bad type")
		return ast.Type{}
	}
	m := d.meta(x.list[len(x.list)-1])
	t := ast.Type{Nullable: m.nullable, Default: m.dflt, Hints: m.hints}
	switch x.list[0].atom {
	case "scalar":
		if len(x.list) != 5 {
			d.fail("bad scalar")
			return t
		}
		t.Kind = ast.KindScalar
		sc := &ast.ScalarType{ScalarKind: ast.ScalarKind(d.str(x.list[1])), Value: d.val(x.list[2])}
		if d.head(x.list[3], "cs", -1) {
			for _, c := range x.list[3].list[1:] {
				if !c.isLst || len(c.list) < 1 {
					d.fail("bad constraint")
					return t
				}
				tc := ast.TypeConstraint{Op: ast.Op(d.str(c.list[0]))}
				for _, a := range c.list[1:] {
					tc.Args = append(tc.Args, d.val(a))
				}
				sc.Constraints = append(sc.Constraints, tc)
			}
		}
		t.Scalar = sc
	case "ref":
		t.Kind = ast.KindRef
		t.Ref = &ast.RefType{ReferredPkg: d.str(x.list[1]), ReferredType: d.str(x.list[2])}
	case "cref":
		t.Kind = ast.KindConstantRef
		t.ConstantReference = &ast.ConstantReferenceType{ReferredPkg: d.str(x.list[1]), ReferredType: d.str(x.list[2]), ReferenceValue: d.val(x.list[3])}
	case "array":
		t.Kind = ast.KindArray
		t.Array = &ast.ArrayType{ValueType: d.ty(x.list[1])}
	case "map":
		t.Kind = ast.KindMap
		t.Map = &ast.MapType{IndexType: d.ty(x.list[1]), ValueType: d.ty(x.list[2])}
	case "struct":
		if len(x.list) != 5 {
			d.fail("bad struct")
			return t
		}
		t.Kind = ast.KindStruct
		st := &ast.StructType{Fields: []ast.StructField{}}
		if d.head(x.list[1], "fields", -1) {
			for _, f := range x.list[1].list[1:] {
				st.Fields = append(st.Fields, d.field(f))
			}
		}
		t.Struct = st
		gen := d.types(x.list[2], "gen")
		if gi := x.list[3]; gi.isLst && len(gi.list) == 3 {
			if t.Hints == nil {
				t.Hints = ast.JenniesHints{}
			}
			t.Hints[d.str(gi.list[0])] = ast.DisjunctionType{Branches: gen, Discriminator: d.str(gi.list[1]), DiscriminatorMapping: d.pairs(gi.list[2].list)}
		}
	case "enum":
		t.Kind = ast.KindEnum
		en := &ast.EnumType{}
		if d.head(x.list[1], "vals", -1) {
			for _, v := range x.list[1].list[1:] {
				if !v.isLst || len(v.list) != 3 {
					d.fail("bad enum value")
					return t
				}
				en.Values = append(en.Values, ast.EnumValue{Name: d.str(v.list[0]), Value: d.val(v.list[1]), Type: ast.NewScalar(ast.ScalarKind(d.str(v.list[2])))})
			}
		}
		t.Enum = en
	case "disj":
		if len(x.list) != 5 {
			d.fail("bad disj")
			return t
		}
		t.Kind = ast.KindDisjunction
		dj := &ast.DisjunctionType{Branches: d.types(x.list[1], "branches"), Discriminator: d.str(x.list[2])}
		if d.head(x.list[3], "mapping", -1) {
			dj.DiscriminatorMapping = d.pairs(x.list[3].list[1:])
		}
		t.Disjunction = dj
	case "inter":
		t.Kind = ast.KindIntersection
		t.Intersection = &ast.IntersectionType{Branches: d.types(x.list[1], "branches")}
	case "slot":
		t.Kind = ast.KindComposableSlot
		t.ComposableSlot = &ast.ComposableSlotType{Variant: ast.SchemaVariant(d.str(x.list[1]))}
	case "bad":
		t.Kind = ast.Kind(d.str(x.list[1]))
	default:
		d.fail("unknown type head %s", x.list[0].atom)
	}
	return t
}

func (d *c15Dec) schemas(x *c15Sx) ast.Schemas {
	out := ast.Schemas{}
	if !d.head(x, "schemas", -1) {
		return out
	}
	for _, sx := range x.list[1:] {
		if !d.head(sx, "schema", 6) {
			return out
		}
		sm := sx.list[2]
		if !d.head(sm, "smeta", 4) {
			return out
		}
		s := ast.NewSchema(d.str(sx.list[1]), ast.SchemaMeta{Kind: ast.SchemaKind(d.str(sm.list[1])), Variant: ast.SchemaVariant(d.str(sm.list[2])), Identifier: d.str(sm.list[3])})
		s.EntryPoint = d.str(sx.list[3])
		s.EntryPointType = d.ty(sx.list[4])
		if !d.head(sx.list[5], "objects", -1) {
			return out
		}
		for _, kv := range sx.list[5].list[1:] {
			if !kv.isLst || len(kv.list) != 2 || !d.head(kv.list[1], "obj", 6) {
				d.fail("bad object entry")
				return out
			}
			ox := kv.list[1]
			o := ast.Object{Name: d.str(ox.list[1]), Type: d.ty(ox.list[3]), SelfRef: ast.RefType{ReferredPkg: d.str(ox.list[4]), ReferredType: d.str(ox.list[5])}}
			if d.head(ox.list[2], "c", -1) && len(ox.list[2].list) > 1 {
				o.Comments = d.strs(ox.list[2].list[1:])
			}
			s.Objects.Set(d.str(kv.list[0]), o)
		}
		out = append(out, s)
	}
	return out
}

// ---- printing with nil-hints marks (on a copy; the argument is not touched) ----

func c15MarkType(t ast.Type) ast.Type {
	c := t // shallow; every pointer we modify below is replaced
	if t.Hints == nil {
		c.Hints = ast.JenniesHints{c15NilHints: nil}
	}
	switch {
	case t.Array != nil:
		c.Array = &ast.ArrayType{ValueType: c15MarkType(t.Array.ValueType)}
	case t.Map != nil:
		c.Map = &ast.MapType{IndexType: c15MarkType(t.Map.IndexType), ValueType: c15MarkType(t.Map.ValueType)}
	case t.Struct != nil:
		st := &ast.StructType{}
		for _, f := range t.Struct.Fields {
			f.Type = c15MarkType(f.Type)
			st.Fields = append(st.Fields, f)
		}
		c.Struct = st
	case t.Disjunction != nil:
		dj := *t.Disjunction
		dj.Branches = nil
		for _, b := range t.Disjunction.Branches {
			dj.Branches = append(dj.Branches, c15MarkType(b))
		}
		c.Disjunction = &dj
	case t.Intersection != nil:
		in := &ast.IntersectionType{}
		for _, b := range t.Intersection.Branches {
			in.Branches = append(in.Branches, c15MarkType(b))
		}
		c.Intersection = in
	}
	return c
}

func c15VirType(t ast.Type) string { return virType(c15MarkType(t)) }

func c15VirSchemasMarked(ss ast.Schemas) string {
	cp := ast.Schemas{}
	for _, s := range ss {
		n := ast.NewSchema(s.Package, s.Metadata)
		n.EntryPoint = s.EntryPoint
		n.EntryPointType = c15MarkType(s.EntryPointType)
		if s.Objects != nil {
			s.Objects.Iterate(func(k string, o ast.Object) {
				o.Type = c15MarkType(o.Type)
				n.Objects.Set(k, o)
			})
		}
		cp = append(cp, n)
	}
	return virSchemas(cp)
}
