package main

// C06: case generator.  Starts from the shared IR generator (irgen.go, untouched) and then
//  * injects the deep shapes the property quantifies over (union under array under union branch,
//    unions in map values / map index, `T | null` below a branch, anonymous structs and enums at
//    depth, constant disjunctions, discriminable unions of struct references, alias objects,
//    enum members with empty / numeric / signed names),
//  * removes the reference cycles on which cog's resolution helpers never return (c06HasCycle),
//  * permutes the declaration order of the objects on purpose (DESIGN.md 2.1: order dependence
//    through in-place mutation is real).

import (
	"fmt"

	"github.com/grafana/cog/internal/ast"
	"github.com/grafana/cog/internal/orderedmap"
)

var c06EnumNames = []string{"A", "b", "1", "-1", "+x", "foo bar", "Foo", "N2", "007", "+5", "99999999999999999999", "x-y", "-", "a1"}

type c06Gen struct {
	r    *rng
	pkg  string
	objs []string // object names of the package being mutated
	rate int      // injection rate (percent per visited node)
	memo []ast.Type // union shapes already planted in this schema (re-used on purpose: passes that
	// generate one object per union SHAPE take a different path on the second occurrence)
}

func (c *c06Gen) leaf() ast.Type {
	switch c.r.intn(6) {
	case 0:
		return ast.NewScalar(ast.KindInt64)
	case 1:
		return ast.Bool()
	case 2:
		if len(c.objs) > 0 {
			return ast.NewRef(c.pkg, pick(c.r, c.objs))
		}
		return ast.String()
	case 3:
		return ast.NewScalar(ast.KindFloat64)
	default:
		return ast.String()
	}
}

func (c *c06Gen) smallStruct() ast.Type {
	fs := []ast.StructField{}
	names := []string{"a", "b", "kind", "x_y"}
	for i := 0; i < 1+c.r.intn(2); i++ {
		f := ast.NewStructField(names[i], c.leaf())
		f.Required = c.r.chance(50)
		fs = append(fs, f)
	}
	return ast.NewStruct(fs...)
}

func (c *c06Gen) enumT() ast.Type {
	n := 1 + c.r.intn(3)
	vals := []ast.EnumValue{}
	ints := c.r.chance(40)
	for i := 0; i < n; i++ {
		name := pick(c.r, c06EnumNames)
		if c.r.chance(3) {
			name = ""
		}
		if ints {
			vals = append(vals, ast.EnumValue{Type: ast.NewScalar(ast.KindInt64), Name: name, Value: int64(i)})
		} else {
			vals = append(vals, ast.EnumValue{Type: ast.String(), Name: name, Value: pick(c.r, []string{"a", "b", "", "foo"})})
		}
	}
	return ast.NewEnum(vals)
}

func (c *c06Gen) constant() ast.Type {
	if c.r.chance(70) {
		t := ast.String()
		t.Scalar.Value = pick(c.r, []string{"a", "b", "foo", "k1", ""})
		return t
	}
	t := ast.NewScalar(ast.KindInt64)
	t.Scalar.Value = int64(c.r.intn(5))
	return t
}

// plainUnion: a union of two or three distinct leaf types, no null branch
func (c *c06Gen) plainUnion() ast.Type {
	pool := []ast.Type{ast.String(), ast.Bool(), ast.NewScalar(ast.KindInt64), ast.NewScalar(ast.KindFloat64), ast.NewArray(ast.String()), ast.NewMap(ast.String(), ast.Bool())}
	if len(c.objs) > 0 {
		pool = append(pool, ast.NewRef(c.pkg, pick(c.r, c.objs)))
	}
	start := c.r.intn(len(pool))
	n := 2 + c.r.intn(2)
	bs := ast.Types{}
	for i := 0; i < n; i++ {
		bs = append(bs, pool[(start+i)%len(pool)].DeepCopy())
	}
	return ast.NewDisjunction(bs)
}

// template returns one of the deep shapes; unions are remembered per schema and re-used
func (c *c06Gen) template() ast.Type {
	if len(c.memo) > 0 && c.r.chance(25) {
		t := pick(c.r, c.memo).DeepCopy()
		t.Nullable = false
		return t
	}
	t := c.freshTemplate()
	if t.Kind == ast.KindDisjunction && len(c.memo) < 8 {
		c.memo = append(c.memo, t.DeepCopy())
	}
	return t
}

func (c *c06Gen) freshTemplate() ast.Type {
	if c.r.chance(15) {
		return c.plainUnion()
	}
	switch c.r.intn(14) {
	case 0: // union under array under union branch
		return ast.NewDisjunction(ast.Types{ast.String(), ast.NewArray(ast.NewDisjunction(ast.Types{ast.NewScalar(ast.KindInt64), ast.Bool()}))})
	case 1: // union in a map value
		return ast.NewMap(ast.String(), ast.NewDisjunction(ast.Types{c.leaf(), c.leaf()}))
	case 2: // T | null below a branch of a larger union
		return ast.NewDisjunction(ast.Types{ast.NewDisjunction(ast.Types{c.leaf(), ast.Null()}), c.leaf(), ast.NewArray(ast.NewDisjunction(ast.Types{c.leaf(), ast.Null()}))})
	case 3: // anonymous struct at depth
		return ast.NewArray(ast.NewMap(ast.String(), c.smallStruct()))
	case 4: // anonymous enum at depth
		return ast.NewMap(ast.String(), ast.NewArray(c.enumT()))
	case 5: // T | null
		return ast.NewDisjunction(ast.Types{c.leaf(), ast.Null()})
	case 6: // union / struct / enum in a map INDEX
		return ast.NewMap(pick(c.r, []ast.Type{ast.NewDisjunction(ast.Types{ast.String(), ast.NewScalar(ast.KindInt64)}), c.enumT(), ast.NewDisjunction(ast.Types{ast.String(), ast.Null()})}), c.leaf())
	case 7: // disjunction of constants (DisjunctionOfConstantsToEnum)
		bs := ast.Types{}
		for i := 0; i < 2+c.r.intn(2); i++ {
			bs = append(bs, c.constant())
		}
		return ast.NewDisjunction(bs)
	case 8: // union with struct branches (DisjunctionOfAnonymousStructsToExplicit), possibly nested unions inside
		st := c.smallStruct()
		if c.r.chance(50) {
			st.Struct.Fields = append(st.Struct.Fields, ast.NewStructField("u", ast.NewDisjunction(ast.Types{ast.String(), ast.Bool()})))
		}
		return ast.NewDisjunction(ast.Types{st, c.smallStruct(), c.leaf()})
	case 9: // duplicates by name for FlattenDisjunctions (+ null): `map | map | null`, `string | string | null`
		if c.r.chance(50) {
			return ast.NewDisjunction(ast.Types{ast.NewMap(ast.String(), ast.String()), ast.NewMap(ast.String(), ast.Bool()), ast.Null()})
		}
		return ast.NewDisjunction(ast.Types{ast.String(), ast.String(), ast.Null()})
	case 10: // struct below an intersection, with a union inside
		return ast.NewIntersection([]ast.Type{c.smallStruct(), c.leaf()})
	case 11: // nested anonymous structs two levels deep
		inner := c.smallStruct()
		outer := ast.NewStruct(ast.NewStructField("in", inner), ast.NewStructField("e", c.enumT()))
		return outer
	case 12: // union of three, one branch an array of anonymous structs
		return ast.NewDisjunction(ast.Types{c.leaf(), ast.NewArray(c.smallStruct()), ast.NewMap(ast.String(), c.leaf())})
	default:
		return c.enumT()
	}
}

func (c *c06Gen) opts(t ast.Type) ast.Type {
	if c.r.chance(15) {
		t.Nullable = true
	}
	return t
}

// mutate rebuilds t, replacing visited nodes by a template at the configured rate
func (c *c06Gen) mutate(t ast.Type, depth int) ast.Type {
	if depth > 0 && c.r.chance(c.rate) {
		return c.opts(c.template())
	}
	switch t.Kind {
	case ast.KindArray:
		if t.Array != nil {
			t.Array.ValueType = c.mutate(t.Array.ValueType, depth+1)
		}
	case ast.KindMap:
		if t.Map != nil {
			t.Map.ValueType = c.mutate(t.Map.ValueType, depth+1)
		}
	case ast.KindStruct:
		if t.Struct != nil {
			for i := range t.Struct.Fields {
				t.Struct.Fields[i].Type = c.mutate(t.Struct.Fields[i].Type, depth+1)
			}
		}
	case ast.KindDisjunction:
		if t.Disjunction != nil {
			for i := range t.Disjunction.Branches {
				t.Disjunction.Branches[i] = c.mutate(t.Disjunction.Branches[i], depth+1)
			}
		}
	case ast.KindIntersection:
		if t.Intersection != nil {
			for i := range t.Intersection.Branches {
				t.Intersection.Branches[i] = c.mutate(t.Intersection.Branches[i], depth+1)
			}
		}
	case ast.KindEnum:
		if t.Enum != nil && c.r.chance(30) {
			for i := range t.Enum.Values {
				t.Enum.Values[i].Name = pick(c.r, c06EnumNames)
			}
		}
	}
	return t
}

// collectUnions lists the unions found at any position of t
func c06CollectUnions(t ast.Type, out *[]ast.Type) {
	switch t.Kind {
	case ast.KindArray:
		if t.Array != nil {
			c06CollectUnions(t.Array.ValueType, out)
		}
	case ast.KindMap:
		if t.Map != nil {
			c06CollectUnions(t.Map.ValueType, out)
		}
	case ast.KindStruct:
		if t.Struct != nil {
			for _, f := range t.Struct.Fields {
				c06CollectUnions(f.Type, out)
			}
		}
	case ast.KindDisjunction:
		*out = append(*out, t)
		if t.Disjunction != nil {
			for _, b := range t.Disjunction.Branches {
				c06CollectUnions(b, out)
			}
		}
	case ast.KindIntersection:
		if t.Intersection != nil {
			for _, b := range t.Intersection.Branches {
				c06CollectUnions(b, out)
			}
		}
	}
}

// repeatUnions plants copies of unions that already occur in the schema (or a fresh plain one,
// twice) as the types of further struct fields of the same schema, required or not: the same union
// SHAPE then occurs several times in one schema, at positions with different options.
func (c *c06Gen) repeatUnions(s *ast.Schema) {
	found := []ast.Type{}
	structs := []string{}
	s.Objects.Iterate(func(k string, o ast.Object) {
		c06CollectUnions(o.Type, &found)
		if o.Type.Kind == ast.KindStruct && o.Type.Struct != nil {
			structs = append(structs, k)
		}
	})
	if len(structs) == 0 {
		return
	}
	if len(found) == 0 || c.r.chance(30) {
		found = append(found, c.plainUnion())
	}
	u := pick(c.r, found)
	names := []string{"again", "fallback", "alt", "other"}
	for i := 0; i < 1+c.r.intn(3); i++ {
		k := pick(c.r, structs)
		o := s.Objects.Get(k)
		t := u.DeepCopy()
		t.Nullable = c.r.chance(10)
		t.Default = nil
		f := ast.NewStructField(names[i], t)
		f.Required = c.r.chance(40)
		if c.r.chance(30) {
			f.Type = ast.NewArray(f.Type)
		}
		dup := false
		for _, e := range o.Type.Struct.Fields {
			if e.Name == f.Name {
				dup = true
			}
		}
		if dup {
			continue
		}
		// a fresh field slice: the object's struct pointer stays, the slice grows
		o.Type.Struct.Fields = append(append([]ast.StructField{}, o.Type.Struct.Fields...), f)
		s.Objects.Set(k, o)
	}
}

// bundle adds a small family of related objects to the schema
func (c *c06Gen) bundle(s *ast.Schema) {
	pkg := s.Package
	constField := func(name, v string) ast.StructField {
		t := ast.String()
		t.Scalar.Value = v
		f := ast.NewStructField(name, t)
		f.Required = true
		return f
	}
	switch c.r.intn(4) {
	case 0: // discriminable union of struct references
		k1 := []ast.StructField{constField("kind", "k1"), ast.NewStructField("v", c.leaf())}
		k2 := []ast.StructField{constField("kind", "k2")}
		if c.r.chance(50) { // several candidate discriminators: the sorted-first one must win
			k1 = append([]ast.StructField{constField("type", "t1")}, k1...)
			k2 = append(k2, constField("type", "t2"), constField("a", "x"))
			if c.r.chance(50) {
				k1 = append(k1, constField("a", "y"))
			}
		}
		s.AddObject(ast.NewObject(pkg, "K1", ast.NewStruct(k1...)))
		s.AddObject(ast.NewObject(pkg, "K2", ast.NewStruct(k2...)))
		u := ast.NewDisjunction(ast.Types{ast.NewRef(pkg, "K1"), ast.NewRef(pkg, "K2")})
		if c.r.chance(30) {
			u.Disjunction.Branches = append(u.Disjunction.Branches, ast.Null())
		}
		if c.r.chance(50) {
			s.AddObject(ast.NewObject(pkg, "U", u))
		} else {
			s.AddObject(ast.NewObject(pkg, "UH", ast.NewStruct(ast.NewStructField("u", u), ast.NewStructField("us", ast.NewArray(u.DeepCopy())))))
		}
	case 1: // aliases of a struct and of an array, and users (RemoveIntersections, InlineObjectsWithTypes)
		s.AddObject(ast.NewObject(pkg, "St", ast.NewStruct(ast.NewStructField("a", c.leaf()))))
		s.AddObject(ast.NewObject(pkg, "Arr", ast.NewArray(c.leaf())))
		s.AddObject(ast.NewObject(pkg, "AlSt", ast.NewRef(pkg, "St")))
		s.AddObject(ast.NewObject(pkg, "AlArr", ast.NewRef(pkg, "Arr")))
		s.AddObject(ast.NewObject(pkg, "Str", ast.String()))
		us := ast.NewStruct(
			ast.NewStructField("s", ast.NewRef(pkg, pick(c.r, []string{"St", "AlSt"}))),
			ast.NewStructField("r", ast.NewRef(pkg, pick(c.r, []string{"Arr", "AlArr"}))),
			ast.NewStructField("t", ast.NewRef(pkg, "Str")))
		us.Struct.Fields[0].Required = c.r.chance(50)
		us.Struct.Fields[1].Required = c.r.chance(50)
		s.AddObject(ast.NewObject(pkg, "User", us))
	case 2: // union flattened through a reference, with cross references
		s.AddObject(ast.NewObject(pkg, "In", ast.NewDisjunction(ast.Types{ast.String(), ast.NewArray(ast.Bool()), ast.NewMap(ast.String(), ast.String())})))
		s.AddObject(ast.NewObject(pkg, "Out", ast.NewDisjunction(ast.Types{ast.NewRef(pkg, "In"), ast.NewMap(ast.String(), ast.Bool()), ast.Null()})))
	case 3: // enum object, constants, a union that resolves to constants through references
		s.AddObject(ast.NewObject(pkg, "En", c.enumT()))
		s.AddObject(ast.NewObject(pkg, "Cst", c.constant()))
		s.AddObject(ast.NewObject(pkg, "CU", ast.NewDisjunction(ast.Types{ast.NewRef(pkg, "En"), ast.NewRef(pkg, "Cst"), c.constant()})))
	}
}

// c06BreakCycles replaces the type of objects lying on a resolution cycle by `string`
func c06BreakCycles(ss ast.Schemas) int {
	broken := 0
	for guard := 0; guard < 256 && c06HasCycle(ss); guard++ {
		done := false
		for _, s := range ss {
			keys := []string{}
			s.Objects.Iterate(func(k string, _ ast.Object) { keys = append(keys, k) })
			for _, k := range keys {
				if c06ObjectOnCycle(ss, s, k) {
					o := s.Objects.Get(k)
					o.Type = ast.String()
					s.Objects.Set(k, o)
					broken++
					done = true
					break
				}
			}
			if done {
				break
			}
		}
		if !done {
			break
		}
	}
	return broken
}

// c06ObjectOnCycle: does following references / disjunction branches from object k come back to k?
func c06ObjectOnCycle(ss ast.Schemas, s *ast.Schema, k string) bool {
	type key struct{ pkg, name string }
	start := key{s.Package, k}
	seen := map[key]bool{}
	hit := false
	var walk func(t ast.Type)
	walk = func(t ast.Type) {
		if hit {
			return
		}
		switch {
		case t.Kind == ast.KindRef && t.Ref != nil:
			targets := []key{}
			if _, ok := ss.LocateObject(t.Ref.ReferredPkg, t.Ref.ReferredType); ok {
				targets = append(targets, key{t.Ref.ReferredPkg, t.Ref.ReferredType})
			}
			if s.Objects.Has(t.Ref.ReferredType) {
				targets = append(targets, key{s.Package, t.Ref.ReferredType})
			}
			for _, tk := range targets {
				if tk == start {
					hit = true
					return
				}
				if seen[tk] {
					continue
				}
				seen[tk] = true
				o, _ := ss.LocateObject(tk.pkg, tk.name)
				walk(o.Type)
			}
		case t.Kind == ast.KindDisjunction && t.Disjunction != nil:
			for _, b := range t.Disjunction.Branches {
				walk(b)
			}
		}
	}
	walk(s.Objects.Get(k).Type)
	return hit
}

func c06Permute(r *rng, ss ast.Schemas) {
	for _, s := range ss {
		keys := []string{}
		s.Objects.Iterate(func(k string, _ ast.Object) { keys = append(keys, k) })
		for i := len(keys) - 1; i > 0; i-- {
			j := r.intn(i + 1)
			keys[i], keys[j] = keys[j], keys[i]
		}
		nm := orderedmap.New[string, ast.Object]()
		for _, k := range keys {
			nm.Set(k, s.Objects.Get(k))
		}
		s.Objects = nm
	}
}

// c06GenCase draws one input IR
func c06GenCase(r *rng, tier string) ast.Schemas {
	o := defaultIRGenOpts(tier)
	o.malformed = false
	o.noSlot = false
	ss := genSchemas(r, o)
	rate := pick(r, []int{0, 4, 8, 15})
	for _, s := range ss {
		c := &c06Gen{r: r, pkg: s.Package, rate: rate}
		s.Objects.Iterate(func(k string, _ ast.Object) { c.objs = append(c.objs, k) })
		for _, k := range c.objs {
			obj := s.Objects.Get(k)
			obj.Type = c.mutate(obj.Type, 0)
			if r.chance(rate) && rate > 0 {
				obj.Type = c.opts(c.template())
			}
			s.Objects.Set(k, obj)
		}
		if r.chance(35) {
			c.bundle(s)
		}
		if r.chance(30) {
			c.repeatUnions(s)
		}
	}
	c06BreakCycles(ss)
	if c06HasCycle(ss) { // last resort: never hand a diverging input to cog
		return ast.Schemas{ast.NewSchema("p", ast.SchemaMeta{})}
	}
	c06Permute(r, ss)
	return ss
}

// ---- measured shape features of an input (evidence: distribution) ----

type c06Features struct {
	maxDepth                                                                        int
	unionUnderBranch, unionUnderArrayUnderBranch, unionInMapValue, unionInMapIndex bool
	nullPairUnderBranch, nullPairTop, anonStructDeep, anonEnumDeep, interStruct    bool
	refsOnlyUnion, constUnion, structBranchUnion, aliasObj, weirdEnumName          bool
}

func (f *c06Features) walk(t ast.Type, depth int, underBranch, underArrayUnderBranch, top bool) {
	if depth > f.maxDepth {
		f.maxDepth = depth
	}
	switch t.Kind {
	case ast.KindArray:
		if t.Array != nil {
			f.walk(t.Array.ValueType, depth+1, underBranch, underBranch, false)
		}
	case ast.KindMap:
		if t.Map != nil {
			if t.Map.IndexType.Kind == ast.KindDisjunction {
				f.unionInMapIndex = true
			}
			if t.Map.ValueType.Kind == ast.KindDisjunction {
				f.unionInMapValue = true
			}
			f.walk(t.Map.IndexType, depth+1, underBranch, underArrayUnderBranch, false)
			f.walk(t.Map.ValueType, depth+1, underBranch, underArrayUnderBranch, false)
		}
	case ast.KindStruct:
		if !top && depth >= 2 {
			f.anonStructDeep = true
		}
		if t.Struct != nil {
			for _, fd := range t.Struct.Fields {
				f.walk(fd.Type, depth+1, underBranch, underArrayUnderBranch, false)
			}
		}
	case ast.KindEnum:
		if !top && depth >= 2 {
			f.anonEnumDeep = true
		}
		if t.Enum != nil {
			for _, m := range t.Enum.Values {
				if m.Name == "" || c06AllDigits(m.Name) || m.Name[0] == '-' || m.Name[0] == '+' {
					f.weirdEnumName = true
				}
			}
		}
	case ast.KindDisjunction:
		if underBranch {
			f.unionUnderBranch = true
		}
		if underArrayUnderBranch {
			f.unionUnderArrayUnderBranch = true
		}
		if t.Disjunction != nil {
			bs := t.Disjunction.Branches
			np := len(bs) == 2 && (c06IsNull(bs[0]) || c06IsNull(bs[1]))
			if np && underBranch {
				f.nullPairUnderBranch = true
			}
			if np && !underBranch {
				f.nullPairTop = true
			}
			if bs.HasOnlyRefs() {
				f.refsOnlyUnion = true
			}
			allConst := len(bs) > 0
			for _, b := range bs {
				if b.Kind == ast.KindStruct {
					f.structBranchUnion = true
				}
				if !(b.Kind == ast.KindScalar && b.Scalar != nil && b.Scalar.Value != nil) {
					allConst = false
				}
			}
			if allConst {
				f.constUnion = true
			}
			for _, b := range bs {
				f.walk(b, depth+1, true, false, false)
			}
		}
	case ast.KindIntersection:
		if t.Intersection != nil {
			for _, b := range t.Intersection.Branches {
				if b.Kind == ast.KindStruct {
					f.interStruct = true
				}
				f.walk(b, depth+1, underBranch, underArrayUnderBranch, false)
			}
		}
	}
}

func c06FeatureString(ss ast.Schemas) string {
	f := &c06Features{}
	for _, s := range ss {
		s.Objects.Iterate(func(_ string, o ast.Object) {
			if o.Type.Kind == ast.KindRef {
				f.aliasObj = true
			}
			f.walk(o.Type, 0, false, false, true)
		})
	}
	// the same union shape (same generated type name) several times in one schema; and at least one
	// occurrence that is the type of a non-required field and has no null branch
	repeated, repeatedOptional := false, false
	for _, s := range ss {
		count := map[string]int{}
		optional := map[string]bool{}
		var walk func(t ast.Type, optionalField bool)
		walk = func(t ast.Type, optionalField bool) {
			switch t.Kind {
			case ast.KindArray:
				if t.Array != nil {
					walk(t.Array.ValueType, false)
				}
			case ast.KindMap:
				if t.Map != nil {
					walk(t.Map.ValueType, false)
				}
			case ast.KindStruct:
				if t.Struct != nil {
					for _, fd := range t.Struct.Fields {
						walk(fd.Type, !fd.Required)
					}
				}
			case ast.KindIntersection:
				if t.Intersection != nil {
					for _, b := range t.Intersection.Branches {
						walk(b, false)
					}
				}
			case ast.KindDisjunction:
				if t.Disjunction != nil {
					name := ""
					for i, b := range t.Disjunction.Branches {
						if i > 0 {
							name += "Or"
						}
						name += ast.TypeName(b)
					}
					count[name]++
					if optionalField && !t.Disjunction.Branches.HasNullType() {
						optional[name] = true
					}
				}
			}
		}
		s.Objects.Iterate(func(_ string, o ast.Object) { walk(o.Type, false) })
		for n, k := range count {
			if k >= 2 {
				repeated = true
				if optional[n] {
					repeatedOptional = true
				}
			}
		}
	}
	flags := []string{fmt.Sprintf("depth%d", f.maxDepth)}
	add := func(b bool, n string) {
		if b {
			flags = append(flags, n)
		}
	}
	add(f.unionUnderBranch, "union-under-union-branch")
	add(f.unionUnderArrayUnderBranch, "union-under-array-under-union-branch")
	add(f.unionInMapValue, "union-in-map-value")
	add(f.unionInMapIndex, "union-in-map-index")
	add(f.nullPairUnderBranch, "nullpair-under-branch")
	add(f.nullPairTop, "nullpair")
	add(f.anonStructDeep, "anon-struct-depth>=2")
	add(f.anonEnumDeep, "anon-enum-depth>=2")
	add(f.interStruct, "struct-in-allOf")
	add(f.refsOnlyUnion, "refs-only-union")
	add(f.constUnion, "constants-union")
	add(f.structBranchUnion, "struct-branch-union")
	add(f.aliasObj, "alias-object")
	add(f.weirdEnumName, "special-enum-name")
	add(repeated, "repeated-union-shape")
	add(repeatedOptional, "repeated-union-shape-on-optional-field")
	out := ""
	for i, s := range flags {
		if i > 0 {
			out += ","
		}
		out += s
	}
	return out
}
