package main

import (
	"bufio"
	"fmt"
)

func init() {
	register("c12-probe", func(args map[string]string, out *bufio.Writer) error {
		opts := defaultLabOpts()
		opts.NoPython = true
		lab, err := NewLab(labWorkDir("c12probe"), opts)
		if err != nil {
			return err
		}
		defer lab.Close()
		return iterDefs(args, func(i int, d *Defs) error {
			for _, f := range labFormats {
				if only, ok := args["format"]; ok && only != f {
					continue
				}
				c := lab.AddCase(d, f)
				fmt.Fprintf(out, "=== %s %s generr=%q\n%s\n", c.ID, f, c.GenErr, d.sexp())
				fmt.Fprintf(out, "--- emitted jsonschema\n%s\n", c.EmittedJSONSchema())
				if args["oa"] == "1" {
					fmt.Fprintf(out, "--- emitted openapi\n%s\n", c.EmittedOpenAPI())
				}
				ir, _, err := lab.labRun(c).chainIR("jsonschema")
				fmt.Fprintf(out, "--- js chain IR err=%v\n%s\n", err, virSchemas(ir))
				fmt.Fprintf(out, "--- go chain IR\n%s\n", virSchemas(c.IRGo))
			}
			return nil
		})
	})
}
