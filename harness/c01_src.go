package main

// C01, pass widening (part (c)): the tie of `Plain`, `srcDen` and of the theorem
// C01_pass_widening_plain_partial to the code.
//
// For every generated source term × format: the REAL front-end output (pre-chain IR,
// codegen.Pipeline.LoadSchemas) and the REAL post-Go-chain IR (ContextForLanguage) are sent to the
// Lean driver, then every sampled document — valid ones and single-fault ones — with the verdict of
// the schema language's own validator:
//
//   -                                                      \t case <id> …                 \t ok
//   defschemas <id>.pre  <pre-chain IR as VIR>             \t ok                          \t ok
//   defschemas <id>.post <post-chain IR as VIR>            \t ok                          \t ok
//   srcden <id>.pre <id>.post <pkg> <root> <doc sexp>      \t valid=<bool> doc=<valid|fault:kind> \t ok
//   -                                                      \t skip <id> <reason>          \t ok
//
// The driver answers `plain= src= den= mden= why= notplain=`; checks/c01.py decides the obligations:
//   (a) validator accepts ∧ Plain ∧ no den-exclusion on the way  ⇒  srcDen     (rate + reasons; the
//       converse direction — srcDen accepts what the validator rejects — is a model bug)
//   (b) Plain ∧ srcDen ⇒ den on the REAL post-chain IR   (instance of the theorem: must be 0 failures)
//
// Case profiles (index mod 3): 0 = the lab's default generator; 1 = plain-biased (no unions, no
// nested structs, inline enums hoisted into named definitions; nullable members stay: OpenAPI reads
// them as `nullable`, JSON Schema / CUE as `T | null`); 2 = 1 without nullable members / elements.

import (
	"bufio"
	"fmt"
	"os"
	"strings"

	"github.com/grafana/cog/internal/ast"
	"github.com/grafana/cog/internal/jennies/golang"
	"github.com/grafana/cog/internal/jennies/python"
)

const c01PlainSwitches = "-oneOfScalars,-oneOfStructs,-struct.nested,-array.of.struct,-dict.of.struct,-sharedshape,-default"

// c01HoistEnums replaces every inline enum (member type, array element, dict value) by a reference
// to a new named definition, so that the front-ends produce named enum objects only.
func c01HoistEnums(d *Defs) *Defs {
	out := d.clone()
	used := map[string]bool{}
	for _, it := range out.Items {
		used[normName(it.Name)] = true
	}
	n := 0
	var added []Def
	var walk func(s *Src, top bool) *Src
	walk = func(s *Src, top bool) *Src {
		if s == nil {
			return s
		}
		switch s.Kind {
		case SEnumS, SEnumI:
			if top {
				return s
			}
			name := ""
			for {
				n++
				name = fmt.Sprintf("Choice%d", n)
				if !used[normName(name)] {
					break
				}
			}
			used[normName(name)] = true
			added = append(added, Def{name, s})
			return srcRef(name)
		case SArray, SDict, SNullable:
			s.Elem = walk(s.Elem, false)
		case SStruct:
			for i := range s.Fields {
				s.Fields[i].Ty = walk(s.Fields[i].Ty, false)
			}
		}
		return s
	}
	for i := range out.Items {
		out.Items[i].Ty = walk(out.Items[i].Ty, true)
	}
	out.Items = append(out.Items, added...)
	return out
}

func c01DropDefaults(d *Defs) *Defs {
	out := d.clone()
	var walk func(s *Src)
	walk = func(s *Src) {
		if s == nil {
			return
		}
		walk(s.Elem)
		for i := range s.Fields {
			s.Fields[i].Default = nil
			walk(s.Fields[i].Ty)
		}
	}
	for i := range out.Items {
		walk(out.Items[i].Ty)
	}
	return out
}

// c01PinnedCollide: the witness of ¬C01_pass_widening_full (lean/Cog/Props/C01.lean, `wCollide`) as a
// JSON Schema: `A = { b: { x: string }, c?: <Pkg>AB }` next to a user-defined `<Pkg>AB = { y: integer }`.
// AnonymousStructsToNamed names the struct of `A.b` `<Pkg>AB` and overwrites the definition.
const c01PinnedCollide = `{
  "$schema": "http://json-schema.org/draft-07/schema#",
  "$ref": "#/definitions/A",
  "definitions": {
    "A": {"type": "object", "additionalProperties": false, "required": ["b"],
      "properties": {"b": {"type": "object", "additionalProperties": false, "required": ["x"], "properties": {"x": {"type": "string"}}},
                     "c": {"$ref": "#/definitions/PincollidejsAB"}}},
    "PincollidejsAB": {"type": "object", "additionalProperties": false, "required": ["y"], "properties": {"y": {"type": "integer"}}}
  }
}`

// c01Pinned emits the pinned witness rows (`-	pinned <id> …`, then defschemas / srcden rows like a case).
func c01Pinned(out *bufio.Writer, dir string) {
	id := "pincollidejs"
	root := "PincollidejsAB"
	defer func() {
		if rec := recover(); rec != nil {
			fmt.Fprintf(out, "-\tskip %s harness-panic %s\tok\n", id, labOneLine(fmt.Sprint(rec)))
		}
	}()
	path, err := writeSchemaFile(dir, "jsonschema", id, c01PinnedCollide)
	if err != nil {
		fmt.Fprintf(out, "-\tskip %s write %s\tok\n", id, labOneLine(err.Error()))
		return
	}
	lr := labRun{Format: "jsonschema", Path: path, Package: id,
		GoCfg: &golang.Config{GenerateJSONMarshaller: true, GenerateStrictUnmarshaller: true, GenerateEqual: true, GenerateValidate: true, PackageRoot: labGoModule}}
	pre, err := lr.loadSchemas()
	if err != nil {
		fmt.Fprintf(out, "-\tskip %s front-end-error %s\tok\n", id, labOneLine(labFirstLine(err.Error())))
		return
	}
	post, _, err := lr.chainIR("go")
	if err != nil {
		fmt.Fprintf(out, "-\tskip %s chain-error %s\tok\n", id, labOneLine(labFirstLine(err.Error())))
		return
	}
	rv, err := newRefValidator("jsonschema", c01PinnedCollide, root)
	if err != nil {
		fmt.Fprintf(out, "-\tskip %s no-reference-validator %s\tok\n", id, labOneLine(shortErr(err)))
		return
	}
	doc, _ := parseJV([]byte(`{"y": 1}`))
	fmt.Fprintf(out, "-\tpinned %s format=jsonschema witness=C01_pass_widening_counterexample\tok\n", id)
	fmt.Fprintf(out, "defschemas %s.pre %s\tok\tok\n", id, virSchemas(pre))
	fmt.Fprintf(out, "defschemas %s.post %s\tok\tok\n", id, virSchemas(post))
	fmt.Fprintf(out, "srcden %s.pre %s.post %s %s %s\tvalid=%v doc=pinned\tok\n", id, id, id, root, doc.sexp(), rv.validate(doc) == nil)
}

// c11PinnedNullRef: the witness of ¬C11_pass_widening_full (lean/Cog/Props/C11.lean, `wNullRef`):
// `Root = { child?: Root | null }`; `{"child": null}` is source-valid, `Root.from_json(None)` raises.
const c11PinnedNullRef = `{
  "$schema": "http://json-schema.org/draft-07/schema#",
  "$ref": "#/definitions/Root",
  "definitions": {
    "Root": {"type": "object", "additionalProperties": false,
      "properties": {"child": {"anyOf": [{"$ref": "#/definitions/Root"}, {"type": "null"}]}}}
  }
}`

func c11Pinned(out *bufio.Writer, dir string) {
	id := "pinnullref"
	root := "Root"
	defer func() {
		if rec := recover(); rec != nil {
			fmt.Fprintf(out, "-\tskip %s harness-panic %s\tok\n", id, labOneLine(fmt.Sprint(rec)))
		}
	}()
	path, err := writeSchemaFile(dir, "jsonschema", id, c11PinnedNullRef)
	if err != nil {
		fmt.Fprintf(out, "-\tskip %s write %s\tok\n", id, labOneLine(err.Error()))
		return
	}
	lr := labRun{Format: "jsonschema", Path: path, Package: id,
		GoCfg: &golang.Config{GenerateJSONMarshaller: true, GenerateStrictUnmarshaller: true, GenerateEqual: true, GenerateValidate: true, PackageRoot: labGoModule},
		PyCfg: &python.Config{GenerateJSONMarshaller: true}}
	pre, err := lr.loadSchemas()
	if err != nil {
		fmt.Fprintf(out, "-\tskip %s front-end-error %s\tok\n", id, labOneLine(labFirstLine(err.Error())))
		return
	}
	post, _, err := lr.chainIR("go")
	if err != nil {
		fmt.Fprintf(out, "-\tskip %s chain-error %s\tok\n", id, labOneLine(labFirstLine(err.Error())))
		return
	}
	postPy, _, err := lr.chainIR("python")
	if err != nil {
		fmt.Fprintf(out, "-\tskip %s python-chain-error %s\tok\n", id, labOneLine(labFirstLine(err.Error())))
		return
	}
	rv, err := newRefValidator("jsonschema", c11PinnedNullRef, root)
	if err != nil {
		fmt.Fprintf(out, "-\tskip %s no-reference-validator %s\tok\n", id, labOneLine(shortErr(err)))
		return
	}
	doc, _ := parseJV([]byte(`{"child": null}`))
	fmt.Fprintf(out, "-\tpinned %s format=jsonschema witness=C11_pass_widening_counterexample\tok\n", id)
	fmt.Fprintf(out, "defschemas %s.pre %s\tok\tok\n", id, virSchemas(pre))
	fmt.Fprintf(out, "defschemas %s.post %s\tok\tok\n", id, virSchemas(post))
	fmt.Fprintf(out, "defschemas %s.postpy %s\tok\tok\n", id, virSchemas(postPy))
	fmt.Fprintf(out, "srcpy %s.pre %s.post %s.postpy %s %s %s\tvalid=%v doc=pinned\tok\n", id, id, id, id, root, doc.sexp(), rv.validate(doc) == nil)
}

func init() {
	register("c01-src", func(args map[string]string, out *bufio.Writer) error { return c01SrcStream(args, out, false) })
	// c11-src: the same cases and documents, plus the REAL post-Python-chain IR; rows
	//   defschemas <id>.postpy <vir>    and    srcpy <id>.pre <id>.post <id>.postpy <pkg> <root> <doc>
	// (driver: PlainPyS / PlainS / srcDen on the pre-chain IR, pyDen on the real Python IR, den on the real Go IR)
	register("c11-src", func(args map[string]string, out *bufio.Writer) error { return c01SrcStream(args, out, true) })
}

func c01SrcStream(args map[string]string, out *bufio.Writer, py bool) error {
	{
		n := argInt(args, "n", 30)
		ndocs := argInt(args, "docs", 12)
		nfault := argInt(args, "faults", 6)
		seed := uint64(argInt(args, "seed", 1))
		from := argInt(args, "from", 0)
		base := argGenOpts(args)
		dir := labWorkDir("c01src")
		defer os.RemoveAll(dir)
		faultKinds := []string{"undeclaredKey", "missingRequired", "nullRequired", "wrongType", "notInEnum"}
		if args["pinned"] != "0" && !py {
			c01Pinned(out, dir)
		}
		if args["pinned"] != "0" && py {
			c11Pinned(out, dir)
		}
		for i := from; i < from+n; i++ {
			profile := i % 3
			if p, ok := args["profile"]; ok {
				fmt.Sscanf(p, "%d", &profile)
			}
			o := base
			switch profile {
			case 1:
				o = base.with(c01PlainSwitches)
				o.NoForce = true
			case 2:
				o = base.with(c01PlainSwitches + ",-nullable,-elem.nullable")
				o.NoForce = true
			}
			d0 := genDefs(seed, i, o)
			if profile != 0 {
				d0 = c01DropDefaults(c01HoistEnums(d0))
			}
			if err := d0.wf(); err != nil {
				fmt.Fprintf(out, "-\tskip t%d term-not-wf %s\tok\n", i, labOneLine(err.Error()))
				continue
			}
			for _, f := range labFormats {
				if only, ok := args["format"]; ok && only != f {
					continue
				}
				id := fmt.Sprintf("c%d%s", i, labFormatSuffix[f])
				func() {
					defer func() {
						if rec := recover(); rec != nil {
							fmt.Fprintf(out, "-\tskip %s harness-panic %s\tok\n", id, labOneLine(fmt.Sprint(rec)))
						}
					}()
					d, notes := degradeDefs(d0, f, 2)
					ro := renderDefs(d, f, id)
					if ro.Text == "" || len(ro.Unsupported) > 0 {
						fmt.Fprintf(out, "-\tskip %s unsupported-by-format %s\tok\n", id, labOneLine(strings.Join(ro.Unsupported, ",")))
						return
					}
					path, err := writeSchemaFile(dir, f, id, ro.Text)
					if err != nil {
						fmt.Fprintf(out, "-\tskip %s write %s\tok\n", id, labOneLine(err.Error()))
						return
					}
					lr := labRun{Format: f, Path: path, Package: id,
						GoCfg: &golang.Config{GenerateJSONMarshaller: true, GenerateStrictUnmarshaller: true, GenerateEqual: true, GenerateValidate: true, PackageRoot: labGoModule}}
					if py {
						lr.PyCfg = &python.Config{GenerateJSONMarshaller: true}
					}
					pre, err := lr.loadSchemas()
					if err != nil {
						fmt.Fprintf(out, "-\tskip %s front-end-error %s\tok\n", id, labOneLine(labFirstLine(err.Error())))
						return
					}
					post, _, err := lr.chainIR("go")
					if err != nil {
						fmt.Fprintf(out, "-\tskip %s chain-error %s\tok\n", id, labOneLine(labFirstLine(err.Error())))
						return
					}
					var postPy ast.Schemas
					if py {
						postPy, _, err = lr.chainIR("python")
						if err != nil {
							fmt.Fprintf(out, "-\tskip %s python-chain-error %s\tok\n", id, labOneLine(labFirstLine(err.Error())))
							return
						}
					}
					rv, err := newRefValidator(f, ro.refText(), d.Root)
					if err != nil {
						fmt.Fprintf(out, "-\tskip %s no-reference-validator %s\tok\n", id, labOneLine(shortErr(err)))
						return
					}
					fmt.Fprintf(out, "-\tcase %s format=%s profile=%d degraded=%v notes=%v src=%s\tok\n", id, f, profile, notes, ro.Notes, d.sexp())
					fmt.Fprintf(out, "defschemas %s.pre %s\tok\tok\n", id, virSchemas(pre))
					fmt.Fprintf(out, "defschemas %s.post %s\tok\tok\n", id, virSchemas(post))
					if py {
						fmt.Fprintf(out, "defschemas %s.postpy %s\tok\tok\n", id, virSchemas(postPy))
					}
					dg := newDocGen(d, newRng(seed*7919+uint64(i)*31+5), defaultDocOpts())
					emit := func(doc JV, kind string) {
						valid := rv.validate(doc) == nil
						if py {
							fmt.Fprintf(out, "srcpy %s.pre %s.post %s.postpy %s %s %s\tvalid=%v doc=%s\tok\n", id, id, id, id, d.Root, doc.sexp(), valid, kind)
							return
						}
						fmt.Fprintf(out, "srcden %s.pre %s.post %s %s %s\tvalid=%v doc=%s\tok\n", id, id, id, d.Root, doc.sexp(), valid, kind)
					}
					for k := 0; k < ndocs; k++ {
						emit(dg.validDoc(), "valid")
					}
					for k := 0; k < nfault; k++ {
						if fd, ok := dg.faultDoc(faultKinds); ok {
							emit(fd.Doc, "fault:"+fd.Kind)
						}
					}
				}()
			}
		}
		return nil
	}
}
