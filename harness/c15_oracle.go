package main

// C15: implementation-side oracle, independent of the Lean model and of cog's traversal code.
//
// c15SpecStep is a declarative, object-wise statement of what each transformation is documented
// to do (docs/reference/schema_transformations.md + the doc comments of the passes), with ONE
// matching rule (package exact, object and field names strings.EqualFold) and references found at
// EVERY position of a type.  Everything a transformation does not target is left as it is, so
// comparing the real output with the specified one checks effect, frame, order and
// absent-target-is-identity at once.
//
// Where cog is known to deviate, the deviation is a named, individually switchable "quirk"; a
// failure is reported as `explained-by=<quirks>` iff switching exactly those quirks on reproduces
// the real output, otherwise as `unexplained` (never covered by a known finding).

import (
	"fmt"
	"sort"
	"strings"

	"github.com/grafana/cog/internal/ast"
	"github.com/grafana/cog/internal/ast/compiler"
	"github.com/grafana/cog/internal/orderedmap"
	"github.com/grafana/cog/internal/tools"
)

type c15Q map[string]bool

var c15Quirks = map[string][]string{
	"rename_object":     {"rename_object/from-differs-in-case", "rename_object/refs-outside-visitor-positions", "rename_object/collision-overwrites"},
	"add_object":        {"add_object/overwrites-existing", "seq/as-value-shared"},
	"duplicate_object":  {"duplicate_object/source-exact-match", "duplicate_object/overwrites-existing"},
	"retype_object":     {"seq/as-value-shared"},
	"add_fields":        {"seq/as-value-shared"},
	"retype_field":      {"retype_field/first-match-only", "seq/as-value-shared"},
	"replace_reference": {"replace_reference/drops-meta", "replace_reference/refs-outside-visitor-positions"},
	"constant_to_enum":  {"constant_to_enum/drops-meta"},
	"trim_enum_values":  {"trim_enum_values/enums-outside-visitor-positions"},
	"prefix":            {"prefix/refs-outside-visitor-positions", "prefix/enum-member-names-rewritten", "prefix/entrypoint-string-stale"},
}

// ---------- cloning (own code: the oracle does not rely on cog's DeepCopy) ----------

func c15CloneVal(v any) any {
	switch x := v.(type) {
	case []any:
		out := make([]any, len(x))
		for i, e := range x {
			out[i] = c15CloneVal(e)
		}
		return out
	case map[string]any:
		out := map[string]any{}
		for k, e := range x {
			out[k] = c15CloneVal(e)
		}
		return out
	}
	return v
}

// keepNil: keep a nil Hints map nil (a value copy of a type) or re-make it (Type.DeepCopy)
func c15CloneType(t ast.Type, keepNil bool) ast.Type {
	c := ast.Type{Kind: t.Kind, Nullable: t.Nullable, Default: c15CloneVal(t.Default)}
	if t.Hints != nil || !keepNil {
		c.Hints = ast.JenniesHints{}
		for k, v := range t.Hints {
			if d, ok := v.(ast.DisjunctionType); ok {
				nd := ast.DisjunctionType{Discriminator: d.Discriminator, DiscriminatorMapping: map[string]string{}}
				for _, b := range d.Branches {
					nd.Branches = append(nd.Branches, c15CloneType(b, keepNil))
				}
				for mk, mv := range d.DiscriminatorMapping {
					nd.DiscriminatorMapping[mk] = mv
				}
				c.Hints[k] = nd
				continue
			}
			c.Hints[k] = c15CloneVal(v)
		}
	}
	switch {
	case t.Scalar != nil:
		sc := &ast.ScalarType{ScalarKind: t.Scalar.ScalarKind, Value: c15CloneVal(t.Scalar.Value)}
		for _, cst := range t.Scalar.Constraints {
			sc.Constraints = append(sc.Constraints, ast.TypeConstraint{Op: cst.Op, Args: c15CloneVal(cst.Args).([]any)})
		}
		c.Scalar = sc
	case t.Ref != nil:
		r := *t.Ref
		c.Ref = &r
	case t.ConstantReference != nil:
		r := *t.ConstantReference
		r.ReferenceValue = c15CloneVal(r.ReferenceValue)
		c.ConstantReference = &r
	case t.Array != nil:
		c.Array = &ast.ArrayType{ValueType: c15CloneType(t.Array.ValueType, keepNil)}
	case t.Map != nil:
		c.Map = &ast.MapType{IndexType: c15CloneType(t.Map.IndexType, keepNil), ValueType: c15CloneType(t.Map.ValueType, keepNil)}
	case t.Struct != nil:
		st := &ast.StructType{Fields: []ast.StructField{}}
		for _, f := range t.Struct.Fields {
			st.Fields = append(st.Fields, c15CloneField(f, keepNil))
		}
		c.Struct = st
	case t.Enum != nil:
		en := &ast.EnumType{}
		for _, v := range t.Enum.Values {
			en.Values = append(en.Values, ast.EnumValue{Type: c15CloneType(v.Type, keepNil), Name: v.Name, Value: c15CloneVal(v.Value)})
		}
		c.Enum = en
	case t.Disjunction != nil:
		dj := &ast.DisjunctionType{Discriminator: t.Disjunction.Discriminator}
		for _, b := range t.Disjunction.Branches {
			dj.Branches = append(dj.Branches, c15CloneType(b, keepNil))
		}
		if t.Disjunction.DiscriminatorMapping != nil {
			dj.DiscriminatorMapping = map[string]string{}
			for k, v := range t.Disjunction.DiscriminatorMapping {
				dj.DiscriminatorMapping[k] = v
			}
		}
		c.Disjunction = dj
	case t.Intersection != nil:
		in := &ast.IntersectionType{}
		for _, b := range t.Intersection.Branches {
			in.Branches = append(in.Branches, c15CloneType(b, keepNil))
		}
		c.Intersection = in
	case t.ComposableSlot != nil:
		s := *t.ComposableSlot
		c.ComposableSlot = &s
	}
	return c
}

func c15CloneField(f ast.StructField, keepNil bool) ast.StructField {
	return ast.StructField{Name: f.Name, Comments: append([]string(nil), f.Comments...), Type: c15CloneType(f.Type, keepNil), Required: f.Required}
}

func c15CloneObject(o ast.Object, keepNil bool) ast.Object {
	return ast.Object{Name: o.Name, Comments: append([]string(nil), o.Comments...), Type: c15CloneType(o.Type, keepNil), SelfRef: o.SelfRef}
}

func c15CloneSchemas(ss ast.Schemas, keepNil bool) ast.Schemas {
	out := ast.Schemas{}
	for _, s := range ss {
		n := &ast.Schema{Package: s.Package, Metadata: s.Metadata, EntryPoint: s.EntryPoint, EntryPointType: c15CloneType(s.EntryPointType, true), Objects: orderedmap.New[string, ast.Object]()}
		if s.Objects != nil {
			s.Objects.Iterate(func(k string, o ast.Object) { n.Objects.Set(k, c15CloneObject(o, keepNil)) })
		}
		out = append(out, n)
	}
	return out
}

// ---------- walking ----------

// c15Walk calls f on every type node (pre-order), rewriting in place.  all=false restricts the
// walk to the positions cog's Visitor reaches (no map index, no disjunction kept in struct hints).
func c15Walk(t *ast.Type, all bool, f func(t *ast.Type)) {
	f(t)
	switch {
	case t.Kind == ast.KindArray && t.Array != nil:
		c15Walk(&t.Array.ValueType, all, f)
	case t.Kind == ast.KindMap && t.Map != nil:
		if all {
			c15Walk(&t.Map.IndexType, all, f)
		}
		c15Walk(&t.Map.ValueType, all, f)
	case t.Kind == ast.KindStruct && t.Struct != nil:
		for i := range t.Struct.Fields {
			c15Walk(&t.Struct.Fields[i].Type, all, f)
		}
		if all {
			for k, v := range t.Hints {
				if d, ok := v.(ast.DisjunctionType); ok {
					for i := range d.Branches {
						c15Walk(&d.Branches[i], all, f)
					}
					t.Hints[k] = d
				}
			}
		}
	case t.Kind == ast.KindDisjunction && t.Disjunction != nil:
		for i := range t.Disjunction.Branches {
			c15Walk(&t.Disjunction.Branches[i], all, f)
		}
	case t.Kind == ast.KindIntersection && t.Intersection != nil:
		for i := range t.Intersection.Branches {
			c15Walk(&t.Intersection.Branches[i], all, f)
		}
	}
}

// a node whose Kind names a kind struct that is missing (nil pointer): cog dereferences it
func c15NodeBad(x *ast.Type) bool {
	switch x.Kind {
	case ast.KindScalar:
		return x.Scalar == nil
	case ast.KindRef:
		return x.Ref == nil
	case ast.KindConstantRef:
		return x.ConstantReference == nil
	case ast.KindArray:
		return x.Array == nil
	case ast.KindMap:
		return x.Map == nil
	case ast.KindStruct:
		return x.Struct == nil
	case ast.KindEnum:
		return x.Enum == nil
	case ast.KindDisjunction:
		return x.Disjunction == nil
	case ast.KindIntersection:
		return x.Intersection == nil
	case ast.KindComposableSlot:
		return x.ComposableSlot == nil
	}
	return false
}

func c15HasBadType(t ast.Type) bool {
	bad := false
	c15Walk(&t, true, func(x *ast.Type) { bad = bad || c15NodeBad(x) })
	return bad
}

func c15ObjList(s *ast.Schema) []ast.Object {
	out := []ast.Object{}
	s.Objects.Iterate(func(_ string, o ast.Object) { out = append(out, o) })
	return out
}

// rebuild the object map keyed by Name; duplicates: conflict unless overwrite (then Set semantics)
func c15SetObjs(s *ast.Schema, objs []ast.Object, overwrite bool) bool {
	m := orderedmap.New[string, ast.Object]()
	ok := true
	for _, o := range objs {
		if m.Has(o.Name) {
			ok = false
			if !overwrite {
				continue
			}
		}
		m.Set(o.Name, o)
	}
	s.Objects = m
	return ok
}

// ---------- references in parameters ----------

func c15ObjRef(s string) (pkg, obj string, ok bool) {
	p := strings.Split(s, ".")
	if len(p) != 2 {
		return "", "", false
	}
	return p[0], p[1], true
}

func c15FieldRef(s string) (pkg, obj, field string, ok bool) {
	p := strings.Split(s, ".")
	if len(p) != 3 {
		return "", "", "", false
	}
	return p[0], p[1], p[2], true
}

type c15ORef struct{ pkg, obj string }
type c15FRef struct{ pkg, obj, field string }

func (r c15ORef) matches(o ast.Object) bool {
	return o.SelfRef.ReferredPkg == r.pkg && strings.EqualFold(o.SelfRef.ReferredType, r.obj)
}
func (r c15FRef) matches(o ast.Object, f ast.StructField) bool {
	return o.SelfRef.ReferredPkg == r.pkg && strings.EqualFold(o.Name, r.obj) && strings.EqualFold(f.Name, r.field)
}

func c15ORefs(ss []string) ([]c15ORef, bool) {
	out := []c15ORef{}
	for _, s := range ss {
		p, o, ok := c15ObjRef(s)
		if !ok {
			return nil, false
		}
		out = append(out, c15ORef{p, o})
	}
	return out, true
}

func c15FRefs(ss []string) ([]c15FRef, bool) {
	out := []c15FRef{}
	for _, s := range ss {
		p, o, f, ok := c15FieldRef(s)
		if !ok {
			return nil, false
		}
		out = append(out, c15FRef{p, o, f})
	}
	return out, true
}

// does the configuration file load?  (every reference must have the right number of parts)
func c15Loads(st *c15Step) bool {
	ok := true
	chkO := func(s string) {
		if _, _, k := c15ObjRef(s); !k {
			ok = false
		}
	}
	chkF := func(s string) {
		if _, _, _, k := c15FieldRef(s); !k {
			ok = false
		}
	}
	switch st.Name {
	case "rename_object":
		chkO(st.S["from"])
	case "omit", "constant_to_enum":
		for _, s := range st.L["objects"] {
			chkO(s)
		}
	case "omit_fields", "fields_set_required", "fields_set_not_required":
		for _, s := range st.L["fields"] {
			chkF(s)
		}
	case "add_fields":
		chkO(st.S["to"])
	case "add_object", "retype_object", "hint_object":
		chkO(st.S["object"])
	case "duplicate_object":
		chkO(st.S["object"])
		chkO(st.S["as"])
	case "retype_field":
		chkF(st.S["field"])
	case "fields_set_default":
		for _, e := range st.KVs {
			chkF(e.K)
		}
	case "replace_reference":
		chkO(st.S["from"])
		chkO(st.S["to"])
	}
	return ok
}

// ---------- the specification ----------

// c15SpecStep rewrites ss (owned by the caller) and returns the specified status:
// ok | err | panic | conflict (the documentation does not say; a silent "ok" is a failure).
// touched collects "pkg.name" of every object the specification changes, adds or removes.
func c15SpecStep(st *c15Step, ss ast.Schemas, q c15Q, touched map[string]bool) string {
	touch := func(o ast.Object) { touched[o.SelfRef.ReferredPkg+"."+o.Name] = true }
	status := "ok"
	overwrite := q["rename_object/collision-overwrites"] || st.Name == "unspec" // unspec is not part of C15: specified as implemented
	forObjs := func(f func(s *ast.Schema, o ast.Object) (ast.Object, bool)) {
		for _, s := range ss {
			objs := []ast.Object{}
			for _, o := range c15ObjList(s) {
				n, keep := f(s, o)
				if keep {
					objs = append(objs, n)
				}
			}
			if !c15SetObjs(s, objs, overwrite) && !overwrite {
				status = "conflict"
			}
		}
	}
	forTypes := func(all bool, f func(t *ast.Type)) {
		for _, s := range ss {
			c15Walk(&s.EntryPointType, all, f)
			objs := c15ObjList(s)
			for i := range objs {
				before := virType(objs[i].Type)
				c15Walk(&objs[i].Type, all, f)
				if virType(objs[i].Type) != before {
					touch(objs[i])
				}
			}
			c15SetObjs(s, objs, true)
		}
	}
	switch st.Name {
	case "rename_object":
		pkg, obj, _ := c15ObjRef(st.S["from"])
		from := c15ORef{pkg, obj}
		to := st.S["to"]
		renamed := map[string]bool{} // actual names of the renamed objects
		for _, s := range ss {
			for _, o := range c15ObjList(s) {
				if from.matches(o) {
					renamed[o.SelfRef.ReferredType] = true
				}
			}
		}
		all := !q["rename_object/refs-outside-visitor-positions"]
		forTypes(all, func(t *ast.Type) {
			hit := func(p, n string) bool {
				if q["rename_object/from-differs-in-case"] {
					return p == pkg && n == obj
				}
				return p == pkg && renamed[n]
			}
			if t.Kind == ast.KindRef && t.Ref != nil && hit(t.Ref.ReferredPkg, t.Ref.ReferredType) {
				t.Ref.ReferredType = to
			}
			if all && t.Kind == ast.KindConstantRef && t.ConstantReference != nil && hit(t.ConstantReference.ReferredPkg, t.ConstantReference.ReferredType) {
				t.ConstantReference.ReferredType = to
			}
		})
		forObjs(func(_ *ast.Schema, o ast.Object) (ast.Object, bool) {
			if from.matches(o) {
				touch(o)
				o.Name = to
				o.SelfRef.ReferredType = to
				touch(o)
			}
			return o, true
		})
	case "omit":
		refs, _ := c15ORefs(st.L["objects"])
		forObjs(func(_ *ast.Schema, o ast.Object) (ast.Object, bool) {
			for _, r := range refs {
				if r.matches(o) {
					touch(o)
					return o, false
				}
			}
			return o, true
		})
	case "omit_fields":
		refs, _ := c15FRefs(st.L["fields"])
		forObjs(func(_ *ast.Schema, o ast.Object) (ast.Object, bool) {
			if o.Type.Kind != ast.KindStruct || o.Type.Struct == nil {
				return o, true
			}
			kept := []ast.StructField{}
			for _, f := range o.Type.Struct.Fields {
				drop := false
				for _, r := range refs {
					drop = drop || r.matches(o, f)
				}
				if !drop {
					kept = append(kept, f)
				}
			}
			if len(kept) != len(o.Type.Struct.Fields) {
				touch(o)
			}
			o.Type.Struct.Fields = kept
			return o, true
		})
	case "add_fields":
		pkg, obj, _ := c15ObjRef(st.S["to"])
		to := c15ORef{pkg, obj}
		sharedFields := []ast.StructField{}
		for _, nf := range st.Fields {
			sharedFields = append(sharedFields, c15CloneField(nf, true))
		}
		forObjs(func(_ *ast.Schema, o ast.Object) (ast.Object, bool) {
			if !to.matches(o) {
				return o, true
			}
			if o.Type.Kind != ast.KindStruct || o.Type.Struct == nil {
				if status == "ok" {
					status = "err"
				}
				return o, true
			}
			for fi, nf := range st.Fields {
				exists := false
				for _, f := range o.Type.Struct.Fields {
					exists = exists || f.Name == nf.Name
				}
				if !exists {
					if q["seq/as-value-shared"] {
						o.Type.Struct.Fields = append(o.Type.Struct.Fields, sharedFields[fi])
					} else {
						o.Type.Struct.Fields = append(o.Type.Struct.Fields, c15CloneField(nf, true))
					}
					touch(o)
				}
			}
			return o, true
		})
	case "add_object":
		pkg, obj, _ := c15ObjRef(st.S["object"])
		sharedAs := c15CloneType(*st.As, true)
		for _, s := range ss {
			if s.Package != pkg {
				continue
			}
			n := ast.Object{Name: obj, Comments: append([]string(nil), st.Comments...), Type: c15CloneType(*st.As, true), SelfRef: ast.RefType{ReferredPkg: pkg, ReferredType: obj}}
			if q["seq/as-value-shared"] {
				n.Type = sharedAs // several schemas of the same package get the very same Type value
			}
			touch(n)
			if s.Objects.Has(obj) && !q["add_object/overwrites-existing"] {
				status = "conflict"
				continue
			}
			s.Objects.Set(obj, n)
		}
	case "duplicate_object":
		spkg, sobj, _ := c15ObjRef(st.S["object"])
		dpkg, dobj, _ := c15ObjRef(st.S["as"])
		var src *ast.Object
		for _, s := range ss {
			if s.Package != spkg {
				continue
			}
			for _, o := range c15ObjList(s) {
				o := o
				if src == nil && (o.Name == sobj || (!q["duplicate_object/source-exact-match"] && strings.EqualFold(o.Name, sobj))) {
					src = &o
				}
			}
			break
		}
		if src == nil {
			break
		}
		for _, s := range ss {
			if s.Package != dpkg {
				continue
			}
			d := c15CloneObject(*src, false)
			d.Name = dobj
			d.SelfRef = ast.RefType{ReferredPkg: dpkg, ReferredType: dobj}
			if d.Type.Kind == ast.KindStruct && d.Type.Struct != nil && len(st.L["omit_fields"]) > 0 {
				kept := []ast.StructField{}
				for _, f := range d.Type.Struct.Fields {
					if !tools.StringInListEqualFold(f.Name, st.L["omit_fields"]) {
						kept = append(kept, f)
					}
				}
				d.Type.Struct.Fields = kept
			}
			touch(d)
			if s.Objects.Has(dobj) && !q["duplicate_object/overwrites-existing"] {
				status = "conflict"
				continue
			}
			s.Objects.Set(dobj, d)
		}
	case "retype_object":
		pkg, obj, _ := c15ObjRef(st.S["object"])
		ref := c15ORef{pkg, obj}
		shared := c15CloneType(*st.As, true)
		forObjs(func(_ *ast.Schema, o ast.Object) (ast.Object, bool) {
			if ref.matches(o) {
				touch(o)
				o.Type = c15CloneType(*st.As, true)
				if q["seq/as-value-shared"] {
					o.Type = shared // cog assigns the very same Type value (same kind pointers) to every match
				}
				if st.HasComments {
					o.Comments = append([]string(nil), st.Comments...)
				}
			}
			return o, true
		})
	case "retype_field":
		pkg, obj, fld, _ := c15FieldRef(st.S["field"])
		ref := c15FRef{pkg, obj, fld}
		shared := c15CloneType(*st.As, true)
		forObjs(func(_ *ast.Schema, o ast.Object) (ast.Object, bool) {
			if o.Type.Kind != ast.KindStruct || o.Type.Struct == nil {
				return o, true
			}
			for i, f := range o.Type.Struct.Fields {
				if !ref.matches(o, f) {
					continue
				}
				touch(o)
				o.Type.Struct.Fields[i].Type = c15CloneType(*st.As, true)
				if q["seq/as-value-shared"] {
					o.Type.Struct.Fields[i].Type = shared
				}
				if st.HasComments {
					o.Type.Struct.Fields[i].Comments = append([]string(nil), st.Comments...)
				}
				if q["retype_field/first-match-only"] {
					break
				}
			}
			return o, true
		})
	case "fields_set_required", "fields_set_not_required":
		refs, _ := c15FRefs(st.L["fields"])
		req := st.Name == "fields_set_required"
		forObjs(func(_ *ast.Schema, o ast.Object) (ast.Object, bool) {
			if o.Type.Kind != ast.KindStruct || o.Type.Struct == nil {
				return o, true
			}
			for i, f := range o.Type.Struct.Fields {
				for _, r := range refs {
					if r.matches(o, f) {
						touch(o)
						o.Type.Struct.Fields[i].Required = req
						o.Type.Struct.Fields[i].Type.Nullable = !req
					}
				}
			}
			return o, true
		})
	case "fields_set_default":
		// documented (comment in the pass): references are examined in a fixed order — sorted by
		// package, object, field — and the last one that matches wins
		type ent struct {
			r c15FRef
			v any
		}
		ents := []ent{}
		for _, e := range st.KVs {
			p, ob, fl, _ := c15FieldRef(e.K)
			ents = append(ents, ent{c15FRef{p, ob, fl}, e.V})
		}
		sort.SliceStable(ents, func(i, j int) bool {
			a, b := ents[i].r, ents[j].r
			if a.pkg != b.pkg {
				return a.pkg < b.pkg
			}
			if a.obj != b.obj {
				return a.obj < b.obj
			}
			return a.field < b.field
		})
		forObjs(func(_ *ast.Schema, o ast.Object) (ast.Object, bool) {
			if o.Type.Kind != ast.KindStruct || o.Type.Struct == nil {
				return o, true
			}
			for i, f := range o.Type.Struct.Fields {
				for _, e := range ents {
					if e.r.matches(o, f) {
						touch(o)
						o.Type.Struct.Fields[i].Type.Default = c15CloneVal(e.v)
					}
				}
			}
			return o, true
		})
	case "replace_reference":
		fp, fo, _ := c15ObjRef(st.S["from"])
		tp, to, _ := c15ObjRef(st.S["to"])
		forTypes(!q["replace_reference/refs-outside-visitor-positions"], func(t *ast.Type) {
			if t.Kind == ast.KindRef && t.Ref != nil && t.Ref.ReferredPkg == fp && strings.EqualFold(t.Ref.ReferredType, fo) {
				if q["replace_reference/drops-meta"] {
					*t = ast.NewRef(tp, to)
				} else {
					t.Ref = &ast.RefType{ReferredPkg: tp, ReferredType: to}
				}
			}
		})
	case "constant_to_enum":
		refs, _ := c15ORefs(st.L["objects"])
		forObjs(func(_ *ast.Schema, o ast.Object) (ast.Object, bool) {
			hit := false
			for _, r := range refs {
				hit = hit || r.matches(o)
			}
			if !hit || o.Type.Kind != ast.KindScalar || o.Type.Scalar == nil || o.Type.Scalar.Value == nil || o.Type.Scalar.ScalarKind != ast.KindString {
				return o, true
			}
			v, isStr := o.Type.Scalar.Value.(string)
			if !isStr {
				return o, true // a `string` scalar holding a constant of another type is not a string constant
			}
			touch(o)
			n := ast.NewEnum([]ast.EnumValue{{Type: ast.String(), Name: v, Value: v}})
			if !q["constant_to_enum/drops-meta"] {
				n.Nullable, n.Default, n.Hints = o.Type.Nullable, o.Type.Default, o.Type.Hints
			}
			o.Type = n
			return o, true
		})
	case "trim_enum_values":
		forTypes(!q["trim_enum_values/enums-outside-visitor-positions"], func(t *ast.Type) {
			if t.Kind == ast.KindEnum && t.Enum != nil {
				for i, v := range t.Enum.Values {
					if s, ok := v.Value.(string); ok {
						t.Enum.Values[i].Value = strings.TrimSpace(s)
					}
				}
			}
		})
	case "hint_object":
		pkg, obj, _ := c15ObjRef(st.S["object"])
		ref := c15ORef{pkg, obj}
		forObjs(func(_ *ast.Schema, o ast.Object) (ast.Object, bool) {
			if !ref.matches(o) {
				return o, true
			}
			if o.Type.Hints == nil {
				o.Type.Hints = ast.JenniesHints{}
			}
			for _, e := range st.KVs {
				touch(o)
				o.Type.Hints[e.K] = c15CloneVal(e.V)
			}
			return o, true
		})
	case "schema_set_identifier":
		for _, s := range ss {
			if s.Package == st.S["package"] {
				s.Metadata.Identifier = st.S["identifier"]
			}
		}
	case "schema_set_entry_point":
		for _, s := range ss {
			if s.Package == st.S["package"] {
				s.EntryPoint = st.S["entry_point"]
				s.EntryPointType = ast.NewRef(s.Package, st.S["entry_point"])
			}
		}
	case "prefix":
		pfx := st.S["prefix"]
		if pfx == "" {
			break
		}
		all := !q["prefix/refs-outside-visitor-positions"]
		forTypes(all, func(t *ast.Type) {
			switch {
			case t.Kind == ast.KindRef && t.Ref != nil:
				t.Ref.ReferredType = pfx + t.Ref.ReferredType
			case t.Kind == ast.KindConstantRef && t.ConstantReference != nil:
				t.ConstantReference.ReferredType = pfx + t.ConstantReference.ReferredType
			case t.Kind == ast.KindDisjunction && t.Disjunction != nil:
				for k, v := range t.Disjunction.DiscriminatorMapping {
					t.Disjunction.DiscriminatorMapping[k] = pfx + v
				}
			case t.Kind == ast.KindStruct && t.Struct != nil:
				if d, ok := t.Hints[ast.HintDiscriminatedDisjunctionOfRefs].(ast.DisjunctionType); ok {
					for k, v := range d.DiscriminatorMapping {
						d.DiscriminatorMapping[k] = pfx + v
					}
				}
			case t.Kind == ast.KindEnum && t.Enum != nil && q["prefix/enum-member-names-rewritten"]:
				for i, v := range t.Enum.Values {
					t.Enum.Values[i].Name = tools.UpperCamelCase(pfx) + tools.UpperCamelCase(v.Name)
				}
			}
		})
		for _, s := range ss {
			if s.EntryPoint != "" && !q["prefix/entrypoint-string-stale"] {
				s.EntryPoint = pfx + s.EntryPoint
			}
		}
		forObjs(func(_ *ast.Schema, o ast.Object) (ast.Object, bool) {
			touch(o)
			o.Name = pfx + o.Name
			o.SelfRef.ReferredType = o.Name
			touch(o)
			return o, true
		})
	case "append_comment":
		forObjs(func(_ *ast.Schema, o ast.Object) (ast.Object, bool) {
			touch(o)
			o.Comments = append(o.Comments, st.S["comment"])
			return o, true
		})
	case "unspec":
		for _, s := range ss {
			name := s.Package
			if s.Metadata.Identifier != "" {
				name = s.Metadata.Identifier
			}
			objs := []ast.Object{}
			for _, o := range c15ObjList(s) {
				if strings.EqualFold(o.Name, "metadata") {
					touch(o)
					continue
				}
				if strings.EqualFold(o.Name, "spec") && o.Type.Kind == ast.KindStruct {
					touch(o)
					o.Name = name
					o.SelfRef.ReferredType = name
					touch(o)
				}
				objs = append(objs, o)
			}
			if !c15SetObjs(s, objs, overwrite) && !overwrite {
				status = "conflict"
			}
		}
	}
	return status
}

// c15Spec: the whole configuration (load, deep copy, every step in order)
func c15Spec(steps []*c15Step, in ast.Schemas, q c15Q) (ast.Schemas, string, map[string]bool) {
	touched := map[string]bool{}
	for _, st := range steps {
		if !c15Loads(st) {
			return nil, "err", touched
		}
	}
	ss := c15CloneSchemas(in, false)
	for _, st := range steps {
		status := c15SpecStep(st, ss, q, touched)
		if status != "ok" {
			return nil, status, touched
		}
	}
	return ss, "ok", touched
}

// ---------- verdict ----------

func c15Trunc(s string, n int) string {
	if len(s) > n {
		return s[:n] + "…"
	}
	return s
}

func c15FirstDiff(exp, out ast.Schemas, touched map[string]bool) string {
	if len(exp) != len(out) {
		return fmt.Sprintf("frame: %d schemas expected, %d returned", len(exp), len(out))
	}
	for i := range exp {
		e, o := exp[i], out[i]
		if e.Package != o.Package || e.Metadata != o.Metadata {
			return fmt.Sprintf("schema[%d] package/metadata: expected %s %+v, got %s %+v", i, e.Package, e.Metadata, o.Package, o.Metadata)
		}
		if e.EntryPoint != o.EntryPoint {
			return fmt.Sprintf("schema %s entry point: expected %q, got %q", e.Package, e.EntryPoint, o.EntryPoint)
		}
		if a, b := virType(e.EntryPointType), virType(o.EntryPointType); a != b {
			return fmt.Sprintf("schema %s entry point type: expected %s, got %s", e.Package, c15Trunc(a, 160), c15Trunc(b, 160))
		}
		eo, oo := c15ObjList(e), c15ObjList(o)
		for j := 0; j < len(eo) || j < len(oo); j++ {
			if j >= len(eo) {
				return fmt.Sprintf("frame: unexpected extra object %s.%s", o.Package, oo[j].Name)
			}
			kind := "frame"
			if touched[e.Package+"."+eo[j].Name] {
				kind = "effect"
			}
			if j >= len(oo) {
				return fmt.Sprintf("%s: object %s.%s missing from the result", kind, e.Package, eo[j].Name)
			}
			if touched[o.Package+"."+oo[j].Name] {
				kind = "effect"
			}
			if a, b := virObject(eo[j]), virObject(oo[j]); a != b {
				return fmt.Sprintf("%s: object #%d of %s: expected %s, got %s", kind, j, e.Package, c15Trunc(a, 200), c15Trunc(b, 200))
			}
		}
	}
	return "result differs"
}

func c15StepsHaveBad(steps []*c15Step) bool {
	for _, st := range steps {
		if st.As != nil && c15HasBadType(*st.As) {
			return true
		}
		for _, f := range st.Fields {
			if c15HasBadType(f.Type) {
				return true
			}
		}
	}
	return false
}

func c15SchemasHaveBad(ss ast.Schemas) bool {
	for _, s := range ss {
		if c15HasBadType(s.EntryPointType) {
			return true
		}
		for _, o := range c15ObjList(s) {
			if c15HasBadType(o.Type) {
				return true
			}
		}
	}
	return false
}

// c15Verdict compares the real outcome with the specification.
func c15Verdict(steps []*c15Step, in ast.Schemas, status string, out ast.Schemas) string {
	label := steps[0].Name
	if len(steps) > 1 {
		names := []string{}
		for _, st := range steps {
			names = append(names, st.Name)
		}
		label = "seq[" + strings.Join(names, ",") + "]"
	}
	agree := func(q c15Q) (bool, string) {
		exp, es, touched := c15Spec(steps, in, q)
		if es != status {
			return false, fmt.Sprintf("status: specified %s, got %s", es, status)
		}
		if es != "ok" {
			return true, ""
		}
		if virSchemas(exp) == virSchemas(out) {
			return true, ""
		}
		d := c15FirstDiff(exp, out, touched)
		if len(touched) == 0 {
			d = "absent-target " + d
		}
		return false, d
	}
	ok, diff := agree(c15Q{})
	if ok {
		return "ok"
	}
	if c15SchemasHaveBad(in) || c15StepsHaveBad(steps) {
		return "ok" // malformed IR (nil kind pointers): crashes are C04's subject, only the model is compared
	}
	// which quirks could apply?
	names := []string{}
	seen := map[string]bool{}
	for _, st := range steps {
		for _, qn := range c15Quirks[st.Name] {
			if !seen[qn] {
				seen[qn] = true
				names = append(names, qn)
			}
		}
	}
	sort.Strings(names)
	best := ""
	for mask := 1; mask < 1<<len(names); mask++ {
		q := c15Q{}
		sel := []string{}
		for i, n := range names {
			if mask&(1<<i) != 0 {
				q[n] = true
				sel = append(sel, n)
			}
		}
		if ok, _ := agree(q); ok {
			cand := strings.Join(sel, "+")
			if best == "" || len(sel) < strings.Count(best, "+")+1 {
				best = cand
			}
		}
	}
	if best != "" {
		return "FAIL " + label + " explained-by=" + best + " " + diff
	}
	return "FAIL " + label + " unexplained " + diff
}

// ---------- YAML glue: the loaded pass must carry exactly what the file says ----------

func c15CheckLoaded(st *c15Step, p compiler.Pass) string {
	bad := func(what string) string { return "FAIL " + st.Name + " yaml-glue " + what }
	oref := func(s string) compiler.ObjectReference {
		a, b, _ := c15ObjRef(s)
		return compiler.ObjectReference{Package: a, Object: b}
	}
	fref := func(s string) compiler.FieldReference {
		a, b, c, _ := c15FieldRef(s)
		return compiler.FieldReference{Package: a, Object: b, Field: c}
	}
	orefs := func(ss []string, got []compiler.ObjectReference) bool {
		if len(ss) != len(got) {
			return false
		}
		for i := range ss {
			if oref(ss[i]) != got[i] {
				return false
			}
		}
		return true
	}
	frefs := func(ss []string, got []compiler.FieldReference) bool {
		if len(ss) != len(got) {
			return false
		}
		for i := range ss {
			if fref(ss[i]) != got[i] {
				return false
			}
		}
		return true
	}
	sameT := func(got ast.Type) bool { return st.As != nil && c15VirType(got) == c15VirType(*st.As) }
	sameC := func(got []string) bool {
		if !st.HasComments {
			return got == nil
		}
		return got != nil && strings.Join(got, "\x00") == strings.Join(st.Comments, "\x00") && len(got) == len(st.Comments)
	}
	switch x := p.(type) {
	case *compiler.RenameObject:
		if st.Name != "rename_object" || x.From != oref(st.S["from"]) || x.To != st.S["to"] {
			return bad("rename_object")
		}
	case *compiler.Omit:
		if st.Name != "omit" || !orefs(st.L["objects"], x.Objects) {
			return bad("omit")
		}
	case *compiler.OmitFields:
		if st.Name != "omit_fields" || !frefs(st.L["fields"], x.Fields) {
			return bad("omit_fields")
		}
	case *compiler.AddFields:
		if st.Name != "add_fields" || x.Object != oref(st.S["to"]) || len(x.Fields) != len(st.Fields) {
			return bad("add_fields")
		}
		for i := range x.Fields {
			if c15VirField(x.Fields[i]) != c15VirField(st.Fields[i]) {
				return bad("add_fields field " + st.Fields[i].Name)
			}
		}
	case *compiler.AddObject:
		if st.Name != "add_object" || x.Object != oref(st.S["object"]) || !sameT(x.As) || !sameC(x.Comments) {
			return bad("add_object")
		}
	case *compiler.DuplicateObject:
		if st.Name != "duplicate_object" || x.Object != oref(st.S["object"]) || x.As != oref(st.S["as"]) || strings.Join(x.OmitFields, ",") != strings.Join(st.L["omit_fields"], ",") {
			return bad("duplicate_object")
		}
	case *compiler.RetypeObject:
		if st.Name != "retype_object" || x.Object != oref(st.S["object"]) || !sameT(x.As) || !sameC(x.Comments) {
			return bad("retype_object")
		}
	case *compiler.RetypeField:
		if st.Name != "retype_field" || x.Field != fref(st.S["field"]) || !sameT(x.As) || !sameC(x.Comments) {
			return bad("retype_field")
		}
	case *compiler.FieldsSetRequired:
		if st.Name != "fields_set_required" || !frefs(st.L["fields"], x.Fields) {
			return bad("fields_set_required")
		}
	case *compiler.FieldsSetNotRequired:
		if st.Name != "fields_set_not_required" || !frefs(st.L["fields"], x.Fields) {
			return bad("fields_set_not_required")
		}
	case *compiler.FieldsSetDefault:
		if st.Name != "fields_set_default" || len(x.DefaultValues) != len(st.KVs) {
			return bad("fields_set_default")
		}
		for _, e := range st.KVs {
			v, ok := x.DefaultValues[fref(e.K)]
			if !ok || virVal(v) != virVal(e.V) {
				return bad("fields_set_default " + e.K)
			}
		}
	case *compiler.ReplaceReference:
		if st.Name != "replace_reference" || x.From != oref(st.S["from"]) || x.To != oref(st.S["to"]) {
			return bad("replace_reference")
		}
	case *compiler.ConstantToEnum:
		if st.Name != "constant_to_enum" || !orefs(st.L["objects"], x.Objects) {
			return bad("constant_to_enum")
		}
	case *compiler.TrimEnumValues:
		if st.Name != "trim_enum_values" {
			return bad("trim_enum_values")
		}
	case *compiler.HintObject:
		if st.Name != "hint_object" || x.Object != oref(st.S["object"]) || len(x.Hints) != len(st.KVs) {
			return bad("hint_object")
		}
		for _, e := range st.KVs {
			v, ok := x.Hints[e.K]
			if !ok || virVal(v) != virVal(e.V) {
				return bad("hint_object " + e.K)
			}
		}
	case *compiler.SchemaSetIdentifier:
		if st.Name != "schema_set_identifier" || x.Package != st.S["package"] || x.Identifier != st.S["identifier"] {
			return bad("schema_set_identifier")
		}
	case *compiler.SchemaSetEntrypoint:
		if st.Name != "schema_set_entry_point" || x.Package != st.S["package"] || x.EntryPoint != st.S["entry_point"] {
			return bad("schema_set_entry_point")
		}
	case *compiler.Unspec:
		if st.Name != "unspec" {
			return bad("unspec")
		}
	case *compiler.PrefixObjectNames:
		if st.Name != "prefix" || x.Prefix != st.S["prefix"] {
			return bad("prefix")
		}
	case *compiler.AppendCommentObjects:
		if st.Name != "append_comment" || x.Comment != st.S["comment"] {
			return bad("append_comment")
		}
	default:
		return bad(fmt.Sprintf("unexpected pass type %T", p))
	}
	return ""
}
