package main

// C06: one-step-smaller variants of an IR (the check drives delta debugging with them, keeping
// whatever failure it is minimising: an oracle failure or a model/implementation disagreement).
// Variants, in order of decreasing gain: drop a schema, drop an object, and for every type node:
// replace it by `string`, by one of its children, drop one field / branch, clear its options;
// plus clearing comments, entry points and schema metadata.

import (
	"github.com/grafana/cog/internal/ast"
	"github.com/grafana/cog/internal/orderedmap"
)

func c06IsPlainString(t ast.Type) bool {
	return t.Kind == ast.KindScalar && t.Scalar != nil && t.Scalar.ScalarKind == ast.KindString && t.Scalar.Value == nil &&
		len(t.Scalar.Constraints) == 0 && !t.Nullable && t.Default == nil && len(t.Hints) == 0
}

// c06NodeVariants: smaller replacements of the node itself (children untouched)
func c06NodeVariants(t ast.Type) []ast.Type {
	out := []ast.Type{}
	if !c06IsPlainString(t) {
		out = append(out, ast.String())
	}
	switch t.Kind {
	case ast.KindArray:
		if t.Array != nil {
			out = append(out, t.Array.ValueType)
		}
	case ast.KindMap:
		if t.Map != nil {
			out = append(out, t.Map.ValueType, t.Map.IndexType)
		}
	case ast.KindStruct:
		if t.Struct != nil {
			for i, f := range t.Struct.Fields {
				out = append(out, f.Type)
				c := t.DeepCopy()
				c.Struct.Fields = append(c.Struct.Fields[:i:i], c.Struct.Fields[i+1:]...)
				out = append(out, c)
				if len(f.Comments) > 0 || f.Required {
					c2 := t.DeepCopy()
					c2.Struct.Fields[i].Comments = nil
					c2.Struct.Fields[i].Required = false
					out = append(out, c2)
				}
			}
		}
	case ast.KindDisjunction:
		if t.Disjunction != nil {
			for i, b := range t.Disjunction.Branches {
				out = append(out, b)
				if len(t.Disjunction.Branches) <= 2 {
					continue // keep shrunk cases realistic: a union has at least two branches
				}
				c := t.DeepCopy()
				c.Disjunction.Branches = append(c.Disjunction.Branches[:i:i], c.Disjunction.Branches[i+1:]...)
				out = append(out, c)
			}
			if t.Disjunction.Discriminator != "" || len(t.Disjunction.DiscriminatorMapping) > 0 {
				c := t.DeepCopy()
				c.Disjunction.Discriminator = ""
				c.Disjunction.DiscriminatorMapping = map[string]string{}
				out = append(out, c)
			}
		}
	case ast.KindIntersection:
		if t.Intersection != nil {
			for i, b := range t.Intersection.Branches {
				out = append(out, b)
				c := t.DeepCopy()
				c.Intersection.Branches = append(c.Intersection.Branches[:i:i], c.Intersection.Branches[i+1:]...)
				out = append(out, c)
			}
		}
	case ast.KindEnum:
		if t.Enum != nil && len(t.Enum.Values) > 1 {
			for i := range t.Enum.Values {
				c := t.DeepCopy()
				c.Enum.Values = append(c.Enum.Values[:i:i], c.Enum.Values[i+1:]...)
				out = append(out, c)
			}
		}
	case ast.KindScalar:
		if t.Scalar != nil && (len(t.Scalar.Constraints) > 0) {
			c := t.DeepCopy()
			c.Scalar.Constraints = nil
			out = append(out, c)
		}
	}
	if t.Nullable || t.Default != nil || len(t.Hints) > 0 {
		c := t.DeepCopy()
		c.Nullable = false
		c.Default = nil
		c.Hints = ast.JenniesHints{}
		if st, ok := t.Hints[ast.HintDisjunctionOfScalars]; ok && t.Kind == ast.KindStruct {
			c.Hints[ast.HintDisjunctionOfScalars] = st
		}
		if st, ok := t.Hints[ast.HintDiscriminatedDisjunctionOfRefs]; ok && t.Kind == ast.KindStruct {
			c.Hints[ast.HintDiscriminatedDisjunctionOfRefs] = st
		}
		out = append(out, c)
	}
	return out
}

// c06CountNodes / c06ReplaceNode address type nodes in pre-order
func c06CountNodes(t ast.Type) int {
	n := 1
	switch t.Kind {
	case ast.KindArray:
		if t.Array != nil {
			n += c06CountNodes(t.Array.ValueType)
		}
	case ast.KindMap:
		if t.Map != nil {
			n += c06CountNodes(t.Map.IndexType) + c06CountNodes(t.Map.ValueType)
		}
	case ast.KindStruct:
		if t.Struct != nil {
			for _, f := range t.Struct.Fields {
				n += c06CountNodes(f.Type)
			}
		}
	case ast.KindDisjunction:
		if t.Disjunction != nil {
			for _, b := range t.Disjunction.Branches {
				n += c06CountNodes(b)
			}
		}
	case ast.KindIntersection:
		if t.Intersection != nil {
			for _, b := range t.Intersection.Branches {
				n += c06CountNodes(b)
			}
		}
	}
	return n
}

// c06AtNode applies f to the k-th node (pre-order) of a deep copy of t
func c06AtNode(t ast.Type, k *int, f func(ast.Type) ast.Type) ast.Type {
	if *k == 0 {
		*k = -1
		return f(t)
	}
	if *k < 0 {
		return t
	}
	*k--
	switch t.Kind {
	case ast.KindArray:
		if t.Array != nil {
			t.Array.ValueType = c06AtNode(t.Array.ValueType, k, f)
		}
	case ast.KindMap:
		if t.Map != nil {
			t.Map.IndexType = c06AtNode(t.Map.IndexType, k, f)
			t.Map.ValueType = c06AtNode(t.Map.ValueType, k, f)
		}
	case ast.KindStruct:
		if t.Struct != nil {
			for i := range t.Struct.Fields {
				t.Struct.Fields[i].Type = c06AtNode(t.Struct.Fields[i].Type, k, f)
			}
		}
	case ast.KindDisjunction:
		if t.Disjunction != nil {
			for i := range t.Disjunction.Branches {
				t.Disjunction.Branches[i] = c06AtNode(t.Disjunction.Branches[i], k, f)
			}
		}
	case ast.KindIntersection:
		if t.Intersection != nil {
			for i := range t.Intersection.Branches {
				t.Intersection.Branches[i] = c06AtNode(t.Intersection.Branches[i], k, f)
			}
		}
	}
	return t
}

func c06CopySchemas(ss ast.Schemas) ast.Schemas { return ast.Schemas(ss).DeepCopy() }

func c06Candidates(ss ast.Schemas, max int) []ast.Schemas {
	out := []ast.Schemas{}
	add := func(c ast.Schemas) bool {
		if c06HasCycle(c) {
			return len(out) < max
		}
		out = append(out, c)
		return len(out) < max
	}
	// drop a schema
	if len(ss) > 1 {
		for i := range ss {
			c := c06CopySchemas(ss)
			c = append(c[:i:i], c[i+1:]...)
			if !add(c) {
				return out
			}
		}
	}
	// drop an object
	for si, s := range ss {
		keys := []string{}
		s.Objects.Iterate(func(k string, _ ast.Object) { keys = append(keys, k) })
		for _, k := range keys {
			c := c06CopySchemas(ss)
			nm := orderedmap.New[string, ast.Object]()
			c[si].Objects.Iterate(func(k2 string, o ast.Object) {
				if k2 != k {
					nm.Set(k2, o)
				}
			})
			c[si].Objects = nm
			if !add(c) {
				return out
			}
		}
	}
	// schema-level noise
	for si, s := range ss {
		if s.EntryPoint != "" || s.EntryPointType.Kind != "" || s.Metadata.Kind != "" || s.Metadata.Identifier != "" {
			c := c06CopySchemas(ss)
			c[si].EntryPoint = ""
			c[si].EntryPointType = ast.Type{}
			c[si].Metadata = ast.SchemaMeta{}
			if !add(c) {
				return out
			}
		}
	}
	// node edits
	for si, s := range ss {
		keys := []string{}
		s.Objects.Iterate(func(k string, _ ast.Object) { keys = append(keys, k) })
		for _, k := range keys {
			obj := s.Objects.Get(k)
			if len(obj.Comments) > 0 {
				c := c06CopySchemas(ss)
				o := c[si].Objects.Get(k)
				o.Comments = nil
				c[si].Objects.Set(k, o)
				if !add(c) {
					return out
				}
			}
			n := c06CountNodes(obj.Type)
			for node := 0; node < n; node++ {
				// how many variants does this node have?
				var variants []ast.Type
				probe := node
				c06AtNode(obj.Type.DeepCopy(), &probe, func(t ast.Type) ast.Type { variants = c06NodeVariants(t); return t })
				for vi := range variants {
					c := c06CopySchemas(ss)
					o := c[si].Objects.Get(k)
					idx := node
					o.Type = c06AtNode(o.Type, &idx, func(t ast.Type) ast.Type { return c06NodeVariants(t)[vi] })
					c[si].Objects.Set(k, o)
					if !add(c) {
						return out
					}
				}
			}
		}
	}
	return out
}
