package main

// Type-directed random generator of cog IR (ast.Schemas), shared by the IR-level streams.
// Every choice derives from the rng; see DESIGN.md 2.3 for the intended distribution.

import (
	"encoding/json"
	"fmt"

	"github.com/grafana/cog/internal/ast"
)

type irGenOpts struct {
	maxPkgs    int
	maxObjs    int
	maxDepth   int
	malformed  bool // allow dangling refs (5%), bad nodes, alias cycles
	crossPkg   bool
	withHints  bool
	onlyKinds  []ast.Kind // restrict top-level kinds when non-empty
	noDisj     bool
	noInter    bool
	noSlot     bool
	nameCollisions bool
}

var irPkgNames = []string{"p", "q", "r"}
var irObjNames = []string{"Foo", "foo", "Bar", "Baz", "Qux", "spec", "metadata", "Kind", "A", "B", "C", "D", "FOO", "Spec"}
var irFieldNames = []string{"a", "b", "kind", "type", "name", "Value", "value", "items", "spec", "x_y", "xY"}
var irEnumNames = []string{"A", "b", "", "1", "-1", "+x", "foo bar", "Foo", "N2"}
var irScalarKinds = []ast.ScalarKind{ast.KindString, ast.KindString, ast.KindBool, ast.KindInt64, ast.KindInt32, ast.KindUint8,
	ast.KindFloat64, ast.KindFloat32, ast.KindAny, ast.KindBytes, ast.KindUint64, ast.KindInt8, ast.KindInt16, ast.KindUint16, ast.KindUint32}

type irGen struct {
	r    *rng
	o    irGenOpts
	pkgs []string
	cur  string
	objs map[string][]string // pkg -> planned object names
}

func (g *irGen) val(depth int) any {
	switch g.r.intn(12) {
	case 0:
		return nil
	case 1:
		return g.r.chance(50)
	case 2:
		return int64(g.r.intn(200) - 50)
	case 3:
		return float64(g.r.intn(100)) / 4
	case 4:
		return json.Number(fmt.Sprintf("%d", g.r.intn(100)))
	case 5, 6:
		return pick(g.r, []string{"", "a", "foo", "Foo", "x y", "1"})
	case 7:
		if depth > 1 {
			return "deep"
		}
		n := g.r.intn(3)
		l := make([]any, 0, n)
		for i := 0; i < n; i++ {
			l = append(l, g.val(depth+1))
		}
		return l
	case 8:
		if depth > 1 {
			return int64(7)
		}
		m := map[string]any{}
		for i := g.r.intn(3); i > 0; i-- {
			m[pick(g.r, irFieldNames)] = g.val(depth + 1)
		}
		return m
	case 9:
		return uint64(g.r.intn(10))
	case 10:
		return g.r.intn(10)
	default:
		return "s"
	}
}

func (g *irGen) scalarVal(kind ast.ScalarKind) any {
	switch kind {
	case ast.KindString:
		return pick(g.r, []string{"", "a", "foo", "Foo"})
	case ast.KindBool:
		return g.r.chance(50)
	case ast.KindFloat32, ast.KindFloat64:
		return float64(g.r.intn(40)) / 4
	case ast.KindAny, ast.KindBytes, ast.KindNull:
		return nil
	default:
		return int64(g.r.intn(20))
	}
}

func (g *irGen) refTarget() (string, string) {
	pkg := g.cur
	if g.o.crossPkg && g.r.chance(15) {
		pkg = pick(g.r, g.pkgs)
	}
	names := g.objs[pkg]
	if g.o.malformed && g.r.chance(5) || len(names) == 0 {
		if g.o.malformed {
			return pick(g.r, []string{pkg, "nopkg"}), pick(g.r, []string{"Missing", "foo", "Nope"})
		}
	}
	if len(names) == 0 {
		return pkg, "Foo"
	}
	return pkg, pick(g.r, names)
}

func (g *irGen) opts(t ast.Type, depth int) ast.Type {
	if g.r.chance(20) {
		t.Nullable = true
	}
	if g.r.chance(15) {
		if t.Kind == ast.KindScalar && g.r.chance(70) {
			t.Default = g.scalarVal(t.Scalar.ScalarKind)
		} else {
			t.Default = g.val(0)
		}
	}
	if g.o.withHints && g.r.chance(8) {
		if t.Hints == nil {
			t.Hints = ast.JenniesHints{}
		}
		t.Hints[pick(g.r, []string{"kind", "string_format_datetime", "custom"})] = pick(g.r, []any{"type", true, "x", int64(1)})
	}
	return t
}

func (g *irGen) scalar() ast.Type {
	kind := pick(g.r, irScalarKinds)
	t := ast.NewScalar(kind)
	if g.r.chance(15) && kind != ast.KindAny && kind != ast.KindBytes {
		t.Scalar.Value = g.scalarVal(kind)
	}
	if g.r.chance(20) {
		switch kind {
		case ast.KindString:
			t.Scalar.Constraints = append(t.Scalar.Constraints, ast.TypeConstraint{Op: pick(g.r, []ast.Op{ast.MinLengthOp, ast.MaxLengthOp}), Args: []any{int64(g.r.intn(10))}})
		case ast.KindBool, ast.KindAny, ast.KindBytes:
		default:
			t.Scalar.Constraints = append(t.Scalar.Constraints, ast.TypeConstraint{Op: pick(g.r, []ast.Op{ast.GreaterThanEqualOp, ast.LessThanOp, ast.LessThanEqualOp, ast.GreaterThanOp}), Args: []any{int64(g.r.intn(100))}})
		}
	}
	return t
}

func (g *irGen) enum() ast.Type {
	n := 1 + g.r.intn(3)
	vals := []ast.EnumValue{}
	ints := g.r.chance(30)
	for i := 0; i < n; i++ {
		name := pick(g.r, irEnumNames)
		if !g.o.malformed && name == "" {
			name = "E"
		}
		if ints {
			vals = append(vals, ast.EnumValue{Type: ast.NewScalar(ast.KindInt64), Name: name, Value: int64(i)})
		} else {
			vals = append(vals, ast.EnumValue{Type: ast.String(), Name: name, Value: pick(g.r, []string{"a", "b", "", "foo", "Foo"})})
		}
	}
	return ast.NewEnum(vals)
}

func (g *irGen) structType(depth int) ast.Type {
	n := g.r.intn(4)
	if depth == 0 && n == 0 {
		n = 1
	}
	fields := []ast.StructField{}
	used := map[string]bool{}
	for i := 0; i < n; i++ {
		name := pick(g.r, irFieldNames)
		if used[name] {
			continue
		}
		used[name] = true
		f := ast.NewStructField(name, g.ty(depth+1))
		f.Required = g.r.chance(50)
		if g.r.chance(15) {
			f.Comments = []string{pick(g.r, []string{"a comment", "TODO", ""})}
		}
		fields = append(fields, f)
	}
	return ast.NewStruct(fields...)
}

func (g *irGen) ty(depth int) ast.Type {
	leaf := depth >= g.o.maxDepth
	n := g.r.intn(100)
	var t ast.Type
	switch {
	case n < 30 || (leaf && n < 55):
		t = g.scalar()
	case n < 50 || leaf:
		pkg, name := g.refTarget()
		t = ast.NewRef(pkg, name)
	case n < 60:
		t = ast.NewArray(g.ty(depth + 1))
	case n < 67:
		idx := ast.String()
		if g.r.chance(10) {
			idx = g.ty(g.o.maxDepth)
		}
		t = ast.NewMap(idx, g.ty(depth+1))
	case n < 77:
		t = g.structType(depth + 1)
	case n < 83:
		t = g.enum()
	case n < 93 && !g.o.noDisj:
		nb := 2 + g.r.intn(2)
		branches := ast.Types{}
		for i := 0; i < nb; i++ {
			if g.r.chance(12) {
				branches = append(branches, ast.Null())
			} else {
				branches = append(branches, g.ty(depth+1))
			}
		}
		t = ast.NewDisjunction(branches)
		if g.r.chance(25) {
			t.Disjunction.Discriminator = pick(g.r, []string{"kind", "type"})
			if g.r.chance(50) {
				t.Disjunction.DiscriminatorMapping = map[string]string{}
				for _, b := range branches {
					if b.IsRef() && b.Ref != nil {
						t.Disjunction.DiscriminatorMapping[pick(g.r, []string{"k1", "k2", "k3"})] = b.Ref.ReferredType
					}
				}
			}
		}
	case n < 96 && !g.o.noInter:
		nb := 1 + g.r.intn(2)
		branches := []ast.Type{}
		for i := 0; i < nb; i++ {
			if g.r.chance(50) {
				pkg, name := g.refTarget()
				branches = append(branches, ast.NewRef(pkg, name))
			} else {
				branches = append(branches, g.structType(depth+1))
			}
		}
		t = ast.NewIntersection(branches)
	case n < 98:
		pkg, name := g.refTarget()
		t = ast.NewConstantReferenceType(pkg, name, pick(g.r, []any{"a", "foo", int64(1)}))
	case n < 99 && !g.o.noSlot:
		t = ast.NewComposableSlot(ast.SchemaVariantDataQuery)
	default:
		if g.o.malformed && g.r.chance(50) {
			t = ast.Type{Kind: pick(g.r, []ast.Kind{ast.KindStruct, ast.KindArray, ast.KindRef, ast.KindScalar, ast.KindEnum, ""})}
			return t
		}
		t = g.scalar()
	}
	return g.opts(t, depth)
}

func (g *irGen) topType() ast.Type {
	n := g.r.intn(100)
	switch {
	case n < 50:
		t := g.structType(0)
		return t
	case n < 60:
		return g.enum()
	default:
		return g.ty(0)
	}
}

func genSchemas(r *rng, o irGenOpts) ast.Schemas {
	g := &irGen{r: r, o: o, objs: map[string][]string{}}
	np := 1 + r.intn(o.maxPkgs)
	for i := 0; i < np; i++ {
		g.pkgs = append(g.pkgs, irPkgNames[i])
	}
	for _, p := range g.pkgs {
		n := 1 + r.intn(o.maxObjs)
		seen := map[string]bool{}
		for i := 0; i < n; i++ {
			name := pick(r, irObjNames)
			if seen[name] {
				continue
			}
			seen[name] = true
			g.objs[p] = append(g.objs[p], name)
		}
	}
	schemas := ast.Schemas{}
	for _, cur := range g.pkgs {
		g.cur = cur // refs are biased towards the package being generated
		sch := ast.NewSchema(cur, ast.SchemaMeta{})
		if r.chance(15) {
			sch.Metadata.Kind = pick(r, []ast.SchemaKind{ast.SchemaKindCore, ast.SchemaKindComposable})
			if sch.Metadata.Kind == ast.SchemaKindComposable {
				sch.Metadata.Variant = pick(r, []ast.SchemaVariant{ast.SchemaVariantDataQuery, ast.SchemaVariantPanel})
			}
			sch.Metadata.Identifier = pick(r, []string{"", "ident"})
		}
		for _, name := range g.objs[cur] {
			obj := ast.NewObject(cur, name, g.topType())
			if r.chance(15) {
				obj.Comments = []string{"object comment"}
			}
			sch.AddObject(obj)
		}
		if r.chance(25) && len(g.objs[cur]) > 0 {
			ep := pick(r, g.objs[cur])
			sch.EntryPoint = ep
			sch.EntryPointType = ast.NewRef(cur, ep)
		}
		schemas = append(schemas, sch)
	}
	return schemas
}

func defaultIRGenOpts(tier string) irGenOpts {
	o := irGenOpts{maxPkgs: 2, maxObjs: 5, maxDepth: 3, crossPkg: true, withHints: true}
	if tier == "thorough" {
		o.maxPkgs, o.maxObjs, o.maxDepth = 3, 7, 5
	}
	return o
}
