package main

// C05: "after parsing ANY schema" — the front-ends driven the way cog's pipeline/config drives them
// (codegen.Input → JSONSchemaInput / OpenAPIInput / CueInput with the cue, kindsys_core and
// kindsys_composable loaders), crossing INPUT SHAPES with the LOADER OPTIONS the input structs offer.
//
// A case is self-contained:
//     c05popt ((<relative path> <text>) …) ((<kind> "key=value" …) …)
// a set of files (written below a private temporary directory) and a list of inputs, loaded in
// order and concatenated like Pipeline.LoadSchemas does; kinds:
//     jsonschema openapi           path=<file> [pkg=] (no pkg: guessed from the file name, as cog does)
//     cue kindsys_core kindsys_composable
//                                  value=<file> (compiled in memory → CueInput.Value) or entry=<dir>
//                                  [pkg=] [envelope=] [namefunc=prefix|path] [inline=true]
//                                  [import=<dir>:<import path>]…
//     every kind                   [allowed=A,B] [meta=<kind>/<variant>/<identifier>] [novalidate=true]
//                                  [expect=loads]: a pinned well-formed text that has to load (a load error
//                                  is then a failure of the case: the pin would silently stop being judged)
// The oracle is the one of every C05 stream: `Closed` on the resulting IR, entry point included
// (EntryPoint names an object of its schema, EntryPointType resolves).

import (
	"bufio"
	"context"
	"fmt"
	"os"
	"path/filepath"
	"sort"
	"strings"
	"time"

	"cuelang.org/go/cue"
	"cuelang.org/go/cue/cuecontext"
	"github.com/grafana/cog/internal/ast"
	"github.com/grafana/cog/internal/codegen"
)

type c05PFile struct{ path, text string }

type c05PInput struct {
	kind string
	opts []string // "key=value"
}

func (in c05PInput) get(key string) string {
	for _, o := range in.opts {
		if k, v, _ := strings.Cut(o, "="); k == key {
			return v
		}
	}
	return ""
}

func (in c05PInput) all(key string) []string {
	out := []string{}
	for _, o := range in.opts {
		if k, v, _ := strings.Cut(o, "="); k == key {
			out = append(out, v)
		}
	}
	return out
}

func (in c05PInput) with(opts ...string) c05PInput {
	return c05PInput{kind: in.kind, opts: append(append([]string{}, in.opts...), opts...)}
}

func c05PText(c *c05Case) string {
	fs := []string{}
	for _, f := range c.files {
		fs = append(fs, "("+virQuote(f.path)+" "+virQuote(f.text)+")")
	}
	ins := []string{}
	for _, in := range c.inputs {
		ins = append(ins, strings.TrimSpace("("+in.kind+" "+strings.Join(mapStr(in.opts, virQuote), " "))+")")
	}
	return "c05popt (" + strings.Join(fs, " ") + ") (" + strings.Join(ins, " ") + ")"
}

func mapStr(xs []string, f func(string) string) []string {
	out := make([]string, 0, len(xs))
	for _, x := range xs {
		out = append(out, f(x))
	}
	return out
}

func c05PParse(c *c05Case, rest string) error {
	xs, err := c05ParseSexps(rest)
	if err != nil || len(xs) != 2 || xs[0].kind != 'l' || xs[1].kind != 'l' {
		return fmt.Errorf("bad c05popt case")
	}
	d := &c05Dec{}
	for _, f := range xs[0].list {
		if f.kind != 'l' || len(f.list) != 2 {
			return fmt.Errorf("bad file entry")
		}
		c.files = append(c.files, c05PFile{d.str(f.list[0]), d.str(f.list[1])})
	}
	for _, x := range xs[1].list {
		if x.kind != 'l' || len(x.list) == 0 || x.list[0].kind != 'a' {
			return fmt.Errorf("bad input entry")
		}
		in := c05PInput{kind: x.list[0].text}
		for _, o := range x.list[1:] {
			in.opts = append(in.opts, d.str(o))
		}
		c.inputs = append(c.inputs, in)
	}
	return d.err
}

func c05PClone(c *c05Case) *c05Case {
	n := *c
	n.files = append([]c05PFile{}, c.files...)
	n.inputs = nil
	for _, in := range c.inputs {
		n.inputs = append(n.inputs, in.with())
	}
	return &n
}

// ---- the naming strategies handed to CueInput.NameFunc ----

func c05PLabel(sel cue.Selector) string {
	if sel.Type().ConstraintType() == cue.PatternConstraint {
		return "any"
	}
	switch sel.LabelType() {
	case cue.StringLabel:
		return sel.Unquoted()
	case cue.DefinitionLabel:
		return sel.String()[1:]
	}
	return strings.Trim(sel.String(), "#_?!\"")
}

func c05PNameFunc(style string) func(cue.Value, cue.Path) string {
	switch style {
	case "prefix": // what a caller does to avoid collisions between modules
		return func(_ cue.Value, p cue.Path) string {
			sels := p.Selectors()
			return "X" + c05PLabel(sels[len(sels)-1])
		}
	case "path": // the whole path names the object
		return func(_ cue.Value, p cue.Path) string {
			parts := []string{}
			for _, s := range p.Selectors() {
				parts = append(parts, c05PLabel(s))
			}
			return strings.Join(parts, "_")
		}
	}
	return nil
}

// ---- running the real loaders ----

func c05PLoadOne(root string, in c05PInput, allowed []string) (ast.Schemas, error) {
	base := codegen.InputBase{AllowedObjects: allowed}
	if m := in.get("meta"); m != "" {
		parts := strings.SplitN(m+"//", "/", 4)
		base.Metadata = &ast.SchemaMeta{Kind: ast.SchemaKind(parts[0]), Variant: ast.SchemaVariant(parts[1]), Identifier: parts[2]}
	}
	abs := func(rel string) string { return filepath.Join(root, filepath.FromSlash(rel)) }
	input := &codegen.Input{}
	switch in.kind {
	case "jsonschema":
		input.JSONSchema = &codegen.JSONSchemaInput{InputBase: base, Path: abs(in.get("path")), Package: in.get("pkg")}
	case "openapi":
		input.OpenAPI = &codegen.OpenAPIInput{InputBase: base, Path: abs(in.get("path")), Package: in.get("pkg"), NoValidate: in.get("novalidate") == "true"}
	case "cue", "kindsys_core", "kindsys_composable":
		ci := &codegen.CueInput{InputBase: base, Package: in.get("pkg"), ForcedEnvelope: in.get("envelope"),
			InlineExternalReference: in.get("inline") == "true"}
		if nf := c05PNameFunc(in.get("namefunc")); nf != nil {
			ci.NameFunc = nf
		}
		for _, imp := range in.all("import") {
			dir, path, _ := strings.Cut(imp, ":")
			ci.CueImports = append(ci.CueImports, abs(dir)+":"+path)
		}
		if f := in.get("value"); f != "" {
			raw, err := os.ReadFile(abs(f))
			if err != nil {
				return nil, err
			}
			v := cuecontext.New().CompileString(string(raw))
			if v.Err() != nil {
				return nil, v.Err()
			}
			ci.Value = &v
		} else {
			ci.Entrypoint = abs(in.get("entry"))
		}
		switch in.kind {
		case "cue":
			input.Cue = ci
		case "kindsys_core":
			input.KindsysCore = ci
		default:
			input.KindsysComposable = ci
		}
	default:
		return nil, fmt.Errorf("unknown input kind %q", in.kind)
	}
	return input.LoadSchemas(context.Background())
}

// c05PLoad loads every input of the case (dropAllowed: without the `allowed_objects` restriction);
// a load that does not come back within the time limit is reported as `timeout` (termination is
// property C04's business; the stream must go on)
func c05PLoad(c *c05Case, dropAllowed bool) c05Run {
	if os.Getenv("C05_TRACE") != "" {
		fmt.Fprintln(os.Stderr, "c05popt:", c05PText(c))
	}
	done := make(chan c05Run, 1)
	go func() { done <- c05PLoad0(c, dropAllowed) }()
	select {
	case r := <-done:
		return r
	case <-time.After(20 * time.Second):
		return c05Run{status: "timeout", detail: "no answer from the loader within 20s"}
	}
}

func c05PLoad0(c *c05Case, dropAllowed bool) (res c05Run) {
	defer func() {
		if r := recover(); r != nil {
			res = c05Run{status: "panic", detail: fmt.Sprint(r)}
		}
	}()
	root, err := os.MkdirTemp(c05WorkDir, "c05popt")
	if err != nil {
		return c05Run{status: "err", detail: err.Error()}
	}
	defer os.RemoveAll(root)
	for _, f := range c.files {
		p := filepath.Join(root, filepath.FromSlash(f.path))
		if !strings.HasPrefix(p, root+string(filepath.Separator)) {
			return c05Run{status: "err", detail: "file outside the case directory"}
		}
		if err := os.MkdirAll(filepath.Dir(p), 0o755); err != nil {
			return c05Run{status: "err", detail: err.Error()}
		}
		if err := os.WriteFile(p, []byte(f.text), 0o644); err != nil {
			return c05Run{status: "err", detail: err.Error()}
		}
	}
	all := ast.Schemas{}
	for _, in := range c.inputs {
		var allowed []string
		if a := in.get("allowed"); a != "" && !dropAllowed {
			allowed = strings.Split(a, ",")
		}
		ss, err := c05PLoadOne(root, in, allowed)
		if err != nil {
			return c05Run{status: "err", detail: strings.ReplaceAll(err.Error(), root, "<dir>")}
		}
		all = append(all, ss...)
	}
	return c05Run{status: "ok", out: all}
}

func c05POptKeys(c *c05Case) string {
	set := map[string]bool{}
	for _, in := range c.inputs {
		for _, o := range in.opts {
			k, _, _ := strings.Cut(o, "=")
			if k != "path" && k != "value" && k != "entry" && k != "expect" {
				set[k] = true
			}
		}
	}
	ks := []string{}
	for k := range set {
		ks = append(ks, k)
	}
	sort.Strings(ks)
	if len(ks) == 0 {
		return "-"
	}
	return strings.Join(ks, ",")
}

func c05PEval(c *c05Case) (req, impl, verdict string) {
	run := c05PLoad(c, false)
	if run.status != "ok" {
		d := strings.ReplaceAll(strings.ReplaceAll(run.detail, "\n", " "), "\t", " ")
		if len(d) > 160 {
			d = d[:160]
		}
		for _, in := range c.inputs {
			if in.get("expect") == "loads" {
				return "-", run.status + " " + d, "FAIL parse-must-load kind=" + in.kind + " status=" + run.status + " " + d
			}
		}
		return "-", run.status + " " + d, "ok"
	}
	kinds := []string{}
	nAllowed := 0
	for _, in := range c.inputs {
		kinds = append(kinds, in.kind)
		if a := in.get("allowed"); a != "" {
			nAllowed += len(strings.Split(a, ","))
		}
	}
	verdict = "ok"
	if d := c05AllDangling(run.out, 1); len(d) > 0 {
		verdict = fmt.Sprintf("FAIL parse format=%s allowed=%d %s", strings.Join(kinds, "+"), nAllowed, c05DanglingText(d[0]))
		// facts about the mechanism (what the finding regexes look at)
		if d[0].self == "" {
			u := d[0].use
			for _, s := range run.out {
				if s.Package == u.pkg {
					verdict += fmt.Sprintf(" objects-in-target-package=%d", s.Objects.Len())
					break
				}
			}
			for _, in := range c.inputs {
				if e := in.get("envelope"); e != "" && e == u.name {
					verdict += " target-is-forced-envelope=true"
				}
			}
			for _, f := range c.files {
				if u.kind == "ref" && strings.Contains(f.text, "/properties/"+u.name+"\"") {
					verdict += " nested-ref=true" // the source has a $ref to a property below a definition, with that name
					break
				}
			}
		}
		verdict += " opts=" + c05POptKeys(c)
	} else if nAllowed > 0 && len(c.inputs) == 1 {
		full := c05PLoad(c, true)
		if full.status == "ok" && len(full.out) == 1 && c05IsClosed(full.out) {
			roots := []c05Addr{}
			for _, a := range strings.Split(c.inputs[0].get("allowed"), ",") {
				roots = append(roots, c05Addr{full.out[0].Package, a})
			}
			verdict = c05FilterVerdict(full.out, run.out, roots)
		}
	}
	return "closed " + virSchemas(run.out), c05ClosedReply(run.out), verdict
}

// ---- shrinking ----

func c05PShrinkStep(best *c05Case, same func(*c05Case) bool) (*c05Case, bool) {
	if len(best.inputs) > 1 {
		for i := range best.inputs {
			cand := c05PClone(best)
			cand.inputs = append(cand.inputs[:i], cand.inputs[i+1:]...)
			if same(cand) {
				return cand, true
			}
		}
	}
	for i, in := range best.inputs {
		for j, o := range in.opts {
			if k, _, _ := strings.Cut(o, "="); k == "path" || k == "value" || k == "entry" {
				continue
			}
			cand := c05PClone(best)
			cand.inputs[i].opts = append(cand.inputs[i].opts[:j], cand.inputs[i].opts[j+1:]...)
			if same(cand) {
				return cand, true
			}
		}
	}
	if len(best.files) > 1 {
		for i := range best.files {
			cand := c05PClone(best)
			cand.files = append(cand.files[:i], cand.files[i+1:]...)
			if same(cand) {
				return cand, true
			}
		}
	}
	for i, f := range best.files {
		var out *c05Case
		try := func(text string) bool {
			cand := c05PClone(best)
			cand.files[i].text = text
			if same(cand) {
				out = cand
				return true
			}
			return false
		}
		changed := false
		if strings.HasSuffix(f.path, ".cue") {
			changed = c05LineCandidates(f.text, try)
		} else {
			changed = c05JSONCandidates(f.text, try)
		}
		if changed {
			return out, true
		}
	}
	return best, false
}

// ---- input shapes (pinned texts: they run in every quick run, whatever the seed) ----

type c05PShape struct {
	name  string
	files []c05PFile
	in    c05PInput // the input without the options under test
	lib   []c05PInput
}

// well-formed pinned shapes that have to LOAD under the empty option set (by shape name, per kind)
var c05PMustLoad = map[string]bool{
	"cue/definitions-only": true, "cue/fields-only": true, "cue/definitions-and-fields": true, "cue/root-named-like-package": true,
	"cue/nested-definition": true, "cue/definition-only-referenced": true, "cue/module-definitions-only": true,
	"cue/module-definitions-and-fields": true, "cue/module-two-files": true, "cue/module-importing-a-library": true,
	"cue/module-nested-imports": true,
	"kindsys_composable/dataquery-definitions-only": true, "kindsys_composable/dataquery-fields-only": true,
	"kindsys_composable/dataquery-definitions-and-fields": true, "kindsys_composable/panelcfg-definitions-only": true,
	"kindsys_core/core-spec-and-definitions": true, "kindsys_core/core-definitions-only": true,
	"jsonschema/fields-only": true, "jsonschema/definitions-and-fields": true, "jsonschema/root-ref": true,
	"jsonschema/root-self-reference": true, "jsonschema/definition-named-like-package": true,
	"openapi/schemas-only": true, "openapi/schema-named-like-package": true, "openapi/array-and-map-of-refs": true,
}

const c05PCueDefs = "#Target: {\n  expr: string\n  legend?: #Legend\n}\n#Legend: {\n  show: bool\n  next?: #Legend\n}\n"
const c05PCueFields = "expr: string\nhide?: bool\ntags?: [...string]\n"
const c05PCueBoth = "#Legend: {\n  show: bool\n}\nexpr: string\nlegend?: #Legend\nall?: [...#Legend]\n"

func c05PCueShapes() []c05PShape {
	val := func(name, text string) c05PShape {
		return c05PShape{name: name, files: []c05PFile{{"demo.cue", text}}, in: c05PInput{kind: "cue", opts: []string{"value=demo.cue", "pkg=demo"}}}
	}
	dir := func(name string, in c05PInput, lib []c05PInput, files ...c05PFile) c05PShape {
		return c05PShape{name: name, files: files, in: in, lib: lib}
	}
	libT := c05PFile{"lib/lib.cue", "package lib\n\n#T: {\n  a: string\n  u?: #U\n}\n#U: {\n  b: int64\n}\n"}
	subS := c05PFile{"sub/sub.cue", "package sub\n\n#S: {\n  s: string\n}\n"}
	libSub := c05PFile{"lib/lib.cue", "package lib\n\nimport \"example.com/sub\"\n\n#T: {\n  a: string\n  s?: sub.#S\n}\n"}
	mainEntry := c05PInput{kind: "cue", opts: []string{"entry=main"}}
	return []c05PShape{
		val("definitions-only", c05PCueDefs),
		val("fields-only", c05PCueFields),
		val("definitions-and-fields", c05PCueBoth),
		val("empty-document", ""),
		val("comment-only", "// nothing here\n"),
		val("scalar-root", "string\n"),
		val("concrete-scalar-root", "42\n"),
		val("list-root", "[...string]\n"),
		val("root-named-like-package", "#demo: {\n  a: string\n}\ndemo: {\n  b?: #demo\n}\n"),
		val("objects-as-regular-fields", "Foo: {\n  a: string\n}\nBar: {\n  f?: Foo\n  l?: [...Foo]\n}\n"),
		val("nested-definition", "Foo: {\n  #Inner: {\n    x: string\n  }\n  i?: #Inner\n}\n#Top: {\n  #Deep: {\n    y: bool\n  }\n  d?: #Deep\n}\n"),
		val("reference-below-a-definition", "#A: {\n  inner: {\n    x: string\n  }\n}\n#B: {\n  y?: #A.inner\n}\n"),
		val("field-referencing-a-field", "a: {\n  x: string\n}\nb?: a\n"),
		val("definition-only-referenced", "#Used: {\n  x: string\n}\n#Alias: #Used\n#Enum: \"a\" | \"b\"\n#Holder: {\n  e?: #Enum\n  u: #Alias\n}\n"),
		val("union-of-definitions", "#A: {\n  kind: \"a\"\n}\n#B: {\n  kind: \"b\"\n}\n#U: #A | #B\nu?: #A | #B\n"),
		dir("module-definitions-only", mainEntry, nil, c05PFile{"main/main.cue", "package main\n\n" + c05PCueDefs}),
		dir("module-definitions-and-fields", mainEntry, nil, c05PFile{"main/main.cue", "package main\n\n" + c05PCueBoth}),
		dir("module-root-named-like-package", mainEntry, nil, c05PFile{"main/main.cue", "package main\n\n#main: {\n  a: string\n}\nmain: {\n  b?: #main\n}\n"}),
		dir("module-two-files", mainEntry, nil, c05PFile{"main/a.cue", "package main\n\n#A: {\n  b?: #B\n}\n"}, c05PFile{"main/b.cue", "package main\n\n#B: {\n  a?: #A\n}\n"}),
		dir("module-importing-a-library", mainEntry.with("import=lib:example.com/lib"),
			[]c05PInput{{kind: "cue", opts: []string{"entry=lib"}}},
			libT, c05PFile{"main/main.cue", "package main\n\nimport \"example.com/lib\"\n\n#A: {\n  x?: lib.#T\n  us?: [...lib.#U]\n}\nroot: {\n  y?: lib.#U\n}\n"}),
		dir("module-importing-definitions-only", mainEntry.with("import=lib:example.com/lib"),
			[]c05PInput{{kind: "cue", opts: []string{"entry=lib"}}},
			libT, c05PFile{"main/main.cue", "package main\n\nimport \"example.com/lib\"\n\n#A: {\n  x?: lib.#T\n}\n#B: lib.#U\n"}),
		dir("module-nested-imports", mainEntry.with("import=lib:example.com/lib", "import=sub:example.com/sub"),
			[]c05PInput{{kind: "cue", opts: []string{"entry=sub"}}, {kind: "cue", opts: []string{"entry=lib", "import=sub:example.com/sub"}}},
			libSub, subS, c05PFile{"main/main.cue", "package main\n\nimport \"example.com/lib\"\n\n#A: {\n  x?: lib.#T\n}\nroot?: lib.#T\n"}),
	}
}

func c05PKindsys(iface, schema string) string {
	return "name: \"Demo" + iface + "\"\nschemaInterface: \"" + iface + "\"\nlineage: schemas: [{\n  version: [0, 0]\n  schema: {\n" + schema + "  }\n}]\n"
}

func c05PKindsysShapes() []c05PShape {
	comp := func(name, text string) c05PShape {
		return c05PShape{name: name, files: []c05PFile{{"kind.cue", text}}, in: c05PInput{kind: "kindsys_composable", opts: []string{"value=kind.cue", "pkg=demo"}}}
	}
	core := func(name, text string) c05PShape {
		return c05PShape{name: name, files: []c05PFile{{"kind.cue", text}}, in: c05PInput{kind: "kindsys_core", opts: []string{"value=kind.cue", "pkg=demo"}}}
	}
	defs := "    #Target: {\n      expr: string\n      legend?: #Legend\n    }\n    #Legend: {\n      show: bool\n    }\n"
	fields := "    expr: string\n    hide?: bool\n"
	return []c05PShape{
		comp("dataquery-definitions-only", c05PKindsys("DataQuery", defs)),
		comp("dataquery-unrelated-definitions-only", c05PKindsys("DataQuery", "    #Target: {\n      expr: string\n    }\n    #Mode: \"a\" | \"b\"\n")),
		comp("dataquery-unrelated-definitions-and-fields", c05PKindsys("DataQuery", "    #Mode: \"a\" | \"b\"\n    expr: string\n    tags?: [...string]\n")),
		core("core-unrelated-definitions-only", "name: \"Demo\"\nlineage: schemas: [{\n  version: [0, 0]\n  schema: {\n    #Item: {\n      id: string\n    }\n  }\n}]\n"),
		comp("dataquery-fields-only", c05PKindsys("DataQuery", fields)),
		comp("dataquery-definitions-and-fields", c05PKindsys("DataQuery", defs+"    expr: string\n    legend?: #Legend\n")),
		comp("dataquery-empty", c05PKindsys("DataQuery", "")),
		comp("panelcfg-definitions-only", c05PKindsys("PanelCfg", "    Options: {\n      legend?: #Legend\n    }\n    #Legend: {\n      show: bool\n    }\n")),
		comp("panelcfg-empty", c05PKindsys("PanelCfg", "")),
		core("core-spec-and-definitions", "name: \"Demo\"\nlineage: schemas: [{\n  version: [0, 0]\n  schema: {\n    #Item: {\n      id: string\n    }\n    spec: {\n      items?: [...#Item]\n    }\n  }\n}]\n"),
		core("core-definitions-only", "name: \"Demo\"\nlineage: schemas: [{\n  version: [0, 0]\n  schema: {\n"+defs+"  }\n}]\n"),
		core("core-empty", "name: \"Demo\"\nlineage: schemas: [{\n  version: [0, 0]\n  schema: {}\n}]\n"),
	}
}

func c05PJSONShapes() []c05PShape {
	js := func(name, text string) c05PShape {
		return c05PShape{name: name, files: []c05PFile{{"demo/schema.json", text}}, in: c05PInput{kind: "jsonschema", opts: []string{"path=demo/schema.json"}}}
	}
	defs := `"definitions":{"Foo":{"type":"object","properties":{"b":{"$ref":"#/definitions/Bar"},"self":{"$ref":"#/definitions/Foo"}}},"Bar":{"type":"string","enum":["x","y"]}}`
	return []c05PShape{
		js("definitions-only", `{"$schema":"http://json-schema.org/draft-07/schema#",`+defs+`}`),
		js("defs-keyword-only", `{"$defs":{"Foo":{"type":"object","properties":{"b":{"$ref":"#/$defs/Bar"}}},"Bar":{"type":"string"}}}`),
		js("fields-only", `{"type":"object","properties":{"a":{"type":"string"},"n":{"type":"integer"}},"required":["a"]}`),
		js("definitions-and-fields", `{"type":"object","properties":{"f":{"$ref":"#/definitions/Foo"}},`+defs+`}`),
		js("empty-document", `{}`),
		js("true-document", `true`),
		js("scalar-root", `{"type":"string"}`),
		js("array-root", `{"type":"array","items":{"$ref":"#/definitions/Bar"},`+defs+`}`),
		js("root-ref", `{"$ref":"#/definitions/Foo",`+defs+`}`),
		js("root-ref-to-scalar", `{"$ref":"#/definitions/Bar",`+defs+`}`),
		js("root-self-reference", `{"type":"object","properties":{"next":{"$ref":"#"},"f":{"$ref":"#/definitions/Foo"}},`+defs+`}`),
		js("definition-named-like-package", `{"type":"object","properties":{"d":{"$ref":"#/definitions/demo"}},"definitions":{"demo":{"type":"object","properties":{"x":{"type":"string"}}}}}`),
		js("root-ref-named-like-package", `{"$ref":"#/definitions/demo","definitions":{"demo":{"type":"object","properties":{"o":{"$ref":"#/definitions/Other"}}},"Other":{"type":"boolean"}}}`),
		js("unreferenced-definitions", `{"type":"object","properties":{"a":{"type":"string"}},`+defs+`}`),
		js("root-oneof", `{"oneOf":[{"$ref":"#/definitions/Foo"},{"$ref":"#/definitions/Bar"}],`+defs+`}`),
		js("root-allof", `{"allOf":[{"$ref":"#/definitions/Foo"},{"type":"object","properties":{"z":{"type":"string"}}}],`+defs+`}`),
	}
}

func c05POpenAPIShapes() []c05PShape {
	oa := func(name, body string) c05PShape {
		text := `{"openapi":"3.0.0","info":{"title":"t","version":"1"},"paths":{}` + body + `}`
		return c05PShape{name: name, files: []c05PFile{{"demo/schema.json", text}}, in: c05PInput{kind: "openapi", opts: []string{"path=demo/schema.json"}}}
	}
	foo := `"Foo":{"type":"object","properties":{"b":{"$ref":"#/components/schemas/Bar"},"self":{"$ref":"#/components/schemas/Foo"}}},"Bar":{"type":"string","enum":["x","y"]}`
	return []c05PShape{
		oa("schemas-only", `,"components":{"schemas":{`+foo+`}}`),
		oa("no-components", ``),
		oa("empty-components", `,"components":{}`),
		oa("empty-schemas", `,"components":{"schemas":{}}`),
		oa("scalar-schema-only", `,"components":{"schemas":{"Name":{"type":"string"}}}`),
		oa("schema-named-like-package", `,"components":{"schemas":{"demo":{"type":"object","properties":{"o":{"$ref":"#/components/schemas/Other"}}},"Other":{"type":"boolean"}}}`),
		oa("array-and-map-of-refs", `,"components":{"schemas":{`+foo+`,"L":{"type":"array","items":{"$ref":"#/components/schemas/Foo"}},"M":{"type":"object","additionalProperties":{"$ref":"#/components/schemas/Bar"}}}}`),
		oa("union-without-mapping", `,"components":{"schemas":{"A":{"type":"object","properties":{"kind":{"type":"string","enum":["a"]}}},"B":{"type":"object","properties":{"kind":{"type":"string","enum":["b"]}}},"U":{"oneOf":[{"$ref":"#/components/schemas/A"},{"$ref":"#/components/schemas/B"}],"discriminator":{"propertyName":"kind"}}}}`),
		oa("allof-of-refs", `,"components":{"schemas":{`+foo+`,"C":{"allOf":[{"$ref":"#/components/schemas/Foo"},{"type":"object","properties":{"z":{"type":"string"}}}]}}}`),
		oa("other-components-only", `,"components":{"parameters":{"p":{"name":"p","in":"query","schema":{"type":"string"}}}}`),
	}
}

// option sets crossed with every shape of the kind (`@first` / `@entry`: filled in from an
// unrestricted load of the same case)
func c05POptionSets(kind string) [][]string {
	switch kind {
	case "cue":
		return [][]string{
			{},
			{"envelope=dataquery"},
			{"envelope=demo"},
			{"envelope=Legend"},
			{"namefunc=prefix"},
			{"namefunc=path"},
			{"envelope=dataquery", "namefunc=prefix"},
			{"inline=true"},
			{"envelope=dataquery", "inline=true"},
			{"allowed=@first"},
			{"envelope=dataquery", "allowed=dataquery"},
			{"envelope=dataquery", "meta=composable/dataquery/demo"},
			{"meta=core//demo"},
			{"inline=true", "namefunc=prefix", "envelope=env"},
		}
	case "kindsys_core", "kindsys_composable":
		return [][]string{{}, {"allowed=@first"}, {"allowed=@entry"}}
	case "jsonschema":
		return [][]string{{}, {"pkg=other"}, {"pkg=Foo"}, {"allowed=@first"}, {"allowed=@entry"}, {"meta=composable/panelcfg/demo"}, {"pkg=Bar", "meta=composable/dataquery/demo"}}
	case "openapi":
		return [][]string{{}, {"pkg=other"}, {"pkg=Foo"}, {"novalidate=true"}, {"allowed=@first"}, {"meta=composable/panelcfg/demo"}, {"novalidate=true", "pkg=Bar", "allowed=@first"}}
	}
	return [][]string{{}}
}

// c05PResolve fills `allowed=@first` / `allowed=@entry` from an unrestricted load; false: not applicable
func c05PResolve(c *c05Case) bool {
	for i, in := range c.inputs {
		a := in.get("allowed")
		if !strings.HasPrefix(a, "@") {
			continue
		}
		probe := c05PClone(c)
		probe.inputs = []c05PInput{probe.inputs[i]}
		run := c05PLoad(probe, true)
		name := ""
		if run.status == "ok" && len(run.out) > 0 {
			if a == "@entry" {
				name = run.out[0].EntryPoint
			} else if ks := c05Keys(run.out[0]); len(ks) > 0 {
				name = ks[0]
			}
		}
		if name == "" {
			return false
		}
		for j, o := range in.opts {
			if strings.HasPrefix(o, "allowed=@") {
				c.inputs[i].opts[j] = "allowed=" + name
			}
		}
	}
	return true
}

func c05PMatrix(emit func(*c05Case)) {
	shapes := append(append(append(c05PCueShapes(), c05PKindsysShapes()...), c05PJSONShapes()...), c05POpenAPIShapes()...)
	for _, sh := range shapes {
		for _, set := range c05POptionSets(sh.in.kind) {
			if len(set) == 0 && c05PMustLoad[sh.in.kind+"/"+sh.name] {
				set = []string{"expect=loads"}
			}
			variants := [][]c05PInput{{sh.in.with(set...)}}
			if len(sh.lib) > 0 { // the libraries loaded as inputs of their own, before the module that imports them
				// (a naming strategy is a property of the whole configuration: the same one for every input)
				nf := []string{}
				for _, o := range set {
					if strings.HasPrefix(o, "namefunc=") {
						nf = append(nf, o)
					}
				}
				libs := []c05PInput{}
				for _, l := range sh.lib {
					libs = append(libs, l.with(nf...))
				}
				variants = append(variants, append(libs, sh.in.with(set...)))
			}
			for _, ins := range variants {
				c := &c05Case{verb: "c05popt", files: sh.files, inputs: ins}
				c = c05PClone(c)
				if !c05PResolve(c) {
					continue
				}
				emit(c)
			}
		}
	}
}

// generated part: the C05 source generator (aimed at reference positions) in the shapes the
// matrix pins by hand, crossed with a random option set
func c05PGenerated(r *rng, n int, emit func(*c05Case)) {
	for i := 0; i < n; i++ {
		d := c05GenSrc(r)
		// CUE: definitions only / regular fields only / definitions plus root fields naming them
		hidden := r.chance(65)
		text := d.renderCUE(hidden)
		if hidden && r.chance(50) {
			for k, name := range d.Names {
				text += fmt.Sprintf("p%d?: #%s\n", k, name)
			}
		}
		set := pick(r, c05POptionSets("cue"))
		if r.chance(30) {
			set = append(append([]string{}, set...), "envelope="+pick(r, append([]string{"dataquery", "demo"}, d.Names...)))
		}
		c := &c05Case{verb: "c05popt", files: []c05PFile{{"demo.cue", text}},
			inputs: []c05PInput{{kind: "cue", opts: append([]string{"value=demo.cue", "pkg=" + pick(r, []string{"demo", "Foo", "root"})}, set...)}}}
		if c05PResolve(c) {
			emit(c)
		}
		// the same definitions as a module on disk, loaded through `entrypoint`
		if r.chance(35) {
			m := &c05Case{verb: "c05popt", files: []c05PFile{{"main/main.cue", "package main\n\n" + text}},
				inputs: []c05PInput{{kind: "cue", opts: append([]string{"entry=main"}, pick(r, c05POptionSets("cue"))...)}}}
			if c05PResolve(m) {
				emit(m)
			}
		}
		for _, kind := range []string{"jsonschema", "openapi"} {
			set := append([]string{}, pick(r, c05POptionSets(kind))...)
			if r.chance(25) {
				set = append(set, "pkg="+pick(r, d.Names)) // the package named like a definition
			}
			j := &c05Case{verb: "c05popt", files: []c05PFile{{"demo/schema.json", d.render(kind, r)}},
				inputs: []c05PInput{{kind: kind, opts: append([]string{"path=demo/schema.json"}, set...)}}}
			if c05PResolve(j) {
				emit(j)
			}
		}
	}
}

func init() {
	register("c05-parseopts", func(args map[string]string, out *bufio.Writer) error {
		c05WorkDir = args["work"]
		if c05WorkDir == "" {
			c05WorkDir = os.TempDir()
		}
		emit := func(c *c05Case) { c05Emit(out, c) }
		c05PMatrix(emit)
		c05PGenerated(newRng(uint64(argInt(args, "seed", 1))+505), argInt(args, "n", 100), emit)
		return nil
	})
}
