package main

// C07 streams: Consolidate/Merge correspondence, and pipeline-level independence runs
// (sibling languages, input order, unrelated inputs, inputs not mutated).

import (
	"bufio"
	"context"
	"crypto/sha256"
	"fmt"
	"os"
	"path/filepath"
	"sort"
	"strings"

	"github.com/grafana/cog/internal/ast"
	"github.com/grafana/cog/internal/codegen"
	"github.com/grafana/cog/internal/jennies/golang"
	"github.com/grafana/cog/internal/jennies/java"
	"github.com/grafana/cog/internal/jennies/jsonschema"
	"github.com/grafana/cog/internal/jennies/openapi"
	"github.com/grafana/cog/internal/jennies/php"
	"github.com/grafana/cog/internal/jennies/python"
	"github.com/grafana/cog/internal/jennies/typescript"
)

// ---------- Consolidate ----------

func c07SplitInputs(r *rng, base ast.Schemas) ast.Schemas {
	var inputs ast.Schemas
	for _, sch := range base {
		parts := 1 + r.intn(3)
		ins := make([]*ast.Schema, parts)
		for i := range ins {
			ins[i] = ast.NewSchema(sch.Package, sch.Metadata)
			if r.chance(8) {
				ins[i].Metadata.Identifier = "other"
			}
			if r.chance(30) && sch.EntryPoint != "" {
				ins[i].EntryPoint = sch.EntryPoint
				ins[i].EntryPointType = sch.EntryPointType
			}
			if r.chance(5) {
				ins[i].EntryPoint = "Another"
				ins[i].EntryPointType = ast.NewRef(sch.Package, "Another")
			}
		}
		sch.Objects.Iterate(func(_ string, obj ast.Object) {
			n := 1
			if r.chance(35) {
				n = 2
			}
			for c := 0; c < n; c++ {
				o := obj.DeepCopy()
				if c > 0 && r.chance(35) {
					// conflicting definition of the same name
					switch r.intn(3) {
					case 0:
						o.Comments = append(o.Comments, "changed")
					case 1:
						o.Type.Nullable = !o.Type.Nullable
					default:
						o.Type = ast.String()
					}
				}
				ins[r.intn(parts)].AddObject(o)
			}
		})
		inputs = append(inputs, ins...)
	}
	// shuffle inputs
	for i := len(inputs) - 1; i > 0; i-- {
		j := r.intn(i + 1)
		inputs[i], inputs[j] = inputs[j], inputs[i]
	}
	return inputs
}

func c07ConsolidateOracle(inputs ast.Schemas, result ast.Schemas, err error) string {
	// spec: union of definitions per package, or an error iff metadata or a common name conflict
	conflict := false
	type key struct{ pkg, name string }
	first := map[key]string{}
	meta := map[string]ast.SchemaMeta{}
	for _, in := range inputs {
		if m, ok := meta[in.Package]; ok {
			if m != in.Metadata {
				conflict = true
			}
		} else {
			meta[in.Package] = in.Metadata
		}
		in.Objects.Iterate(func(k string, o ast.Object) {
			v := virObject(o)
			if prev, ok := first[key{in.Package, k}]; ok {
				if prev != v {
					conflict = true
				}
			} else {
				first[key{in.Package, k}] = v
			}
		})
	}
	if err != nil {
		if !conflict {
			return "FAIL consolidate reported a conflict but inputs do not conflict: " + err.Error()
		}
		return "ok"
	}
	if conflict {
		return "FAIL conflicting inputs were merged without error (a definition was silently dropped or overwritten)"
	}
	for k, v := range first {
		sch, ok := result.Locate(k.pkg)
		if !ok {
			return "FAIL package missing from result: " + k.pkg
		}
		o, ok := sch.LocateObject(k.name)
		if !ok {
			return "FAIL definition dropped: " + k.pkg + "." + k.name
		}
		if virObject(o) != v {
			return "FAIL definition changed: " + k.pkg + "." + k.name
		}
	}
	n := 0
	for _, sch := range result {
		n += sch.Objects.Len()
	}
	if n != len(first) {
		return "FAIL result has extra definitions"
	}
	// one schema per package, in order of first appearance; the entry point of a package is the first
	// non-empty entry point of its inputs (Merge fills an empty one and keeps a non-empty one)
	var order []string
	entry := map[string]*ast.Schema{}
	seenPkg := map[string]bool{}
	for _, in := range inputs {
		if !seenPkg[in.Package] {
			seenPkg[in.Package] = true
			order = append(order, in.Package)
		}
		if entry[in.Package] == nil && in.EntryPoint != "" {
			entry[in.Package] = in
		}
	}
	if len(result) != len(order) {
		return fmt.Sprintf("FAIL result has %d schemas for %d packages", len(result), len(order))
	}
	for i, sch := range result {
		if sch.Package != order[i] {
			return "FAIL result packages are not in order of first appearance: position " + fmt.Sprint(i) + " holds " + sch.Package + ", want " + order[i]
		}
		wantEP, wantT := "", virType(ast.Type{})
		if in := entry[sch.Package]; in != nil {
			wantEP, wantT = in.EntryPoint, virType(in.EntryPointType)
		}
		if sch.EntryPoint != wantEP || virType(sch.EntryPointType) != wantT {
			return "FAIL entry point of package " + sch.Package + " is " + virQuote(sch.EntryPoint) + ", want the first non-empty one of its inputs " + virQuote(wantEP)
		}
	}
	return "ok"
}

// ---------- pipeline-level runs ----------

type c07Input struct{ format, path, pkg string }

// directory of builder veneer files handed to every pipeline built by c07Pipeline ("" = none)
var c07VeneersDir string

func c07Testdata() []c07Input {
	var ins []c07Input
	for _, d := range []struct{ format, dir string }{{"jsonschema", "testdata/jsonschema"}, {"openapi", "testdata/openapi"}} {
		entries, _ := os.ReadDir(d.dir)
		for _, e := range entries {
			p := filepath.Join(d.dir, e.Name(), "schema.json")
			if _, err := os.Stat(p); err == nil {
				pkg := strings.ReplaceAll(d.format[:2]+"_"+e.Name(), "-", "_")
				ins = append(ins, c07Input{d.format, p, pkg})
			}
		}
	}
	return ins
}

var c07Langs = []string{"go", "python", "typescript", "java", "php", "jsonschema", "openapi"}

func c07Pipeline(inputs []c07Input, langs []string, builders bool) (*codegen.Pipeline, error) {
	p, err := codegen.NewPipeline()
	if err != nil {
		return nil, err
	}
	for _, in := range inputs {
		ci := &codegen.Input{}
		switch in.format {
		case "jsonschema":
			ci.JSONSchema = &codegen.JSONSchemaInput{Path: in.path, Package: in.pkg}
		case "openapi":
			ci.OpenAPI = &codegen.OpenAPIInput{Path: in.path, Package: in.pkg}
		case "cue":
			ci.Cue = &codegen.CueInput{Entrypoint: in.path, Package: in.pkg}
		}
		p.Inputs = append(p.Inputs, ci)
	}
	p.Output.Directory = "%l"
	p.Output.Types = true
	p.Output.Builders = builders
	p.Output.Converters = builders
	if c07VeneersDir != "" {
		p.Transforms.VeneersDirectories = []string{c07VeneersDir}
	}
	for _, l := range langs {
		ol := &codegen.OutputLanguage{}
		switch l {
		case "go":
			ol.Go = &golang.Config{GenerateJSONMarshaller: true, GenerateStrictUnmarshaller: true, GenerateEqual: true, GenerateValidate: true, PackageRoot: "example.com/lab/go"}
		case "python":
			ol.Python = &python.Config{GenerateJSONMarshaller: true}
		case "typescript":
			ol.Typescript = &typescript.Config{}
		case "java":
			ol.Java = &java.Config{}
		case "php":
			ol.PHP = &php.Config{}
		case "jsonschema":
			ol.JSONSchema = &jsonschema.Config{}
		case "openapi":
			ol.OpenAPI = &openapi.Config{}
		}
		p.Output.Languages = append(p.Output.Languages, ol)
	}
	return p, nil
}

func c07Run(inputs []c07Input, langs []string, builders bool) (files map[string]string, err error) {
	defer func() {
		if rec := recover(); rec != nil {
			err = fmt.Errorf("PANIC: %v", rec)
		}
	}()
	p, err := c07Pipeline(inputs, langs, builders)
	if err != nil {
		return nil, err
	}
	fs, err := p.Run(context.Background())
	if err != nil {
		return nil, err
	}
	files = map[string]string{}
	for _, f := range fs.AsFiles() {
		files[f.RelativePath] = fmt.Sprintf("%x", sha256.Sum256(f.Data))
	}
	return files, nil
}

func c07Diff(a, b map[string]string, keep func(path string) bool) string {
	var diffs []string
	for p, h := range a {
		if !keep(p) {
			continue
		}
		if h2, ok := b[p]; !ok {
			diffs = append(diffs, "missing:"+p)
		} else if h2 != h {
			diffs = append(diffs, "differs:"+p)
		}
	}
	for p := range b {
		if keep(p) {
			if _, ok := a[p]; !ok {
				diffs = append(diffs, "extra:"+p)
			}
		}
	}
	sort.Strings(diffs)
	if len(diffs) > 4 {
		diffs = append(diffs[:4], fmt.Sprintf("(+%d more)", len(diffs)-4))
	}
	return strings.Join(diffs, ",")
}

func init() {
	register("c07-consolidate", func(args map[string]string, out *bufio.Writer) error {
		n := argInt(args, "n", 300)
		r := newRng(uint64(argInt(args, "seed", 1)))
		o := defaultIRGenOpts(args["tier"])
		o.maxPkgs, o.maxObjs, o.maxDepth = 3, 4, 2
		for i := 0; i < n; i++ {
			inputs := c07SplitInputs(r, genSchemas(r, o))
			req := "consolidate " + virSchemas(inputs)
			var reply, verdict string
			func() {
				defer func() {
					if rec := recover(); rec != nil {
						reply, verdict = "panic", fmt.Sprintf("FAIL panic: %v", rec)
					}
				}()
				res, err := inputs.Consolidate()
				verdict = c07ConsolidateOracle(inputs, res, err)
				if err != nil {
					reply = "conflict"
				} else {
					reply = "ok " + virSchemas(res) // order of first appearance (fix 3f…: no longer map order)
				}
			}()
			fmt.Fprintf(out, "%s\t%s\t%s\n", req, reply, verdict)
		}
		return nil
	})

	register("c07-pipeline", func(args map[string]string, out *bufio.Writer) error {
		n := argInt(args, "n", 6)
		r := newRng(uint64(argInt(args, "seed", 1)))
		all := c07Testdata()
		clean := strings.NewReplacer("\n", " ", "\t", " ")
		emit := func(what, detail, verdict string) {
			fmt.Fprintf(out, "-\t%s %s\t%s\n", what, clean.Replace(detail), clean.Replace(verdict))
		}
		for i := 0; i < n; i++ {
			k := 2 + r.intn(2)
			var ins []c07Input
			used := map[string]bool{}
			for len(ins) < k {
				c := pick(r, all)
				if !used[c.pkg] {
					used[c.pkg] = true
					ins = append(ins, c)
				}
			}
			desc := []string{}
			for _, in := range ins {
				desc = append(desc, in.pkg)
			}
			d := strings.Join(desc, "+")
			builders := r.chance(50)
			langs := append([]string{}, c07Langs...)
			together, err := c07Run(ins, langs, builders)
			if err != nil {
				emit("skip", d+" "+err.Error(), "ok")
				continue
			}
			// (a) a language alone vs. together with all the others
			nl := 2
			if args["tier"] == "thorough" {
				nl = len(langs)
			}
			for j := 0; j < nl; j++ {
				l := langs[(i+j)%len(langs)]
				alone, err := c07Run(ins, []string{l}, builders)
				verdict := "ok"
				if err != nil {
					verdict = "FAIL language alone fails while all together succeed: " + l + ": " + err.Error()
				} else if df := c07Diff(alone, together, func(p string) bool { return strings.HasPrefix(p, l+"/") }); df != "" {
					verdict = "FAIL files of " + l + " differ alone vs with siblings: " + df
				}
				emit("lang-alone", d+" lang="+l+fmt.Sprintf(" builders=%v", builders), verdict)
			}
			// (b) permuted inputs (distinct packages)
			perm := append([]c07Input{}, ins...)
			perm[0], perm[len(perm)-1] = perm[len(perm)-1], perm[0]
			permuted, err := c07Run(perm, langs, builders)
			verdict := "ok"
			if err != nil {
				verdict = "FAIL permuted inputs fail: " + err.Error()
			} else if df := c07Diff(together, permuted, func(string) bool { return true }); df != "" {
				verdict = "FAIL reordering inputs of different packages changes files: " + df
			}
			emit("input-order", d, verdict)
			// (c) an additional unrelated input
			var extra c07Input
			for {
				extra = pick(r, all)
				if !used[extra.pkg] {
					break
				}
			}
			withExtra, err := c07Run(append(append([]c07Input{}, ins...), extra), langs, builders)
			verdict = "ok"
			if err != nil {
				emit("unrelated-input", d+" extra="+extra.pkg+" "+err.Error(), "ok")
			} else {
				keep := func(p string) bool {
					for _, in := range ins {
						if strings.Contains(p, "/"+in.pkg+"/") || strings.Contains(p, "/"+in.pkg+".") {
							return true
						}
					}
					return false
				}
				if df := c07Diff(together, withExtra, keep); df != "" {
					verdict = "FAIL an unrelated input changes files of the other packages: " + df
				}
				emit("unrelated-input", d+" extra="+extra.pkg, verdict)
			}
			// (d) the loaded schemas are not modified by a language's chain / builders / veneers
			p, _ := c07Pipeline(ins, langs, builders)
			schemas, err := p.LoadSchemas(context.Background())
			if err == nil {
				targets, _ := p.OutputLanguages()
				names := []string{}
				for name := range targets {
					names = append(names, name)
				}
				sort.Strings(names)
				for _, name := range names {
					before := virSchemas(schemas)
					verdict := "ok"
					func() {
						defer func() {
							if rec := recover(); rec != nil {
								verdict = fmt.Sprintf("FAIL panic: %v", rec)
							}
						}()
						if _, err := p.ContextForLanguage(targets[name], schemas); err != nil {
							return
						}
						if virSchemas(schemas) != before {
							verdict = "FAIL ContextForLanguage(" + name + ") modified the schemas it was handed"
						}
					}()
					emit("inputs-not-mutated", d+" lang="+name, verdict)
				}
			}
		}
		return nil
	})
}
