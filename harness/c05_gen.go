package main

// C05: generators.
//   c05GenClosed    random IR repaired to satisfy Closed (references only to existing objects),
//                   enriched with the positions cog's Visitor does not walk (map index refs,
//                   constant refs, discriminator mappings, generated-union payloads, entry
//                   points), object declaration order permuted on purpose
//   c05GenMalformed random IR with dangling references, inconsistent self references, duplicate
//                   packages, nil kind pointers (for the agreement of the two `Closed` predicates)
//   c05GenOps       sequences of name-changing transformations drawn against the current state

import (
	"fmt"
	"strings"

	"github.com/grafana/cog/internal/ast"
	"github.com/grafana/cog/internal/ast/compiler"
	"github.com/grafana/cog/internal/orderedmap"
)

// c05EachType calls f on every type node reachable from *t (pre-order), at EVERY position:
// array element, map index and value, struct fields, union/intersection branches, the
// disjunction payload kept in struct hints.  f may modify the node in place.
func c05EachType(t *ast.Type, via string, f func(t *ast.Type, via string)) {
	f(t, via)
	switch t.Kind {
	case ast.KindArray:
		if t.Array != nil {
			c05EachType(&t.Array.ValueType, via+"/elem", f)
		}
	case ast.KindMap:
		if t.Map != nil {
			c05EachType(&t.Map.IndexType, via+"/mapindex", f)
			c05EachType(&t.Map.ValueType, via+"/mapvalue", f)
		}
	case ast.KindStruct:
		if t.Struct != nil {
			for i := range t.Struct.Fields {
				c05EachType(&t.Struct.Fields[i].Type, via+"/field", f)
			}
			if h, d, ok := c05GenPayload(*t); ok {
				for i := range d.Branches {
					c05EachType(&d.Branches[i], via+"/gen", f)
				}
				t.Hints[h] = d
			}
		}
	case ast.KindDisjunction:
		if t.Disjunction != nil {
			for i := range t.Disjunction.Branches {
				c05EachType(&t.Disjunction.Branches[i], via+"/branch", f)
			}
		}
	case ast.KindIntersection:
		if t.Intersection != nil {
			for i := range t.Intersection.Branches {
				c05EachType(&t.Intersection.Branches[i], via+"/allof", f)
			}
		}
	}
}

func c05Keys(s *ast.Schema) []string {
	keys := []string{}
	if s != nil && s.Objects != nil {
		s.Objects.Iterate(func(k string, _ ast.Object) { keys = append(keys, k) })
	}
	return keys
}

// c05EachObjectType applies f to the entry point type and every object type of every schema
func c05EachObjectType(ss ast.Schemas, f func(s *ast.Schema, key string, t *ast.Type)) {
	for _, s := range ss {
		if s == nil {
			continue
		}
		f(s, "", &s.EntryPointType)
		for _, k := range c05Keys(s) {
			o := s.Objects.Get(k)
			f(s, k, &o.Type)
			s.Objects.Set(k, o)
		}
	}
}

func c05PickObject(r *rng, ss ast.Schemas, pkg string) (string, string, bool) {
	for _, s := range ss {
		if s.Package == pkg {
			if ks := c05Keys(s); len(ks) > 0 {
				return pkg, pick(r, ks), true
			}
			break
		}
	}
	cands := []*ast.Schema{}
	for _, s := range ss {
		if len(c05Keys(s)) > 0 {
			cands = append(cands, s)
		}
	}
	if len(cands) == 0 {
		return "", "", false
	}
	s := pick(r, cands)
	return s.Package, pick(r, c05Keys(s)), true
}

func c05FixMapping(r *rng, s *ast.Schema, m map[string]string) {
	ks := c05Keys(s)
	for _, k := range c05SortedKeys(m) {
		if s.Objects.Has(m[k]) {
			continue
		}
		if len(ks) == 0 {
			delete(m, k)
		} else {
			m[k] = pick(r, ks)
		}
	}
}

// c05Repair retargets every dangling use to an existing object (Closed by construction)
func c05Repair(r *rng, ss ast.Schemas) {
	c05EachObjectType(ss, func(s *ast.Schema, _ string, root *ast.Type) {
		c05EachType(root, "", func(t *ast.Type, _ string) {
			switch t.Kind {
			case ast.KindRef:
				if t.Ref != nil && c05Loaded(ss, t.Ref.ReferredPkg) && !c05Has(ss, t.Ref.ReferredPkg, t.Ref.ReferredType) {
					if p, n, ok := c05PickObject(r, ss, t.Ref.ReferredPkg); ok {
						t.Ref.ReferredPkg, t.Ref.ReferredType = p, n
					} else {
						*t = ast.String()
					}
				}
			case ast.KindConstantRef:
				if c := t.ConstantReference; c != nil && c05Loaded(ss, c.ReferredPkg) && !c05Has(ss, c.ReferredPkg, c.ReferredType) {
					if p, n, ok := c05PickObject(r, ss, c.ReferredPkg); ok {
						c.ReferredPkg, c.ReferredType = p, n
					} else {
						*t = ast.String()
					}
				}
			case ast.KindDisjunction:
				if t.Disjunction != nil {
					c05FixMapping(r, s, t.Disjunction.DiscriminatorMapping)
				}
			case ast.KindStruct:
				if _, d, ok := c05GenPayload(*t); ok {
					c05FixMapping(r, s, d.DiscriminatorMapping)
				}
			}
		})
	})
	for _, s := range ss {
		if s.EntryPoint != "" && !s.Objects.Has(s.EntryPoint) {
			s.EntryPoint = ""
			s.EntryPointType = ast.Type{}
		}
	}
}

func c05FreshName(s *ast.Schema, base string) string {
	name := base
	for i := 2; s.Objects.Has(name); i++ {
		name = fmt.Sprintf("%s%d", base, i)
	}
	return name
}

func c05StructKeys(s *ast.Schema) []string {
	out := []string{}
	for _, k := range c05Keys(s) {
		if o := s.Objects.Get(k); o.Type.Kind == ast.KindStruct && o.Type.Struct != nil {
			out = append(out, k)
		}
	}
	return out
}

// c05Enrich adds, at a controlled rate, the naming positions that the default generator rarely
// produces: map index refs, constant refs, discriminated unions of refs with a mapping, the struct
// that DisjunctionToType generates for such a union, entry points.
func c05Enrich(r *rng, ss ast.Schemas, rate int) {
	for _, s := range ss {
		keys := c05Keys(s)
		if len(keys) == 0 {
			continue
		}
		target := func() (string, string) {
			if len(ss) > 1 && r.chance(15) {
				if p, n, ok := c05PickObject(r, ss, pick(r, ss).Package); ok {
					return p, n
				}
			}
			return s.Package, pick(r, keys)
		}
		addField := func(f ast.StructField) {
			sk := c05StructKeys(s)
			if len(sk) == 0 {
				return
			}
			k := pick(r, sk)
			o := s.Objects.Get(k)
			for _, old := range o.Type.Struct.Fields {
				if old.Name == f.Name {
					return
				}
			}
			o.Type.Struct.Fields = append(o.Type.Struct.Fields, f)
			s.Objects.Set(k, o)
		}
		if r.chance(rate) {
			p, n := target()
			addField(ast.NewStructField("byRef", ast.NewMap(ast.NewRef(p, n), ast.String())))
		}
		if r.chance(rate) {
			p, n := target()
			f := ast.NewStructField("konst", ast.NewConstantReferenceType(p, n, "A"))
			f.Required = true
			addField(f)
		}
		if r.chance(rate) {
			p, n := target()
			addField(ast.NewStructField("listOf", ast.NewArray(ast.NewArray(ast.NewRef(p, n)))))
		}
		sk := c05StructKeys(s)
		if len(sk) >= 1 && r.chance(rate) {
			a, b := pick(r, sk), pick(r, sk)
			u := ast.NewDisjunction(ast.Types{ast.NewRef(s.Package, a), ast.NewRef(s.Package, b)})
			u.Disjunction.Discriminator = "kind"
			u.Disjunction.DiscriminatorMapping = map[string]string{"a": a, "b": b}
			if r.chance(50) {
				s.AddObject(ast.NewObject(s.Package, c05FreshName(s, "Union"), u))
			} else {
				addField(ast.NewStructField("oneOf", u))
			}
		}
		if len(sk) >= 1 && r.chance(rate) {
			a, b := pick(r, sk), pick(r, sk)
			payload := ast.DisjunctionType{
				Branches:             ast.Types{ast.NewRef(s.Package, a), ast.NewRef(s.Package, b)},
				Discriminator:        "kind",
				DiscriminatorMapping: map[string]string{"a": a, "b": b},
			}
			fields := []ast.StructField{ast.NewStructField(a, ast.NewRef(s.Package, a))}
			if b != a {
				fields = append(fields, ast.NewStructField(b, ast.NewRef(s.Package, b)))
			}
			g := ast.NewStruct(fields...)
			g.Hints[ast.HintDiscriminatedDisjunctionOfRefs] = payload
			s.AddObject(ast.NewObject(s.Package, c05FreshName(s, "AOrB"), g))
		}
		// alias chains of length 2-3 ending in a scalar / array / map, referenced from a struct field,
		// an array item, a map value and a union branch (declaration order is permuted afterwards)
		if r.chance(rate) {
			var base ast.Type
			switch r.intn(4) {
			case 0:
				base = ast.String()
			case 1:
				base = ast.NewArray(ast.String())
			case 2:
				base = ast.NewMap(ast.String(), ast.NewScalar(ast.KindInt64))
			default:
				base = ast.NewScalar(ast.KindInt64)
			}
			n := 2 + r.intn(2)
			names := []string{}
			for i := 0; i < n; i++ {
				names = append(names, c05FreshName(s, pick(r, []string{"UID", "Identifier", "Alias", "Handle"})))
				s.AddObject(ast.NewObject(s.Package, names[i], ast.String())) // placeholder, reserves the name
			}
			for i, nm := range names {
				t := base
				if i+1 < n {
					t = ast.NewRef(s.Package, names[i+1])
				}
				s.AddObject(ast.NewObject(s.Package, nm, t))
			}
			head := func() ast.Type { return ast.NewRef(s.Package, names[r.intn(n-1)]) }
			switch r.intn(4) {
			case 0:
				addField(ast.NewStructField("uid", head()))
			case 1:
				addField(ast.NewStructField("uids", ast.NewArray(head())))
			case 2:
				addField(ast.NewStructField("byName", ast.NewMap(ast.String(), head())))
			default:
				addField(ast.NewStructField("uidOrNum", ast.NewDisjunction(ast.Types{head(), ast.NewScalar(ast.KindBool)})))
			}
			if r.chance(50) {
				f := ast.NewStructField("uid2", head())
				f.Required = true
				addField(f)
			}
		}
		if s.EntryPoint == "" && r.chance(rate) {
			ep := pick(r, c05Keys(s))
			s.EntryPoint = ep
			s.EntryPointType = ast.NewRef(s.Package, ep)
		}
	}
}

func c05Permute(r *rng, ss ast.Schemas) {
	for _, s := range ss {
		keys := c05Keys(s)
		for i := len(keys) - 1; i > 0; i-- {
			j := r.intn(i + 1)
			keys[i], keys[j] = keys[j], keys[i]
		}
		nm := orderedmap.New[string, ast.Object]()
		for _, k := range keys {
			nm.Set(k, s.Objects.Get(k))
		}
		s.Objects = nm
	}
}

// ---- divergence guard: cog's resolution helpers recurse through references without a visited
// set (Schemas.ResolveToType by package+name, Schema.Resolve by bare name inside one schema, and
// through union branches).  A Go stack overflow cannot be recovered, so such inputs are never
// handed to cog (that cog does not terminate on them is property C04's business). ----

func c05AliasTargets(ss ast.Schemas, s *ast.Schema, t ast.Type, out *[]c05Addr) {
	switch {
	case t.Kind == ast.KindRef && t.Ref != nil:
		if c05Has(ss, t.Ref.ReferredPkg, t.Ref.ReferredType) {
			*out = append(*out, c05Addr{t.Ref.ReferredPkg, t.Ref.ReferredType})
		}
		if s != nil && s.Objects.Has(t.Ref.ReferredType) {
			*out = append(*out, c05Addr{s.Package, t.Ref.ReferredType})
		}
	case t.Kind == ast.KindDisjunction && t.Disjunction != nil:
		for _, b := range t.Disjunction.Branches {
			c05AliasTargets(ss, s, b, out)
		}
	case t.Kind == ast.KindIntersection && t.Intersection != nil:
		for _, b := range t.Intersection.Branches {
			c05AliasTargets(ss, s, b, out)
		}
	}
}

// c05CycleMember returns an object lying on an alias cycle, if any
func c05CycleMember(ss ast.Schemas) (c05Addr, bool) {
	state := map[c05Addr]int{}
	var hit c05Addr
	found := false
	var visit func(a c05Addr)
	visit = func(a c05Addr) {
		if found {
			return
		}
		switch state[a] {
		case 1:
			hit, found = a, true
			return
		case 2:
			return
		}
		state[a] = 1
		var s *ast.Schema
		for _, x := range ss {
			if x.Package == a.pkg {
				s = x
				break
			}
		}
		if s != nil && s.Objects.Has(a.name) {
			ts := []c05Addr{}
			c05AliasTargets(ss, s, s.Objects.Get(a.name).Type, &ts)
			for _, t := range ts {
				visit(t)
			}
		}
		state[a] = 2
	}
	seenPkg := map[string]bool{}
	for _, s := range ss {
		if s == nil || s.Objects == nil || seenPkg[s.Package] {
			continue
		}
		seenPkg[s.Package] = true
		for _, k := range c05Keys(s) {
			visit(c05Addr{s.Package, k})
			if found {
				return hit, true
			}
		}
	}
	return c05Addr{}, false
}

func c05HasCycle(ss ast.Schemas) bool {
	seen := map[string]bool{}
	for _, s := range ss {
		if s == nil || s.Objects == nil {
			return true // refuse
		}
		if seen[s.Package] {
			return true // duplicate packages: the guard's address space is ambiguous, refuse
		}
		seen[s.Package] = true
	}
	_, c := c05CycleMember(ss)
	return c
}

func c05BreakCycles(ss ast.Schemas) {
	for guard := 0; guard < 512; guard++ {
		a, ok := c05CycleMember(ss)
		if !ok {
			return
		}
		for _, s := range ss {
			if s.Package == a.pkg && s.Objects.Has(a.name) {
				o := s.Objects.Get(a.name)
				o.Type = ast.NewStruct(ast.NewStructField("v", ast.String()))
				s.Objects.Set(a.name, o)
				break
			}
		}
	}
}

// c05GenClosed draws one Closed IR
func c05GenClosed(r *rng, tier string) ast.Schemas {
	o := defaultIRGenOpts(tier)
	o.malformed = false
	ss := genSchemas(r, o)
	c05Enrich(r, ss, pick(r, []int{0, 10, 25, 40}))
	c05Repair(r, ss)
	c05BreakCycles(ss)
	c05Permute(r, ss)
	return ss
}

// c05GenMalformed: anything goes
func c05GenMalformed(r *rng, tier string) ast.Schemas {
	o := defaultIRGenOpts(tier)
	o.malformed = r.chance(70)
	ss := genSchemas(r, o)
	c05Enrich(r, ss, pick(r, []int{0, 10, 30}))
	if r.chance(50) {
		c05Repair(r, ss)
	}
	// damage
	for _, s := range ss {
		keys := c05Keys(s)
		if len(keys) == 0 {
			continue
		}
		if r.chance(12) {
			k := pick(r, keys)
			ob := s.Objects.Get(k)
			switch r.intn(3) {
			case 0:
				ob.Name = ob.Name + "x"
			case 1:
				ob.SelfRef.ReferredType = pick(r, []string{"Other", strings.ToLower(ob.Name), ""})
			default:
				ob.SelfRef.ReferredPkg = pick(r, []string{"zz", ""})
			}
			s.Objects.Set(k, ob)
		}
		if r.chance(10) {
			s.EntryPoint = pick(r, []string{"Missing", strings.ToLower(keys[0]), keys[0]})
			if r.chance(50) {
				s.EntryPointType = ast.NewRef(pick(r, []string{s.Package, "nopkg"}), s.EntryPoint)
			}
		}
		if r.chance(10) {
			k := pick(r, keys)
			ob := s.Objects.Get(k)
			c05EachType(&ob.Type, "", func(t *ast.Type, _ string) {
				if t.Kind == ast.KindDisjunction && t.Disjunction != nil && r.chance(60) {
					t.Disjunction.DiscriminatorMapping = map[string]string{"k1": pick(r, []string{"Missing", keys[0], ""})}
				}
			})
			s.Objects.Set(k, ob)
		}
	}
	if r.chance(60) {
		c05Break(r, ss, 1+r.intn(2))
	}
	if len(ss) > 0 && r.chance(8) { // duplicate package
		dup := ss[0].DeepCopy()
		if ks := c05Keys(&dup); len(ks) > 0 && r.chance(50) {
			dup.Objects.Remove(ks[0])
		}
		ss = append(ss, &dup)
	}
	c05Permute(r, ss)
	return ss
}

// c05Break makes k random uses dangling (or, at a low rate, points them at a package that is not
// loaded, which keeps the IR Closed)
func c05Break(r *rng, ss ast.Schemas, k int) {
	breakable := func(t *ast.Type) bool {
		switch t.Kind {
		case ast.KindRef:
			return t.Ref != nil
		case ast.KindConstantRef:
			return t.ConstantReference != nil
		case ast.KindDisjunction:
			return t.Disjunction != nil && len(t.Disjunction.DiscriminatorMapping) > 0
		case ast.KindStruct:
			_, d, ok := c05GenPayload(*t)
			return ok && len(d.DiscriminatorMapping) > 0
		}
		return false
	}
	for ; k > 0; k-- {
		total := 0
		c05EachObjectType(ss, func(_ *ast.Schema, _ string, root *ast.Type) {
			c05EachType(root, "", func(t *ast.Type, _ string) {
				if breakable(t) {
					total++
				}
			})
		})
		if total == 0 {
			return
		}
		n, idx := r.intn(total), 0
		c05EachObjectType(ss, func(_ *ast.Schema, _ string, root *ast.Type) {
			c05EachType(root, "", func(t *ast.Type, _ string) {
				if !breakable(t) {
					return
				}
				if idx == n {
					switch t.Kind {
					case ast.KindRef:
						t.Ref.ReferredType = pick(r, []string{"Missing", strings.ToLower(t.Ref.ReferredType), ""})
						if r.chance(15) {
							t.Ref.ReferredPkg = "nopkg"
						}
					case ast.KindConstantRef:
						t.ConstantReference.ReferredType = "Missing"
					case ast.KindDisjunction:
						t.Disjunction.DiscriminatorMapping[pick(r, c05SortedKeys(t.Disjunction.DiscriminatorMapping))] = "Missing"
					case ast.KindStruct:
						_, d, _ := c05GenPayload(*t)
						d.DiscriminatorMapping[pick(r, c05SortedKeys(d.DiscriminatorMapping))] = "Missing"
					}
				}
				idx++
			})
		})
	}
}

// ---- name-changing transformations ----

type c05Op struct {
	Name   string // rename | prefix | duplicate | unspec | replace
	Pkg    string
	Obj    string
	ToPkg  string
	To     string
	Omit   []string
	Prefix string
}

func (o c05Op) sexp() string {
	switch o.Name {
	case "rename":
		return "(rename " + virQuote(o.Pkg) + " " + virQuote(o.Obj) + " " + virQuote(o.To) + ")"
	case "prefix":
		return "(prefix " + virQuote(o.Prefix) + ")"
	case "unspec":
		return "(unspec)"
	case "duplicate":
		return "(duplicate " + virQuote(o.Pkg) + " " + virQuote(o.Obj) + " " + virQuote(o.ToPkg) + " " + virQuote(o.To) + " " + c05StrList(o.Omit) + ")"
	case "replace":
		return "(replace " + virQuote(o.Pkg) + " " + virQuote(o.Obj) + " " + virQuote(o.ToPkg) + " " + virQuote(o.To) + ")"
	}
	return "(unknown)"
}

func c05StrList(ss []string) string {
	parts := []string{}
	for _, x := range ss {
		parts = append(parts, virQuote(x))
	}
	return "(" + strings.Join(parts, " ") + ")"
}

func c05OpsSexp(ops []c05Op) string {
	parts := []string{}
	for _, o := range ops {
		parts = append(parts, o.sexp())
	}
	return "(" + strings.Join(parts, " ") + ")"
}

func (o c05Op) pass() compiler.Pass {
	switch o.Name {
	case "rename":
		return &compiler.RenameObject{From: compiler.ObjectReference{Package: o.Pkg, Object: o.Obj}, To: o.To}
	case "prefix":
		return &compiler.PrefixObjectNames{Prefix: o.Prefix}
	case "unspec":
		return &compiler.Unspec{}
	case "duplicate":
		return &compiler.DuplicateObject{Object: compiler.ObjectReference{Package: o.Pkg, Object: o.Obj}, As: compiler.ObjectReference{Package: o.ToPkg, Object: o.To}, OmitFields: o.Omit}
	case "replace":
		return &compiler.ReplaceReference{From: compiler.ObjectReference{Package: o.Pkg, Object: o.Obj}, To: compiler.ObjectReference{Package: o.ToPkg, Object: o.To}}
	}
	return nil
}

func c05OpFromSx(x *c05Sx) (c05Op, error) {
	d := &c05Dec{}
	if x == nil || x.kind != 'l' || len(x.list) == 0 || x.list[0].kind != 'a' {
		return c05Op{}, fmt.Errorf("bad op")
	}
	l := x.list
	op := c05Op{Name: l[0].text}
	want := map[string]int{"rename": 4, "prefix": 2, "unspec": 1, "duplicate": 6, "replace": 5}[op.Name]
	if want == 0 || len(l) != want {
		return c05Op{}, fmt.Errorf("bad op %s", op.Name)
	}
	switch op.Name {
	case "rename":
		op.Pkg, op.Obj, op.To = d.str(l[1]), d.str(l[2]), d.str(l[3])
	case "prefix":
		op.Prefix = d.str(l[1])
	case "duplicate":
		op.Pkg, op.Obj, op.ToPkg, op.To = d.str(l[1]), d.str(l[2]), d.str(l[3]), d.str(l[4])
		for _, e := range l[5].list {
			op.Omit = append(op.Omit, d.str(e))
		}
	case "replace":
		op.Pkg, op.Obj, op.ToPkg, op.To = d.str(l[1]), d.str(l[2]), d.str(l[3]), d.str(l[4])
	}
	return op, d.err
}

func c05CaseVariant(r *rng, s string) string {
	if s == "" {
		return s
	}
	switch r.intn(3) {
	case 0:
		return strings.ToLower(s)
	case 1:
		return strings.ToUpper(s)
	default:
		if strings.ToUpper(s[:1]) == s[:1] {
			return strings.ToLower(s[:1]) + s[1:]
		}
		return strings.ToUpper(s[:1]) + s[1:]
	}
}

// c05GenOp draws one operation against the current schemas.  `quirks` (percent) is the rate at
// which parameters are drawn that hit the confirmed quirks (letter-case variants of `from`).
func c05GenOp(r *rng, ss ast.Schemas, quirks int) c05Op {
	withObjs := []*ast.Schema{}
	for _, s := range ss {
		if len(c05Keys(s)) > 0 {
			withObjs = append(withObjs, s)
		}
	}
	if len(withObjs) == 0 {
		return c05Op{Name: "prefix", Prefix: "X"}
	}
	s := pick(r, withObjs)
	obj := pick(r, c05Keys(s))
	fresh := func(in *ast.Schema) string {
		return c05FreshName(in, pick(r, []string{"Zed", "Renamed", "Copy", "N"}))
	}
	switch n := r.intn(100); {
	case n < 35:
		from := obj
		if r.chance(quirks) {
			from = c05CaseVariant(r, obj)
		}
		to := fresh(s)
		if r.chance(12) {
			to = pick(r, c05Keys(s)) // collision (or rename onto itself)
		}
		return c05Op{Name: "rename", Pkg: s.Package, Obj: from, To: to}
	case n < 50:
		return c05Op{Name: "prefix", Prefix: pick(r, []string{"X", "Pre", "x_", "", "a-b"})}
	case n < 70:
		dst := s
		if r.chance(30) {
			dst = pick(r, ss)
		}
		to := fresh(dst)
		if r.chance(10) && len(c05Keys(dst)) > 0 {
			to = pick(r, c05Keys(dst))
		}
		op := c05Op{Name: "duplicate", Pkg: s.Package, Obj: obj, ToPkg: dst.Package, To: to}
		if r.chance(30) {
			op.Omit = []string{pick(r, irFieldNames)}
			if r.chance(50) {
				op.Omit = append(op.Omit, strings.ToUpper(pick(r, irFieldNames)))
			}
		}
		if r.chance(5) {
			op.ToPkg = "nopkg"
		}
		return op
	case n < 80:
		return c05Op{Name: "unspec"}
	default:
		from := obj
		if r.chance(quirks) {
			from = c05CaseVariant(r, obj)
		}
		ts := pick(r, withObjs)
		return c05Op{Name: "replace", Pkg: s.Package, Obj: from, ToPkg: ts.Package, To: pick(r, c05Keys(ts))}
	}
}

// c05SideGranted: the side conditions the property grants (replace_reference towards an
// existing object)
func c05SideGranted(op c05Op, ss ast.Schemas) bool {
	if op.Name == "replace" {
		return c05Has(ss, op.ToPkg, op.To)
	}
	return true
}
