package main

// Implementation-side oracle for C16: evaluates the property (which objects get a builder; every
// field covered exactly once; nothing extra) directly on the output of the real
// BuilderGenerator.FromAST. Written against the property text, not against the Lean model: its own
// resolver (visited set), its own notion of "the schema fixes the field's value".

import (
	"fmt"
	"strings"

	"github.com/grafana/cog/internal/ast"
)

// c16Resolve follows references. status: "ok" (a non-reference type), "dangling" (chain ends in an
// unresolvable reference), "cycle", "nilref" (Kind ref with a nil Ref pointer).
func c16Resolve(schemas ast.Schemas, t ast.Type) (ast.Type, string) {
	seen := map[string]bool{}
	for {
		if t.Kind != ast.KindRef {
			return t, "ok"
		}
		if t.Ref == nil {
			return t, "nilref"
		}
		key := t.Ref.ReferredPkg + "\x00" + t.Ref.ReferredType
		if seen[key] {
			return t, "cycle"
		}
		seen[key] = true
		var found *ast.Object
		for _, s := range schemas {
			if s.Package != t.Ref.ReferredPkg {
				continue
			}
			if s.Objects != nil && s.Objects.Has(t.Ref.ReferredType) {
				o := s.Objects.Get(t.Ref.ReferredType)
				found = &o
			}
			break // first schema with that package decides
		}
		if found == nil {
			return t, "dangling"
		}
		t = found.Type
	}
}

func isRealStruct(t ast.Type) bool { return t.Kind == ast.KindStruct && t.Struct != nil }

func pathIsField(p ast.Path, name string) bool {
	return len(p) == 1 && p[0].Identifier == name && p[0].Index == nil && !p[0].Root
}

// fixedValue: does the schema fix the value of this field? (property text: "when the schema fixes
// the field's value") Returns kind: "scalar" (concrete scalar), "ref" (reference to a constant),
// "cref" (constant reference), "" (not fixed).
func fixedValue(schemas ast.Schemas, f ast.StructField) (string, any) {
	if f.Type.Kind == ast.KindScalar && f.Type.Scalar != nil && f.Type.Scalar.Value != nil {
		return "scalar", f.Type.Scalar.Value
	}
	if f.Type.Kind == ast.KindRef {
		r, st := c16Resolve(schemas, f.Type)
		if st == "ok" && r.Kind == ast.KindScalar && r.Scalar != nil && r.Scalar.Value != nil {
			return "ref", r.Scalar.Value
		}
	}
	if f.Type.Kind == ast.KindConstantRef {
		return "cref", nil
	}
	return "", nil
}

func c16CheckOption(f ast.StructField, opt ast.Option) string {
	if len(opt.Args) != 1 {
		return fmt.Sprintf("option-args-count=%d", len(opt.Args))
	}
	if opt.Args[0].Name != f.Name {
		return "option-arg-name"
	}
	if virType(opt.Args[0].Type) != virType(f.Type) {
		return "option-arg-type"
	}
	if f.Type.Default == nil {
		if opt.Default != nil {
			return "option-default-unexpected"
		}
	} else {
		if opt.Default == nil || len(opt.Default.ArgsValues) != 1 || virVal(opt.Default.ArgsValues[0]) != virVal(f.Type.Default) {
			return "option-default-missing-or-different"
		}
	}
	if len(opt.Assignments) != 1 {
		return fmt.Sprintf("option-assignments-count=%d", len(opt.Assignments))
	}
	a := opt.Assignments[0]
	if !pathIsField(a.Path, f.Name) || virType(a.Path[0].Type) != virType(f.Type) || a.Path[0].TypeHint != nil {
		return "assignment-path"
	}
	if a.Method != ast.DirectAssignment {
		return "assignment-method"
	}
	if a.Value.Argument == nil || a.Value.Constant != nil || a.Value.Envelope != nil {
		return "assignment-value-not-argument"
	}
	if a.Value.Argument.Name != f.Name || virType(a.Value.Argument.Type) != virType(f.Type) {
		return "assignment-argument"
	}
	var want []ast.TypeConstraint
	if f.Type.Kind == ast.KindScalar && f.Type.Scalar != nil {
		want = f.Type.Scalar.Constraints
	}
	if len(a.Constraints) != len(want) {
		return "constraints-count"
	}
	for i, c := range want {
		got := a.Constraints[i]
		if got.Op != c.Op || len(c.Args) == 0 || virVal(got.Parameter) != virVal(c.Args[0]) ||
			got.Argument.Name != f.Name || virType(got.Argument.Type) != virType(f.Type) {
			return "constraint-differs"
		}
	}
	if len(a.NilChecks) != 0 {
		return "nilchecks"
	}
	if strings.Join(opt.Comments, "\x00") != strings.Join(f.Comments, "\x00") {
		return "option-comments"
	}
	return ""
}

// c16Oracle returns "ok" or "FAIL <class>: <detail>"
func c16Oracle(schemas ast.Schemas, bs []ast.Builder) string {
	// 1. which objects get a builder (order = schema order, then object order)
	type exp struct {
		pkg string
		obj ast.Object
		st  ast.Type
	}
	expected := []exp{}
	for _, s := range schemas {
		for _, o := range schemaObjects(s) {
			r, st := c16Resolve(schemas, o.Type)
			if st == "ok" && isRealStruct(r) {
				expected = append(expected, exp{s.Package, o, r})
			}
		}
	}
	if len(expected) != len(bs) {
		return fmt.Sprintf("FAIL which-builders: expected %d builders, got %d", len(expected), len(bs))
	}
	for i, e := range expected {
		b := bs[i]
		if b.Package != e.pkg || b.Name != e.obj.Name || virObject(b.For) != virObject(e.obj) {
			return fmt.Sprintf("FAIL which-builders: builder %d is %s.%s, expected %s.%s", i, b.Package, b.Name, e.pkg, e.obj.Name)
		}
		if len(b.Properties) != 0 || len(b.Constructor.Args) != 0 || len(b.Factories) != 0 {
			return fmt.Sprintf("FAIL extra-members: %s.%s has properties/constructor args/factories", b.Package, b.Name)
		}
		// 2. every field covered exactly once
		covered := map[int]bool{}  // option index -> used
		ccovered := map[int]bool{} // constructor assignment index -> used
		for _, f := range e.st.Struct.Fields {
			optsFor, constsFor := []int{}, []int{}
			for oi, opt := range b.Options {
				for _, a := range opt.Assignments {
					if pathIsField(a.Path, f.Name) {
						optsFor = append(optsFor, oi)
						break
					}
				}
			}
			for ci, a := range b.Constructor.Assignments {
				if pathIsField(a.Path, f.Name) {
					constsFor = append(constsFor, ci)
				}
			}
			where := fmt.Sprintf("%s.%s.%s", b.Package, b.Name, f.Name)
			kind, val := fixedValue(schemas, f)
			switch kind {
			case "":
				if len(optsFor) != 1 || len(constsFor) != 0 {
					return fmt.Sprintf("FAIL field-not-covered-by-one-option: %s options=%d constants=%d", where, len(optsFor), len(constsFor))
				}
				if why := c16CheckOption(f, b.Options[optsFor[0]]); why != "" {
					return fmt.Sprintf("FAIL option-mismatch(%s): %s", why, where)
				}
				covered[optsFor[0]] = true
			case "cref":
				if len(optsFor) != 0 || len(constsFor) != 0 {
					return fmt.Sprintf("FAIL constant-reference-covered: %s options=%d constants=%d", where, len(optsFor), len(constsFor))
				}
			default:
				if len(optsFor) != 0 {
					return fmt.Sprintf("FAIL fixed-field-has-option(%s): %s required=%v nullable=%v options=%d constants=%d", kind, where, f.Required, f.Type.Nullable, len(optsFor), len(constsFor))
				}
				if len(constsFor) != 1 {
					return fmt.Sprintf("FAIL fixed-field-not-one-constant(%s): %s constants=%d", kind, where, len(constsFor))
				}
				a := b.Constructor.Assignments[constsFor[0]]
				if a.Value.Argument != nil || a.Value.Envelope != nil || virVal(a.Value.Constant) != virVal(val) ||
					a.Method != ast.DirectAssignment || virType(a.Path[0].Type) != virType(f.Type) || len(a.Constraints) != 0 {
					return fmt.Sprintf("FAIL constant-mismatch: %s", where)
				}
				ccovered[constsFor[0]] = true
			}
		}
		// 3. nothing extra
		for oi, opt := range b.Options {
			if !covered[oi] {
				return fmt.Sprintf("FAIL extra-option: %s.%s option %q corresponds to no field", b.Package, b.Name, opt.Name)
			}
		}
		for ci := range b.Constructor.Assignments {
			if !ccovered[ci] {
				return fmt.Sprintf("FAIL extra-constant: %s.%s constructor assignment %d corresponds to no field", b.Package, b.Name, ci)
			}
		}
	}
	return "ok"
}

// c16PanicVerdict: FromAST panicked. Is the input inside the property's quantifier?
// Nil kind pointers and constraints without arguments are not IR values any front-end or pass
// produces (C04 territory): verdict ok (the correspondence still compares model and code).
// A dangling alias chain is a schema set like any other for "exactly the objects that are structs -
// directly or through a chain of references - get a builder": FAIL (this was /repo's behaviour until
// eed3e31; a relapse is a violation).
func c16PanicVerdict(schemas ast.Schemas, msg string) string {
	nilKind := false
	var walk func(t ast.Type)
	walk = func(t ast.Type) {
		switch t.Kind {
		case ast.KindScalar:
			if t.Scalar == nil {
				nilKind = true
				return
			}
			for _, c := range t.Scalar.Constraints {
				if len(c.Args) == 0 {
					nilKind = true
				}
			}
		case ast.KindRef:
			nilKind = nilKind || t.Ref == nil
		case ast.KindConstantRef:
			nilKind = nilKind || t.ConstantReference == nil
		case ast.KindStruct:
			if t.Struct == nil {
				nilKind = true
				return
			}
			for _, f := range t.Struct.Fields {
				walk(f.Type)
			}
		case ast.KindArray:
			if t.Array == nil {
				nilKind = true
				return
			}
			walk(t.Array.ValueType)
		case ast.KindMap:
			if t.Map == nil {
				nilKind = true
				return
			}
			walk(t.Map.IndexType)
			walk(t.Map.ValueType)
		case ast.KindEnum:
			nilKind = nilKind || t.Enum == nil
		case ast.KindDisjunction:
			if t.Disjunction == nil {
				nilKind = true
				return
			}
			for _, b := range t.Disjunction.Branches {
				walk(b)
			}
		case ast.KindIntersection:
			if t.Intersection == nil {
				nilKind = true
				return
			}
			for _, b := range t.Intersection.Branches {
				walk(b)
			}
		case ast.KindComposableSlot:
			nilKind = nilKind || t.ComposableSlot == nil
		default:
			nilKind = true
		}
	}
	dangling := ""
	for _, s := range schemas {
		for _, o := range schemaObjects(s) {
			walk(o.Type)
			if o.Type.Kind == ast.KindRef && o.Type.Ref != nil {
				if _, st := c16Resolve(schemas, o.Type); st == "dangling" && dangling == "" {
					dangling = s.Package + "." + o.Name
				}
			}
		}
	}
	if nilKind {
		return "ok"
	}
	if dangling != "" {
		return fmt.Sprintf("FAIL panic-dangling-alias-chain: FromAST panicked (%s); object %s is a reference chain ending in an unresolvable reference", firstLine(msg), dangling)
	}
	return "FAIL panic: FromAST panicked: " + firstLine(msg)
}

func firstLine(s string) string {
	if i := strings.IndexByte(s, '\n'); i >= 0 {
		return s[:i]
	}
	return s
}
