package main

// C09: the SOURCE-side judgement of option arguments.
//
// "A constraint-violating argument is reported, an argument that satisfies the schema never
// fails": which of the two an argument is must be read off the SOURCE term (the schema as it was
// written, in whatever input format), not off the builder IR the pipeline computed from it —
// a front-end that mangles a bound produces an IR in which the generated Validate() / the Python
// checks and an IR-derived oracle agree with each other and both disagree with the schema.
//
// This file has (1) the walk from a builder's object along an option's target path to the source
// type of the target, (2) the judgement "does this plain JSON value violate that type", (3) the
// argument values drawn around the source bounds (bound-1, bound, bound+1, their negations, 0).

import (
	"math"
	"strconv"
	"strings"

	"github.com/grafana/cog/internal/ast"
)

// c09SrcTypeAt walks the source term from definition def along the selectors of an assignment
// path (member names, index selectors into arrays / dicts). elem: the assignment appends, the
// value is one element of the target array. nullable: the last member met is declared nullable.
func c09SrcTypeAt(d *Defs, def string, sels []c09Sel, elem bool) (ty *Src, nullable bool, ok bool) {
	ty, nullable, _, ok = c09SrcMemberAt(d, def, sels, elem)
	return ty, nullable, ok
}

// c09SrcMemberAt: the same, and whether the last member met declares a default
func c09SrcMemberAt(d *Defs, def string, sels []c09Sel, elem bool) (ty *Src, nullable bool, hasDefault bool, ok bool) {
	if d == nil {
		return nil, false, false, false
	}
	cur := d.lookup(def)
	for _, s := range sels {
		cur, _ = d.resolve(cur).unwrap()
		cur = d.resolve(cur)
		if cur == nil {
			return nil, false, false, false
		}
		if s.isIdx {
			if cur.Kind != SArray && cur.Kind != SDict {
				return nil, false, false, false
			}
			cur, nullable = cur.Elem, false
			continue
		}
		if cur.Kind != SStruct {
			return nil, false, false, false
		}
		var next *Src
		for _, f := range cur.Fields {
			if f.Name == s.key {
				next, nullable, hasDefault = f.Ty, f.Nullable, f.Default != nil
			}
		}
		cur = next
	}
	if cur == nil {
		return nil, false, false, false
	}
	if elem {
		a, _ := d.resolve(cur).unwrap()
		a = d.resolve(a)
		if a == nil || a.Kind != SArray {
			return nil, false, false, false
		}
		cur, nullable = a.Elem, false
	}
	return cur, nullable, hasDefault, cur != nil
}

func c09Num(v JV) (float64, bool) {
	if v.K != 'n' {
		return 0, false
	}
	x, err := strconv.ParseFloat(v.S, 64)
	if err != nil || math.IsNaN(x) || math.IsInf(x, 0) {
		return 0, false
	}
	return x, true
}

// c09SrcViolates: does the plain JSON value v violate a constraint the source term ty states
// (bounds of an integer / number, length limits of a string), anywhere inside it?  known=false:
// the judgement is not made here (unions, values of another JSON kind, documents with missing
// required members) and the caller keeps whatever other judgement it has.
func (d *Defs) c09SrcViolates(ty *Src, v JV, nullable bool, depth int) (viol bool, known bool) {
	return d.c09SrcViolatesF(ty, v, nullable, depth, c09JudgeCue)
}

// c09JudgeCue: the case under judgement was written in CUE, where a range admitting one value IS that value
// (`>=84 & <=84` unifies to the constant 84): such a member is a constant like any other, and whether a value
// equals a constant is a matter of type, not one of the constraints builders check. Set per case by the streams.
var c09JudgeCue bool

func (d *Defs) c09SrcViolatesF(ty *Src, v JV, nullable bool, depth int, cue bool) (viol bool, known bool) {
	if depth > 12 || ty == nil {
		return false, false
	}
	ty = d.resolve(ty)
	if ty == nil {
		return false, false
	}
	if ty.Kind == SNullable {
		return d.c09SrcViolatesF(ty.Elem, v, true, depth+1, cue)
	}
	if v.isNull() {
		return false, nullable
	}
	switch ty.Kind {
	case SAny:
		return false, true
	case SBool:
		return false, v.K == 'b'
	case SConst, SEnumS, SEnumI:
		return false, true // membership is a matter of type, not of a constraint the builders are meant to check
	case SString:
		if v.K != 's' {
			return false, false
		}
		if ty.DateTime {
			return false, true
		}
		n := int64(len([]rune(v.S)))
		return (ty.MinLen != nil && n < *ty.MinLen) || (ty.MaxLen != nil && n > *ty.MaxLen), true
	case SInt:
		x, ok := c09Num(v)
		if !ok || x != math.Trunc(x) || math.Abs(x) > 9e15 {
			return false, false
		}
		tlo, thi, _ := intTypeRange(ty.Width, ty.Signed)
		if x < float64(tlo) || x > float64(thi) {
			return false, false // not a value of the type at all: a decoding matter
		}
		if lo, hi := ty.effRange(); cue && lo == hi {
			return false, false
		}
		i := int64(x)
		return (ty.Lo != nil && i < *ty.Lo) || (ty.Hi != nil && i > *ty.Hi), true
	case SNum:
		x, ok := c09Num(v)
		if !ok {
			return false, false
		}
		if cue && ty.FLo != nil && ty.FHi != nil && *ty.FLo == *ty.FHi {
			return false, false
		}
		return (ty.FLo != nil && x < *ty.FLo) || (ty.FHi != nil && x > *ty.FHi), true
	case SArray:
		if v.K != 'a' {
			return false, false
		}
		for _, e := range v.A {
			vi, kn := d.c09SrcViolatesF(ty.Elem, e, false, depth+1, cue)
			if !kn {
				return false, false
			}
			if vi {
				return true, true
			}
		}
		return false, true
	case SDict:
		if v.K != 'o' {
			return false, false
		}
		for _, e := range v.O {
			vi, kn := d.c09SrcViolatesF(ty.Elem, e.V, false, depth+1, cue)
			if !kn {
				return false, false
			}
			if vi {
				return true, true
			}
		}
		return false, true
	case SStruct:
		if v.K != 'o' {
			return false, false
		}
		for _, f := range ty.Fields {
			x, present := v.get(f.Name)
			if !present {
				if f.Required {
					return false, false
				}
				continue
			}
			vi, kn := d.c09SrcViolatesF(f.Ty, x, f.Nullable || !f.Required, depth+1, cue)
			if !kn {
				return false, false
			}
			if vi {
				return true, true
			}
		}
		return false, true
	}
	return false, false
}

// c09SrcShape: the source type of a target as the verdict text shows it (known findings are
// matched on it): the term behind references, with the name of the reference in front.
func (d *Defs) c09SrcShape(ty *Src) string {
	if ty == nil {
		return "-"
	}
	pre := ""
	for n := 0; ty != nil && n < 8; n++ {
		switch {
		case ty.Kind == SRef:
			pre += "ref:"
			ty = d.lookup(ty.Ref)
			continue
		case ty.Kind == SNullable:
			pre += "nullable:"
			ty = ty.Elem
			continue
		}
		break
	}
	if ty == nil {
		return pre + "-"
	}
	if ty.Kind == SStruct {
		return pre + "(struct)"
	}
	return pre + strings.ReplaceAll(ty.sexp(), " ", "_")
}

// c09ParseViolPath: "a.b[3].c" / "m[key]" as selectors (the path text of a reported violation)
func c09ParseViolPath(p string) []c09Sel {
	var out []c09Sel
	cur := ""
	flush := func() {
		if cur != "" {
			out = append(out, c09Sel{key: cur})
			cur = ""
		}
	}
	for i := 0; i < len(p); i++ {
		switch p[i] {
		case '.':
			flush()
		case '[':
			flush()
			j := strings.IndexByte(p[i:], ']')
			if j < 0 {
				return nil
			}
			out = append(out, c09Sel{key: p[i+1 : i+j], isIdx: true})
			i += j
		default:
			cur += string(p[i])
		}
	}
	flush()
	return out
}

// c09DocAt: the value a document holds at the selectors
func c09DocAt(doc JV, sels []c09Sel) (JV, bool) {
	cur := doc
	for _, s := range sels {
		switch {
		case s.isIdx && cur.K == 'a':
			i, err := strconv.Atoi(s.key)
			if err != nil || i < 0 || i >= len(cur.A) {
				return jNull(), false
			}
			cur = cur.A[i]
		case cur.K == 'o':
			x, ok := cur.get(s.key)
			if !ok {
				return jNull(), false
			}
			cur = x
		default:
			return jNull(), false
		}
	}
	return cur, true
}

// ---------------------------------------------------------------------------------------------
// arguments around the source bounds

// c09SrcBoundaryScalars: values of a bounded scalar source type at bound-1, bound, bound+1, their
// negations and 0 (numbers: also a quarter off each bound; strings: lengths around the limits).
func c09SrcBoundaryScalars(ty *Src) []JV {
	var out []JV
	seen := map[string]bool{}
	add := func(v JV) {
		if !seen[v.json()] {
			seen[v.json()] = true
			out = append(out, v)
		}
	}
	switch ty.Kind {
	case SInt:
		if ty.Lo == nil && ty.Hi == nil {
			return nil
		}
		tlo, thi, _ := intTypeRange(ty.Width, ty.Signed)
		addI := func(i int64) {
			if i >= tlo && i <= thi && i > -1000000000000 && i < 1000000000000 {
				add(jInt(i))
			}
		}
		for _, b := range []*int64{ty.Lo, ty.Hi} {
			if b == nil || *b < -1000000000000 || *b > 1000000000000 {
				continue
			}
			for _, dlt := range []int64{-1, 0, 1} {
				addI(*b + dlt)
				addI(-(*b + dlt))
			}
		}
		addI(0)
	case SNum:
		if ty.FLo == nil && ty.FHi == nil {
			return nil
		}
		for _, b := range []*float64{ty.FLo, ty.FHi} {
			if b == nil || math.Abs(*b) > 1e9 {
				continue
			}
			for _, dlt := range []float64{-1, -0.25, 0, 0.25, 1} {
				add(jFloat(*b + dlt))
				if *b+dlt != 0 {
					add(jFloat(-(*b + dlt)))
				}
			}
		}
		add(jFloat(0))
	case SString:
		if ty.DateTime || (ty.MinLen == nil && ty.MaxLen == nil) {
			return nil
		}
		for _, b := range []*int64{ty.MinLen, ty.MaxLen} {
			if b == nil || *b > 64 {
				continue
			}
			for _, dlt := range []int64{-1, 0, 1} {
				if n := *b + dlt; n >= 0 {
					add(jStr(strings.Repeat("k", int(n))))
				}
			}
		}
	}
	return out
}

// c09BoundaryCalls: calls of option o whose single plain argument is drawn around the bounds the
// SOURCE states for the option's target (a bounded scalar member, possibly nullable, behind a named
// scalar, or the element of an array / the value of a dict): at most k calls, a source-valid and a
// source-violating one first when both exist.
func (o *c09Oracle) c09BoundaryCalls(g *c09Gen, b ast.Builder, opt ast.Option, k int) []c09Call {
	if o.defs == nil || len(opt.Args) != 1 || len(opt.Assignments) != 1 || g.resolvesToBuilder(opt.Args[0].Type) {
		return nil
	}
	c09JudgeCue = o.c != nil && o.c.Format == "cue"
	a := opt.Assignments[0]
	if a.Value.Argument == nil || a.Value.Argument.Name != opt.Args[0].Name {
		return nil
	}
	sels, why := o.selectors(a.Path, opt.Args, nil)
	if why != "" {
		return nil
	}
	o.retarget(sels, a, 1, o.targets[b.Name][opt.Name], nil)
	ty, _, ok := c09SrcTypeAt(o.defs, b.For.SelfRef.ReferredType, sels, a.Method == ast.AppendAssignment)
	if !ok {
		return nil
	}
	// the argument's JSON shape follows the source type: scalar, [scalar], {"k": scalar}
	wrap := func(v JV) JV { return v }
	ty, _ = o.defs.resolve(ty).unwrap()
	ty = o.defs.resolve(ty)
	if ty == nil {
		return nil
	}
	switch ty.Kind {
	case SArray:
		wrap = func(v JV) JV { return jArr(v) }
		ty, _ = o.defs.resolve(ty.Elem).unwrap()
		ty = o.defs.resolve(ty)
	case SDict:
		wrap = func(v JV) JV { return jObj(kv("k1", v)) }
		ty, _ = o.defs.resolve(ty.Elem).unwrap()
		ty = o.defs.resolve(ty)
	}
	if ty == nil {
		return nil
	}
	vals := c09SrcBoundaryScalars(ty)
	if len(vals) == 0 {
		return nil
	}
	var good, bad []JV
	for _, v := range vals {
		if vi, kn := o.defs.c09SrcViolates(ty, v, false, 0); kn {
			if vi {
				bad = append(bad, v)
			} else {
				good = append(good, v)
			}
		}
	}
	shuffle := func(xs []JV) {
		for i := len(xs) - 1; i > 0; i-- {
			j := g.r.intn(i + 1)
			xs[i], xs[j] = xs[j], xs[i]
		}
	}
	shuffle(good)
	shuffle(bad)
	var picked []JV
	for len(picked) < k && (len(good) > 0 || len(bad) > 0) {
		if len(good) > 0 {
			picked, good = append(picked, good[0]), good[1:]
		}
		if len(picked) < k && len(bad) > 0 {
			picked, bad = append(picked, bad[0]), bad[1:]
		}
	}
	var out []c09Call
	for _, v := range picked {
		arg := c09Arg{Kind: 'j', J: wrap(v)}
		arg.Violates = g.violates(opt.Args[0].Type, arg.J, 0)
		out = append(out, c09Call{Opt: opt.Name, Args: []c09Arg{arg}})
	}
	return out
}
