package main

// C04: generator of YAML configuration documents (pipeline config, compiler passes, veneers) from
// the key tables of the three config files: /verif/.work/c20/facts.json when present (the tables
// measured by the C20 extractor from the Go structs), otherwise the published JSON Schemas in
// /repo/schemas/*.json.  Documents are "plausible with faults": values are drawn by key name so
// that documents load and reach the code behind the loader, and every node is replaced with a
// wrong-shaped value (null, empty list/map, list holding a null, scalar of another type, …) at a
// configurable rate.  Documents are emitted in JSON flow syntax, which yaml.v3 reads as YAML;
// a few YAML-only spellings (`~`, anchors/aliases, tags) are injected as raw scalars.

import (
	"encoding/json"
	"fmt"
	"os"
	"sort"
	"strings"
)

type cfgTy struct {
	K      string // scalar | list | map | struct | any | ref
	Go     string
	Elem   *cfgTy
	Ref    int
	Fields []cfgField
}

type cfgField struct {
	Key string
	Ty  *cfgTy
}

type cfgFile struct {
	Name string
	Defs []cfgDef
	Root int
}

type cfgDef struct {
	Name string
	Ty   *cfgTy
}

// ---------- loading the tables ----------

func cfgFromFacts(path string) (map[string]*cfgFile, error) {
	raw, err := os.ReadFile(path)
	if err != nil {
		return nil, err
	}
	var doc struct {
		Files []struct {
			Name  string `json:"name"`
			Lroot int    `json:"lroot"`
			Lenv  []struct {
				Name   string `json:"name"`
				Fields []struct {
					Key string          `json:"key"`
					Ty  json.RawMessage `json:"ty"`
				} `json:"fields"`
			} `json:"lenv"`
		} `json:"files"`
	}
	if err := json.Unmarshal(raw, &doc); err != nil {
		return nil, err
	}
	var conv func(raw json.RawMessage) (*cfgTy, error)
	conv = func(raw json.RawMessage) (*cfgTy, error) {
		var t struct {
			K    string          `json:"k"`
			Go   string          `json:"go"`
			Ref  int             `json:"ref"`
			Elem json.RawMessage `json:"elem"`
		}
		if err := json.Unmarshal(raw, &t); err != nil {
			return nil, err
		}
		out := &cfgTy{K: t.K, Go: t.Go, Ref: t.Ref}
		switch t.K {
		case "fmap":
			out.K = "map"
		case "scalar", "list", "ref", "any":
		default:
			return nil, fmt.Errorf("facts.json: unknown type kind %q", t.K)
		}
		if len(t.Elem) > 0 {
			e, err := conv(t.Elem)
			if err != nil {
				return nil, err
			}
			out.Elem = e
		}
		return out, nil
	}
	files := map[string]*cfgFile{}
	for _, f := range doc.Files {
		cf := &cfgFile{Name: f.Name, Root: f.Lroot}
		for _, s := range f.Lenv {
			st := &cfgTy{K: "struct"}
			for _, fd := range s.Fields {
				ty, err := conv(fd.Ty)
				if err != nil {
					return nil, err
				}
				st.Fields = append(st.Fields, cfgField{fd.Key, ty})
			}
			cf.Defs = append(cf.Defs, cfgDef{s.Name, st})
		}
		files[f.Name] = cf
	}
	if len(files) < 3 {
		return nil, fmt.Errorf("facts.json: expected three config files")
	}
	return files, nil
}

func cfgFromPublished() (map[string]*cfgFile, error) {
	files := map[string]*cfgFile{}
	for name, path := range map[string]string{"pipeline": "schemas/pipeline.json", "compiler": "schemas/compiler_passes.json", "veneers": "schemas/veneers.json"} {
		raw, err := os.ReadFile(path)
		if err != nil {
			return nil, err
		}
		root, err := jParse(raw)
		if err != nil {
			return nil, err
		}
		defs := root.get("$defs")
		if defs == nil || defs.kind != "obj" {
			return nil, fmt.Errorf("%s: no $defs", path)
		}
		index := map[string]int{}
		for i, k := range defs.keys {
			index[k] = i
		}
		var conv func(n *jNode) (*cfgTy, error)
		conv = func(n *jNode) (*cfgTy, error) {
			if n.kind == "bool" {
				return &cfgTy{K: "any"}, nil
			}
			if n.kind != "obj" {
				return nil, fmt.Errorf("%s: schema node is not an object", path)
			}
			if ref := n.get("$ref"); ref != nil {
				name := strings.TrimPrefix(ref.s, "#/$defs/")
				i, ok := index[name]
				if !ok {
					return nil, fmt.Errorf("%s: dangling $ref %s", path, ref.s)
				}
				return &cfgTy{K: "ref", Ref: i}, nil
			}
			typ := ""
			if t := n.get("type"); t != nil {
				typ = t.s
			}
			switch typ {
			case "string":
				return &cfgTy{K: "scalar", Go: "string"}, nil
			case "boolean":
				return &cfgTy{K: "scalar", Go: "bool"}, nil
			case "integer", "number":
				return &cfgTy{K: "scalar", Go: "int"}, nil
			case "array":
				it := n.get("items")
				if it == nil {
					return &cfgTy{K: "list", Elem: &cfgTy{K: "any"}}, nil
				}
				e, err := conv(it)
				if err != nil {
					return nil, err
				}
				return &cfgTy{K: "list", Elem: e}, nil
			case "object":
				if p := n.get("properties"); p != nil && p.kind == "obj" {
					st := &cfgTy{K: "struct"}
					for i, k := range p.keys {
						ft, err := conv(p.vals[i])
						if err != nil {
							return nil, err
						}
						st.Fields = append(st.Fields, cfgField{k, ft})
					}
					return st, nil
				}
				if ap := n.get("additionalProperties"); ap != nil && ap.kind == "obj" {
					e, err := conv(ap)
					if err != nil {
						return nil, err
					}
					return &cfgTy{K: "map", Elem: e}, nil
				}
				return &cfgTy{K: "struct"}, nil
			case "":
				return &cfgTy{K: "any"}, nil
			}
			return nil, fmt.Errorf("%s: unsupported schema type %q", path, typ)
		}
		cf := &cfgFile{Name: name}
		for i, k := range defs.keys {
			ty, err := conv(defs.vals[i])
			if err != nil {
				return nil, err
			}
			cf.Defs = append(cf.Defs, cfgDef{k, ty})
		}
		rr := root.get("$ref")
		if rr == nil {
			return nil, fmt.Errorf("%s: no root $ref", path)
		}
		ri, ok := index[strings.TrimPrefix(rr.s, "#/$defs/")]
		if !ok {
			return nil, fmt.Errorf("%s: dangling root", path)
		}
		cf.Root = ri
		files[name] = cf
	}
	return files, nil
}

func cfgLoad(factsPath string) (map[string]*cfgFile, string, error) {
	if factsPath != "" {
		if f, err := cfgFromFacts(factsPath); err == nil {
			return f, "facts.json", nil
		}
	}
	f, err := cfgFromPublished()
	return f, "published-schemas", err
}

// ---------- generation ----------

type cfgGen struct {
	r      *rng
	file   *cfgFile
	fault  int // percent chance, per node, of a wrong-shaped value
	asbad  bool
	faults int
	pkgs   []string
	objs   []string
	fields []string
	paths  []string
	maxDep int
}

var cfgKinds = []string{"scalar", "ref", "array", "map", "struct", "enum", "disjunction", "intersection", "constant_ref", "composable_slot"}
var cfgPayload = map[string]string{"scalar": "scalar", "ref": "ref", "array": "array", "map": "map", "struct": "struct", "enum": "enum",
	"disjunction": "disjunction", "intersection": "intersection", "constant_ref": "constantreference", "composable_slot": "composable_slot"}
var cfgScalarKinds = []string{"string", "bool", "int64", "int32", "uint8", "float64", "float32", "any", "bytes", "null", "uint64", "int8", "nope", ""}

func (g *cfgGen) isTypeDef(name string) bool {
	return name == "ast.Type" || name == "AstType"
}

func (g *cfgGen) wrong() *jNode {
	g.faults++
	return c04WeirdValue(g.r, 1)
}

func (g *cfgGen) str(key string) *jNode {
	r := g.r
	k := strings.ToLower(key)
	obj := func() string { return pick(r, g.pkgs) + "." + pick(r, g.objs) }
	switch {
	case k == "kind":
		return jStr(pick(r, append([]string{"core", "composable"}, cfgKinds...)))
	case k == "scalar_kind":
		return jStr(pick(r, cfgScalarKinds))
	case k == "variant" || k == "by_variant":
		return jStr(pick(r, []string{"dataquery", "panelcfg", "", "nope"}))
	case k == "language":
		return jStr(pick(r, []string{"all", "go", "python", "typescript", "java", "php", "", "nope"}))
	case k == "package" || k == "referred_pkg":
		return jStr(pick(r, g.pkgs))
	case k == "referred_type" || k == "by_object" || k == "source" || k == "destination" || k == "builder" || k == "source_builder_name" || k == "composed_builder_name":
		return jStr(pick(r, g.objs))
	case k == "object" && g.file.Name == "veneers":
		return jStr(pick(r, g.objs))
	case k == "by_name" || k == "by_builder":
		if r.chance(50) {
			return jStr(pick(r, g.objs) + "." + pick(r, g.fields))
		}
		return jStr(pick(r, g.objs))
	case k == "object" || k == "from" || k == "to" || k == "objects" || k == "allowed_objects":
		if r.chance(8) {
			return jStr(pick(r, []string{"", "a", "a.b.c", ".", "p.", ".Foo"}))
		}
		return jStr(obj())
	case k == "as":
		if r.chance(50) {
			return jStr(obj())
		}
		return jStr(pick(r, g.objs))
	case k == "field" || k == "fields" || k == "omit_fields":
		if g.file.Name == "veneers" {
			return jStr(pick(r, g.fields))
		}
		if r.chance(8) {
			return jStr(pick(r, []string{"", "a.b", "a.b.c.d", ".."}))
		}
		if k == "omit_fields" {
			return jStr(pick(r, g.fields))
		}
		return jStr(obj() + "." + pick(r, g.fields))
	case k == "name" || k == "property" || k == "options" || k == "exclude_options" || k == "entry_point" || k == "true_as" || k == "false_as" || k == "plugin_discriminator_field" || k == "under_path":
		return jStr(pick(r, append([]string{"", "x", "Opt", "with x"}, g.fields...)))
	case k == "path" || k == "method":
		if g.file.Name == "veneers" {
			if k == "method" {
				return jStr(pick(r, []string{"direct", "append", "index", "", "nope"}))
			}
			return jStr(pick(r, []string{"a", "a.b", "", ".", "a..b", "kind", "items", "a[0]"}))
		}
		return jStr(pick(r, g.paths))
	case k == "entrypoint" || k == "directory" || k == "repository_templates" || k == "transformations" || k == "schemas" || k == "builders" || k == "extra_files_templates" || k == "overrides_templates":
		return jStr(pick(r, g.paths))
	case k == "url":
		return jStr(pick(r, []string{"", ":", "file:///nope", "%zz", "nope"}))
	case k == "if":
		return jStr(pick(r, []string{"", "true", "false", "1 +", "1", "sprintf('%s', 1)", "semver('1.0.0').Major > 0", "semver('x').Major > 0", "nil.x", "[1][5]", "1/0 > 0", "sprintf(1)", "semver()"}))
	case k == "op":
		return jStr(pick(r, []string{"minLength", "maxLength", ">", ">=", "<", "<=", "==", "!=", "multipleOf", "", "nope"}))
	case k == "cue_imports":
		return jStr(pick(r, []string{"", ":", "a:b", "%__config_dir%/in:github.com/x/y", "nocolon"}))
	case k == "version" || k == "identifier" || k == "forced_envelope" || k == "discriminator":
		return jStr(pick(r, []string{"", "x", "kind", "next", "v1.0.0"}))
	}
	return jStr(pick(r, []string{"", "x", "Foo", "a b", "%l", "%nope%", "é"}))
}

// a well-formed (or, with bad=true, deliberately payload-less / mismatched) ast.Type document
func (g *cfgGen) astType(depth int, def *cfgTy) *jNode {
	r := g.r
	kind := pick(r, cfgKinds)
	if depth >= 2 {
		kind = pick(r, []string{"scalar", "ref", "scalar", "enum"})
	}
	n := jObj("kind", jStr(kind))
	bad := r.chance(g.fault)
	payloadKey := cfgPayload[kind]
	if bad {
		g.asbad = true
		switch r.intn(4) {
		case 0: // no payload at all
			payloadKey = ""
		case 1: // payload of another kind
			payloadKey = cfgPayload[pick(r, cfgKinds)]
			if payloadKey == cfgPayload[kind] {
				payloadKey = ""
			}
		case 2: // payload present but null
			n.set(payloadKey, jNull())
			payloadKey = ""
		default: // unknown kind
			n.set("kind", jStr(pick(r, []string{"", "nope", "Struct"})))
		}
	}
	if payloadKey != "" {
		for _, f := range def.Fields {
			if f.Key == payloadKey {
				n.set(payloadKey, g.gen(f.Ty, f.Key, depth+1))
			}
		}
	}
	if r.chance(20) {
		n.set("nullable", jBool(true))
	}
	if r.chance(15) {
		n.set("default", c04WeirdValue(r, 1))
	}
	if r.chance(15) {
		n.set("hints", jObj(pick(r, []string{"kind", "implements_variant", "skip_variant_plugin_registration", "string_format_datetime"}), c04WeirdValue(r, 2)))
	}
	return n
}

func (g *cfgGen) gen(t *cfgTy, key string, depth int) *jNode {
	r := g.r
	if depth > 0 && r.chance(g.fault) {
		return g.wrong()
	}
	if depth > g.maxDep {
		return jNull()
	}
	switch t.K {
	case "scalar":
		switch t.Go {
		case "bool":
			return jBool(r.chance(50))
		case "int":
			return jNum(pick(r, []string{"0", "1", "2", "-1", "99", "9223372036854775807"}))
		}
		return g.str(key)
	case "any":
		if r.chance(50) {
			return c04WeirdValue(r, 1)
		}
		return pick(r, []*jNode{jStr("a"), jNum("1"), jBool(true), jNum("1.5"), jStr("")})
	case "list":
		n := r.intn(3)
		if depth <= 2 && n == 0 {
			n = 1
		}
		out := jArr()
		for i := 0; i < n; i++ {
			out.vals = append(out.vals, g.gen(t.Elem, key, depth+1))
		}
		return out
	case "map":
		out := jObj()
		for i := r.intn(3); i > 0; i-- {
			k := g.str(key + "#key").s
			switch strings.ToLower(key) {
			case "defaults":
				k = pick(r, g.pkgs) + "." + pick(r, g.objs) + "." + pick(r, g.fields)
			case "parameters", "templates_data":
				k = pick(r, []string{"a", "b", "__config_dir", "l"})
			case "discriminator_mapping", "composition_map", "rename_options", "hints", "packages_import_map", "builder_factories_class_map":
				k = pick(r, append([]string{"k1", "kind", "implements_variant"}, g.objs...))
			}
			out.set(k, g.gen(t.Elem, key, depth+1))
		}
		return out
	case "ref":
		d := g.file.Defs[t.Ref]
		if g.isTypeDef(d.Name) && d.Ty.K == "struct" {
			return g.astType(depth, d.Ty)
		}
		return g.genNamed(d, key, depth)
	case "struct":
		return g.genStruct(t, "", key, depth)
	}
	return jNull()
}

func (g *cfgGen) genNamed(d cfgDef, key string, depth int) *jNode {
	if d.Ty.K == "struct" {
		return g.genStruct(d.Ty, d.Name, key, depth)
	}
	return g.gen(d.Ty, key, depth+1)
}

// union-like structs (every field a pointer to a struct: CompilerPass, BuilderRule, OptionRule,
// Input, OutputLanguage) get one key most of the time
func cfgUnionLike(t *cfgTy) bool {
	if len(t.Fields) < 5 {
		return false
	}
	refs := 0
	for _, f := range t.Fields {
		if f.Ty.K == "ref" {
			refs++
		}
	}
	return refs*10 >= len(t.Fields)*8
}

func (g *cfgGen) genStruct(t *cfgTy, name, key string, depth int) *jNode {
	r := g.r
	out := jObj()
	if cfgUnionLike(t) {
		n := 1
		if r.chance(6) {
			n = r.intn(3)
		}
		for i := 0; i < n; i++ {
			f := pick(r, t.Fields)
			out.set(f.Key, g.gen(f.Ty, f.Key, depth+1))
		}
		return out
	}
	selectors := map[string]bool{"by_object": true, "by_name": true, "by_variant": true, "generated_from_disjunction": true, "by_builder": true, "by_names": true}
	var selKeys []string
	for _, f := range t.Fields {
		if selectors[f.Key] {
			selKeys = append(selKeys, f.Key)
		}
	}
	chosenSel := ""
	if len(selKeys) > 0 && !r.chance(5) {
		chosenSel = pick(r, selKeys)
	}
	for _, f := range t.Fields {
		if selectors[f.Key] {
			if f.Key != chosenSel && !r.chance(4) {
				continue
			}
		} else if f.Key == "passestrail" || (depth > 1 && r.chance(30)) || (f.Key == "url") && !r.chance(5) {
			continue
		}
		out.set(f.Key, g.gen(f.Ty, f.Key, depth+1))
	}
	if r.chance(g.fault / 2) {
		out.set(pick(r, []string{"unknown_key", "", "Kind", "<<"}), c04WeirdValue(r, 2))
		g.faults++
	}
	return out
}

func (g *cfgGen) document() *jNode {
	g.asbad, g.faults = false, 0
	return g.genNamed(g.file.Defs[g.file.Root], "", 0)
}

// YAML-only spellings on top of the JSON flow text
func cfgYAMLify(r *rng, text string) string {
	switch r.intn(12) {
	case 0:
		return strings.Replace(text, "null", "~", 1)
	case 1:
		return strings.Replace(text, "true", pick(r, []string{"yes", "on", "True", "!!bool true", "!!str true"}), 1)
	case 2:
		if i := strings.Index(text, "{"); i >= 0 {
			if j := strings.Index(text[i+1:], "{"); j >= 0 {
				k := i + 1 + j
				return text[:k] + "&a " + text[k:len(text)-1] + ",\"zz\":*a}"
			}
		}
	case 3:
		return "%YAML 1.2\n---\n" + text + "\n...\n"
	case 4:
		return text + "\n---\n" + text
	case 5:
		return "# comment\n" + text
	}
	return text
}

var cfgObjNames = append([]string{"Container", "Entry", "SomeStruct", "Value1"}, irObjNames...)

func newCfgGen(r *rng, file *cfgFile, fault int) *cfgGen {
	return &cfgGen{r: r, file: file, fault: fault, pkgs: []string{"p", "q", "corpus", "nope"}, objs: cfgObjNames, fields: irFieldNames,
		paths: []string{"", ".", "%__config_dir%/in", "%__config_dir%/in/schema.json", "%__config_dir%/passes.yaml", "%__config_dir%/veneers", "%__config_dir%/nope", "/nonexistent/x", "%l", "out/%l"}, maxDep: 9}
}

// ---------- cases ----------

func c04PassesYAMLCase(r *rng, files map[string]*cfgFile, seed uint64, i int, fault int) *c04Case {
	g := newCfgGen(r, files["compiler"], fault)
	g.pkgs = []string{"p", "p", "q", "nope"}
	g.objs = irObjNames
	doc := g.document()
	// several passes in one file are the interesting case (retype then hint, add then rename, …)
	if p := doc.get("passes"); p != nil && p.kind == "arr" {
		for k := r.intn(4); k > 0; k-- {
			more := g.genNamed(g.file.Defs[g.file.Root], "", 0)
			if mp := more.get("passes"); mp != nil && mp.kind == "arr" {
				p.vals = append(p.vals, mp.vals...)
			}
		}
	}
	text := cfgYAMLify(r, doc.String())
	return &c04Case{ID: fmt.Sprintf("passes-yaml/%d/%d", seed, i), Kind: "passes-yaml", Seed: seed, Idx: i, Yaml: text,
		Note: fmt.Sprintf("passes-yaml asbad=%v faults=%d", g.asbad, g.faults)}
}

func c04VeneersYAMLCase(r *rng, files map[string]*cfgFile, seed uint64, i int, fault int) *c04Case {
	g := newCfgGen(r, files["veneers"], fault)
	g.pkgs = []string{"p", "p", "q"}
	g.objs = irObjNames
	doc := g.document()
	for _, key := range []string{"builders", "options"} {
		if p := doc.get(key); p != nil && p.kind == "arr" {
			for k := r.intn(4); k > 0; k-- {
				more := g.genNamed(g.file.Defs[g.file.Root], "", 0)
				if mp := more.get(key); mp != nil && mp.kind == "arr" {
					p.vals = append(p.vals, mp.vals...)
				}
			}
		}
	}
	text := cfgYAMLify(r, doc.String())
	return &c04Case{ID: fmt.Sprintf("veneers-yaml/%d/%d", seed, i), Kind: "veneers-yaml", Seed: seed, Idx: i, Yaml: text,
		Note: fmt.Sprintf("veneers-yaml asbad=%v faults=%d", g.asbad, g.faults)}
}

// a pipeline configuration document, with a real schema next to it and generated transformation files
func c04ConfigCase(r *rng, files map[string]*cfgFile, seeds []c04Seed, i int, fault int) *c04Case {
	s := pick(r, seeds)
	c := &c04Case{ID: fmt.Sprintf("config/%d", i), Kind: "run", Config: "cog.yaml", Files: map[string][]byte{}}
	for rel, data := range s.files {
		c.Files[c04InputDir(s)+"/"+rel] = c04CuePackage(s, rel, data)
	}
	g := newCfgGen(r, files["pipeline"], fault)
	g.pkgs = []string{s.pkg, s.pkg, "p"}
	doc := g.document()
	notes := []string{"config", "seed=" + s.format + "/" + s.name}
	if doc.kind == "obj" {
		// most documents keep a loadable input and output so that the run goes past the loader
		if r.chance(75) {
			ins := jArr(c04InputNode(s.format, s.pkg, s.main, r.chance(50)))
			if r.chance(25) {
				if extra := doc.get("inputs"); extra != nil && extra.kind == "arr" {
					ins.vals = append(ins.vals, extra.vals...)
				}
			}
			if r.chance(30) {
				in0 := ins.vals[0].vals[0]
				in0.set("transformations", jArr(jStr("%__config_dir%/passes.yaml")))
				if r.chance(30) {
					in0.set("allowed_objects", jArr(jStr(pick(r, cfgObjNames)), jStr(s.pkg)))
				}
				if r.chance(30) {
					in0.set("metadata", jObj("kind", jStr(pick(r, []string{"core", "composable", "nope"})), "variant", jStr(pick(r, []string{"dataquery", "panelcfg", "", "nope"})), "identifier", jStr(pick(r, []string{"", "id"}))))
				}
			}
			doc.set("inputs", ins)
		}
		if r.chance(70) {
			o := c04RandomOut(r)
			on := o.node()
			if extra := doc.get("output"); extra != nil && extra.kind == "obj" && r.chance(40) {
				for j, k := range extra.keys {
					if r.chance(30) {
						on.set(k, extra.vals[j])
					}
				}
			}
			doc.set("output", on)
			notes = append(notes, o.describe())
		}
		if r.chance(60) {
			doc.set("transformations", jObj("schemas", jArr(jStr("%__config_dir%/passes.yaml")), "builders", jArr(jStr("%__config_dir%/veneers"))))
		}
	}
	c.Files["cog.yaml"] = []byte(cfgYAMLify(r, doc.String()))
	pg := newCfgGen(r, files["compiler"], fault)
	pg.pkgs = []string{s.pkg, s.pkg, "p"}
	c.Files["passes.yaml"] = []byte(cfgYAMLify(r, pg.document().String()))
	vg := newCfgGen(r, files["veneers"], fault)
	vg.pkgs = []string{s.pkg}
	c.Files["veneers/a.yaml"] = []byte(cfgYAMLify(r, vg.document().String()))
	if r.chance(15) {
		c.Files["veneers/b.yaml"] = []byte(pick(r, []string{"~", "", "null", "[]", "{}", "language: all\npackage: x\nbuilders: [~]\n", "language: all\npackage: x\noptions: [~]\n", "package: x\nbuilders: ~\n"}))
	}
	if r.chance(10) {
		c.Files["passes.yaml"] = []byte(pick(r, []string{"~", "", "null", "[]", "{}", "passes: [~]", "passes: ~", "passes: [{}]", "passes: [[]]"}))
	}
	notes = append(notes, fmt.Sprintf("asbad=%v faults=%d", g.asbad || pg.asbad || vg.asbad, g.faults+pg.faults+vg.faults))
	c.Note = strings.Join(notes, " ")
	return c
}

// hand-written configuration documents: one per suspected mechanism
func c04ConfigCorpus() []*c04Case {
	schema := []byte(`{"$schema":"http://json-schema.org/draft-07/schema#","definitions":{"Foo":{"type":"object","properties":{"a":{"type":"string"},"b":{"type":"boolean"}},"required":["a"]},"K":{"type":"string","const":"k"}},"type":"object","properties":{"foo":{"$ref":"#/definitions/Foo"}}}`)
	input := `inputs: [{jsonschema: {path: '%__config_dir%/in/schema.json', package: corpus}}]`
	out := `output: {directory: 'out/%l', types: true, builders: true, converters: true, languages: [{go: {package_root: example.com/lab}}, {python: {}}, {typescript: {}}, {java: {}}, {php: {}}]}`
	mk := func(name, cog, passes, veneers string) *c04Case {
		c := &c04Case{ID: "corpus-config/" + name, Kind: "run", Config: "cog.yaml", Note: "pinned-config=" + name, Files: map[string][]byte{"in/schema.json": schema, "cog.yaml": []byte(cog)}}
		if passes != "" {
			c.Files["passes.yaml"] = []byte(passes)
		}
		if veneers != "" {
			c.Files["veneers/a.yaml"] = []byte(veneers)
		}
		return c
	}
	tr := "transformations: {schemas: ['%__config_dir%/passes.yaml'], builders: ['%__config_dir%/veneers']}"
	vOK := "language: all\npackage: corpus\n"
	cases := []*c04Case{
		mk("baseline", input+"\n"+out+"\n", "", ""),
		mk("inputs-null-element", "inputs: [~]\n"+out+"\n", "", ""),
		mk("languages-null-element", input+"\noutput: {directory: out, types: true, languages: [~]}\n", "", ""),
		mk("languages-empty-element", input+"\noutput: {directory: out, types: true, languages: [{}]}\n", "", ""),
		mk("passes-file-null", input+"\n"+out+"\n"+tr+"\n", "~", vOK),
		mk("veneers-file-null", input+"\n"+out+"\n"+tr+"\n", "passes: []", "~"),
		mk("passes-null-element", input+"\n"+out+"\n"+tr+"\n", "passes: [~]", vOK),
		mk("veneers-null-rule", input+"\n"+out+"\n"+tr+"\n", "passes: []", vOK+"builders: [~]\noptions: [~]\n"),
		mk("retype-object-nil-struct", input+"\n"+out+"\n"+tr+"\n", "passes: [{retype_object: {object: corpus.Foo, as: {kind: struct}}}]", vOK),
		mk("retype-field-nil-array", input+"\n"+out+"\n"+tr+"\n", "passes: [{retype_field: {field: corpus.Foo.a, as: {kind: array}}}]", vOK),
		mk("add-object-empty-kind", input+"\n"+out+"\n"+tr+"\n", "passes: [{add_object: {object: corpus.New, as: {}}}]", vOK),
		mk("retype-then-hint", input+"\n"+out+"\n"+tr+"\n", "passes: [{retype_object: {object: corpus.Foo, as: {kind: scalar, scalar: {scalar_kind: string}}}}, {hint_object: {object: corpus.Foo, hints: {kind: x}}}]", vOK),
		mk("retype-self-reference", input+"\n"+out+"\n"+tr+"\n", "passes: [{retype_object: {object: corpus.Foo, as: {kind: ref, ref: {referred_pkg: corpus, referred_type: Foo}}}}]", vOK),
		mk("add-object-alias-cycle", input+"\n"+out+"\n"+tr+"\n", "passes: [{add_object: {object: corpus.A, as: {kind: ref, ref: {referred_pkg: corpus, referred_type: B}}}}, {add_object: {object: corpus.B, as: {kind: ref, ref: {referred_pkg: corpus, referred_type: A}}}}, {add_fields: {to: corpus.Foo, fields: [{name: cyc, required: true, type: {kind: ref, ref: {referred_pkg: corpus, referred_type: A}}}]}}]", vOK),
		mk("constant-to-enum-non-string", input+"\n"+out+"\n"+tr+"\n", "passes: [{retype_object: {object: corpus.K, as: {kind: scalar, scalar: {scalar_kind: string, value: 1}}}}, {constant_to_enum: {objects: [corpus.K]}}]", vOK),
		mk("enum-member-without-type", input+"\n"+out+"\n"+tr+"\n", "passes: [{add_object: {object: corpus.E, as: {kind: enum, enum: {values: [{name: a, value: a}]}}}}]", vOK),
		mk("enum-empty-member-name", input+"\n"+out+"\n"+tr+"\n", "passes: [{add_object: {object: corpus.E, as: {kind: enum, enum: {values: [{name: '', value: 1, type: {kind: scalar, scalar: {scalar_kind: int64}}}]}}}}]", vOK),
		mk("fields-set-default-wrong-shape", input+"\n"+out+"\n"+tr+"\n", "passes: [{fields_set_default: {defaults: {corpus.Foo.a: [1, {x: ~}], corpus.Foo.b: {k: v}}}}]", vOK),
		mk("constraint-without-args", input+"\n"+out+"\n"+tr+"\n", "passes: [{retype_field: {field: corpus.Foo.a, as: {kind: scalar, scalar: {scalar_kind: string, constraints: [{op: minLength}]}}}}]", vOK),
		mk("unfold-boolean-on-added-option", input+"\n"+out+"\n"+tr+"\n", "passes: []", vOK+"builders: [{add_option: {by_object: Foo, option: {name: flag, arguments: [{name: v, type: {kind: scalar, scalar: {scalar_kind: bool}}}]}}}]\noptions: [{unfold_boolean: {by_name: Foo.flag, true_as: on, false_as: off}}]\n"),
		mk("struct-fields-as-arguments-on-scalar", input+"\n"+out+"\n"+tr+"\n", "passes: []", vOK+"options: [{struct_fields_as_arguments: {by_name: Foo.a}}, {struct_fields_as_options: {by_name: Foo.b}}, {array_to_append: {by_name: Foo.a}}, {map_to_index: {by_name: Foo.a}}, {disjunction_as_options: {by_name: Foo.a, argument_index: 3}}]\n"),
		mk("add-option-no-arguments-rules", input+"\n"+out+"\n"+tr+"\n", "passes: []", vOK+"builders: [{add_option: {by_object: Foo, option: {name: bare}}}]\noptions: [{unfold_boolean: {by_name: Foo.bare}}, {array_to_append: {by_name: Foo.bare}}, {map_to_index: {by_name: Foo.bare}}, {struct_fields_as_arguments: {by_name: Foo.bare}}, {struct_fields_as_options: {by_name: Foo.bare}}, {disjunction_as_options: {by_name: Foo.bare}}, {rename_arguments: {by_name: Foo.bare, as: [x]}}]\n"),
		mk("if-non-boolean", "inputs: [{if: '1', jsonschema: {path: '%__config_dir%/in/schema.json', package: corpus}}]\n"+out+"\n", "", ""),
		mk("empty-document", "", "", ""),
		mk("null-document", "~", "", ""),
	}
	return cases
}

func cfgSortedNames(m map[string]*cfgFile) []string {
	var out []string
	for k := range m {
		out = append(out, k)
	}
	sort.Strings(out)
	return out
}
