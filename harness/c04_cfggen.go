package main

// C04: generator of YAML configuration documents (pipeline config, compiler passes, veneers) from
// the key tables of the three config files: /verif/.work/c20/facts.json when present (the tables
// measured by the C20 extractor from the Go structs), otherwise the published JSON Schemas in
// /repo/schemas/*.json.  Documents are "plausible with faults": values are drawn by key name so
// that documents load and reach the code behind the loader, and every node is replaced with a
// wrong-shaped value (null, empty list/map, list holding a null, scalar of another type, …) at a
// configurable rate.  Documents are emitted in JSON flow syntax, which yaml.v3 reads as YAML;
// a few YAML-only spellings (`~`, anchors/aliases, tags) are injected as raw scalars.

import (
	"bufio"
	"encoding/json"
	"fmt"
	"os"
	"sort"
	"strings"
)

type c04CfgTy struct {
	K      string // scalar | list | map | struct | any | ref
	Go     string
	Elem   *c04CfgTy
	Ref    int
	Fields []c04CfgField
}

type c04CfgField struct {
	Key string
	Ty  *c04CfgTy
}

type c04CfgFile struct {
	Name string
	Defs []c04CfgDef
	Root int
}

type c04CfgDef struct {
	Name string
	Ty   *c04CfgTy
}

// ---------- loading the tables ----------

func c04CfgFromFacts(path string) (map[string]*c04CfgFile, error) {
	raw, err := os.ReadFile(path)
	if err != nil {
		return nil, err
	}
	var doc struct {
		Files []struct {
			Name  string `json:"name"`
			Lroot int    `json:"lroot"`
			Lenv  []struct {
				Name   string `json:"name"`
				Fields []struct {
					Key string          `json:"key"`
					Ty  json.RawMessage `json:"ty"`
				} `json:"fields"`
			} `json:"lenv"`
		} `json:"files"`
	}
	if err := json.Unmarshal(raw, &doc); err != nil {
		return nil, err
	}
	var conv func(raw json.RawMessage) (*c04CfgTy, error)
	conv = func(raw json.RawMessage) (*c04CfgTy, error) {
		var t struct {
			K    string          `json:"k"`
			Go   string          `json:"go"`
			Ref  int             `json:"ref"`
			Elem json.RawMessage `json:"elem"`
		}
		if err := json.Unmarshal(raw, &t); err != nil {
			return nil, err
		}
		out := &c04CfgTy{K: t.K, Go: t.Go, Ref: t.Ref}
		switch t.K {
		case "fmap":
			out.K = "map"
		case "scalar", "list", "ref", "any":
		default:
			return nil, fmt.Errorf("facts.json: unknown type kind %q", t.K)
		}
		if len(t.Elem) > 0 {
			e, err := conv(t.Elem)
			if err != nil {
				return nil, err
			}
			out.Elem = e
		}
		return out, nil
	}
	files := map[string]*c04CfgFile{}
	for _, f := range doc.Files {
		cf := &c04CfgFile{Name: f.Name, Root: f.Lroot}
		for _, s := range f.Lenv {
			st := &c04CfgTy{K: "struct"}
			for _, fd := range s.Fields {
				ty, err := conv(fd.Ty)
				if err != nil {
					return nil, err
				}
				st.Fields = append(st.Fields, c04CfgField{fd.Key, ty})
			}
			cf.Defs = append(cf.Defs, c04CfgDef{s.Name, st})
		}
		files[f.Name] = cf
	}
	if len(files) < 3 {
		return nil, fmt.Errorf("facts.json: expected three config files")
	}
	return files, nil
}

func c04CfgFromPublished() (map[string]*c04CfgFile, error) {
	files := map[string]*c04CfgFile{}
	for name, path := range map[string]string{"pipeline": "schemas/pipeline.json", "compiler": "schemas/compiler_passes.json", "veneers": "schemas/veneers.json"} {
		raw, err := os.ReadFile(path)
		if err != nil {
			return nil, err
		}
		root, err := c04JParse(raw)
		if err != nil {
			return nil, err
		}
		defs := root.get("$defs")
		if defs == nil || defs.kind != "obj" {
			return nil, fmt.Errorf("%s: no $defs", path)
		}
		index := map[string]int{}
		for i, k := range defs.keys {
			index[k] = i
		}
		var conv func(n *c04JNode) (*c04CfgTy, error)
		conv = func(n *c04JNode) (*c04CfgTy, error) {
			if n.kind == "bool" {
				return &c04CfgTy{K: "any"}, nil
			}
			if n.kind != "obj" {
				return nil, fmt.Errorf("%s: schema node is not an object", path)
			}
			if ref := n.get("$ref"); ref != nil {
				name := strings.TrimPrefix(ref.s, "#/$defs/")
				i, ok := index[name]
				if !ok {
					return nil, fmt.Errorf("%s: dangling $ref %s", path, ref.s)
				}
				return &c04CfgTy{K: "ref", Ref: i}, nil
			}
			typ := ""
			if t := n.get("type"); t != nil {
				typ = t.s
			}
			switch typ {
			case "string":
				return &c04CfgTy{K: "scalar", Go: "string"}, nil
			case "boolean":
				return &c04CfgTy{K: "scalar", Go: "bool"}, nil
			case "integer", "number":
				return &c04CfgTy{K: "scalar", Go: "int"}, nil
			case "array":
				it := n.get("items")
				if it == nil {
					return &c04CfgTy{K: "list", Elem: &c04CfgTy{K: "any"}}, nil
				}
				e, err := conv(it)
				if err != nil {
					return nil, err
				}
				return &c04CfgTy{K: "list", Elem: e}, nil
			case "object":
				if p := n.get("properties"); p != nil && p.kind == "obj" {
					st := &c04CfgTy{K: "struct"}
					for i, k := range p.keys {
						ft, err := conv(p.vals[i])
						if err != nil {
							return nil, err
						}
						st.Fields = append(st.Fields, c04CfgField{k, ft})
					}
					return st, nil
				}
				if ap := n.get("additionalProperties"); ap != nil && ap.kind == "obj" {
					e, err := conv(ap)
					if err != nil {
						return nil, err
					}
					return &c04CfgTy{K: "map", Elem: e}, nil
				}
				return &c04CfgTy{K: "struct"}, nil
			case "":
				return &c04CfgTy{K: "any"}, nil
			}
			return nil, fmt.Errorf("%s: unsupported schema type %q", path, typ)
		}
		cf := &c04CfgFile{Name: name}
		for i, k := range defs.keys {
			ty, err := conv(defs.vals[i])
			if err != nil {
				return nil, err
			}
			cf.Defs = append(cf.Defs, c04CfgDef{k, ty})
		}
		rr := root.get("$ref")
		if rr == nil {
			return nil, fmt.Errorf("%s: no root $ref", path)
		}
		ri, ok := index[strings.TrimPrefix(rr.s, "#/$defs/")]
		if !ok {
			return nil, fmt.Errorf("%s: dangling root", path)
		}
		cf.Root = ri
		files[name] = cf
	}
	return files, nil
}

func c04CfgLoad(factsPath string) (map[string]*c04CfgFile, string, error) {
	if factsPath != "" {
		if f, err := c04CfgFromFacts(factsPath); err == nil {
			return f, "facts.json", nil
		}
	}
	f, err := c04CfgFromPublished()
	return f, "published-schemas", err
}

// ---------- generation ----------

type c04CfgGen struct {
	r      *rng
	file   *c04CfgFile
	fault  int // percent chance, per node, of a wrong-shaped value
	asbad  bool
	faults int
	pkgs   []string
	objs   []string
	fields []string
	paths  []string
	maxDep int
	optSel bool // inside a rule whose selector addresses options (by_name = object.option)
	inType int  // > 0 while the payload of an ast.Type is being generated
}

var c04CfgKinds = []string{"scalar", "ref", "array", "map", "struct", "enum", "disjunction", "intersection", "constant_ref", "composable_slot"}
var c04CfgPayload = map[string]string{"scalar": "scalar", "ref": "ref", "array": "array", "map": "map", "struct": "struct", "enum": "enum",
	"disjunction": "disjunction", "intersection": "intersection", "constant_ref": "constantreference", "composable_slot": "composable_slot"}
var c04CfgScalarKinds = []string{"string", "bool", "int64", "int32", "uint8", "float64", "float32", "any", "bytes", "null", "uint64", "int8", "nope", ""}

func (g *c04CfgGen) isTypeDef(name string) bool {
	return name == "ast.Type" || name == "AstType"
}

// the shapes yaml.v3 lets through strict decoding (null for anything, empty collections, a null
// inside a list) are the ones that reach cog's own code; arbitrary shapes are kept at a lower rate
func (g *c04CfgGen) wrong() *c04JNode {
	g.faults++
	if g.inType > 0 {
		g.asbad = true // a wrong-shaped value inside a type description can null a kind payload
	}
	switch g.r.intn(10) {
	case 0, 1, 2:
		return c04JNull()
	case 3:
		return c04JArr()
	case 4:
		return c04JObj()
	case 5, 6:
		return c04JArr(c04JNull())
	case 7:
		return c04JStr("")
	}
	return c04WeirdValue(g.r, 1)
}

func (g *c04CfgGen) str(key string) *c04JNode {
	r := g.r
	k := strings.ToLower(key)
	obj := func() string { return pick(r, g.pkgs) + "." + pick(r, g.objs) }
	switch {
	case k == "kind":
		return c04JStr(pick(r, append([]string{"core", "composable"}, c04CfgKinds...)))
	case k == "scalar_kind":
		return c04JStr(pick(r, c04CfgScalarKinds))
	case k == "variant" || k == "by_variant":
		return c04JStr(pick(r, []string{"dataquery", "panelcfg", "", "nope"}))
	case k == "language":
		return c04JStr(pick(r, []string{"all", "go", "python", "typescript", "java", "php", "", "nope"}))
	case k == "package" || k == "referred_pkg":
		return c04JStr(pick(r, g.pkgs))
	case k == "referred_type" || k == "by_object" || k == "source" || k == "destination" || k == "builder" || k == "source_builder_name" || k == "composed_builder_name":
		return c04JStr(pick(r, g.objs))
	case k == "object" && g.file.Name == "veneers":
		return c04JStr(pick(r, g.objs))
	case k == "by_name" || k == "by_builder":
		if g.optSel != r.chance(g.fault) {
			return c04JStr(pick(r, g.objs) + "." + pick(r, g.fields))
		}
		return c04JStr(pick(r, g.objs))
	case k == "object" || k == "from" || k == "to" || k == "objects" || k == "allowed_objects":
		if r.chance(g.fault) {
			return c04JStr(pick(r, []string{"", "a", "a.b.c", ".", "p.", ".Foo"}))
		}
		return c04JStr(obj())
	case k == "as":
		if r.chance(50) {
			return c04JStr(obj())
		}
		return c04JStr(pick(r, g.objs))
	case k == "field" || k == "fields" || k == "omit_fields":
		if g.file.Name == "veneers" {
			return c04JStr(pick(r, g.fields))
		}
		if r.chance(g.fault) {
			return c04JStr(pick(r, []string{"", "a.b", "a.b.c.d", ".."}))
		}
		if k == "omit_fields" {
			return c04JStr(pick(r, g.fields))
		}
		return c04JStr(obj() + "." + pick(r, g.fields))
	case k == "name" || k == "property" || k == "options" || k == "exclude_options" || k == "entry_point" || k == "true_as" || k == "false_as" || k == "plugin_discriminator_field" || k == "under_path":
		return c04JStr(pick(r, append([]string{"", "x", "Opt", "with x"}, g.fields...)))
	case k == "path" || k == "method":
		if g.file.Name == "veneers" {
			if k == "method" {
				return c04JStr(pick(r, []string{"direct", "append", "index", "", "nope"}))
			}
			return c04JStr(pick(r, []string{"a", "a.b", "", ".", "a..b", "kind", "items", "a[0]"}))
		}
		return c04JStr(pick(r, g.paths))
	case k == "entrypoint" || k == "directory" || k == "repository_templates" || k == "transformations" || k == "schemas" || k == "builders" || k == "extra_files_templates" || k == "overrides_templates":
		return c04JStr(pick(r, g.paths))
	case k == "url":
		return c04JStr(pick(r, []string{"", ":", "file:///nope", "%zz", "nope"}))
	case k == "if":
		return c04JStr(pick(r, []string{"", "true", "false", "1 +", "1", "sprintf('%s', 1)", "semver('1.0.0').Major > 0", "semver('x').Major > 0", "nil.x", "[1][5]", "1/0 > 0", "sprintf(1)", "semver()"}))
	case k == "op":
		return c04JStr(pick(r, []string{"minLength", "maxLength", ">", ">=", "<", "<=", "==", "!=", "multipleOf", "", "nope"}))
	case k == "cue_imports":
		return c04JStr(pick(r, []string{"", ":", "a:b", "%__config_dir%/in:github.com/x/y", "nocolon"}))
	case k == "version" || k == "identifier" || k == "forced_envelope" || k == "discriminator":
		return c04JStr(pick(r, []string{"", "x", "kind", "next", "v1.0.0"}))
	}
	return c04JStr(pick(r, []string{"", "x", "Foo", "a b", "%l", "%nope%", "é"}))
}

// a well-formed (or, with bad=true, deliberately payload-less / mismatched) ast.Type document
func (g *c04CfgGen) astType(depth int, def *c04CfgTy) *c04JNode {
	r := g.r
	kind := pick(r, c04CfgKinds)
	if depth >= 2 {
		kind = pick(r, []string{"scalar", "ref", "scalar", "enum"})
	}
	n := c04JObj("kind", c04JStr(kind))
	bad := r.chance(g.fault)
	payloadKey := c04CfgPayload[kind]
	if bad {
		g.asbad = true
		switch r.intn(4) {
		case 0: // no payload at all
			payloadKey = ""
		case 1: // payload of another kind
			payloadKey = c04CfgPayload[pick(r, c04CfgKinds)]
			if payloadKey == c04CfgPayload[kind] {
				payloadKey = ""
			}
		case 2: // payload present but null
			n.set(payloadKey, c04JNull())
			payloadKey = ""
		default: // unknown kind
			n.set("kind", c04JStr(pick(r, []string{"", "nope", "Struct"})))
		}
	}
	if payloadKey != "" {
		g.inType++
		for _, f := range def.Fields {
			if f.Key == payloadKey {
				n.set(payloadKey, g.gen(f.Ty, f.Key, depth+1))
			}
		}
		g.inType--
	}
	if r.chance(20) {
		n.set("nullable", c04JBool(true))
	}
	if r.chance(15) {
		n.set("default", c04WeirdValue(r, 1))
	}
	if r.chance(15) {
		n.set("hints", c04JObj(pick(r, []string{"kind", "implements_variant", "skip_variant_plugin_registration", "string_format_datetime"}), c04WeirdValue(r, 2)))
	}
	return n
}

func (g *c04CfgGen) gen(t *c04CfgTy, key string, depth int) *c04JNode {
	r := g.r
	if depth > 0 && r.chance(g.fault) {
		return g.wrong()
	}
	if depth > g.maxDep {
		return c04JNull()
	}
	switch t.K {
	case "scalar":
		switch t.Go {
		case "bool":
			return c04JBool(r.chance(50))
		case "int":
			return c04JNum(pick(r, []string{"0", "1", "2", "-1", "99", "9223372036854775807"}))
		}
		return g.str(key)
	case "any":
		if r.chance(50) {
			return c04WeirdValue(r, 1)
		}
		return pick(r, []*c04JNode{c04JStr("a"), c04JNum("1"), c04JBool(true), c04JNum("1.5"), c04JStr("")})
	case "list":
		n := r.intn(3)
		if depth <= 2 && n == 0 {
			n = 1
		}
		out := c04JArr()
		for i := 0; i < n; i++ {
			out.vals = append(out.vals, g.gen(t.Elem, key, depth+1))
		}
		return out
	case "map":
		out := c04JObj()
		for i := r.intn(3); i > 0; i-- {
			k := g.str(key + "#key").s
			switch strings.ToLower(key) {
			case "defaults":
				k = pick(r, g.pkgs) + "." + pick(r, g.objs) + "." + pick(r, g.fields)
			case "parameters", "templates_data":
				k = pick(r, []string{"a", "b", "__config_dir", "l"})
			case "discriminator_mapping", "composition_map", "rename_options", "hints", "packages_import_map", "builder_factories_class_map":
				k = pick(r, append([]string{"k1", "kind", "implements_variant"}, g.objs...))
			}
			out.set(k, g.gen(t.Elem, key, depth+1))
		}
		return out
	case "ref":
		d := g.file.Defs[t.Ref]
		if g.isTypeDef(d.Name) && d.Ty.K == "struct" {
			return g.astType(depth, d.Ty)
		}
		return g.genNamed(d, key, depth)
	case "struct":
		return g.genStruct(t, "", key, depth)
	}
	return c04JNull()
}

func (g *c04CfgGen) genNamed(d c04CfgDef, key string, depth int) *c04JNode {
	if d.Ty.K == "struct" {
		return g.genStruct(d.Ty, d.Name, key, depth)
	}
	return g.gen(d.Ty, key, depth+1)
}

// union-like structs (every field a pointer to a struct: CompilerPass, BuilderRule, OptionRule,
// Input, OutputLanguage) get one key most of the time
func c04CfgUnionLike(t *c04CfgTy) bool {
	if len(t.Fields) < 5 {
		return false
	}
	refs := 0
	for _, f := range t.Fields {
		if f.Ty.K == "ref" {
			refs++
		}
	}
	return refs*10 >= len(t.Fields)*8
}

func (g *c04CfgGen) genStruct(t *c04CfgTy, name, key string, depth int) *c04JNode {
	r := g.r
	out := c04JObj()
	if c04CfgUnionLike(t) {
		n := 1
		if r.chance(g.fault) {
			n = r.intn(3)
		}
		for i := 0; i < n; i++ {
			f := pick(r, t.Fields)
			out.set(f.Key, g.gen(f.Ty, f.Key, depth+1))
		}
		return out
	}
	selectors := map[string]bool{"by_object": true, "by_name": true, "by_variant": true, "generated_from_disjunction": true, "by_builder": true, "by_names": true}
	var selKeys []string
	for _, f := range t.Fields {
		if selectors[f.Key] {
			selKeys = append(selKeys, f.Key)
		}
	}
	chosenSel := ""
	if len(selKeys) > 0 && !r.chance(g.fault) {
		chosenSel = pick(r, selKeys)
	}
	savedOpt := g.optSel
	for _, f := range t.Fields {
		if f.Key == "by_builder" {
			g.optSel = true
		}
		if f.Key == "by_object" {
			g.optSel = false
		}
	}
	defer func() { g.optSel = savedOpt }()
	for _, f := range t.Fields {
		if selectors[f.Key] {
			if f.Key != chosenSel && !r.chance(g.fault) {
				continue
			}
		} else if f.Key == "passestrail" || (f.Key == "url") && !r.chance(5) {
			continue
		} else if f.Ty.K == "scalar" && f.Ty.Go == "string" {
			if r.chance(g.fault * 2) {
				continue
			}
		} else if depth > 1 && r.chance(30) {
			continue
		}
		out.set(f.Key, g.gen(f.Ty, f.Key, depth+1))
	}
	if r.chance(g.fault / 2) {
		out.set(pick(r, []string{"unknown_key", "", "Kind", "<<"}), c04WeirdValue(r, 2))
		g.faults++
	}
	return out
}

func (g *c04CfgGen) document() *c04JNode {
	g.asbad, g.faults = false, 0
	return g.genNamed(g.file.Defs[g.file.Root], "", 0)
}

// YAML-only spellings on top of the JSON flow text
func c04CfgYAMLify(r *rng, text string) string {
	switch r.intn(12) {
	case 0:
		return strings.Replace(text, "null", "~", 1)
	case 1:
		return strings.Replace(text, "true", pick(r, []string{"yes", "on", "True", "!!bool true", "!!str true"}), 1)
	case 2:
		// anchor on the first string value, alias on the second
		if i := strings.Index(text, ":\""); i >= 0 {
			if j := strings.Index(text[i+2:], ":\""); j >= 0 {
				k := i + 2 + j
				if e := strings.Index(text[k+2:], "\""); e >= 0 {
					return text[:i+1] + "&a " + text[i+1:k+1] + "*a" + text[k+2+e+1:]
				}
			}
		}
	case 3:
		return "---\n" + text + "\n...\n"
	case 4:
		return text + "\n---\n" + text
	case 5:
		return "# comment\n" + text
	}
	return text
}

var c04CfgObjNames = append([]string{"Container", "Entry", "SomeStruct", "Value1"}, irObjNames...)

func c04NewCfgGen(r *rng, file *c04CfgFile, fault int) *c04CfgGen {
	return &c04CfgGen{r: r, file: file, fault: fault, pkgs: []string{"p", "q", "corpus", "nope"}, objs: c04CfgObjNames, fields: irFieldNames,
		paths: []string{"", ".", "%__config_dir%/in", "%__config_dir%/in/schema.json", "%__config_dir%/passes.yaml", "%__config_dir%/veneers", "%__config_dir%/nope", "/nonexistent/x", "%l", "out/%l"}, maxDep: 9}
}

// ---------- cases ----------

func c04PassesYAMLCase(r *rng, files map[string]*c04CfgFile, seed uint64, i int, fault int) *c04Case {
	g := c04NewCfgGen(r, files["compiler"], fault)
	g.pkgs = []string{"p", "p", "q", "nope"}
	g.objs = irObjNames
	doc := g.document()
	// several passes in one file are the interesting case (retype then hint, add then rename, …)
	if p := doc.get("passes"); p != nil && p.kind == "arr" {
		for k := r.intn(4); k > 0; k-- {
			more := g.genNamed(g.file.Defs[g.file.Root], "", 0)
			if mp := more.get("passes"); mp != nil && mp.kind == "arr" {
				p.vals = append(p.vals, mp.vals...)
			}
		}
	}
	text := c04CfgYAMLify(r, doc.String())
	return &c04Case{ID: fmt.Sprintf("passes-yaml/%d/%d", seed, i), Kind: "passes-yaml", Seed: seed, Idx: i, Yaml: text,
		Note: fmt.Sprintf("passes-yaml asbad=%v faults=%d", g.asbad, g.faults)}
}

func c04VeneersYAMLCase(r *rng, files map[string]*c04CfgFile, seed uint64, i int, fault int) *c04Case {
	g := c04NewCfgGen(r, files["veneers"], fault)
	g.pkgs = []string{"p", "p", "q"}
	g.objs = irObjNames
	doc := g.document()
	for _, key := range []string{"builders", "options"} {
		if p := doc.get(key); p != nil && p.kind == "arr" {
			for k := r.intn(4); k > 0; k-- {
				more := g.genNamed(g.file.Defs[g.file.Root], "", 0)
				if mp := more.get(key); mp != nil && mp.kind == "arr" {
					p.vals = append(p.vals, mp.vals...)
				}
			}
		}
	}
	text := c04CfgYAMLify(r, doc.String())
	return &c04Case{ID: fmt.Sprintf("veneers-yaml/%d/%d", seed, i), Kind: "veneers-yaml", Seed: seed, Idx: i, Yaml: text,
		Note: fmt.Sprintf("veneers-yaml asbad=%v faults=%d", g.asbad, g.faults)}
}

// a well-formed pipeline configuration whose only unusual part is a directory of user-provided templates
func c04TemplateCase(r *rng, seeds []c04Seed, i int) *c04Case {
	s := pick(r, seeds)
	o := c04RandomOut(r)
	lang := pick(r, []string{"go", "python", "typescript", "java", "php"})
	o.langs = []string{lang}
	c := c04RunCase(fmt.Sprintf("config/%d", i), "templates="+lang, s, s.files, o)
	c.Note = "config " + c.Note
	root, err := c04JParse(c.Files["cog.yaml"])
	if err == nil {
		if ls := root.get("output").get("languages"); ls != nil && len(ls.vals) == 1 {
			key := pick(r, []string{"extra_files_templates", "extra_files_templates", "overrides_templates"})
			ls.vals[0].vals[0].set(key, c04JArr(c04JStr("%__config_dir%/tpl")))
			c.Note += " " + key
		}
		c.Files["cog.yaml"] = []byte(root.String())
	}
	for k := 1 + r.intn(2); k > 0; k-- {
		c.Files[fmt.Sprintf("tpl/EXTRA%d.md", k)] = []byte(c04GenTemplate(r))
	}
	return c
}

// a pipeline configuration document, with a real schema next to it and generated transformation files
func c04ConfigCase(r *rng, files map[string]*c04CfgFile, seeds []c04Seed, i int, fault int) *c04Case {
	if i%4 == 3 {
		return c04TemplateCase(r, seeds, i)
	}
	s := pick(r, seeds)
	c := &c04Case{ID: fmt.Sprintf("config/%d", i), Kind: "run", Config: "cog.yaml", Files: map[string][]byte{}}
	for rel, data := range s.files {
		c.Files[c04InputDir(s)+"/"+rel] = c04CuePackage(s, rel, data)
	}
	g := c04NewCfgGen(r, files["pipeline"], fault)
	g.pkgs = []string{s.pkg, s.pkg, "p"}
	doc := g.document()
	notes := []string{"config", "seed=" + s.format + "/" + s.name}
	if doc.kind == "obj" {
		// most documents keep a loadable input and output so that the run goes past the loader
		if r.chance(75) {
			ins := c04JArr(c04InputNode(s.format, s.pkg, s.main, r.chance(50)))
			if r.chance(25) {
				if extra := doc.get("inputs"); extra != nil && extra.kind == "arr" {
					ins.vals = append(ins.vals, extra.vals...)
				}
			}
			if r.chance(30) {
				in0 := ins.vals[0].vals[0]
				in0.set("transformations", c04JArr(c04JStr("%__config_dir%/passes.yaml")))
				if r.chance(30) {
					in0.set("allowed_objects", c04JArr(c04JStr(pick(r, c04CfgObjNames)), c04JStr(s.pkg)))
				}
				if r.chance(30) {
					in0.set("metadata", c04JObj("kind", c04JStr(pick(r, []string{"core", "composable", "nope"})), "variant", c04JStr(pick(r, []string{"dataquery", "panelcfg", "", "nope"})), "identifier", c04JStr(pick(r, []string{"", "id"}))))
				}
			}
			doc.set("inputs", ins)
		}
		if r.chance(70) {
			o := c04RandomOut(r)
			on := o.node()
			if extra := doc.get("output"); extra != nil && extra.kind == "obj" && r.chance(40) {
				for j, k := range extra.keys {
					if r.chance(30) {
						on.set(k, extra.vals[j])
					}
				}
			}
			// user-provided templates (extra files): generated from a small grammar of blocks, inclusions
			// (`include`, with the builtin recursion guard), conditionals and the builtin functions
			if r.chance(30) {
				if ls := on.get("languages"); ls != nil && ls.kind == "arr" {
					for _, l := range ls.vals {
						if l.kind == "obj" && len(l.keys) == 1 && l.keys[0] != "jsonschema" && l.keys[0] != "openapi" && l.vals[0].kind == "obj" {
							l.vals[0].set("extra_files_templates", c04JArr(c04JStr("%__config_dir%/tpl")))
							for k := 1 + r.intn(2); k > 0; k-- {
								c.Files[fmt.Sprintf("tpl/EXTRA%d.md", k)] = []byte(c04GenTemplate(r))
							}
							notes = append(notes, "templates="+l.keys[0])
							break
						}
					}
				}
			}
			doc.set("output", on)
			notes = append(notes, o.describe())
		}
		if r.chance(60) {
			doc.set("transformations", c04JObj("schemas", c04JArr(c04JStr("%__config_dir%/passes.yaml")), "builders", c04JArr(c04JStr("%__config_dir%/veneers"))))
		}
	}
	c.Files["cog.yaml"] = []byte(c04CfgYAMLify(r, doc.String()))
	pg := c04NewCfgGen(r, files["compiler"], fault)
	pg.pkgs = []string{s.pkg, s.pkg, "p"}
	c.Files["passes.yaml"] = []byte(c04CfgYAMLify(r, pg.document().String()))
	vg := c04NewCfgGen(r, files["veneers"], fault)
	vg.pkgs = []string{s.pkg}
	c.Files["veneers/a.yaml"] = []byte(c04CfgYAMLify(r, vg.document().String()))
	if r.chance(15) {
		c.Files["veneers/b.yaml"] = []byte(pick(r, []string{"~", "", "null", "[]", "{}", "language: all\npackage: x\nbuilders: [~]\n", "language: all\npackage: x\noptions: [~]\n", "package: x\nbuilders: ~\n"}))
	}
	if r.chance(10) {
		c.Files["passes.yaml"] = []byte(pick(r, []string{"~", "", "null", "[]", "{}", "passes: [~]", "passes: ~", "passes: [{}]", "passes: [[]]"}))
	}
	notes = append(notes, fmt.Sprintf("asbad=%v faults=%d", g.asbad || pg.asbad || vg.asbad, g.faults+pg.faults+vg.faults))
	c.Note = strings.Join(notes, " ")
	return c
}

// ---------- templates ----------

// c04GenTemplate draws a text/template document over cog's template functions: a few named blocks
// whose bodies are sequences of text, field accesses, builtin calls, conditionals on the data, and
// inclusions of blocks (possibly of themselves) with the current data or a fresh `dict`.
func c04GenTemplate(r *rng) string {
	// the data handed around is always a dict (keys leaf / n / x), so that field accesses do not fail and the
	// templates actually run: errors are injected separately, at a low rate
	nb := 1 + r.intn(3)
	name := func() string { return fmt.Sprintf("b%d", r.intn(nb)) }
	arg := func() string {
		return pick(r, []string{".", ".", ".", `(dict "leaf" true)`, `(dict "leaf" true)`, `(dict "leaf" false)`, `(dict)`, `(dict "leaf" .leaf "n" 1)`, `(dict "x" .)`})
	}
	var body func(depth int) string
	atom := func(depth int) string {
		switch r.intn(20) {
		case 0, 1, 2, 3, 4, 5:
			return fmt.Sprintf(`{{ include "%s" %s }}`, name(), arg())
		case 6, 7:
			return pick(r, []string{"text ", "leaf", "# title", "x"})
		case 8, 9:
			return pick(r, []string{"{{ .leaf }}", "{{ .n }}", "{{ .x }}"})
		case 10:
			return pick(r, []string{"{{ add1 1 }}", `{{ first (listStr "a") }}`, `{{ default "d" .x }}`, `{{ ternary "a" "b" true }}`, `{{ dict "k" }}`, "{{ sub1 0 }}"})
		case 11, 12, 13, 14:
			if depth < 2 {
				return "{{ if .leaf }}" + body(depth+1) + "{{ else }}" + body(depth+1) + "{{ end }}"
			}
			return "leaf"
		case 15:
			if depth < 2 {
				return `{{ range (listStr "a" "b") }}` + body(depth+1) + "{{ end }}"
			}
			return "r"
		case 16:
			if depth < 2 {
				return "{{ if .n }}" + body(depth+1) + "{{ end }}"
			}
			return "n"
		case 17:
			// deliberate run-time / parse errors
			return pick(r, []string{"{{ first (listStr) }}", `{{ last (listStr) }}`, "{{ dict 1 2 }}", "{{ .nope.deeper }}", `{{ include "missing" . }}`, "{{ nope }}", "{{ include }}", "{{"})
		default:
			return "\n"
		}
	}
	body = func(depth int) string {
		var sb strings.Builder
		for k := 1 + r.intn(3); k > 0; k-- {
			sb.WriteString(atom(depth))
			sb.WriteString("\n")
		}
		return sb.String()
	}
	// most recursive templates are "walkers": a base case on the data, otherwise a few inclusions (of the
	// block itself or of its siblings) on the same or on fresh data; the rest are free-form bodies
	walker := func() string {
		var sb strings.Builder
		sb.WriteString("{{ if .leaf }}" + pick(r, []string{"leaf", "{{ .n }}", "x"}) + "{{ else }}\n")
		for k := 1 + r.intn(3); k > 0; k-- {
			fmt.Fprintf(&sb, "{{ include \"%s\" %s }}\n", name(), arg())
		}
		sb.WriteString("{{ end }}\n")
		return sb.String()
	}
	var sb strings.Builder
	for i := 0; i < nb; i++ {
		b := body(0)
		if r.chance(60) {
			b = walker()
		}
		fmt.Fprintf(&sb, "{{- define \"b%d\" -}}\n%s{{- end -}}\n", i, b)
	}
	fmt.Fprintf(&sb, `{{ include "b0" %s }}`+"\n", pick(r, []string{`(dict "leaf" false)`, `(dict "leaf" false)`, `(dict "leaf" true)`, `(dict)`}))
	return sb.String()
}

// hand-written configuration documents: one per suspected mechanism
func c04ConfigCorpus() []*c04Case {
	schema := []byte(`{"$schema":"http://json-schema.org/draft-07/schema#","definitions":{"Foo":{"type":"object","properties":{"a":{"type":"string"},"b":{"type":"boolean"}},"required":["a"]},"K":{"type":"string","const":"k"}},"type":"object","properties":{"foo":{"$ref":"#/definitions/Foo"},"k":{"$ref":"#/definitions/K"}}}`)
	input := `inputs: [{jsonschema: {path: '%__config_dir%/in/schema.json', package: corpus}}]`
	out := `output: {directory: 'out/%l', types: true, builders: true, converters: true, languages: [{go: {package_root: example.com/lab}}, {python: {}}, {typescript: {}}, {java: {}}, {php: {}}]}`
	// single-language outputs: the languages of one run are processed concurrently, so a case that ends differently
	// in two languages has no stable outcome
	outGo := `output: {directory: 'out/%l', types: true, builders: true, converters: true, languages: [{go: {package_root: example.com/lab}}]}`
	outTS := `output: {directory: 'out/%l', types: true, builders: true, converters: true, languages: [{typescript: {}}]}`
	mk := func(name, cog, passes, veneers string) *c04Case {
		c := &c04Case{ID: "corpus-config/" + name, Kind: "run", Config: "cog.yaml", Note: "pinned-config=" + name, Files: map[string][]byte{"in/schema.json": schema, "cog.yaml": []byte(cog)}}
		if passes != "" {
			c.Files["passes.yaml"] = []byte(passes)
		}
		if veneers != "" {
			c.Files["veneers/a.yaml"] = []byte(veneers)
		}
		return c
	}
	tr := "transformations: {schemas: ['%__config_dir%/passes.yaml'], builders: ['%__config_dir%/veneers']}"
	vOK := "language: all\npackage: corpus\n"
	cases := []*c04Case{
		mk("baseline", input+"\n"+out+"\n", "", ""),
		mk("inputs-null-element", "inputs: [~]\n"+out+"\n", "", ""),
		mk("languages-null-element", input+"\noutput: {directory: out, types: true, languages: [~]}\n", "", ""),
		mk("languages-empty-element", input+"\noutput: {directory: out, types: true, languages: [{}]}\n", "", ""),
		mk("passes-file-null", input+"\n"+out+"\n"+tr+"\n", "~", vOK),
		mk("veneers-file-null", input+"\n"+out+"\n"+tr+"\n", "passes: []", "~"),
		mk("passes-null-element", input+"\n"+out+"\n"+tr+"\n", "passes: [~]", vOK),
		mk("veneers-null-rule", input+"\n"+out+"\n"+tr+"\n", "passes: []", vOK+"builders: [~]\noptions: [~]\n"),
		mk("retype-object-nil-struct", input+"\n"+out+"\n"+tr+"\n", "passes: [{retype_object: {object: corpus.Foo, as: {kind: struct}}}]", vOK),
		mk("retype-object-nil-array", input+"\n"+out+"\n"+tr+"\n", "passes: [{retype_object: {object: corpus.Foo, as: {kind: array}}}]", vOK),
		mk("retype-field-nil-array", input+"\n"+out+"\n"+tr+"\n", "passes: [{retype_field: {field: corpus.Foo.a, as: {kind: array}}}]", vOK),
		mk("add-object-empty-kind", input+"\n"+out+"\n"+tr+"\n", "passes: [{add_object: {object: corpus.New, as: {}}}]", vOK),
		mk("retype-then-hint", input+"\n"+out+"\n"+tr+"\n", "passes: [{retype_object: {object: corpus.Foo, as: {kind: scalar, scalar: {scalar_kind: string}}}}, {hint_object: {object: corpus.Foo, hints: {kind: x}}}]", vOK),
		mk("retype-self-reference", input+"\n"+out+"\n"+tr+"\n", "passes: [{retype_object: {object: corpus.Foo, as: {kind: ref, ref: {referred_pkg: corpus, referred_type: Foo}}}}]", vOK),
		mk("add-object-alias-cycle", input+"\n"+out+"\n"+tr+"\n", "passes: [{add_object: {object: corpus.A, as: {kind: ref, ref: {referred_pkg: corpus, referred_type: B}}}}, {add_object: {object: corpus.B, as: {kind: ref, ref: {referred_pkg: corpus, referred_type: A}}}}, {add_fields: {to: corpus.Foo, fields: [{name: cyc, required: true, type: {kind: ref, ref: {referred_pkg: corpus, referred_type: A}}}]}}]", vOK),
		mk("constant-to-enum-non-string", input+"\n"+out+"\n"+tr+"\n", "passes: [{retype_object: {object: corpus.K, as: {kind: scalar, scalar: {scalar_kind: string, value: 1}}}}, {constant_to_enum: {objects: [corpus.K]}}]", vOK),
		mk("enum-member-without-type", input+"\n"+out+"\n"+tr+"\n", "passes: [{add_object: {object: corpus.E, as: {kind: enum, enum: {values: [{name: a, value: a}]}}}}]", vOK),
		mk("enum-empty-member-name", input+"\n"+out+"\n"+tr+"\n", "passes: [{add_object: {object: corpus.E, as: {kind: enum, enum: {values: [{name: '', value: 1, type: {kind: scalar, scalar: {scalar_kind: int64}}}]}}}}]", vOK),
		mk("enum-empty-values", input+"\n"+outGo+"\n"+tr+"\n", "passes: [{add_object: {object: corpus.E, as: {kind: enum, enum: {values: []}}}}]", vOK),
		mk("union-null-null", input+"\n"+out+"\n"+tr+"\n", "passes: [{add_fields: {to: corpus.Foo, fields: [{name: nn, required: true, type: {kind: disjunction, disjunction: {branches: [{kind: scalar, scalar: {scalar_kind: 'null'}}, {kind: scalar, scalar: {scalar_kind: 'null'}}]}}}]}}]", vOK),
		mk("union-empty", input+"\n"+outGo+"\n"+tr+"\n", "passes: [{add_fields: {to: corpus.Foo, fields: [{name: eu, required: true, type: {kind: disjunction, disjunction: {branches: []}}}]}}]", vOK),
		mk("union-empty-typescript", input+"\n"+outTS+"\n"+tr+"\n", "passes: [{add_fields: {to: corpus.Foo, fields: [{name: eu, required: true, type: {kind: disjunction, disjunction: {branches: []}}}]}}]", vOK),
		mk("fields-set-default-wrong-shape", input+"\n"+out+"\n"+tr+"\n", "passes: [{fields_set_default: {defaults: {corpus.Foo.a: [1, {x: ~}], corpus.Foo.b: {k: v}}}}]", vOK),
		mk("constraint-without-args", input+"\n"+out+"\n"+tr+"\n", "passes: [{retype_field: {field: corpus.Foo.a, as: {kind: scalar, scalar: {scalar_kind: string, constraints: [{op: minLength}]}}}}]", vOK),
		mk("unfold-boolean-on-added-option", input+"\n"+out+"\n"+tr+"\n", "passes: []", vOK+"builders: [{add_option: {by_object: Foo, option: {name: flag, arguments: [{name: v, type: {kind: scalar, scalar: {scalar_kind: bool}}}]}}}]\noptions: [{unfold_boolean: {by_name: Foo.flag, true_as: on, false_as: off}}]\n"),
		mk("struct-fields-as-arguments-on-scalar", input+"\n"+out+"\n"+tr+"\n", "passes: []", vOK+"options: [{struct_fields_as_arguments: {by_name: Foo.a}}, {struct_fields_as_options: {by_name: Foo.b}}, {array_to_append: {by_name: Foo.a}}, {map_to_index: {by_name: Foo.a}}, {disjunction_as_options: {by_name: Foo.a, argument_index: 3}}]\n"),
		mk("add-option-no-arguments-rules", input+"\n"+out+"\n"+tr+"\n", "passes: []", vOK+"builders: [{add_option: {by_object: Foo, option: {name: bare}}}]\noptions: [{unfold_boolean: {by_name: Foo.bare}}, {array_to_append: {by_name: Foo.bare}}, {map_to_index: {by_name: Foo.bare}}, {struct_fields_as_arguments: {by_name: Foo.bare}}, {struct_fields_as_options: {by_name: Foo.bare}}, {disjunction_as_options: {by_name: Foo.bare}}, {rename_arguments: {by_name: Foo.bare, as: [x]}}]\n"),
		mk("if-non-boolean", "inputs: [{if: '1', jsonschema: {path: '%__config_dir%/in/schema.json', package: corpus}}]\n"+out+"\n", "", ""),
		mk("empty-document", "", "", ""),
		mk("null-document", "~", "", ""),
	}
	return cases
}

func c04CfgSortedNames(m map[string]*c04CfgFile) []string {
	var out []string
	for k := range m {
		out = append(out, k)
	}
	sort.Strings(out)
	return out
}

func init() {
	// debugging aid: print generated templates
	register("c04-dump-templates", func(args map[string]string, out *bufio.Writer) error {
		r := newRng(uint64(argInt(args, "seed", 1)))
		for i := 0; i < argInt(args, "n", 5); i++ {
			fmt.Fprintf(out, "----- %d\n%s\n", i, c04GenTemplate(r))
		}
		return nil
	})
}
