package main

// C05: the parsers stream fed by the lab's source-schema generator (harness/src_*.go: the
// construct grammar `Defs` and its three renderers).  Built into a SEPARATE binary
// (verifharness-c05lab) so that work in progress on the lab files cannot break the C05 check:
// when that binary does not build the stream is skipped and the evidence says so.

import (
	"bufio"
	"strings"
)

func init() {
	register("c05-parsers-lab", func(args map[string]string, out *bufio.Writer) error {
		c05WorkDir = args["work"]
		n := argInt(args, "n", 60)
		seed := uint64(argInt(args, "seed", 1))
		r := newRng(seed + 77)
		opts := defaultGenOpts().with("+def.scalar,+def.collection,-int.narrow,-int.unsigned,-num.f32,-const.bool,-default")
		for i := 0; i < n; i++ {
			d := genDefs(seed, i, opts)
			for _, format := range labFormats {
				pkg := "lab"
				ro := renderDefs(d, format, pkg)
				if ro.Text == "" {
					continue
				}
				c := &c05Case{verb: "c05parse", format: format, pkg: pkg, src: ro.Text}
				c05Emit(out, c)
				// the same text under a loader option set of its input kind (c05_popt.go)
				if r.chance(60) {
					file, first := "lab/schema.json", "path=lab/schema.json"
					if format == "cue" {
						file, first = "lab.cue", "value=lab.cue"
					}
					set := append([]string{first}, pick(r, c05POptionSets(format))...)
					if format == "cue" && !strings.Contains(strings.Join(set, " "), "pkg=") {
						set = append(set, "pkg="+pkg)
					}
					pc := &c05Case{verb: "c05popt", files: []c05PFile{{file, ro.Text}}, inputs: []c05PInput{{kind: format, opts: set}}}
					if c05PResolve(pc) {
						c05Emit(out, pc)
					}
				}
				if len(d.Items) > 0 && r.chance(40) {
					c2 := *c
					c2.allowed = []string{pick(r, d.Items).Name}
					c05Emit(out, &c2)
				}
			}
		}
		return nil
	})
}
