package main

// C07, generated inputs: 2-3 random source schemas (the lab's Src grammar: every construct, rendered as
// JSON Schema, OpenAPI or CUE, each its own package; the generator reuses definition and field names
// across terms, so generated objects of different packages often share names) through the real pipeline:
//   (1) [A,B,(C)] vs the reversed order: same files;
//   (2) files of A's package in the joint run = files of A alone;
//   (3) one language alone vs all seven together.

import (
	"bufio"
	"fmt"
	"os"
	"strings"
)

func init() {
	register("c07-lab", func(args map[string]string, out *bufio.Writer) error {
		n := argInt(args, "n", 20)
		seed := uint64(argInt(args, "seed", 1))
		r := newRng(seed)
		dir := labWorkDir("c07lab")
		defer os.RemoveAll(dir)
		clean := strings.NewReplacer("\n", " ", "\t", " ")
		o := defaultGenOpts()
		for i := 0; i < n; i++ {
			k := 2 + r.intn(2)
			var ins []c07Input
			var srcs []string
			for j := 0; j < k; j++ {
				d := genDefs(seed, i*3+j, o)
				// a format able to express the term, starting from a random one
				var format, pkg string
				var ro renderOut
				first := r.intn(len(labFormats))
				for t := 0; t < len(labFormats); t++ {
					format = labFormats[(first+t)%len(labFormats)]
					pkg = fmt.Sprintf("l%dp%d%s", i, j, labFormatSuffix[format])
					dd, _ := degradeDefs(d, format, 1) // rewrite what the format cannot express
					ro = renderDefs(dd, format, pkg)
					if len(ro.Unsupported) == 0 {
						break
					}
				}
				if len(ro.Unsupported) > 0 {
					continue
				}
				path, err := writeSchemaFile(dir, format, pkg, ro.Text)
				if err != nil {
					continue
				}
				ins = append(ins, c07Input{format, path, pkg})
				srcs = append(srcs, format+":"+d.sexp())
			}
			if len(ins) < 2 {
				fmt.Fprintf(out, "-\tlab-skip %d too-few-renderable-terms\tok\n", i)
				continue
			}
			builders := r.chance(40)
			desc := clean.Replace(fmt.Sprintf("builders=%v %s", builders, strings.Join(srcs, " || ")))
			var alone []map[string]string
			skip := ""
			for _, in := range ins {
				f, err := c07Run([]c07Input{in}, c07Langs, builders)
				if err != nil {
					skip = in.pkg + ": " + labFirstLine(err.Error())
					break
				}
				alone = append(alone, f)
			}
			if skip != "" {
				fmt.Fprintf(out, "-\tlab-skip %d input-fails-alone %s\tok\n", i, clean.Replace(skip))
				continue
			}
			rev := make([]c07Input, len(ins))
			for j := range ins {
				rev[len(ins)-1-j] = ins[j]
			}
			ab, err1 := c07Run(ins, c07Langs, builders)
			ba, err2 := c07Run(rev, c07Langs, builders)
			verdict := "ok"
			switch {
			case err1 != nil && err2 != nil:
				verdict = "FAIL inputs of different packages fail together while each succeeds alone: " + labFirstLine(err1.Error())
			case err1 != nil || err2 != nil:
				e := err1
				if e == nil {
					e = err2
				}
				verdict = "FAIL fails in one order of the inputs only: " + labFirstLine(e.Error())
			default:
				if df := c07Diff(ab, ba, func(string) bool { return true }); df != "" {
					verdict = "FAIL reordering inputs of different packages changes files: " + df
				}
				for j, in := range ins {
					if verdict != "ok" {
						break
					}
					if df := c07Diff(alone[j], ab, c07PkgKeep(in.pkg)); df != "" {
						verdict = "FAIL an unrelated input changes files of the other packages: " + df
					}
				}
				if verdict == "ok" {
					l := c07Langs[i%len(c07Langs)]
					one, err := c07Run(ins, []string{l}, builders)
					if err != nil {
						verdict = "FAIL language alone fails while all together succeed: " + l + ": " + labFirstLine(err.Error())
					} else if df := c07Diff(one, ab, func(p string) bool { return strings.HasPrefix(p, l+"/") }); df != "" {
						verdict = "FAIL files of " + l + " differ alone vs with siblings: " + df
					}
				}
			}
			fmt.Fprintf(out, "-\tlab %d %s\t%s\n", i, desc, clean.Replace(verdict))
		}
		return nil
	})
}
