package main

// C07, further streams:
//  c07-process-frame : a language's pass chain (Passes.Process) never modifies the schemas it is
//                      handed — random IR (all kinds, intersections, hints, defaults) × 7 languages.
//  c07-nilchecks     : the per-builder stage after veneers (GenerateBuilderNilChecks) gives every
//                      builder the same result whether it is processed alone or among others, in
//                      any order — builders with constructor/option assignments through nested
//                      (nullable) paths, which in production come from veneers.

import (
	"bufio"
	"fmt"
	"strings"

	"github.com/grafana/cog/internal/ast"
	"github.com/grafana/cog/internal/ast/compiler"
	"github.com/grafana/cog/internal/jennies/golang"
	"github.com/grafana/cog/internal/jennies/java"
	"github.com/grafana/cog/internal/jennies/jsonschema"
	"github.com/grafana/cog/internal/jennies/openapi"
	"github.com/grafana/cog/internal/jennies/php"
	"github.com/grafana/cog/internal/jennies/python"
	"github.com/grafana/cog/internal/jennies/typescript"
	"github.com/grafana/cog/internal/languages"
)

func c07Languages() map[string]languages.Language {
	return map[string]languages.Language{
		"go":         golang.New(golang.Config{}),
		"java":       java.New(java.Config{}),
		"php":        php.New(php.Config{}),
		"python":     python.New(python.Config{}),
		"typescript": typescript.New(typescript.Config{}),
		"jsonschema": jsonschema.New(jsonschema.Config{}),
		"openapi":    openapi.New(openapi.Config{}),
	}
}

// nested paths [field, subfield] through a reference to a struct
func c07NestedPaths(schemas ast.Schemas, b ast.Builder) []ast.Path {
	resolved := schemas.ResolveToType(b.For.Type)
	if !resolved.IsStruct() {
		return nil
	}
	var out []ast.Path
	for _, f := range resolved.Struct.Fields {
		if !f.Type.IsRef() {
			continue
		}
		sub := schemas.ResolveToType(f.Type)
		if !sub.IsStruct() {
			continue
		}
		for _, g := range sub.Struct.Fields {
			out = append(out, ast.Path{
				{Identifier: f.Name, Type: f.Type},
				{Identifier: g.Name, Type: g.Type},
			})
		}
	}
	return out
}

func init() {
	register("c07-process-frame", func(args map[string]string, out *bufio.Writer) error {
		n := argInt(args, "n", 300)
		r := newRng(uint64(argInt(args, "seed", 1)))
		o := defaultIRGenOpts(args["tier"])
		langs := c07Languages()
		names := []string{"go", "java", "php", "python", "typescript", "jsonschema", "openapi"}
		for i := 0; i < n; i++ {
			schemas := genSchemas(r, o)
			c06BreakCycles(schemas)
			lang := names[i%len(names)]
			// the chain: a language's own chain, optionally followed by "final passes" that rewrite names and
			// references in place (what Pipeline.finalPasses / common passes are), or an empty chain in one of
			// its spellings (a language without passes, a nil FinalPasses, a Concat of two empty chains)
			chain := langs[lang].CompilerPasses()
			what := "lang=" + lang
			switch r.intn(6) {
			case 0:
				switch r.intn(3) {
				case 0:
					chain, what = nil, "chain=nil"
				case 1:
					chain, what = compiler.Passes{}, "chain=empty"
				default:
					chain, what = compiler.Passes(nil).Concat(compiler.Passes{}), "chain=concat-of-empties"
				}
			case 1, 2:
				var extra compiler.Passes
				extra = append(extra, &compiler.PrefixObjectNames{Prefix: "Zz"})
				if len(schemas) > 0 && schemas[0].Objects.Len() > 0 {
					first := schemas[0].Objects.At(0)
					extra = append(extra, &compiler.RenameObject{From: compiler.ObjectReference{Package: schemas[0].Package, Object: "Zz" + first.Name}, To: "Renamed"})
				}
				if r.chance(50) {
					chain, what = chain.Concat(extra), what+"+prefix+rename"
				} else {
					chain, what = extra, "chain=prefix+rename"
				}
			}
			before := virSchemas(schemas)
			verdict := "ok"
			status := "ok"
			var result ast.Schemas
			func() {
				defer func() {
					if rec := recover(); rec != nil {
						status = "panic" // C04's business; the frame property is still checked below
					}
				}()
				var err error
				if result, err = chain.Process(schemas); err != nil {
					status = "err"
				}
			}()
			if after := virSchemas(schemas); after != before {
				verdict = "FAIL " + what + " chain modified the schemas it was handed: " + c07FirstDiff(before, after)
			} else if status == "ok" {
				// what the chain returns belongs to the caller (veneers, jennies and later chains write into it):
				// writing through every pointer of the result must not reach the schemas that were handed in
				func() {
					defer func() { _ = recover() }()
					c07Scribble(result)
				}()
				if after := virSchemas(schemas); after != before {
					verdict = "FAIL " + what + " result of the chain shares storage with the schemas it was handed (writing into the result changed the input): " + c07FirstDiff(before, after)
				}
			}
			fmt.Fprintf(out, "-\tprocess-frame %s status=%s input=%s\t%s\n", what, status, before, verdict)
		}
		return nil
	})

	register("c07-nilchecks", func(args map[string]string, out *bufio.Writer) error {
		n := argInt(args, "n", 300)
		r := newRng(uint64(argInt(args, "seed", 1)))
		o := defaultIRGenOpts(args["tier"])
		o.noDisj, o.noInter, o.noSlot = true, true, true
		o.maxObjs = 5
		langs := c07Languages()
		for i := 0; i < n; i++ {
			schemas := genSchemas(r, o)
			c06BreakCycles(schemas)
			lang := pick(r, []string{"go", "python", "java", "php", "typescript"})
			verdict := "ok"
			desc := ""
			func() {
				defer func() {
					if rec := recover(); rec != nil {
						desc = fmt.Sprintf("panic %v", rec)
					}
				}()
				processed, err := langs[lang].CompilerPasses().Process(schemas)
				if err != nil {
					desc = "chain-err"
					return
				}
				builders := (&ast.BuilderGenerator{}).FromAST(processed)
				// what veneers (initialize, struct_fields_as_options, …) produce: assignments through nested paths
				injected := 0
				for bi := range builders {
					paths := c07NestedPaths(processed, builders[bi])
					if len(paths) == 0 {
						continue
					}
					if r.chance(70) {
						p := pick(r, paths)
						builders[bi].Constructor.Assignments = append(builders[bi].Constructor.Assignments,
							ast.Assignment{Path: p, Value: ast.AssignmentValue{Constant: "x"}, Method: ast.DirectAssignment})
						injected++
					}
					if r.chance(70) && len(builders[bi].Options) > 0 {
						p := pick(r, paths)
						last := len(builders[bi].Options) - 1
						builders[bi].Options[last].Assignments = append(builders[bi].Options[last].Assignments,
							ast.Assignment{Path: p, Value: ast.AssignmentValue{Constant: "y"}, Method: ast.DirectAssignment})
						injected++
					}
				}
				desc = fmt.Sprintf("builders=%d injected=%d", len(builders), injected)
				copyOf := func(bs ast.Builders) ast.Builders {
					cp := make(ast.Builders, len(bs))
					for i := range bs {
						cp[i] = bs[i].DeepCopy()
					}
					return cp
				}
				all, err := languages.GenerateBuilderNilChecks(langs[lang], languages.Context{Schemas: processed, Builders: copyOf(builders)})
				if err != nil {
					desc += " nilchecks-err"
					return
				}
				for bi := range builders {
					alone, err := languages.GenerateBuilderNilChecks(langs[lang], languages.Context{Schemas: processed, Builders: copyOf(builders[bi : bi+1])})
					if err != nil {
						continue
					}
					if a, b := virBuilder(alone.Builders[0]), virBuilder(all.Builders[bi]); a != b {
						verdict = fmt.Sprintf("FAIL nil checks of builder %s.%s differ when generated alone vs after %d other builders (%s): %s",
							builders[bi].Package, builders[bi].Name, bi, lang, c07FirstDiff(a, b))
						return
					}
				}
				// reversed order
				rev := copyOf(builders)
				for a, b := 0, len(rev)-1; a < b; a, b = a+1, b-1 {
					rev[a], rev[b] = rev[b], rev[a]
				}
				revOut, err := languages.GenerateBuilderNilChecks(langs[lang], languages.Context{Schemas: processed, Builders: rev})
				if err == nil {
					for bi := range builders {
						if a, b := virBuilder(revOut.Builders[len(rev)-1-bi]), virBuilder(all.Builders[bi]); a != b {
							verdict = fmt.Sprintf("FAIL nil checks of builder %s.%s depend on the order of the builders (%s): %s",
								builders[bi].Package, builders[bi].Name, lang, c07FirstDiff(a, b))
							return
						}
					}
				}
			}()
			fmt.Fprintf(out, "-\tnilchecks lang=%s %s input=%s\t%s\n", lang, desc, virSchemas(schemas), verdict)
		}
		return nil
	})
}

func c07FirstDiff(a, b string) string {
	i := 0
	for i < len(a) && i < len(b) && a[i] == b[i] {
		i++
	}
	lo := i - 60
	if lo < 0 {
		lo = 0
	}
	hiA, hiB := i+60, i+60
	if hiA > len(a) {
		hiA = len(a)
	}
	if hiB > len(b) {
		hiB = len(b)
	}
	return strings.NewReplacer("\t", " ", "\n", " ").Replace(fmt.Sprintf("…%s… vs …%s…", a[lo:hiA], b[lo:hiB]))
}


// c07Scribble writes through every pointer, slice and map reachable from the schemas.
func c07Scribble(schemas ast.Schemas) {
	for _, s := range schemas {
		if s == nil {
			continue
		}
		s.Package += "_w"
		s.EntryPoint += "_w"
		c07ScribbleType(&s.EntryPointType)
		if s.Objects == nil {
			continue
		}
		var keys []string
		s.Objects.Iterate(func(k string, obj ast.Object) {
			keys = append(keys, k)
			c07ScribbleType(&obj.Type)
			for i := range obj.Comments {
				obj.Comments[i] += "_w"
			}
			for i := range obj.PassesTrail {
				obj.PassesTrail[i] += "_w"
			}
		})
		s.AddObject(ast.NewObject(s.Package, "ScribbledNewObject", ast.String()))
		if len(keys) > 0 {
			s.Objects.Remove(keys[0])
		}
		s.Objects.Sort(func(a, b string) bool { return a > b })
	}
}

func c07ScribbleType(t *ast.Type) {
	t.Nullable = !t.Nullable
	if t.Hints != nil {
		t.Hints["scribbled"] = "w"
	}
	for i := range t.PassesTrail {
		t.PassesTrail[i] += "_w"
	}
	if l, ok := t.Default.([]any); ok && len(l) > 0 {
		l[0] = "scribbled"
	}
	if m, ok := t.Default.(map[string]any); ok {
		m["scribbled"] = "w"
	}
	switch {
	case t.Ref != nil:
		t.Ref.ReferredType += "_w"
		t.Ref.ReferredPkg += "_w"
	case t.ConstantReference != nil:
		t.ConstantReference.ReferredType += "_w"
	case t.Array != nil:
		c07ScribbleType(&t.Array.ValueType)
	case t.Map != nil:
		c07ScribbleType(&t.Map.IndexType)
		c07ScribbleType(&t.Map.ValueType)
	case t.Struct != nil:
		for i := range t.Struct.Fields {
			t.Struct.Fields[i].Name += "_w"
			for j := range t.Struct.Fields[i].Comments {
				t.Struct.Fields[i].Comments[j] += "_w"
			}
			c07ScribbleType(&t.Struct.Fields[i].Type)
		}
	case t.Disjunction != nil:
		t.Disjunction.Discriminator += "_w"
		if t.Disjunction.DiscriminatorMapping != nil {
			t.Disjunction.DiscriminatorMapping["scribbled"] = "w"
		}
		for i := range t.Disjunction.Branches {
			c07ScribbleType(&t.Disjunction.Branches[i])
		}
	case t.Intersection != nil:
		for i := range t.Intersection.Branches {
			c07ScribbleType(&t.Intersection.Branches[i])
		}
	case t.Enum != nil:
		for i := range t.Enum.Values {
			t.Enum.Values[i].Name += "_w"
			c07ScribbleType(&t.Enum.Values[i].Type)
		}
	case t.Scalar != nil:
		t.Scalar.ScalarKind += "_w"
		for i := range t.Scalar.Constraints {
			t.Scalar.Constraints[i].Op += "_w"
			if len(t.Scalar.Constraints[i].Args) > 0 {
				t.Scalar.Constraints[i].Args[0] = "scribbled"
			}
		}
	case t.ComposableSlot != nil:
		t.ComposableSlot.Variant += "_w"
	}
}
