package main

// C05: VIR decoder (text -> ast.Schemas), the inverse of vir.go, so that a case can be replayed,
// shrunk and pinned from its request text.  Self-contained (own S-expression reader).

import (
	"encoding/json"
	"fmt"
	"strconv"
	"strings"

	"github.com/grafana/cog/internal/ast"
)

type c05Sx struct {
	kind byte // 'a' atom, 's' string, 'l' list
	text string
	list []*c05Sx
}

type c05SxReader struct {
	s string
	i int
}

func (p *c05SxReader) skip() {
	for p.i < len(p.s) && p.s[p.i] == ' ' {
		p.i++
	}
}

func (p *c05SxReader) read() (*c05Sx, error) {
	p.skip()
	if p.i >= len(p.s) {
		return nil, fmt.Errorf("unexpected end")
	}
	switch c := p.s[p.i]; {
	case c == '(':
		p.i++
		x := &c05Sx{kind: 'l'}
		for {
			p.skip()
			if p.i >= len(p.s) {
				return nil, fmt.Errorf("unclosed list")
			}
			if p.s[p.i] == ')' {
				p.i++
				return x, nil
			}
			e, err := p.read()
			if err != nil {
				return nil, err
			}
			x.list = append(x.list, e)
		}
	case c == ')':
		return nil, fmt.Errorf("unexpected )")
	case c == '"':
		j := p.i + 1
		for j < len(p.s) && p.s[j] != '"' {
			if p.s[j] == '\\' {
				j++
			}
			j++
		}
		if j >= len(p.s) {
			return nil, fmt.Errorf("unclosed string")
		}
		raw := p.s[p.i : j+1]
		p.i = j + 1
		s, err := strconv.Unquote(raw)
		if err != nil {
			return nil, fmt.Errorf("bad string %s: %v", raw, err)
		}
		return &c05Sx{kind: 's', text: s}, nil
	default:
		j := p.i
		for j < len(p.s) && p.s[j] != ' ' && p.s[j] != '(' && p.s[j] != ')' {
			j++
		}
		x := &c05Sx{kind: 'a', text: p.s[p.i:j]}
		p.i = j
		return x, nil
	}
}

func c05ParseSexp(text string) (*c05Sx, error) {
	p := &c05SxReader{s: strings.TrimSpace(text)}
	x, err := p.read()
	if err != nil {
		return nil, err
	}
	p.skip()
	if p.i != len(p.s) {
		return nil, fmt.Errorf("trailing text")
	}
	return x, nil
}

// c05ParseSexps reads a sequence of S-expressions
func c05ParseSexps(text string) ([]*c05Sx, error) {
	p := &c05SxReader{s: strings.TrimSpace(text)}
	out := []*c05Sx{}
	for {
		p.skip()
		if p.i >= len(p.s) {
			return out, nil
		}
		x, err := p.read()
		if err != nil {
			return nil, err
		}
		out = append(out, x)
	}
}

type c05Dec struct{ err error }

func (d *c05Dec) fail(f string, a ...any) {
	if d.err == nil {
		d.err = fmt.Errorf(f, a...)
	}
}

// head checks that x is a list whose first element is the atom h (n < 0: any length)
func (d *c05Dec) head(x *c05Sx, h string, n int) bool {
	if x == nil || x.kind != 'l' || len(x.list) == 0 || x.list[0].kind != 'a' || x.list[0].text != h || (n >= 0 && len(x.list) != n) {
		d.fail("expected (%s …/%d)", h, n)
		return false
	}
	return true
}

func (d *c05Dec) str(x *c05Sx) string {
	if x == nil || x.kind != 's' {
		d.fail("expected string")
		return ""
	}
	return x.text
}

func (d *c05Dec) val(x *c05Sx) any {
	if x == nil {
		d.fail("nil value")
		return nil
	}
	if x.kind == 'a' {
		if x.text != "nil" {
			d.fail("bad value atom %s", x.text)
		}
		return nil
	}
	if x.kind != 'l' || len(x.list) == 0 || x.list[0].kind != 'a' {
		d.fail("bad value")
		return nil
	}
	switch x.list[0].text {
	case "b":
		return len(x.list) == 2 && x.list[1].text == "true"
	case "i":
		if len(x.list) != 3 {
			d.fail("bad int")
			return nil
		}
		tag, txt := x.list[1].text, x.list[2].text
		if strings.HasPrefix(tag, "u") {
			n, err := strconv.ParseUint(txt, 10, 64)
			if err != nil {
				d.fail("bad uint %s", txt)
			}
			switch tag {
			case "u64":
				return n
			case "u32":
				return uint32(n)
			case "u16":
				return uint16(n)
			case "u8":
				return uint8(n)
			default:
				return uint(n)
			}
		}
		n, err := strconv.ParseInt(txt, 10, 64)
		if err != nil {
			d.fail("bad int %s", txt)
		}
		switch tag {
		case "i64":
			return n
		case "i32":
			return int32(n)
		case "i16":
			return int16(n)
		case "i8":
			return int8(n)
		default:
			return int(n)
		}
	case "f":
		if len(x.list) != 3 {
			d.fail("bad float")
			return nil
		}
		if x.list[1].text == "f32" {
			f, err := strconv.ParseFloat(d.str(x.list[2]), 32)
			if err != nil {
				d.fail("bad float")
			}
			return float32(f)
		}
		f, err := strconv.ParseFloat(d.str(x.list[2]), 64)
		if err != nil {
			d.fail("bad float")
		}
		return f
	case "jn":
		return json.Number(d.str(x.list[1]))
	case "s":
		return d.str(x.list[1])
	case "l":
		out := make([]any, 0, len(x.list)-1)
		for _, e := range x.list[1:] {
			out = append(out, d.val(e))
		}
		return out
	case "m":
		out := map[string]any{}
		for _, kv := range x.list[1:] {
			if kv.kind != 'l' || len(kv.list) != 2 {
				d.fail("bad map entry")
				return nil
			}
			out[d.str(kv.list[0])] = d.val(kv.list[1])
		}
		return out
	}
	d.fail("unsupported value head %s", x.list[0].text)
	return nil
}

func (d *c05Dec) meta(x *c05Sx, t *ast.Type) {
	if !d.head(x, "meta", 4) {
		return
	}
	t.Nullable = x.list[1].text == "true"
	t.Default = d.val(x.list[2])
	t.Hints = ast.JenniesHints{}
	if !d.head(x.list[3], "hints", -1) {
		return
	}
	for _, kv := range x.list[3].list[1:] {
		if kv.kind != 'l' || len(kv.list) != 2 {
			d.fail("bad hint")
			return
		}
		t.Hints[d.str(kv.list[0])] = d.val(kv.list[1])
	}
}

func (d *c05Dec) pairs(xs []*c05Sx) map[string]string {
	out := map[string]string{}
	for _, kv := range xs {
		if kv.kind != 'l' || len(kv.list) != 2 {
			d.fail("bad pair")
			return out
		}
		out[d.str(kv.list[0])] = d.str(kv.list[1])
	}
	return out
}

func (d *c05Dec) types(x *c05Sx, h string) []ast.Type {
	out := []ast.Type{}
	if !d.head(x, h, -1) {
		return out
	}
	for _, e := range x.list[1:] {
		out = append(out, d.ty(e))
	}
	return out
}

func (d *c05Dec) ty(x *c05Sx) ast.Type {
	t := ast.Type{}
	if x == nil || x.kind != 'l' || len(x.list) < 2 || x.list[0].kind != 'a' {
		d.fail("bad type")
		return t
	}
	l := x.list
	d.meta(l[len(l)-1], &t)
	switch l[0].text {
	case "scalar":
		if len(l) != 5 || !d.head(l[3], "cs", -1) {
			d.fail("bad scalar")
			return t
		}
		t.Kind = ast.KindScalar
		t.Scalar = &ast.ScalarType{ScalarKind: ast.ScalarKind(d.str(l[1])), Value: d.val(l[2])}
		for _, c := range l[3].list[1:] {
			if c.kind != 'l' || len(c.list) == 0 {
				d.fail("bad constraint")
				return t
			}
			tc := ast.TypeConstraint{Op: ast.Op(d.str(c.list[0]))}
			for _, a := range c.list[1:] {
				tc.Args = append(tc.Args, d.val(a))
			}
			t.Scalar.Constraints = append(t.Scalar.Constraints, tc)
		}
	case "ref":
		t.Kind = ast.KindRef
		t.Ref = &ast.RefType{ReferredPkg: d.str(l[1]), ReferredType: d.str(l[2])}
	case "cref":
		t.Kind = ast.KindConstantRef
		t.ConstantReference = &ast.ConstantReferenceType{ReferredPkg: d.str(l[1]), ReferredType: d.str(l[2]), ReferenceValue: d.val(l[3])}
	case "array":
		t.Kind = ast.KindArray
		t.Array = &ast.ArrayType{ValueType: d.ty(l[1])}
	case "map":
		t.Kind = ast.KindMap
		t.Map = &ast.MapType{IndexType: d.ty(l[1]), ValueType: d.ty(l[2])}
	case "struct":
		if len(l) != 5 || !d.head(l[1], "fields", -1) {
			d.fail("bad struct")
			return t
		}
		t.Kind = ast.KindStruct
		t.Struct = &ast.StructType{Fields: []ast.StructField{}}
		for _, fx := range l[1].list[1:] {
			if !d.head(fx, "f", 5) || !d.head(fx.list[4], "c", -1) {
				return t
			}
			f := ast.StructField{Name: d.str(fx.list[1]), Type: d.ty(fx.list[2]), Required: fx.list[3].text == "true"}
			for _, c := range fx.list[4].list[1:] {
				f.Comments = append(f.Comments, d.str(c))
			}
			t.Struct.Fields = append(t.Struct.Fields, f)
		}
		if gi := l[3]; gi.kind == 'l' && len(gi.list) == 3 {
			t.Hints[d.str(gi.list[0])] = ast.DisjunctionType{Branches: d.types(l[2], "gen"), Discriminator: d.str(gi.list[1]), DiscriminatorMapping: d.pairs(gi.list[2].list)}
		}
	case "enum":
		if len(l) != 3 || !d.head(l[1], "vals", -1) {
			d.fail("bad enum")
			return t
		}
		t.Kind = ast.KindEnum
		t.Enum = &ast.EnumType{Values: []ast.EnumValue{}}
		for _, vx := range l[1].list[1:] {
			if vx.kind != 'l' || len(vx.list) != 3 {
				d.fail("bad enum member")
				return t
			}
			kind := d.str(vx.list[2])
			mt := ast.NewScalar(ast.ScalarKind(kind))
			if strings.HasPrefix(kind, "?") {
				mt = ast.Type{Kind: ast.Kind(kind[1:])}
			}
			t.Enum.Values = append(t.Enum.Values, ast.EnumValue{Type: mt, Name: d.str(vx.list[0]), Value: d.val(vx.list[1])})
		}
	case "disj":
		if len(l) != 5 || !d.head(l[3], "mapping", -1) {
			d.fail("bad disj")
			return t
		}
		t.Kind = ast.KindDisjunction
		t.Disjunction = &ast.DisjunctionType{Branches: d.types(l[1], "branches"), Discriminator: d.str(l[2]), DiscriminatorMapping: d.pairs(l[3].list[1:])}
	case "inter":
		t.Kind = ast.KindIntersection
		t.Intersection = &ast.IntersectionType{Branches: d.types(l[1], "branches")}
	case "slot":
		t.Kind = ast.KindComposableSlot
		t.ComposableSlot = &ast.ComposableSlotType{Variant: ast.SchemaVariant(d.str(l[1]))}
	case "bad":
		t.Kind = ast.Kind(d.str(l[1]))
	default:
		d.fail("unknown type head %s", l[0].text)
	}
	return t
}

func c05DecodeSchemas(text string) (ast.Schemas, error) {
	x, err := c05ParseSexp(text)
	if err != nil {
		return nil, err
	}
	return c05DecodeSchemasSx(x)
}

func c05DecodeSchemasSx(x *c05Sx) (ast.Schemas, error) {
	d := &c05Dec{}
	out := ast.Schemas{}
	if !d.head(x, "schemas", -1) {
		return nil, d.err
	}
	for _, sx := range x.list[1:] {
		if !d.head(sx, "schema", 6) || !d.head(sx.list[2], "smeta", 4) || !d.head(sx.list[5], "objects", -1) {
			return nil, d.err
		}
		sm := sx.list[2]
		s := ast.NewSchema(d.str(sx.list[1]), ast.SchemaMeta{Kind: ast.SchemaKind(d.str(sm.list[1])), Variant: ast.SchemaVariant(d.str(sm.list[2])), Identifier: d.str(sm.list[3])})
		s.EntryPoint = d.str(sx.list[3])
		s.EntryPointType = d.ty(sx.list[4])
		for _, kv := range sx.list[5].list[1:] {
			if kv.kind != 'l' || len(kv.list) != 2 || !d.head(kv.list[1], "obj", 6) || !d.head(kv.list[1].list[2], "c", -1) {
				d.fail("bad object entry")
				return nil, d.err
			}
			ox := kv.list[1]
			o := ast.Object{Name: d.str(ox.list[1]), Type: d.ty(ox.list[3]), SelfRef: ast.RefType{ReferredPkg: d.str(ox.list[4]), ReferredType: d.str(ox.list[5])}}
			for _, c := range ox.list[2].list[1:] {
				o.Comments = append(o.Comments, d.str(c))
			}
			s.Objects.Set(d.str(kv.list[0]), o)
		}
		out = append(out, s)
	}
	return out, d.err
}
