package main

// C11, round 4: two families of source terms the shared generator does not draw by default, owned by
// C11 (nothing here changes what C01/C08/C10/C12/C13 see):
//
//  1. integers no float64 holds exactly (2^53+1, 2^62+1, MaxInt64, MinInt64, …) as constants, defaults
//     and enumeration members. A constant member is assigned by the generated `__init__` and never read
//     by `from_json`: whatever the front-end made of the number is what Python emits. The comparison is
//     exact: JV keeps the number's text, c01Diff compares through big.Rat (canonNumber), Python's json
//     keeps ints exact, the Go side holds int64.
//  2. collections reached THROUGH named aliases: map → alias → map, map → alias → array,
//     array → alias → map, alias → alias, each ending in structs / enums / scalars. The generated
//     from_json nests comprehensions (`key`, `key1`, … / `item`) and the variable naming depends on how
//     the nesting was reached. Documents have non-empty inner collections with inner keys DISJOINT from
//     the outer keys (a shadowed variable raises KeyError), and with the SAME keys on every level but
//     different values (a shadowed variable silently picks the wrong entry).
//
// One pin of each kind runs in every batch (c11Round4Pins, appended to c11Pins); `aliased=<n>` draws n
// more terms per run from c11GenRound4.

import (
	"fmt"
)

const (
	c11Real  = `("Real" (struct (field "v" (int 64 true - -) true false -) (field "w" (string - - false) false false -)))`
	c11Color = `("Color" (enumS "red" "green" "blue"))`
)

var c11Round4Pins = []c11Pin{
	{Name: "bigint-constants", Typed: true,
		Sexp: `(defs "Root" ("Root" (struct (field "name" (string - - false) true false -)` +
			` (field "magic" (const (n "9007199254740993")) true false -)` +
			` (field "negMagic" (const (n "-9007199254740993")) true false -)` +
			` (field "wide" (const (n "4611686018427387905")) true false -)` +
			` (field "maxSeq" (const (n "9223372036854775807")) true false -))))`,
		Docs: []string{`{"name":"x","magic":9007199254740993,"negMagic":-9007199254740993,"wide":4611686018427387905,"maxSeq":9223372036854775807}`}},
	// CUE is left out: cog's CUE front-end refuses `-9223372036854775808` as a constant ("value was rounded up"), no code to run
	{Name: "bigint-constant-min-int64", Typed: true, Formats: []string{"jsonschema", "openapi"},
		Sexp: `(defs "Root" ("Root" (struct (field "name" (string - - false) true false -)` +
			` (field "minSeq" (const (n "-9223372036854775808")) true false -) (field "nearMin" (const (n "-9223372036854775807")) false false -))))`,
		Docs: []string{`{"name":"x","minSeq":-9223372036854775808,"nearMin":-9223372036854775807}`, `{"name":"x","minSeq":-9223372036854775808}`}},
	{Name: "bigint-defaults",
		Sexp: `(defs "Root" ("Root" (struct (field "name" (string - - false) true false -)` +
			` (field "a" (int 64 true - -) false false (n "9007199254740993"))` +
			` (field "b" (int 64 true - -) false false (n "-4611686018427387905"))` +
			` (field "c" (int 64 true - -) false false (n "9223372036854775807")))))`,
		Docs: []string{`{"name":"x"}`, `{"name":"x","a":9007199254740995,"b":-9007199254740993,"c":9223372036854775806}`, `{"name":"x","a":9007199254740993,"b":-4611686018427387905,"c":9223372036854775807}`}},
	{Name: "bigint-enum-members",
		Sexp: `(defs "Root" ("Root" (struct (field "name" (string - - false) true false -)` +
			` (field "e" (ref "Big") true false -) (field "inl" (enumI 4611686018427387905 2) false false -) (field "d" (ref "Big") false false (n "9007199254740993"))))` +
			` ("Big" (enumI 9007199254740993 9007199254740995 1)))`,
		Docs: []string{`{"name":"x","e":9007199254740993,"inl":4611686018427387905}`, `{"name":"x","e":9007199254740995,"inl":2,"d":9007199254740995}`, `{"name":"x","e":1}`}},
	{Name: "alias-map-map",
		Sexp: `(defs "Root" ("Root" (struct (field "name" (string - - false) true false -)` +
			` (field "groups" (dict (ref "RealMap")) true false -) (field "colors" (dict (ref "ColorMap")) false false -) (field "counts" (dict (ref "IntMap")) false false -)` +
			` (field "items" (array (ref "Real")) false false -)))` +
			` ("RealMap" (dict (ref "Real"))) ("ColorMap" (dict (ref "Color"))) ("IntMap" (dict (int 64 true - -))) ` + c11Real + ` ` + c11Color + `)`,
		Docs: []string{
			`{"name":"x","groups":{"g1":{"x":{"v":1},"y":{"v":2,"w":"q"}}},"colors":{"c1":{"p":"red","q":"blue"}},"counts":{"n1":{"i":1,"j":2}}}`,
			`{"name":"x","groups":{"a":{"a":{"v":1},"b":{"v":2}},"b":{"a":{"v":3},"b":{"v":4}}},"colors":{"a":{"a":"red","b":"green"},"b":{"a":"blue","b":"red"}},"counts":{"a":{"a":1,"b":2},"b":{"a":3,"b":4}}}`,
			`{"name":"x","groups":{"g1":{}}}`}},
	{Name: "alias-map-array",
		Sexp: `(defs "Root" ("Root" (struct (field "name" (string - - false) true false -)` +
			` (field "lists" (dict (ref "RealList")) true false -) (field "palettes" (dict (ref "ColorList")) false false -) (field "series" (dict (ref "IntList")) false false -)))` +
			` ("RealList" (array (ref "Real"))) ("ColorList" (array (ref "Color"))) ("IntList" (array (int 64 true - -))) ` + c11Real + ` ` + c11Color + `)`,
		Docs: []string{
			`{"name":"x","lists":{"l1":[{"v":1},{"v":2,"w":"q"}],"l2":[{"v":3}]},"palettes":{"p1":["red","blue"],"p2":["green"]},"series":{"s1":[1,2],"s2":[3]}}`,
			`{"name":"x","lists":{"l1":[]}}`}},
	{Name: "alias-array-map",
		Sexp: `(defs "Root" ("Root" (struct (field "name" (string - - false) true false -)` +
			` (field "rows" (array (ref "RealMap")) true false -) (field "marks" (array (ref "ColorMap")) false false -) (field "cells" (array (ref "IntMap")) false false -)))` +
			` ("RealMap" (dict (ref "Real"))) ("ColorMap" (dict (ref "Color"))) ("IntMap" (dict (int 64 true - -))) ` + c11Real + ` ` + c11Color + `)`,
		Docs: []string{
			`{"name":"x","rows":[{"x":{"v":1},"y":{"v":2}},{"z":{"v":3,"w":"q"}}],"marks":[{"p":"red"},{"q":"blue","r":"green"}],"cells":[{"i":1},{"j":2,"k":3}]}`,
			`{"name":"x","rows":[{}]}`}},
	{Name: "alias-alias",
		Sexp: `(defs "Root" ("Root" (struct (field "name" (string - - false) true false -)` +
			` (field "groups" (dict (ref "Outer")) true false -) (field "direct" (ref "Outer") false false -) (field "deep" (dict (ref "Nest")) false false -)` +
			` (field "items" (array (ref "Real")) false false -)))` +
			` ("Outer" (ref "RealMap")) ("RealMap" (dict (ref "Real"))) ("Nest" (dict (ref "RealMap"))) ` + c11Real + `)`,
		Docs: []string{
			`{"name":"x","groups":{"g1":{"x":{"v":1},"y":{"v":2}}},"direct":{"d":{"v":5}},"deep":{"o":{"m":{"i":{"v":7},"j":{"v":8}}}}}`,
			`{"name":"x","groups":{"a":{"a":{"v":1},"b":{"v":2}},"b":{"a":{"v":3},"b":{"v":4}}},"deep":{"a":{"a":{"a":{"v":1},"b":{"v":2}},"b":{"a":{"v":3},"b":{"v":4}}},"b":{"a":{"a":{"v":5},"b":{"v":6}},"b":{"a":{"v":7},"b":{"v":8}}}}}`}},
}

func init() { c11Pins = append(c11Pins, c11Round4Pins...) }

// integers no float64 holds exactly (the int64 limits included)
var c11BigInts = []int64{9007199254740993, -9007199254740993, 9007199254740995, 4611686018427387905, -4611686018427387905,
	1152921504606846977, 9223372036854775807, -9223372036854775807 - 1, 9223372036854775806}

// c11GenRound4: reproducible from (seed, index). `big` says whether the term carries big integers (the
// caller leaves OpenAPI out for those: kin-openapi reads every number as float64, recorded under C10/C12).
func c11GenRound4(seed uint64, index int) (d *Defs, big bool) {
	r := newRng(seed*2654435761 + uint64(index)*40503 + 29)
	d = &Defs{Root: "Root"}
	rootFields := []Field{fld("name", srcString(), true, false, nil)}
	var later []Def
	have := map[string]bool{}
	add := func(name string, ty *Src) {
		if !have[name] {
			have[name] = true
			later = append(later, Def{name, ty})
		}
	}
	realTy := srcStruct(fld("v", srcInt(64, true, nil, nil), true, false, nil), fld("w", srcString(), false, false, nil))
	// where a chain ends: (name used in alias names, element type)
	end := func() (string, *Src) {
		switch r.intn(5) {
		case 0, 1:
			add("Real", realTy)
			return "Real", srcRef("Real")
		case 2:
			add("Color", srcEnumS("red", "green", "blue"))
			return "Color", srcRef("Color")
		case 3:
			return "Int", srcInt(64, true, nil, nil)
		}
		return "Str", srcString()
	}
	layer := func(dict bool, e *Src) *Src {
		if dict {
			return srcDict(e)
		}
		return srcArray(e)
	}
	kindName := func(dict bool) string {
		if dict {
			return "Map"
		}
		return "List"
	}
	nchains := 1 + r.intn(3)
	for c := 0; c < nchains; c++ {
		en, ty := end()
		name := en
		depth := 2 + r.intn(2)
		aliased := false
		for l := 0; l < depth; l++ {
			dict := r.chance(65)
			ty = layer(dict, ty)
			name += kindName(dict)
			last := l == depth-1
			// the boundary below the outermost layer goes through a named alias (always at least once)
			if !last && (r.chance(70) || (l == depth-2 && !aliased)) {
				aliased = true
				add(name, ty)
				ty = srcRef(name)
				if r.chance(25) { // alias → alias
					add(name+"Alias", ty)
					ty = srcRef(name + "Alias")
				}
			}
		}
		rootFields = append(rootFields, fld(fmt.Sprintf("m%d", c), ty, r.chance(60), false, nil))
	}
	// a member that IS an alias (no inline layer above it)
	if r.chance(40) {
		en, ty := end()
		dict := r.chance(60)
		name := en + kindName(dict) + "Top"
		add(name, layer(dict, ty))
		rootFields = append(rootFields, fld("top", srcRef(name), r.chance(50), false, nil))
	}
	// a map of non-scalars needs an array of non-scalars in the package for the Go strict decoder to compile (KB01)
	add("Real", realTy)
	rootFields = append(rootFields, fld("items", srcArray(srcRef("Real")), false, false, nil))
	if r.chance(55) {
		big = true
		for k, n := 0, 1+r.intn(3); k < n; k++ {
			v := pick(r, c11BigInts)
			fname := fmt.Sprintf("n%d", k)
			switch r.intn(4) {
			case 0:
				rootFields = append(rootFields, fld(fname, srcConst(jInt(v)), r.chance(70), false, nil))
			case 1:
				rootFields = append(rootFields, fld(fname, srcInt(64, true, nil, nil), false, false, jvp(jInt(v))))
			case 2:
				rootFields = append(rootFields, fld(fname, srcEnumI(v, int64(2+r.intn(5))), r.chance(70), false, nil))
			default:
				en := fmt.Sprintf("Big%d", k)
				w := pick(r, c11BigInts)
				if w == v {
					w = 3
				}
				add(en, srcEnumI(v, w, 1))
				rootFields = append(rootFields, fld(fname, srcRef(en), r.chance(70), false, nil))
			}
		}
	}
	d.Items = append([]Def{{"Root", srcStruct(rootFields...)}}, later...)
	return d, big
}

// c11RichDoc: every member present, every collection with two entries, values all different.
// sameKeys=false: the keys of a map depend on its nesting level (inner keys disjoint from outer keys);
// sameKeys=true: "a","b" on every level (a wrongly indexed lookup finds an entry — the wrong one).
func c11RichDoc(d *Defs, dg *docGen, sameKeys bool) JV {
	counter := int64(0)
	levelKeys := [][]string{{"o1", "o2"}, {"p1", "p2"}, {"q1", "q2"}, {"r1", "r2"}, {"s1", "s2"}}
	var val func(ty *Src, level, fuel int) JV
	val = func(ty *Src, level, fuel int) JV {
		if ty == nil || fuel <= 0 {
			return dg.val(ty, 3)
		}
		switch ty.Kind {
		case SRef:
			return val(d.lookup(ty.Ref), level, fuel-1)
		case SStruct:
			out := jObj()
			for _, f := range ty.Fields {
				out.O = append(out.O, JKV{f.Name, val(f.Ty, level, fuel-1)})
			}
			return out
		case SDict:
			keys := []string{"a", "b"}
			if !sameKeys {
				keys = levelKeys[level%len(levelKeys)]
			}
			out := jObj()
			for _, k := range keys {
				out.O = append(out.O, JKV{k, val(ty.Elem, level+1, fuel-1)})
			}
			return out
		case SArray:
			return jArr(val(ty.Elem, level+1, fuel-1), val(ty.Elem, level+1, fuel-1))
		case SInt:
			if ty.Lo == nil && ty.Hi == nil && ty.Width == 64 {
				counter++
				return jInt(counter)
			}
		case SString:
			if ty.MinLen == nil && ty.MaxLen == nil && !ty.DateTime {
				counter++
				return jStr(fmt.Sprintf("s%d", counter))
			}
		case SEnumS:
			counter++
			return jStr(ty.EnumS[int(counter)%len(ty.EnumS)])
		case SEnumI:
			counter++
			return jInt(ty.EnumI[int(counter)%len(ty.EnumI)])
		case SConst:
			return ty.Const.clone()
		}
		return dg.val(ty, 3)
	}
	return val(srcRef(d.Root), 0, 24)
}

// c11LevelKeys: the document with every map key suffixed by the map's nesting level (walks the value
// next to its type), so that the keys of a map never occur in a map that contains it
func c11LevelKeys(d *Defs, ty *Src, v JV, level, fuel int) JV {
	if ty == nil || fuel <= 0 {
		return v
	}
	switch ty.Kind {
	case SRef:
		return c11LevelKeys(d, d.lookup(ty.Ref), v, level, fuel-1)
	case SStruct:
		if v.K != 'o' {
			return v
		}
		out := jObj()
		for _, e := range v.O {
			var ft *Src
			for _, f := range ty.Fields {
				if f.Name == e.K {
					ft = f.Ty
				}
			}
			out.O = append(out.O, JKV{e.K, c11LevelKeys(d, ft, e.V, level, fuel-1)})
		}
		return out
	case SDict:
		if v.K != 'o' {
			return v
		}
		out := jObj()
		for _, e := range v.O {
			out.O = append(out.O, JKV{fmt.Sprintf("%s%d", e.K, level), c11LevelKeys(d, ty.Elem, e.V, level+1, fuel-1)})
		}
		return out
	case SArray:
		if v.K != 'a' {
			return v
		}
		out := jArr()
		for _, e := range v.A {
			out.A = append(out.A, c11LevelKeys(d, ty.Elem, e, level+1, fuel-1))
		}
		return out
	}
	return v
}

// c11EmptyBehindOptionalAlias: the document holds an empty `[]`/`{}` at an OPTIONAL member whose declared
// type is a REFERENCE to a named collection alias (`top?: #RealMap`). The Go field is `*RealMap`: a
// non-nil pointer is never omitempty-empty, so Go keeps `{}` (as Python does). C01's codec model
// deliberately reads such a member as the collection itself (lean/Cog/Sem/GoEquals.lean, `collPtr`;
// exclusion "empty-collection-behind-alias" of `den`/`srcDen`) and predicts that Go drops it. The row is
// marked so that the check counts the agreement prediction of these documents (all outside `den`) as a
// known limit of the Go model instead of a disagreement; the oracles still run on them.
func c11EmptyBehindOptionalAlias(d *Defs, ty *Src, v JV, fuel int) bool {
	if ty == nil || fuel <= 0 {
		return false
	}
	switch ty.Kind {
	case SRef:
		return c11EmptyBehindOptionalAlias(d, d.lookup(ty.Ref), v, fuel-1)
	case SStruct:
		if v.K != 'o' {
			return false
		}
		for _, f := range ty.Fields {
			fv, ok := v.get(f.Name)
			if !ok {
				continue
			}
			if !f.Required && f.Ty.Kind == SRef {
				if t := d.resolve(f.Ty); t != nil && (t.Kind == SDict && fv.K == 'o' && len(fv.O) == 0 || t.Kind == SArray && fv.K == 'a' && len(fv.A) == 0) {
					return true
				}
			}
			if c11EmptyBehindOptionalAlias(d, f.Ty, fv, fuel-1) {
				return true
			}
		}
	case SDict:
		if v.K == 'o' {
			for _, e := range v.O {
				if c11EmptyBehindOptionalAlias(d, ty.Elem, e.V, fuel-1) {
					return true
				}
			}
		}
	case SArray:
		if v.K == 'a' {
			for _, e := range v.A {
				if c11EmptyBehindOptionalAlias(d, ty.Elem, e, fuel-1) {
					return true
				}
			}
		}
	}
	return false
}

// ---- the TYPED spelling of constants -----------------------------------------------------------------
// The shared JSON Schema / OpenAPI printers write a constant as a bare `{"const": v}`. Schemas in the
// wild also say `{"type": "integer", "const": v}`, which cog's front-end reads on another path
// (walkNumber / walkString instead of walkUntypedConstant). c11TypedConsts rewrites a rendered schema
// text into that spelling: every object holding `const` and no `type` gets the type of the value.
func c11TypedConsts(text string) (string, int) {
	v, err := parseJV([]byte(text))
	if err != nil {
		return text, 0
	}
	n := 0
	var walk func(x *JV)
	walk = func(x *JV) {
		switch x.K {
		case 'o':
			if cv, ok := x.get("const"); ok {
				if _, typed := x.get("type"); !typed {
					switch cv.K {
					case 'n':
						if r := canonNumber(cv.S); len(r) > 0 && !containsAny(r, ".eE:") {
							x.O = append([]JKV{{"type", jStr("integer")}}, x.O...)
						} else {
							x.O = append([]JKV{{"type", jStr("number")}}, x.O...)
						}
						n++
					case 's':
						x.O = append([]JKV{{"type", jStr("string")}}, x.O...)
						n++
					}
				}
			}
			for i := range x.O {
				if x.O[i].K != "const" && x.O[i].K != "default" && x.O[i].K != "enum" {
					walk(&x.O[i].V)
				}
			}
		case 'a':
			for i := range x.A {
				walk(&x.A[i])
			}
		}
	}
	walk(&v)
	return v.json(), n
}

func containsAny(s, chars string) bool {
	for _, c := range s {
		for _, d := range chars {
			if c == d {
				return true
			}
		}
	}
	return false
}

// c11AddTyped: the case of (d, format) with constants in the typed spelling; nil when the format has no
// such spelling (CUE) or the term has no constant
func c11AddTyped(lab *Lab, d *Defs, format string) *LabCase {
	if format != "jsonschema" && format != "openapi" {
		return nil
	}
	dd, notes := degradeDefs(d, format, lab.Opts.Degrade)
	id := fmt.Sprintf("c%d%s", len(lab.Cases), labFormatSuffix[format])
	ro := renderDefs(dd, format, id)
	if ro.Text == "" || len(ro.Unsupported) > 0 {
		return nil
	}
	txt, n := c11TypedConsts(ro.Text)
	if n == 0 {
		return nil
	}
	c := lab.AddCaseText(format, txt, dd)
	c.Degraded, c.Notes, c.Style = notes, append(ro.Notes, "const:typed-spelling"), ro.Style
	if ro.RefText != "" {
		c.RefSchemaText, _ = c11TypedConsts(ro.RefText)
	}
	return c
}

// c11AlteredDefault: Python emitted a member the document lacks (known: an absent optional member with a
// default is given the default and emitted) — but the number it emitted is NOT the default the source
// declares (the front-end altered it): the declared default's text, else ""
func c11AlteredDefault(d *Defs, doc JV, path string, got JV) string {
	i := lastDot(path)
	if i < 0 || got.K != 'n' {
		return ""
	}
	parent := c11SrcNode(d, doc, path[:i])
	if parent == nil || parent.Kind != SStruct {
		return ""
	}
	for _, f := range parent.Fields {
		if f.Name == path[i+1:] && f.Default != nil && f.Default.K == 'n' && canonNumber(f.Default.S) != canonNumber(got.S) {
			return f.Default.S
		}
	}
	return ""
}

func lastDot(s string) int {
	for i := len(s) - 1; i >= 0; i-- {
		if s[i] == '.' {
			return i
		}
	}
	return -1
}
