package main

// C09/C14: generation of option-call arguments from the builder IR (type-directed over the
// post-chain IR types), of builder veneers from source terms, and the two encodings of a call
// list (JSON for the lab extension, S-expression for the Lean driver).

import (
	"fmt"
	"math"
	"regexp"
	"sort"
	"strconv"
	"strings"

	"github.com/grafana/cog/internal/ast"
	"github.com/grafana/cog/internal/tools"
)

// ---------------------------------------------------------------------------------------------
// call lists

type c09Arg struct {
	Kind  byte // 'j' plain JSON, 'b' generated builder, 'f' foreign failing builder, 'l' list, 'd' dict
	J     JV
	B     string // builder name (IR)
	Ctor  []c09Arg
	Calls []c09Call
	Mode  string // 'f': "be" | "plain"
	L     []c09Arg
	DK    []string
	DV    []c09Arg

	// bookkeeping for the oracle
	Violates bool // 'j': the value was drawn to violate a constraint of its own type
}

type c09Call struct {
	Opt  string // option name in the IR
	Args []c09Arg
}

type c09Spec struct {
	Builder string
	Ctor    []c09Arg
	Calls   []c09Call
}

// c09PyNames: method names as the Python jenny prints them (snake case); set by the Python stream
var c09PyNames bool

func c09MethodName(opt string) string {
	if c09PyNames {
		return tools.SnakeCase(strings.TrimLeft(opt, "$_"))
	}
	return tools.UpperCamelCase(opt)
}

func (a c09Arg) json() string {
	switch a.Kind {
	case 'j':
		return `{"j":` + a.J.json() + `}`
	case 'b':
		return `{"b":` + jsonQuote(a.B) + "," + c09SpecBody(a.Ctor, a.Calls) + `}`
	case 'f':
		return `{"fail":` + jsonQuote(a.Mode) + `,"of":` + jsonQuote(a.B) + `}`
	case 'l':
		parts := make([]string, len(a.L))
		for i, x := range a.L {
			parts[i] = x.json()
		}
		return `{"l":[` + strings.Join(parts, ",") + `]}`
	case 'd':
		parts := make([]string, len(a.DK))
		for i := range a.DK {
			parts[i] = jsonQuote(a.DK[i]) + ":" + a.DV[i].json()
		}
		return `{"d":{` + strings.Join(parts, ",") + `}}`
	}
	return "null"
}

func c09SpecBody(ctor []c09Arg, calls []c09Call) string {
	cs := make([]string, len(ctor))
	for i, x := range ctor {
		cs[i] = x.json()
	}
	ks := make([]string, len(calls))
	for i, c := range calls {
		as := make([]string, len(c.Args))
		for j, x := range c.Args {
			as[j] = x.json()
		}
		ks[i] = `{"o":` + jsonQuote(c09MethodName(c.Opt)) + `,"a":[` + strings.Join(as, ",") + `]}`
	}
	return `"ctor":[` + strings.Join(cs, ",") + `],"calls":[` + strings.Join(ks, ",") + `]`
}

func (s c09Spec) json() string { return "{" + c09SpecBody(s.Ctor, s.Calls) + "}" }

func (a c09Arg) sexp() string {
	switch a.Kind {
	case 'j':
		return "(j " + a.J.sexp() + ")"
	case 'b':
		return "(b " + virQuote(a.B) + " " + c09SexpBody(a.Ctor, a.Calls) + ")"
	case 'f':
		return "(fail " + a.Mode + ")"
	case 'l':
		parts := []string{"l"}
		for _, x := range a.L {
			parts = append(parts, x.sexp())
		}
		return "(" + strings.Join(parts, " ") + ")"
	case 'd':
		parts := []string{"d"}
		for i := range a.DK {
			parts = append(parts, "("+virQuote(a.DK[i])+" "+a.DV[i].sexp()+")")
		}
		return "(" + strings.Join(parts, " ") + ")"
	}
	return "(j null)"
}

func c09SexpBody(ctor []c09Arg, calls []c09Call) string {
	parts := []string{"(ctor"}
	for _, x := range ctor {
		parts[0] += " " + x.sexp()
	}
	parts[0] += ")"
	for _, c := range calls {
		s := "(call " + virQuote(c.Opt)
		for _, x := range c.Args {
			s += " " + x.sexp()
		}
		parts = append(parts, s+")")
	}
	return strings.Join(parts, " ")
}

func (s c09Spec) sexp() string { return "(build " + c09SexpBody(s.Ctor, s.Calls) + ")" }

// ---------------------------------------------------------------------------------------------
// type-directed values

type c09Gen struct {
	r        *rng
	ss       ast.Schemas
	bs       ast.Builders
	pkg      string
	py       bool            // Python lab: no date-time strings, no plain struct documents (they need class instances)
	arrMax   int             // arrays of a document have 0..arrMax-1 elements (default 3)
	dfltPct  int             // probability (percent) of drawing the declared default of a scalar that has one
	hints    map[string][]JV // "Object.member" → values the veneers single out (constants pinned by `initialize`)
	topHints map[string]JV   // member → the constant the builder under test pins itself (top-level documents belong to that builder)
}

func (g *c09Gen) arrayLen() int {
	if g.arrMax > 3 {
		return g.r.intn(g.arrMax)
	}
	return g.r.intn(3)
}

func (g *c09Gen) object(ref *ast.RefType) (ast.Object, bool) {
	return g.ss.LocateObject(ref.ReferredPkg, ref.ReferredType)
}

// resolves aliases; returns the resolved type
func (g *c09Gen) resolve(t ast.Type) ast.Type {
	for i := 0; i < 16 && t.Kind == ast.KindRef && t.Ref != nil; i++ {
		o, ok := g.object(t.Ref)
		if !ok {
			return t
		}
		t = o.Type
	}
	return t
}

// buildersFor: the builders a `cog.Builder[T]` argument of (reference) type t can be given
func (g *c09Gen) buildersFor(t ast.Type) ast.Builders {
	if t.Kind != ast.KindRef || t.Ref == nil {
		return nil
	}
	return g.bs.LocateAllByRef(*t.Ref)
}

// resolvesToBuilder mirrors languages.Context.ResolveToBuilder on post-chain Go IR (no disjunctions)
func (g *c09Gen) resolvesToBuilder(t ast.Type) bool {
	switch t.Kind {
	case ast.KindArray:
		return g.resolvesToBuilder(t.Array.ValueType)
	case ast.KindMap:
		return g.resolvesToBuilder(t.Map.ValueType)
	case ast.KindRef:
		return len(g.buildersFor(t)) != 0
	}
	return false
}

func toInt64(v any) (int64, bool) {
	switch x := v.(type) {
	case int:
		return int64(x), true
	case int64:
		return x, true
	case int32:
		return int64(x), true
	case uint64:
		if x > math.MaxInt64 {
			return math.MaxInt64, true
		}
		return int64(x), true
	case uint32:
		return int64(x), true
	case float64:
		if x == math.Trunc(x) && math.Abs(x) < 9e18 {
			return int64(x), true
		}
	case float32:
		if float64(x) == math.Trunc(float64(x)) {
			return int64(x), true
		}
	}
	return 0, false
}

func toFloat(v any) (float64, bool) {
	switch x := v.(type) {
	case float64:
		return x, true
	case float32:
		return float64(x), true
	}
	if i, ok := toInt64(v); ok {
		return float64(i), true
	}
	return 0, false
}

var c09IntRange = map[ast.ScalarKind][2]int64{
	ast.KindInt8: {-128, 127}, ast.KindInt16: {-32768, 32767}, ast.KindInt32: {-2147483648, 2147483647},
	ast.KindInt64: {math.MinInt64, math.MaxInt64}, ast.KindUint8: {0, 255}, ast.KindUint16: {0, 65535},
	ast.KindUint32: {0, 4294967295}, ast.KindUint64: {0, math.MaxInt64},
}

var c09Letters = []string{"a", "b", "k", "Z", "é", "q", "7", "x"}

func (g *c09Gen) str(n int) string {
	var b strings.Builder
	for i := 0; i < n; i++ {
		b.WriteString(pick(g.r, c09Letters))
	}
	return b.String()
}

// scalar draws a value of a scalar type. violate: try to break one constraint (reports whether it did).
func (g *c09Gen) scalar(t ast.Type, violate bool) (JV, bool, bool) {
	s := t.Scalar
	if s.Value != nil { // concrete scalar: the only value
		return c09ConstJV(s.Value), false, true
	}
	if !violate && t.Default != nil && g.dfltPct > 0 && g.r.chance(g.dfltPct) {
		// the declared default of the member itself: a boundary for every `!= default` guard
		switch t.Default.(type) {
		case string, bool, int, int64, float64:
			return c09ConstJV(t.Default), false, true
		}
	}
	switch s.ScalarKind {
	case ast.KindBool:
		return jBool(g.r.chance(50)), false, true
	case ast.KindString:
		if t.HasHint(ast.HintStringFormatDateTime) {
			if g.py {
				return jNull(), false, false
			}
			return jStr(pick(g.r, []string{"2021-03-04T05:06:07Z", "1999-12-31T23:59:59Z", "2024-02-29T12:00:00Z"})), false, true
		}
		lo, hi := int64(0), int64(-1)
		for _, c := range s.Constraints {
			if len(c.Args) == 0 {
				continue
			}
			n, ok := toInt64(c.Args[0])
			if !ok {
				continue
			}
			switch c.Op {
			case ast.MinLengthOp:
				if n > lo {
					lo = n
				}
			case ast.MaxLengthOp:
				if hi < 0 || n < hi {
					hi = n
				}
			}
		}
		if violate {
			if lo > 0 && g.r.chance(60) {
				return jStr(g.str(int(lo) - 1)), true, true
			}
			if hi >= 0 {
				return jStr(g.str(int(hi) + 1)), true, true
			}
			if lo > 0 {
				return jStr(g.str(int(lo) - 1)), true, true
			}
		}
		n := lo + int64(g.r.intn(4))
		if g.r.chance(15) {
			n = lo
		}
		if hi >= 0 && n > hi {
			n = hi
		}
		return jStr(g.str(int(n))), false, true
	case ast.KindFloat32, ast.KindFloat64:
		lo, hi := -1000.0, 1000.0
		hasLo, hasHi := false, false
		for _, c := range s.Constraints {
			if len(c.Args) == 0 {
				continue
			}
			f, ok := toFloat(c.Args[0])
			if !ok {
				continue
			}
			switch c.Op {
			case ast.GreaterThanEqualOp:
				lo, hasLo = f, true
			case ast.GreaterThanOp:
				lo, hasLo = f+0.25, true
			case ast.LessThanEqualOp:
				hi, hasHi = f, true
			case ast.LessThanOp:
				hi, hasHi = f-0.25, true
			}
		}
		q := func(f float64) float64 { return math.Round(f*4) / 4 }
		if violate {
			if hasLo && (!hasHi || g.r.chance(50)) {
				return jFloat(q(math.Floor(lo*4)/4 - 0.25 - float64(g.r.intn(3)))), true, true
			}
			if hasHi {
				return jFloat(q(math.Ceil(hi*4)/4 + 0.25 + float64(g.r.intn(3)))), true, true
			}
		}
		if hasLo && !hasHi {
			hi = lo + 100
		}
		if hasHi && !hasLo {
			lo = hi - 100
		}
		lo4, hi4 := math.Ceil(lo*4), math.Floor(hi*4)
		if hi4 < lo4 {
			return jFloat(q(lo)), false, false
		}
		return jFloat((lo4 + float64(g.r.intn(int(hi4-lo4)+1))) / 4), false, true
	case ast.KindAny:
		switch g.r.intn(4) {
		case 0:
			return jStr(g.str(3)), false, true
		case 1:
			return jInt(int64(g.r.intn(100))), false, true
		case 2:
			return jBool(true), false, true
		}
		return jObj(kv("k", jInt(int64(g.r.intn(9))))), false, true
	case ast.KindBytes, ast.KindNull:
		return jNull(), false, false
	}
	rg, ok := c09IntRange[s.ScalarKind]
	if !ok {
		return jNull(), false, false
	}
	lo, hi := rg[0], rg[1]
	tlo, thi := lo, hi
	for _, c := range s.Constraints {
		if len(c.Args) == 0 {
			continue
		}
		n, ok := toInt64(c.Args[0])
		if !ok {
			continue
		}
		switch c.Op {
		case ast.GreaterThanEqualOp:
			if n > lo {
				lo = n
			}
		case ast.GreaterThanOp:
			if n+1 > lo {
				lo = n + 1
			}
		case ast.LessThanEqualOp:
			if n < hi {
				hi = n
			}
		case ast.LessThanOp:
			if n-1 < hi {
				hi = n - 1
			}
		}
	}
	if violate {
		if lo > tlo && (hi >= thi || g.r.chance(50)) {
			return jInt(lo - 1), true, true
		}
		if hi < thi {
			return jInt(hi + 1), true, true
		}
	}
	if hi < lo {
		return jInt(lo), false, false
	}
	// keep clear of float64 rounding (values pass through JSON tooling on the way)
	wlo, whi := lo, hi
	if wlo < -1000000 {
		wlo = -1000000
	}
	if whi > 1000000 {
		whi = 1000000
	}
	if whi < wlo {
		return jInt(lo), false, true
	}
	if g.r.chance(15) {
		return jInt(pick(g.r, []int64{wlo, whi})), false, true
	}
	return jInt(wlo + int64(g.r.next()%uint64(whi-wlo+1))), false, true
}

func c09ConstJV(v any) JV {
	switch x := v.(type) {
	case nil:
		return jNull()
	case bool:
		return jBool(x)
	case string:
		return jStr(x)
	case float64:
		return jFloat(x)
	case float32:
		return jFloat(float64(x))
	}
	if i, ok := toInt64(v); ok {
		return jInt(i)
	}
	return jStr(fmt.Sprint(v))
}

// plain draws a JSON value of type t (an argument that is not a builder). ok=false: the type is
// outside what the generator handles.
func (g *c09Gen) plain(t ast.Type, depth int, violate bool) (v JV, violated bool, ok bool) {
	t = c09NullableView(t)
	switch t.Kind {
	case ast.KindScalar:
		return g.scalar(t, violate)
	case ast.KindEnum:
		if len(t.Enum.Values) == 0 {
			return jNull(), false, false
		}
		return c09ConstJV(pick(g.r, t.Enum.Values).Value), false, true
	case ast.KindConstantRef:
		return c09ConstJV(t.ConstantReference.ReferenceValue), false, true
	case ast.KindArray:
		if et := t.Array.ValueType; et.Kind == ast.KindScalar && et.Scalar.ScalarKind == ast.KindUint8 && !et.Nullable {
			return jNull(), false, false // []uint8 is []byte: encoding/json prints base64 (C01's finding, not a builder matter)
		}
		n := g.arrayLen()
		if depth > 2 {
			n = 0
		}
		out := jArr()
		for i := 0; i < n; i++ {
			e, vi, ok := g.plain(t.Array.ValueType, depth+1, violate && !violated)
			if !ok {
				return jNull(), false, false
			}
			violated = violated || vi
			out.A = append(out.A, e)
		}
		return out, violated, true
	case ast.KindMap:
		if t.Map.IndexType.Kind != ast.KindScalar || t.Map.IndexType.Scalar.ScalarKind != ast.KindString {
			return jNull(), false, false
		}
		n := g.r.intn(3)
		if depth > 2 {
			n = 0
		}
		out := jObj()
		for i := 0; i < n; i++ {
			e, vi, ok := g.plain(t.Map.ValueType, depth+1, violate && !violated)
			if !ok {
				return jNull(), false, false
			}
			violated = violated || vi
			out.set(fmt.Sprintf("k%d", i+1), e)
		}
		return out, violated, true
	case ast.KindRef:
		o, found := g.object(t.Ref)
		if !found {
			return jNull(), false, false
		}
		if o.Type.Kind == ast.KindStruct {
			if g.py {
				return jNull(), false, false
			}
			return g.structDoc(o, depth, violate)
		}
		return g.plain(o.Type, depth, violate)
	}
	return jNull(), false, false
}

// structDoc: a JSON document of a struct object (plain struct argument, i.e. no builder for it)
func (g *c09Gen) structDoc(o ast.Object, depth int, violate bool) (JV, bool, bool) {
	st := o.Type.Struct
	if o.Type.IsStructGeneratedFromDisjunction() {
		// a union struct: one branch
		if len(st.Fields) == 0 {
			return jNull(), false, false
		}
		if o.Type.HasHint(ast.HintDisjunctionOfScalars) {
			f := pick(g.r, st.Fields)
			ft := f.Type
			ft.Nullable = false
			return g.plain(ft, depth+1, violate)
		}
		f := pick(g.r, st.Fields)
		ft := f.Type
		ft.Nullable = false
		return g.plain(ft, depth+1, violate)
	}
	out := jObj()
	violated := false
	for _, f := range st.Fields {
		if !f.Required && (depth > 1 || g.r.chance(50)) {
			continue
		}
		if depth > 3 && f.Type.Kind == ast.KindRef {
			if !f.Required {
				continue
			}
		}
		ft := f.Type
		if ft.Nullable && g.r.chance(30) {
			if f.Required {
				out.set(f.Name, jNull())
			}
			continue
		}
		if v, ok := g.topHints[f.Name]; ok && depth == 0 {
			out.set(f.Name, v)
			continue
		}
		if hs := g.hints[o.Name+"."+f.Name]; len(hs) > 0 {
			out.set(f.Name, hs[g.r.intn(len(hs))])
			continue
		}
		v, vi, ok := g.plain(ft, depth+1, violate && !violated)
		if !ok {
			return jNull(), false, false
		}
		violated = violated || vi
		if !vi && !violate {
			v = g.drawStructLevelDefault(ft, v)
		}
		out.set(f.Name, v)
	}
	return out, violated, true
}

// c09AnyJV: a default value as the IR carries it (maps and lists of scalars) as JSON
func c09AnyJV(x any) (JV, bool) {
	switch v := x.(type) {
	case map[string]any:
		keys := make([]string, 0, len(v))
		for k := range v {
			keys = append(keys, k)
		}
		sort.Strings(keys)
		out := jObj()
		for _, k := range keys {
			e, ok := c09AnyJV(v[k])
			if !ok {
				return jNull(), false
			}
			out.set(k, e)
		}
		return out, true
	case []any:
		out := jArr()
		for _, e := range v {
			j, ok := c09AnyJV(e)
			if !ok {
				return jNull(), false
			}
			out.A = append(out.A, j)
		}
		return out, true
	case nil:
		return jNull(), false
	}
	return c09ConstJV(x), true
}

// drawStructLevelDefault: a member that references a struct and declares a default OBJECT of its own (which takes
// precedence over the defaults of the referenced struct's members): the drawn value sometimes IS that declared
// default (completed with the members' own defaults), sometimes agrees with it on some members — the values for
// which "equal to the default" decides what builders start from and what converters leave out.
func (g *c09Gen) drawStructLevelDefault(ft ast.Type, drawn JV) JV {
	if g.dfltPct <= 0 || ft.Kind != ast.KindRef || ft.Default == nil || drawn.K != 'o' {
		return drawn
	}
	dm, isMap := ft.Default.(map[string]any)
	ro, found := g.object(ft.Ref)
	if !isMap || !found || ro.Type.Kind != ast.KindStruct {
		return drawn
	}
	whole := g.r.chance(g.dfltPct + 10)
	for _, rf := range ro.Type.Struct.Fields {
		if _, present := drawn.get(rf.Name); !present {
			continue
		}
		if dv, ok := dm[rf.Name]; ok {
			if j, ok := c09AnyJV(dv); ok && (whole || g.r.chance(g.dfltPct)) {
				drawn.set(rf.Name, j)
			}
		} else if whole && rf.Type.Default != nil {
			if j, ok := c09AnyJV(rf.Type.Default); ok {
				drawn.set(rf.Name, j)
			}
		}
	}
	return drawn
}

// c09NullableView: a disjunction whose only non-null branch is T means "T or null" — in whatever order the source
// spells the two branches, and whether or not a compiler pass rewrote it into a nullable T. The generator and the
// violation flags read such a parameter as the nullable T it denotes.
func c09NullableView(t ast.Type) ast.Type {
	if t.Kind != ast.KindDisjunction || t.Disjunction == nil {
		return t
	}
	var rest []ast.Type
	nulls := 0
	for _, b := range t.Disjunction.Branches {
		if b.IsNull() {
			nulls++
		} else {
			rest = append(rest, b)
		}
	}
	if nulls == 0 || len(rest) != 1 {
		return t
	}
	r := rest[0]
	r.Nullable = true
	return r
}

// canViolate: does a plain value of type t carry a constraint that can be violated
// (directly on a scalar, or through aliases / collections)?
func (g *c09Gen) canViolate(t ast.Type, depth int) bool {
	if depth > 4 {
		return false
	}
	t = c09NullableView(t)
	switch t.Kind {
	case ast.KindScalar:
		return t.Scalar.Value == nil && len(t.Scalar.Constraints) > 0 && !t.HasHint(ast.HintStringFormatDateTime)
	case ast.KindArray:
		return g.canViolate(t.Array.ValueType, depth+1)
	case ast.KindMap:
		return g.canViolate(t.Map.ValueType, depth+1)
	case ast.KindRef:
		o, ok := g.object(t.Ref)
		if !ok || o.Type.Kind == ast.KindStruct {
			return false
		}
		return g.canViolate(o.Type, depth+1)
	}
	return false
}

// c09Mode: how the arguments of one generated call are drawn
type c09Mode int

const (
	c09Valid c09Mode = iota
	c09Invalid
	c09FailBE
	c09FailPlain
	c09FailNatural
)

// arg draws one argument for parameter type t. For builder-typed parameters a nested builder
// spec is drawn; inject tells what to inject at the first opportunity (cleared when used).
func (g *c09Gen) arg(t ast.Type, depth int, inject *c09Mode) (c09Arg, bool) {
	if g.resolvesToBuilder(t) {
		switch t.Kind {
		case ast.KindArray:
			n := 1 + g.r.intn(2)
			out := c09Arg{Kind: 'l'}
			for i := 0; i < n; i++ {
				x, ok := g.arg(t.Array.ValueType, depth+1, inject)
				if !ok {
					return c09Arg{}, false
				}
				out.L = append(out.L, x)
			}
			return out, true
		case ast.KindMap:
			n := 1 + g.r.intn(2)
			if *inject == c09FailPlain {
				// Go ranges over the map in random order: with a second entry that may fail
				// too, panic-or-return would be a coin flip
				n = 1
			}
			out := c09Arg{Kind: 'd'}
			for i := 0; i < n; i++ {
				x, ok := g.arg(t.Map.ValueType, depth+1, inject)
				if !ok {
					return c09Arg{}, false
				}
				out.DK = append(out.DK, fmt.Sprintf("k%d", i+1))
				out.DV = append(out.DV, x)
			}
			return out, true
		}
		cands := g.buildersFor(t)
		b := cands[g.r.intn(len(cands))]
		if *inject == c09FailBE || *inject == c09FailPlain {
			mode := "be"
			if *inject == c09FailPlain {
				mode = "plain"
			}
			*inject = c09Valid
			return c09Arg{Kind: 'f', Mode: mode, B: b.Name}, true
		}
		return g.nested(b, depth, inject)
	}
	violate := *inject == c09Invalid && g.canViolate(t, 0)
	tt := t
	tt.Nullable = false
	v, violated, ok := g.plain(tt, 0, violate)
	if !ok {
		return c09Arg{}, false
	}
	if violated {
		*inject = c09Valid
	}
	return c09Arg{Kind: 'j', J: v, Violates: violated}, true
}

// nested: a generated builder with a few option calls
func (g *c09Gen) nested(b ast.Builder, depth int, inject *c09Mode) (c09Arg, bool) {
	out := c09Arg{Kind: 'b', B: b.Name}
	for _, p := range b.Constructor.Args {
		one := c09Valid
		x, ok := g.arg(p.Type, depth+1, &one)
		if !ok {
			return c09Arg{}, false
		}
		out.Ctor = append(out.Ctor, x)
	}
	if depth >= 2 {
		return out, true
	}
	// natural failure: call an option of the nested builder with a violating plain argument
	if *inject == c09FailNatural {
		for _, o := range b.Options {
			if len(o.Args) == 1 && !g.resolvesToBuilder(o.Args[0].Type) && g.canViolate(o.Args[0].Type, 0) && c09DirectScalarTarget(o) {
				m := c09Invalid
				x, ok := g.arg(o.Args[0].Type, depth+1, &m)
				if ok && x.Violates {
					out.Calls = append(out.Calls, c09Call{Opt: o.Name, Args: []c09Arg{x}})
					*inject = c09Valid
					return out, true
				}
			}
		}
	}
	n := g.r.intn(3)
	for i := 0; i < n && len(b.Options) > 0; i++ {
		o := b.Options[g.r.intn(len(b.Options))]
		call := c09Call{Opt: o.Name}
		good := true
		for _, p := range o.Args {
			x, ok := g.arg(p.Type, depth+1, inject)
			if !ok {
				good = false
				break
			}
			call.Args = append(call.Args, x)
		}
		if good {
			out.Calls = append(out.Calls, call)
		}
	}
	return out, true
}

// c09DirectScalarTarget: the option assigns its only argument directly to a scalar field whose
// own type carries the constraints (the shape whose violation Validate() is expected to see)
func c09DirectScalarTarget(o ast.Option) bool {
	if len(o.Assignments) != 1 {
		return false
	}
	a := o.Assignments[0]
	if a.Value.Argument == nil || len(a.Path) != 1 || a.Method != ast.DirectAssignment {
		return false
	}
	t := a.Path[0].Type
	return t.Kind == ast.KindScalar && len(t.Scalar.Constraints) > 0
}

// call draws one call of option o in the given mode; ok=false when an argument type is outside
// the generator; effective = the mode that was really realised
func (g *c09Gen) call(o ast.Option, mode c09Mode) (c09Call, c09Mode, bool) {
	inject := mode
	out := c09Call{Opt: o.Name}
	for _, p := range o.Args {
		x, ok := g.arg(p.Type, 0, &inject)
		if !ok {
			return out, mode, false
		}
		out.Args = append(out.Args, x)
	}
	if mode != c09Valid && inject == mode {
		return out, c09Valid, true // nothing to inject into: a valid call
	}
	return out, mode, true
}

func (g *c09Gen) ctor(b ast.Builder) ([]c09Arg, bool) {
	var out []c09Arg
	for _, p := range b.Constructor.Args {
		one := c09Valid
		x, ok := g.arg(p.Type, 1, &one)
		if !ok {
			return nil, false
		}
		out = append(out, x)
	}
	return out, true
}

// ---------------------------------------------------------------------------------------------
// veneers drawn from the source term

// c09Veneers draws 0..k builder veneer rules for a term (names as the IR has them: definition
// name = object name, member name = option name). Returns "" for no veneers.
func c09Veneers(d *Defs, r *rng, pct int) (string, []string) {
	if d == nil || !r.chance(pct) {
		return "", nil
	}
	var opts, blds, tags []string
	promoted := map[string]bool{}
	scalarUnionFlattened := map[string]bool{} // one flattened scalar union per builder: the new options are named after the branch types
	branchOptions := map[string]bool{}
	for _, def := range d.Items {
		if def.Ty == nil || def.Ty.Kind != SStruct {
			continue
		}
		isBranch := false
		for _, f := range def.Ty.Fields {
			if f.Ty.Kind == SConst && f.Required {
				isBranch = true
			}
		}
		for _, f := range def.Ty.Fields {
			if !r.chance(35) {
				continue
			}
			sel := def.Name + "." + f.Name
			ft := d.resolve(f.Ty)
			if ft == nil {
				continue
			}
			switch {
			case f.Ty.Kind == SArray && !f.Nullable:
				opts = append(opts, fmt.Sprintf("  - array_to_append: { by_name: %s }", sel))
				tags = append(tags, "array_to_append")
				// a list of unions: one appending option per branch
				if el := f.Ty.Elem; el != nil && (el.Kind == SOneOfStructs || el.Kind == SOneOfScalars) && r.chance(60) {
					clash := scalarUnionFlattened[def.Name] && el.Kind == SOneOfScalars
					for _, br := range el.Branches {
						if branchOptions[def.Name+"."+strings.ToLower(br.Name)] {
							clash = true
						}
						for _, g := range def.Ty.Fields {
							if strings.EqualFold(g.Name, br.Name) {
								clash = true
							}
						}
					}
					for _, g := range def.Ty.Fields {
						for _, alt := range []string{"string", "bool", "int64", "float64", "int32", "float32"} {
							if el.Kind == SOneOfScalars && strings.EqualFold(g.Name, alt) {
								clash = true
							}
						}
					}
					if !clash {
						if el.Kind == SOneOfScalars {
							scalarUnionFlattened[def.Name] = true
						}
						for _, br := range el.Branches {
							branchOptions[def.Name+"."+strings.ToLower(br.Name)] = true
						}
						opts = append(opts, fmt.Sprintf("  - disjunction_as_options: { by_name: %s }", sel))
						tags = append(tags, "append+disjunction_as_options")
					}
				}
			case f.Ty.Kind == SDict && !f.Nullable:
				opts = append(opts, fmt.Sprintf("  - map_to_index: { by_name: %s }", sel))
				tags = append(tags, "map_to_index")
			case f.Ty.Kind == SBool && !f.Nullable:
				n := tools.UpperCamelCase(f.Name)
				opts = append(opts, fmt.Sprintf("  - unfold_boolean: { by_name: %s, true_as: with%sOn, false_as: with%sOff }", sel, n, n))
				tags = append(tags, "unfold_boolean")
			case f.Ty.Kind == SRef && ft.Kind == SStruct && f.Ty.Ref != def.Name:
				// (required or optional: an optional struct member is a nil pointer until a nil check fills it)
				// flatten the member into options / arguments; with some probability go on
				// flattening the struct members this exposes (sibling options whose assignment
				// paths share a prefix several levels deep)
				names := map[string]bool{}
				for _, g := range def.Ty.Fields {
					names[strings.ToLower(g.Name)] = true
				}
				var expand func(opt string, st *Src, seen map[string]bool, depth int)
				expand = func(opt string, st *Src, seen map[string]bool, depth int) {
					clash := false
					for _, g := range st.Fields {
						if names[strings.ToLower(g.Name)] && g.Name != opt {
							clash = true
						}
					}
					if clash || depth > 4 || r.chance(40) && depth > 1 {
						opts = append(opts, fmt.Sprintf("  - struct_fields_as_arguments: { by_name: %s.%s }", def.Name, opt))
						tags = append(tags, "struct_fields_as_arguments")
						return
					}
					opts = append(opts, fmt.Sprintf("  - struct_fields_as_options: { by_name: %s.%s }", def.Name, opt))
					tags = append(tags, "struct_fields_as_options")
					delete(names, strings.ToLower(opt))
					for _, g := range st.Fields {
						names[strings.ToLower(g.Name)] = true
					}
					for _, g := range st.Fields {
						gt := d.resolve(g.Ty)
						if g.Ty.Kind == SRef && gt != nil && gt.Kind == SStruct && !seen[g.Ty.Ref] && r.chance(70) {
							seen[g.Ty.Ref] = true
							tags = append(tags, fmt.Sprintf("flatten.depth%d", depth+1))
							expand(g.Name, gt, seen, depth+1)
						}
					}
				}
				expand(f.Name, ft, map[string]bool{def.Name: true, f.Ty.Ref: true}, 1)
			case (f.Ty.Kind == SOneOfScalars || f.Ty.Kind == SOneOfStructs) && !f.Nullable && f.Required:
				// the new options are named after the branches: skip when one of them would
				// collide with an option the builder already has (redeclared method in Go, silently
				// shadowed method in Python)
				clash := scalarUnionFlattened[def.Name] && f.Ty.Kind == SOneOfScalars
				for _, br := range f.Ty.Branches {
					if branchOptions[def.Name+"."+strings.ToLower(br.Name)] {
						clash = true
					}
				}
				for _, g := range def.Ty.Fields {
					for _, br := range f.Ty.Branches {
						if strings.EqualFold(g.Name, br.Name) {
							clash = true
						}
					}
					for _, alt := range []string{"string", "bool", "int64", "float64", "int32", "float32"} {
						if f.Ty.Kind == SOneOfScalars && strings.EqualFold(g.Name, alt) {
							clash = true
						}
					}
				}
				if clash {
					continue
				}
				if f.Ty.Kind == SOneOfScalars {
					scalarUnionFlattened[def.Name] = true
				}
				for _, br := range f.Ty.Branches {
					branchOptions[def.Name+"."+strings.ToLower(br.Name)] = true
				}
				opts = append(opts, fmt.Sprintf("  - disjunction_as_options: { by_name: %s }", sel))
				tags = append(tags, "disjunction_as_options")
			case (f.Ty.Kind == SString || f.Ty.Kind == SInt) && !isBranch && !promoted[def.Name] && r.chance(50):
				blds = append(blds, fmt.Sprintf("  - promote_options_to_constructor: { by_object: %s, options: [%s] }", def.Name, f.Name))
				promoted[def.Name] = true
				tags = append(tags, "promote_options_to_constructor")
			case f.Ty.Kind == SString && !f.DateTimeLike() && f.Ty.MinLen == nil && f.Ty.MaxLen == nil:
				blds = append(blds, fmt.Sprintf("  - initialize: { by_object: %s, set: [ { property: %s, value: \"init\" } ] }", def.Name, f.Name))
				tags = append(tags, "initialize")
			default:
				opts = append(opts, fmt.Sprintf("  - duplicate: { by_name: %s, as: %sCopy }", sel, f.Name))
				tags = append(tags, "duplicate")
			}
		}
	}
	if len(opts)+len(blds) == 0 {
		return "", nil
	}
	var b strings.Builder
	b.WriteString("language: all\npackage: %PKG%\n")
	if len(blds) > 0 {
		b.WriteString("builders:\n" + strings.Join(blds, "\n") + "\n")
	}
	if len(opts) > 0 {
		b.WriteString("options:\n" + strings.Join(opts, "\n") + "\n")
	}
	sort.Strings(tags)
	return b.String(), tags
}

func (f Field) DateTimeLike() bool { return f.Ty != nil && f.Ty.DateTime }

// ---------------------------------------------------------------------------------------------
// helpers on JSON documents (the oracle's reference interpreter works on JSON)

// zeroish: a value that `omitempty` drops
func jvZeroish(v JV) bool {
	switch v.K {
	case 'z', 'f':
		return true
	case 'n':
		f, err := strconv.ParseFloat(v.S, 64)
		return err == nil && f == 0
	case 's':
		return v.S == ""
	case 'a':
		return len(v.A) == 0
	case 'o':
		return len(v.O) == 0
	}
	return false
}

// jvNorm: canonical form for "same object up to omitempty": object members sorted, zero-ish
// members dropped (recursively), numbers canonical
func jvNorm(v JV) JV {
	switch v.K {
	case 'a':
		out := jArr()
		for _, x := range v.A {
			out.A = append(out.A, jvNorm(x))
		}
		return out
	case 'o':
		out := jObj()
		keys := make([]string, 0, len(v.O))
		for _, e := range v.O {
			keys = append(keys, e.K)
		}
		sort.Strings(keys)
		for _, k := range keys {
			x, _ := v.get(k)
			n := jvNorm(x)
			if jvZeroish(n) {
				continue
			}
			out.set(k, n)
		}
		return out
	case 'n':
		return jNumText(canonNumber(v.S))
	}
	return v
}

// ---------------------------------------------------------------------------------------------
// parser of the S-expression form of a run (pinned corpus, replays)

func c09ArgFromNode(n *sexpNode) (c09Arg, error) {
	if n == nil || !n.isLst || len(n.list) == 0 {
		return c09Arg{}, fmt.Errorf("argument: list expected")
	}
	switch n.head() {
	case "j":
		if len(n.list) != 2 {
			return c09Arg{}, fmt.Errorf("(j JSON) expected")
		}
		v, err := jvFromSexpNode(n.list[1])
		if err != nil {
			return c09Arg{}, err
		}
		return c09Arg{Kind: 'j', J: v}, nil
	case "fail":
		if len(n.list) != 2 {
			return c09Arg{}, fmt.Errorf("(fail be|plain) expected")
		}
		return c09Arg{Kind: 'f', Mode: n.list[1].atom}, nil
	case "l":
		out := c09Arg{Kind: 'l'}
		for _, x := range n.list[1:] {
			a, err := c09ArgFromNode(x)
			if err != nil {
				return c09Arg{}, err
			}
			out.L = append(out.L, a)
		}
		return out, nil
	case "d":
		out := c09Arg{Kind: 'd'}
		for _, x := range n.list[1:] {
			if !x.isLst || len(x.list) != 2 {
				return c09Arg{}, fmt.Errorf("(\"key\" ARG) expected")
			}
			a, err := c09ArgFromNode(x.list[1])
			if err != nil {
				return c09Arg{}, err
			}
			out.DK = append(out.DK, x.list[0].atom)
			out.DV = append(out.DV, a)
		}
		return out, nil
	case "b":
		if len(n.list) < 3 {
			return c09Arg{}, fmt.Errorf("(b \"Builder\" (ctor …) (call …)*) expected")
		}
		ctor, calls, err := c09BodyFromNodes(n.list[2:])
		if err != nil {
			return c09Arg{}, err
		}
		return c09Arg{Kind: 'b', B: n.list[1].atom, Ctor: ctor, Calls: calls}, nil
	}
	return c09Arg{}, fmt.Errorf("unknown argument form %q", n.head())
}

func c09BodyFromNodes(ns []*sexpNode) ([]c09Arg, []c09Call, error) {
	var ctor []c09Arg
	var calls []c09Call
	for i, x := range ns {
		if !x.isLst || len(x.list) == 0 {
			return nil, nil, fmt.Errorf("(ctor …) / (call …) expected")
		}
		switch {
		case i == 0 && x.head() == "ctor":
			for _, y := range x.list[1:] {
				a, err := c09ArgFromNode(y)
				if err != nil {
					return nil, nil, err
				}
				ctor = append(ctor, a)
			}
		case x.head() == "call" && len(x.list) >= 2:
			cl := c09Call{Opt: x.list[1].atom}
			for _, y := range x.list[2:] {
				a, err := c09ArgFromNode(y)
				if err != nil {
					return nil, nil, err
				}
				cl.Args = append(cl.Args, a)
			}
			calls = append(calls, cl)
		default:
			return nil, nil, fmt.Errorf("unexpected form %q", x.head())
		}
	}
	return ctor, calls, nil
}

// fixFailTargets fills in the builder a `(fail …)` marker stands for (the S-expression does not
// carry it): the first builder the parameter type admits
func (g *c09Gen) fixFailTargets(t ast.Type, a *c09Arg) {
	switch a.Kind {
	case 'f':
		for t.Kind == ast.KindArray || t.Kind == ast.KindMap {
			if t.Kind == ast.KindArray {
				t = t.Array.ValueType
			} else {
				t = t.Map.ValueType
			}
		}
		if bs := g.buildersFor(t); len(bs) > 0 {
			a.B = bs[0].Name
		}
	case 'l':
		if t.Kind == ast.KindArray {
			for i := range a.L {
				g.fixFailTargets(t.Array.ValueType, &a.L[i])
			}
		}
	case 'd':
		if t.Kind == ast.KindMap {
			for i := range a.DV {
				g.fixFailTargets(t.Map.ValueType, &a.DV[i])
			}
		}
	case 'b':
		for _, b := range g.bs {
			if b.Name == a.B {
				for i := range a.Ctor {
					if i < len(b.Constructor.Args) {
						g.fixFailTargets(b.Constructor.Args[i].Type, &a.Ctor[i])
					}
				}
				for ci := range a.Calls {
					for _, o := range b.Options {
						if o.Name == a.Calls[ci].Opt {
							for i := range a.Calls[ci].Args {
								if i < len(o.Args) {
									g.fixFailTargets(o.Args[i].Type, &a.Calls[ci].Args[i])
								}
							}
						}
					}
				}
			}
		}
	}
}

func c09ParseSpec(builder, text string) (*c09Spec, error) {
	n, err := parseSexp(text)
	if err != nil {
		return nil, err
	}
	if !n.isLst || n.head() != "build" {
		return nil, fmt.Errorf("(build (ctor …) (call …)*) expected")
	}
	ctor, calls, err := c09BodyFromNodes(n.list[1:])
	if err != nil {
		return nil, err
	}
	return &c09Spec{Builder: builder, Ctor: ctor, Calls: calls}, nil
}

// violates: does the plain JSON value v break a constraint of the IR type t (looking through
// aliases, as the source schema means it)?  Used for pinned runs, whose arguments carry no flag.
func (g *c09Gen) violates(t ast.Type, v JV, depth int) bool {
	if depth > 8 {
		return false
	}
	t = c09NullableView(t)
	switch t.Kind {
	case ast.KindScalar:
		for _, c := range t.Scalar.Constraints {
			if len(c.Args) == 0 {
				continue
			}
			switch c.Op {
			case ast.MinLengthOp, ast.MaxLengthOp:
				n, ok := toInt64(c.Args[0])
				if !ok || v.K != 's' {
					continue
				}
				l := int64(len([]rune(v.S)))
				if (c.Op == ast.MinLengthOp && l < n) || (c.Op == ast.MaxLengthOp && l > n) {
					return true
				}
			default:
				b, ok := toFloat(c.Args[0])
				if !ok || v.K != 'n' {
					continue
				}
				x, err := strconv.ParseFloat(v.S, 64)
				if err != nil {
					continue
				}
				switch c.Op {
				case ast.GreaterThanEqualOp:
					if !(x >= b) {
						return true
					}
				case ast.GreaterThanOp:
					if !(x > b) {
						return true
					}
				case ast.LessThanEqualOp:
					if !(x <= b) {
						return true
					}
				case ast.LessThanOp:
					if !(x < b) {
						return true
					}
				}
			}
		}
	case ast.KindArray:
		if v.K == 'a' {
			for _, e := range v.A {
				if g.violates(t.Array.ValueType, e, depth+1) {
					return true
				}
			}
		}
	case ast.KindMap:
		if v.K == 'o' {
			for _, e := range v.O {
				if g.violates(t.Map.ValueType, e.V, depth+1) {
					return true
				}
			}
		}
	case ast.KindRef:
		o, ok := g.object(t.Ref)
		if ok && o.Type.Kind != ast.KindStruct {
			return g.violates(o.Type, v, depth+1)
		}
	}
	return false
}

// flagViolations sets Violates on the plain arguments of a parsed run
func (g *c09Gen) flagViolations(t ast.Type, a *c09Arg) {
	switch a.Kind {
	case 'j':
		if !g.resolvesToBuilder(t) {
			a.Violates = g.violates(t, a.J, 0)
		}
	case 'l':
		if t.Kind == ast.KindArray {
			for i := range a.L {
				g.flagViolations(t.Array.ValueType, &a.L[i])
			}
		}
	case 'd':
		if t.Kind == ast.KindMap {
			for i := range a.DV {
				g.flagViolations(t.Map.ValueType, &a.DV[i])
			}
		}
	case 'b':
		for _, b := range g.bs {
			if b.Name == a.B {
				for i := range a.Ctor {
					if i < len(b.Constructor.Args) {
						g.flagViolations(b.Constructor.Args[i].Type, &a.Ctor[i])
					}
				}
				for ci := range a.Calls {
					for _, o := range b.Options {
						if o.Name == a.Calls[ci].Opt {
							for i := range a.Calls[ci].Args {
								if i < len(o.Args) {
									g.flagViolations(o.Args[i].Type, &a.Calls[ci].Args[i])
								}
							}
						}
					}
				}
			}
		}
	}
}

// ---------------------------------------------------------------------------------------------
// what the veneers MEAN for option targets, derived from the source term and the veneer text
// alone (not from the builder IR cog computed): option name → member paths it assigns, per
// builder. Only the rules whose documented effect on targets is unambiguous are followed
// (struct_fields_as_options / struct_fields_as_arguments / duplicate / unfold_boolean); options
// touched by other option rules are left to the builder IR.

var c09RuleRe = regexp.MustCompile(`^  - (\w+): \{ by_name: (\w+)\.(\w+)(?:, as: (\w+))?(?:, true_as: (\w+), false_as: (\w+))? \}$`)

var c09MergeRe = regexp.MustCompile(`^  - merge_into: \{ source: (\w+), destination: (\w+), under_path: ([\w.]+)(?:, exclude_options: \[([\w, ]*)\])? \}$`)
var c09OmitRe = regexp.MustCompile(`^  - omit: \{ by_name: (\w+)\.(\w+) \}$`)

func c09StructAt(d *Defs, def string, path []string) *Src {
	cur := d.lookup(def)
	for _, name := range path {
		cur = d.resolve(cur)
		if cur == nil || cur.Kind != SStruct {
			return nil
		}
		var next *Src
		for _, f := range cur.Fields {
			if f.Name == name {
				next = f.Ty
			}
		}
		cur = next
	}
	cur = d.resolve(cur)
	if cur == nil || cur.Kind != SStruct {
		return nil
	}
	return cur
}

func c09ExpectedTargets(d *Defs, veneers string) map[string]map[string]map[string][]string {
	// builder → option → (argument name, or "" for a one-assignment option) → member path
	out := map[string]map[string]map[string][]string{}
	if d == nil {
		return out
	}
	for _, def := range d.Items {
		if def.Ty != nil && def.Ty.Kind == SStruct {
			m := map[string]map[string][]string{}
			for _, f := range def.Ty.Fields {
				m[f.Name] = map[string][]string{"": {f.Name}}
			}
			out[def.Name] = m
		}
	}
	for _, line := range strings.Split(veneers, "\n") {
		if mm := c09MergeRe.FindStringSubmatch(line); mm != nil {
			src, dst := out[mm[1]], out[mm[2]]
			if src == nil || dst == nil {
				continue
			}
			prefix := strings.Split(mm[3], ".")
			excluded := map[string]bool{}
			for _, x := range strings.Split(mm[4], ",") {
				excluded[strings.TrimSpace(x)] = true
			}
			names := make([]string, 0, len(src))
			for name := range src {
				names = append(names, name)
			}
			sort.Strings(names)
			for _, name := range names {
				if excluded[name] {
					continue
				}
				moved := map[string][]string{}
				for arg, p := range src[name] {
					moved[arg] = append(append([]string{}, prefix...), p...)
				}
				dst[name] = moved
			}
			continue
		}
		if mm := c09OmitRe.FindStringSubmatch(line); mm != nil {
			if t := out[mm[1]]; t != nil {
				delete(t, mm[2])
			}
			continue
		}
		m := c09RuleRe.FindStringSubmatch(line)
		if m == nil {
			continue
		}
		rule, obj, opt := m[1], m[2], m[3]
		t := out[obj]
		if t == nil {
			continue
		}
		paths, ok := t[opt]
		switch rule {
		case "struct_fields_as_options", "struct_fields_as_arguments":
			single, one := paths[""]
			if !ok || !one || len(paths) != 1 {
				delete(t, opt)
				continue
			}
			st := c09StructAt(d, obj, single)
			if st == nil {
				continue // not a struct: the rule leaves the option alone
			}
			delete(t, opt)
			if rule == "struct_fields_as_options" {
				for _, g := range st.Fields {
					t[g.Name] = map[string][]string{"": append(append([]string{}, single...), g.Name)}
				}
			} else {
				all := map[string][]string{}
				for _, g := range st.Fields {
					all[g.Name] = append(append([]string{}, single...), g.Name)
				}
				t[opt] = all
			}
		case "duplicate":
			if ok && m[4] != "" {
				t[m[4]] = paths
			}
		case "unfold_boolean":
			if ok && m[5] != "" {
				t[m[5]], t[m[6]] = paths, paths
				delete(t, opt)
			}
		default:
			delete(t, opt) // append / index / disjunction options: targets as the builder IR says
		}
	}
	return out
}

// c09DeepDefs: a chain of required struct members four levels deep whose leaves are siblings of
// one scalar type (so that every flattened option has an assignment path of length >= 4)
func c09DeepDefs(r *rng) *Defs {
	names := []string{"title", "name", "theme", "mode", "sort", "placement", "level", "size", "note", "kind2", "ratio", "link"}
	used := map[string]bool{}
	nm := func() string {
		for {
			n := pick(r, names)
			if !used[n] {
				used[n] = true
				return n
			}
		}
	}
	scalar := func() *Src {
		switch r.intn(4) {
		case 0:
			return srcInt(64, true, nil, nil)
		case 1:
			return srcBool()
		case 2:
			return srcNum(64, nil, nil)
		}
		return srcString()
	}
	leafTy := scalar()
	if leafTy.Kind == SBool {
		leafTy = srcString()
	}
	l3 := srcStruct()
	for i := 0; i < 2+r.intn(3); i++ {
		t := leafTy
		if r.chance(25) {
			t = scalar()
		}
		l3.Fields = append(l3.Fields, fld(nm(), t.clone(), true, false, nil))
	}
	if r.chance(50) {
		// a constrained scalar directly followed by collection members (names chosen so that the
		// order survives the front-ends that sort members by name)
		var con *Src
		if r.chance(60) {
			con = srcStringLen(i64p(int64(2+r.intn(2))), nil)
		} else {
			con = srcInt(64, true, i64p(int64(3+r.intn(5))), nil)
		}
		extra := []Field{fld("acode", con, true, false, nil), fld("atags", srcArray(srcString()), true, false, nil)}
		if r.chance(50) {
			extra = append(extra, fld("azmap", srcDict(srcInt(64, true, nil, nil)), true, false, nil))
		}
		l3.Fields = append(extra, l3.Fields...)
	}
	leg, disp, cfg := "leg"+nm(), "disp"+nm(), "cfg"+nm()
	// each level required or optional (an optional struct member is nil until a nil check fills it)
	req := func() bool { return !r.chance(40) }
	l2 := srcStruct(fld(nm(), scalar(), true, false, nil), fld(leg, srcRef("Legend"), req(), false, nil))
	l1 := srcStruct(fld(nm(), scalar(), true, false, nil), fld(disp, srcRef("Display"), req(), false, nil))
	if r.chance(50) {
		l1.Fields[0], l1.Fields[1] = l1.Fields[1], l1.Fields[0]
	}
	root := srcStruct(fld(nm(), scalar(), true, false, nil), fld(cfg, srcRef("Config"), req(), false, nil))
	return &Defs{Root: "Widget", Items: []Def{{"Widget", root}, {"Config", l1}, {"Display", l2}, {"Legend", l3}}}
}

func c09DeepVeneers(d *Defs, r *rng) string {
	var opts []string
	cur := "Widget"
	chain := []string{}
	for {
		st := d.lookup(cur)
		next := ""
		for _, f := range st.Fields {
			if f.Ty.Kind == SRef {
				chain = append(chain, f.Name)
				next = f.Ty.Ref
			}
		}
		if next == "" {
			break
		}
		cur = next
	}
	if r.chance(40) && len(chain) == 3 {
		// the same flattening through merge_into: every level of the chain merged into the root
		// builder under its member path (1, 2 and 3 segments), the root's own option omitted
		var blds []string
		objs := []string{"Config", "Display", "Legend"}
		for i, obj := range objs {
			rule := fmt.Sprintf("  - merge_into: { source: %s, destination: Widget, under_path: %s", obj, strings.Join(chain[:i+1], "."))
			if i+1 < len(chain) {
				rule += fmt.Sprintf(", exclude_options: [%s]", chain[i+1])
			}
			blds = append(blds, rule+" }")
		}
		return "language: all\npackage: %PKG%\nbuilders:\n" + strings.Join(blds, "\n") + "\noptions:\n  - omit: { by_name: Widget." + chain[0] + " }\n"
	}
	for i, opt := range chain {
		rule := "struct_fields_as_options"
		if i == len(chain)-1 && r.chance(35) {
			rule = "struct_fields_as_arguments"
		}
		opts = append(opts, fmt.Sprintf("  - %s: { by_name: Widget.%s }", rule, opt))
	}
	return "language: all\npackage: %PKG%\noptions:\n" + strings.Join(opts, "\n") + "\n"
}

// c09ListDefs: a list of a union of structs (2..3 branches), to be rewritten into one appending
// option per branch (array_to_append + disjunction_as_options)
func c09ListDefs(r *rng) (*Defs, string) {
	names := []string{"title", "name", "theme", "mode", "sort", "level", "size", "note", "ratio", "link", "count"}
	used := map[string]bool{}
	nm := func() string {
		for {
			n := pick(r, names)
			if !used[n] {
				used[n] = true
				return n
			}
		}
	}
	scalar := func() *Src {
		switch r.intn(3) {
		case 0:
			return srcInt(64, true, nil, nil)
		case 1:
			return srcBool()
		}
		return srcNum(64, nil, nil)
	}
	branchNames := []string{"Panel", "Row", "Graph"}
	tags := []string{"panel", "row", "graph"}
	nb := 2 + r.intn(2)
	var branches []Branch
	var items []Def
	for i := 0; i < nb; i++ {
		st := srcStruct(fld("kind", srcConst(jStr(tags[i])), true, false, nil))
		for k := 0; k < 1+r.intn(2); k++ {
			st.Fields = append(st.Fields, fld(nm(), scalar(), true, false, nil))
		}
		branches = append(branches, Branch{Tag: tags[i], Name: branchNames[i]})
		items = append(items, Def{branchNames[i], st})
	}
	list := "items" + nm()
	root := srcStruct(fld(nm(), scalar(), true, false, nil), fld(list, srcArray(srcOneOfStructs("kind", branches...)), r.chance(60), false, nil))
	d := &Defs{Root: "Board", Items: append([]Def{{"Board", root}}, items...)}
	y := "language: all\npackage: %PKG%\noptions:\n  - array_to_append: { by_name: Board." + list + " }\n  - disjunction_as_options: { by_name: Board." + list + " }\n"
	return d, y
}

// c09StructDefaultDefs: a member referencing a struct, with a struct-level default that overrides
// (shadows) the defaults the struct's own members declare; to be flattened into arguments
func c09StructDefaultDefs(r *rng) (*Defs, string) {
	words := []string{"now", "now-1h", "now-6h", "utc", "auto", "left", "right", "dark", "light"}
	names := []string{"from", "to", "zone", "mode", "theme", "size", "level"}
	used := map[string]bool{}
	nm := func() string {
		for {
			n := pick(r, names)
			if !used[n] {
				used[n] = true
				return n
			}
		}
	}
	inner := srcStruct()
	over := jObj()
	n := 2 + r.intn(2)
	for i := 0; i < n; i++ {
		name := nm()
		if r.chance(50) {
			own, top := pick(r, words), pick(r, words)
			for top == own {
				top = pick(r, words)
			}
			inner.Fields = append(inner.Fields, fld(name, srcString(), true, false, jvp(jStr(own))))
			if i == 0 || r.chance(70) {
				over.set(name, jStr(top))
			}
		} else {
			own := int64(r.intn(50))
			inner.Fields = append(inner.Fields, fld(name, srcInt(64, true, nil, nil), true, false, jvp(jInt(own))))
			if i == 0 || r.chance(70) {
				over.set(name, jInt(own+1+int64(r.intn(20))))
			}
		}
	}
	member := "range" + nm()
	root := srcStruct(fld("title", srcString(), true, false, nil), fld(member, srcRef("Range"), true, false, jvp(over)))
	d := &Defs{Root: "Root", Items: []Def{{"Root", root}, {"Range", inner}}}
	return d, "language: all\npackage: %PKG%\noptions:\n  - struct_fields_as_arguments: { by_name: Root." + member + " }\n"
}

var c09InitRe = regexp.MustCompile(`initialize: \{ by_(object|name): (\w+), set: \[ \{ property: (\w+), value: "?([^" ]+)"? \} \] \}`)
var c09DupRe = regexp.MustCompile(`duplicate: \{ by_(?:object|name): (\w+), as: (\w+)`)

// c09VeneerHints: the values `initialize` rules pin, per "Object.member" (a builder created by a
// `duplicate` rule builds the duplicated object)
func c09VeneerHints(veneers string) map[string][]JV {
	objOf := map[string]string{}
	for _, m := range c09DupRe.FindAllStringSubmatch(veneers, -1) {
		objOf[m[2]] = m[1]
	}
	out := map[string][]JV{}
	for _, m := range c09InitRe.FindAllStringSubmatch(veneers, -1) {
		obj := m[2]
		if o, ok := objOf[obj]; ok && m[1] == "name" {
			obj = o
		}
		v := jStr(m[4])
		if n, err := strconv.ParseInt(m[4], 10, 64); err == nil && !strings.Contains(m[0], `"`+m[4]+`"`) {
			v = jInt(n)
		}
		out[obj+"."+m[3]] = append(out[obj+"."+m[3]], v)
	}
	return out
}

// c09VariantDefs: an object built by several builders that each pin a constant in their
// constructor (duplicate + initialize), some of them also taking a constructor argument
// (promote_options_to_constructor); referenced as a member and as list elements
func c09VariantDefs(r *rng) (*Defs, string) {
	names := []string{"name", "value", "size", "level", "note", "mode", "ratio"}
	used := map[string]bool{}
	nm := func() string {
		for {
			n := pick(r, names)
			if !used[n] {
				used[n] = true
				return n
			}
		}
	}
	disc := pick(r, []string{"kind", "type", "variant"})
	q := srcStruct(fld(disc, srcString(), true, false, nil))
	var strFields []string
	for i := 0; i < 2+r.intn(2); i++ {
		n := nm()
		if i == 0 || r.chance(50) {
			q.Fields = append(q.Fields, fld(n, srcString(), true, false, nil))
			strFields = append(strFields, n)
		} else {
			q.Fields = append(q.Fields, fld(n, srcInt(64, true, nil, nil), true, false, nil))
		}
	}
	root := srcStruct(fld("title", srcString(), true, false, nil))
	if r.chance(70) {
		root.Fields = append(root.Fields, fld("q"+nm(), srcRef("Query"), r.chance(50), false, nil))
	}
	root.Fields = append(root.Fields, fld("list"+nm(), srcArray(srcRef("Query")), false, false, nil))
	d := &Defs{Root: "Root", Items: []Def{{"Root", root}, {"Query", q}}}
	nv := 2 + r.intn(2)
	tags := []string{"query", "const", "interval"}
	var b strings.Builder
	b.WriteString("language: all\npackage: %PKG%\nbuilders:\n")
	bnames := []string{"Query"}
	for i := 1; i < nv; i++ {
		bn := "Query" + strings.ToUpper(tags[i][:1]) + tags[i][1:]
		bnames = append(bnames, bn)
		fmt.Fprintf(&b, "  - duplicate: { by_name: Query, as: %s }\n", bn)
	}
	for i, bn := range bnames {
		fmt.Fprintf(&b, "  - initialize: { by_name: %s, set: [ { property: %s, value: \"%s\" } ] }\n", bn, disc, tags[i])
	}
	// the pinned member is not an option any more (it is what tells the builders apart)
	opts := "options:\n"
	for _, bn := range bnames {
		opts += fmt.Sprintf("  - omit: { by_builder: %s.%s }\n", bn, disc)
	}
	// constructor arguments on some builders other than the first
	for i := 1; i < nv; i++ {
		if i == 1 || r.chance(50) {
			fmt.Fprintf(&b, "  - promote_options_to_constructor: { by_name: %s, options: [%s] }\n", bnames[i], pick(r, strFields))
		}
	}
	return d, b.String() + opts
}

// c09VeneerTopHints: the constants `initialize` rules pin for one builder (by_name) or for the
// object it builds (by_object)
func c09VeneerTopHints(veneers, builder, object string) map[string]JV {
	out := map[string]JV{}
	for _, m := range c09InitRe.FindAllStringSubmatch(veneers, -1) {
		if (m[1] == "name" && m[2] == builder) || (m[1] == "object" && m[2] == object) {
			out[m[3]] = jStr(m[4])
		}
	}
	return out
}
