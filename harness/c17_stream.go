package main

// C17 streams: schemas -> real FromAST -> generated rule files loaded THROUGH the YAML veneers loader
// (internal/yaml) -> real rewrite.Rewriter.ApplyTo, vs the Lean model (`veneer <rules> <schemas> <builders>`),
// plus the implementation-side oracle of c17_oracle.go (well-typedness, frame, rule contracts).
//
//   c17-veneer n= seed= tier=            rows: request \t impl \t verdict \t caseid
//   c17-eval   case=<caseid> [shrink=1]

import (
	"bufio"
	"bytes"
	"fmt"
	"os"
	"path/filepath"
	"strings"

	"github.com/grafana/cog/internal/ast"
	"github.com/grafana/cog/internal/veneers/rewrite"
	cogyaml "github.com/grafana/cog/internal/yaml"
	"gopkg.in/yaml.v3"
)

type c17Case struct {
	schemas  ast.Schemas
	language string
	files    []vFile
}

// rule edits: "rb/<file>/<index>" / "ro/<file>/<index>" drop a builder / option rule, "rf/<file>" drop a file
func applyRuleEdit(files []vFile, e string) []vFile {
	p := strings.Split(e, "/")
	var fi, ri int
	if len(p) >= 2 {
		fmt.Sscanf(p[1], "%d", &fi)
	}
	if len(p) >= 3 {
		fmt.Sscanf(p[2], "%d", &ri)
	}
	if fi < 0 || fi >= len(files) {
		return files
	}
	out := append([]vFile{}, files...)
	switch p[0] {
	case "rf":
		return append(out[:fi], out[fi+1:]...)
	case "rb":
		if ri < len(out[fi].Builders) {
			bs := append([]map[string]any{}, out[fi].Builders...)
			out[fi].Builders = append(bs[:ri], bs[ri+1:]...)
		}
	case "ro":
		if ri < len(out[fi].Options) {
			os := append([]map[string]any{}, out[fi].Options...)
			out[fi].Options = append(os[:ri], os[ri+1:]...)
		}
	}
	return out
}

func c17Gen17(c caseID) c17Case {
	if c.mode == "pinned" {
		return c17Pinned(c.tier)
	}
	r := caseRng(c.seed, c.idx)
	schemas := genC16Schemas(r, c16Opts{tier: c.tier, veneers: true})
	removeAliasCycles(schemas)
	// the rules are drawn against the builders of the unedited schemas, then edits are applied
	bs, pm := runFromAST(schemas)
	if pm != "" {
		bs = nil
	}
	language, files := genVeneerFiles(r, schemas, bs, c.tier)
	for _, e := range c.edits {
		if strings.HasPrefix(e, "r") {
			files = applyRuleEdit(files, e)
		} else {
			schemas = applyEdit(schemas, e)
		}
	}
	return c17Case{schemas: schemas, language: language, files: files}
}

func c17WorkDir() string {
	d := filepath.Join("/verif/.work/c17", fmt.Sprintf("%d", os.Getpid()))
	_ = os.MkdirAll(d, 0o755)
	return d
}

// loadVeneers writes the files, loads them through the real loader, and decodes them a second time
// (same decoder settings) for the VIR text handed to the model.
func loadVeneers(files []vFile) (rw *rewrite.Rewriter, decoded []cogyaml.Veneers, loadErr error, decodeErr error) {
	dir := c17WorkDir()
	names := []string{}
	for i, f := range files {
		name := filepath.Join(dir, fmt.Sprintf("veneers_%d.yaml", i))
		if err := os.WriteFile(name, f.doc(), 0o644); err != nil {
			return nil, nil, err, err
		}
		names = append(names, name)
		v := cogyaml.Veneers{}
		dec := yaml.NewDecoder(bytes.NewReader(f.doc()))
		dec.KnownFields(true)
		if err := dec.Decode(&v); err != nil && decodeErr == nil {
			decodeErr = err
		}
		decoded = append(decoded, v)
	}
	defer func() {
		for _, n := range names {
			_ = os.Remove(n)
		}
	}()
	rw, loadErr = cogyaml.NewVeneersLoader().RewriterFrom(names, rewrite.Config{})
	return rw, decoded, loadErr, decodeErr
}

func runApplyTo(rw *rewrite.Rewriter, schemas ast.Schemas, bs []ast.Builder, language string) (out []ast.Builder, status string) {
	defer func() {
		if e := recover(); e != nil {
			out = nil
			status = "panic"
		}
	}()
	res, err := rw.ApplyTo(schemas, bs, language)
	if err != nil {
		return nil, "err"
	}
	return res, "ok"
}

func c17Row(cs c17Case) (req, impl, verdict string) {
	c17Stats = ""
	if anyAliasCycle(cs.schemas) {
		return "-", "skipped-alias-cycle", "ok"
	}
	bs, pm := runFromAST(cs.schemas)
	if pm != "" {
		return "-", "skipped-fromast-panic", "ok"
	}
	rw, decoded, loadErr, decodeErr := loadVeneers(cs.files)
	if decodeErr != nil {
		// the generator only emits known keys; a decode error means the loader's schema changed
		return "-", "skipped-undecodable-rules " + firstLine(decodeErr.Error()), "FAIL generator-out-of-date: " + firstLine(decodeErr.Error())
	}
	req = "veneer " + virVeneers(cs.language, decoded) + " " + virSchemas(cs.schemas) + " " + virBuilders(bs)
	if loadErr != nil {
		return req, "err", "ok"
	}
	out, status := runApplyTo(rw, cs.schemas, bs, cs.language)
	impl = status
	if status == "ok" {
		impl = "ok " + virBuilders(out)
		verdict = c17Oracle(cs, decoded, out)
	} else {
		verdict = c17OracleFailed(cs, decoded, status)
	}
	if c17Hazard != "" {
		// outside the model's faithful domain: the oracle still judges the real output, the model is not asked
		return "-", "hazard-" + c17Hazard + " " + impl, verdict
	}
	return req, impl, verdict
}

func c17Shrink(c caseID, class string) caseID {
	classOf := func(cc caseID) string {
		cs := c17Gen17(cc)
		_, _, v := c17Row(cs)
		return verdictClass(v)
	}
	changed := true
	for changed {
		changed = false
		cs := c17Gen17(c)
		cands := []string{}
		for fi := len(cs.files) - 1; fi >= 0; fi-- {
			if len(cs.files) > 1 {
				cands = append(cands, fmt.Sprintf("rf/%d", fi))
			}
			for ri := len(cs.files[fi].Builders) - 1; ri >= 0; ri-- {
				cands = append(cands, fmt.Sprintf("rb/%d/%d", fi, ri))
			}
			for ri := len(cs.files[fi].Options) - 1; ri >= 0; ri-- {
				cands = append(cands, fmt.Sprintf("ro/%d/%d", fi, ri))
			}
		}
		if len(cs.schemas) > 1 {
			for _, s := range cs.schemas {
				cands = append(cands, "s/"+s.Package)
			}
		}
		for _, s := range cs.schemas {
			for _, o := range schemaObjects(s) {
				cands = append(cands, "o/"+s.Package+"/"+o.Name)
			}
		}
		for _, s := range cs.schemas {
			for _, o := range schemaObjects(s) {
				if isRealStruct(o.Type) {
					for _, f := range o.Type.Struct.Fields {
						cands = append(cands, "f/"+s.Package+"/"+o.Name+"/"+f.Name)
					}
				}
			}
		}
		for _, e := range cands {
			if strings.ContainsAny(e, ":,") {
				continue
			}
			cc := c
			cc.edits = append(append([]string{}, c.edits...), e)
			if classOf(cc) == class {
				c = cc
				changed = true
				break
			}
		}
	}
	return c
}

func init() {
	register("c17-veneer", func(args map[string]string, out *bufio.Writer) error {
		n := argInt(args, "n", 200)
		seed := argInt(args, "seed", 1)
		tier := args["tier"]
		if tier == "" {
			tier = "quick"
		}
		defer os.RemoveAll(c17WorkDir())
		for i := 0; i < n; i++ {
			c := caseID{seed: seed, idx: i, mode: "v", tier: tier}
			req, impl, verdict := c17Row(c17Gen17(c))
			fmt.Fprintf(out, "%s\t%s\t%s\t%s\t%s\n", req, impl, tagCase(verdict, c), c.String(), c17Stats)
		}
		return nil
	})
	// c17-wt: the well-typedness predicate itself, Go (goWT) vs Lean (WT), on real rewriter outputs
	register("c17-wt", func(args map[string]string, out *bufio.Writer) error {
		n := argInt(args, "n", 200)
		seed := argInt(args, "seed", 1)
		tier := args["tier"]
		if tier == "" {
			tier = "quick"
		}
		defer os.RemoveAll(c17WorkDir())
		for i := 0; i < n; i++ {
			c := caseID{seed: seed, idx: i, mode: "v", tier: tier}
			cs := c17Gen17(c)
			if anyAliasCycle(cs.schemas) {
				continue
			}
			bs, pm := runFromAST(cs.schemas)
			if pm != "" {
				continue
			}
			// the derived builders themselves (conclusion of C17_derived_WT on the real FromAST output)
			fmt.Fprintf(out, "wt %s %s\t%s\tok\t%s\n", virSchemas(cs.schemas), virBuilders(bs), goWTBits(cs.schemas, bs), c.String()+"derived")
			rw, _, loadErr, decodeErr := loadVeneers(cs.files)
			if loadErr != nil || decodeErr != nil {
				continue
			}
			res, status := runApplyTo(rw, cs.schemas, bs, cs.language)
			if status != "ok" {
				continue
			}
			fmt.Fprintf(out, "wt %s %s\t%s\tok\t%s\n", virSchemas(cs.schemas), virBuilders(res), goWTBits(cs.schemas, res), c.String())
		}
		return nil
	})
	register("c17-eval", func(args map[string]string, out *bufio.Writer) error {
		c, err := parseCaseID(args["case"])
		if err != nil {
			return err
		}
		defer os.RemoveAll(c17WorkDir())
		req, impl, verdict := c17Row(c17Gen17(c))
		if args["shrink"] == "1" && strings.HasPrefix(verdict, "FAIL") {
			c = c17Shrink(c, verdictClass(verdict))
			req, impl, verdict = c17Row(c17Gen17(c))
		}
		fmt.Fprintf(out, "%s\t%s\t%s\t%s\n", req, impl, tagCase(verdict, c), c.String())
		if args["dump"] == "1" {
			for i, f := range c17Gen17(c).files {
				fmt.Fprintf(os.Stderr, "--- veneers_%d.yaml\n%s\n", i, f.doc())
			}
		}
		return nil
	})
}
