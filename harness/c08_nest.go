package main

// C08 — structs below two or more container levels.
//
// The generated strict decoder picks, per member type, between a plain json.Unmarshal shortcut
// (collections of scalars) and element-wise decoding through UnmarshalJSONStrict (collections that
// reach a struct). Which one applies is decided by looking at the container nesting, so every
// nesting has to occur with a struct at the bottom:
//      map→array→struct   array→map→struct   map→map→struct   array→array→struct   (and depth 3)
// c08DeepNest rewrites struct-reaching member types of a lab term into such nestings (the inner
// container inline or behind a named collection definition); c08DeepFaults draws single-fault
// documents whose fault sits in a struct that lies below >= 2 container levels.

import (
	"strconv"
	"strings"
)

// c08ReachesStruct: the term is a struct, or a chain of references ending in one.
func c08ReachesStruct(d *Defs, s *Src) bool {
	if s == nil {
		return false
	}
	if s.Kind == SStruct {
		return true
	}
	if s.Kind != SRef {
		return false
	}
	t := d.resolve(s)
	return t != nil && t.Kind == SStruct
}

// c08Containers strips the inline container levels of a member type.
func c08Containers(s *Src) (levels int, inner *Src) {
	for s != nil && (s.Kind == SArray || s.Kind == SDict) {
		levels++
		s = s.Elem
	}
	return levels, s
}

func c08DeepNest(d0 *Defs, r *rng, idx int) *Defs {
	d := d0.clone()
	nDefs := 0
	fresh := func(prefix string) string {
		for {
			nDefs++
			n := prefix + strconv.Itoa(nDefs)
			if d.lookup(n) == nil {
				return n
			}
		}
	}
	// wrap adds the container levels named in kinds (innermost first)
	wrap := func(ty *Src, kinds []SrcKind) *Src {
		for _, k := range kinds {
			if ty.Kind != SRef && ty.Kind != SStruct && r.chance(35) {
				// the inner container behind a named collection definition
				n := fresh("Nest")
				d.Items = append(d.Items, Def{n, ty})
				ty = srcRef(n)
			}
			if k == SArray {
				ty = srcArray(ty)
			} else {
				ty = srcDict(ty)
			}
		}
		return ty
	}
	// the four two-level nestings in rotation (innermost first), so that a handful of terms covers all
	pairs := [][]SrcKind{{SArray, SDict}, {SDict, SArray}, {SDict, SDict}, {SArray, SArray}}
	rot := r.intn(4)
	nextKinds := func(have, need int, top SrcKind) []SrcKind {
		rot++
		out := []SrcKind{}
		if have == 0 {
			out = append(out, pairs[rot%4]...)
		} else if have == 1 {
			// one level exists: choose the outer level so that the rotation's pair results when possible
			p := pairs[rot%4]
			if p[0] != top {
				p = pairs[(rot+1)%4]
			}
			if p[0] != top {
				p = pairs[(rot+2)%4]
			}
			out = append(out, p[1])
		}
		for len(out) < need {
			out = append(out, pick(r, []SrcKind{SArray, SDict}))
		}
		return out[:need]
	}
	wrapped := 0
	for _, st := range c08StructNodes(d) {
		for i := range st.Fields {
			f := &st.Fields[i]
			if f.Default != nil {
				continue
			}
			have, inner := c08Containers(f.Ty)
			if inner == nil || inner.Kind == SNullable || !c08ReachesStruct(d, inner) || !r.chance(65) {
				continue
			}
			need := 0
			if have < 2 {
				need = 2 - have
			}
			if have+need < 3 && r.chance(25) {
				need++
			}
			if need == 0 {
				wrapped++
				continue
			}
			f.Ty = wrap(f.Ty, nextKinds(have, need, f.Ty.Kind))
			wrapped++
		}
	}
	// one more member of the root with the next nesting of the rotation over a struct that has a required
	// member without default (so that every fault kind of the decoder has a site): a handful of terms
	// covers the four nestings whatever the drawn term looks like
	if root := d.lookup(d.Root); root != nil && root.Kind == SStruct {
		target := ""
		for _, it := range d.Items {
			if it.Name == d.Root || it.Ty.Kind != SStruct {
				continue
			}
			for _, f := range it.Ty.Fields {
				ft := d.resolve(f.Ty)
				if f.Required && !f.Nullable && f.Default == nil && ft != nil && ft.Kind != SAny && !d.singleton(ft, 6) {
					target = it.Name
				}
			}
			if target != "" {
				break
			}
		}
		if target == "" {
			target = fresh("DeepItem")
			lo, hi := int64(0), int64(9)
			d.Items = append(d.Items, Def{target, srcStruct(
				Field{Name: "name", Ty: srcString(), Required: true},
				Field{Name: "level", Ty: srcInt(64, true, &lo, &hi)},
			)})
		}
		name := "deepNest"
		for k := 0; ; k++ {
			clash := false
			for _, f := range root.Fields {
				clash = clash || f.Name == name
			}
			if !clash {
				break
			}
			name = "deepNest" + strconv.Itoa(k)
		}
		rot = idx - 1 // the term's position in the stream decides: four consecutive terms cover the four nestings
		root.Fields = append(root.Fields, Field{Name: name, Ty: wrap(srcRef(target), nextKinds(0, 2, SStruct)), Required: r.chance(50)})
		wrapped++
	}
	if wrapped == 0 {
		return d0
	}
	if d.wf() != nil {
		return d0
	}
	return d
}

// c08DeepRun reads a fault-path shape (c08WalkSite) and returns the container nesting directly
// above the deepest-nested struct on the path: "dict/array", "array/array/dict", … ("" when no
// struct on the path lies below two or more container levels).
func c08DeepRun(shape string) string {
	best := []string{}
	run := []string{}
	for _, p := range strings.Split(shape, "/") {
		switch {
		case p == "array" || p == "dict":
			run = append(run, p)
		case strings.HasPrefix(p, "ref(") || p == "nullable":
		case p == "struct" || strings.HasPrefix(p, "struct."):
			if len(run) >= 2 && len(run) > len(best) {
				best = append([]string{}, run...)
			}
			run = run[:0]
		default:
			run = run[:0]
		}
	}
	return strings.Join(best, "/")
}

// c08DeepFaults draws up to n single-fault documents whose fault lies in a struct below two or
// more container levels (kind first, then nesting, then position: uniform over what the
// document offers).
func c08DeepFaults(d *Defs, dg *docGen, n int) []Fault {
	out := []Fault{}
	want := map[string]bool{"notInEnum": true}
	for _, k := range coreFaultKinds {
		want[k] = true
	}
	for try := 0; try < 4*n && len(out) < n; try++ {
		dg.rich = true
		base := dg.validDoc()
		dg.rich = false
		sites := []faultSite{}
		dg.faultSites(srcRef(d.Root), &base, nil, "", &sites)
		type cand struct {
			f   Fault
			run string
		}
		byKind := map[string]map[string][]cand{}
		kinds := []string{}
		runs := map[string][]string{}
		for _, s := range sites {
			if !want[s.kind] {
				continue
			}
			doc, path := s.apply(base)
			steps, ok := c08ParseJSONPath(path)
			if !ok {
				continue
			}
			shape, _, _, _ := c08WalkSite(d, steps, doc)
			run := c08DeepRun(shape)
			if run == "" {
				continue
			}
			if byKind[s.kind] == nil {
				byKind[s.kind] = map[string][]cand{}
				kinds = append(kinds, s.kind)
			}
			if byKind[s.kind][run] == nil {
				runs[s.kind] = append(runs[s.kind], run)
			}
			byKind[s.kind][run] = append(byKind[s.kind][run], cand{Fault{Kind: s.kind, Path: path, Doc: doc, Base: base, CueMayAccept: s.cueOK}, run})
		}
		if len(kinds) == 0 {
			continue
		}
		// two documents per base: the strict kinds are the rarer ones among many constraint sites
		for k := 0; k < 2 && len(out) < n; k++ {
			kind := pick(dg.r, kinds)
			if strict := c08Filter(kinds, func(k string) bool {
				return k == "undeclaredKey" || k == "missingRequired" || k == "nullRequired"
			}); len(strict) > 0 && dg.r.chance(50) {
				kind = pick(dg.r, strict) // the decoder's own kinds: half of the draws
			}
			run := pick(dg.r, runs[kind])
			out = append(out, pick(dg.r, byKind[kind][run]).f)
		}
	}
	return out
}

func c08Filter(xs []string, keep func(string) bool) []string {
	out := []string{}
	for _, x := range xs {
		if keep(x) {
			out = append(out, x)
		}
	}
	return out
}
