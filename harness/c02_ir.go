package main

// C02 stream `c02-ir`: directly constructed IR (harness/irgen.go, well-formed mode: every Kind,
// defaults of every dynamic type, hints, cross-package references) injected into the real
// pipeline through an ordinary common compiler pass, all seven languages. Success of the run ⇒ the
// same checks as for schemas: `go build` of every generated Go package (+ the declaration fragments,
// compared with the Lean model), javac, Python import, placeholder scan of every file.

import (
	"bufio"
	"fmt"
	"os"
	"path/filepath"
	"sort"
	"strings"
	"time"

	"github.com/grafana/cog/internal/ast"
)

type c02IRCase struct {
	c02LangCase
	IR      ast.Schemas
	PostGo  ast.Schemas
	PostErr string
	Pkgs    []string
	Frags   map[string]*c02Fragment
	Shape   string
}

// c02IRShape names the constructs of an IR (what the oracle prints as `trig=` for IR cases).
func c02IRShape(ss ast.Schemas) []string {
	set := map[string]bool{}
	var walk func(t ast.Type, pos string)
	walk = func(t ast.Type, pos string) {
		k := string(t.Kind)
		if t.Kind == ast.KindScalar && t.Scalar != nil {
			k = "scalar." + string(t.Scalar.ScalarKind)
			if t.Scalar.Value != nil {
				k += ".const"
			}
		}
		set[pos+":"+k] = true
		if t.Default != nil {
			set[fmt.Sprintf("default(%T)@%s", t.Default, k)] = true
		}
		if t.Nullable {
			set["nullable@"+k] = true
		}
		switch {
		case t.Kind == ast.KindArray && t.Array != nil:
			walk(t.Array.ValueType, "elem")
		case t.Kind == ast.KindMap && t.Map != nil:
			walk(t.Map.IndexType, "index")
			walk(t.Map.ValueType, "value")
		case t.Kind == ast.KindStruct && t.Struct != nil:
			for _, f := range t.Struct.Fields {
				walk(f.Type, "field")
			}
		case t.Kind == ast.KindDisjunction && t.Disjunction != nil:
			for _, b := range t.Disjunction.Branches {
				walk(b, "branch")
			}
		case t.Kind == ast.KindIntersection && t.Intersection != nil:
			for _, b := range t.Intersection.Branches {
				walk(b, "allOf")
			}
		case t.Kind == ast.KindEnum && t.Enum != nil:
			for _, v := range t.Enum.Values {
				set[fmt.Sprintf("enum-member(%T)", v.Value)] = true
			}
		}
	}
	for _, s := range ss {
		if s.Objects == nil {
			continue
		}
		s.Objects.Iterate(func(_ string, o ast.Object) { walk(o.Type, "object") })
	}
	out := make([]string, 0, len(set))
	for k := range set {
		out = append(out, k)
	}
	sort.Strings(out)
	return out
}

// c02HasAliasCycle: a cycle of references through objects that are bare references, arrays or maps
// (`A = B, B = A`; `A = map[string]A`). `Schemas.ResolveToType` and the Java type formatter recurse
// without bound on these (a fatal stack overflow that cannot be recovered: C04's subject), so such
// IRs are not handed to the pipeline.
func c02HasAliasCycle(ss ast.Schemas) bool {
	var targets func(t ast.Type, acc *[]ast.RefType)
	targets = func(t ast.Type, acc *[]ast.RefType) {
		switch {
		case t.Kind == ast.KindRef && t.Ref != nil:
			*acc = append(*acc, *t.Ref)
		case t.Kind == ast.KindArray && t.Array != nil:
			targets(t.Array.ValueType, acc)
		case t.Kind == ast.KindMap && t.Map != nil:
			targets(t.Map.IndexType, acc)
			targets(t.Map.ValueType, acc)
		}
	}
	edges := map[string][]string{}
	for _, s := range ss {
		if s.Objects == nil {
			continue
		}
		s.Objects.Iterate(func(_ string, o ast.Object) {
			var refs []ast.RefType
			targets(o.Type, &refs)
			for _, r := range refs {
				edges[s.Package+"."+o.Name] = append(edges[s.Package+"."+o.Name], r.ReferredPkg+"."+r.ReferredType)
			}
		})
	}
	state := map[string]int{}
	var visit func(n string) bool
	visit = func(n string) bool {
		switch state[n] {
		case 1:
			return true
		case 2:
			return false
		}
		state[n] = 1
		for _, m := range edges[n] {
			if _, transparent := edges[m]; transparent && visit(m) {
				return true
			}
		}
		state[n] = 2
		return false
	}
	for n := range edges {
		if visit(n) {
			return true
		}
	}
	return false
}

// c02GoModule writes full packages, declaration fragments and the runtime of all cases into one Go
// module and builds it once; returns package path (relative to the module) → diagnostics.
func c02BuildGoModule(work string, cases []*c02IRCase) (map[string]string, error) {
	root := filepath.Join(work, "gomod")
	write := func(rel string, data []byte) error {
		p := filepath.Join(root, rel)
		if err := os.MkdirAll(filepath.Dir(p), 0o755); err != nil {
			return err
		}
		return os.WriteFile(p, data, 0o644)
	}
	if err := write("go.mod", []byte("module "+c02GoModule+"\n\ngo 1.23\n")); err != nil {
		return nil, err
	}
	seen := map[string]bool{}
	for _, c := range cases {
		if c.GenErr != "" {
			continue
		}
		for _, name := range c02SortedNames(c.Files) {
			if !strings.HasPrefix(name, "go/") || !strings.HasSuffix(name, ".go") {
				continue
			}
			rel := strings.TrimPrefix(name, "go/")
			if seen[rel] {
				continue
			}
			seen[rel] = true
			if err := write(rel, c.Files[name]); err != nil {
				return nil, err
			}
		}
		for pkg, frag := range c.Frags {
			// fragments import fragments: one broken template-rendered method must not take the
			// declarations of the packages that refer to it down
			src := frag.Source
			for _, other := range c.Pkgs {
				src = strings.ReplaceAll(src, `"`+c02GoModule+`/`+other+`"`, `"`+c02GoModule+`/frag/`+other+`"`)
			}
			if err := write("frag/"+pkg+"/frag.go", []byte(src)); err != nil {
				return nil, err
			}
		}
	}
	for _, c := range cases {
		if c.GenErr == "" && c.Combo.Converters {
			// generated converters call cog.Dump, which the generated runtime does not contain (C14's
			// finding); supplied as in the shared lab so that it does not hide everything else
			if src, err := cogDumpSource(); err == nil {
				if err := write("cog/dump_lab.go", []byte(src)); err != nil {
					return nil, err
				}
			}
			break
		}
	}
	env := []string{}
	for _, e := range os.Environ() {
		if strings.HasPrefix(e, "GOSUMDB=") || strings.HasPrefix(e, "GOFLAGS=") || strings.HasPrefix(e, "GOPROXY=") || strings.HasPrefix(e, "GOTMPDIR=") || strings.HasPrefix(e, "GOTOOLCHAIN=") {
			continue
		}
		env = append(env, e)
	}
	tmp := filepath.Join(work, "gotmp")
	_ = os.MkdirAll(tmp, 0o755)
	env = append(env, "GOFLAGS=-mod=mod", "GOPROXY=off", "GOTMPDIR="+tmp, "GOTOOLCHAIN=local")
	diags := map[string]string{}
	for round := 0; round < 6; round++ {
		out, err := c02RunCmdEnv(root, 15*time.Minute, env, "go", "build", "-p=16", "./...")
		if err == nil {
			break
		}
		blocks := map[string]string{}
		locs := goErrBlock.FindAllStringSubmatchIndex(out, -1)
		for i, m := range locs {
			end := len(out)
			if i+1 < len(locs) {
				end = locs[i+1][0]
			}
			pkg := strings.TrimSuffix(out[m[2]:m[3]], " [build failed]")
			pkg = strings.TrimPrefix(pkg, c02GoModule+"/")
			blocks[pkg] = strings.TrimSpace(blocks[pkg] + "\n" + strings.TrimSpace(out[m[1]:end]))
		}
		// a package importing one that was taken out in an earlier round: reported outside `# pkg` blocks
		for _, line := range strings.Split(out, "\n") {
			if i := strings.Index(line, ": cannot find module providing package "); i > 0 && !strings.HasPrefix(line, "#") {
				file := line[:i]
				if j := strings.Index(file, ".go:"); j > 0 {
					pkg := filepath.Dir(file[:j])
					if _, dup := blocks[pkg]; !dup {
						dep := strings.TrimPrefix(strings.Fields(line[i+len(": cannot find module providing package "):])[0], c02GoModule+"/")
						dep = strings.TrimSuffix(dep, ":")
						blocks[pkg] = "depends on " + dep + " which does not compile: " + labFirstLine(diags[dep])
					}
				}
			}
		}
		// mutually referring schemas become mutually importing packages: `import cycle not allowed` is
		// reported as a package / imports chain, not as a `# pkg` block
		if strings.Contains(out, "import cycle not allowed") {
			lines := strings.Split(out, "\n")
			for li, line := range lines {
				if !strings.HasPrefix(line, "package "+c02GoModule+"/") {
					continue
				}
				chain := []string{strings.TrimPrefix(strings.TrimSpace(line), "package "+c02GoModule+"/")}
				cyc := false
				for la := li + 1; la < len(lines) && strings.HasPrefix(strings.TrimSpace(lines[la]), "imports "); la++ {
					t := strings.TrimPrefix(strings.TrimSpace(lines[la]), "imports ")
					if i := strings.Index(t, ": import cycle not allowed"); i >= 0 {
						t, cyc = t[:i], true
					}
					chain = append(chain, strings.TrimPrefix(t, c02GoModule+"/"))
				}
				if cyc {
					for _, pkg := range chain {
						if _, dup := blocks[pkg]; !dup {
							blocks[pkg] = pkg + "/types_gen.go:1:1: import cycle not allowed (" + strings.Join(chain, " -> ") + ")"
						}
					}
				}
			}
		}
		if len(blocks) == 0 {
			return nil, fmt.Errorf("go build failed without package diagnostics:\n%s", out)
		}
		progress := false
		for pkg, d := range blocks {
			if _, dup := diags[pkg]; !dup {
				diags[pkg] = d
				progress = true
				// take the package out so that the next round reports the packages it was hiding
				_ = os.RemoveAll(filepath.Join(root, pkg))
			}
		}
		if !progress {
			break
		}
	}
	return diags, nil
}

// c02IRInput: the IR, configuration and languages of case i (a pure function of seed, tier, i).
func c02IRInput(args map[string]string, i int) (ast.Schemas, c02Combo, c02Opts) {
	seed := uint64(argInt(args, "seed", 1))
	combos := c02Combos(args["tier"])
	o := defaultIRGenOpts(args["tier"])
	o.withHints = args["hints"] != "0"
	// the JSON Schema / OpenAPI output jennies do not terminate on a cross-package reference to an
	// object that (transitively) refers to itself (GenerateSchema re-queues "foreign" objects for
	// ever; reported as a C04 finding): odd cases keep cross-package references and leave these two
	// languages out, even cases have all seven languages and package-local references only
	o.crossPkg = i%2 == 1
	id := fmt.Sprintf("i%d", i)
	saved := irPkgNames
	irPkgNames = []string{id + "p", id + "q", id + "r"}
	ir := genSchemas(newRng(seed*1000003+uint64(i)), o)
	irPkgNames = saved
	if args["profile"] != "raw" {
		ir = c02SanitizeIR(ir)
	}
	combo := c02Mode(i+int(seed), combos[(i+int(seed)*5)%len(combos)])
	opts := c02Opts{Types: true, Builders: combo.Builders, Converters: combo.Converters, APIRef: combo.APIRef, Go: combo.Go,
		EnumsAsUnion: combo.EnumsAsUnion, LangMarshal: combo.LangMarshal, LangSkipRuntime: combo.LangSkipRT}
	if o.crossPkg {
		opts.Langs = []string{"go", "python", "java", "typescript", "php"}
	}
	if l, ok := args["langs"]; ok {
		opts.Langs = strings.Split(l, ",")
	}
	return ir, combo, opts
}

func c02IRCases(args map[string]string, work string) ([]*c02IRCase, error) {
	n := argInt(args, "n", 40)
	from := argInt(args, "from", 0)
	bad := map[int]string{}
	for _, k := range strings.Split(args["skip"], ",") {
		var i int
		if _, err := fmt.Sscanf(k, "%d", &i); err == nil {
			bad[i] = "died with a fatal error or did not return"
		}
	}
	cases := []*c02IRCase{}
	for i := from; i < from+n; i++ {
		id := fmt.Sprintf("i%d", i)
		ir, combo, opts := c02IRInput(args, i)
		c := &c02IRCase{c02LangCase: c02LangCase{ID: id, Format: "ir", Combo: combo, Group: c02GroupKey(combo)}, IR: ir, Frags: map[string]*c02Fragment{}}
		c.Shape = strings.Join(c02IRShape(ir), ",")
		for _, s := range ir {
			c.Pkgs = append(c.Pkgs, s.Package)
		}
		cases = append(cases, c)
		if c02HasAliasCycle(ir) {
			c.GenErr = "not-run: reference cycle through aliases / collections (ResolveToType or a type formatter would overflow the stack; C04)"
			continue
		}
		if why, isBad := bad[i]; isBad {
			c.GenErr = "not-run: the pipeline " + why + " on this IR (C04's subject)"
			continue
		}
		// progress marker for the orchestrating parent: a fatal error of the Go runtime (stack overflow in
		// a jenny or a pass) or a run that does not return cannot be recovered in-process
		fmt.Fprintf(os.Stderr, "c02-ir-progress start %d\n", i)
		p, err := c02Pipeline("", "", "", ir, opts, work)
		if err != nil {
			return nil, err
		}
		files, err := c02Run(p)
		if err != nil {
			c.GenErr = err.Error()
			continue
		}
		c.Files = files
		p2, err := c02Pipeline("", "", "", ir, opts, work)
		if err != nil {
			return nil, err
		}
		post, err := c02PostChainGo(p2)
		if err != nil {
			c.PostErr = err.Error()
		}
		c.PostGo = post
		fmt.Fprintf(os.Stderr, "c02-ir-progress done %d\n", i)
		for _, pkg := range c.Pkgs {
			if src, ok := files["go/"+pkg+"/types_gen.go"]; ok {
				if frag, err := c02ExtractFragment(src, pkg); err == nil {
					c.Frags[pkg] = frag
				}
			}
		}
	}
	return cases, nil
}

func init() {
	register("c02-ir-chunk", func(args map[string]string, out *bufio.Writer) error {
		work := labWorkDir("c02ir-" + args["seed"] + "-" + args["tier"] + "-" + args["from"])
		if args["keep"] != "1" {
			defer os.RemoveAll(work)
		}
		cases, err := c02IRCases(args, work)
		if err != nil {
			return err
		}
		godiags, err := c02BuildGoModule(work, cases)
		if err != nil {
			return err
		}
		counts := map[string]int{}
		raw := args["profile"] == "raw"
		if raw {
			// profile=raw: IR as drawn (see c02_irsan.go). Only the model correspondence rows count; what
			// breaks is tallied by class, not reported as findings.
			inner := out
			var buf strings.Builder
			out = bufio.NewWriter(&buf)
			defer func() {
				out.Flush()
				tally := map[string]int{}
				for _, line := range strings.Split(buf.String(), "\n") {
					if line == "" {
						continue
					}
					cols := strings.Split(line, "\t")
					if len(cols) == 3 && strings.HasPrefix(cols[2], "FAIL") {
						f := strings.Fields(cols[2])
						key := f[1]
						for _, w := range f {
							if strings.HasPrefix(w, "class=") {
								key += " " + w
							}
						}
						tally[key]++
						continue
					}
					fmt.Fprintln(inner, line)
				}
				fmt.Fprintf(inner, "-\traw-profile failures by class (not findings) %v\tok\n", tally)
			}()
		}
		describe := func(ic *c02IRCase, lang, class string) string {
			return fmt.Sprintf("lang=%s class=%s trig=%s format=ir %s src=ir:%s", lang, class, ic.Shape, ic.Combo.String(), virSchemas(ic.IR))
		}
		rc, err := c02ReportModule(out, work, cases, godiags, describe)
		if err != nil {
			return err
		}
		for k, v := range rc {
			counts[k] += v
		}
		fmt.Fprintf(out, "-\tstats cases=%d %v\tok\n", len(cases), counts)
		return nil
	})
}

func init() {
	// c02-ir-show: print the generated IR of one index (debugging)
	register("c02-ir-show", func(args map[string]string, out *bufio.Writer) error {
		seed := uint64(argInt(args, "seed", 1))
		i := argInt(args, "from", 0)
		o := defaultIRGenOpts(args["tier"])
		ir := genSchemas(newRng(seed*1000003+uint64(i)), o)
		fmt.Fprintln(out, virSchemas(ir))
		return nil
	})
}

func init() {
	// c02-ir: orchestrator. The cases are processed by child processes in chunks; a child that dies
	// (fatal stack overflow) or exceeds its time limit is restarted without the case it was working on.
	register("c02-ir", func(args map[string]string, out *bufio.Writer) error {
		self, err := os.Executable()
		if err != nil {
			return err
		}
		n := argInt(args, "n", 40)
		from := argInt(args, "from", 0)
		chunk := argInt(args, "chunk", 20)
		for lo := from; lo < from+n; lo += chunk {
			k := chunk
			if lo+k > from+n {
				k = from + n - lo
			}
			skip := []string{}
			for attempt := 0; ; attempt++ {
				cargs := []string{"c02-ir-chunk", fmt.Sprintf("from=%d", lo), fmt.Sprintf("n=%d", k), "skip=" + strings.Join(skip, ",")}
				for _, key := range []string{"seed", "tier", "hints", "langs", "profile", "keep"} {
					if v, ok := args[key]; ok {
						cargs = append(cargs, key+"="+v)
					}
				}
				stdout, stderr, err := c02RunSplit(time.Duration(120+20*k)*time.Second, self, cargs...)
				if err == nil {
					out.WriteString(stdout)
					break
				}
				started, done := -1, -1
				for _, line := range strings.Split(stderr, "\n") {
					var i int
					if _, e := fmt.Sscanf(line, "c02-ir-progress start %d", &i); e == nil {
						started = i
					}
					if _, e := fmt.Sscanf(line, "c02-ir-progress done %d", &i); e == nil {
						done = i
					}
				}
				if started < 0 || started == done || attempt > k {
					return fmt.Errorf("c02-ir-chunk from=%d n=%d failed outside a pipeline run: %v\n%s", lo, k, err, c02Tail(stderr, 3000))
				}
				why := "did not return within the time limit"
				if strings.Contains(stderr, "stack overflow") {
					why = "fatal error: stack overflow"
				} else if strings.Contains(stderr, "fatal error:") {
					why = "fatal error"
				}
				fmt.Fprintf(out, "-\tskip i%d not-run: the pipeline %s on this IR (C04's subject)\tok\n", started, why)
				skip = append(skip, fmt.Sprint(started))
			}
		}
		return nil
	})
}

func c02Tail(s string, n int) string {
	if len(s) > n {
		return s[len(s)-n:]
	}
	return s
}

// c02ReportModule prints the rows of cases that were built in one Go module (c02BuildGoModule): the
// declaration fragments against the Lean model, every Go package, then Java / Python / placeholders.
func c02ReportModule(out *bufio.Writer, work string, cases []*c02IRCase, godiags map[string]string,
	describeCase func(c *c02IRCase, lang, class string) string) (map[string]int, error) {
	counts := map[string]int{}
	lcs := []*c02LangCase{}
	byID := map[string]*c02IRCase{}
	for _, c := range cases {
		lcs = append(lcs, &c.c02LangCase)
		byID[c.ID] = c
	}
	describe := func(c *c02LangCase, lang, class string) string { return describeCase(byID[c.ID], lang, class) }
	for _, c := range cases {
		if c.GenErr != "" {
			continue
		}
		// declaration fragments vs. the Lean model, one row per package
		if c.PostErr == "" && len(c.Frags) > 0 {
			fmt.Fprintf(out, "defschemas %s %s\tok\tok\n", c.ID, virSchemas(c.PostGo))
			for _, pkg := range c.Pkgs {
				frag := c.Frags[pkg]
				if frag == nil {
					continue
				}
				verdict := "welltyped"
				if d := godiags["frag/"+pkg]; strings.HasPrefix(d, "depends on ") {
					// the fragment of an imported package does not compile: the compiler never looked at this one
					fmt.Fprintf(out, "-\tskip %s/%s fragment-not-compiled %s\tok\n", c.ID, pkg, labOneLine(labFirstLine(d)))
					continue
				} else if strings.Contains(d, "import cycle not allowed") {
					// imports are outside the model: mutually referring packages cannot be compiled at all
					fmt.Fprintf(out, "-\tskip %s/%s fragment-in-import-cycle\tok\n", c.ID, pkg)
					continue
				} else if d != "" {
					verdict = "illtyped:" + c02FirstDiag(d)
				}
				fmt.Fprintf(out, "godecl %s %s %s\t%s %s\tok\n", c.ID, pkg, goFlagBits(c.Combo.Go), verdict, frag.Stripped)
			}
		}
		// whole Go packages
		bad := false
		for _, pkg := range c.Pkgs {
			if d := godiags[pkg]; strings.HasPrefix(d, "depends on ") {
				bad = true
				counts["go-dependency-broken"]++
				fmt.Fprintf(out, "-\tgo %s/%s not-compiled %s\tok\n", c.ID, pkg, labOneLine(labFirstLine(d)))
				break
			} else if d != "" {
				bad = true
				counts["go-fail"]++
				fmt.Fprintf(out, "-\tgo %s/%s compile-error %s\tFAIL go-compile %s diag=%s\n", c.ID, pkg, labOneLine(labFirstLine(d)),
					describe(&c.c02LangCase, "go", c02FirstDiag(d)), labOneLine(labFirstLine(d)))
				break
			}
		}
		if !bad {
			counts["go-ok"]++
			fmt.Fprintf(out, "-\tgo %s ok\tok\n", c.ID)
		}
	}
	if d := godiags["cog"]; d != "" {
		fmt.Fprintf(out, "-\tgo runtime compile-error %s\tFAIL go-compile lang=go class=%s trig=runtime src=-\n", labOneLine(labFirstLine(d)), c02FirstDiag(d))
	}
	lc, err := c02ReportLangs(out, work, lcs, describe)
	if err != nil {
		return nil, err
	}
	for k, v := range lc {
		counts[k] += v
	}
	return counts, nil
}
