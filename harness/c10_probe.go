package main

// c10-probe: debugging aid — terms with defaults through the lab; prints the Src, the post-chain
// IR of both languages, the generated constructor text and what `new` answers.

import (
	"bufio"
	"fmt"
	"strings"
)

func c10CtorText(c *LabCase) (string, string) {
	gosrc := string(c.Files["go/"+c.ID+"/types_gen.go"])
	var g strings.Builder
	lines := strings.Split(gosrc, "\n")
	for i := 0; i < len(lines); i++ {
		if strings.HasPrefix(lines[i], "func New") {
			for ; i < len(lines); i++ {
				g.WriteString(lines[i] + "\n")
				if lines[i] == "}" {
					break
				}
			}
		}
	}
	pysrc := string(c.Files["python/models/"+c.ID+".py"])
	var p strings.Builder
	plines := strings.Split(pysrc, "\n")
	for i := 0; i < len(plines); i++ {
		if strings.HasPrefix(plines[i], "class ") {
			p.WriteString(plines[i] + "\n")
		}
		if strings.Contains(plines[i], "def __init__") {
			for ; i < len(plines); i++ {
				if strings.TrimSpace(plines[i]) == "" {
					break
				}
				p.WriteString(plines[i] + "\n")
			}
		}
	}
	return g.String(), p.String()
}

func init() {
	register("c10-probe", func(args map[string]string, out *bufio.Writer) error {
		opts := defaultLabOpts()
		opts.Degrade = argInt(args, "degrade", opts.Degrade)
		opts.Keep = args["keep"] == "1"
		opts.NoSchemaOut = true
		lab, err := NewLab(labWorkDir("c10probe"), opts)
		if err != nil {
			return err
		}
		defer lab.Close()
		err = iterDefs(args, func(i int, d *Defs) error {
			for _, f := range labFormats {
				if only, ok := args["format"]; ok && only != f {
					continue
				}
				lab.AddCase(d, f)
			}
			return nil
		})
		if err != nil {
			return err
		}
		if err := lab.Build(); err != nil {
			return err
		}
		for _, c := range lab.Cases {
			fmt.Fprintf(out, "=== %s %s degraded=%v notes=%v unsupported=%v\n", c.ID, c.Format, c.Degraded, c.Notes, c.Unsupported)
			if c.Defs == nil {
				continue
			}
			fmt.Fprintf(out, "src   %s\n", c.Defs.sexp())
			if args["text"] == "1" {
				fmt.Fprintf(out, "%s\n", c.SchemaText)
			}
			if c.GenErr != "" {
				fmt.Fprintf(out, "GENERR %s\n", labOneLine(c.GenErr))
				continue
			}
			if args["ir"] == "1" {
				fmt.Fprintf(out, "irgo  %s\nirpy  %s\n", virSchemas(c.IRGo), virSchemas(c.IRPy))
			}
			g, p := c10CtorText(c)
			if args["code"] != "0" {
				fmt.Fprintf(out, "%s%s", g, p)
			}
			if !c.GoOK {
				fmt.Fprintf(out, "GOCOMPILE %s\n", labOneLine(c.GoCompileErr))
			}
			if !c.PyOK {
				fmt.Fprintf(out, "PYIMPORT %s\n", labOneLine(c.PyImportErr))
			}
			var gr, pr []LabReq
			for _, o := range c.GoObjects {
				if o.HasNew {
					gr = append(gr, LabReq{c.ID, o.Name, "new", nil})
				}
			}
			for _, o := range c.PyObjects {
				if o.HasNew {
					pr = append(pr, LabReq{c.ID, o.Name, "new", nil})
				}
			}
			for i, r := range lab.GoCall(gr) {
				fmt.Fprintf(out, "go  new %s -> %s\n", gr[i].Object, r)
			}
			for i, r := range lab.PyCall(pr) {
				fmt.Fprintf(out, "py  new %s -> %s\n", pr[i].Object, r)
			}
		}
		return nil
	})
}
