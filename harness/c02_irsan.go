package main

// C02 — the "schema-like" profile of directly constructed IR. harness/irgen.go draws IR far outside
// what any front-end produces (names that collide after case folding on purpose, defaults whose
// dynamic type has nothing to do with the type they sit on, members named "", "-1", "foo bar").
// Run as drawn, almost every such IR breaks the output of every language in its own way; that
// stream (`profile=raw`) is kept for the model correspondence and for counting, not for findings.
// `c02SanitizeIR` rewrites a drawn IR into the profile the property's oracle is applied to:
//   * object, field and enum-member names are identifier-like and distinct after
//     UpperCamelCase + lower-casing (later duplicates are dropped, references follow);
//   * a default / constant value is kept only when its dynamic Go type is the canonical one of the
//     scalar kind it sits on (string/bool/int64/float64) and fits it; defaults elsewhere are dropped;
//   * hints are dropped; map index types are `string`; constant references become strings and
//     composable slots become `any` (they need kind-registry context no IR generator provides).
// Everything else (every kind, nesting, nullability, disjunctions, intersections, recursion
// through references, cross-package references) is kept as drawn.

import (
	"strings"

	"github.com/grafana/cog/internal/ast"
	"github.com/grafana/cog/internal/tools"
)

func c02Fold(name string) string { return strings.ToLower(tools.UpperCamelCase(name)) }

func c02IdentLike(name string) bool {
	u := tools.UpperCamelCase(name)
	return u != "" && (u[0] >= 'A' && u[0] <= 'Z')
}

func c02ScalarAccepts(kind ast.ScalarKind, v any) bool {
	switch kind {
	case ast.KindString:
		_, ok := v.(string)
		return ok
	case ast.KindBool:
		_, ok := v.(bool)
		return ok
	case ast.KindFloat32, ast.KindFloat64:
		switch v.(type) {
		case float64, int64:
			return true
		}
		return false
	case ast.KindInt64, ast.KindInt32, ast.KindInt16, ast.KindInt8, ast.KindUint64, ast.KindUint32, ast.KindUint16, ast.KindUint8:
		n, ok := v.(int64)
		if !ok {
			return false
		}
		switch kind {
		case ast.KindInt8:
			return n >= -128 && n <= 127
		case ast.KindUint8:
			return n >= 0 && n <= 255
		case ast.KindInt16:
			return n >= -32768 && n <= 32767
		case ast.KindUint16:
			return n >= 0 && n <= 65535
		case ast.KindUint32, ast.KindUint64:
			return n >= 0
		}
		return true
	}
	return false
}

type c02San struct {
	// (pkg, folded object name) → kept object name
	kept map[string]string
}

func (s *c02San) ty(t ast.Type) ast.Type {
	t.Hints = nil
	switch {
	case t.Kind == ast.KindScalar && t.Scalar != nil:
		sc := *t.Scalar
		if sc.Value != nil && !c02ScalarAccepts(sc.ScalarKind, sc.Value) {
			sc.Value = nil
		}
		t.Scalar = &sc
		if t.Default != nil && (sc.Value != nil || !c02ScalarAccepts(sc.ScalarKind, t.Default)) {
			t.Default = nil
		}
		return t
	case t.Kind == ast.KindRef && t.Ref != nil:
		r := *t.Ref
		if k, ok := s.kept[r.ReferredPkg+"\x00"+c02Fold(r.ReferredType)]; ok {
			r.ReferredType = k
		}
		t.Ref = &r
		t.Default = nil
		return t
	case t.Kind == ast.KindConstantRef:
		out := ast.String()
		out.Nullable = t.Nullable
		return out
	case t.Kind == ast.KindComposableSlot:
		out := ast.Any()
		return out
	case t.Kind == ast.KindArray && t.Array != nil:
		a := *t.Array
		a.ValueType = s.ty(a.ValueType)
		t.Array = &a
		t.Default = nil
		return t
	case t.Kind == ast.KindMap && t.Map != nil:
		m := *t.Map
		m.IndexType = ast.String()
		m.ValueType = s.ty(m.ValueType)
		t.Map = &m
		t.Default = nil
		return t
	case t.Kind == ast.KindStruct && t.Struct != nil:
		st := *t.Struct
		seen := map[string]bool{}
		fields := []ast.StructField{}
		for _, f := range st.Fields {
			k := c02Fold(f.Name)
			if !c02IdentLike(f.Name) || seen[k] {
				continue
			}
			seen[k] = true
			f.Type = s.ty(f.Type)
			fields = append(fields, f)
		}
		st.Fields = fields
		t.Struct = &st
		t.Default = nil
		return t
	case t.Kind == ast.KindEnum && t.Enum != nil:
		e := *t.Enum
		seen := map[string]bool{}
		seenVal := map[any]bool{}
		vals := []ast.EnumValue{}
		for _, v := range e.Values {
			name := v.Name
			if !c02IdentLike(name) {
				name = "V" + tools.UpperCamelCase(name)
			}
			k := c02Fold(name)
			if seen[k] || seenVal[v.Value] {
				continue
			}
			seen[k], seenVal[v.Value] = true, true
			v.Name = name
			v.Type.Hints = nil
			vals = append(vals, v)
		}
		e.Values = vals
		t.Enum = &e
		t.Default = nil
		return t
	case t.Kind == ast.KindDisjunction && t.Disjunction != nil:
		d := *t.Disjunction
		bs := make(ast.Types, 0, len(d.Branches))
		for _, b := range d.Branches {
			bs = append(bs, s.ty(b))
		}
		d.Branches = bs
		t.Disjunction = &d
		t.Default = nil
		return t
	case t.Kind == ast.KindIntersection && t.Intersection != nil:
		in := *t.Intersection
		bs := make([]ast.Type, 0, len(in.Branches))
		for _, b := range in.Branches {
			bs = append(bs, s.ty(b))
		}
		in.Branches = bs
		t.Intersection = &in
		t.Default = nil
		return t
	}
	t.Default = nil
	return t
}

// c02SanitizeIR returns the schema-like rewrite of ir (ir itself is not modified).
func c02SanitizeIR(ir ast.Schemas) ast.Schemas {
	s := &c02San{kept: map[string]string{}}
	keep := map[string]bool{}
	for _, sch := range ir {
		if sch.Objects == nil {
			continue
		}
		sch.Objects.Iterate(func(_ string, o ast.Object) {
			key := sch.Package + "\x00" + c02Fold(o.Name)
			if _, dup := s.kept[key]; dup || !c02IdentLike(o.Name) {
				return
			}
			s.kept[key] = o.Name
			keep[sch.Package+"\x00"+o.Name] = true
		})
	}
	out := ast.Schemas{}
	for _, sch := range ir {
		n := ast.NewSchema(sch.Package, ast.SchemaMeta{})
		if sch.Objects != nil {
			sch.Objects.Iterate(func(_ string, o ast.Object) {
				if !keep[sch.Package+"\x00"+o.Name] {
					return
				}
				c := o.DeepCopy()
				c.Type = s.ty(c.Type)
				n.AddObject(c)
			})
		}
		if sch.EntryPoint != "" && keep[sch.Package+"\x00"+sch.EntryPoint] {
			n.EntryPoint = sch.EntryPoint
			n.EntryPointType = ast.NewRef(sch.Package, sch.EntryPoint)
		}
		out = append(out, n)
	}
	return out
}
