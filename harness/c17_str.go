package main

// c17-str: the string helpers the veneers rely on (tools.LowerCamelCase/UpperCamelCase/Singularize,
// strings.EqualFold, strings.Cut) against their ASCII models (lean/Cog/Builder/Str.lean), exhaustively
// over short strings of a small alphabet.

import (
	"bufio"
	"fmt"
	"strings"

	"github.com/grafana/cog/internal/tools"
)

func init() {
	register("c17-str", func(args map[string]string, out *bufio.Writer) error {
		maxLen := argInt(args, "len", 4)
		alphabet := []string{"a", "B", "s", "S", "1", "_", " ", "."}
		words := []string{""}
		frontier := []string{""}
		for l := 0; l < maxLen; l++ {
			next := []string{}
			for _, w := range frontier {
				for _, c := range alphabet {
					next = append(next, w+c)
				}
			}
			words = append(words, next...)
			frontier = next
		}
		words = append(words, "int64", "composable_slot", "constant_ref", "Foo", "FOO", "foo", "fooBar", "x_y", "xY", "tags", "Tags", "entries", "strategies", "ArrayOfString")
		for _, w := range words {
			fmt.Fprintf(out, "bstr lcc %s\t%s\tok\n", virQuote(w), virQuote(tools.LowerCamelCase(w)))
			fmt.Fprintf(out, "bstr ucc %s\t%s\tok\n", virQuote(w), virQuote(tools.UpperCamelCase(w)))
			fmt.Fprintf(out, "bstr sing %s\t%s\tok\n", virQuote(w), virQuote(tools.Singularize(w)))
			a, b, found := strings.Cut(w, ".")
			cut := "none"
			if found {
				cut = virQuote(a) + " " + virQuote(b)
			}
			fmt.Fprintf(out, "bstr cut %s\t%s\tok\n", virQuote(w), cut)
		}
		for i, w := range words {
			if len(w) > 3 {
				continue
			}
			for _, v := range words[i:] {
				if len(v) == len(w) && len(v) > 0 {
					fmt.Fprintf(out, "bstr fold %s %s\t%v\tok\n", virQuote(w), virQuote(v), strings.EqualFold(w, v))
				}
			}
		}
		return nil
	})
}
